(* Concrete pipelines of adapted elements (non-vacuity of Elem/Compose.v) and the laws of one concrete family,
   Port >> Wire >> TokenBucket, spelled out in the vocabulary of the three models. *)
From Coq Require Import ZArith QArith List Bool Permutation.
From ONL Require Import Elem.Packet Elem.StoreQ Elem.Wire Elem.Port Elem.Bucket Elem.BucketProofs Elem.SchedBase Elem.SP
  Elem.Iface Elem.Compose Elem.AdaptWire Elem.AdaptPort Elem.AdaptBucket Elem.AdaptSched.
Import ListNotations.

Theorem port_wire_tb_conserves : forall (pc : pcfg) (loss : option Q) (tc : tbcfg) (t0 : Q),
  0 < Bucket.rate tc -> (forall k, peak_on tc = Some k -> 0 < k) ->
  let E := pipeline (port_elem pc t0) [wire_elem loss t0; tb_elem tc t0] in
  forall acts s tr, run E (init E) acts = Some (s, tr) ->
    Permutation (puts tr) (fwds tr ++ drops tr ++ port_held (fst s) ++ wheld (fst (snd s)) ++ tb_held (snd (snd s)))
    /\ (forall f, sublist (filter (on_flow f) (fwds tr)) (filter (on_flow f) (puts tr)))
    /\ (Forall (fun p => (0 <= psize p)%Z) (puts tr) -> urgent E s = false -> deadline E s = None ->
        Permutation (puts tr) (fwds tr ++ drops tr)).
Proof.
  intros pc loss tc t0 R K E acts s tr H.
  assert (L : laws E).
  { apply pipeline_laws; [apply port_elem_laws|]. constructor; [apply wire_elem_laws|].
    constructor; [apply tb_elem_laws; split; assumption|constructor]. }
  destruct L as [C F D]. split; [exact (C _ _ _ H)|]. split; [intros f; exact (F f _ _ _ H)|].
  intros Sz U Dl. pose proof (C _ _ _ H) as HC. rewrite (D _ _ _ H) in HC; auto.
  - rewrite app_nil_r in HC. exact HC.
  - eapply Forall_impl; [|exact Sz]. intros p Hp. cbn. apply Z.leb_le. exact Hp.
Qed.

(* ---- Port(1024 bit/s, limit 2 packets) >> Wire(delay 1/2) >> TokenBucket(512 bit/s, 128 B) ------------------- *)
Definition ex_port : pcfg := port_cfg all_fixed 1024 (Some 2%Z) false (Some 1%Z).
Definition ex_tb : tbcfg := {| Bucket.rate := 512; bsize := 128; peak := None |}.
Definition ex_pipe : elem := pipeline (port_elem ex_port 0) [wire_elem None 0; tb_elem ex_tb 0].
Definition xp (i : nat) : pkt := mkp i (Z.of_nat i + 1) 0 128 0.
Definition XP (a : paction) : iact (lab ex_pipe) := IStep (inl a).
Definition XW (a : waction) : iact (lab ex_pipe) := IStep (inr (inl a)).
Definition XT (a : taction) : iact (lab ex_pipe) := IStep (inr (inr a)).
Definition ex_acts : list (iact (lab ex_pipe)) :=
  [XP PInit; XW WInit; XT TInit; IPut (xp 0); XP PStoreCb; IPut (xp 1); IPut (xp 2); XP Port.PGet; XP PStoreCb; IAdv 1;
   XP PTimer; XW WStoreCb; XP Port.PGet; XW (WGet None (Some (1#2))); IAdv (3#2); XW WTimer; XT TStoreCb; XT TGet;
   IAdv 2; XP PTimer; XW WStoreCb; XW (WGet None (Some (1#2))); IAdv (5#2); XW WTimer; XT TStoreCb; XT TGet; IAdv (7#2);
   XT TTimer].

Example ex_pipe_run :
  exists s tr, run ex_pipe (init ex_pipe) ex_acts = Some (s, tr) /\
    puts tr = [xp 0; xp 1; xp 2] /\ fwds tr = [xp 0; xp 1] /\ drops tr = [xp 2] /\
    hands 0 tr = [xp 0; xp 1] /\ hands 1 tr = [xp 0; xp 1] /\
    tfwds tr = [(3 # 2, xp 0); (7 # 2, xp 1)] /\
    held ex_pipe s = [] /\ urgent ex_pipe s = false /\ deadline ex_pipe s = None.
Proof. eexists. eexists. split; [vm_compute; reflexivity|]. vm_compute. repeat split. Qed.

Example ex_pipe_held :
  exists s tr, run ex_pipe (init ex_pipe) (firstn 14 ex_acts) = Some (s, tr) /\
    puts tr = [xp 0; xp 1; xp 2] /\ fwds tr = [] /\ drops tr = [xp 2] /\
    port_held (fst s) = [xp 1] /\ wheld (fst (snd s)) = [xp 0] /\ tb_held (snd (snd s)) = [] /\
    deadline ex_pipe s = Some (3 # 2).
Proof. eexists. eexists. split; [vm_compute; reflexivity|]. vm_compute. repeat split. Qed.

(* ---- Wire(delay 0) >> SP(flow 1 before flow 0, 1024 bit/s) >> Port(rate 0, no limit) ------------------------- *)
Definition ex2_port : pcfg := port_cfg all_fixed 0 None false None.
Definition ex2_pipe : elem :=
  pipeline (wire_elem None 0) [sp_elem 1024 (fun f => f) [0%Z; 1%Z] [(0%Z, 1%Z); (1%Z, 2%Z)]; port_elem ex2_port 0].
Definition yp (i : nat) (f : Z) : pkt := mkp i (Z.of_nat i + 1) f 128 0.
Definition YW (a : waction) : iact (lab ex2_pipe) := IStep (inl a).
Definition YS (a : saction) : iact (lab ex2_pipe) := IStep (inr (inl a)).
Definition YP (a : paction) : iact (lab ex2_pipe) := IStep (inr (inr a)).
Definition ex2_acts : list (iact (lab ex2_pipe)) :=
  [YW WInit; YS SInit; YP PInit; IPut (yp 0 0); IPut (yp 1 1); IPut (yp 2 0);
   YW WStoreCb; YW (WGet None (Some 0)); YW WStoreCb; YW WStoreCb; YW (WGet None (Some 0)); YW (WGet None (Some 0));
   YS (SStoreCb None); YS (SStoreCb (Some 0%Z)); YS (SStoreCb (Some 1%Z)); YS (SStoreCb (Some 0%Z));
   YS (SGetDone None); YS (SGetDone (Some 1%Z)); YS SChildInit; IAdv 1; YS SChildTimer; YS SChildEnd;
   YP PStoreCb; YP Port.PGet;
   YS (SGetDone (Some 0%Z)); YS SChildInit; IAdv 2; YS SChildTimer; YS SChildEnd; YP PStoreCb; YP Port.PGet;
   YS (SGetDone (Some 0%Z)); YS SChildInit; IAdv 3; YS SChildTimer; YS SChildEnd; YP PStoreCb; YP Port.PGet].

Example ex2_pipe_run :
  exists s tr, run ex2_pipe (init ex2_pipe) ex2_acts = Some (s, tr) /\
    puts tr = [yp 0 0; yp 1 1; yp 2 0] /\ fwds tr = [yp 1 1; yp 0 0; yp 2 0] /\ drops tr = [] /\ held ex2_pipe s = [].
Proof. eexists. eexists. split; [vm_compute; reflexivity|]. vm_compute. repeat split. Qed.

(* ---- fan-in: two rate-0 ports (flow 0 into the first, the other flows into the second) into one SP ------------- *)
From ONL Require Import Elem.ComposePar Elem.ComposeHands Elem.AdaptTagged.

Definition ex3_sel (p : pkt) : bool := Z.eqb (flow p) 0.
Definition ex3_net : elem :=
  fanin ex3_sel (port_elem ex2_port 0) (port_elem ex2_port 0) (sp_elem 1024 (fun f => f) [0%Z; 1%Z] [(0%Z, 1%Z); (1%Z, 2%Z)]).
Definition ZA (a : paction) : iact (lab ex3_net) := IStep (inl (inl a)).
Definition ZB (a : paction) : iact (lab ex3_net) := IStep (inl (inr a)).
Definition ZS (a : saction) : iact (lab ex3_net) := IStep (inr a).
Definition ex3_acts : list (iact (lab ex3_net)) :=
  [ZA PInit; ZB PInit; ZS SInit; IPut (yp 0 0); IPut (yp 1 1); ZA PStoreCb; ZA Port.PGet; ZB PStoreCb; ZB Port.PGet;
   ZS (SStoreCb None); ZS (SStoreCb (Some 0%Z)); ZS (SStoreCb (Some 1%Z)); ZS (SGetDone None); ZS (SGetDone (Some 1%Z));
   ZS SChildInit; IAdv 1; ZS SChildTimer; ZS SChildEnd; ZS (SGetDone (Some 0%Z)); ZS SChildInit; IAdv 2; ZS SChildTimer; ZS SChildEnd].

Example ex3_fanin_run :
  exists s tr, run ex3_net (init ex3_net) ex3_acts = Some (s, tr) /\
    puts tr = [yp 0 0; yp 1 1] /\ fwds tr = [yp 1 1; yp 0 0] /\ drops tr = [] /\
    hands 1 tr = [yp 0 0; yp 1 1] /\ held ex3_net s = [] /\ urgent ex3_net s = false /\ deadline ex3_net s = None.
Proof. eexists. eexists. split; [vm_compute; reflexivity|]. vm_compute. repeat split. Qed.

(* ---- fan-out: Wire(delay 0) -> FlowDemux(two outputs, no default) -> two rate-0 ports; flow 2 has no route ------ *)
From ONL Require Import Route.Demux Elem.ComposeFan.
Local Open Scope Q_scope.

Definition ex4_route : Z -> Demux.output := flowdemux true {| fd_nouts := 2%nat; fd_default := false |}.
Definition ex4_net : elem := fanout ex4_route 0 (wire_elem None 0) (port_elem ex2_port 0) (port_elem ex2_port 0).
Definition VW (a : waction) : iact (lab ex4_net) := IStep (inl a).
Definition VB (a : paction) : iact (lab ex4_net) := IStep (inr (inr (inl a))).
Definition VC (a : paction) : iact (lab ex4_net) := IStep (inr (inr (inr a))).
Definition ex4_acts : list (iact (lab ex4_net)) :=
  [VW WInit; VB PInit; VC PInit; IPut (yp 0 0); IPut (yp 1 1); IPut (yp 2 2); VW WStoreCb; VW (WGet None (Some 0));
   VW WStoreCb; VW WStoreCb; VW (WGet None (Some 0)); VW (WGet None (Some 0));
   VC PStoreCb; VC Port.PGet; VB PStoreCb; VB Port.PGet].

Example ex4_fanout_run :
  exists s tr, run ex4_net (init ex4_net) ex4_acts = Some (s, tr) /\
    puts tr = [yp 0 0; yp 1 1; yp 2 2] /\ fwds tr = [yp 1 1; yp 0 0] /\ drops tr = [yp 2 2] /\
    hands 0 tr = [yp 0 0; yp 1 1; yp 2 2] /\ hands 1 tr = [yp 0 0; yp 1 1] /\
    held ex4_net s = [] /\ urgent ex4_net s = false /\ deadline ex4_net s = None.
Proof. eexists. eexists. split; [vm_compute; reflexivity|]. vm_compute. repeat split. Qed.

(* ---- the stage-by-stage views of the three-stage example (non-vacuity of Elem/ComposeNet.v) ---------------------- *)
From ONL Require Import Elem.ComposeNet.

Example ex_pipe_views :
  pviews [wire_elem None 0; tb_elem ex_tb 0] (port_elem ex_port 0) ex_acts =
  Some [ {| v_puts := [xp 0; xp 1; xp 2]; v_fwds := [xp 0; xp 1]; v_drops := [xp 2]; v_held := [] |};
         {| v_puts := [xp 0; xp 1]; v_fwds := [xp 0; xp 1]; v_drops := []; v_held := [] |};
         {| v_puts := [xp 0; xp 1]; v_fwds := [xp 0; xp 1]; v_drops := []; v_held := [] |} ].
Proof. vm_compute. reflexivity. Qed.
