(* Model of onl/scheduler/wfq.py : the WFQ stamping discipline on top of Elem/WFQServer.v.
   REPAIRED code (fix: commits d1c8660 first-packet stamp, 69e89c0 arrival counter in the key,
   d0d3d61 per-class counter for the active set); the first-packet defect is kept behind [wfix_first] so
   that the refutation of the pinned code can be stated (WFQProofs.wfq_stamp_refuted_unfixed).

     put(p):  c = flow2class(p.flow_id)
              if active_set is empty: reset_vtime()  (vtime := 0, finish_times[*] := 0)
              else:                   update_vtime() (vtime += (now - last_time) / sum of weights of active_set)
              finish_times[c] = max(finish_times[c], vtime) + 8*size/(rate*weights[c])
              add_packet_to_queue(p); class_count[c] += 1; active_set.add(c); last_time = now
              arrivals += 1; store.put(PriorityItem((finish_times[c], now, arrivals), p))
     run() after a transmission of p:
              update_vtime(); class_count[c] -= 1; if class_count[c] == 0: active_set.remove(c)
              if active_set is empty: reset_vtime()
              last_time = now
   Executable; no proofs here. *)
From Coq Require Import ZArith QArith Qminmax Qabs List Bool.
From ONL Require Import Elem.Packet Elem.StoreQ Elem.HeapList Elem.WFQServer.
Import ListNotations.

Record wcfg := {
  wrate : Q;                      (* self.rate (bits per second) *)
  wweights : list (Z * Z);        (* self.weights : class -> weight *)
  wf2c : Z -> Z;                  (* self.flow2class *)
  wfix_first : bool               (* true = repaired put(): the first packet of a busy period is stamped *)
}.

Record wst := {
  vtime : Q;
  last_time : Q;
  active : list Z;                (* active_set (no duplicates) *)
  fin : Z -> Q;                   (* finish_times *)
  ccount : Z -> Z                 (* class_count *)
}.

Definition wst0 : wst :=
  {| vtime := 0; last_time := 0; active := []; fin := fun _ => 0; ccount := fun _ => 0%Z |}.

Fixpoint zlookup {V : Type} (k : Z) (l : list (Z * V)) : option V :=
  match l with
  | [] => None
  | (k', v) :: t => if Z.eqb k k' then Some v else zlookup k t
  end.

Definition zmem (k : Z) (l : list Z) : bool := existsb (Z.eqb k) l.
Definition zadd (k : Z) (l : list Z) : list Z := if zmem k l then l else l ++ [k].
Definition zremove (k : Z) (l : list Z) : list Z := filter (fun x => negb (Z.eqb x k)) l.

Definition qupd (f : Z -> Q) (k : Z) (v : Q) : Z -> Q := fun x => if Z.eqb x k then v else f x.

(* weight_sum over the active set; None = KeyError (a class without weight) *)
Fixpoint weight_sum (ws : list (Z * Z)) (act : list Z) : option Z :=
  match act with
  | [] => Some 0%Z
  | c :: t =>
      match zlookup c ws, weight_sum ws t with
      | Some w, Some r => Some (w + r)%Z
      | _, _ => None
      end
  end.

(* update_vtime; None = raises (ZeroDivisionError on an empty active set / weight sum 0, KeyError) *)
Definition update_vtime (cfg : wcfg) (now : Q) (s : wst) : option Q :=
  match weight_sum (wweights cfg) (active s) with
  | Some w => if Z.eqb w 0 then None else Some (Qred (vtime s + (now - last_time s) / inject_Z w))
  | None => None
  end.

Definition wstamp_inc (cfg : wcfg) (p : pkt) (w : Z) : Q := (inject_Z (psize p) * 8) / (wrate cfg * inject_Z w).

Definition wfq_put (cfg : wcfg) (now : Q) (s : wst) (p : pkt) : option (wst * Q) :=
  let c := wf2c cfg (flow p) in
  match zlookup c (wweights cfg) with
  | None => None                                  (* KeyError: unconfigured class *)
  | Some w =>
      let empty := match active s with [] => true | _ => false end in
      let vf := if empty then Some (0, fun _ : Z => 0) else
                  match update_vtime cfg now s with Some v => Some (v, fin s) | None => None end in
      match vf with
      | None => None
      | Some (v, f) =>
          let F := if empty && negb (wfix_first cfg) then f c
                   else Qred (Qmax (f c) v + wstamp_inc cfg p w) in
          Some ({| vtime := v; last_time := now; active := zadd c (active s); fin := qupd f c F;
                   ccount := fupd (ccount s) c (ccount s c + 1)%Z |}, F)
      end
  end.

Definition wfq_done (cfg : wcfg) (now : Q) (s : wst) (p : pkt) : option wst :=
  let c := wf2c cfg (flow p) in
  match update_vtime cfg now s with
  | None => None
  | Some v =>
      let n := (ccount s c - 1)%Z in
      let act1 := if Z.eqb n 0 then (if zmem c (active s) then Some (zremove c (active s)) else None)   (* KeyError *)
                  else Some (active s) in
      match act1 with
      | None => None
      | Some a =>
          match a with
          | [] => Some {| vtime := 0; last_time := now; active := []; fin := fun _ => 0; ccount := fupd (ccount s) c n |}
          | _ => Some {| vtime := v; last_time := now; active := a; fin := fin s; ccount := fupd (ccount s) c n |}
          end
      end
  end.

Definition wfq_stamper (cfg : wcfg) : stamper :=
  {| ST := wst; st_put := wfq_put cfg; st_done := wfq_done cfg |}.

Definition wfq (cfg : wcfg) : Type := srv (wfq_stamper cfg).
Definition wfq0 (cfg : wcfg) : wfq cfg := srv0 0 (wst0 : ST (wfq_stamper cfg)).
Definition wfq_act (cfg : wcfg) : wfq cfg -> faction -> res (wfq cfg * list fout) := act (wfq_stamper cfg) (wrate cfg).
Definition wfq_run (cfg : wcfg) : wfq cfg -> list faction -> option (wfq cfg * list (tev (wfq_stamper cfg))) :=
  run (wfq_stamper cfg) (wrate cfg).

(* flow2class given as a table; flows not listed are their own class (the default lambda) *)
Definition f2c_of (tbl : list (Z * Z)) : Z -> Z := fun f => match zlookup f tbl with Some c => c | None => f end.

(* ---- correspondence: vtime, last_time, active_set (sorted), finish_times per configured class -------- *)
Definition wobs := (Q * Q * list Z * list (Z * Q))%type.

Definition zset_eqb (a b : list Z) : bool :=
  forallb (fun x => zmem x b) a && forallb (fun x => zmem x a) b && Nat.eqb (length a) (length b).

Fixpoint fin_ok (tol : Q) (f : Z -> Q) (l : list (Z * Q)) : bool :=
  match l with
  | [] => true
  | (c, v) :: t => Qclose tol v (f c) && fin_ok tol f t
  end.

Definition wobs_ok (tol : Q) (s : wst) (o : wobs) : bool :=
  match o with
  | (v, lt, ac, fl) => Qclose tol v (vtime s) && Qeq_bool lt (last_time s) && zset_eqb ac (active s) && fin_ok tol (fin s) fl
  end.

Definition wfq_agree (cfg : wcfg) (tol : Q) (obs : list (faction * list pkt * sobs * wobs)) : bool :=
  agree (wrate cfg) (wobs_ok tol : ST (wfq_stamper cfg) -> wobs -> bool) (wfq0 cfg) obs.

Definition wfq_first_bad (cfg : wcfg) (tol : Q) (obs : list (faction * list pkt * sobs * wobs)) : option nat :=
  first_bad (wrate cfg) (wobs_ok tol : ST (wfq_stamper cfg) -> wobs -> bool) (wfq0 cfg) obs 0.
