(* Bridging lemmas for the GENERATOR body TwoRateTokenBucket.run (second tie, generator bodies: vlib/translate_gen.py).
   Gen/Extracted_tworate_run.v is regenerated from the tree under test on every run: the body cut at its yields into
     gen_TwoRate_run_from_0   entry                                -> first `yield self.store.get()`
     gen_TwoRate_run_from_1   resumed with a packet after the get  -> refill both buckets, the colour decision; red (with
                              PIR) / yellow (without PIR) start a wait, the others debit, colour the packet and forward
     gen_TwoRate_run_from_2   resumed after the wait for peak tokens (red)        -> the committed bucket is refilled over
                              the wait, peak level 0, colour red, forward, loop
     gen_TwoRate_run_from_3   resumed after the wait for committed tokens (no PIR) -> committed level 0, yellow, forward
   each returning the code's fields (current_bucket_commit, current_bucket_peak, update_time, packets_sent), the effects
   in program order (packet.color = .., out.put) and the next request with its program point.  Here they get their meaning
   in the hand-written automaton (Elem/TwoRate.v, repaired code: fy = fr = true) and RInit / RGet / RTimer are proved to be
   EXACTLY the generated functions.  Levels and deadlines are stored reduced; expressions are compared up to ==. *)
From Coq Require Import ZArith QArith Qminmax Qreduction List Bool Lqa.
From ONL Require Import Elem.Packet Elem.StoreQ Elem.Bucket Elem.TwoRate Gen.Extracted_tworate_run.
Import ListNotations.

Definition tr_run_fields (s : trtb) : tr_run_st :=
  {| tw_current_bucket_commit := lc s; tw_current_bucket_peak := lp s; tw_update_time := rut s; tw_packets_sent := rsent s |}.

Inductive tr_at := RAtGet | RAtPeak | RAtCommit.

(* effects in order: packet.color = c remembers the colour; out.put(packet) forwards the held packet with the colour it
   has at that moment (no colour yet: no meaning) *)
Fixpoint tr_run_outs (p : pkt) (col : option colour) (fx : list tr_run_fx) : option (list rout) :=
  match fx with
  | [] => Some []
  | FxRed :: t => tr_run_outs p (Some Red) t
  | FxYellow :: t => tr_run_outs p (Some Yellow) t
  | FxGreen :: t => tr_run_outs p (Some Green) t
  | FxOutPut _ :: t =>
      match col, tr_run_outs p col t with
      | Some c, Some r => Some (RFwd p c :: r)
      | _, _ => None
      end
  end.

(* the automaton's state and outputs after the code ran from one yield to the next (cf. Elem/BucketRunBridge.v):
     `yield self.store.get()` at point 1     idle, the get is issued
     `yield env.timeout(d)` at point 2       (straight after the get, nothing forwarded) waiting for peak tokens until now + d
     `yield env.timeout(d)` at point 3       (straight after the get, nothing forwarded) waiting for committed tokens *)
Definition tr_run_step (s : trtb) (p : pkt) (at_ : tr_at) (g : tr_run_st * list tr_run_fx * tr_run_next)
  : option (trtb * list rout) :=
  match g with
  | (f, fx, n) =>
      let head := match at_ with RAtGet => [RHead p] | _ => [] end in
      let mk (ph : rphase) (q : sq pkt) :=
        {| rnow := rnow s; rq := q; rstarted := rstarted s; lc := Qred (tw_current_bucket_commit f);
           lp := Qred (tw_current_bucket_peak f); rut := tw_update_time f; rphase_ := ph; rrecv := rrecv s;
           rsent := tw_packets_sent f |} in
      match tr_run_outs p None fx with
      | None => None
      | Some outs =>
          match n, at_, outs with
          | NxYield (RqTimeout d) PP2, RAtGet, [] => Some (mk (RWaitPeak p (Qred (rnow s + d))) (rq s), head)
          | NxYield (RqTimeout d) PP3, RAtGet, [] => Some (mk (RWaitCommit p (Qred (rnow s + d))) (rq s), head)
          | NxYield RqStoreGet PP1, _, _ =>
              match sq_get fifo_pop (rq s) with
              | Some q => Some (mk RIdle q, head ++ outs)
              | None => None
              end
          | _, _, _ => None
          end
      end
  end.

Definition tr_run_entry (s : trtb) (g : tr_run_st * list tr_run_fx * tr_run_next) : option (trtb * list rout) :=
  match g with
  | (f, [], NxYield RqStoreGet PP1) =>
      match sq_get fifo_pop (rq s) with
      | Some q => Some ({| rnow := rnow s; rq := q; rstarted := true; lc := Qred (tw_current_bucket_commit f);
                           lp := Qred (tw_current_bucket_peak f); rut := tw_update_time f; rphase_ := rphase_ s;
                           rrecv := rrecv s; rsent := tw_packets_sent f |}, [])
      | None => None
      end
  | _ => None
  end.

(* the generated functions on the abstract state: cbs / cir from the configuration; self.pir, self.pbs = the pair the
   configuration carries when `if self.pir:` holds (None otherwise); current_bucket_peak is not None; self.out set *)
Definition tr_gen (k : nat) (c : trcfg) (s : trtb) (size : Z) (out_set dbg : bool) :=
  let pir := match pk c with Some (r, _) => Some r | None => None end in
  let pbs := match pk c with Some (_, b) => Some b | None => None end in
  match k with
  | 0%nat => gen_TwoRate_run_from_0 (tr_run_fields s) (cbs c) (cir c) pir pbs true (rnow s) size out_set dbg
  | 1%nat => gen_TwoRate_run_from_1 (tr_run_fields s) (cbs c) (cir c) pir pbs true (rnow s) size out_set dbg
  | 2%nat => gen_TwoRate_run_from_2 (tr_run_fields s) (cbs c) (cir c) pir pbs true (rnow s) size out_set dbg
  | _ => gen_TwoRate_run_from_3 (tr_run_fields s) (cbs c) (cir c) pir pbs true (rnow s) size out_set dbg
  end.

Definition with_rq (s : trtb) (q : sq pkt) : trtb :=
  {| rnow := rnow s; rq := q; rstarted := rstarted s; lc := lc s; lp := lp s; rut := rut s; rphase_ := rphase_ s;
     rrecv := rrecv s; rsent := rsent s |}.

(* ---- tactics ----------------------------------------------------------------------------------------------- *)
Ltac cbnq := cbn -[Qred Qplus Qminus Qmult Qdiv Qopp Qinv Qmin Qle_bool Qeq_bool Qlt_le_dec inject_Z Z.add].
Ltac qb :=
  repeat match goal with
         | H : Qle_bool _ _ = true |- _ => apply Qle_bool_iff in H
         | H : Qle_bool ?a ?b = false |- _ =>
             assert (~ a <= b) by (let K := fresh in intro K; apply Qle_bool_iff in K; congruence); clear H
         end.

Lemma Qmin_comp (a a' b b' : Q) : a == a' -> b == b' -> Qmin a b == Qmin a' b'.
Proof. intros E1 E2. rewrite E1, E2. reflexivity. Qed.

Ltac qeq :=
  unfold refill, fill, tokwait, spacing, sz in *; rewrite ?Qred_correct;
  first [ reflexivity
        | unfold Qdiv; ring
        | apply Qmin_comp; [first [reflexivity | ring] | first [reflexivity | unfold Qdiv; ring]]
        | rewrite Q.min_comm; apply Qmin_comp; [first [reflexivity | ring] | first [reflexivity | unfold Qdiv; ring]]
        | apply Qplus_comp; [reflexivity|]; unfold Qdiv; ring ].

Ltac req :=
  repeat match goal with
         | |- Qred _ = Qred _ => apply Qred_complete
         | |- @eq Q _ _ => fail 1
         | |- _ = _ => progress f_equal
         end.

Lemma refilled (lvl cb1 : Q) (size : Z) (A : Type) (x y : A) :
  lvl == cb1 ->
  (if negb (Qle_bool (inject_Z size) cb1) then x else y) = (if Qlt_le_dec lvl (inject_Z size) then x else y).
Proof.
  intros E. destruct (Qlt_le_dec lvl (inject_Z size)) as [H|H]; rewrite E in H;
    destruct (Qle_bool (inject_Z size) cb1) eqn:E2; qb; try reflexivity; exfalso; lra.
Qed.

Lemma Qred_zero : Qred (0 # 1) = 0.
Proof. reflexivity. Qed.

(* ---- RInit = from_0 ---------------------------------------------------------------------------------------- *)
Lemma bridge_tr_run_init : forall (c : trcfg) (s : trtb) (size : Z) (out_set dbg : bool),
  Qred (lc s) = lc s -> Qred (lp s) = lp s ->
  tr_act true true c s RInit = (if rstarted s then None else tr_run_entry s (tr_gen 0 c s size out_set dbg)).
Proof.
  intros c s size out_set dbg Hc Hp. destruct s as [nw q st lc_ lp_ ut ph nr ns]. cbn in Hc, Hp. cbnq.
  destruct st; [reflexivity|]. rewrite Hc, Hp. reflexivity.
Qed.

(* ---- RGet = from_1 ----------------------------------------------------------------------------------------- *)
Lemma bridge_tr_run_get : forall (c : trcfg) (s : trtb) (dbg : bool),
  (forall pir pbs, pk c = Some (pir, pbs) -> ~ pir == 0) ->
  Qred (lp s) = lp s ->
  tr_act true true c s RGet =
    match rphase_ s, sq_take (rq s) with
    | RIdle, Some ((_, p), q) =>
        if negb (rstarted s) then None
        else tr_run_step (with_rq s q) p RAtGet (tr_gen 1 c (with_rq s q) (psize p) true dbg)
    | _, _ => None
    end.
Proof.
  intros c s dbg Hpir Hlp. destruct s as [nw q0 st lc_ lp_ ut ph nr ns]. cbn in Hlp. cbn [tr_act rphase_ rq rstarted].
  destruct ph; try reflexivity. destruct (sq_take q0) as [[[a p] q]|]; [|reflexivity].
  destruct st; cbn [negb]; [|reflexivity].
  unfold tr_gen, gen_TwoRate_run_from_1, tr_run_fields, with_rq. cbnq.
  match goal with |- context [Qmin (cbs c) ?x] => set (cc1 := Qmin (cbs c) x) end.
  assert (Ec0 : refill (cbs c) (cir c) lc_ ut nw == cc1) by (subst cc1; qeq).
  assert (Ec : Qred (refill (cbs c) (cir c) lc_ ut nw) == cc1) by (rewrite Qred_correct; exact Ec0).
  clearbody cc1.
  destruct (pk c) as [[pir pbs]|] eqn:Epk.
  - assert (Hnz : Qeq_bool pir 0 = false).
    { destruct (Qeq_bool pir 0) eqn:E; [|reflexivity]. apply Qeq_bool_iff in E. exfalso. exact (Hpir _ _ eq_refl E). }
    rewrite Hnz. cbnq.
    match goal with |- context [Qmin pbs ?x] => set (cp1 := Qmin pbs x) end.
    assert (Ep0 : refill pbs pir lp_ ut nw == cp1) by (subst cp1; qeq).
    assert (Ep : Qred (refill pbs pir lp_ ut nw) == cp1) by (rewrite Qred_correct; exact Ep0).
    clearbody cp1.
    rewrite (refilled (Qred (refill pbs pir lp_ ut nw)) cp1 (psize p) _ _ _ Ep). fold (sz p).
    destruct (Qlt_le_dec (Qred (refill pbs pir lp_ ut nw)) (sz p)) as [Hr|Hr].
    + (* red: wait for peak tokens *)
      unfold tr_run_step. cbnq. req;
        first [ exact Ec0 | exact Ep0
              | apply Qplus_comp; [reflexivity|]; unfold tokwait, sz; rewrite Ep; unfold Qdiv; ring ].
    + rewrite (refilled (Qred (refill (cbs c) (cir c) lc_ ut nw)) cc1 (psize p) _ _ _ Ec). fold (sz p).
      destruct (Qlt_le_dec (Qred (refill (cbs c) (cir c) lc_ ut nw)) (sz p)) as [Hy|Hy];
        unfold tr_forward, tr_run_step; cbnq; (destruct (sq_get fifo_pop q); cbnq; [|reflexivity]);
        req; first [ exact Ec0 | exact Ep0 | rewrite ?Ec, ?Ep; reflexivity ].
  - cbnq. rewrite (refilled (Qred (refill (cbs c) (cir c) lc_ ut nw)) cc1 (psize p) _ _ _ Ec). fold (sz p).
    destruct (Qlt_le_dec (Qred (refill (cbs c) (cir c) lc_ ut nw)) (sz p)) as [Hy|Hy].
    + unfold tr_run_step. cbnq. rewrite Hlp. req;
        first [ exact Ec0
              | apply Qplus_comp; [reflexivity|]; unfold tokwait, sz; rewrite Ec; unfold Qdiv; ring ].
    + unfold tr_forward, tr_run_step; cbnq. destruct (sq_get fifo_pop q); cbnq; [|reflexivity].
      rewrite Hlp. req; first [ exact Ec0 | rewrite ?Ec; reflexivity ].
Qed.

(* ---- RTimer = from_2 (the wait for peak tokens ends) / from_3 (the wait for committed tokens ends) ------------------ *)
Lemma bridge_tr_run_timer : forall (c : trcfg) (s : trtb) (dbg : bool),
  Qred (lp s) = lp s ->
  tr_act true true c s RTimer =
    match rphase_ s with
    | RWaitPeak p dl => if Qeq_bool dl (rnow s)
                        then tr_run_step s p RAtPeak (tr_gen 2 c s (psize p) true dbg) else None
    | RWaitCommit p dl => if Qeq_bool dl (rnow s)
                          then tr_run_step s p RAtCommit (tr_gen 3 c s (psize p) true dbg) else None
    | RIdle => None
    end.
Proof.
  intros c s dbg Hlp. destruct s as [nw q st lc_ lp_ ut ph nr ns]. cbn in Hlp. cbn [tr_act rphase_ rnow].
  destruct ph as [|p dl|p dl]; [reflexivity| |]; (destruct (Qeq_bool dl nw); [|reflexivity]).
  - unfold tr_gen, gen_TwoRate_run_from_2, tr_run_fields, tr_forward, tr_run_step. cbnq.
    destruct (sq_get fifo_pop q); cbnq; [|reflexivity]. rewrite Qred_zero. req; qeq.
  - unfold tr_gen, gen_TwoRate_run_from_3, tr_run_fields, tr_forward, tr_run_step. cbnq.
    destruct (sq_get fifo_pop q); cbnq; [|reflexivity]. rewrite Qred_zero, Hlp. reflexivity.
Qed.

(* ---- the ends of the two waits, explicitly: the colour is written BEFORE out.put(packet), which is called BEFORE
   packets_sent += 1; then back to the get *)
Lemma tr_run_timer_explicit : forall (c : trcfg) (s : trtb) (size : Z) (dbg : bool),
  snd (fst (tr_gen 2 c s size true dbg)) = [FxRed; FxOutPut (rsent s)] /\
  snd (tr_gen 2 c s size true dbg) = NxYield RqStoreGet PP1 /\
  snd (fst (tr_gen 3 c s size true dbg)) = [FxYellow; FxOutPut (rsent s)] /\
  snd (tr_gen 3 c s size true dbg) = NxYield RqStoreGet PP1.
Proof. intros; repeat split; reflexivity. Qed.
