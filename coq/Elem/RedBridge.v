(* Bridging lemmas (DESIGN 2.6, second tie) for REDPort.put: the body as translated from the tree under test on
   every run (Gen/Extracted_red.v) is the PPut step of the hand-written automaton with [red_policy] (Elem/Red.v):
   same counters, same average (as a rational: the model stores it Qred-normalised), a uniform draw consumed exactly
   in the two curve regions, the stamp first, store.put exactly when the model accepts. *)
From Coq Require Import ZArith QArith Qminmax Qreduction List Bool Lia.
From ONL Require Import Elem.Packet Elem.StoreQ Elem.Port Elem.Red Gen.Extracted_red.
Import ListNotations.

Definition red_fields (s : port) : red_st :=
  {| r_packets_received := precv s; r_byte_size := pbytes s; r_packets_dropped := pdrop s; r_average_queue_size := pavg s |}.

Definition red_with_fields (s : port) (f : red_st) : port :=
  {| pnow := pnow s; pq := pq s; pstarted := pstarted s; psvc := psvc s; pbytes := r_byte_size f;
     precv := r_packets_received f; pdrop := r_packets_dropped f; pavg := r_average_queue_size f |}.

(* what one effect of put(packet) means in the model; the draw itself changes nothing (its value is an input) *)
Definition red_fx_apply (p : pkt) (acc : port * list pout) (e : red_fx) : port * list pout :=
  match e with
  | FxStamp k t => (fst acc, snd acc ++ [OStamp k t])
  | FxDraw => acc
  | FxStorePut => (with_q (fst acc) (sq_put fifo_push (pnow (fst acc)) p (pq (fst acc))), snd acc)
  end.

Definition red_fx_run (p : pkt) (s : port) (f : red_st) (fx : list red_fx) : port * list pout :=
  fold_left (red_fx_apply p) fx (red_with_fields s f, []).

Definition is_red_store_put (e : red_fx) : bool := match e with FxStorePut => true | _ => false end.
Definition is_red_draw (e : red_fx) : bool := match e with FxDraw => true | _ => false end.

(* the generated put() run on the abstract state; u = the value random.uniform(0, 1) returns if it is called *)
Definition red_gen_put (rc : redcfg) (eid : option Z) (dbg : bool) (s : port) (p : pkt) (u : Q) : red_st * list red_fx :=
  gen_REDPort_put (red_fields s) eid (r_lb rc) dbg (pnow s) (psize p) (Z.of_nat (length (items (pq s))))
                  (r_w rc) (r_qlimit rc) (r_max rc) (r_min rc) (r_maxp rc) u.

(* equal port states, the average as a rational number *)
Definition port_eqv (a b : port) : Prop :=
  pnow a = pnow b /\ pq a = pq b /\ pstarted a = pstarted b /\ psvc a = psvc b /\ pbytes a = pbytes b /\
  precv a = precv b /\ pdrop a = pdrop b /\ pavg a == pavg b.

Lemma Qle_bool_Qred_r a x : Qle_bool a (Qred x) = Qle_bool a x.
Proof. apply Qleb_comp; [reflexivity | apply Qred_correct]. Qed.

Lemma red_prob_Qred rc u x : Qle_bool u (red_prob rc (Qred x)) = Qle_bool u (red_prob rc x).
Proof.
  unfold red_prob. rewrite Qle_bool_Qred_r. destruct (Qle_bool (r_max rc) x); [reflexivity|].
  apply Qleb_comp; [reflexivity|]. rewrite Qred_correct. reflexivity.
Qed.

Ltac qcases :=
  repeat match goal with
         | |- context [Qle_bool ?a ?b] => let E := fresh "E" in destruct (Qle_bool a b) eqn:E
         end.

(* the effects, in program order, in the words of the property: stamp; then by the region of the NEW average *)
Definition red_put_effects (rc : redcfg) (eid : option Z) (s : port) (u : Q) : list red_fx :=
  (match eid with Some _ => [FxStamp eid (pnow s)] | None => [] end) ++
  (let a := red_avg_next rc s in
   if Qle_bool (r_qlimit rc) a then []
   else if Qle_bool (r_max rc) a || Qle_bool (r_min rc) a
        then FxDraw :: (if Qle_bool u (red_prob rc a) then [] else [FxStorePut])
        else [FxStorePut]).

Lemma bridge_red_put_effects : forall rc eid dbg s p u,
  snd (red_gen_put rc eid dbg s p u) = red_put_effects rc eid s u.
Proof.
  intros rc eid dbg s p u.
  unfold red_put_effects, red_avg_next. rewrite !Qle_bool_Qred_r, red_prob_Qred.
  unfold red_gen_put, gen_REDPort_put, red_fields, red_prob, red_alpha, red_cur; cbn.
  destruct eid as [k|], (r_lb rc), dbg; cbn; qcases; cbn; reflexivity.
Qed.

Lemma bridge_red_put_avg : forall rc eid dbg s p u,
  r_average_queue_size (fst (red_gen_put rc eid dbg s p u)) == red_avg_next rc s.
Proof.
  intros rc eid dbg s p u.
  unfold red_avg_next. rewrite Qred_correct.
  unfold red_gen_put, gen_REDPort_put, red_fields, red_alpha, red_cur; cbn.
  destruct eid as [k|], (r_lb rc), dbg; cbn; qcases; cbn; reflexivity.
Qed.

(* REDPort.put = the model's PPut step; the call consumed a draw iff the generated body says so *)
Lemma bridge_red_put : forall rate rc eid dbg s p u,
  let g := red_gen_put rc eid dbg s p u in
  let r := red_fx_run p s (fst g) (snd g) in
  exists s',
    port_act (red_cfg all_fixed rate rc eid) s (PPut p (if existsb is_red_draw (snd g) then Some u else None)) =
      Some (s', snd r ++ (if existsb is_red_store_put (snd g) then [] else [ODrop p])) /\
    port_eqv s' (fst r).
Proof.
  intros rate rc eid dbg s p u.
  unfold port_eqv, port_act, port_put, red_cfg, red_policy, red_avg_next, c_policy.
  rewrite !Qle_bool_Qred_r.
  unfold red_gen_put, gen_REDPort_put, red_fx_run, red_fields, red_alpha, red_cur, stamp_key, stamp_outs;
    cbn -[Qred red_prob].
  destruct eid as [k|], (r_lb rc), dbg; cbn -[Qred red_prob]; qcases; cbn -[Qred red_prob];
    rewrite ?red_prob_Qred; unfold red_prob;
    repeat match goal with E : Qle_bool _ _ = _ |- _ => rewrite E end; cbn -[Qred];
    (eexists; split; [reflexivity|]; cbn -[Qred]; repeat split; try reflexivity; apply Qred_correct).
Qed.
