(* Bridging lemmas (DESIGN 2.6, second tie) for Port.put: the body of put() as translated from the tree under
   test on every run (Gen/Extracted_port.v: new counters + the list of effects in program order) is the PPut step
   of the hand-written automaton (Elem/Port.v, [port_put] with [tail_policy] / [stamp_key]) the C09 theorems are
   about.  The code's effects are given their meaning in the model by [port_fx_apply]; the generated function is
   run on the fields of the abstract state ([port_fields], observations read off the state) and the result is
   compared with the model's step: same counters, same store, same stamps in the same order, same accept/refuse
   decision.  One script: unfold, case split on None-ness and on every comparison, reflexivity / lia. *)
From Coq Require Import ZArith QArith Qminmax List Bool Lia.
From ONL Require Import Elem.Packet Elem.StoreQ Elem.Port Gen.Extracted_port.
Import ListNotations.

(* the fields of the code, read off the abstract state *)
Definition port_fields (s : port) : port_st :=
  {| g_packets_received := precv s; g_byte_size := pbytes s; g_packets_dropped := pdrop s |}.

Definition with_fields (s : port) (f : port_st) : port :=
  {| pnow := pnow s; pq := pq s; pstarted := pstarted s; psvc := psvc s; pbytes := g_byte_size f;
     precv := g_packets_received f; pdrop := g_packets_dropped f; pavg := pavg s |}.

(* what one effect of put(packet) means in the model: a stamp is an output, store.put enqueues at the current instant *)
Definition port_fx_apply (p : pkt) (acc : port * list pout) (e : port_fx) : port * list pout :=
  match e with
  | FxStamp k t => (fst acc, snd acc ++ [OStamp k t])
  | FxStorePut => (with_q (fst acc) (sq_put fifo_push (pnow (fst acc)) p (pq (fst acc))), snd acc)
  end.

Definition port_fx_run (p : pkt) (s : port) (f : port_st) (fx : list port_fx) : port * list pout :=
  fold_left (port_fx_apply p) fx (with_fields s f, []).

Definition is_store_put (e : port_fx) : bool := match e with FxStorePut => true | _ => false end.

(* the generated put() run on the abstract state *)
Definition port_gen_put (eid qlimit : option Z) (lb dbg : bool) (s : port) (p : pkt) : port_st * list port_fx :=
  gen_Port_put (port_fields s) eid qlimit lb dbg (pnow s) (psize p) (Z.of_nat (length (items (pq s)))).

Ltac cmp_cases :=
  repeat match goal with
         | |- context [Z.ltb ?a ?b] => destruct (Z.ltb_spec a b)
         | |- context [Z.leb ?a ?b] => destruct (Z.leb_spec a b)
         | |- context [Z.eqb ?a ?b] => destruct (Z.eqb_spec a b)
         end.

(* Port.put = the model's PPut step (no uniform draw): the state after the step is the old state with the generated
   counters and the effects applied; the outputs are the stamps, followed by the ghost output ODrop exactly when the
   code did not call store.put *)
Lemma bridge_port_put : forall rate qlimit lb eid dbg s p,
  let g := port_gen_put eid qlimit lb dbg s p in
  let r := port_fx_run p s (fst g) (snd g) in
  port_act (port_cfg all_fixed rate qlimit lb eid) s (PPut p None) =
    Some (fst r, snd r ++ (if existsb is_store_put (snd g) then [] else [ODrop p])).
Proof.
  intros rate qlimit lb eid dbg s p.
  unfold port_gen_put, gen_Port_put, port_fx_run, port_fields; cbn.
  unfold port_put, port_cfg, tail_policy, stamp_key, over_limit, stamp_outs, put_refuse, put_accept, with_fields, with_q; cbn.
  destruct eid as [k|], qlimit as [q|], lb, dbg; cbn; cmp_cases; cbn;
    first [ reflexivity | exfalso; lia ].
Qed.

(* the effects themselves, in program order: the per-hop stamp (iff the element id is not None, under that id, with the
   current instant) BEFORE store.put(packet), which happens iff there is no limit or the property's tail-drop rule
   admits the packet *)
Definition port_put_effects (eid qlimit : option Z) (lb : bool) (s : port) (p : pkt) : list port_fx :=
  (match eid with Some _ => [FxStamp eid (pnow s)] | None => [] end) ++
  (match qlimit with
   | None => [FxStorePut]
   | Some q => if over_limit lb q s p then [] else [FxStorePut]
   end).

Lemma bridge_port_put_effects : forall eid qlimit lb dbg s p,
  snd (port_gen_put eid qlimit lb dbg s p) = port_put_effects eid qlimit lb s p.
Proof.
  intros eid qlimit lb dbg s p.
  unfold port_gen_put, gen_Port_put, port_fields, port_put_effects, over_limit; cbn.
  destruct eid as [k|], qlimit as [q|], lb, dbg; cbn; cmp_cases; cbn;
    first [ reflexivity | exfalso; lia ].
Qed.
