(* Proofs about Elem/Cable.v: the two directions of a cable are independent wires. *)
From Coq Require Import ZArith QArith List Bool Lia.
From ONL Require Import Elem.Packet Elem.StoreQ Elem.Wire Elem.Cable.
Import ListNotations.

Lemma cget_cset_same c d w : cget (cset c d w) d = w.
Proof. destruct d; reflexivity. Qed.
Lemma cget_cset_other c d w : cget (cset c d w) (other d) = cget c (other d).
Proof. destruct d; reflexivity. Qed.
Lemma dir_eqb_refl d : dir_eqb d d = true.
Proof. destruct d; reflexivity. Qed.
Lemma dir_eqb_other d : dir_eqb (other d) d = false.
Proof. destruct d; reflexivity. Qed.
Lemma dir_eqb_eq d d' : dir_eqb d d' = true -> d = d'.
Proof. destruct d, d'; cbn; congruence. Qed.
Lemma dir_eqb_neq d d' : dir_eqb d d' = false -> d = other d'.
Proof. destruct d, d'; cbn; congruence. Qed.

(* what a non-Advance action of one direction does: exactly the wire action on that direction *)
Lemma cable_act_dir loss c d a c' outs :
  cable_act loss c (CA d a) = Some (c', outs) ->
  exists w' wouts, wire_act loss (cget c d) a = Some (w', wouts) /\ c' = cset c d w' /\
                   outs = map (fun o => (dir_dest d, o)) wouts /\ (forall t, a <> WAdvance t).
Proof.
  intros H. assert (Hn : forall t, a <> WAdvance t) by (intros t ->; discriminate).
  assert (H' : match wire_act loss (cget c d) a with
               | Some (w', outs) => Some (cset c d w', map (fun o => (dir_dest d, o)) outs)
               | None => None end = Some (c', outs)).
  { destruct a; try exact H. discriminate. }
  destruct (wire_act loss (cget c d) a) as [[w' wouts]|]; [|discriminate].
  injection H' as <- <-. exists w', wouts. auto.
Qed.

(* (1) frame: an action of direction d leaves the state of the other direction untouched, hands packets
       only to the device at the far end of direction d, and is the wire's own action *)
Theorem cable_frame loss c d a c' outs :
  cable_act loss c (CA d a) = Some (c', outs) ->
  cget c' (other d) = cget c (other d) /\
  Forall (fun o : cout => fst o = dir_dest d) outs /\
  wire_act loss (cget c d) a = Some (cget c' d, map snd outs).
Proof.
  intros H. apply cable_act_dir in H as (w' & wouts & Hw & -> & -> & _).
  split; [apply cget_cset_other|]. split.
  - apply Forall_forall. intros o Ho. apply in_map_iff in Ho as (x & <- & _). reflexivity.
  - rewrite cget_cset_same, map_map. cbn. rewrite map_id. exact Hw.
Qed.

(* (2) actions of different directions commute: same final state, same outputs per action *)
Theorem cable_commute loss c a b c1 o1 c2 o2 :
  cable_act loss c (CA D1 a) = Some (c1, o1) -> cable_act loss c1 (CA D2 b) = Some (c2, o2) ->
  exists c1', cable_act loss c (CA D2 b) = Some (c1', o2) /\ cable_act loss c1' (CA D1 a) = Some (c2, o1).
Proof.
  intros H1 H2.
  apply cable_act_dir in H1 as (w1 & wo1 & Hw1 & -> & -> & Na).
  apply cable_act_dir in H2 as (w2 & wo2 & Hw2 & -> & -> & Nb).
  cbn [cget cset cw1 cw2] in *.
  exists {| cw1 := cw1 c; cw2 := w2 |}. split.
  - destruct b; try (cbn [cable_act cget]; rewrite Hw2; reflexivity). exfalso. eapply Nb. reflexivity.
  - destruct a; try (cbn [cable_act cget cw1]; rewrite Hw1; reflexivity). exfalso. eapply Na. reflexivity.
Qed.

(* (3) projection: what direction d sees of any cable execution is an admissible execution of a single
       wire, with the same state, instants and outputs -- whatever the other direction does.  Hence
       every theorem about wires (Props/C10.v) holds for each direction of a cable. *)
Theorem cable_projection loss d : forall acts c c' tr,
  cable_run loss c acts = Some (c', tr) ->
  wire_run loss (cget c d) (proj_acts d acts) = Some (cget c' d, proj_tr d tr).
Proof.
  induction acts as [|a acts IH]; intros c c' tr H; cbn [cable_run] in H.
  - injection H as <- <-. reflexivity.
  - destruct (cable_act loss c a) as [[c1 outs]|] eqn:Ea; [|discriminate].
    destruct (cable_run loss c1 acts) as [[c2 tr1]|] eqn:Er; [|discriminate].
    injection H as <- <-. specialize (IH _ _ _ Er).
    unfold proj_acts, proj_tr. cbn [flat_map]. fold (proj_acts d acts) (proj_tr d tr1).
    destruct a as [d' a|t].
    + cbn [proj_act proj_tev cnow_after]. destruct (dir_eqb d d') eqn:Ed.
      * apply dir_eqb_eq in Ed. subst d'. destruct (cable_frame _ _ _ _ _ _ Ea) as (_ & _ & Hw).
        cbn [app wire_run]. rewrite Hw, IH. reflexivity.
      * apply dir_eqb_neq in Ed. subst d. destruct (cable_frame _ _ _ _ _ _ Ea) as (Hf & _ & _).
        cbn [app]. rewrite <- Hf. exact IH.
    + cbn [proj_act proj_tev cnow_after app wire_run]. cbn [cable_act] in Ea.
      destruct (wire_act loss (cw1 c) (WAdvance t)) as [[w1 oo1]|] eqn:E1; [|discriminate].
      destruct (wire_act loss (cw2 c) (WAdvance t)) as [[w2 oo2]|] eqn:E2; [|discriminate].
      injection Ea as <- <-.
      assert (Hadv : forall w w' oo, wire_act loss w (WAdvance t) = Some (w', oo) -> oo = [] /\ wnow w' = t).
      { clear. intros w w' oo H. cbn [wire_act] in H. destruct (wurgent w); [discriminate|].
        destruct (Qlt_le_dec (wnow w) t); [|discriminate].
        destruct (hold w) as [[p dl]|]; [destruct (Qle_bool t dl); [|discriminate]|]; injection H as <- <-; auto. }
      destruct (Hadv _ _ _ E1) as [-> N1]. destruct (Hadv _ _ _ E2) as [-> N2].
      destruct d; cbn [cget cw1 cw2] in *.
      * rewrite E1, IH. reflexivity.
      * rewrite E2, IH, N1, N2. reflexivity.
Qed.

(* (4) the wiring made by set_endpoints: dev1 -> wire1 -> dev2 and dev2 -> wire2 -> dev1 *)
Theorem cable_wiring :
  cable_out Dev1 = NW1 /\ cable_out NW1 = Dev2 /\ cable_out Dev2 = NW2 /\ cable_out NW2 = Dev1 /\
  dir_dest D1 = Dev2 /\ dir_dest D2 = Dev1 /\
  (forall d, cable_out (dir_source d) = wire_node d /\ dir_dest d = dir_source (other d)).
Proof. repeat split; try reflexivity; destruct d; reflexivity. Qed.

(* what dev1 sends can only come out at dev2 (and conversely): every output of a cable execution that
   belongs to direction d is handed to dir_dest d *)
Theorem cable_outputs_go_across loss : forall acts c c' tr,
  cable_run loss c acts = Some (c', tr) ->
  Forall (fun e : ctev => match e with
                          | (_, CA d _, outs) => Forall (fun o : cout => fst o = dir_dest d) outs
                          | (_, CAdvance _, outs) => outs = []
                          end) tr.
Proof.
  induction acts as [|a acts IH]; intros c c' tr H; cbn [cable_run] in H.
  - injection H as <- <-. constructor.
  - destruct (cable_act loss c a) as [[c1 outs]|] eqn:Ea; [|discriminate].
    destruct (cable_run loss c1 acts) as [[c2 tr1]|] eqn:Er; [|discriminate].
    injection H as <- <-. constructor; [|eapply IH; eauto].
    destruct a as [d a|t].
    + apply (cable_frame _ _ _ _ _ _ Ea).
    + cbn [cable_act] in Ea.
      destruct (wire_act loss (cw1 c) (WAdvance t)) as [[w1 oo1]|]; [|discriminate].
      destruct (wire_act loss (cw2 c) (WAdvance t)) as [[w2 oo2]|]; [|discriminate].
      injection Ea as _ <-. reflexivity.
Qed.

(* non-vacuity: traffic in both directions at once; each direction delivers only its own packets at the
   far end, at its own instants *)
Definition cx_p (i : nat) : pkt := mkp i (Z.of_nat i + 1) 0 1000 0.
Definition cx_acts : list caction :=
  [ CA D1 WInit; CA D2 WInit; CA D1 (WPut (cx_p 0)); CA D2 (WPut (cx_p 1)); CA D1 WStoreCb; CA D2 WStoreCb;
    CA D2 (WGet None (Some 1)); CA D1 (WGet None (Some 2)); CAdvance 1; CA D2 WTimer; CAdvance 2; CA D1 WTimer ].

Example cx_run :
  exists c tr, cable_run None (cable0 0) cx_acts = Some (c, tr) /\
    tdeliv (proj_tr D1 tr) = [(2, cx_p 0)] /\ tdeliv (proj_tr D2 tr) = [(1, cx_p 1)] /\
    flat_map (fun e : ctev => map fst (snd e)) tr = [Dev1; Dev2].
Proof. eexists. eexists. split; [vm_compute; reflexivity|]. vm_compute. repeat split. Qed.
