(* Model of onl/netdev/two_level_token_bucket.py : TwoRateTokenBucket as a timed automaton with urgent
   internal micro-steps (DESIGN.md 2.4).  Executable; proofs are in TwoRateProofs.v.

   The model is the model of the REPAIRED code.  Two repairs change values (not just remove a crash)
   and are therefore kept behind booleans, so that the behaviour of the code as found can be replayed
   and refuted inside Coq:
     fy   a yellow packet (peak tokens cover it, committed tokens are short) leaves the committed
          bucket alone.  As found: current_bucket_commit = 0.0, which destroys committed tokens.
     fr   the committed bucket keeps filling while a red packet waits for peak tokens.  As found:
          update_time := env.now after the wait without refilling the committed bucket, so the
          committed tokens of the whole wait were lost.

   Actions: RPut p / RInit / RStoreCb / RGet (run() resumes with the head packet: refill both buckets,
   three-way colour decision, maybe start the wait) / RTimer (the wait for peak tokens - or, without
   PIR, for committed tokens - ends: forward) / RAdvance t.
   Outputs: RHead p (the server took p), RFwd p colour (out.put(p) with packet.color = colour; the
   instant of RFwd is also the instant the tokens are debited). *)
From Coq Require Import ZArith QArith Qminmax List Bool.
From ONL Require Import Elem.Packet Elem.StoreQ Elem.Bucket.
Import ListNotations.

Record trcfg := { cir : Q;                    (* committed information rate, bits per second, > 0 *)
                  cbs : Q;                    (* committed bucket size, bytes, >= 0 *)
                  pk : option (Q * Q) }.      (* (pir, pbs) when `if self.pir:` holds; None = no PIR *)

Inductive colour := Green | Yellow | Red.

Inductive rphase :=
| RIdle
| RWaitPeak (p : pkt) (dl : Q)               (* red: waiting for peak tokens *)
| RWaitCommit (p : pkt) (dl : Q).            (* no PIR, yellow: waiting for committed tokens *)

Inductive raction := RPut (p : pkt) | RInit | RStoreCb | RGet | RTimer | RAdvance (t : Q).
Inductive rout := RHead (p : pkt) | RFwd (p : pkt) (c : colour).

Record trtb := {
  rnow : Q;
  rq : sq pkt;
  rstarted : bool;
  lc : Q;                            (* current_bucket_commit *)
  lp : Q;                            (* current_bucket_peak (meaningful only with PIR) *)
  rut : Q;                           (* update_time *)
  rphase_ : rphase;
  rrecv : Z;
  rsent : Z
}.

(* [fu] = the repaired constructor: update_time starts at env.now (as found: 0.0) *)
Definition tr0 (fu : bool) (c : trcfg) (t0 : Q) : trtb :=
  {| rnow := t0; rq := sq0; rstarted := false; lc := cbs c;
     lp := match pk c with Some (_, pbs) => pbs | None => 0 end;
     rut := if fu then t0 else 0; rphase_ := RIdle; rrecv := 0; rsent := 0 |}.

Definition tr_forward (s : trtb) (p : pkt) (col : colour) : option (trtb * list rout) :=
  match sq_get fifo_pop (rq s) with
  | Some q => Some ({| rnow := rnow s; rq := q; rstarted := rstarted s; lc := lc s; lp := lp s; rut := rut s;
                       rphase_ := RIdle; rrecv := rrecv s; rsent := (rsent s + 1)%Z |}, [RFwd p col])
  | None => None
  end.

Definition tr_due (s : trtb) : bool :=
  match rphase_ s with
  | RIdle => false
  | RWaitPeak _ dl => Qeq_bool dl (rnow s)
  | RWaitCommit _ dl => Qeq_bool dl (rnow s)
  end.

Definition tr_urgent (s : trtb) : bool := negb (rstarted s) || sq_urgent (rq s) || tr_due s.

Definition tr_act (fy fr : bool) (c : trcfg) (s : trtb) (a : raction) : option (trtb * list rout) :=
  match a with
  | RPut p =>
      Some ({| rnow := rnow s; rq := sq_put fifo_push (rnow s) p (rq s); rstarted := rstarted s; lc := lc s; lp := lp s;
               rut := rut s; rphase_ := rphase_ s; rrecv := (rrecv s + 1)%Z; rsent := rsent s |}, [])
  | RInit =>
      if rstarted s then None
      else match sq_get fifo_pop (rq s) with
           | Some q => Some ({| rnow := rnow s; rq := q; rstarted := true; lc := lc s; lp := lp s; rut := rut s;
                                rphase_ := rphase_ s; rrecv := rrecv s; rsent := rsent s |}, [])
           | None => None
           end
  | RStoreCb =>
      match sq_cb fifo_pop (rq s) with
      | Some q => Some ({| rnow := rnow s; rq := q; rstarted := rstarted s; lc := lc s; lp := lp s; rut := rut s;
                           rphase_ := rphase_ s; rrecv := rrecv s; rsent := rsent s |}, [])
      | None => None
      end
  | RGet =>
      match rphase_ s, sq_take (rq s) with
      | RIdle, Some ((_, p), q) =>
          if negb (rstarted s) then None else
          let c1 := Qred (refill (cbs c) (cir c) (lc s) (rut s) (rnow s)) in
          match pk c with
          | Some (pir, pbs) =>
              let p1 := Qred (refill pbs pir (lp s) (rut s) (rnow s)) in
              if Qlt_le_dec p1 (sz p) then
                (* red: packet.size > current_bucket_peak: wait for the missing peak tokens *)
                Some ({| rnow := rnow s; rq := q; rstarted := rstarted s; lc := c1; lp := p1; rut := rnow s;
                         rphase_ := RWaitPeak p (Qred (rnow s + tokwait pir (sz p) p1));
                         rrecv := rrecv s; rsent := rsent s |}, [RHead p])
              else if Qlt_le_dec c1 (sz p) then
                (* yellow: peak tokens cover it, committed tokens are short *)
                match tr_forward {| rnow := rnow s; rq := q; rstarted := rstarted s;
                                    lc := if fy then c1 else 0; lp := Qred (p1 - sz p); rut := rnow s;
                                    rphase_ := RIdle; rrecv := rrecv s; rsent := rsent s |} p Yellow with
                | Some (s2, o) => Some (s2, RHead p :: o)
                | None => None
                end
              else
                match tr_forward {| rnow := rnow s; rq := q; rstarted := rstarted s;
                                    lc := Qred (c1 - sz p); lp := Qred (p1 - sz p); rut := rnow s;
                                    rphase_ := RIdle; rrecv := rrecv s; rsent := rsent s |} p Green with
                | Some (s2, o) => Some (s2, RHead p :: o)
                | None => None
                end
          | None =>
              if Qlt_le_dec c1 (sz p) then
                Some ({| rnow := rnow s; rq := q; rstarted := rstarted s; lc := c1; lp := lp s; rut := rnow s;
                         rphase_ := RWaitCommit p (Qred (rnow s + tokwait (cir c) (sz p) c1));
                         rrecv := rrecv s; rsent := rsent s |}, [RHead p])
              else
                match tr_forward {| rnow := rnow s; rq := q; rstarted := rstarted s;
                                    lc := Qred (c1 - sz p); lp := lp s; rut := rnow s;
                                    rphase_ := RIdle; rrecv := rrecv s; rsent := rsent s |} p Green with
                | Some (s2, o) => Some (s2, RHead p :: o)
                | None => None
                end
          end
      | _, _ => None
      end
  | RTimer =>
      match rphase_ s with
      | RWaitPeak p dl =>
          if Qeq_bool dl (rnow s) then
            tr_forward {| rnow := rnow s; rq := rq s; rstarted := rstarted s;
                          lc := if fr then Qred (refill (cbs c) (cir c) (lc s) (rut s) (rnow s)) else lc s;
                          lp := 0; rut := rnow s; rphase_ := RIdle; rrecv := rrecv s; rsent := rsent s |} p Red
          else None
      | RWaitCommit p dl =>
          if Qeq_bool dl (rnow s) then
            tr_forward {| rnow := rnow s; rq := rq s; rstarted := rstarted s; lc := 0; lp := lp s; rut := rnow s;
                          rphase_ := RIdle; rrecv := rrecv s; rsent := rsent s |} p Yellow
          else None
      | RIdle => None
      end
  | RAdvance t =>
      if tr_urgent s then None
      else if Qlt_le_dec (rnow s) t then
        let s' := {| rnow := t; rq := rq s; rstarted := rstarted s; lc := lc s; lp := lp s; rut := rut s;
                     rphase_ := rphase_ s; rrecv := rrecv s; rsent := rsent s |} in
        match rphase_ s with
        | RIdle => Some (s', [])
        | RWaitPeak _ dl => if Qle_bool t dl then Some (s', []) else None
        | RWaitCommit _ dl => if Qle_bool t dl then Some (s', []) else None
        end
      else None
  end.

Definition rev := (Q * raction * list rout)%type.

Fixpoint tr_run (fy fr : bool) (c : trcfg) (s : trtb) (acts : list raction) : option (trtb * list rev) :=
  match acts with
  | [] => Some (s, [])
  | a :: rest =>
      match tr_act fy fr c s a with
      | None => None
      | Some (s', outs) =>
          match tr_run fy fr c s' rest with
          | None => None
          | Some (s'', tr) => Some (s'', (rnow s', a, outs) :: tr)
          end
      end
  end.

Fixpoint tr_stuck (fy fr : bool) (c : trcfg) (s : trtb) (acts : list raction) (i : nat) : option nat :=
  match acts with
  | [] => None
  | a :: rest =>
      match tr_act fy fr c s a with
      | None => Some i
      | Some (s', _) => tr_stuck fy fr c s' rest (S i)
      end
  end.

(* ---- comparison with an observed execution (correspondence) -------------------------------- *)
Definition colour_eqb (a b : colour) : bool :=
  match a, b with Green, Green | Yellow, Yellow | Red, Red => true | _, _ => false end.

Definition rfwds_of (l : list rout) : list (pkt * colour) :=
  flat_map (fun o => match o with RFwd p c => [(p, c)] | _ => [] end) l.

Fixpoint cpkts_eqb (a b : list (pkt * colour)) : bool :=
  match a, b with
  | [], [] => true
  | (x, c) :: s, (y, d) :: t => pkt_eqb x y && colour_eqb c d && cpkts_eqb s t
  | _, _ => false
  end.

(* observed: per action, the (packet, colour) forwarded during it and (packets_received, packets_sent,
   current_bucket_commit, current_bucket_peak, update_time, len(store.items)) after it; the peak
   bucket is compared only when a PIR is configured *)
Definition trsample := (Z * Z * Q * Q * Q * nat)%type.

Definition tr_same (c : trcfg) (s' : trtb) (outs' : list rout) (outs : list (pkt * colour)) (smp : trsample) : bool :=
  let '(r, sn, vc, vp, ut, n) := smp in
  cpkts_eqb (rfwds_of outs') outs && Z.eqb (rrecv s') r && Z.eqb (rsent s') sn
  && Qeq_bool (lc s') vc && (match pk c with Some _ => Qeq_bool (lp s') vp | None => true end)
  && Qeq_bool (rut s') ut && Nat.eqb (length (items (rq s'))) n.

Fixpoint tr_agree (c : trcfg) (s : trtb) (obs : list (raction * list (pkt * colour) * trsample)) : bool :=
  match obs with
  | [] => true
  | (a, outs, smp) :: rest =>
      match tr_act true true c s a with
      | None => false
      | Some (s', outs') => tr_same c s' outs' outs smp && tr_agree c s' rest
      end
  end.

Fixpoint tr_differ (c : trcfg) (s : trtb) (obs : list (raction * list (pkt * colour) * trsample)) (i : nat)
  : option (nat * option trtb) :=
  match obs with
  | [] => None
  | (a, outs, smp) :: rest =>
      match tr_act true true c s a with
      | None => Some (i, None)
      | Some (s', outs') => if tr_same c s' outs' outs smp then tr_differ c s' rest (S i) else Some (i, Some s')
      end
  end.

(* ---- the hand-off: what the next hop sees of the bucket inside its put() (see Bucket.v) ------------------- *)
Definition tr_hand_view (s' : trtb) : trsample :=
  (rrecv s', (rsent s' - 1)%Z, lc s', lp s', rut s', length (sq_held (rq s'))).

Definition trsample_eqb (c : trcfg) (a b : trsample) : bool :=
  let '(r, sn, vc, vp, ut, n) := a in
  let '(r', sn', vc', vp', ut', n') := b in
  Z.eqb r r' && Z.eqb sn sn' && Qeq_bool vc vc' && (match pk c with Some _ => Qeq_bool vp vp' | None => true end)
  && Qeq_bool ut ut' && Nat.eqb n n'.

Fixpoint tr_hands_eqb (c : trcfg) (s' : trtb) (fw : list (pkt * colour)) (obs : list (pkt * colour * trsample)) : bool :=
  match fw, obs with
  | [], [] => true
  | (p, col) :: fw', (q, col', h) :: obs' =>
      pkt_eqb p q && colour_eqb col col' && trsample_eqb c (tr_hand_view s') h && tr_hands_eqb c s' fw' obs'
  | _, _ => false
  end.

Fixpoint tr_agree_h (c : trcfg) (s : trtb) (obs : list (raction * list (pkt * colour * trsample) * trsample)) : bool :=
  match obs with
  | [] => true
  | (a, outs, smp) :: rest =>
      match tr_act true true c s a with
      | None => false
      | Some (s', outs') =>
          tr_hands_eqb c s' (rfwds_of outs') outs
          && trsample_eqb c (rrecv s', rsent s', lc s', lp s', rut s', length (items (rq s'))) smp
          && tr_agree_h c s' rest
      end
  end.
