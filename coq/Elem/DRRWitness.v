(* Accessors for the concrete DRR execution of Elem/DRRExample.v (dex_cfg, dex_acts): the state and the timed trace after
   the first n actions, and names for its five packets.  Used by the non-vacuity witnesses Props/C12_Examples_DRR.v and
   Props/C15_Examples_DRR.v.  Definitions only. *)
From Coq Require Import ZArith QArith List Bool.
From ONL Require Import Elem.Packet Elem.StoreQ Elem.DRR Elem.DRRExample.
Import ListNotations.

Definition dex_state (n : nat) : drr := match drr_run dex_cfg (drr0 0) (firstn n dex_acts) with Some (d, _) => d | None => drr0 0 end.
Definition dex_trace (n : nat) : list dtev := match drr_run dex_cfg (drr0 0) (firstn n dex_acts) with Some (_, tr) => tr | None => [] end.
Definition dex_u0 : pkt := mkp 0 1 0 2000 0.
Definition dex_u1 : pkt := mkp 1 2 1 1000 0.
Definition dex_u2 : pkt := mkp 2 3 7 1000 0.
Definition dex_u3 : pkt := mkp 3 4 0 500 0.
Definition dex_u4 : pkt := mkp 4 5 1 256 4.
