(* Bridging lemmas (DESIGN 2.6, second tie) for Timer.stop / Timer.restart: the bodies as translated from the tree
   under test on every run (Gen/Extracted_timer.v: new start_time / timeout / expire_time / stopped and the effects
   on self.proc in program order) are [do_stop] / [do_restart fixed] of the hand-written automaton (Elem/Timer.v)
   the C19 theorems are about. *)
From Coq Require Import ZArith QArith List Bool Lqa.
From ONL Require Import Elem.Timer Gen.Extracted_timer.
Import ListNotations.

(* the fields of the code, read off the abstract state, and written back *)
Definition timer_fields (st : timer) : timer_st :=
  {| t_start_time := tstart st; t_timeout := tmo st; t_expire_time := expire st; t_stopped := stopped st |}.

Definition timer_with_fields (st : timer) (f : timer_st) : timer :=
  {| tnow := tnow st; tmo := t_timeout f; expire := t_expire_time f; tstart := t_start_time f; stopped := t_stopped f;
     autor := autor st; cargs := cargs st; procs := procs st; cur := cur st; err := err st |}.

(* what the effects on self.proc mean: interrupt(..) schedules an Interruption for the CURRENT self.proc;
   self.proc = env.process(run()) appends a new process (Initialize pending) and makes it self.proc *)
Definition timer_fx_apply (st : timer) (e : timer_fx) : timer :=
  match e with
  | FxInterrupt => set_procs st (upd (cur st) add_intr (procs st))
  | FxNewProc => set_cur (set_procs st (procs st ++ [newp])) (length (procs st))
  end.

Definition timer_fx_run (st : timer) (f : timer_st) (fx : list timer_fx) : timer :=
  fold_left timer_fx_apply fx (timer_with_fields st f).

(* observations: `self.env.active_process is self.proc` for a call made by `caller` (None = not a timer process),
   `self.proc.is_alive`, and nx = `math.nextafter(self.env.now, math.inf)`, which Timer._arm substitutes for
   now + tau when tau > 0 and yet not now + tau > now: in exact arithmetic that never happens, so the bridge holds
   for EVERY nx (what the substitution does in binary64 is outside the model, see props/c19.py trusted_base) *)
Definition timer_gen_stop (st : timer) (tau nx : Q) (own alive_ : bool) :=
  gen_Timer_stop (timer_fields st) (tnow st) tau nx own alive_.
Definition timer_gen_restart (caller : option nat) (tau nx : Q) (st : timer) :=
  gen_Timer_restart (timer_fields st) (tnow st) tau nx (is_caller caller (cur st)) (cur_alive st).

(* the guard of _arm's substitution is dead in exact arithmetic *)
Lemma arm_guard_dead (now tau : Q) :
  negb (Qle_bool tau (0 # 1)) && negb (negb (Qle_bool (now + tau) now)) = false.
Proof.
  destruct (Qle_bool tau (0 # 1)) eqn:E1; [reflexivity|].
  destruct (Qle_bool (now + tau) now) eqn:E2; [|reflexivity].
  exfalso. apply Qle_bool_iff in E2.
  assert (~ tau <= 0 # 1) as N by (intro H; apply Qle_bool_iff in H; congruence).
  apply N. lra.
Qed.

Lemma upd_length {A} i (f : A -> A) l : length (upd i f l) = length l.
Proof. revert i; induction l as [|x t IH]; intros [|i]; cbn; auto. Qed.

(* stop(): whatever the remaining observations are *)
Lemma bridge_timer_stop st tau nx own al :
  let g := timer_gen_stop st tau nx own al in
  do_stop st = timer_fx_run st (fst g) (snd g) /\ snd g = [].
Proof. split; reflexivity. Qed.

(* restart(tau) on a timer whose self.proc denotes one of its processes (always, in Python) *)
Lemma bridge_timer_restart caller tau nx st p :
  nth_error (procs st) (cur st) = Some p ->
  let g := timer_gen_restart caller tau nx st in
  do_restart fixed caller tau st = timer_fx_run st (fst g) (snd g) /\
  snd g = (if is_caller caller (cur st) then [] else if alive p then [FxInterrupt; FxNewProc] else []).
Proof.
  intros Hp. unfold timer_gen_restart, gen_Timer_restart, do_restart, cur_alive, timer_fx_run, alive_test.
  rewrite arm_guard_dead.
  rewrite Hp. cbn [fixed fx_selfcb fx_alive andb].
  destruct (is_caller caller (cur st)) eqn:EC; cbn.
  - split; reflexivity.
  - destruct (alive p) eqn:EA; cbn; split; try reflexivity.
    unfold timer_fx_apply, set_cur, set_procs, set_sched, timer_with_fields; cbn.
    rewrite upd_length. reflexivity.
Qed.
