(* Theorems about the DRR model (Elem/DRR.v) that speak about reachable states: credit, counters, transmissions,
   work conservation.  Built on the invariant of DRRInv.v. *)
From Coq Require Import ZArith QArith Qminmax List Bool Lia Lqa.
From ONL Require Import Elem.Packet Elem.StoreQ Elem.StoreQProofs Elem.DRR Elem.DRRInv.
Import ListNotations.
Opaque Qred.

Lemma dinv_run cfg : forall acts d d' tr,
  dwf cfg -> dinv cfg d -> drr_run cfg d acts = Some (d', tr) -> dinv cfg d'.
Proof.
  induction acts as [|a rest IH]; intros d d' tr Hwf I H; cbn [drr_run] in H.
  - injection H as <- <-. exact I.
  - destruct (drr_act cfg d a) as [[d1 o]|] eqn:A; [|discriminate].
    destruct (drr_run cfg d1 rest) as [[d2 tr2]|] eqn:R; [|discriminate]. injection H as <- <-.
    apply (IH d1 d2 tr2 Hwf); [|exact R]. eapply dinv_step; eauto.
Qed.

Lemma dreach_inv cfg t0 acts d tr : dwf cfg -> drr_run cfg (drr0 t0) acts = Some (d, tr) -> dinv cfg d.
Proof. intros Hwf H. eapply dinv_run; eauto. apply dinv_init. exact Hwf. Qed.

(* ---- C15: quantum ----------------------------------------------------------------------------------------------------- *)
(* Q_c = 1500 * w_c / min w; min w is the least weight of the table *)
Lemma drr_quantum_l cfg c w :
  dwf cfg -> In (c, w) (dweights cfg) ->
  dquantum cfg c == inject_Z (1500 * w) / inject_Z (dminw (dweights cfg))
  /\ (exists x, In x (dweights cfg) /\ snd x = dminw (dweights cfg))
  /\ (forall x, In x (dweights cfg) -> (dminw (dweights cfg) <= snd x)%Z).
Proof.
  intros Hwf Hin. split; [|split].
  - rewrite dquantum_eq. assert (E : dweight cfg c = w); [|rewrite E; reflexivity].
    destruct Hwf as (_ & _ & Hnd & _). unfold dweight, dclasses in *.
    induction (dweights cfg) as [|y t IH]; [destruct Hin|]. cbn [find map] in *.
    inversion Hnd as [|? ? Hnot Hnd']; subst.
    destruct Hin as [->|Hin].
    + cbn [fst]. rewrite Z.eqb_refl. reflexivity.
    + destruct (Z.eqb_spec (fst y) c) as [E|E].
      * exfalso. apply Hnot. rewrite E. change c with (fst (c, w)). apply in_map. exact Hin.
      * apply IH; assumption.
  - destruct Hwf as (_ & Hne & _). unfold dminw. destruct (dweights cfg) as [|y t]; [contradiction|].
    clear. revert y. induction t as [|z t IH]; intros y; cbn [fold_right].
    + exists y. split; [left; reflexivity|reflexivity].
    + destruct (IH y) as (x & Hx & Ex). destruct (Z.min_spec (snd z) (fold_right (fun y0 m => Z.min (snd y0) m) (snd y) t)) as [[_ E]|[_ E]]; rewrite E.
      * exists z. split; [right; left; reflexivity|reflexivity].
      * exists x. split; [|exact Ex]. destruct Hx as [<-|Hx]; [left; reflexivity|right; right; exact Hx].
  - intros x Hx. apply dminw_le. exact Hx.
Qed.

(* ---- C15: credit bounds ------------------------------------------------------------------------------------------------ *)
Lemma drr_credit_bounds_l cfg t0 acts d tr :
  dwf cfg -> drr_run cfg (drr0 t0) acts = Some (d, tr) ->
  forall c, In c (dclasses cfg) -> 0 <= ddef d c /\ ddef d c < dquantum cfg c + inject_Z (dlmax d).
Proof.
  intros Hwf H c Hc. pose proof (dreach_inv _ _ _ _ _ Hwf H) as I.
  destruct (b_def _ _ (i_base _ _ I) c) as [H1 H2]. split; auto.
Qed.

(* ---- C15: a visit ends only when the credit is used up or the head packet is not affordable --------------------------- *)
Lemma dtx_nil_not_visiting cfg d c : dinv cfg d -> dvisiting d <> Some c -> dtx_l cfg d c = [].
Proof.
  intros I Hv. unfold dtx_l. destruct (dchd d) as [|p|p dl|p] eqn:Ch; try reflexivity.
  - destruct (dctl_child cfg d (i_ctl _ _ I) ltac:(congruence)) as (c0 & rest & p0 & K & Hp0 & Hc & _).
    assert (p0 = p) by (destruct Hp0 as [E|[(dl0 & E & _)|E]]; congruence). subst p0.
    unfold dvisiting in Hv. rewrite K in Hv. destruct (Z.eqb_spec (dcls cfg p) c); [congruence|reflexivity].
  - destruct (dctl_child cfg d (i_ctl _ _ I) ltac:(congruence)) as (c0 & rest & p0 & K & Hp0 & Hc & _).
    assert (p0 = p) by (destruct Hp0 as [E|[(dl0 & E & _)|E]]; congruence). subst p0.
    unfold dvisiting in Hv. rewrite K in Hv. destruct (Z.eqb_spec (dcls cfg p) c); [congruence|reflexivity].
Qed.

Lemma drr_visit_complete_l cfg t0 acts d tr :
  dwf cfg -> drr_run cfg (drr0 t0) acts = Some (d, tr) ->
  forall c, dvisiting d <> Some c ->
  match dhol d c with
  | Some p => hd_error (dheld cfg d c) = Some p /\ ddef d c < inject_Z (psize p)
  | None => ddef d c == 0
  end.
Proof.
  intros Hwf H c Hv. pose proof (dreach_inv _ _ _ _ _ Hwf H) as I.
  pose proof (i_rest _ _ I c Hv) as R. unfold dparked_or_zero in R.
  destruct (dhol d c) as [p|] eqn:Eh; [|exact R]. split; [|exact R].
  unfold dheld. rewrite (dtx_nil_not_visiting cfg d c I Hv). unfold dhol_l. rewrite Eh. reflexivity.
Qed.

(* ---- C15: the credit is forgotten when the class's queue empties --------------------------------------------------------- *)
Lemma drr_credit_forgotten_l cfg t0 acts d tr :
  dwf cfg -> drr_run cfg (drr0 t0) acts = Some (d, tr) ->
  forall c, dheld cfg d c = [] -> ddone cfg d c = 0%Z -> ddef d c == 0.
Proof.
  intros Hwf H c Hh Hd. pose proof (dreach_inv _ _ _ _ _ Hwf H) as I.
  assert (Hv : dvisiting d <> Some c).
  { intros Hv. pose proof (i_ctl _ _ I) as C. unfold dvisiting in Hv. unfold dctl_ok in C.
    destruct (dctrl d) as [| |c0 rest|c0 rest]; try discriminate; injection Hv as ->.
    - destruct C as (_ & _ & (x & Gx) & _). unfold dheld, dsth, sq_held in Hh. rewrite Gx in Hh.
      apply app_eq_nil in Hh as [_ Hh]. apply app_eq_nil in Hh as [_ Hh]. discriminate.
    - destruct C as ((p & Hp & Hc & _) & _). unfold dheld, dtx_l in Hh. unfold ddone in Hd.
      destruct Hp as [E|[(dl & E & _)|E]]; rewrite E in *; rewrite Hc, Z.eqb_refl in *; discriminate. }
  pose proof (i_rest _ _ I c Hv) as R. unfold dparked_or_zero in R.
  destruct (dhol d c) as [p|] eqn:Eh; [|exact R].
  pose proof (dhol_in_held cfg d c p Eh) as Hin. rewrite Hh in Hin. destruct Hin.
Qed.

(* ---- C12: counters ---------------------------------------------------------------------------------------------------------- *)
Definition dall_held (cfg : dcfg) (d : drr) : list pkt := flat_map (dheld cfg d) (dclasses cfg).

Lemma dof_flow_none f l : (forall p, In p l -> flow p <> f) -> dof_flow f l = [].
Proof.
  induction l as [|p t IH]; intros H; [reflexivity|]. rewrite dof_flow_cons.
  destruct (Z.eqb_spec (flow p) f) as [E|_]; [exfalso; apply (H p); [left; reflexivity|exact E]|].
  apply IH. intros q Hq. apply H. right. exact Hq.
Qed.

Lemma dof_flow_all_held cfg d f : dwf cfg -> dbase cfg d ->
  dof_flow f (dall_held cfg d) = dof_flow f (dheld cfg d (df2c cfg f)).
Proof.
  intros (_ & _ & Hnd & _) B. unfold dall_held.
  destruct (in_dec Z.eq_dec (df2c cfg f) (dclasses cfg)) as [Hin|Hout].
  - induction (dclasses cfg) as [|c t IH]; [destruct Hin|]. cbn [flat_map]. rewrite dof_flow_app.
    inversion Hnd as [|? ? Hnot Hnd']; subst.
    destruct (Z.eq_dec c (df2c cfg f)) as [->|Hne].
    + rewrite (dof_flow_none f (flat_map (dheld cfg d) t)); [apply app_nil_r|].
      intros p Hp E. apply in_flat_map in Hp as (k & Hk & Hpk).
      destruct (b_cls _ _ B k p Hpk) as (Hc & _). unfold dcls in Hc. rewrite E in Hc. subst k. contradiction.
    + destruct Hin as [E|Hin]; [contradiction|].
      rewrite (dof_flow_none f (dheld cfg d c)); [apply IH; auto|].
      intros p Hp E. destruct (b_cls _ _ B c p Hp) as (Hc & _). unfold dcls in Hc. rewrite E in Hc. congruence.
  - rewrite (dheld_outside cfg d _ B Hout). cbn. apply dof_flow_none.
    intros p Hp E. apply in_flat_map in Hp as (k & Hk & Hpk).
    destruct (b_cls _ _ B k p Hpk) as (Hc & _). unfold dcls in Hc. rewrite E in Hc. subst k. contradiction.
Qed.

(* queue_count[f] / queue_byte_size[f] = packets / bytes of flow f waiting or in transmission; total_packets = all of them *)
Lemma drr_counters_l cfg t0 acts d tr :
  dwf cfg -> drr_run cfg (drr0 t0) acts = Some (d, tr) ->
  (forall f, dqcnt d f = Z.of_nat (length (dof_flow f (dall_held cfg d)))
             /\ dqbytes d f = dbytes (dof_flow f (dall_held cfg d)))
  /\ dtotal d = Z.of_nat (length (dall_held cfg d)).
Proof.
  intros Hwf H. pose proof (dreach_inv _ _ _ _ _ Hwf H) as I. pose proof (i_base _ _ I) as B. split.
  - intros f. rewrite (dof_flow_all_held cfg d f Hwf B). split; [apply (b_qcnt _ _ B)|apply (b_qbytes _ _ B)].
  - rewrite (b_total _ _ B). unfold dall_held, dlen. induction (dclasses cfg) as [|c t IH]; cbn [dsum flat_map]; [reflexivity|].
    rewrite app_length, IH. lia.
Qed.

(* ---- C12: one transmission at a time, never aborted, exactly 8*size/rate ---------------------------------------------------- *)
Lemma drr_one_at_a_time_l cfg t0 acts d tr a d' ev p dl :
  dwf cfg -> drr_run cfg (drr0 t0) acts = Some (d, tr) -> drr_act cfg d a = Some (d', ev) ->
  dchd d = DCTx p dl ->
  dnow d <= dl /\
  ((a = DChildTimer /\ dnow d == dl /\ ev = [DOForward p] /\ dchd d' = DCDone p /\ dnow d' = dnow d)
   \/ (a <> DChildTimer /\ a <> DChildInit /\ dchd d' = DCTx p dl /\ dforwards ev = [] /\ dnow d' <= dl)).
Proof.
  intros Hwf H A Ch. pose proof (dreach_inv _ _ _ _ _ Hwf H) as I.
  destruct (dctl_child cfg d (i_ctl _ _ I) ltac:(congruence)) as (c & rest & p0 & K & Hp0 & Hc & A2 & A3 & C2 & C3 & C4 & C5 & C6).
  assert (Hnow : dnow d <= dl).
  { destruct Hp0 as [E|[(dl0 & E & Hle)|E]]; congruence. }
  split; [exact Hnow|].
  unfold drr_act in A. destruct a as [q| |[k|]|[k|]| | | |t].
  - right. cbv zeta in A. destruct (_ && _); [|discriminate]. injection A as <- <-.
    cbn. repeat split; try discriminate; auto.
  - rewrite K in A. discriminate.
  - right. destruct (dmemZ k (dclasses cfg)); [|discriminate]. destruct (sq_cb fifo_pop (dst d k)); [|discriminate].
    injection A as <- <-. cbn. repeat split; try discriminate; auto.
  - right. destruct (sq_cb fifo_pop (dtok d)); [|discriminate]. injection A as <- <-. cbn. repeat split; try discriminate; auto.
  - rewrite K in A. discriminate.
  - rewrite K in A. discriminate.
  - rewrite Ch in A. discriminate.
  - left. rewrite Ch in A. destruct (Qeq_bool dl (dnow d)) eqn:E; [|discriminate]. cbv zeta in A. injection A as <- <-.
    apply Qeq_bool_iff in E. cbn. repeat split; auto. symmetry. exact E.
  - rewrite Ch in A. discriminate.
  - right. destruct (durgent cfg d); [discriminate|]. destruct (Qlt_le_dec (dnow d) t); [|discriminate]. cbv zeta in A.
    rewrite Ch in A. destruct (Qle_bool t dl) eqn:Le; [|discriminate]. injection A as <- <-.
    apply Qle_bool_iff in Le. cbn. repeat split; try discriminate; auto.
Qed.

Lemma drr_tx_start_l cfg t0 acts d tr d' ev :
  dwf cfg -> drr_run cfg (drr0 t0) acts = Some (d, tr) -> drr_act cfg d DChildInit = Some (d', ev) ->
  exists p dl, dchd d = DCStart p /\ dchd d' = DCTx p dl /\ dl == dnow d + inject_Z (8 * psize p) / drate cfg
               /\ dnow d' = dnow d /\ ev = [].
Proof.
  intros Hwf H A. unfold drr_act in A. destruct (dchd d) as [|p| |] eqn:Ch; try discriminate. injection A as <- <-.
  exists p, (Qred (dnow d + dtx_time cfg p)). cbn. repeat split; auto.
  rewrite Qred_correct. unfold dtx_time. rewrite (Z.mul_comm (psize p) 8). reflexivity.
Qed.

(* ---- C12: work conservation ---------------------------------------------------------------------------------------------------- *)
Lemma drr_work_conserving_l cfg t0 acts d tr :
  dwf cfg -> drr_run cfg (drr0 t0) acts = Some (d, tr) -> durgent cfg d = false ->
  (exists p dl, dchd d = DCTx p dl /\ dnow d < dl) \/ (forall c, dheld cfg d c = []).
Proof.
  intros Hwf H U. pose proof (dreach_inv _ _ _ _ _ Hwf H) as I. pose proof (i_base _ _ I) as B.
  destruct (durgent_false _ _ U) as (U1 & U2 & U3 & U4).
  pose proof (i_ctl _ _ I) as C. unfold dctl_ok in C.
  destruct (dchd d) as [|p|p dl|p] eqn:Ch.
  - right. unfold dctl_fresh in U1. destruct (dctrl d) as [| |c rest|c rest] eqn:K; try discriminate.
    + destruct C as (_ & Gn & _).
      apply sq_urgent_false in U3 as (Pz & Ng).
      assert (Gw : get (dtok d) = GWaiting).
      { destruct (get (dtok d)) as [| |x] eqn:G; [contradiction|reflexivity|exfalso; apply (Ng x); reflexivity]. }
      assert (Hi : items (dtok d) = []).
      { destruct (items (dtok d)) eqn:E; [reflexivity|]. exfalso.
        assert (pend (dtok d) > 0)%nat by (apply (b_nostrand _ _ B Gw); rewrite E; discriminate). lia. }
      assert (T0 : dtotal d = 0%Z).
      { pose proof (dbase_total_nonneg _ _ B). destruct (Z_lt_dec 0 (dtotal d)) as [Hp|]; [|lia].
        exfalso. apply (i_tok _ _ I K Gw Hp). exact Hi. }
      rewrite (b_total _ _ B) in T0. intros c.
      destruct (in_dec Z.eq_dec c (dclasses cfg)) as [Hin|Hout]; [|apply (dheld_outside cfg d c B Hout)].
      pose proof (dsum_zero_all _ _ (dlen_nonneg cfg d) T0 c Hin) as Hz. unfold dlen in Hz.
      destruct (dheld cfg d c); [reflexivity|cbn in Hz; lia].
    + exfalso. destruct C as (_ & _ & (x & Gx) & _ & _ & Hs & _).
      pose proof (U4 c (dsuffix_head _ _ _ Hs)) as Uc. apply sq_urgent_false in Uc as (_ & Ng). apply (Ng x). exact Gx.
    + exfalso. destruct C as ((p & [E|[(dl & E & _)|E]] & _) & _); congruence.
  - unfold dchild_urgent in U2. rewrite Ch in U2. discriminate.
  - left. exists p, dl. split; [reflexivity|].
    unfold dchild_urgent in U2. rewrite Ch in U2.
    destruct (dctl_child cfg d (i_ctl _ _ I) ltac:(congruence)) as (c & rest & p0 & K & Hp0 & _).
    assert (Hle : dnow d <= dl).
    { destruct Hp0 as [E|[(dl0 & E & Hle)|E]]; congruence. }
    apply Qle_lt_or_eq in Hle as [Hlt|Heq]; [exact Hlt|]. exfalso.
    assert (Qeq_bool dl (dnow d) = true) by (apply Qeq_bool_iff; symmetry; exact Heq). congruence.
  - unfold dchild_urgent in U2. rewrite Ch in U2. discriminate.
Qed.

(* C08: nothing is held when nothing is enabled and no deadline is pending *)
Lemma drr_drained_l cfg t0 acts d tr :
  dwf cfg -> drr_run cfg (drr0 t0) acts = Some (d, tr) -> durgent cfg d = false ->
  (forall p dl, dchd d <> DCTx p dl) -> forall c, dheld cfg d c = [].
Proof.
  intros Hwf H U Hn. destruct (drr_work_conserving_l cfg t0 acts d tr Hwf H U) as [(p & dl & E & _)|Hall]; [|exact Hall].
  exfalso. apply (Hn p dl). exact E.
Qed.

(* ====================================================================================================================== *)
(* Traces: conservation, per-flow order, largest packet                                                                   *)

Definition daput (a : daction) : list pkt := match a with DPut p => [p] | _ => [] end.
Definition dputs (tr : list dtev) : list pkt := flat_map (fun e => daput (snd (fst e))) tr.
Definition dfwds (tr : list dtev) : list pkt := flat_map (fun e => dforwards (snd e)) tr.
Definition dof_cls (cfg : dcfg) (c : Z) (l : list pkt) : list pkt := filter (fun p => Z.eqb (dcls cfg p) c) l.
Fixpoint dmaxsize (l : list pkt) : Z := match l with [] => 0%Z | p :: t => Z.max (psize p) (dmaxsize t) end.

Lemma dforwards_app a b : dforwards (a ++ b) = dforwards a ++ dforwards b.
Proof. unfold dforwards. apply flat_map_app. Qed.

Lemma dof_cls_app cfg c a b : dof_cls cfg c (a ++ b) = dof_cls cfg c a ++ dof_cls cfg c b.
Proof. unfold dof_cls. apply filter_app. Qed.

Lemma dmaxsize_app a b : dmaxsize (a ++ b) = Z.max (dmaxsize a) (dmaxsize b).
Proof. induction a as [|p t IH]; cbn [dmaxsize app]; [|rewrite IH; lia]. induction b; cbn [dmaxsize]; lia. Qed.

Lemma dmaxsize_nonneg l : (0 <= dmaxsize l)%Z.
Proof. induction l; cbn [dmaxsize]; lia. Qed.

(* run() itself forwards nothing: only the transmission timeout does *)
Definition dres_nofwd (r : dres) : Prop :=
  match r with DYield _ e | DFall _ e => dforwards e = [] | DErr => True end.

Lemma dtry_head_nofwd c rest d p : dres_nofwd (dtry_head c rest d p).
Proof. unfold dtry_head. destruct (Qle_bool _ _); reflexivity. Qed.

Lemma dinner_nofwd c rest d : dres_nofwd (dinner c rest d).
Proof.
  unfold dinner. destruct (_ && _); [|reflexivity]. destruct (dhol d c); [apply dtry_head_nofwd|].
  destruct (sq_get fifo_pop (dst d c)); reflexivity.
Qed.

Lemma dscan_nofwd cfg cs : forall d, dres_nofwd (dscan cfg cs d).
Proof.
  induction cs as [|c rest IH]; intros d; cbn [dscan]; [reflexivity|].
  assert (Hv : dforwards (snd (dvisit_start cfg c d)) = [])
    by (unfold dvisit_start; destruct (0 <? dccnt d c)%Z; reflexivity).
  destruct (dvisit_start cfg c d) as [d1 e1]. cbn [snd] in Hv.
  pose proof (dinner_nofwd c rest d1) as H1. destruct (dinner c rest d1) as [d2 e2|d2 e2|]; unfold dres_nofwd in *.
  - rewrite dforwards_app, Hv, H1. reflexivity.
  - pose proof (IH d2) as H2. destruct (dscan cfg rest d2); unfold dres_nofwd in *; try exact I;
      rewrite !dforwards_app, Hv, H1, H2; reflexivity.
  - exact I.
Qed.

Lemma dforwards_pass e : dforwards (DOPass :: e) = dforwards e.
Proof. reflexivity. Qed.

Lemma dpasses_nofwd cfg fuel : forall d d' e, dpasses fuel cfg d = Some (d', e) -> dforwards e = [].
Proof.
  induction fuel as [|n IH]; intros d d' e H; cbn [dpasses] in H.
  - destruct (0 <? dtotal d)%Z; [discriminate|]. destruct (sq_get fifo_pop (dtok d)); [|discriminate].
    injection H as <- <-. reflexivity.
  - destruct (0 <? dtotal d)%Z.
    + pose proof (dscan_nofwd cfg (dclasses cfg) d) as H1. destruct (dscan cfg (dclasses cfg) d) as [d1 e1|d1 e1|]; [| |discriminate];
        unfold dres_nofwd in H1.
      * injection H as <- <-. rewrite dforwards_pass. exact H1.
      * destruct (dpasses n cfg d1) as [[d2 e2]|] eqn:P; [|discriminate]. injection H as <- <-.
        rewrite dforwards_pass, dforwards_app, H1, (IH _ _ _ P). reflexivity.
    + destruct (sq_get fifo_pop (dtok d)); [|discriminate]. injection H as <- <-. reflexivity.
Qed.

Lemma dcontinue_nofwd cfg rest r d' e : dres_nofwd r -> dcontinue cfg rest r = Some (d', e) -> dforwards e = [].
Proof.
  intros Hr H. destruct r as [d e0|d e0|]; cbn [dcontinue] in H; unfold dres_nofwd in Hr; [injection H as <- <-; exact Hr| |discriminate].
  pose proof (dscan_nofwd cfg rest d) as H1. destruct (dscan cfg rest d) as [d1 e1|d1 e1|]; [| |discriminate]; unfold dres_nofwd in H1.
  - injection H as <- <-. rewrite dforwards_app, Hr, H1. reflexivity.
  - destruct (dpasses (dfuel d1) cfg d1) as [[d2 e2]|] eqn:P; [|discriminate]. injection H as <- <-.
    rewrite !dforwards_app, Hr, H1, (dpasses_nofwd _ _ _ _ _ P). reflexivity.
Qed.

(* what one action does to the packets held, to the largest size, to the clock *)
Lemma dstep_frame cfg d a d' ev :
  dwf cfg -> dinv cfg d -> drr_act cfg d a = Some (d', ev) ->
  (forall c, dheld cfg d c ++ dof_cls cfg c (daput a) = dof_cls cfg c (dforwards ev) ++ dheld cfg d' c)
  /\ dlmax d' = Z.max (dlmax d) (dmaxsize (daput a))
  /\ (forall p, In p (daput a) -> In (dcls cfg p) (dclasses cfg) /\ (0 < psize p)%Z)
  /\ ((forall t, a <> DAdvance t) -> dnow d' = dnow d).
Proof.
  intros Hwf I A. pose proof (b_lmax _ _ (i_base _ _ I)) as L0.
  assert (Hsame : dsameh cfg d d' -> dforwards ev = [] -> daput a = [] ->
    (forall c, dheld cfg d c ++ dof_cls cfg c (daput a) = dof_cls cfg c (dforwards ev) ++ dheld cfg d' c)
    /\ dlmax d' = Z.max (dlmax d) (dmaxsize (daput a))
    /\ (forall p, In p (daput a) -> In (dcls cfg p) (dclasses cfg) /\ (0 < psize p)%Z)
    /\ ((forall t, a <> DAdvance t) -> dnow d' = dnow d)).
  { intros S F P. rewrite F, P. cbn [dof_cls filter dmaxsize]. repeat split.
    - intros c. rewrite app_nil_r. symmetry. apply (h_held _ _ _ S).
    - rewrite (h_lmax _ _ _ S). lia.
    - destruct H.
    - destruct H.
    - intros _. apply (h_now _ _ _ S). }
  destruct a as [p| |[c|]|[c|]| | | |t].
  - (* DPut *) unfold drr_act in A. cbv zeta in A. set (c0 := df2c cfg (flow p)) in *.
    destruct (dmemZ c0 (dclasses cfg) && (0 <? psize p)%Z) eqn:G; [|discriminate].
    apply andb_true_iff in G as [G1 G2]. apply dmemZ_In in G1. apply Z.ltb_lt in G2. injection A as <- <-.
    cbn [daput dforwards flat_map dof_cls filter dmaxsize dlmax dnow]. repeat split.
    + intros k. unfold dheld, dtx_l, dhol_l, dsth. cbn [dchd dhol dst]. unfold dupd, dcls. fold c0.
      destruct (Z.eqb_spec k c0) as [->|Hne].
      * rewrite Z.eqb_refl, fifo_held_put, map_app. cbn [map snd]. rewrite !app_assoc. reflexivity.
      * destruct (Z.eqb_spec c0 k); [congruence|]. rewrite app_nil_r. reflexivity.
    + lia.
    + destruct H as [<-|[]]. exact G1.
    + destruct H as [<-|[]]. exact G2.
  - destruct (dstep_init cfg d d' ev Hwf I A) as (_ & S). apply Hsame; [exact S| |reflexivity].
    unfold drr_act in A. destruct (dctrl d); try discriminate. apply (dpasses_nofwd _ _ _ _ _ A).
  - (* DStoreCb (Some c) *) apply Hsame; [| |reflexivity].
    + unfold drr_act in A. destruct (dmemZ c (dclasses cfg)); [|discriminate].
      destruct (sq_cb fifo_pop (dst d c)) as [q|] eqn:Cb; [|discriminate]. injection A as <- <-.
      destruct (sq_cb_not_waiting pkt fifo_pop _ _ Cb (dctl_get_not_waiting cfg d c (i_ctl _ _ I))) as (Ei & Eg).
      constructor; try reflexivity. intros k. unfold dheld, dsth. cbn [dst dset_st dchd dhol]. unfold dupd.
      destruct (Z.eqb_spec k c) as [->|]; [|reflexivity]. unfold sq_held. rewrite Eg, Ei. reflexivity.
    + unfold drr_act in A. destruct (dmemZ c (dclasses cfg)); [|discriminate].
      destruct (sq_cb fifo_pop (dst d c)); [|discriminate]. injection A as <- <-. reflexivity.
  - (* DStoreCb None *) unfold drr_act in A. destruct (sq_cb fifo_pop (dtok d)); [|discriminate]. injection A as <- <-.
    apply Hsame; [constructor; reflexivity|reflexivity|reflexivity].
  - destruct (dstep_get cfg d c d' ev Hwf I A) as (_ & S). apply Hsame; [exact S| |reflexivity].
    unfold drr_act in A. destruct (dctrl d) as [| |c0 rest|]; try discriminate. destruct (Z.eqb c c0); [|discriminate].
    destruct (sq_take (dst d c)) as [[[t0 p] q]|]; [|discriminate].
    apply (dcontinue_nofwd _ _ _ _ _ (dtry_head_nofwd _ _ _ _) A).
  - destruct (dstep_tokget cfg d d' ev Hwf I A) as (_ & S). apply Hsame; [exact S| |reflexivity].
    unfold drr_act in A. destruct (dctrl d); try discriminate. destruct (sq_take (dtok d)) as [[x q]|]; [|discriminate].
    apply (dpasses_nofwd _ _ _ _ _ A).
  - (* DChildInit *) unfold drr_act in A. destruct (dchd d) as [|p| |] eqn:Ch; try discriminate. injection A as <- <-.
    apply Hsame; [|reflexivity|reflexivity]. constructor; try reflexivity.
    intros k. unfold dheld, dtx_l. cbn [dchd dhol dst]. rewrite Ch. reflexivity.
  - (* DChildTimer *) unfold drr_act in A. destruct (dchd d) as [| |p dl|] eqn:Ch; try discriminate.
    destruct (Qeq_bool dl (dnow d)); [|discriminate]. cbv zeta in A. injection A as <- <-.
    cbn [daput dforwards flat_map dof_cls filter dmaxsize dlmax dnow app]. repeat split.
    + intros k. rewrite app_nil_r. unfold dheld, dtx_l. cbn [dchd dhol dst]. rewrite Ch.
      destruct (Z.eqb (dcls cfg p) k); reflexivity.
    + lia.
    + destruct H.
    + destruct H.
  - destruct (dstep_childend cfg d d' ev Hwf I A) as (_ & S). apply Hsame; [exact S| |reflexivity].
    unfold drr_act in A. destruct (dchd d) as [| | |p]; try discriminate. destruct (dctrl d) as [| | |c rest]; try discriminate.
    destruct (dcontinue cfg rest _) as [[d2 e2]|] eqn:Dc; [|discriminate]. injection A as <- <-.
    change (dforwards e2 = []). apply (dcontinue_nofwd _ _ _ _ _ (dinner_nofwd _ _ _) Dc).
  - (* DAdvance *) unfold drr_act in A. destruct (durgent cfg d); [discriminate|]. destruct (Qlt_le_dec (dnow d) t); [|discriminate].
    cbv zeta in A.
    assert (E0 : ev = [] /\ d' = {| dnow := t; dtok := dtok d; dst := dst d; dqcnt := dqcnt d; dqbytes := dqbytes d; dtotal := dtotal d;
                     dccnt := dccnt d; ddef := ddef d; dhol := dhol d; dcur := dcur d; dnrecv := dnrecv d; dlmax := dlmax d;
                     dchd := dchd d; dctrl := dctrl d |}).
    { destruct (dchd d) as [|p|p dl|p]; try (injection A as <- <-; split; reflexivity).
      destruct (Qle_bool t dl); [|discriminate]. injection A as <- <-. split; reflexivity. }
    assert (E : ev = [] /\ (forall c, dheld cfg d' c = dheld cfg d c) /\ dlmax d' = dlmax d).
    { destruct E0 as (-> & ->). repeat split; reflexivity. }
    destruct E as (-> & Eh & El). cbn [daput dforwards flat_map dof_cls filter dmaxsize]. repeat split.
    + intros c. rewrite app_nil_r. symmetry. apply Eh.
    + rewrite El. lia.
    + destruct H.
    + destruct H.
    + intros Ht. exfalso. apply (Ht t). reflexivity.
Qed.

Lemma drun_frame cfg : forall acts d d' tr,
  dwf cfg -> dinv cfg d -> drr_run cfg d acts = Some (d', tr) ->
  (forall c, dheld cfg d c ++ dof_cls cfg c (dputs tr) = dof_cls cfg c (dfwds tr) ++ dheld cfg d' c)
  /\ dlmax d' = Z.max (dlmax d) (dmaxsize (dputs tr))
  /\ (forall p, In p (dputs tr) -> In (dcls cfg p) (dclasses cfg) /\ (0 < psize p)%Z).
Proof.
  induction acts as [|a rest IH]; intros d d' tr Hwf I H; cbn [drr_run] in H.
  - injection H as <- <-. cbn. repeat split.
    + intros c. apply app_nil_r.
    + pose proof (b_lmax _ _ (i_base _ _ I)). lia.
    + destruct H.
    + destruct H.
  - destruct (drr_act cfg d a) as [[d1 o]|] eqn:A; [|discriminate].
    destruct (drr_run cfg d1 rest) as [[d2 tr2]|] eqn:R; [|discriminate]. injection H as <- <-.
    destruct (dstep_frame cfg d a d1 o Hwf I A) as (F1 & F2 & F3 & _).
    destruct (IH d1 d2 tr2 Hwf (dinv_step _ _ _ _ _ Hwf I A) R) as (G1 & G2 & G3).
    cbn [dputs dfwds flat_map fst snd]. fold (dputs tr2). fold (dfwds tr2). repeat split.
    + intros c. rewrite !dof_cls_app, app_assoc, F1, <- app_assoc, G1, app_assoc. reflexivity.
    + rewrite dmaxsize_app, G2, F2. lia.
    + apply in_app_or in H as [H|H]; [apply (F3 p H)|apply (G3 p H)].
    + apply in_app_or in H as [H|H]; [apply (F3 p H)|apply (G3 p H)].
Qed.

(* C08: per class, the packets put in are exactly the packets forwarded followed by the packets still held, as lists *)
Lemma drr_conserves_l cfg t0 acts d tr :
  dwf cfg -> drr_run cfg (drr0 t0) acts = Some (d, tr) ->
  (forall c, dof_cls cfg c (dputs tr) = dof_cls cfg c (dfwds tr) ++ dheld cfg d c)
  /\ (forall p, In p (dputs tr) -> In (dcls cfg p) (dclasses cfg))
  /\ dlmax d = dmaxsize (dputs tr).
Proof.
  intros Hwf H. destruct (drun_frame cfg acts _ _ _ Hwf (dinv_init cfg t0 Hwf) H) as (F1 & F2 & F3).
  split; [|split].
  - intros c. apply (F1 c).
  - intros p Hp. apply (F3 p Hp).
  - rewrite F2. cbn. pose proof (dmaxsize_nonneg (dputs tr)). lia.
Qed.

Lemma dof_flow_of_cls cfg f l : dof_flow f (dof_cls cfg (df2c cfg f) l) = dof_flow f l.
Proof.
  induction l as [|p t IH]; [reflexivity|]. unfold dof_cls in *. cbn [filter]. unfold dcls at 1.
  destruct (Z.eqb_spec (df2c cfg (flow p)) (df2c cfg f)) as [E|E].
  - rewrite !dof_flow_cons, IH. reflexivity.
  - rewrite dof_flow_cons, IH. destruct (Z.eqb_spec (flow p) f) as [E'|]; [|reflexivity]. exfalso. apply E. rewrite E'. reflexivity.
Qed.

(* per flow: forwarded ++ held = put in, in arrival order *)
Lemma drr_flow_fifo_l cfg t0 acts d tr :
  dwf cfg -> drr_run cfg (drr0 t0) acts = Some (d, tr) ->
  forall f, dof_flow f (dputs tr) = dof_flow f (dfwds tr) ++ dof_flow f (dheld cfg d (df2c cfg f)).
Proof.
  intros Hwf H f. destruct (drr_conserves_l cfg t0 acts d tr Hwf H) as (F & _).
  rewrite <- (dof_flow_of_cls cfg f (dputs tr)), (F (df2c cfg f)), dof_flow_app, dof_flow_of_cls. reflexivity.
Qed.

(* C12: at a state where nothing is held, every packet put in has been transmitted exactly once, per flow in arrival order *)
Lemma drr_exactly_once_l cfg t0 acts d tr :
  dwf cfg -> drr_run cfg (drr0 t0) acts = Some (d, tr) -> (forall c, dheld cfg d c = []) ->
  (forall f, dof_flow f (dfwds tr) = dof_flow f (dputs tr)) /\ (forall c, dof_cls cfg c (dfwds tr) = dof_cls cfg c (dputs tr)).
Proof.
  intros Hwf H Hh. split.
  - intros f. rewrite (drr_flow_fifo_l cfg t0 acts d tr Hwf H f), Hh. cbn. rewrite app_nil_r. reflexivity.
  - intros c. destruct (drr_conserves_l cfg t0 acts d tr Hwf H) as (F & _). rewrite (F c), Hh, app_nil_r. reflexivity.
Qed.
