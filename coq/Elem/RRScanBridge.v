(* Bridging lemmas for the GENERATOR body RR.run (second tie, generator bodies: vlib/translate_gen.py).
   Gen/Extracted_rr_run.v is regenerated from the tree under test on every run: RR.run cut at its yields, the for-loop over
   self.flows a structural fix over the REMAINING flow list, which the program points inside the loop carry in their frame:
     gen_RR_run_from_0   entry: the scan `for flow_id in self.flows` up to `packet = yield store.get()` on the first flow whose
                         queue_count is positive (PP1 carries the rest of the list); after the list the idle test
                         `if self.total_packets == 0: yield self.packets_available.get()`, else around the while: a scan
                         from the top, and if that finds nothing either the generator spins
     gen_RR_run_from_1   resumed with a packet: `yield env.process(self.send_packet(packet))` (PP2 carries the same rest)
     gen_RR_run_from_2   the child has ended: the scan goes on over the REST of the list (round robin), then as above
     gen_RR_run_from_3   resumed with the token: a scan from the top
   Here they get their meaning in the hand-written automaton (Elem/SchedBase.v with the RR configuration of Elem/RR.v): the
   rest of the flow list IS the automaton's position in the pass.  SInit / SGetDone / SChildEnd are proved to be EXACTLY the
   generated functions, by induction over the list.  The automaton's ghost outputs OVisit are not part of the code: the scan
   statements compare states. *)
From Coq Require Import ZArith QArith List Bool Lia.
From ONL Require Import Elem.Packet Elem.StoreQ Elem.SchedBase Elem.RR Gen.Extracted_rr_run.
Import ListNotations.

Definition rr_fields (s : mq) : rr_run_st := {| rr_queue_count := mqc s |}.

(* the automaton's position in the pass while / after flow f is served with the flows t still to visit: the slot of f is
   used up *)
Definition rr_rem (f : Z) (t : list Z) : list (Z * nat) := (f, 0%nat) :: map (fun g => (g, 1%nat)) t.

(* the first flow of the list with a positive queue_count, and the flows after it *)
Fixpoint rr_find (qc : Z -> Z) (l : list Z) : option (Z * list Z) :=
  match l with
  | [] => None
  | f :: t => if Z.ltb 0 (qc f) then Some (f, t) else rr_find qc t
  end.

Definition rr_get (o : option (Z * list Z)) (otherwise : rr_run_next) : rr_run_next :=
  match o with Some (f, t) => NxYield (RqStoreGet f) (PP1 t) | None => otherwise end.
(* a scan from the top of the list / a scan over the rest l of the list *)
Definition rr_top (tot : Z) (qc : Z -> Z) (flows : list Z) : rr_run_next :=
  rr_get (rr_find qc flows) (if Z.eqb tot 0 then NxYield RqTokGet PP3 else NxSpin).
Definition rr_from (tot : Z) (qc : Z -> Z) (flows l : list Z) : rr_run_next :=
  rr_get (rr_find qc l) (if Z.eqb tot 0 then NxYield RqTokGet PP3 else rr_top tot qc flows).

(* the next request, given its meaning *)
Definition rr_scan_state (s : mq) (g : rr_run_st * list rr_run_fx * rr_run_next) : option mq :=
  match g with
  | (_, [], NxYield (RqStoreGet k) (PP1 t)) => commit s k (rr_rem k t)
  | (_, [], NxYield RqTokGet PP3) =>
      match sq_get fifo_pop (mtok s) with Some q => Some (with_pc (with_tok s q) PTok) | None => None end
  | (_, [], NxSpin) => Some (with_pc s PSpin)
  | _ => None
  end.

Definition rr_child_state (s : mq) (p : pkt) (f : Z) (g : rr_run_st * list rr_run_fx * rr_run_next) : option (mq * list sout) :=
  match g with
  | (_, [], NxYield RqChild (PP2 t)) => Some (with_child s (CInit p) (PChild (rr_rem f t)), [])
  | _ => None
  end.

(* the generated functions on the abstract state: the flow list, total_packets, queue_count; every listed flow has a Store *)
Definition rr_gen0 (s : mq) (fl : list Z) := gen_RR_run_from_0 (rr_fields s) (mtotal s) fl (fun _ => true).
Definition rr_gen1 (s : mq) (fl rest : list Z) := gen_RR_run_from_1 (rr_fields s) rest (mtotal s) fl (fun _ => true).
Definition rr_gen2 (s : mq) (fl rest : list Z) := gen_RR_run_from_2 (rr_fields s) rest (mtotal s) fl (fun _ => true).
Definition rr_gen3 (s : mq) (fl : list Z) := gen_RR_run_from_3 (rr_fields s) (mtotal s) fl (fun _ => true).

Lemma negb_leb0 (x : Z) : negb (Z.leb x 0) = Z.ltb 0 x.
Proof. destruct (Z.leb_spec x 0), (Z.ltb_spec 0 x); try reflexivity; lia. Qed.

(* ---- the generated fixes, by induction over the list -------------------------------------------------------------- *)
Lemma gen_rr_top_spec : forall (st : rr_run_st) (tot : Z) (l : list Z),
  gen_RR_run_from_0 st tot l (fun _ => true) =
    ({| rr_queue_count := rr_queue_count st |}, [], rr_top tot (rr_queue_count st) l).
Proof.
  intros st tot l. unfold gen_RR_run_from_0, rr_top.
  induction l as [|f t IH]; cbn [rr_find rr_get].
  - destruct (Z.eqb tot 0); reflexivity.
  - rewrite ?(negb_leb0 (rr_queue_count st f)).
    destruct (Z.ltb 0 (rr_queue_count st f)); [reflexivity|exact IH].
Qed.

Lemma gen_rr_from3_spec : forall (st : rr_run_st) (tot : Z) (l : list Z),
  gen_RR_run_from_3 st tot l (fun _ => true) =
    ({| rr_queue_count := rr_queue_count st |}, [], rr_top tot (rr_queue_count st) l).
Proof.
  intros st tot l. unfold gen_RR_run_from_3, rr_top.
  induction l as [|f t IH]; cbn [rr_find rr_get].
  - destruct (Z.eqb tot 0); reflexivity.
  - rewrite ?(negb_leb0 (rr_queue_count st f)).
    destruct (Z.ltb 0 (rr_queue_count st f)); [reflexivity|exact IH].
Qed.

Lemma gen_rr_from2_spec : forall (st : rr_run_st) (tot : Z) (flows l : list Z),
  gen_RR_run_from_2 st l tot flows (fun _ => true) =
    ({| rr_queue_count := rr_queue_count st |}, [], rr_from tot (rr_queue_count st) flows l).
Proof.
  intros st tot flows l. pose proof (gen_rr_top_spec st tot flows) as T. unfold gen_RR_run_from_0 in T.
  unfold gen_RR_run_from_2, rr_from.
  induction l as [|f t IH]; cbn [rr_find rr_get].
  - destruct (Z.eqb tot 0); [reflexivity|]. rewrite T. reflexivity.
  - rewrite ?(negb_leb0 (rr_queue_count st f)).
    destruct (Z.ltb 0 (rr_queue_count st f)); [reflexivity|exact IH].
Qed.

(* ---- the automaton's scan, by induction over the list ------------------------------------------------------------- *)
Lemma rr_scan_spec (c : mq_cfg) (s : mq) (l : list Z) :
  by_count c = true ->
  snd (scan (nonempty c s) (map (fun g => (g, 1%nat)) l)) =
  match rr_find (mqc s) l with Some (f, t) => Some (f, rr_rem f t) | None => None end.
Proof.
  intros H. induction l as [|f t IH]; [reflexivity|].
  cbn [map scan rr_find]. unfold nonempty at 1. rewrite H.
  destruct (Z.ltb 0 (mqc s f)); [reflexivity|].
  destruct (scan (nonempty c s) (map (fun g => (g, 1%nat)) t)) as [vs r]. exact IH.
Qed.

Lemma rr_end_pass (c : mq_cfg) (s : mq) (fl : list Z) :
  by_count c = true -> brk c = false -> pass c = map (fun g => (g, 1%nat)) fl ->
  option_map fst (end_pass c s) =
  rr_scan_state s (rr_fields s, [], if Z.eqb (mtotal s) 0 then NxYield RqTokGet PP3 else rr_top (mtotal s) (mqc s) fl).
Proof.
  intros Hb Hk Hp. unfold end_pass, rr_top. destruct (Z.eqb (mtotal s) 0) eqn:E0.
  - cbn. destruct (sq_get fifo_pop (mtok s)); reflexivity.
  - rewrite Hp. pose proof (rr_scan_spec c s fl Hb) as E.
    destruct (scan (nonempty c s) (map (fun g => (g, 1%nat)) fl)) as [vs r]. cbn [snd] in E. subst r.
    destruct (rr_find (mqc s) fl) as [[f t]|]; cbn [rr_get rr_scan_state].
    + unfold after; rewrite Hk. destruct (commit s f (rr_rem f t)); reflexivity.
    + reflexivity.
Qed.

Lemma rr_resume (c : mq_cfg) (s : mq) (fl l : list Z) :
  by_count c = true -> brk c = false -> pass c = map (fun g => (g, 1%nat)) fl ->
  option_map fst (resume c s (map (fun g => (g, 1%nat)) l)) =
  rr_scan_state s (rr_fields s, [], rr_from (mtotal s) (mqc s) fl l).
Proof.
  intros Hb Hk Hp. unfold resume, rr_from.
  pose proof (rr_scan_spec c s l Hb) as E.
  destruct (scan (nonempty c s) (map (fun g => (g, 1%nat)) l)) as [vs r]. cbn [snd] in E. subst r.
  destruct (rr_find (mqc s) l) as [[f t]|]; cbn [rr_get].
  - cbn [rr_scan_state]. unfold after; rewrite Hk. destruct (commit s f (rr_rem f t)); reflexivity.
  - rewrite <- (rr_end_pass c s fl Hb Hk Hp). destruct (end_pass c s) as [[s' vs']|]; reflexivity.
Qed.

Lemma rr_from_top tot qc fl : rr_from tot qc fl fl = rr_top tot qc fl.
Proof. unfold rr_from, rr_top. destruct (rr_find qc fl) as [[f t]|]; [reflexivity|]. cbn. destruct (Z.eqb tot 0); reflexivity. Qed.

(* ---- the micro-steps ---------------------------------------------------------------------------------------------- *)
Lemma bridge_rr_run_init : forall (r : Q) (fl : list Z) (s : mq),
  option_map fst (mq_act (rr_cfg r fl) s SInit) =
    match mpc s with PNotStarted => rr_scan_state s (rr_gen0 s fl) | _ => None end.
Proof.
  intros r fl s. cbn [mq_act]. destruct (mpc s); try reflexivity.
  unfold rr_gen0. rewrite gen_rr_top_spec. cbn [rr_fields rr_queue_count]. rewrite <- rr_from_top.
  apply (rr_resume (rr_cfg r fl) s fl fl); reflexivity.
Qed.

Lemma bridge_rr_run_token : forall (r : Q) (fl : list Z) (s : mq),
  option_map fst (mq_act (rr_cfg r fl) s (SGetDone None)) =
    match mpc s with
    | PTok => match sq_take (mtok s) with
              | Some (_, q) => rr_scan_state (with_tok s q) (rr_gen3 (with_tok s q) fl)
              | None => None
              end
    | _ => None
    end.
Proof.
  intros r fl s. cbn [mq_act]. destruct (mpc s); try reflexivity.
  destruct (sq_take (mtok s)) as [[u q]|]; [|reflexivity].
  unfold rr_gen3. rewrite gen_rr_from3_spec. cbn [rr_fields rr_queue_count]. rewrite <- rr_from_top.
  apply (rr_resume (rr_cfg r fl) (with_tok s q) fl fl); reflexivity.
Qed.

(* run() resumes with a packet of flow f while its position is "f being served, rest still to visit" *)
Lemma bridge_rr_run_get : forall (r : Q) (fl : list Z) (s : mq) (f g : Z) (rest : list Z),
  mpc s = PGet g (rr_rem g rest) ->
  mq_act (rr_cfg r fl) s (SGetDone (Some f)) =
    match mchild s with
    | CNone =>
        if Z.eqb f g then
          match sq_take (mstores s f) with
          | Some ((_, p), q) => rr_child_state (with_store s f q) p g (rr_gen1 s fl rest)
          | None => None
          end
        else None
    | _ => None
    end.
Proof.
  intros r fl s f g rest Hpc. cbn [mq_act]. rewrite Hpc.
  destruct (mchild s); try reflexivity; destruct (Z.eqb f g); try reflexivity;
    destruct (sq_take (mstores s f)) as [[[a p] q]|]; reflexivity.
Qed.

(* the child has ended: the scan goes on over the rest of the list *)
Lemma bridge_rr_run_child_end : forall (r : Q) (fl : list Z) (s : mq) (g : Z) (rest : list Z),
  mpc s = PChild (rr_rem g rest) ->
  option_map fst (mq_act (rr_cfg r fl) s SChildEnd) =
    match mchild s with
    | CEnded => let s0 := with_child s CNone (PChild (rr_rem g rest)) in rr_scan_state s0 (rr_gen2 s0 fl rest)
    | _ => None
    end.
Proof.
  intros r fl s g rest Hpc. cbn [mq_act]. rewrite Hpc. destruct (mchild s); try reflexivity.
  cbv zeta. unfold rr_gen2. rewrite gen_rr_from2_spec.
  pose proof (rr_resume (rr_cfg r fl) (with_child s CNone (PChild (rr_rem g rest))) fl rest eq_refl eq_refl eq_refl) as R.
  unfold rr_fields in *. cbn [rr_queue_count] in *. rewrite <- R.
  unfold rr_rem at 2. unfold resume. cbn [scan]. reflexivity.
Qed.

(* explicitly *)
Lemma rr_run_explicit : forall (s : mq) (fl rest : list Z),
  rr_gen0 s fl = (rr_fields s, [], rr_top (mtotal s) (mqc s) fl) /\
  rr_gen1 s fl rest = (rr_fields s, [], NxYield RqChild (PP2 rest)) /\
  rr_gen2 s fl rest = (rr_fields s, [], rr_from (mtotal s) (mqc s) fl rest) /\
  rr_gen3 s fl = (rr_fields s, [], rr_top (mtotal s) (mqc s) fl).
Proof.
  intros s fl rest. unfold rr_gen0, rr_gen1, rr_gen2, rr_gen3.
  rewrite gen_rr_top_spec, gen_rr_from2_spec, gen_rr_from3_spec. repeat split; reflexivity.
Qed.
