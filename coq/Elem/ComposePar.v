(* FAN-IN.  `par sel A B` puts two interface elements side by side: a packet p put into it goes to A when sel p, to B
   otherwise (two upstream branches, each fed by its own sources: sel says which branch a packet was injected into); both
   forward to the same place.  The two automata are coupled only by the clock (Advance must be admissible for both), exactly
   like the two directions of a Cable.  Fan-in into a downstream element C is then `par sel A B >> C`.  Executable; the
   projection and the compositional C08 laws are proved here. *)
From Coq Require Import ZArith QArith Qminmax List Bool Permutation Lia Arith.
From ONL Require Import Elem.Packet Elem.Iface Elem.Compose.
Import ListNotations.

(* c is an interleaving of a and b (both keep their order) *)
Inductive interleave {X : Type} : list X -> list X -> list X -> Prop :=
| il_nil : interleave [] [] []
| il_l x a b c : interleave a b c -> interleave (x :: a) b (x :: c)
| il_r x a b c : interleave a b c -> interleave a (x :: b) (x :: c).

Lemma interleave_left {X} (a : list X) : interleave a [] a.
Proof. induction a; constructor; auto. Qed.
Lemma interleave_right {X} (b : list X) : interleave [] b b.
Proof. induction b; constructor; auto. Qed.
Lemma interleave_app {X} (a b c a' b' c' : list X) :
  interleave a b c -> interleave a' b' c' -> interleave (a ++ a') (b ++ b') (c ++ c').
Proof. induction 1; cbn; intros H'; [exact H'|constructor; auto|constructor; auto]. Qed.
Lemma interleave_perm {X} (a b c : list X) : interleave a b c -> Permutation c (a ++ b).
Proof.
  induction 1 as [|x a b c H IH|x a b c H IH]; cbn; [constructor|constructor; exact IH|].
  apply Permutation_trans with (x :: a ++ b); [constructor; exact IH|]. apply Permutation_middle.
Qed.
Lemma interleave_filter {X} (f : X -> bool) (a b c : list X) :
  interleave a b c -> interleave (filter f a) (filter f b) (filter f c).
Proof. induction 1 as [|x a b c H IH|x a b c H IH]; cbn; [constructor| |]; destruct (f x); try constructor; exact IH. Qed.
Lemma interleave_nil_r {X} (a c : list X) : interleave a [] c -> c = a.
Proof. intros H. remember [] as b eqn:E. induction H; [reflexivity|f_equal; auto|discriminate]. Qed.
Lemma interleave_nil_l {X} (b c : list X) : interleave [] b c -> c = b.
Proof. intros H. remember [] as a eqn:E. induction H; [reflexivity|discriminate|f_equal; auto]. Qed.

Section Par.
  Variable sel : pkt -> bool.
  Variables A B : elem.

  Definition onA (s : st A * st B) (r : option (st A * list eout)) : option ((st A * st B) * list eout) :=
    match r with Some (a', o) => Some ((a', snd s), o) | None => None end.
  Definition onB (s : st A * st B) (r : option (st B * list eout)) : option ((st A * st B) * list eout) :=
    match r with Some (b', o) => Some ((fst s, b'), map (shift A) o) | None => None end.

  Definition par : elem := {|
    st := (st A * st B)%type;
    lab := (lab A + lab B)%type;
    init := (init A, init B);
    now := fun s => now A (fst s);
    put := fun p s => if sel p then onA s (put A p (fst s)) else onB s (put B p (snd s));
    step := fun l s => match l with inl x => onA s (step A x (fst s)) | inr y => onB s (step B y (snd s)) end;
    advance := fun t s =>
      match advance A t (fst s), advance B t (snd s) with
      | Some a', Some b' => Some (a', b')
      | _, _ => None
      end;
    urgent := fun s => urgent A (fst s) || urgent B (snd s);
    deadline := fun s => omin (deadline A (fst s)) (deadline B (snd s));
    held := fun s => held A (fst s) ++ held B (snd s);
    accepts := fun p => if sel p then accepts A p else accepts B p;
    width := width A + width B
  |}.

  (* what each branch sees: purely syntactic, the branches do not feed each other *)
  Definition pactA (a : iact (lab par)) : list (iact (lab A)) :=
    match a with
    | IPut p => if sel p then [IPut p] else []
    | IStep (inl x) => [IStep x]
    | IStep (inr _) => []
    | IAdv t => [IAdv t]
    end.
  Definition pactB (a : iact (lab par)) : list (iact (lab B)) :=
    match a with
    | IPut p => if sel p then [] else [IPut p]
    | IStep (inl _) => []
    | IStep (inr y) => [IStep y]
    | IAdv t => [IAdv t]
    end.
  Definition pactsA (acts : list (iact (lab par))) := flat_map pactA acts.
  Definition pactsB (acts : list (iact (lab par))) := flat_map pactB acts.

  (* PROJECTION: each branch of any execution of par is an admissible execution of that element alone; the packets put in,
     forwarded and dropped by par are interleavings of the branches' *)
  Theorem par_projection : forall acts sA sB sA' sB' tr,
    run par (sA, sB) acts = Some ((sA', sB'), tr) ->
    exists trA trB,
      run A sA (pactsA acts) = Some (sA', trA) /\ run B sB (pactsB acts) = Some (sB', trB) /\
      interleave (puts trA) (puts trB) (puts tr) /\ interleave (fwds trA) (fwds trB) (fwds tr) /\
      interleave (drops trA) (drops trB) (drops tr) /\
      Forall (fun p => sel p = true) (puts trA) /\ Forall (fun p => sel p = false) (puts trB).
  Proof.
    induction acts as [|a acts IH]; intros sA sB sA' sB' tr H.
    - cbn in H. injection H as <- <- <-. exists [], []. cbn. repeat split; constructor.
    - cbn [run] in H.
      destruct (act par (sA, sB) a) as [[[sA1 sB1] o]|] eqn:Ea; [|discriminate].
      destruct (run par (sA1, sB1) acts) as [[[sA2 sB2] tr1]|] eqn:Er; [|discriminate].
      injection H as <- <- <-.
      destruct (IH _ _ _ _ _ Er) as (trA1 & trB1 & RA & RB & I1 & I2 & I3 & F1 & F2).
      (* an action of branch A *)
      assert (HA : forall a', onA (sA, sB) (act A sA a') = Some ((sA1, sB1), o) ->
                 pactA a = [a'] -> pactB a = [] -> a_puts a' = a_puts a -> Forall (fun p => sel p = true) (a_puts a') ->
                 exists trA trB,
                   run A sA (pactsA (a :: acts)) = Some (sA2, trA) /\ run B sB (pactsB (a :: acts)) = Some (sB2, trB) /\
                   interleave (puts trA) (puts trB) (puts ((now par (sA1, sB1), a, o) :: tr1)) /\
                   interleave (fwds trA) (fwds trB) (fwds ((now par (sA1, sB1), a, o) :: tr1)) /\
                   interleave (drops trA) (drops trB) (drops ((now par (sA1, sB1), a, o) :: tr1)) /\
                   Forall (fun p => sel p = true) (puts trA) /\ Forall (fun p => sel p = false) (puts trB)).
      { intros a' Hon Ea' Eb' Hp Hs. unfold onA in Hon. destruct (act A sA a') as [[a1 oA]|] eqn:E1; [|discriminate].
        cbn [snd] in Hon. injection Hon as E2 E3 E4. subst a1 sB1 o.
        exists ((now A sA1, a', oA) :: trA1), trB1.
        unfold pactsA, pactsB. cbn [flat_map]. fold (pactsA acts) (pactsB acts). rewrite Ea', Eb'. cbn [app run]. rewrite E1, RA, RB.
        rewrite !puts_cons, !fwds_cons, !drops_cons, <- Hp. repeat split; auto.
        - change (puts trB1) with ([] ++ puts trB1). apply interleave_app; [apply interleave_left|exact I1].
        - change (fwds trB1) with ([] ++ fwds trB1). apply interleave_app; [apply interleave_left|exact I2].
        - change (drops trB1) with ([] ++ drops trB1). apply interleave_app; [apply interleave_left|exact I3].
        - apply Forall_app. split; assumption. }
      assert (HB : forall b', onB (sA, sB) (act B sB b') = Some ((sA1, sB1), o) ->
                 pactA a = [] -> pactB a = [b'] -> a_puts b' = a_puts a -> Forall (fun p => sel p = false) (a_puts b') ->
                 exists trA trB,
                   run A sA (pactsA (a :: acts)) = Some (sA2, trA) /\ run B sB (pactsB (a :: acts)) = Some (sB2, trB) /\
                   interleave (puts trA) (puts trB) (puts ((now par (sA1, sB1), a, o) :: tr1)) /\
                   interleave (fwds trA) (fwds trB) (fwds ((now par (sA1, sB1), a, o) :: tr1)) /\
                   interleave (drops trA) (drops trB) (drops ((now par (sA1, sB1), a, o) :: tr1)) /\
                   Forall (fun p => sel p = true) (puts trA) /\ Forall (fun p => sel p = false) (puts trB)).
      { intros b' Hon Ea' Eb' Hp Hs. unfold onB in Hon. destruct (act B sB b') as [[b1 oB]|] eqn:E1; [|discriminate].
        cbn [fst] in Hon. injection Hon as E2 E3 E4. subst sA1 b1 o.
        exists trA1, ((now B sB1, b', oB) :: trB1).
        unfold pactsA, pactsB. cbn [flat_map]. fold (pactsA acts) (pactsB acts). rewrite Ea', Eb'. cbn [app run]. rewrite E1, RA, RB.
        rewrite !puts_cons, !fwds_cons, !drops_cons, <- Hp, (o_fwds_shift A), (o_drops_shift A). repeat split; auto.
        - change (puts trA1) with ([] ++ puts trA1). apply interleave_app; [apply interleave_right|exact I1].
        - change (fwds trA1) with ([] ++ fwds trA1). apply interleave_app; [apply interleave_right|exact I2].
        - change (drops trA1) with ([] ++ drops trA1). apply interleave_app; [apply interleave_right|exact I3].
        - apply Forall_app. split; assumption. }
      destruct a as [p|[x|y]|t].
      + cbn [act par put] in Ea. destruct (sel p) eqn:Es.
        * apply (HA (IPut p)); cbn [pactA pactB a_puts act]; rewrite ?Es; auto.
        * apply (HB (IPut p)); cbn [pactA pactB a_puts act]; rewrite ?Es; auto.
      + cbn [act par step] in Ea. apply (HA (IStep x)); cbn [pactA pactB a_puts act]; auto.
      + cbn [act par step] in Ea. apply (HB (IStep y)); cbn [pactA pactB a_puts act]; auto.
      + cbn [act par advance fst snd] in Ea.
        destruct (advance A t sA) as [a1|] eqn:EA; [|discriminate].
        destruct (advance B t sB) as [b1|] eqn:EB; [|discriminate].
        injection Ea as E1 E2 E3. subst a1 b1 o.
        exists ((now A sA1, IAdv t, []) :: trA1), ((now B sB1, IAdv t, []) :: trB1).
        unfold pactsA, pactsB. cbn [flat_map pactA pactB app run act]. fold (pactsA acts) (pactsB acts). rewrite EA, EB, RA, RB.
        rewrite !puts_cons, !fwds_cons, !drops_cons. cbn [a_puts o_fwds o_drops flat_map app]. repeat split; auto.
  Qed.

  Corollary par_projection_init : forall acts s tr,
    run par (init par) acts = Some (s, tr) ->
    exists trA trB,
      run A (init A) (pactsA acts) = Some (fst s, trA) /\ run B (init B) (pactsB acts) = Some (snd s, trB) /\
      interleave (puts trA) (puts trB) (puts tr) /\ interleave (fwds trA) (fwds trB) (fwds tr) /\
      interleave (drops trA) (drops trB) (drops tr) /\
      Forall (fun p => sel p = true) (puts trA) /\ Forall (fun p => sel p = false) (puts trB).
  Proof. intros acts [sA sB] tr H. exact (par_projection _ _ _ _ _ _ H). Qed.

  (* ---- the C08 laws ---------------------------------------------------------------------------------------- *)
  Theorem par_conserves : conserves A -> conserves B -> conserves par.
  Proof.
    intros CA CB acts s tr H.
    destruct (par_projection_init _ _ _ H) as (trA & trB & RA & RB & I1 & I2 & I3 & _).
    pose proof (CA _ _ _ RA) as HA. pose proof (CB _ _ _ RB) as HB.
    apply Permutation_trans with (1 := interleave_perm _ _ _ I1).
    apply Permutation_trans with ((fwds trA ++ drops trA ++ held A (fst s)) ++ (fwds trB ++ drops trB ++ held B (snd s))).
    { apply Permutation_app; assumption. }
    apply Permutation_sym.
    apply Permutation_trans with ((fwds trA ++ fwds trB) ++ (drops trA ++ drops trB) ++ held A (fst s) ++ held B (snd s)).
    { cbn [held par]. apply Permutation_app; [apply interleave_perm; exact I2|].
      apply Permutation_app_tail. apply interleave_perm. exact I3. }
    (* (fA++fB) ++ (dA++dB) ++ hA ++ hB  ~  (fA++dA++hA) ++ (fB++dB++hB) *)
    rewrite <- !app_assoc. apply Permutation_app_head.
    apply Permutation_trans with (drops trA ++ fwds trB ++ drops trB ++ held A (fst s) ++ held B (snd s)).
    { apply Permutation_app_swap_app. }
    apply Permutation_app_head.
    apply Permutation_trans with (held A (fst s) ++ fwds trB ++ drops trB ++ held B (snd s)).
    { rewrite !app_assoc. apply Permutation_app_tail. rewrite <- !app_assoc.
      apply Permutation_trans with ((fwds trB ++ drops trB) ++ held A (fst s)); [rewrite <- app_assoc; apply Permutation_refl|].
      apply Permutation_app_comm. }
    apply Permutation_refl.
  Qed.

  Lemma filter_none {X} (f : X -> bool) l : (forall x, In x l -> f x = false) -> filter f l = [].
  Proof. induction l as [|x l IH]; intros H; cbn; [reflexivity|]. rewrite (H x (or_introl eq_refl)). apply IH. intros; apply H; right; auto. Qed.

  (* a flow that is injected into branch A only keeps its order (the other branch never carries it) *)
  Theorem par_flow_fifo_A f : (forall p, on_flow f p = true -> sel p = true) -> conserves B -> flow_fifo A f -> flow_fifo par f.
  Proof.
    intros Hsel CB FA acts s tr H.
    destruct (par_projection_init _ _ _ H) as (trA & trB & RA & RB & I1 & I2 & _ & _ & SB).
    assert (NB : forall p, In p (puts trB) -> on_flow f p = false).
    { intros p Hp. rewrite Forall_forall in SB. specialize (SB p Hp). destruct (on_flow f p) eqn:E; [|reflexivity].
      rewrite (Hsel p E) in SB. discriminate. }
    pose proof (interleave_filter (on_flow f) _ _ _ I1) as J1. pose proof (interleave_filter (on_flow f) _ _ _ I2) as J2.
    rewrite (filter_none _ _ NB) in J1.
    rewrite (filter_none (on_flow f) (fwds trB)) in J2 by (intros p Hp; apply NB; eapply conserves_fwd_in; eauto).
    rewrite (interleave_nil_r _ _ J1), (interleave_nil_r _ _ J2). exact (FA _ _ _ RA).
  Qed.
  Theorem par_flow_fifo_B f : (forall p, on_flow f p = true -> sel p = false) -> conserves A -> flow_fifo B f -> flow_fifo par f.
  Proof.
    intros Hsel CA FB acts s tr H.
    destruct (par_projection_init _ _ _ H) as (trA & trB & RA & RB & I1 & I2 & _ & SA & _).
    assert (NA : forall p, In p (puts trA) -> on_flow f p = false).
    { intros p Hp. rewrite Forall_forall in SA. specialize (SA p Hp). destruct (on_flow f p) eqn:E; [|reflexivity].
      rewrite (Hsel p E) in SA. discriminate. }
    pose proof (interleave_filter (on_flow f) _ _ _ I1) as J1. pose proof (interleave_filter (on_flow f) _ _ _ I2) as J2.
    rewrite (filter_none _ _ NA) in J1.
    rewrite (filter_none (on_flow f) (fwds trA)) in J2 by (intros p Hp; apply NA; eapply conserves_fwd_in; eauto).
    rewrite (interleave_nil_l _ _ J1), (interleave_nil_l _ _ J2). exact (FB _ _ _ RB).
  Qed.

  Lemma interleave_in_l {X} (a b c : list X) x : interleave a b c -> In x a -> In x c.
  Proof. induction 1; cbn; intuition. Qed.
  Lemma interleave_in_r {X} (a b c : list X) x : interleave a b c -> In x b -> In x c.
  Proof. induction 1; cbn; intuition. Qed.

  Theorem par_drained : drained A -> drained B -> drained par.
  Proof.
    intros DA DB acts s tr H Acc U Dl.
    destruct (par_projection_init _ _ _ H) as (trA & trB & RA & RB & I1 & _ & _ & SA & SB).
    cbn [urgent par] in U. apply orb_false_elim in U as [UA UB].
    cbn [deadline par] in Dl. apply omin_none in Dl as [DlA DlB].
    rewrite Forall_forall in Acc, SA, SB. cbn [held par].
    rewrite (DA _ _ _ RA), (DB _ _ _ RB); auto; apply Forall_forall; intros p Hp.
    - specialize (Acc p (interleave_in_r _ _ _ _ I1 Hp)). cbn [accepts par] in Acc. rewrite (SB p Hp) in Acc. exact Acc.
    - specialize (Acc p (interleave_in_l _ _ _ _ I1 Hp)). cbn [accepts par] in Acc. rewrite (SA p Hp) in Acc. exact Acc.
  Qed.
End Par.

(* ---- fan-in: two upstream elements into one downstream element ---------------------------------------------- *)
Definition fanin (sel : pkt -> bool) (A B C : elem) : elem := par sel A B >> C.

(* injected into A and into B = forwarded by C ++ dropped by A, B, C ++ held by A, B, C *)
Theorem fanin_conserves sel A B C : conserves A -> conserves B -> conserves C -> forall acts s tr,
  run (fanin sel A B C) (init (fanin sel A B C)) acts = Some (s, tr) ->
  Permutation (puts tr) (fwds tr ++ drops tr ++ (held A (fst (fst s)) ++ held B (snd (fst s))) ++ held C (snd s)).
Proof. intros CA CB CC. exact (series_conserves _ _ (par_conserves sel A B CA CB) CC). Qed.

Theorem fanin_flow_fifo sel A B C f :
  conserves A -> conserves B ->
  ((forall p, on_flow f p = true -> sel p = true) /\ flow_fifo A f \/ (forall p, on_flow f p = true -> sel p = false) /\ flow_fifo B f) ->
  flow_fifo C f -> flow_fifo (fanin sel A B C) f.
Proof.
  intros CA CB Hside FC. apply compose_flow_fifo; [|exact FC].
  destruct Hside as [[Hs FA]|[Hs FB]]; [apply par_flow_fifo_A|apply par_flow_fifo_B]; assumption.
Qed.

Theorem fanin_drained sel A B C : conserves A -> conserves B -> drained A -> drained B -> drained C -> drained (fanin sel A B C).
Proof.
  intros CA CB DA DB DC. apply compose_drained; [apply par_conserves; assumption|apply par_drained; assumption|exact DC].
Qed.
