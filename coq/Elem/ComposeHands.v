(* The hand-overs a composite shows are the hand-overs that happened: in `A >> B` the outputs `EHand (width A - 1) p` of
   any execution are, in order, exactly the packets A forwarded (= the packets put into B).  This is what the correspondence
   compares at every stage boundary of a real pipeline.  It needs the stage numbering to be consistent ([tagged]): an element
   of width w only emits hand-overs numbered below w - 1; atomic elements (the adapters) emit none. *)
From Coq Require Import ZArith QArith List Bool Lia Arith.
From ONL Require Import Elem.Packet Elem.Iface Elem.Compose.
Import ListNotations.
Local Close Scope Q_scope.

Definition tag_ok (w : nat) (x : eout) : Prop := match x with EHand k _ => S k < w | _ => True end.
Definition tagged (E : elem) : Prop :=
  0 < width E /\
  (forall p s s' o, put E p s = Some (s', o) -> Forall (tag_ok (width E)) o) /\
  (forall l s s' o, step E l s = Some (s', o) -> Forall (tag_ok (width E)) o).

(* an element that never emits a hand-over (every adapter) *)
Definition no_hand (x : eout) : Prop := match x with EHand _ _ => False | _ => True end.
Lemma atomic_tagged E :
  0 < width E ->
  (forall p s s' o, put E p s = Some (s', o) -> Forall no_hand o) ->
  (forall l s s' o, step E l s = Some (s', o) -> Forall no_hand o) -> tagged E.
Proof.
  intros W P S. split; [exact W|]. split; intros ? s s' o H; [apply P in H|apply S in H];
    (eapply Forall_impl; [|exact H]); intros []; cbn; tauto.
Qed.

Section Hands.
  Variables A B : elem.
  Let b := pred (width A).

  Lemma hands_shift o : 0 < width A -> o_hands b (map (shift A) o) = [].
  Proof.
    intros W. induction o as [|x o IH]; [reflexivity|]. cbn [map]. rewrite o_hands_cons, IH.
    destruct x as [p|p|k p]; cbn [shift]; try reflexivity.
    destruct (Nat.eqb (width A + k) b) eqn:E; [|reflexivity]. apply Nat.eqb_eq in E. unfold b in E. lia.
  Qed.

  Lemma feed_hands : 0 < width A -> forall oA sB sB1 o,
    Forall (tag_ok (width A)) oA -> feed A B oA sB = Some (sB1, o) -> o_hands b o = o_fwds oA.
  Proof.
    intros W. induction oA as [|x oA IH]; intros sB sB1 o T H; cbn [feed] in H.
    - injection H as _ <-. reflexivity.
    - inversion T as [|? ? Tx Tr]; subst. destruct x as [p|p|k p].
      + destruct (put B p sB) as [[s1 o1]|] eqn:Ep; [|discriminate].
        destruct (feed A B oA s1) as [[s2 o2]|] eqn:Ef; [|discriminate]. injection H as _ <-.
        rewrite o_hands_cons, o_hands_app, (hands_shift _ W), (IH _ _ _ Tr Ef), o_fwds_cons. fold b. rewrite Nat.eqb_refl. reflexivity.
      + destruct (feed A B oA sB) as [[s2 o2]|] eqn:Ef; [|discriminate]. injection H as _ <-.
        rewrite o_hands_cons, (IH _ _ _ Tr Ef), o_fwds_cons. reflexivity.
      + destruct (feed A B oA sB) as [[s2 o2]|] eqn:Ef; [|discriminate]. injection H as _ <-.
        rewrite o_hands_cons, (IH _ _ _ Tr Ef), o_fwds_cons. cbn [tag_ok] in Tx.
        destruct (Nat.eqb k b) eqn:E; [|reflexivity]. apply Nat.eqb_eq in E. unfold b in E. lia.
  Qed.

  (* what the composite shows at the boundary between A and B is what A forwarded *)
  Theorem series_hands : tagged A -> forall acts sA sB s' tr sA' trA,
    run (A >> B) (sA, sB) acts = Some (s', tr) -> run A sA (actsA A B acts) = Some (sA', trA) ->
    hands b tr = fwds trA.
  Proof.
    intros (W & TP & TS). induction acts as [|a acts IH]; intros sA sB s' tr sA' trA H HA.
    - cbn in H, HA. injection H as _ <-. injection HA as _ <-. reflexivity.
    - cbn [run] in H. destruct (act (A >> B) (sA, sB) a) as [[[sA1 sB1] o]|] eqn:Ea; [|discriminate].
      destruct (run (A >> B) (sA1, sB1) acts) as [[s2 tr1]|] eqn:Er; [|discriminate]. injection H as _ <-.
      rewrite hands_cons.
      destruct a as [p|[x|y]|t]; cbn [act series put step advance fst snd] in Ea.
      + apply via_spec in Ea as (oA & E1 & E2). cbn [snd] in E2.
        unfold actsA in HA. cbn [flat_map actA app run act] in HA. fold (actsA A B acts) in HA. rewrite E1 in HA.
        destruct (run A sA1 (actsA A B acts)) as [[sA2 trA1]|] eqn:RA; [|discriminate]. injection HA as _ <-.
        rewrite fwds_cons, (IH _ _ _ _ _ _ Er RA), (feed_hands W _ _ _ _ (TP _ _ _ _ E1) E2). reflexivity.
      + apply via_spec in Ea as (oA & E1 & E2). cbn [snd] in E2.
        unfold actsA in HA. cbn [flat_map actA app run act] in HA. fold (actsA A B acts) in HA. rewrite E1 in HA.
        destruct (run A sA1 (actsA A B acts)) as [[sA2 trA1]|] eqn:RA; [|discriminate]. injection HA as _ <-.
        rewrite fwds_cons, (IH _ _ _ _ _ _ Er RA), (feed_hands W _ _ _ _ (TS _ _ _ _ E1) E2). reflexivity.
      + destruct (step B y sB) as [[b' oB]|] eqn:Es; [|discriminate]. injection Ea as <- _ <-.
        unfold actsA in HA. cbn [flat_map actA app] in HA. fold (actsA A B acts) in HA.
        rewrite (hands_shift _ W). cbn [app]. exact (IH _ _ _ _ _ _ Er HA).
      + destruct (advance A t sA) as [a1|] eqn:EA; [|discriminate].
        destruct (advance B t sB) as [b1|] eqn:EB; [|discriminate]. injection Ea as <- _ <-.
        unfold actsA in HA. cbn [flat_map actA app run act] in HA. fold (actsA A B acts) in HA. rewrite EA in HA.
        destruct (run A a1 (actsA A B acts)) as [[sA2 trA1]|] eqn:RA; [|discriminate]. injection HA as _ <-.
        rewrite fwds_cons. cbn [o_hands o_fwds flat_map app]. exact (IH _ _ _ _ _ _ Er RA).
  Qed.

  Lemma tag_ok_mono w w' x : w <= w' -> tag_ok w x -> tag_ok w' x.
  Proof. destruct x; cbn; intros; auto; lia. Qed.

  Lemma feed_tagged : 0 < width A -> tagged B -> forall oA sB sB1 o,
    Forall (tag_ok (width A)) oA -> feed A B oA sB = Some (sB1, o) -> Forall (tag_ok (width A + width B)) o.
  Proof.
    intros WA (WB & TPB & _). induction oA as [|x oA IH]; intros sB sB1 o T H; cbn [feed] in H.
    - injection H as _ <-. constructor.
    - inversion T as [|? ? Tx Tr]; subst. destruct x as [p|p|k p].
      + destruct (put B p sB) as [[s1 o1]|] eqn:Ep; [|discriminate].
        destruct (feed A B oA s1) as [[s2 o2]|] eqn:Ef; [|discriminate]. injection H as _ <-.
        constructor; [cbn; lia|]. apply Forall_app. split; [|eapply IH; eauto].
        apply Forall_forall. intros z Hz. apply in_map_iff in Hz as (z0 & <- & Hz0).
        pose proof (proj1 (Forall_forall _ _) (TPB _ _ _ _ Ep) z0 Hz0) as Tz. destruct z0; cbn in *; auto; lia.
      + destruct (feed A B oA sB) as [[s2 o2]|] eqn:Ef; [|discriminate]. injection H as _ <-.
        constructor; [exact I|eapply IH; eauto].
      + destruct (feed A B oA sB) as [[s2 o2]|] eqn:Ef; [|discriminate]. injection H as _ <-.
        constructor; [cbn in *; lia|eapply IH; eauto].
  Qed.

  Theorem series_tagged : tagged A -> tagged B -> tagged (A >> B).
  Proof.
    intros TA TB. pose proof TA as (WA & TPA & TSA). pose proof TB as (WB & TPB & TSB).
    split; [cbn; lia|]. split.
    - intros p [sA sB] [sA1 sB1] o H. cbn [put series] in H. apply via_spec in H as (oA & E1 & E2). cbn [fst snd] in *.
      exact (feed_tagged WA TB oA sB sB1 o (TPA _ _ _ _ E1) E2).
    - intros [x|y] [sA sB] [sA1 sB1] o H; cbn [step series] in H.
      + apply via_spec in H as (oA & E1 & E2). cbn [fst snd] in *. exact (feed_tagged WA TB oA sB sB1 o (TSA _ _ _ _ E1) E2).
      + cbn [fst snd] in H. destruct (step B y sB) as [[b' oB]|] eqn:Es; [|discriminate]. injection H as _ _ <-.
        apply Forall_forall. intros z Hz. apply in_map_iff in Hz as (z0 & <- & Hz0).
        pose proof (proj1 (Forall_forall _ _) (TSB _ _ _ _ Es) z0 Hz0) as Tz. destruct z0; cbn in *; auto; lia.
  Qed.
End Hands.

Theorem pipeline_tagged : forall es E, tagged E -> Forall tagged es -> tagged (pipeline E es).
Proof.
  induction es as [|F r IH]; intros E LE Les; cbn [pipeline]; [exact LE|].
  inversion Les; subst. apply series_tagged; [exact LE|]. apply IH; assumption.
Qed.
