(* NSplitter / Splitter (onl/netdev/splitter.py) and Hub (onl/netdev/hub.py) as composed elements over Elem/ComposeCast.v.
   nsplitter_elem t0 Es : every output gets every packet.  hub_elem t0 s src Es : the outputs a packet reaches are read off
   Route/Hub.v's hub_put (the model C18 proves about): endpoint i gets the packet iff its element id is not the packet's source. *)
From Coq Require Import ZArith QArith List Bool Permutation Lia Arith.
From ONL Require Import Elem.Packet Elem.Iface Elem.Compose Elem.ComposePar Elem.ComposeSwitch Elem.ComposeCast Route.Hub Route.HubProofs.
Import ListNotations.
Local Open Scope Q_scope.

Definition nsplitter_elem (t0 : Q) (Es : list elem) : elem := mcast t0 (fun _ _ => true) Es.

Definition hub_want (s : hub_state) (src : pkt -> Z) (i : nat) (p : pkt) : bool :=
  existsb (fun e => Nat.eqb (fst e) i) (hub_put s (src p)).
Definition hub_elem (t0 : Q) (s : hub_state) (src : pkt -> Z) (Es : list elem) : elem := mcast t0 (hub_want s src) Es.

(* EVERY output of a splitter receives EVERY packet exactly once, in the order in which they were put in; and, when the device
   behind it conserves packets, each of them is forwarded by that device, discarded by its own rule or held there *)
Theorem nsplitter_each_output t0 Es : forall acts s tr,
  run (nsplitter_elem t0 Es) (init (nsplitter_elem t0 Es)) acts = Some (s, tr) ->
  forall i E, nth_error Es i = Some E -> conserves E ->
  exists sE acts_i tr_i, mcast_has t0 Es (fun _ _ => true) s i E sE /\ run E (init E) acts_i = Some (sE, tr_i) /\
    puts tr_i = puts tr /\ Permutation (puts tr) (fwds tr_i ++ drops tr_i ++ held E sE) /\ sublist (fwds tr_i) (fwds tr).
Proof.
  intros acts s tr H i E Hn CE.
  destruct (mcast_exists_branch t0 Es _ _ _ _ H i E Hn CE) as (sE & acts_i & tr_i & Hh & R & P & C & Fw).
  rewrite filter_true in P, C. exists sE, acts_i, tr_i. auto.
Qed.

Lemma hub_want_spec s src i p : hub_want s src i p = true <-> exists e, nth_error s i = Some e /\ ep_id e <> src p.
Proof.
  unfold hub_want. rewrite existsb_exists. destruct (hub_repeats s (src p)) as (_ & Hin & _). split.
  - intros ([j v] & Hj & E). cbn [fst] in E. apply Nat.eqb_eq in E. subst j. apply Hin in Hj as (e & He & Hne & _). eauto.
  - intros (e & He & Hne). exists (i, ep_port e). split; [apply Hin; eauto|]. cbn [fst]. apply Nat.eqb_refl.
Qed.

(* every endpoint of a hub receives exactly the packets that did not come from it, each once, in order *)
Theorem hub_each_output t0 hs src Es : forall acts s tr,
  run (hub_elem t0 hs src Es) (init (hub_elem t0 hs src Es)) acts = Some (s, tr) ->
  forall i E, nth_error Es i = Some E -> conserves E ->
  exists sE acts_i tr_i, mcast_has t0 Es (hub_want hs src) s i E sE /\ run E (init E) acts_i = Some (sE, tr_i) /\
    puts tr_i = filter (hub_want hs src i) (puts tr) /\
    (forall p, hub_want hs src i p = true <-> exists e, nth_error hs i = Some e /\ ep_id e <> src p) /\
    Permutation (filter (hub_want hs src i) (puts tr)) (fwds tr_i ++ drops tr_i ++ held E sE) /\ sublist (fwds tr_i) (fwds tr).
Proof.
  intros acts s tr H i E Hn CE.
  destruct (mcast_exists_branch t0 Es _ _ _ _ H i E Hn CE) as (sE & acts_i & tr_i & Hh & R & P & C & Fw).
  exists sE, acts_i, tr_i. repeat split; auto; apply hub_want_spec.
Qed.
