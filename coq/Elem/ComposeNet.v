(* The abstract composition theorem (Elem/Network.v, `network_conserves`) instantiated for linear pipelines of ANY length.

   An execution of `pipeline E [E1; ..; En]` is viewed stage by stage ([pviews]: what each stage was given, forwarded,
   dropped, holds -- read off the stage's own projected execution).  The views form a chain (stage i+1 was given exactly what
   stage i forwarded), each satisfies its element's conservation law, and the wiring "node i sends everything it forwards
   to node i+1, node 0 is injected into, node n delivers to the sink" satisfies the three hypotheses of network_conserves;
   its conclusion is the end-to-end conservation equation with the drops and the held packets of every stage summed. *)
From Coq Require Import ZArith QArith List Bool Permutation Lia Arith.
From ONL Require Import Elem.Packet Elem.Iface Elem.Network Elem.Compose.
Import ListNotations.
Local Close Scope Q_scope.

Record view := { v_puts : list pkt; v_fwds : list pkt; v_drops : list pkt; v_held : list pkt }.
Definition view_of (E : elem) (s : st E) (tr : list (tev (lab E))) : view :=
  {| v_puts := puts tr; v_fwds := fwds tr; v_drops := drops tr; v_held := held E s |}.
Definition v_ok (v : view) : Prop := Permutation (v_puts v) (v_fwds v ++ v_drops v ++ v_held v).
Fixpoint chained (vs : list view) : Prop :=
  match vs with
  | v :: ((w :: _) as r) => v_puts w = v_fwds v /\ chained r
  | _ => True
  end.
Definition dview : view := {| v_puts := []; v_fwds := []; v_drops := []; v_held := [] |}.

(* ---- any chain of conserving views is a network that satisfies the hypotheses of network_conserves ---------------- *)
Lemma sum_n_single n k (f : nat -> nat) : sum_n n (fun j => if Nat.eqb j k then f j else 0) = if Nat.ltb k n then f k else 0.
Proof.
  induction n as [|n IH]; cbn [sum_n]; [reflexivity|]. rewrite IH.
  destruct (Nat.ltb_spec k n), (Nat.ltb_spec k (S n)), (Nat.eqb_spec n k); subst; lia.
Qed.

Section ChainNet.
  Variable vs : list view.
  Let n := length vs.
  Definition nthv (i : nat) : view := nth i vs dview.
  Definition c_inp (i : nat) : list nat := uids (v_puts (nthv i)).
  Definition c_fwd (i : nat) : list nat := uids (v_fwds (nthv i)).
  Definition c_drp (i : nat) : list nat := uids (v_drops (nthv i)).
  Definition c_held (i : nat) : list nat := uids (v_held (nthv i)).
  Definition c_inj (i : nat) : list nat := if Nat.eqb i 0 then uids (v_puts (nthv 0)) else [].
  Definition c_tosink (i : nat) : list nat := if Nat.eqb (S i) (length vs) then uids (v_fwds (nthv i)) else [].
  Definition c_sent (i j : nat) : list nat := if Nat.eqb j (S i) && Nat.ltb j (length vs) then uids (v_fwds (nthv i)) else [].

  Hypothesis Hok : Forall v_ok vs.
  Hypothesis Hch : chained vs.

  Lemma chained_nth : forall i, S i < n -> v_puts (nthv (S i)) = v_fwds (nthv i).
  Proof.
    unfold n, nthv. clear Hok. revert Hch. induction vs as [|v r IH]; intros C i Hi; [cbn in Hi; lia|].
    destruct r as [|w r']; [cbn in Hi; lia|]. destruct C as [E C]. destruct i as [|i]; [exact E|].
    cbn [nth]. apply (IH C). cbn [length] in *. lia.
  Qed.

  Lemma cnt_if u (b : bool) l : cnt u (if b then l else []) = if b then cnt u l else 0.
  Proof. destruct b; reflexivity. Qed.

  Lemma c_elem_conserves : forall i u, i < n -> cnt u (c_inp i) = cnt u (c_fwd i) + cnt u (c_drp i) + cnt u (c_held i).
  Proof.
    intros i u Hi. unfold c_inp, c_fwd, c_drp, c_held. apply perm_cnt.
    rewrite Forall_forall in Hok. apply Hok. apply nth_In. exact Hi.
  Qed.
  Lemma c_out_wiring : forall i u, i < n -> cnt u (c_fwd i) = sum_n n (fun j => cnt u (c_sent i j)) + cnt u (c_tosink i).
  Proof.
    intros i u Hi. unfold c_sent, c_tosink.
    rewrite (sum_n_ext n _ (fun j => if Nat.eqb j (S i) then (fun j => if Nat.ltb j (length vs) then cnt u (c_fwd i) else 0) j else 0)).
    - rewrite sum_n_single, cnt_if. fold n. unfold c_fwd.
      destruct (Nat.ltb_spec (S i) n), (Nat.eqb_spec (S i) n); lia.
    - intros j Hj. rewrite cnt_if. destruct (Nat.eqb j (S i)); [|reflexivity]. cbn [andb]. reflexivity.
  Qed.
  Lemma c_in_wiring : forall j u, j < n -> cnt u (c_inp j) = cnt u (c_inj j) + sum_n n (fun i => cnt u (c_sent i j)).
  Proof.
    intros j u Hj. unfold c_sent, c_inj. destruct j as [|j].
    - cbn [Nat.eqb]. rewrite (sum_n_ext n _ (fun _ => 0)).
      + assert (Z0 : forall m, sum_n m (fun _ => 0) = 0) by (induction m; cbn; lia). rewrite Z0. unfold c_inp. lia.
      + intros i _. reflexivity.
    - cbn [Nat.eqb]. rewrite cnt_nil.
      rewrite (sum_n_ext n _ (fun i => if Nat.eqb i j then (fun i => cnt u (c_fwd i)) i else 0)).
      + rewrite sum_n_single. destruct (Nat.ltb_spec j n); [|lia]. unfold c_inp, c_fwd. rewrite chained_nth by exact Hj. reflexivity.
      + intros i Hi. rewrite cnt_if. cbn [Nat.eqb]. rewrite (Nat.eqb_sym j i).
        destruct (Nat.eqb i j); [|reflexivity]. cbn [andb]. fold n. destruct (Nat.ltb_spec (S j) n); [reflexivity|lia].
  Qed.

  Theorem chain_network : forall u,
    sum_n n (fun j => cnt u (c_inj j)) =
    sum_n n (fun i => cnt u (c_tosink i)) + sum_n n (fun i => cnt u (c_drp i)) + sum_n n (fun i => cnt u (c_held i)).
  Proof. exact (network_conserves n c_inp c_fwd c_drp c_held c_inj c_tosink c_sent c_elem_conserves c_out_wiring c_in_wiring). Qed.

  (* ... which reads: what was put into the first stage = what the last stage forwarded + the drops and the held packets of
     every stage, per packet identity *)
  Corollary chain_network_read : 0 < n -> forall u,
    cnt u (uids (v_puts (nthv 0))) =
    cnt u (uids (v_fwds (nthv (pred n)))) + sum_n n (fun i => cnt u (c_drp i)) + sum_n n (fun i => cnt u (c_held i)).
  Proof.
    intros Hn u. pose proof (chain_network u) as H.
    assert (E1 : sum_n n (fun j => cnt u (c_inj j)) = cnt u (uids (v_puts (nthv 0)))).
    { unfold c_inj. rewrite (sum_n_ext n _ (fun j => if Nat.eqb j 0 then (fun _ => cnt u (uids (v_puts (nthv 0)))) j else 0)).
      - rewrite sum_n_single. destruct (Nat.ltb_spec 0 n); [reflexivity|lia].
      - intros j _. rewrite cnt_if. reflexivity. }
    assert (E2 : sum_n n (fun i => cnt u (c_tosink i)) = cnt u (uids (v_fwds (nthv (pred n))))).
    { unfold c_tosink. rewrite (sum_n_ext n _ (fun i => if Nat.eqb i (pred n) then (fun i => cnt u (uids (v_fwds (nthv i)))) i else 0)).
      - rewrite sum_n_single. destruct (Nat.ltb_spec (pred n) n); [reflexivity|lia].
      - intros i Hi. rewrite cnt_if. fold n. destruct (Nat.eqb_spec (S i) n), (Nat.eqb_spec i (pred n)); try reflexivity; lia. }
    rewrite E1, E2 in H. exact H.
  Qed.
End ChainNet.

(* ---- the views of an execution of a pipeline ----------------------------------------------------------------------- *)
Fixpoint pviews (es : list elem) : forall E : elem, list (iact (lab (pipeline E es))) -> option (list view) :=
  match es with
  | [] => fun E acts =>
      match run E (init E) acts with
      | Some (s, tr) => Some [view_of E s tr]
      | None => None
      end
  | F :: r => fun E acts =>
      match run E (init E) (actsA E (pipeline F r) acts), pviews r F (actsB E (pipeline F r) (init E) acts) with
      | Some (s, tr), Some vs => Some (view_of E s tr :: vs)
      | _, _ => None
      end
  end.

Theorem pipeline_views : forall es E, conserves E -> Forall conserves es -> forall acts s tr,
  run (pipeline E es) (init (pipeline E es)) acts = Some (s, tr) ->
  exists vs, pviews es E acts = Some vs /\ length vs = S (length es) /\ Forall v_ok vs /\ chained vs /\
             v_puts (nthv vs 0) = puts tr /\ v_fwds (nthv vs (length es)) = fwds tr.
Proof.
  induction es as [|F r IH]; intros E CE Ces acts s tr H.
  - cbn [pipeline] in *. exists [view_of E s tr]. cbn [pviews]. rewrite H. repeat split; auto.
    constructor; [exact (CE _ _ _ H)|constructor].
  - inversion Ces as [|? ? CF Cr]; subst. cbn [pipeline] in H.
    destruct (series_projection_init E (pipeline F r) _ _ _ H) as (trA & trB & RA & RB & P1 & P2 & P3 & _).
    destruct (IH F CF Cr _ _ _ RB) as (vs & Ev & Hl & Hok & Hch & Hp & Hf).
    exists (view_of E (fst s) trA :: vs). cbn [pviews]. rewrite RA, Ev. repeat split.
    + cbn [length]. rewrite Hl. reflexivity.
    + constructor; [exact (CE _ _ _ RA)|exact Hok].
    + destruct vs as [|w vs']; [cbn in Hl; lia|]. cbn [chained]. split; [|exact Hch].
      unfold nthv in Hp. cbn [nth] in Hp. rewrite Hp. exact P2.
    + unfold nthv. cbn [nth view_of v_puts]. exact P1.
    + unfold nthv in *. cbn [length nth]. rewrite Hf. exact P3.
Qed.

(* the abstract theorem instantiated: for EVERY execution of EVERY finite pipeline of conserving elements *)
Theorem pipeline_network : forall es E, conserves E -> Forall conserves es -> forall acts s tr,
  run (pipeline E es) (init (pipeline E es)) acts = Some (s, tr) ->
  exists vs, pviews es E acts = Some vs /\ length vs = S (length es) /\
    let n := length vs in
    (forall i u, i < n -> cnt u (c_inp vs i) = cnt u (c_fwd vs i) + cnt u (c_drp vs i) + cnt u (c_held vs i)) /\
    (forall i u, i < n -> cnt u (c_fwd vs i) = sum_n n (fun j => cnt u (c_sent vs i j)) + cnt u (c_tosink vs i)) /\
    (forall j u, j < n -> cnt u (c_inp vs j) = cnt u (c_inj vs j) + sum_n n (fun i => cnt u (c_sent vs i j))) /\
    (forall u, cnt u (uids (puts tr)) =
               cnt u (uids (fwds tr)) + sum_n n (fun i => cnt u (c_drp vs i)) + sum_n n (fun i => cnt u (c_held vs i))).
Proof.
  intros es E CE Ces acts s tr H.
  destruct (pipeline_views es E CE Ces _ _ _ H) as (vs & Ev & Hl & Hok & Hch & Hp & Hf).
  exists vs. split; [exact Ev|]. split; [exact Hl|]. cbn zeta. repeat split.
  - apply c_elem_conserves; assumption.
  - apply c_out_wiring.
  - apply c_in_wiring; assumption.
  - intros u. rewrite <- Hp, <- Hf.
    replace (length es) with (pred (length vs)) by (rewrite Hl; reflexivity).
    apply chain_network_read; auto. rewrite Hl. lia.
Qed.
