(* SWITCHES: a demultiplexer in front of a BANK of n elements (n arbitrary).
     bank t0 idx [E0; ..; En-1]   the elements side by side; a packet p put into the bank goes to E(idx p).  Built from `par`
                                  (ComposePar.v): par (idx = 0) E0 (par (idx = 1) E1 (.. nil_elem)).
     switch route t0 nouts Es     demux_elem route t0 >> bank t0 (bidx nouts route) Es, where route is a decision function of
                                  Route/Demux.v and the bank is laid out as the demux's devices: outs[0..nouts-1], then the
                                  default output, then the end devices.
   onl/netdev/switch.py: SimplePacketSwitch = switch (simple_switch true n) over n Ports; FairPacketSwitch = switch
   (fair_switch true true c) over n branches `egress Port(rate 0) >> scheduler`.  All C08 laws follow from the series / par
   theorems; [switch_branch] projects any execution of a switch onto the execution of any one of its branches. *)
From Coq Require Import ZArith QArith List Bool Permutation Lia Arith.
From ONL Require Import Elem.Packet Elem.Iface Elem.Compose Elem.ComposePar Elem.ComposeHands Elem.ComposeFan Route.Demux.
Import ListNotations.
Local Open Scope Q_scope.

(* ---- the empty bank: nothing can be put into it ------------------------------------------------------------------- *)
Definition nil_elem (t0 : Q) : elem := {|
  st := Q;
  lab := Empty_set;
  init := t0;
  now := fun s => s;
  put := fun _ _ => None;
  step := fun l _ => match l with end;
  advance := fun t s => if Qlt_le_dec s t then Some t else None;
  urgent := fun _ => false;
  deadline := fun _ => None;
  held := fun _ => [];
  accepts := fun _ => true;
  width := 1
|}.

Lemma nil_run t0 : forall acts s s' tr, run (nil_elem t0) s acts = Some (s', tr) -> puts tr = [] /\ fwds tr = [] /\ drops tr = [].
Proof.
  induction acts as [|a acts IH]; intros s s' tr H; cbn [run] in H.
  - injection H as _ <-. repeat split.
  - destruct (act (nil_elem t0) s a) as [[s1 o]|] eqn:Ea; [|discriminate].
    destruct (run (nil_elem t0) s1 acts) as [[s2 tr1]|] eqn:Er; [|discriminate]. injection H as _ <-.
    destruct (IH _ _ _ Er) as (P & F & D). rewrite puts_cons, fwds_cons, drops_cons, P, F, D.
    destruct a as [p|[]|t]; [discriminate|].
    cbn [act nil_elem advance] in Ea. destruct (Qlt_le_dec s t); [|discriminate]. injection Ea as _ <-. repeat split.
Qed.

Theorem nil_elem_laws t0 : laws (nil_elem t0).
Proof.
  split.
  - intros acts s tr H. destruct (nil_run _ _ _ _ _ H) as (-> & -> & ->). constructor.
  - intros f acts s tr H. destruct (nil_run _ _ _ _ _ H) as (-> & -> & _). constructor.
  - intros acts s tr H _ _ _. reflexivity.
Qed.
Theorem nil_elem_timed t0 : timed (nil_elem t0).
Proof.
  repeat split.
  - intros p s s' o H. discriminate.
  - intros [].
  - cbn [advance nil_elem] in H. destruct (Qlt_le_dec s t); [|discriminate]. injection H as <-. reflexivity.
  - cbn [advance nil_elem] in H. destruct (Qlt_le_dec s t); [|discriminate]. assumption.
  - intros d Hd. discriminate.
Qed.
Theorem nil_elem_tagged t0 : tagged (nil_elem t0).
Proof. apply atomic_tagged; [cbn; lia| |]; [intros p s s' o H; discriminate|intros []]. Qed.

(* ---- the bank -------------------------------------------------------------------------------------------------------- *)
Fixpoint bank (t0 : Q) (idx : pkt -> nat) (Es : list elem) : elem :=
  match Es with
  | [] => nil_elem t0
  | E :: r => par (fun p => Nat.eqb (idx p) 0) E (bank t0 (fun p => pred (idx p)) r)
  end.

Theorem bank_laws t0 : forall Es idx (g : Z -> nat), (forall p, idx p = g (flow p)) -> Forall laws Es -> laws (bank t0 idx Es).
Proof.
  induction Es as [|E r IH]; intros idx g Hg HL; cbn [bank]; [apply nil_elem_laws|].
  inversion HL; subst. apply (par_laws_by_flow _ (fun f => Nat.eqb (g f) 0)); [intros p; rewrite Hg; reflexivity|assumption|].
  apply (IH _ (fun f => pred (g f))); [intros p; rewrite Hg; reflexivity|assumption].
Qed.
Theorem bank_timed t0 : forall Es idx, Forall timed Es -> timed (bank t0 idx Es).
Proof.
  induction Es as [|E r IH]; intros idx HL; cbn [bank]; [apply nil_elem_timed|]. inversion HL; subst. apply par_timed; auto.
Qed.
Theorem bank_tagged t0 : forall Es idx, Forall tagged Es -> tagged (bank t0 idx Es).
Proof.
  induction Es as [|E r IH]; intros idx HL; cbn [bank]; [apply nil_elem_tagged|]. inversion HL; subst. apply par_tagged; auto.
Qed.

(* the state of branch i inside the state of a bank *)
Inductive bank_has (t0 : Q) : forall (Es : list elem) (idx : pkt -> nat), st (bank t0 idx Es) -> nat -> forall E : elem, st E -> Prop :=
| bh_here E r idx (s : st (bank t0 idx (E :: r))) : bank_has t0 (E :: r) idx s 0 E (fst s)
| bh_there E r idx (s : st (bank t0 idx (E :: r))) i F sF :
    bank_has t0 r (fun p => pred (idx p)) (snd s) i F sF -> bank_has t0 (E :: r) idx s (S i) F sF.

Lemma bank_has_total t0 : forall Es idx s i E, nth_error Es i = Some E -> exists sE, bank_has t0 Es idx s i E sE.
Proof.
  induction Es as [|E0 r IH]; intros idx s i E H; [destruct i; discriminate|].
  destruct i as [|i]; cbn [nth_error] in H.
  - injection H as <-. exists (fst s). constructor.
  - destruct (IH (fun p => pred (idx p)) (snd s) i E H) as [sE HsE]. exists sE. constructor. exact HsE.
Qed.

Lemma interleave_sub_l {X} (a b c : list X) : interleave a b c -> sublist a c.
Proof. induction 1; [constructor|constructor; auto|apply sl_skip; auto]. Qed.
Lemma interleave_sub_r {X} (a b c : list X) : interleave a b c -> sublist b c.
Proof. induction 1; [constructor|apply sl_skip; auto|constructor; auto]. Qed.
Lemma interleave_filter_split {X} (f : X -> bool) (a b c : list X) :
  interleave a b c -> Forall (fun x => f x = true) a -> Forall (fun x => f x = false) b ->
  filter f c = a /\ filter (fun x => negb (f x)) c = b.
Proof.
  induction 1 as [|x a b c H IH|x a b c H IH]; intros Fa Fb; [split; reflexivity| |].
  - inversion Fa; subst. destruct (IH H3 Fb) as [E1 E2]. cbn [filter]. rewrite H2. cbn [negb]. rewrite E1, E2. split; reflexivity.
  - inversion Fb; subst. destruct (IH Fa H3) as [E1 E2]. cbn [filter]. rewrite H2. cbn [negb]. rewrite E1, E2. split; reflexivity.
Qed.
Lemma filter_filter {X} (f g : X -> bool) l : filter f (filter g l) = filter (fun x => g x && f x) l.
Proof. induction l as [|x l IH]; [reflexivity|]. cbn [filter]. destruct (g x); cbn [filter andb]; [destruct (f x)|]; rewrite IH; reflexivity. Qed.

(* PROJECTION onto one branch: branch i of any execution of a bank is an admissible execution of that element alone; it was
   given exactly the packets with index i, in order; what it forwards / drops is part of what the bank forwards / drops *)
Theorem bank_projection t0 : forall Es idx s i E sE, bank_has t0 Es idx s i E sE -> forall acts tr,
  run (bank t0 idx Es) (init (bank t0 idx Es)) acts = Some (s, tr) ->
  exists acts_i tr_i, run E (init E) acts_i = Some (sE, tr_i) /\
    puts tr_i = filter (fun p => Nat.eqb (idx p) i) (puts tr) /\ sublist (fwds tr_i) (fwds tr) /\ sublist (drops tr_i) (drops tr).
Proof.
  intros Es idx s i E sE Hh. induction Hh as [E r idx s|E r idx s i F sF Hh IH]; intros acts tr H; cbn [bank] in H.
  - destruct (par_projection_init _ _ _ _ _ _ H) as (trA & trB & RA & _ & I1 & I2 & I3 & SA & SB).
    exists (pactsA (fun p => Nat.eqb (idx p) 0) E (bank t0 (fun p => pred (idx p)) r) acts), trA.
    split; [exact RA|]. split; [|split; [eapply interleave_sub_l; eauto|eapply interleave_sub_l; eauto]].
    symmetry. exact (proj1 (interleave_filter_split (fun p => Nat.eqb (idx p) 0) _ _ _ I1 SA SB)).
  - destruct (par_projection_init _ _ _ _ _ _ H) as (trA & trB & _ & RB & I1 & I2 & I3 & SA & SB).
    destruct (IH _ _ RB) as (acts_i & tr_i & R & P & Fw & Dr).
    exists acts_i, tr_i. split; [exact R|]. split; [|split; (eapply sublist_trans; [eassumption|eapply interleave_sub_r; eauto])].
    rewrite P, <- (proj2 (interleave_filter_split (fun p => Nat.eqb (idx p) 0) _ _ _ I1 SA SB)), filter_filter.
    apply filter_ext. intros p. destruct (idx p) as [|k]; reflexivity.
Qed.

(* ---- the switch --------------------------------------------------------------------------------------------------------- *)
(* the slot of the bank a decision of the demux leads to: outs, then the default output, then the end devices *)
Definition out_slot (nouts : nat) (o : output) : nat :=
  match o with OOut i => i | ODefault => nouts | OEnd d => S nouts + d | _ => O end.
Definition bidx (nouts : nat) (route : Z -> output) (p : pkt) : nat := out_slot nouts (route (flow p)).

Definition switch (route : Z -> output) (t0 : Q) (nouts : nat) (Es : list elem) : elem :=
  demux_elem route t0 >> bank t0 (bidx nouts route) Es.

Theorem switch_laws route t0 nouts Es : Forall laws Es -> laws (switch route t0 nouts Es).
Proof.
  intros HL. apply series_laws; [apply demux_elem_laws|].
  apply (bank_laws t0 Es _ (fun f => out_slot nouts (route f))); auto.
Qed.
Theorem switch_timed route t0 nouts Es : Forall timed Es -> timed (switch route t0 nouts Es).
Proof. intros HL. apply series_timed; [apply demux_elem_timed|apply bank_timed; exact HL]. Qed.
Theorem switch_tagged route t0 nouts Es : Forall tagged Es -> tagged (switch route t0 nouts Es).
Proof. intros HL. apply series_tagged; [apply demux_elem_tagged|apply bank_tagged; exact HL]. Qed.

(* conservation spelled out: put into the switch = delivered at its outputs ++ discarded (by the demux: no route; by the branches:
   their own documented rules, e.g. counted tail drops) ++ held inside the branches *)
Theorem switch_conserves route t0 nouts Es : Forall laws Es -> forall acts s tr,
  run (switch route t0 nouts Es) (init (switch route t0 nouts Es)) acts = Some (s, tr) ->
  Permutation (puts tr) (fwds tr ++ drops tr ++ held (bank t0 (bidx nouts route) Es) (snd s)).
Proof. intros HL acts s tr H. exact (l_conserves _ (switch_laws route t0 nouts Es HL) _ _ _ H). Qed.

(* PROJECTION onto one branch of a switch: the branch in slot i of any execution of a switch is an admissible execution of that
   element alone; it was given exactly the packets the demux rule routes to slot i, in order; what it delivers is part of what
   the switch delivers; what it discards and what the demux has no route for is discarded by the switch *)
Theorem switch_branch route t0 nouts Es : forall acts s tr,
  run (switch route t0 nouts Es) (init (switch route t0 nouts Es)) acts = Some (s, tr) ->
  forall i E sE, bank_has t0 Es (bidx nouts route) (snd s) i E sE ->
  exists acts_i tr_i, run E (init E) acts_i = Some (sE, tr_i) /\
    puts tr_i = filter (fun p => routed route p && Nat.eqb (bidx nouts route p) i) (puts tr) /\
    sublist (fwds tr_i) (fwds tr) /\ (forall p, In p (drops tr_i) -> In p (drops tr)) /\
    (forall p, In p (puts tr) -> routed route p = false -> In p (drops tr)).
Proof.
  intros acts s tr H i E sE Hh. unfold switch in H.
  destruct (series_projection_init _ _ _ _ _ H) as (trD & trB & RD & RB & P1 & P2 & P3 & P4).
  destruct (demux_run _ _ _ _ _ _ RD) as [FD DD].
  destruct (bank_projection t0 _ _ _ _ _ _ Hh _ _ RB) as (acts_i & tr_i & R & P & Fw & Dr).
  exists acts_i, tr_i. split; [exact R|]. rewrite P3 in Fw. repeat split.
  - rewrite P, P2, FD, P1, filter_filter. reflexivity.
  - exact Fw.
  - intros p Hp. apply (Permutation_in p (Permutation_sym P4)). apply in_or_app. right. eapply sublist_In; eauto.
  - intros p Hp Hr. apply (Permutation_in p (Permutation_sym P4)). apply in_or_app. left. rewrite DD, P1.
    apply filter_In. split; [exact Hp|]. rewrite Hr. reflexivity.
Qed.

Theorem switch_branch_exists route t0 nouts Es : forall acts s tr,
  run (switch route t0 nouts Es) (init (switch route t0 nouts Es)) acts = Some (s, tr) ->
  forall i E, nth_error Es i = Some E ->
  exists sE acts_i tr_i, bank_has t0 Es (bidx nouts route) (snd s) i E sE /\ run E (init E) acts_i = Some (sE, tr_i) /\
    puts tr_i = filter (fun p => routed route p && Nat.eqb (bidx nouts route p) i) (puts tr) /\
    sublist (fwds tr_i) (fwds tr) /\ (forall p, In p (drops tr_i) -> In p (drops tr)).
Proof.
  intros acts s tr H i E Hn. destruct (bank_has_total t0 Es (bidx nouts route) (snd s) i E Hn) as [sE Hh].
  destruct (switch_branch _ _ _ _ _ _ _ H _ _ _ Hh) as (acts_i & tr_i & R & P & Fw & Dr & _).
  exists sE, acts_i, tr_i. auto.
Qed.

(* what the demux has no route for is discarded by the switch (the documented no-route discard of C08) *)
Theorem switch_unrouted_dropped route t0 nouts Es : forall acts s tr,
  run (switch route t0 nouts Es) (init (switch route t0 nouts Es)) acts = Some (s, tr) ->
  forall p, In p (puts tr) -> routed route p = false -> In p (drops tr).
Proof.
  intros acts s tr H p Hp Hr. unfold switch in H.
  destruct (series_projection_init _ _ _ _ _ H) as (trD & trB & RD & RB & P1 & P2 & P3 & P4).
  destruct (demux_run _ _ _ _ _ _ RD) as [FD DD].
  apply (Permutation_in p (Permutation_sym P4)). apply in_or_app. left. rewrite DD, P1.
  apply filter_In. split; [exact Hp|]. rewrite Hr. reflexivity.
Qed.

Lemma nth_error_seq a : forall n i, (i < n)%nat -> nth_error (seq a n) i = Some (a + i)%nat.
Proof.
  intros n. revert a. induction n as [|n IH]; intros a i Hi; [lia|]. destruct i as [|i]; cbn [seq nth_error].
  - f_equal. lia.
  - rewrite IH by lia. f_equal. lia.
Qed.
Lemma nth_error_map_seq {X} (f : nat -> X) n i : (i < n)%nat -> nth_error (map f (seq 0 n)) i = Some (f i).
Proof. intros Hi. rewrite nth_error_map, nth_error_seq by exact Hi. reflexivity. Qed.
