(* The DRR scheduler (Elem/DRR.v) as an interface element (Elem/Iface.v).  The adapter's labels are the scheduler's own
   actions; its executions are exactly the executions of drr_run, so the theorems of DRRProofs.v transfer.  DRR has no drop
   rule; a packet of an unconfigured class or of size <= 0 is not an admissible input, exactly as in the model. *)
From Coq Require Import ZArith QArith List Bool Permutation Lia.
From ONL Require Import Elem.Packet Elem.StoreQ Elem.DRR Elem.DRRInv Elem.DRRProofs Elem.Iface Elem.AdaptCommon.
Import ListNotations.

Definition dout_e (o : dout) : list eout := match o with DOForward p => [EForward p] | _ => [] end.
Definition drr_internal (a : daction) : bool := match a with DPut _ | DAdvance _ => false | _ => true end.
Definition dlift (r : option (drr * list dout)) : option (drr * list eout) :=
  match r with Some (s', o) => Some (s', flat_map dout_e o) | None => None end.

(* everything inside the scheduler: per class, the packet in transmission, the parked head, the granted get, the store *)
Definition drr_held (cfg : dcfg) (d : drr) : list pkt := flat_map (dheld cfg d) (dclasses cfg).

Definition drr_elem (cfg : dcfg) (t0 : Q) : elem := {|
  st := drr;
  lab := daction;
  init := drr0 t0;
  now := dnow;
  put := fun p s => dlift (drr_act cfg s (DPut p));
  step := fun a s => if drr_internal a then dlift (drr_act cfg s a) else None;
  advance := fun t s => match drr_act cfg s (DAdvance t) with Some (s', _) => Some s' | None => None end;
  urgent := durgent cfg;
  deadline := fun s => match dchd s with DCTx _ dl => Some dl | _ => None end;
  held := drr_held cfg;
  accepts := fun _ => true;
  width := 1
|}.

Definition d_to (a : iact daction) : daction := match a with IPut p => DPut p | IStep l => l | IAdv t => DAdvance t end.
Definition d_of (a : daction) : iact daction := match a with DPut p => IPut p | DAdvance t => IAdv t | _ => IStep a end.
Definition d_ev (e : dtev) : Q * iact daction * list eout := (fst (fst e), d_of (snd (fst e)), flat_map dout_e (snd e)).

Lemma drr_adv_outs cfg s t s' o : drr_act cfg s (DAdvance t) = Some (s', o) -> o = [].
Proof.
  cbn [drr_act]. destruct (durgent cfg s); [discriminate|]. destruct (Qlt_le_dec (dnow s) t); [|discriminate].
  destruct (dchd s) as [|p|p dl|p]; try (intros H; injection H as _ <-; reflexivity).
  destruct (Qle_bool t dl); [|discriminate]. intros H; injection H as _ <-; reflexivity.
Qed.

Lemma drr_elem_act_of cfg t0 s a : act (drr_elem cfg t0) s (d_of a) = dlift (drr_act cfg s a).
Proof.
  destruct a; try reflexivity. cbn [d_of act drr_elem advance dlift].
  destruct (drr_act cfg s (DAdvance t)) as [[s' o]|] eqn:E; [|reflexivity].
  rewrite (drr_adv_outs _ _ _ _ _ E). reflexivity.
Qed.

Lemma drr_elem_act_to cfg t0 s a s' o :
  act (drr_elem cfg t0) s a = Some (s', o) -> d_of (d_to a) = a /\ dlift (drr_act cfg s (d_to a)) = Some (s', o).
Proof.
  destruct a as [p|l|t]; cbn [act drr_elem put step advance d_to].
  - intros H. split; [reflexivity|exact H].
  - destruct (drr_internal l) eqn:El; [|discriminate]. intros H. split; [|exact H]. destruct l; try reflexivity; discriminate.
  - destruct (drr_act cfg s (DAdvance t)) as [[s1 o1]|] eqn:E; [|discriminate].
    intros H. injection H as <- <-. split; [reflexivity|]. cbn [dlift]. rewrite (drr_adv_outs _ _ _ _ _ E). reflexivity.
Qed.

(* every execution of the model is an execution of the adapter ... *)
Theorem drr_run_elem cfg t0 : forall acts s s' tr,
  drr_run cfg s acts = Some (s', tr) -> run (drr_elem cfg t0) s (map d_of acts) = Some (s', map d_ev tr).
Proof.
  induction acts as [|a acts IH]; intros s s' tr H; cbn [drr_run] in H.
  - injection H as <- <-. reflexivity.
  - destruct (drr_act cfg s a) as [[s1 o]|] eqn:Ea; [|discriminate].
    destruct (drr_run cfg s1 acts) as [[s2 tr1]|] eqn:Er; [|discriminate]. injection H as <- <-.
    cbn [map run]. rewrite drr_elem_act_of, Ea. cbn [dlift]. rewrite (IH _ _ _ Er). reflexivity.
Qed.

(* ... and conversely: the adapter has no other executions *)
Theorem drr_elem_run cfg t0 : forall acts s s' tr,
  run (drr_elem cfg t0) s acts = Some (s', tr) ->
  exists tr0, drr_run cfg s (map d_to acts) = Some (s', tr0) /\ tr = map d_ev tr0 /\ map d_of (map d_to acts) = acts.
Proof.
  induction acts as [|a acts IH]; intros s s' tr H; cbn [run] in H.
  - injection H as <- <-. exists []. auto.
  - destruct (act (drr_elem cfg t0) s a) as [[s1 o]|] eqn:Ea; [|discriminate].
    destruct (run (drr_elem cfg t0) s1 acts) as [[s2 tr1]|] eqn:Er; [|discriminate]. injection H as <- <-.
    destruct (drr_elem_act_to _ _ _ _ _ _ Ea) as [Hn Hl]. destruct (IH _ _ _ Er) as (tr0 & R0 & -> & Hm).
    unfold dlift in Hl. destruct (drr_act cfg s (d_to a)) as [[s1' o']|] eqn:E0; [|discriminate]. injection Hl as -> <-.
    exists ((dnow s1, d_to a, o') :: tr0). cbn [map drr_run]. rewrite E0, R0. repeat split.
    + unfold d_ev at 2. cbn [fst snd]. rewrite Hn. reflexivity.
    + rewrite Hn, Hm. reflexivity.
Qed.

Lemma drr_puts tr : Iface.puts (map d_ev tr) = dputs tr.
Proof.
  induction tr as [|[[t a] o] tr IH]; [reflexivity|]. cbn [map]. unfold d_ev at 1. cbn [fst snd]. rewrite puts_cons, IH.
  unfold dputs. cbn [flat_map fst snd]. destruct a; reflexivity.
Qed.
Lemma drr_o_fwds o : o_fwds (flat_map dout_e o) = dforwards o.
Proof. induction o as [|x o IH]; [reflexivity|]. cbn [flat_map]. rewrite o_fwds_app, IH. unfold dforwards. destruct x; reflexivity. Qed.
Lemma drr_o_drops o : o_drops (flat_map dout_e o) = [].
Proof. induction o as [|x o IH]; [reflexivity|]. cbn [flat_map]. rewrite o_drops_app, IH. destruct x; reflexivity. Qed.
Lemma drr_fwds tr : fwds (map d_ev tr) = dfwds tr.
Proof.
  induction tr as [|[[t a] o] tr IH]; [reflexivity|]. cbn [map]. unfold d_ev at 1. cbn [fst snd]. rewrite fwds_cons, IH.
  unfold dfwds. cbn [flat_map snd]. rewrite drr_o_fwds. reflexivity.
Qed.
Lemma drr_drops tr : drops (map d_ev tr) = [].
Proof.
  induction tr as [|[[t a] o] tr IH]; [reflexivity|]. cbn [map]. unfold d_ev at 1. cbn [fst snd]. rewrite drops_cons, IH, drr_o_drops.
  reflexivity.
Qed.

(* ---- the laws ---------------------------------------------------------------------------------------------------- *)
Theorem drr_elem_conserves cfg t0 : dwf cfg -> conserves (drr_elem cfg t0).
Proof.
  intros Hwf acts s tr H. destruct (drr_elem_run _ _ _ _ _ _ H) as (tr0 & R0 & -> & _).
  rewrite drr_puts, drr_fwds, drr_drops. cbn [app held drr_elem].
  destruct (drr_conserves_l cfg _ _ _ _ Hwf R0) as (Hc & Hin & _).
  apply (class_partition_perm (dcls cfg) (dclasses cfg)); [exact (proj1 (proj2 (proj2 Hwf)))|exact Hc|exact Hin].
Qed.

Theorem drr_elem_flow_fifo cfg t0 f : dwf cfg -> flow_fifo (drr_elem cfg t0) f.
Proof.
  intros Hwf acts s tr H. destruct (drr_elem_run _ _ _ _ _ _ H) as (tr0 & R0 & -> & _).
  rewrite drr_puts, drr_fwds. pose proof (drr_flow_fifo_l cfg _ _ _ _ Hwf R0 f) as E.
  change (filter (on_flow f)) with (dof_flow f). rewrite E. apply sublist_app_r.
Qed.

Theorem drr_elem_drained cfg t0 : dwf cfg -> drained (drr_elem cfg t0).
Proof.
  intros Hwf acts s tr H _ U Dl. destruct (drr_elem_run _ _ _ _ _ _ H) as (tr0 & R0 & _ & _).
  cbn [urgent deadline drr_elem] in U, Dl.
  assert (Nd : forall p dl, dchd s <> DCTx p dl) by (intros p dl E; rewrite E in Dl; discriminate).
  pose proof (drr_drained_l cfg _ _ _ _ Hwf R0 U Nd) as He. cbn [held drr_elem]. unfold drr_held.
  induction (dclasses cfg) as [|k ks IH]; [reflexivity|]. cbn [flat_map]. rewrite (He k), IH. reflexivity.
Qed.

Theorem drr_elem_laws cfg t0 : dwf cfg -> laws (drr_elem cfg t0).
Proof. intros Hwf. split; [apply drr_elem_conserves|intros f; apply drr_elem_flow_fifo|apply drr_elem_drained]; exact Hwf. Qed.

(* ---- the clock: run() between two yields never touches it (structural, for every state) ------------------------- *)
Definition rnow (t : Q) (r : dres) : Prop := match r with DYield d _ | DFall d _ => dnow d = t | DErr => True end.

Lemma dtry_head_now c rest d p : rnow (dnow d) (dtry_head c rest d p).
Proof. unfold dtry_head. destruct (Qle_bool (inject_Z (psize p)) (ddef d c)); reflexivity. Qed.
Lemma dinner_now c rest d : rnow (dnow d) (dinner c rest d).
Proof.
  unfold dinner. destruct (negb (Qle_bool (ddef d c) 0) && (0 <? dccnt d c)%Z); [|reflexivity].
  destruct (dhol d c); [apply dtry_head_now|]. destruct (sq_get fifo_pop (dst d c)); [reflexivity|exact I].
Qed.
Lemma dvisit_start_now cfg c d : dnow (fst (dvisit_start cfg c d)) = dnow d.
Proof. unfold dvisit_start. destruct (0 <? dccnt d c)%Z; reflexivity. Qed.
Lemma dscan_now cfg : forall cs d, rnow (dnow d) (dscan cfg cs d).
Proof.
  induction cs as [|c rest IH]; intros d; cbn [dscan]; [reflexivity|].
  pose proof (dvisit_start_now cfg c d) as V. destruct (dvisit_start cfg c d) as [d1 e1]. cbn [fst] in V.
  pose proof (dinner_now c rest d1) as I1. destruct (dinner c rest d1) as [d2 e2|d2 e2|]; cbn [rnow] in *; [congruence| |exact I].
  pose proof (IH d2) as I2. destruct (dscan cfg rest d2) as [d3 e3|d3 e3|]; cbn [rnow] in *; congruence || exact I.
Qed.
Lemma dpasses_now cfg : forall fuel d d' e, dpasses fuel cfg d = Some (d', e) -> dnow d' = dnow d.
Proof.
  induction fuel as [|n IH]; intros d d' e H; cbn [dpasses] in H; destruct (0 <? dtotal d)%Z.
  - discriminate.
  - destruct (sq_get fifo_pop (dtok d)); [|discriminate]. injection H as <- _. reflexivity.
  - pose proof (dscan_now cfg (dclasses cfg) d) as Sn. destruct (dscan cfg (dclasses cfg) d) as [d1 e1|d1 e1|]; cbn [rnow] in Sn; [| |discriminate].
    + injection H as <- _. exact Sn.
    + destruct (dpasses n cfg d1) as [[d2 e2]|] eqn:P; [|discriminate]. injection H as <- _. rewrite (IH _ _ _ P). exact Sn.
  - destruct (sq_get fifo_pop (dtok d)); [|discriminate]. injection H as <- _. reflexivity.
Qed.
Lemma dcontinue_now cfg rest r t d' e : rnow t r -> dcontinue cfg rest r = Some (d', e) -> dnow d' = t.
Proof.
  intros Rn H. destruct r as [d0 e0|d0 e0|]; cbn [dcontinue rnow] in *; [injection H as <- _; exact Rn| |discriminate].
  pose proof (dscan_now cfg rest d0) as Sn. destruct (dscan cfg rest d0) as [d1 e1|d1 e1|]; cbn [rnow] in Sn; [| |discriminate].
  - injection H as <- _. congruence.
  - destruct (dpasses (dfuel d1) cfg d1) as [[d2 e2]|] eqn:P; [|discriminate]. injection H as <- _.
    rewrite (dpasses_now _ _ _ _ _ P). congruence.
Qed.

Lemma drr_act_now cfg d a d' o : drr_act cfg d a = Some (d', o) -> (forall t, a <> DAdvance t) -> dnow d' = dnow d.
Proof.
  intros H Nt. destruct a as [p| |[c|]|[c|]| | | |t]; cbn [drr_act] in H.
  - destruct (dmemZ (df2c cfg (flow p)) (dclasses cfg) && (0 <? psize p)%Z); [|discriminate]. injection H as <- _. reflexivity.
  - destruct (dctrl d); try discriminate. exact (dpasses_now _ _ _ _ _ H).
  - destruct (dmemZ c (dclasses cfg)); [|discriminate]. destruct (sq_cb fifo_pop (dst d c)); [|discriminate]. injection H as <- _. reflexivity.
  - destruct (sq_cb fifo_pop (dtok d)); [|discriminate]. injection H as <- _. reflexivity.
  - destruct (dctrl d) as [| |c' rest|]; try discriminate. destruct (Z.eqb c c'); [|discriminate].
    destruct (sq_take (dst d c)) as [[[a0 p] q]|]; [|discriminate].
    apply (dcontinue_now cfg rest _ (dnow d) _ _ (dtry_head_now c rest (dset_st d c q) p) H).
  - destruct (dctrl d); try discriminate. destruct (sq_take (dtok d)) as [[x q]|]; [|discriminate]. exact (dpasses_now _ _ _ _ _ H).
  - destruct (dchd d); try discriminate. injection H as <- _. reflexivity.
  - destruct (dchd d) as [|p|p dl|p]; try discriminate. destruct (Qeq_bool dl (dnow d)); [|discriminate]. injection H as <- _. reflexivity.
  - destruct (dchd d) as [|p|p dl|p]; try discriminate. destruct (dctrl d) as [| |c rest|c rest]; try discriminate.
    destruct (dcontinue cfg rest (dinner c rest (ddebit d c rest p))) as [[d2 e2]|] eqn:C; [|discriminate]. injection H as <- _.
    exact (dcontinue_now cfg rest _ (dnow d) _ _ (dinner_now c rest (ddebit d c rest p)) C).
  - exfalso. eapply Nt. reflexivity.
Qed.

Theorem drr_elem_timed cfg t0 : timed (drr_elem cfg t0).
Proof.
  repeat split.
  - intros p s s' o H. cbn [put drr_elem] in H. unfold dlift in H.
    destruct (drr_act cfg s (DPut p)) as [[w' o']|] eqn:E; [|discriminate]. injection H as <- _.
    apply (drr_act_now _ _ _ _ _ E). discriminate.
  - intros l s s' o H. cbn [step drr_elem] in H. destruct (drr_internal l) eqn:El; [|discriminate]. unfold dlift in H.
    destruct (drr_act cfg s l) as [[w' o']|] eqn:E; [|discriminate]. injection H as <- _.
    apply (drr_act_now _ _ _ _ _ E). intros t ->. discriminate.
  - cbn [advance drr_elem drr_act] in H. destruct (durgent cfg s); [discriminate|]. destruct (Qlt_le_dec (dnow s) t); [|discriminate].
    destruct (dchd s) as [|p|p dl|p]; try (injection H as <-; reflexivity).
    destruct (Qle_bool t dl); [|discriminate]. injection H as <-; reflexivity.
  - cbn [advance drr_elem drr_act] in H. destruct (durgent cfg s); [discriminate|]. destruct (Qlt_le_dec (dnow s) t); [|discriminate]. assumption.
  - cbn [advance drr_elem drr_act] in H. cbn [urgent drr_elem]. destruct (durgent cfg s); [discriminate|reflexivity].
  - cbn [advance drr_elem drr_act] in H. cbn [deadline drr_elem]. destruct (durgent cfg s); [discriminate|].
    destruct (Qlt_le_dec (dnow s) t); [|discriminate]. intros d Hd.
    destruct (dchd s) as [|p|p dl|p]; try discriminate. injection Hd as <-.
    destruct (Qle_bool t dl) eqn:El; [|discriminate]. apply Qle_bool_iff. exact El.
Qed.
