(* Proofs about Elem/TwoRate.v (the repaired TwoRateTokenBucket, tr_act true true): every admissible
   execution is an instance of the two-rate recurrence: packet k reaches the head at
   h_k = max(arrival_k, departure_(k-1)); both buckets are refilled to c_k = min(CBS, C + CIR*(h_k-U)/8),
   p_k = min(PBS, P + PIR*(h_k-U)/8); colour and departure follow from (c_k, p_k, size_k) alone.
   Then: colour rule, conformance against the shaping bucket, green conformance against (CIR, CBS). *)
From Coq Require Import ZArith QArith Qminmax List Bool Lia Lqa Morphisms.
From ONL Require Import Elem.Packet Elem.StoreQ Elem.StoreQProofs Elem.Bucket Elem.BucketProofs Elem.TwoRate.
Import ListNotations.

(* ---------------------------------------------------------------------------------------------- *)
(* the recurrence of the property                                                                  *)

(* colour of a packet of [size] bytes that finds c committed and p peak tokens at the head *)
Definition tr_colour (c : trcfg) (c1 p1 size : Q) : colour :=
  match pk c with
  | Some _ => if Qlt_le_dec p1 size then Red else if Qlt_le_dec c1 size then Yellow else Green
  | None => if Qlt_le_dec c1 size then Yellow else Green
  end.

(* its departure instant: at once, or after the wait for the shaping bucket's missing tokens *)
Definition tr_dep (c : trcfg) (h c1 p1 size : Q) : Q :=
  match pk c with
  | Some (pir, _) => release pir h p1 size
  | None => release (cir c) h c1 size
  end.

(* committed / peak tokens right after the departure at [d] *)
Definition tr_postC (c : trcfg) (h c1 p1 size d : Q) : Q :=
  match pk c with
  | Some _ => if Qlt_le_dec p1 size then refill (cbs c) (cir c) c1 h d      (* red: keeps filling, nothing taken *)
              else if Qlt_le_dec c1 size then c1                              (* yellow: left alone *)
              else c1 - size                                                  (* green *)
  | None => post c1 size
  end.

Definition tr_postP (c : trcfg) (p1 size : Q) : Q :=
  match pk c with
  | Some _ => post p1 size
  | None => p1
  end.

Record rsvc := { w_pkt : pkt; w_arr : Q; w_head : Q; w_c : Q; w_p : Q; w_dep : Q; w_col : colour }.

Definition wsize (o : rsvc) : Q := sz (w_pkt o).
Definition wpostC (c : trcfg) (o : rsvc) : Q := tr_postC c (w_head o) (w_c o) (w_p o) (wsize o) (w_dep o).
Definition wpostP (c : trcfg) (o : rsvc) : Q := tr_postP c (w_p o) (wsize o).

(* [C] committed and [P] peak tokens at instant [U] = the last departure (server free since then) *)
Definition rstep_ok (c : trcfg) (C P U : Q) (o : rsvc) : Prop :=
  w_head o == Qmax (w_arr o) U /\
  w_c o == refill (cbs c) (cir c) C U (w_head o) /\
  w_p o == (match pk c with Some (pir, pbs) => refill pbs pir P U (w_head o) | None => P end) /\
  w_col o = tr_colour c (w_c o) (w_p o) (wsize o) /\
  w_dep o == tr_dep c (w_head o) (w_c o) (w_p o) (wsize o).

Fixpoint rchain (c : trcfg) (C P U : Q) (R : list rsvc) : Prop :=
  match R with
  | [] => True
  | o :: R' => rstep_ok c C P U o /\ rchain c (wpostC c o) (wpostP c o) (w_dep o) R'
  end.

Definition rlastC (c : trcfg) (C : Q) (R : list rsvc) : Q := fold_left (fun _ o => wpostC c o) R C.
Definition rlastP (c : trcfg) (P : Q) (R : list rsvc) : Q := fold_left (fun _ o => wpostP c o) R P.
Definition rlastU (U : Q) (R : list rsvc) : Q := fold_left (fun _ o => w_dep o) R U.

Lemma rlastC_snoc c C R o : rlastC c C (R ++ [o]) = wpostC c o.
Proof. unfold rlastC. rewrite fold_left_app. reflexivity. Qed.
Lemma rlastP_snoc c P R o : rlastP c P (R ++ [o]) = wpostP c o.
Proof. unfold rlastP. rewrite fold_left_app. reflexivity. Qed.
Lemma rlastU_snoc U R o : rlastU U (R ++ [o]) = w_dep o.
Proof. unfold rlastU. rewrite fold_left_app. reflexivity. Qed.

Lemma rchain_snoc c : forall R C P U o,
  rchain c C P U R -> rstep_ok c (rlastC c C R) (rlastP c P R) (rlastU U R) o -> rchain c C P U (R ++ [o]).
Proof.
  induction R as [|x R IH]; intros C P U o HC HS; cbn [app rchain].
  - split; [exact HS|exact I].
  - destruct HC as [Hx HC]. split; [exact Hx|]. apply IH; [exact HC|exact HS].
Qed.

Lemma rchain_app_l c : forall R1 R2 C P U, rchain c C P U (R1 ++ R2) -> rchain c C P U R1.
Proof.
  induction R1 as [|x R1 IH]; intros R2 C P U H; cbn [app rchain] in *; [exact I|].
  destruct H as [Hx H]. split; [exact Hx|]. eapply IH; eauto.
Qed.

Lemma rchain_app_r c : forall R1 R2 C P U,
  rchain c C P U (R1 ++ R2) -> rchain c (rlastC c C R1) (rlastP c P R1) (rlastU U R1) R2.
Proof.
  induction R1 as [|x R1 IH]; intros R2 C P U H; cbn [app rchain] in *; [exact H|].
  destruct H as [Hx H]. apply (IH _ _ _ _ H).
Qed.

Definition rv_arr (R : list rsvc) : list (Q * pkt) := map (fun o => (w_arr o, w_pkt o)) R.
Definition rv_head (R : list rsvc) : list (Q * pkt) := map (fun o => (w_head o, w_pkt o)) R.
Definition rv_dep (R : list rsvc) : list (Q * pkt) := map (fun o => (w_dep o, w_pkt o)) R.
Definition rv_col (R : list rsvc) : list colour := map w_col R.

Lemma rv_arr_snoc R o : rv_arr (R ++ [o]) = rv_arr R ++ [(w_arr o, w_pkt o)].
Proof. unfold rv_arr. rewrite map_app. reflexivity. Qed.
Lemma rv_head_snoc R o : rv_head (R ++ [o]) = rv_head R ++ [(w_head o, w_pkt o)].
Proof. unfold rv_head. rewrite map_app. reflexivity. Qed.
Lemma rv_dep_snoc R o : rv_dep (R ++ [o]) = rv_dep R ++ [(w_dep o, w_pkt o)].
Proof. unfold rv_dep. rewrite map_app. reflexivity. Qed.
Lemma rv_col_snoc R o : rv_col (R ++ [o]) = rv_col R ++ [w_col o].
Proof. unfold rv_col. rewrite map_app. reflexivity. Qed.

(* ---------------------------------------------------------------------------------------------- *)
(* traces                                                                                          *)
Definition rev_puts (e : rev) : list (Q * pkt) :=
  match e with (t, RPut p, _) => [(t, p)] | _ => [] end.
Definition r_is_head (o : rout) : list pkt := match o with RHead p => [p] | _ => [] end.
Definition r_is_fwd (o : rout) : list pkt := match o with RFwd p _ => [p] | _ => [] end.
Definition r_is_col (o : rout) : list colour := match o with RFwd _ col => [col] | _ => [] end.
Definition rev_outs (f : rout -> list pkt) (e : rev) : list (Q * pkt) :=
  let '(t, _, outs) := e in map (fun p => (t, p)) (flat_map f outs).
Definition rev_cols (e : rev) : list colour := let '(_, _, outs) := e in flat_map r_is_col outs.

(* timed arrivals, head instants, departures of a trace, and the colours of the departures in order *)
Definition rputs (h : list rev) : list (Q * pkt) := flat_map rev_puts h.
Definition rheads (h : list rev) : list (Q * pkt) := flat_map (rev_outs r_is_head) h.
Definition rfwds (h : list rev) : list (Q * pkt) := flat_map (rev_outs r_is_fwd) h.
Definition rcols (h : list rev) : list colour := flat_map rev_cols h.

Lemma rputs_snoc h t a outs : rputs (h ++ [(t, a, outs)]) = rputs h ++ match a with RPut p => [(t, p)] | _ => [] end.
Proof. unfold rputs. rewrite flat_map_snoc. reflexivity. Qed.
Lemma rheads_snoc h t (a : raction) outs : rheads (h ++ [(t, a, outs)]) = rheads h ++ map (fun p => (t, p)) (flat_map r_is_head outs).
Proof. unfold rheads. rewrite flat_map_snoc. reflexivity. Qed.
Lemma rfwds_snoc h t (a : raction) outs : rfwds (h ++ [(t, a, outs)]) = rfwds h ++ map (fun p => (t, p)) (flat_map r_is_fwd outs).
Proof. unfold rfwds. rewrite flat_map_snoc. reflexivity. Qed.
Lemma rcols_snoc h (t : Q) (a : raction) outs : rcols (h ++ [(t, a, outs)]) = rcols h ++ flat_map r_is_col outs.
Proof. unfold rcols. rewrite flat_map_snoc. reflexivity. Qed.

(* ---------------------------------------------------------------------------------------------- *)
Lemma tr_forward_inv s p col s' o :
  tr_forward s p col = Some (s', o) ->
  o = [RFwd p col] /\ rnow s' = rnow s /\ rstarted s' = rstarted s /\ lc s' = lc s /\ lp s' = lp s /\ rut s' = rut s /\
  rphase_ s' = RIdle /\ rrecv s' = rrecv s /\ rsent s' = (rsent s + 1)%Z /\ sq_get fifo_pop (rq s) = Some (rq s').
Proof.
  unfold tr_forward. destruct (sq_get fifo_pop (rq s)) as [q|] eqn:E; [|discriminate].
  intros H. injection H as <- <-. cbn. repeat split; reflexivity.
Qed.

Section Invariant.
  Variable c : trcfg.
  Variable t0 : Q.
  Hypothesis Hcir : 0 < cir c.
  Hypothesis Hpir : forall pir pbs, pk c = Some (pir, pbs) -> 0 < pir.

  Definition P0 : Q := match pk c with Some (_, pbs) => pbs | None => 0 end.
  Definition CC (R : list rsvc) : Q := rlastC c (cbs c) R.
  Definition PP (R : list rsvc) : Q := rlastP c P0 R.
  Definition UU (R : list rsvc) : Q := rlastU t0 R.

  Definition ridle_inv (s : trtb) (R : list rsvc) : Prop :=
    if rstarted s then
      UU R <= rnow s /\ sq_fresh (rnow s) (rq s) /\ get (rq s) <> GNone /\
      (forall x, get (rq s) = GGranted x -> fst x == rnow s \/ UU R == rnow s)
    else get (rq s) = GNone /\ R = [] /\ rnow s == t0.

  Definition rphase_inv (s : trtb) (h : list rev) (R : list rsvc) : Prop :=
    match rphase_ s with
    | RIdle =>
        tpe (rfwds h) (rv_dep R) /\ rcols h = rv_col R /\
        lc s == CC R /\ lp s == PP R /\ rut s == UU R /\ ridle_inv s R
    | RWaitPeak p dl =>
        rstarted s = true /\ get (rq s) = GNone /\ rnow s <= dl /\
        exists R' o pir pbs, R = R' ++ [o] /\ pk c = Some (pir, pbs) /\ w_pkt o = p /\ w_dep o == dl /\
                     w_p o < wsize o /\ lc s == w_c o /\ lp s == w_p o /\ rut s == w_head o /\
                     tpe (rfwds h) (rv_dep R') /\ rcols h = rv_col R'
    | RWaitCommit p dl =>
        rstarted s = true /\ get (rq s) = GNone /\ rnow s <= dl /\
        exists R' o, R = R' ++ [o] /\ pk c = None /\ w_pkt o = p /\ w_dep o == dl /\
                     w_c o < wsize o /\ lc s == w_c o /\ lp s == w_p o /\ rut s == w_head o /\
                     tpe (rfwds h) (rv_dep R') /\ rcols h = rv_col R'
    end.

  Record RInv (s : trtb) (h : list rev) (R : list rsvc) : Prop := {
    rinv_chain : rchain c (cbs c) P0 t0 R;
    rinv_fifo : rputs h = rv_arr R ++ sq_held (rq s);
    rinv_nostrand : sq_nostrand (rq s);
    rinv_stamped : sq_stamped (rnow s) (rq s);
    rinv_heads : tpe (rheads h) (rv_head R);
    rinv_ut : rut s <= rnow s;
    rinv_recv : rrecv s = Z.of_nat (length (rputs h));
    rinv_sent : rsent s = Z.of_nat (length (rfwds h));
    rinv_phase : rphase_inv s h R
  }.

  Lemma RInv_init : RInv (tr0 true c t0) [] [].
  Proof.
    constructor; cbn.
    - exact I.
    - reflexivity.
    - apply sq_nostrand_init.
    - constructor.
    - constructor.
    - lra.
    - reflexivity.
    - reflexivity.
    - unfold rphase_inv, ridle_inv; cbn. split; [constructor|]. split; [reflexivity|].
      unfold CC, PP, UU, rlastC, rlastP, rlastU, P0; cbn. split; [reflexivity|]. split; [reflexivity|].
      split; [reflexivity|]. split; [reflexivity|]. split; reflexivity.
  Qed.

  Ltac trace_snoc :=
    rewrite ?rputs_snoc, ?rheads_snoc, ?rfwds_snoc, ?rcols_snoc;
    cbn [flat_map map app r_is_head r_is_fwd r_is_col]; rewrite ?app_nil_r.

  Lemma ridle_after_forward s1 s2 p col o R :
    rstarted s1 = true -> tr_forward s1 p col = Some (s2, o) -> UU R == rnow s1 -> ridle_inv s2 R.
  Proof.
    intros Hs Hf HF. apply tr_forward_inv in Hf as (_ & En & Es & _ & _ & _ & _ & _ & _ & Hq).
    unfold ridle_inv. rewrite Es, Hs, En. split; [lra|]. split; [eapply sq_fresh_get; eauto|].
    split; [eapply sq_get_not_none; eauto|]. intros x _. right. exact HF.
  Qed.

  Lemma rstep_put s h R p s' outs :
    RInv s h R -> tr_act true true c s (RPut p) = Some (s', outs) -> RInv s' (h ++ [(rnow s', RPut p, outs)]) R.
  Proof.
    intros [C Ff N S Hh Ut Rc Sn P] H. cbn [tr_act] in H. injection H as <- <-.
    constructor; cbn [rnow rq rut rrecv rsent]; trace_snoc.
    - exact C.
    - rewrite Ff, fifo_held_put, app_assoc. reflexivity.
    - apply sq_nostrand_put.
    - apply sq_stamped_put. exact S.
    - exact Hh.
    - exact Ut.
    - rewrite app_length, Nat2Z.inj_add, <- Rc. reflexivity.
    - exact Sn.
    - unfold rphase_inv, ridle_inv in *. cbn [rphase_ rstarted rq rnow lc lp rut]. trace_snoc.
      destruct (rphase_ s) as [|q dl|q dl]; [|exact P|exact P].
      destruct P as (P1 & P2 & P3 & P4 & P5 & P6). repeat (split; [assumption|]).
      destruct (rstarted s); [|exact P6].
      destruct P6 as (Q1 & Q2 & Q3 & Q4). repeat split; auto. apply sq_fresh_put. exact Q2.
  Qed.

  Lemma rstep_cb s h R s' outs :
    RInv s h R -> tr_act true true c s RStoreCb = Some (s', outs) -> RInv s' (h ++ [(rnow s', RStoreCb, outs)]) R.
  Proof.
    intros [C Ff N S Hh Ut Rc Sn P] H. cbn [tr_act] in H.
    destruct (sq_cb fifo_pop (rq s)) as [q|] eqn:E; [|discriminate]. injection H as <- <-.
    constructor; cbn [rnow rq rut rrecv rsent]; trace_snoc.
    - exact C.
    - rewrite (fifo_held_cb _ _ _ E). exact Ff.
    - eapply fifo_nostrand_cb; eauto.
    - eapply sq_stamped_cb; eauto.
    - exact Hh.
    - exact Ut.
    - exact Rc.
    - exact Sn.
    - unfold rphase_inv, ridle_inv in *. cbn [rphase_ rstarted rq rnow lc lp rut]. trace_snoc.
      destruct (rphase_ s) as [|p dl|p dl].
      + destruct P as (P1 & P2 & P3 & P4 & P5 & P6). repeat (split; [assumption|]).
        destruct (rstarted s).
        * destruct P6 as (Q1 & Q2 & Q3 & Q4). split; [exact Q1|]. split; [eapply sq_fresh_cb; eauto|]. split.
          -- intros G. apply Q3. apply (sq_cb_get_none _ _ _ _ E). exact G.
          -- intros x Gx. destruct (fifo_cb_inv _ _ _ E) as (_ & [(W & y & Ei & Gy)|(_ & _ & Gs)]).
             ++ left. rewrite (sq_cb_grants_fresh _ _ _ _ x E Q2 W Gx). reflexivity.
             ++ apply Q4. rewrite <- Gs. exact Gx.
        * destruct P6 as (Q1 & Q2 & Q3). repeat split; auto. apply (sq_cb_get_none _ _ _ _ E). exact Q1.
      + destruct P as (P1 & P2 & P3). split; [exact P1|]. split; [|exact P3].
        apply (sq_cb_get_none _ _ _ _ E). exact P2.
      + destruct P as (P1 & P2 & P3). split; [exact P1|]. split; [|exact P3].
        apply (sq_cb_get_none _ _ _ _ E). exact P2.
  Qed.

  Lemma rstep_init s h R s' outs :
    RInv s h R -> tr_act true true c s RInit = Some (s', outs) -> RInv s' (h ++ [(rnow s', RInit, outs)]) R.
  Proof.
    intros [C Ff N S Hh Ut Rc Sn P] H. cbn [tr_act] in H.
    destruct (rstarted s) eqn:Es; [discriminate|].
    destruct (sq_get fifo_pop (rq s)) as [q|] eqn:E; [|discriminate]. injection H as <- <-.
    constructor; cbn [rnow rq rut rrecv rsent]; trace_snoc.
    - exact C.
    - rewrite (fifo_held_get _ _ _ E). exact Ff.
    - eapply fifo_nostrand_get; eauto.
    - eapply sq_stamped_get; eauto.
    - exact Hh.
    - exact Ut.
    - exact Rc.
    - exact Sn.
    - unfold rphase_inv, ridle_inv in *. cbn [rphase_ rstarted rq rnow lc lp rut]. trace_snoc.
      rewrite Es in P.
      destruct (rphase_ s) as [|p dl|p dl]; [|destruct P as (P & _); discriminate..].
      destruct P as (P1 & P2 & P3 & P4 & P5 & Q1 & -> & Q3). repeat (split; [assumption|]).
      split; [unfold UU, rlastU; cbn [fold_left]; lra|].
      split; [eapply sq_fresh_get; eauto|].
      split; [eapply sq_get_not_none; eauto|]. intros x _. right. unfold UU, rlastU; cbn [fold_left]. lra.
  Qed.

  Lemma rstep_adv s h R t s' outs :
    RInv s h R -> tr_act true true c s (RAdvance t) = Some (s', outs) -> RInv s' (h ++ [(rnow s', RAdvance t, outs)]) R.
  Proof.
    intros [C Ff N S Hh Ut Rc Sn P] H. cbn [tr_act] in H.
    destruct (tr_urgent s) eqn:U; [discriminate|].
    destruct (Qlt_le_dec (rnow s) t) as [Hlt|]; [|discriminate].
    unfold tr_urgent in U. apply orb_false_iff in U as [U Ud]. apply orb_false_iff in U as [Us Uq].
    apply negb_false_iff in Us.
    assert (Hs' : s' = {| rnow := t; rq := rq s; rstarted := rstarted s; lc := lc s; lp := lp s; rut := rut s;
                         rphase_ := rphase_ s; rrecv := rrecv s; rsent := rsent s |} /\ outs = [] /\
                  match rphase_ s with RIdle => True | RWaitPeak _ dl => t <= dl | RWaitCommit _ dl => t <= dl end).
    { destruct (rphase_ s) as [|p dl|p dl].
      - injection H as <- <-. auto.
      - destruct (Qle_bool t dl) eqn:El; [|discriminate]. injection H as <- <-. apply Qle_bool_iff in El. auto.
      - destruct (Qle_bool t dl) eqn:El; [|discriminate]. injection H as <- <-. apply Qle_bool_iff in El. auto. }
    clear H. destruct Hs' as (-> & -> & Hdl).
    constructor; cbn [rnow rq rut rrecv rsent]; trace_snoc.
    - exact C.
    - exact Ff.
    - exact N.
    - eapply sq_stamped_mono; [|exact S]. lra.
    - exact Hh.
    - lra.
    - exact Rc.
    - exact Sn.
    - unfold rphase_inv, ridle_inv in *. cbn [rphase_ rstarted rq rnow lc lp rut]. trace_snoc.
      destruct (rphase_ s) as [|p dl|p dl].
      + destruct P as (P1 & P2 & P3 & P4 & P5 & P6). repeat (split; [assumption|]). rewrite Us in *.
        destruct P6 as (Q1 & Q2 & Q3 & Q4). split; [lra|]. split; [apply sq_fresh_advance; auto|].
        split; [exact Q3|]. intros x Gx. exfalso.
        apply sq_urgent_false in Uq as [_ Ug]. apply (Ug x). exact Gx.
      + destruct P as (P1 & P2 & P3 & P4). split; [exact P1|]. split; [exact P2|]. split; [exact Hdl|exact P4].
      + destruct P as (P1 & P2 & P3 & P4). split; [exact P1|]. split; [exact P2|]. split; [exact Hdl|exact P4].
  Qed.

  Lemma rchain_last R' o : rchain c (cbs c) P0 t0 (R' ++ [o]) -> rstep_ok c (CC R') (PP R') (UU R') o.
  Proof. intros H. apply rchain_app_r in H. cbn [rchain] in H. apply H. Qed.

  Lemma colour_red pir pbs c1 p1 size : pk c = Some (pir, pbs) -> p1 < size -> tr_colour c c1 p1 size = Red.
  Proof. intros E H. unfold tr_colour. rewrite E. destruct (Qlt_le_dec p1 size); [reflexivity|lra]. Qed.
  Lemma colour_yellow pir pbs c1 p1 size : pk c = Some (pir, pbs) -> size <= p1 -> c1 < size -> tr_colour c c1 p1 size = Yellow.
  Proof.
    intros E H1 H2. unfold tr_colour. rewrite E. destruct (Qlt_le_dec p1 size); [lra|].
    destruct (Qlt_le_dec c1 size); [reflexivity|lra].
  Qed.
  Lemma colour_green pir pbs c1 p1 size : pk c = Some (pir, pbs) -> size <= p1 -> size <= c1 -> tr_colour c c1 p1 size = Green.
  Proof.
    intros E H1 H2. unfold tr_colour. rewrite E. destruct (Qlt_le_dec p1 size); [lra|].
    destruct (Qlt_le_dec c1 size); [lra|reflexivity].
  Qed.
  Lemma colour_yellow0 c1 p1 size : pk c = None -> c1 < size -> tr_colour c c1 p1 size = Yellow.
  Proof. intros E H. unfold tr_colour. rewrite E. destruct (Qlt_le_dec c1 size); [reflexivity|lra]. Qed.
  Lemma colour_green0 c1 p1 size : pk c = None -> size <= c1 -> tr_colour c c1 p1 size = Green.
  Proof. intros E H. unfold tr_colour. rewrite E. destruct (Qlt_le_dec c1 size); [lra|reflexivity]. Qed.

  Lemma postC_red pir pbs h c1 p1 size d : pk c = Some (pir, pbs) -> p1 < size ->
    tr_postC c h c1 p1 size d = refill (cbs c) (cir c) c1 h d.
  Proof. intros E H. unfold tr_postC. rewrite E. destruct (Qlt_le_dec p1 size); [reflexivity|lra]. Qed.
  Lemma postC_yellow pir pbs h c1 p1 size d : pk c = Some (pir, pbs) -> size <= p1 -> c1 < size -> tr_postC c h c1 p1 size d = c1.
  Proof.
    intros E H1 H2. unfold tr_postC. rewrite E. destruct (Qlt_le_dec p1 size); [lra|].
    destruct (Qlt_le_dec c1 size); [reflexivity|lra].
  Qed.
  Lemma postC_green pir pbs h c1 p1 size d : pk c = Some (pir, pbs) -> size <= p1 -> size <= c1 -> tr_postC c h c1 p1 size d = c1 - size.
  Proof.
    intros E H1 H2. unfold tr_postC. rewrite E. destruct (Qlt_le_dec p1 size); [lra|].
    destruct (Qlt_le_dec c1 size); [lra|reflexivity].
  Qed.
  Lemma postC_nopir h c1 p1 size d : pk c = None -> tr_postC c h c1 p1 size d = post c1 size.
  Proof. intros E. unfold tr_postC. rewrite E. reflexivity. Qed.
  Lemma postP_pir pir pbs p1 size : pk c = Some (pir, pbs) -> tr_postP c p1 size = post p1 size.
  Proof. intros E. unfold tr_postP. rewrite E. reflexivity. Qed.
  Lemma postP_nopir p1 size : pk c = None -> tr_postP c p1 size = p1.
  Proof. intros E. unfold tr_postP. rewrite E. reflexivity. Qed.
  Lemma dep_pir pir pbs h c1 p1 size : pk c = Some (pir, pbs) -> tr_dep c h c1 p1 size = release pir h p1 size.
  Proof. intros E. unfold tr_dep. rewrite E. reflexivity. Qed.
  Lemma dep_nopir h c1 p1 size : pk c = None -> tr_dep c h c1 p1 size = release (cir c) h c1 size.
  Proof. intros E. unfold tr_dep. rewrite E. reflexivity. Qed.

  Lemma rstep_timer s h R s' outs :
    RInv s h R -> tr_act true true c s RTimer = Some (s', outs) -> RInv s' (h ++ [(rnow s', RTimer, outs)]) R.
  Proof.
    intros [C Ff N S Hh Ut Rc Sn P] H. cbn [tr_act] in H. unfold rphase_inv in P.
    destruct (rphase_ s) as [|p dl|p dl] eqn:Eph; [discriminate| |].
    - (* red: the wait for peak tokens ends *)
      destruct (Qeq_bool dl (rnow s)) eqn:Edl; [|discriminate]. apply Qeq_bool_eq in Edl.
      destruct P as (Ps & Pg & Pn & R' & o & pir & pbs & -> & Epk & Po & Pd & Pw & Pl & Pp & Pu & Pfw & Pcl).
      pose proof (rchain_last _ _ C) as (K1 & K2 & K3 & K4 & K5).
      pose proof (tr_forward_inv _ _ _ _ _ H) as (-> & En & Es & El & Elp & Eu & Ep & Er & Esn & Hq).
      cbn [rnow rq rstarted lc lp rut rphase_ rrecv rsent] in *.
      constructor; rewrite ?En, ?Eu, ?Er, ?Esn; trace_snoc.
      + exact C.
      + rewrite (fifo_held_get _ _ _ Hq). exact Ff.
      + eapply fifo_nostrand_get; eauto.
      + eapply sq_stamped_get; eauto.
      + exact Hh.
      + lra.
      + exact Rc.
      + rewrite app_length, Nat2Z.inj_add, <- Sn. reflexivity.
      + unfold rphase_inv. rewrite ?Ep, ?El, ?Elp, ?Eu, ?En. trace_snoc.
        split; [rewrite rv_dep_snoc, Po; apply tpe_snoc; [exact Pfw|lra]|].
        split; [rewrite rv_col_snoc, Pcl, K4, (colour_red _ _ _ _ _ Epk Pw); reflexivity|].
        unfold CC, PP, UU. rewrite rlastC_snoc, rlastP_snoc, rlastU_snoc. unfold wpostC, wpostP.
        rewrite (postC_red _ _ _ _ _ _ _ Epk Pw), (postP_pir _ _ _ _ Epk), (post_wait _ _ Pw).
        split; [rewrite Qred_correct; apply refill_compat; [exact Pl|exact Pu|lra]|].
        split; [reflexivity|]. split; [lra|].
        eapply ridle_after_forward; [|exact H|]; cbn [rstarted rnow]; [exact Ps|].
        unfold UU. rewrite rlastU_snoc. lra.
    - (* no PIR, yellow: the wait for committed tokens ends *)
      destruct (Qeq_bool dl (rnow s)) eqn:Edl; [|discriminate]. apply Qeq_bool_eq in Edl.
      destruct P as (Ps & Pg & Pn & R' & o & -> & Epk & Po & Pd & Pw & Pl & Pp & Pu & Pfw & Pcl).
      pose proof (rchain_last _ _ C) as (K1 & K2 & K3 & K4 & K5).
      pose proof (tr_forward_inv _ _ _ _ _ H) as (-> & En & Es & El & Elp & Eu & Ep & Er & Esn & Hq).
      cbn [rnow rq rstarted lc lp rut rphase_ rrecv rsent] in *.
      constructor; rewrite ?En, ?Eu, ?Er, ?Esn; trace_snoc.
      + exact C.
      + rewrite (fifo_held_get _ _ _ Hq). exact Ff.
      + eapply fifo_nostrand_get; eauto.
      + eapply sq_stamped_get; eauto.
      + exact Hh.
      + lra.
      + exact Rc.
      + rewrite app_length, Nat2Z.inj_add, <- Sn. reflexivity.
      + unfold rphase_inv. rewrite ?Ep, ?El, ?Elp, ?Eu, ?En. trace_snoc.
        split; [rewrite rv_dep_snoc, Po; apply tpe_snoc; [exact Pfw|lra]|].
        split; [rewrite rv_col_snoc, Pcl, K4, (colour_yellow0 _ _ _ Epk Pw); reflexivity|].
        unfold CC, PP, UU. rewrite rlastC_snoc, rlastP_snoc, rlastU_snoc. unfold wpostC, wpostP.
        rewrite (postC_nopir _ _ _ _ _ Epk), (postP_nopir _ _ Epk), (post_wait _ _ Pw).
        split; [reflexivity|]. split; [exact Pp|]. split; [lra|].
        eapply ridle_after_forward; [|exact H|]; cbn [rstarted rnow]; [exact Ps|].
        unfold UU. rewrite rlastU_snoc. lra.
  Qed.

  Lemma rstep_get s h R s' outs :
    RInv s h R -> tr_act true true c s RGet = Some (s', outs) ->
    exists o, RInv s' (h ++ [(rnow s', RGet, outs)]) (R ++ [o]).
  Proof.
    intros [C Ff N S Hh Ut Rc Sn P] H. cbn [tr_act] in H. unfold rphase_inv in P.
    destruct (rphase_ s) as [|p0 dl0|p0 dl0] eqn:Eph; try discriminate.
    destruct (sq_take (rq s)) as [[[a0 p] q]|] eqn:Et; [|discriminate].
    destruct (negb (rstarted s)) eqn:Es; [discriminate|]. apply negb_false_iff in Es.
    destruct P as (Pfw & Pcl & Pl & Pp & Pu & Pi). unfold ridle_inv in Pi. rewrite Es in Pi.
    destruct Pi as (PF & Pfr & Pg & Px).
    pose proof (sq_take_inv _ _ _ _ Et) as (Gx & Ei & Epd & Gn).
    pose proof (sq_stamped_take _ _ _ _ _ Et S) as [Ha Sq]. cbn [fst] in Ha.
    assert (Hs : rnow s == Qmax a0 (UU R)).
    { apply Qmax_now; auto. destruct (Px _ Gx) as [X|X]; [left|right]; exact X. }
    assert (Hheld : sq_held (rq s) = (a0, p) :: sq_held q) by (eapply fifo_held_take; eauto).
    assert (Nq : sq_nostrand q) by (eapply fifo_nostrand_take; eauto).
    set (hd := Qmax a0 (UU R)) in *.
    set (c1 := refill (cbs c) (cir c) (CC R) (UU R) hd).
    set (p1 := match pk c with Some (pir, pbs) => refill pbs pir (PP R) (UU R) hd | None => PP R end).
    set (o := {| w_pkt := p; w_arr := a0; w_head := hd; w_c := c1; w_p := p1;
                 w_dep := tr_dep c hd c1 p1 (sz p); w_col := tr_colour c c1 p1 (sz p) |}).
    assert (Hok : rstep_ok c (CC R) (PP R) (UU R) o).
    { unfold rstep_ok, wsize; cbn [w_pkt w_arr w_head w_c w_p w_dep w_col o]. repeat split; reflexivity. }
    assert (HC : rchain c (cbs c) P0 t0 (R ++ [o])) by (apply rchain_snoc; assumption).
    assert (Hc1 : Qred (refill (cbs c) (cir c) (lc s) (rut s) (rnow s)) == c1).
    { rewrite Qred_correct. apply refill_compat; assumption. }
    assert (Hfifo : rputs h = rv_arr (R ++ [o]) ++ sq_held q).
    { rewrite Ff, Hheld, rv_arr_snoc. cbn [w_arr w_pkt o]. rewrite <- app_assoc. reflexivity. }
    assert (Hheads : tpe (rheads h ++ [(rnow s, p)]) (rv_head (R ++ [o]))).
    { rewrite rv_head_snoc. cbn [w_head w_pkt o]. apply tpe_snoc; [exact Hh|exact Hs]. }
    exists o.
    destruct (pk c) as [[pir pbs]|] eqn:Epk.
    - (* PIR configured *)
      pose proof (Hpir _ _ eq_refl) as Hp0.
      assert (Hp1 : Qred (refill pbs pir (lp s) (rut s) (rnow s)) == p1).
      { rewrite Qred_correct. apply refill_compat; assumption. }
      destruct (Qlt_le_dec (Qred (refill pbs pir (lp s) (rut s) (rnow s))) (sz p)) as [Hw|Hw].
      + (* red *)
        apply some_pair_inv in H as [<- <-].
        assert (Hlw : p1 < sz p) by lra.
        constructor; cbn [rnow rq rut rrecv rsent]; trace_snoc.
        * exact HC.
        * exact Hfifo.
        * exact Nq.
        * exact Sq.
        * exact Hheads.
        * lra.
        * exact Rc.
        * exact Sn.
        * unfold rphase_inv. cbn [rphase_ rstarted rq rnow lc lp rut]. trace_snoc.
          split; [exact Es|]. split; [exact Gn|].
          pose proof (tokwait_pos pir (sz p) _ Hp0 Hw) as Hpos.
          split; [rewrite Qred_correct; lra|].
          exists R, o, pir, pbs. split; [reflexivity|]. split; [exact Epk|]. split; [reflexivity|].
          unfold wsize. cbn [w_pkt w_dep w_c w_p w_head o].
          split; [|split; [exact Hlw|split; [exact Hc1|split; [exact Hp1|split; [exact Hs|split; assumption]]]]].
          unfold tr_dep. rewrite Epk, (release_wait _ _ _ _ Hlw), Qred_correct, Hp1, Hs. reflexivity.
      + assert (Hlp : sz p <= p1) by lra.
        assert (Hdep : w_dep o == rnow s).
        { cbn [w_dep o]. unfold tr_dep. rewrite Epk, (release_nowait _ _ _ _ Hlp). lra. }
        destruct (Qlt_le_dec (Qred (refill (cbs c) (cir c) (lc s) (rut s) (rnow s))) (sz p)) as [Hy|Hy].
        * (* yellow *)
          assert (Hlc : c1 < sz p) by lra.
          destruct (tr_forward _ _ _) as [[s2 o2]|] eqn:E; [|discriminate]. injection H as <- <-.
          pose proof (tr_forward_inv _ _ _ _ _ E) as (-> & En & Est & El & Elp & Eu & Eph2 & Er & Esn & Hq).
          cbn [rnow rq rstarted lc lp rut rphase_ rrecv rsent] in *.
          constructor; rewrite ?En, ?Eu, ?Er, ?Esn; trace_snoc.
          -- exact HC.
          -- rewrite (fifo_held_get _ _ _ Hq). exact Hfifo.
          -- eapply fifo_nostrand_get; eauto.
          -- eapply sq_stamped_get; eauto.
          -- exact Hheads.
          -- lra.
          -- exact Rc.
          -- rewrite app_length, Nat2Z.inj_add, <- Sn. reflexivity.
          -- unfold rphase_inv. rewrite ?Eph2, ?El, ?Elp, ?Eu, ?En. trace_snoc.
             split; [rewrite rv_dep_snoc; apply tpe_snoc; [exact Pfw|lra]|].
             split; [rewrite rv_col_snoc, Pcl; cbn [w_col o]; rewrite (colour_yellow _ _ _ _ _ Epk Hlp Hlc); reflexivity|].
             unfold CC, PP, UU. rewrite rlastC_snoc, rlastP_snoc, rlastU_snoc. unfold wpostC, wpostP, wsize.
             cbn [w_pkt w_head w_c w_p o].
             rewrite (postC_yellow _ _ _ _ _ _ _ Epk Hlp Hlc), (postP_pir _ _ _ _ Epk), (post_nowait _ _ Hlp).
             split; [exact Hc1|]. split; [rewrite Qred_correct, Hp1; reflexivity|]. split; [lra|].
             eapply ridle_after_forward; [|exact E|]; cbn [rstarted rnow]; [exact Es|].
             unfold UU. rewrite rlastU_snoc. exact Hdep.
        * (* green *)
          assert (Hlc : sz p <= c1) by lra.
          destruct (tr_forward _ _ _) as [[s2 o2]|] eqn:E; [|discriminate]. injection H as <- <-.
          pose proof (tr_forward_inv _ _ _ _ _ E) as (-> & En & Est & El & Elp & Eu & Eph2 & Er & Esn & Hq).
          cbn [rnow rq rstarted lc lp rut rphase_ rrecv rsent] in *.
          constructor; rewrite ?En, ?Eu, ?Er, ?Esn; trace_snoc.
          -- exact HC.
          -- rewrite (fifo_held_get _ _ _ Hq). exact Hfifo.
          -- eapply fifo_nostrand_get; eauto.
          -- eapply sq_stamped_get; eauto.
          -- exact Hheads.
          -- lra.
          -- exact Rc.
          -- rewrite app_length, Nat2Z.inj_add, <- Sn. reflexivity.
          -- unfold rphase_inv. rewrite ?Eph2, ?El, ?Elp, ?Eu, ?En. trace_snoc.
             split; [rewrite rv_dep_snoc; apply tpe_snoc; [exact Pfw|lra]|].
             split; [rewrite rv_col_snoc, Pcl; cbn [w_col o]; rewrite (colour_green _ _ _ _ _ Epk Hlp Hlc); reflexivity|].
             unfold CC, PP, UU. rewrite rlastC_snoc, rlastP_snoc, rlastU_snoc. unfold wpostC, wpostP, wsize.
             cbn [w_pkt w_head w_c w_p o].
             rewrite (postC_green _ _ _ _ _ _ _ Epk Hlp Hlc), (postP_pir _ _ _ _ Epk), (post_nowait _ _ Hlp).
             split; [rewrite Qred_correct, Hc1; reflexivity|]. split; [rewrite Qred_correct, Hp1; reflexivity|]. split; [lra|].
             eapply ridle_after_forward; [|exact E|]; cbn [rstarted rnow]; [exact Es|].
             unfold UU. rewrite rlastU_snoc. exact Hdep.
    - (* no PIR: shape against the committed bucket *)
      assert (Hp1 : lp s == p1) by exact Pp.
      destruct (Qlt_le_dec (Qred (refill (cbs c) (cir c) (lc s) (rut s) (rnow s))) (sz p)) as [Hw|Hw].
      + (* yellow: wait for committed tokens *)
        apply some_pair_inv in H as [<- <-].
        assert (Hlw : c1 < sz p) by lra.
        constructor; cbn [rnow rq rut rrecv rsent]; trace_snoc.
        * exact HC.
        * exact Hfifo.
        * exact Nq.
        * exact Sq.
        * exact Hheads.
        * lra.
        * exact Rc.
        * exact Sn.
        * unfold rphase_inv. cbn [rphase_ rstarted rq rnow lc lp rut]. trace_snoc.
          split; [exact Es|]. split; [exact Gn|].
          pose proof (tokwait_pos (cir c) (sz p) _ Hcir Hw) as Hpos.
          split; [rewrite Qred_correct; lra|].
          exists R, o. split; [reflexivity|]. split; [exact Epk|]. split; [reflexivity|].
          unfold wsize. cbn [w_pkt w_dep w_c w_p w_head o].
          split; [|split; [exact Hlw|split; [exact Hc1|split; [exact Hp1|split; [exact Hs|split; assumption]]]]].
          unfold tr_dep. rewrite Epk, (release_wait _ _ _ _ Hlw), Qred_correct, Hc1, Hs. reflexivity.
      + (* green *)
        assert (Hlc : sz p <= c1) by lra.
        assert (Hdep : w_dep o == rnow s).
        { cbn [w_dep o]. unfold tr_dep. rewrite Epk, (release_nowait _ _ _ _ Hlc). lra. }
        destruct (tr_forward _ _ _) as [[s2 o2]|] eqn:E; [|discriminate]. injection H as <- <-.
        pose proof (tr_forward_inv _ _ _ _ _ E) as (-> & En & Est & El & Elp & Eu & Eph2 & Er & Esn & Hq).
        cbn [rnow rq rstarted lc lp rut rphase_ rrecv rsent] in *.
        constructor; rewrite ?En, ?Eu, ?Er, ?Esn; trace_snoc.
        * exact HC.
        * rewrite (fifo_held_get _ _ _ Hq). exact Hfifo.
        * eapply fifo_nostrand_get; eauto.
        * eapply sq_stamped_get; eauto.
        * exact Hheads.
        * lra.
        * exact Rc.
        * rewrite app_length, Nat2Z.inj_add, <- Sn. reflexivity.
        * unfold rphase_inv. rewrite ?Eph2, ?El, ?Elp, ?Eu, ?En. trace_snoc.
          split; [rewrite rv_dep_snoc; apply tpe_snoc; [exact Pfw|lra]|].
          split; [rewrite rv_col_snoc, Pcl; cbn [w_col o]; rewrite (colour_green0 _ _ _ Epk Hlc); reflexivity|].
          unfold CC, PP, UU. rewrite rlastC_snoc, rlastP_snoc, rlastU_snoc. unfold wpostC, wpostP, wsize.
          cbn [w_pkt w_head w_c w_p o].
          rewrite (postC_nopir _ _ _ _ _ Epk), (postP_nopir _ _ Epk), (post_nowait _ _ Hlc).
          split; [rewrite Qred_correct, Hc1; reflexivity|]. split; [exact Hp1|]. split; [lra|].
          eapply ridle_after_forward; [|exact E|]; cbn [rstarted rnow]; [exact Es|].
          unfold UU. rewrite rlastU_snoc. exact Hdep.
  Qed.

  Lemma rstep_inv s h R a s' outs :
    RInv s h R -> tr_act true true c s a = Some (s', outs) -> exists R', RInv s' (h ++ [(rnow s', a, outs)]) R'.
  Proof.
    intros HI H. destruct a as [p| | | | |t].
    - exists R. eapply rstep_put; eauto.
    - exists R. eapply rstep_init; eauto.
    - exists R. eapply rstep_cb; eauto.
    - destruct (rstep_get _ _ _ _ _ HI H) as [o Ho]. exists (R ++ [o]). exact Ho.
    - exists R. eapply rstep_timer; eauto.
    - exists R. eapply rstep_adv; eauto.
  Qed.

  Lemma rrun_inv : forall acts s h R s' tr,
    RInv s h R -> tr_run true true c s acts = Some (s', tr) -> exists R', RInv s' (h ++ tr) R'.
  Proof.
    induction acts as [|a acts IH]; intros s h R s' tr HI H; cbn [tr_run] in H.
    - injection H as <- <-. rewrite app_nil_r. exists R. exact HI.
    - destruct (tr_act true true c s a) as [[s1 outs]|] eqn:Ea; [|discriminate].
      destruct (tr_run true true c s1 acts) as [[s2 tr1]|] eqn:Er; [|discriminate].
      injection H as <- <-.
      destruct (rstep_inv _ _ _ _ _ _ HI Ea) as [R1 HI1].
      destruct (IH _ _ _ _ _ HI1 Er) as [R2 HI2].
      exists R2. rewrite <- app_assoc in HI2. exact HI2.
  Qed.

  Theorem rreachable_inv acts s tr :
    tr_run true true c (tr0 true c t0) acts = Some (s, tr) -> exists R, RInv s tr R.
  Proof. intros H. apply (rrun_inv acts (tr0 true c t0) [] [] s tr RInv_init H). Qed.
End Invariant.

(* ---------------------------------------------------------------------------------------------- *)
(* the theorems                                                                                     *)

Definition tr_matches (s : trtb) (tr : list rev) (R : list rsvc) : Prop :=
  tpe (rheads tr) (rv_head R) /\
  match rphase_ s with
  | RIdle => tpe (rfwds tr) (rv_dep R) /\ rcols tr = rv_col R
  | RWaitPeak p dl =>
      exists R' o, R = R' ++ [o] /\ w_pkt o = p /\ w_dep o == dl /\ rnow s <= dl /\
                   tpe (rfwds tr) (rv_dep R') /\ rcols tr = rv_col R'
  | RWaitCommit p dl =>
      exists R' o, R = R' ++ [o] /\ w_pkt o = p /\ w_dep o == dl /\ rnow s <= dl /\
                   tpe (rfwds tr) (rv_dep R') /\ rcols tr = rv_col R'
  end.

Lemma RInv_matches c t0 s tr R : RInv c t0 s tr R -> tr_matches s tr R.
Proof.
  intros HI. pose proof (rinv_phase _ _ _ _ _ HI) as P. unfold rphase_inv in P. unfold tr_matches.
  split; [apply (rinv_heads _ _ _ _ _ HI)|].
  destruct (rphase_ s) as [|p dl|p dl].
  - destruct P as (P1 & P2 & _). auto.
  - destruct P as (_ & _ & Pn & R' & o & pir & pbs & E & _ & Po & Pd & _ & _ & _ & _ & Pfw & Pc). exists R', o. auto 10.
  - destruct P as (_ & _ & Pn & R' & o & E & _ & Po & Pd & _ & _ & _ & _ & Pfw & Pc). exists R', o. auto 10.
Qed.

Definition trwf (c : trcfg) : Prop := 0 < cir c /\ forall pir pbs, pk c = Some (pir, pbs) -> 0 < pir.

Definition tr_P0 (c : trcfg) : Q := match pk c with Some (_, pbs) => pbs | None => 0 end.

(* THE RECURRENCE: every admissible execution of the repaired two-rate bucket is an instance of it *)
Theorem trtb_spec c t0 acts s tr :
  trwf c -> tr_run true true c (tr0 true c t0) acts = Some (s, tr) ->
  exists R, rchain c (cbs c) (tr_P0 c) t0 R
    /\ rputs tr = rv_arr R ++ sq_held (rq s)
    /\ tr_matches s tr R.
Proof.
  intros [Hc Hp] H. destruct (rreachable_inv c t0 Hc Hp _ _ _ H) as [R HI]. exists R.
  split; [apply (rinv_chain _ _ _ _ _ HI)|]. split; [apply (rinv_fifo _ _ _ _ _ HI)|].
  eapply RInv_matches; eauto.
Qed.

Lemma tr_matches_fwds s tr R : tr_matches s tr R ->
  exists R1 R2, R = R1 ++ R2 /\ (length R2 <= 1)%nat /\ tpe (rfwds tr) (rv_dep R1) /\ rcols tr = rv_col R1.
Proof.
  intros [_ M]. destruct (rphase_ s) as [|p dl|p dl].
  - exists R, []. rewrite app_nil_r. cbn. split; [reflexivity|]. split; [lia|tauto].
  - destruct M as (R' & o & -> & _ & _ & _ & M). exists R', [o]. cbn. auto.
  - destruct M as (R' & o & -> & _ & _ & _ & M). exists R', [o]. cbn. auto.
Qed.

Lemma rv_dep_nth R k t p : nth_error (rv_dep R) k = Some (t, p) ->
  exists o, nth_error R k = Some o /\ w_dep o = t /\ w_pkt o = p.
Proof.
  unfold rv_dep. rewrite nth_error_map. destruct (nth_error R k) as [o|]; [|discriminate].
  cbn. intros H. injection H as <- <-. eauto.
Qed.

Lemma rchain_nth_step c : forall R C P U k o, rchain c C P U R -> nth_error R k = Some o ->
  exists C' P' U', rstep_ok c C' P' U' o /\ (k = 0%nat -> C' = C /\ P' = P /\ U' = U).
Proof.
  intros R C P U k o HC Hk. destruct (nth_error_split _ _ Hk) as (R1 & R2 & -> & Hlen).
  apply rchain_app_r in HC. cbn [rchain] in HC. destruct HC as [H0 _].
  exists (rlastC c C R1), (rlastP c P R1), (rlastU U R1). split; [exact H0|].
  intros ->. destruct R1; [auto|discriminate].
Qed.

(* ---- the colour rule ---- *)
Lemma tr_colour_iff c c1 p1 size :
  (tr_colour c c1 p1 size = Green <-> size <= c1 /\ (pk c <> None -> size <= p1)) /\
  (tr_colour c c1 p1 size = Yellow <-> c1 < size /\ (pk c <> None -> size <= p1)) /\
  (tr_colour c c1 p1 size = Red <-> pk c <> None /\ p1 < size).
Proof.
  unfold tr_colour. destruct (pk c) as [[pir pbs]|].
  - assert (NN : Some (pir, pbs) <> None) by discriminate.
    destruct (Qlt_le_dec p1 size) as [Hp|Hp]; [|destruct (Qlt_le_dec c1 size) as [Hc|Hc]].
    + split; [|split]; split.
      * discriminate.
      * intros [_ H]. specialize (H NN). lra.
      * discriminate.
      * intros [_ H]. specialize (H NN). lra.
      * intros _. split; [exact NN|exact Hp].
      * reflexivity.
    + split; [|split]; split.
      * discriminate.
      * intros [H _]. lra.
      * intros _. split; [exact Hc|intros _; exact Hp].
      * reflexivity.
      * discriminate.
      * intros [_ H]. lra.
    + split; [|split]; split.
      * intros _. split; [exact Hc|intros _; exact Hp].
      * reflexivity.
      * discriminate.
      * intros [H _]. lra.
      * discriminate.
      * intros [_ H]. lra.
  - destruct (Qlt_le_dec c1 size) as [Hc|Hc].
    + split; [|split]; split.
      * discriminate.
      * intros [H _]. lra.
      * intros _. split; [exact Hc|intros X; congruence].
      * reflexivity.
      * discriminate.
      * intros [H _]. congruence.
    + split; [|split]; split.
      * intros _. split; [exact Hc|intros X; congruence].
      * reflexivity.
      * discriminate.
      * intros [H _]. lra.
      * discriminate.
      * intros [H _]. congruence.
Qed.

(* the k-th departure: its colour is decided by the two bucket levels (c1, p1) found on arrival at the head,
   green iff all configured buckets cover it, yellow iff only the committed tokens are short, red iff the
   peak tokens are short; it leaves at the head instant unless it has to wait for the shaping bucket *)
Theorem trtb_colour_iff c t0 acts s tr :
  trwf c -> tr_run true true c (tr0 true c t0) acts = Some (s, tr) ->
  forall k t p, nth_error (rfwds tr) k = Some (t, p) ->
    exists col h c1 p1,
      nth_error (rcols tr) k = Some col /\
      (exists h', nth_error (rheads tr) k = Some (h', p) /\ h' == h) /\
      c1 <= cbs c /\
      (k = 0%nat -> c1 == refill (cbs c) (cir c) (cbs c) t0 h /\
                   forall pir pbs, pk c = Some (pir, pbs) -> p1 == refill pbs pir pbs t0 h) /\
      (col = Green <-> sz p <= c1 /\ (pk c <> None -> sz p <= p1)) /\
      (col = Yellow <-> c1 < sz p /\ (pk c <> None -> sz p <= p1)) /\
      (col = Red <-> pk c <> None /\ p1 < sz p) /\
      t == tr_dep c h c1 p1 (sz p) /\ h <= t /\
      (pk c <> None -> col <> Red -> t == h) /\ (col = Red -> h < t).
Proof.
  intros Hwf Hrun k t p Hk. pose proof Hwf as [Hc Hp].
  destruct (trtb_spec _ _ _ _ _ Hwf Hrun) as (R & HC & _ & HM).
  destruct (tr_matches_fwds _ _ _ HM) as (R1 & R2 & -> & _ & HD & HCol).
  destruct (tpe_nth _ _ HD _ _ _ Hk) as (T & Hk' & Et).
  destruct (rv_dep_nth _ _ _ _ Hk') as (o & Ho & <- & <-).
  pose proof (nth_error_app_l _ R2 _ _ Ho) as Ho'.
  destruct (rchain_nth_step _ _ _ _ _ _ _ HC Ho') as (C' & P' & U' & Hok & H0).
  destruct Hok as (K1 & K2 & K3 & K4 & K5).
  exists (w_col o), (w_head o), (w_c o), (w_p o).
  split; [rewrite HCol; unfold rv_col; rewrite nth_error_map, Ho; reflexivity|].
  split.
  { destruct HM as [HH _]. apply (tpe_nth_r _ _ HH k (w_head o) (w_pkt o)).
    unfold rv_head. rewrite nth_error_map, Ho'. reflexivity. }
  split; [rewrite K2; apply refill_le_B|].
  split.
  { intros E0. destruct (H0 E0) as (-> & -> & ->). split; [exact K2|].
    intros pir pbs E. rewrite E in K3. unfold tr_P0 in K3. rewrite E in K3. exact K3. }
  unfold wsize in *. rewrite K4.
  destruct (tr_colour_iff c (w_c o) (w_p o) (sz (w_pkt o))) as (G & Y & Rd).
  split; [exact G|]. split; [exact Y|]. split; [exact Rd|].
  split; [lra|].
  assert (Hge : w_head o <= w_dep o).
  { rewrite K5. unfold tr_dep. destruct (pk c) as [[pir pbs]|] eqn:E.
    - apply release_ge. eapply Hp; eauto.
    - apply release_ge. exact Hc. }
  split; [lra|]. split.
  - intros Hpk Hnr. rewrite Et, K5. unfold tr_dep. destruct (pk c) as [[pir pbs]|] eqn:E; [|congruence].
    apply release_nowait. destruct (Qlt_le_dec (w_p o) (sz (w_pkt o))) as [Hlt|Hle]; [|exact Hle].
    exfalso. apply Hnr. apply Rd. split; [discriminate|exact Hlt].
  - intros Hred. apply Rd in Hred as [Hpk Hlt]. rewrite Et, K5. unfold tr_dep.
    destruct (pk c) as [[pir pbs]|] eqn:E; [|congruence].
    rewrite (release_wait _ _ _ _ Hlt). pose proof (tokwait_pos pir _ _ (Hp _ _ eq_refl) Hlt). lra.
Qed.

(* ---------------------------------------------------------------------------------------------- *)
(* a generic token budget: items (weight taken, instant, tokens left), each paid out of what was left
   plus what arrived since at rate r                                                               *)
Definition bitem := (Q * Q * Q)%type.
Fixpoint bchain (r L U : Q) (l : list bitem) : Prop :=
  match l with
  | [] => True
  | (w, t, q) :: l' => w + q <= L + fill r (t - U) /\ 0 <= q /\ U <= t /\ bchain r q t l'
  end.
Definition wsum (l : list bitem) : Q := fold_right (fun x acc => fst (fst x) + acc) 0 l.

Lemma bchain_app_r r : forall l1 l2 L U, bchain r L U (l1 ++ l2) -> exists L' U', bchain r L' U' l2.
Proof.
  induction l1 as [|[[w t] q] l1 IH]; intros l2 L U H; cbn [app bchain] in H; [eauto|].
  destruct H as (_ & _ & _ & H). eapply IH; eauto.
Qed.

Lemma bchain_budget r : forall l L U j w t q,
  bchain r L U l -> nth_error l j = Some (w, t, q) ->
  wsum (firstn (S j) l) + q <= L + fill r (t - U) /\ U <= t.
Proof.
  induction l as [|[[w0 t0] q0] l IH]; intros L U j w t q HC Hj; [destruct j; discriminate|].
  cbn [bchain] in HC. destruct HC as (K & Kq & Kt & HC).
  destruct j as [|j]; cbn [nth_error] in Hj.
  - injection Hj as <- <- <-. change (wsum (firstn 1 ((w0, t0, q0) :: l))) with (w0 + 0). split; lra.
  - destruct (IH _ _ _ _ _ _ HC Hj) as [IH1 IH2].
    change (wsum (firstn (S (S j)) ((w0, t0, q0) :: l))) with (w0 + wsum (firstn (S j) l)).
    assert (E : fill r (t - U) == fill r (t0 - U) + fill r (t - t0)).
    { rewrite <- fill_add. apply fill_proper; [reflexivity|]. ring. }
    rewrite E. split; lra.
Qed.

Lemma bchain_window r l L U i j wi ti qi wj tj qj :
  bchain r L U l -> (i <= j)%nat -> nth_error l i = Some (wi, ti, qi) -> nth_error l j = Some (wj, tj, qj) ->
  wsum (slice i j l) <= wi + qi + fill r (tj - ti) /\ ti <= tj.
Proof.
  intros HC Hij Hi Hj.
  destruct (nth_error_split _ _ Hi) as (l1 & l2 & -> & Hlen).
  apply bchain_app_r in HC as (L' & U' & HC). cbn [bchain] in HC. destruct HC as (K & Kq & Kt & HC).
  unfold slice. rewrite skipn_app. replace (i - length l1)%nat with 0%nat by lia.
  rewrite skipn_all2 by lia. cbn [app skipn].
  destruct (Nat.eq_dec j i) as [->|Hne].
  - rewrite nth_error_app2 in Hj by lia. replace (i - length l1)%nat with 0%nat in Hj by lia.
    cbn in Hj. injection Hj as <- <- <-.
    replace (S i - i)%nat with 1%nat by lia. change (wsum (firstn 1 ((wi, ti, qi) :: l2))) with (wi + 0).
    assert (E : fill r (ti - ti) == 0) by (rewrite <- (fill_0 r); apply fill_proper; [reflexivity|ring]).
    rewrite E. split; lra.
  - rewrite nth_error_app2 in Hj by lia.
    destruct (j - length l1)%nat as [|m] eqn:Em; [lia|]. cbn [nth_error] in Hj.
    replace (S j - i)%nat with (S (S m)) by lia.
    change (wsum (firstn (S (S m)) ((wi, ti, qi) :: l2))) with (wi + wsum (firstn (S m) l2)).
    destruct (bchain_budget r _ _ _ _ _ _ _ HC Hj) as [Kb Kb2].
    assert (Hq : 0 <= qj).
    { destruct (nth_error_split _ _ Hj) as (la & lb & -> & _). apply bchain_app_r in HC as (L2 & U2 & HC2).
      cbn [bchain] in HC2. tauto. }
    split; lra.
Qed.

Definition qsum (l : list Q) : Q := fold_right Qplus 0 l.
Lemma wsum_map {A} (f g k : A -> Q) (l : list A) : wsum (map (fun o => (f o, g o, k o)) l) = qsum (map f l).
Proof.
  induction l as [|x l IH]; [reflexivity|].
  change (fst (fst (f x, g x, k x)) + wsum (map (fun o => (f o, g o, k o)) l) = f x + qsum (map f l)).
  rewrite IH. reflexivity.
Qed.
Lemma pbytes_qsum (l : list pkt) : pbytes l = qsum (map sz l).
Proof.
  induction l as [|x l IH]; [reflexivity|].
  change (sz x + pbytes l = sz x + qsum (map sz l)). rewrite IH. reflexivity.
Qed.

(* ---- conformance against the shaping bucket, and of the green traffic against (CIR, CBS) ---- *)
Section Budgets.
  Variable c : trcfg.
  Hypothesis Hc : 0 < cir c.
  Hypothesis Hp : forall pir pbs, pk c = Some (pir, pbs) -> 0 < pir.

  Lemma rstep_dep_ge C P U o : rstep_ok c C P U o -> U <= w_head o /\ w_head o <= w_dep o.
  Proof.
    intros (K1 & K2 & K3 & K4 & K5). split.
    - rewrite K1. apply Q.le_max_r.
    - rewrite K5. unfold tr_dep. destruct (pk c) as [[pir pbs]|] eqn:E; apply release_ge; eauto.
  Qed.

  (* what one service takes from the bucket it is shaped against *)
  Definition shape_rate : Q := match pk c with Some (pir, _) => pir | None => cir c end.
  Definition shape_size : Q := match pk c with Some (_, pbs) => pbs | None => cbs c end.
  Definition shape_left (o : rsvc) : Q := match pk c with Some _ => wpostP c o | None => wpostC c o end.
  Definition shape_item (o : rsvc) : bitem := (wsize o, w_dep o, shape_left o).
  Definition shape_L (C P : Q) : Q := match pk c with Some _ => P | None => C end.

  Lemma shape_rate_pos : 0 < shape_rate.
  Proof. unfold shape_rate. destruct (pk c) as [[pir pbs]|] eqn:E; eauto. Qed.

  Lemma wait_budget r L U h lvl size d :
    0 < r -> lvl <= L + fill r (h - U) -> d == release r h lvl size ->
    size + post lvl size <= L + fill r (d - U) /\ 0 <= post lvl size.
  Proof.
    intros Hr Hl Hd. split; [|apply post_nonneg].
    destruct (Qlt_le_dec lvl size) as [Hw|Hw].
    - rewrite (post_wait _ _ Hw). rewrite (release_wait _ _ _ _ Hw) in Hd.
      assert (E : fill r (d - U) == fill r (h - U) + (size - lvl)).
      { rewrite <- (fill_tokwait r size lvl Hr), <- fill_add. apply fill_proper; [reflexivity|]. rewrite Hd. ring. }
      rewrite E. lra.
    - rewrite (post_nowait _ _ Hw). rewrite (release_nowait _ _ _ _ Hw) in Hd.
      assert (E : fill r (d - U) == fill r (h - U)) by (apply fill_proper; [reflexivity|]; rewrite Hd; reflexivity).
      rewrite E. lra.
  Qed.

  Lemma shape_step C P U o : rstep_ok c C P U o ->
    wsize o + shape_left o <= shape_L C P + fill shape_rate (w_dep o - U) /\ 0 <= shape_left o /\ U <= w_dep o /\
    wsize o + shape_left o <= Qmax shape_size (wsize o).
  Proof.
    intros Hok. pose proof (rstep_dep_ge _ _ _ _ Hok) as [Hd1 Hd2]. destruct Hok as (K1 & K2 & K3 & K4 & K5).
    unfold shape_left, shape_L, shape_rate, shape_size, wpostP, wpostC, tr_postP, tr_postC, tr_dep in *.
    pose proof (Q.le_max_l) as Ml. pose proof (Q.le_max_r) as Mr.
    destruct (pk c) as [[pir pbs]|] eqn:E.
    - pose proof (refill_le_fill pbs pir P U (w_head o)) as Hf. rewrite <- K3 in Hf.
      pose proof (refill_le_B pbs pir P U (w_head o)) as Hb. rewrite <- K3 in Hb.
      destruct (wait_budget pir P U (w_head o) (w_p o) (wsize o) (w_dep o) (Hp _ _ eq_refl) Hf K5) as [W1 W2].
      split; [exact W1|]. split; [exact W2|]. split; [lra|].
      specialize (Ml pbs (wsize o)). specialize (Mr pbs (wsize o)).
      destruct (Qlt_le_dec (w_p o) (wsize o)) as [Hw|Hw]; [rewrite (post_wait _ _ Hw)|rewrite (post_nowait _ _ Hw)]; lra.
    - pose proof (refill_le_fill (cbs c) (cir c) C U (w_head o)) as Hf. rewrite <- K2 in Hf.
      pose proof (refill_le_B (cbs c) (cir c) C U (w_head o)) as Hb. rewrite <- K2 in Hb.
      destruct (wait_budget (cir c) C U (w_head o) (w_c o) (wsize o) (w_dep o) Hc Hf K5) as [W1 W2].
      split; [exact W1|]. split; [exact W2|]. split; [lra|].
      specialize (Ml (cbs c) (wsize o)). specialize (Mr (cbs c) (wsize o)).
      destruct (Qlt_le_dec (w_c o) (wsize o)) as [Hw|Hw]; [rewrite (post_wait _ _ Hw)|rewrite (post_nowait _ _ Hw)]; lra.
  Qed.

  Lemma shape_L_post o : shape_L (wpostC c o) (wpostP c o) = shape_left o.
  Proof. unfold shape_L, shape_left. destruct (pk c); reflexivity. Qed.

  Lemma shape_bchain : forall R C P U, rchain c C P U R -> bchain shape_rate (shape_L C P) U (map shape_item R).
  Proof.
    induction R as [|o R IH]; intros C P U HC; cbn [map bchain]; [exact I|].
    cbn [rchain] in HC. destruct HC as [H0 HC]. destruct (shape_step _ _ _ _ H0) as (S1 & S2 & S3 & _).
    unfold shape_item at 1. split; [exact S1|]. split; [exact S2|]. split; [exact S3|].
    rewrite <- shape_L_post. apply IH. exact HC.
  Qed.

  (* green bytes against the committed bucket *)
  Hypothesis Hcbs : 0 <= cbs c.

  Definition gsize (o : rsvc) : Q := match w_col o with Green => wsize o | _ => 0 end.
  Definition green_item (o : rsvc) : bitem := (gsize o, w_dep o, wpostC c o).

  Lemma refill_nonneg B r L U t : 0 < r -> 0 <= B -> 0 <= L -> U <= t -> 0 <= refill B r L U t.
  Proof.
    intros Hr HB HL Ht. unfold refill. pose proof (fill_nonneg r (t - U) Hr).
    destruct (Q.min_spec B (L + fill r (t - U))) as [[H1 E1]|[H1 E1]]; rewrite E1; lra.
  Qed.

  Lemma green_step C P U o : 0 <= C -> rstep_ok c C P U o ->
    gsize o + wpostC c o <= C + fill (cir c) (w_dep o - U) /\ 0 <= wpostC c o /\ U <= w_dep o /\
    gsize o + wpostC c o <= cbs c.
  Proof.
    intros HC0 Hok. pose proof (rstep_dep_ge _ _ _ _ Hok) as [Hd1 Hd2]. destruct Hok as (K1 & K2 & K3 & K4 & K5).
    pose proof (refill_le_fill (cbs c) (cir c) C U (w_head o)) as Hf. rewrite <- K2 in Hf.
    pose proof (refill_le_B (cbs c) (cir c) C U (w_head o)) as Hb. rewrite <- K2 in Hb.
    assert (Hc1 : 0 <= w_c o) by (rewrite K2; apply refill_nonneg; auto).
    assert (E : fill (cir c) (w_dep o - U) == fill (cir c) (w_head o - U) + fill (cir c) (w_dep o - w_head o)).
    { rewrite <- fill_add. apply fill_proper; [reflexivity|]. ring. }
    pose proof (fill_nonneg (cir c) (w_dep o - w_head o) Hc) as Hfn.
    unfold gsize, wpostC, tr_postC. rewrite K4. unfold tr_colour.
    destruct (pk c) as [[pir pbs]|] eqn:Epk.
    - destruct (Qlt_le_dec (w_p o) (wsize o)) as [Hr|Hr].
      + (* red *)
        pose proof (refill_le_fill (cbs c) (cir c) (w_c o) (w_head o) (w_dep o)) as Hf2.
        pose proof (refill_le_B (cbs c) (cir c) (w_c o) (w_head o) (w_dep o)) as Hb2.
        pose proof (refill_nonneg (cbs c) (cir c) (w_c o) (w_head o) (w_dep o) Hc Hcbs Hc1 Hd2) as Hn2.
        rewrite E. repeat split; lra.
      + destruct (Qlt_le_dec (w_c o) (wsize o)) as [Hy|Hy]; rewrite E; repeat split; lra.
    - unfold post. destruct (Qlt_le_dec (w_c o) (wsize o)) as [Hy|Hy]; rewrite E; repeat split; lra.
  Qed.

  Lemma green_bchain : forall R C P U, 0 <= C -> rchain c C P U R -> bchain (cir c) C U (map green_item R).
  Proof.
    induction R as [|o R IH]; intros C P U HC0 HC; cbn [map bchain]; [exact I|].
    cbn [rchain] in HC. destruct HC as [H0 HC]. destruct (green_step _ _ _ _ HC0 H0) as (S1 & S2 & S3 & _).
    unfold green_item at 1. split; [exact S1|]. split; [exact S2|]. split; [exact S3|].
    eapply IH; eauto.
  Qed.

  Lemma rchain_nonneg : forall R C P U o, 0 <= C -> rchain c C P U R -> In o R ->
    exists C' P' U', 0 <= C' /\ rstep_ok c C' P' U' o.
  Proof.
    induction R as [|o0 R IH]; intros C P U o HC0 HC Hin; [destruct Hin|].
    cbn [rchain] in HC. destruct HC as [H0 HC]. destruct Hin as [<-|Hin]; [eauto 6|].
    destruct (green_step _ _ _ _ HC0 H0) as (_ & S2 & _). eapply IH; eauto.
  Qed.
End Budgets.

(* ---- from traces to services ---- *)
Lemma map_snd_rv_dep R : map snd (rv_dep R) = map w_pkt R.
Proof. unfold rv_dep. rewrite map_map. reflexivity. Qed.
Lemma map_snd_rv_arr R : map snd (rv_arr R) = map w_pkt R.
Proof. unfold rv_arr. rewrite map_map. reflexivity. Qed.

Lemma bytes_slice_services tr R1 i j :
  tpe (rfwds tr) (rv_dep R1) -> bytes (slice i j (rfwds tr)) = qsum (map wsize (slice i j R1)).
Proof.
  intros HD. unfold bytes. rewrite <- slice_map, (tpe_pkts _ _ HD), map_snd_rv_dep, slice_map, pbytes_qsum, map_map.
  reflexivity.
Qed.

(* ---- trtb_shapes_against ---- *)
(* all departures conform to the shaping bucket: (PIR, PBS), or (CIR, CBS) when no PIR is given *)
Theorem trtb_shapes_against c t0 acts s tr :
  trwf c -> tr_run true true c (tr0 true c t0) acts = Some (s, tr) ->
  forall i j ti pi tj pj, (i <= j)%nat ->
    nth_error (rfwds tr) i = Some (ti, pi) -> nth_error (rfwds tr) j = Some (tj, pj) ->
    ti <= tj /\
    bytes (slice i j (rfwds tr)) <= Qmax (shape_size c) (sz pi) + fill (shape_rate c) (tj - ti).
Proof.
  intros Hwf Hrun i j ti pi tj pj Hij Hi Hj. pose proof Hwf as [Hc Hp].
  destruct (trtb_spec _ _ _ _ _ Hwf Hrun) as (R & HC & _ & HM).
  destruct (tr_matches_fwds _ _ _ HM) as (R1 & R2 & -> & _ & HD & _). apply rchain_app_l in HC.
  destruct (tpe_nth _ _ HD _ _ _ Hi) as (Ti & Hi' & Ei). destruct (tpe_nth _ _ HD _ _ _ Hj) as (Tj & Hj' & Ej).
  destruct (rv_dep_nth _ _ _ _ Hi') as (oi & Hoi & <- & <-). destruct (rv_dep_nth _ _ _ _ Hj') as (oj & Hoj & <- & <-).
  pose proof (shape_bchain c Hc Hp _ _ _ _ HC) as HB.
  assert (Hi2 : nth_error (map (shape_item c) R1) i = Some (shape_item c oi)) by (rewrite nth_error_map, Hoi; reflexivity).
  assert (Hj2 : nth_error (map (shape_item c) R1) j = Some (shape_item c oj)) by (rewrite nth_error_map, Hoj; reflexivity).
  destruct (bchain_window _ _ _ _ _ _ _ _ _ _ _ _ HB Hij Hi2 Hj2) as [W Wt].
  destruct (rchain_nth_step _ _ _ _ _ _ _ HC Hoi) as (C' & P' & U' & Hok & _).
  destruct (shape_step c Hc Hp _ _ _ _ Hok) as (_ & _ & _ & Hcap).
  split; [lra|].
  rewrite (bytes_slice_services _ _ _ _ HD).
  rewrite slice_map in W. unfold shape_item in W. rewrite wsum_map in W.
  assert (Ef : fill (shape_rate c) (tj - ti) == fill (shape_rate c) (w_dep oj - w_dep oi)).
  { apply fill_proper; [reflexivity|]. rewrite Ei, Ej. reflexivity. }
  rewrite Ef. unfold wsize in *. lra.
Qed.

(* ---- trtb_green_conforms ---- *)
(* green bytes among timed departures and their colours *)
Fixpoint gbytes (l : list (Q * pkt)) (cs : list colour) : Q :=
  match l, cs with
  | x :: l', Green :: cs' => sz (snd x) + gbytes l' cs'
  | _ :: l', _ :: cs' => gbytes l' cs'
  | _, _ => 0
  end.

Lemma gbytes_services : forall R l, map snd l = map w_pkt R -> gbytes l (map w_col R) == qsum (map gsize R).
Proof.
  induction R as [|o R IH]; intros l Hl; destruct l as [|x l]; try discriminate; [reflexivity|].
  cbn [map] in Hl. injection Hl as Hx Hl. specialize (IH _ Hl).
  change (qsum (map gsize (o :: R))) with (gsize o + qsum (map gsize R)).
  unfold gsize at 1, wsize. rewrite <- Hx. cbn [map gbytes]. destruct (w_col o); rewrite IH; lra.
Qed.

(* over any window of departures i..j the green bytes are within CBS + CIR * (t_j - t_i) / 8 *)
Theorem trtb_green_conforms c t0 acts s tr :
  trwf c -> 0 <= cbs c -> tr_run true true c (tr0 true c t0) acts = Some (s, tr) ->
  forall i j ti pi tj pj, (i <= j)%nat ->
    nth_error (rfwds tr) i = Some (ti, pi) -> nth_error (rfwds tr) j = Some (tj, pj) ->
    gbytes (slice i j (rfwds tr)) (slice i j (rcols tr)) <= cbs c + fill (cir c) (tj - ti).
Proof.
  intros Hwf Hcbs Hrun i j ti pi tj pj Hij Hi Hj. pose proof Hwf as [Hc Hp].
  destruct (trtb_spec _ _ _ _ _ Hwf Hrun) as (R & HC & _ & HM).
  destruct (tr_matches_fwds _ _ _ HM) as (R1 & R2 & -> & _ & HD & HCol). apply rchain_app_l in HC.
  destruct (tpe_nth _ _ HD _ _ _ Hi) as (Ti & Hi' & Ei). destruct (tpe_nth _ _ HD _ _ _ Hj) as (Tj & Hj' & Ej).
  destruct (rv_dep_nth _ _ _ _ Hi') as (oi & Hoi & <- & <-). destruct (rv_dep_nth _ _ _ _ Hj') as (oj & Hoj & <- & <-).
  pose proof (green_bchain c Hc Hp Hcbs _ _ _ _ Hcbs HC) as HB.
  assert (Hi2 : nth_error (map (green_item c) R1) i = Some (green_item c oi)) by (rewrite nth_error_map, Hoi; reflexivity).
  assert (Hj2 : nth_error (map (green_item c) R1) j = Some (green_item c oj)) by (rewrite nth_error_map, Hoj; reflexivity).
  destruct (bchain_window _ _ _ _ _ _ _ _ _ _ _ _ HB Hij Hi2 Hj2) as [W Wt].
  destruct (rchain_nonneg c Hc Hp Hcbs _ _ _ _ oi Hcbs HC (nth_error_In _ _ Hoi)) as (C' & P' & U' & HC0 & Hok).
  destruct (green_step c Hc Hp Hcbs _ _ _ _ HC0 Hok) as (_ & _ & _ & Hcap).
  assert (Eg : gbytes (slice i j (rfwds tr)) (slice i j (rcols tr)) == qsum (map gsize (slice i j R1))).
  { rewrite HCol. unfold rv_col. rewrite slice_map. apply gbytes_services.
    rewrite <- slice_map, (tpe_pkts _ _ HD), map_snd_rv_dep, slice_map. reflexivity. }
  rewrite Eg. rewrite slice_map in W. unfold green_item in W. rewrite wsum_map in W.
  assert (Ef : fill (cir c) (tj - ti) == fill (cir c) (w_dep oj - w_dep oi)).
  { apply fill_proper; [reflexivity|]. rewrite Ei, Ej. reflexivity. }
  rewrite Ef. lra.
Qed.

(* ---- conservation, FIFO, losslessness ---- *)
Definition tr_in_service (s : trtb) : list pkt :=
  match rphase_ s with RIdle => [] | RWaitPeak p _ => [p] | RWaitCommit p _ => [p] end.
Definition tr_held (s : trtb) : list pkt := tr_in_service s ++ map snd (sq_held (rq s)).

Theorem trtb_conserves c t0 acts s tr :
  trwf c -> tr_run true true c (tr0 true c t0) acts = Some (s, tr) ->
  map snd (rputs tr) = map snd (rfwds tr) ++ tr_held s.
Proof.
  intros [Hc Hp] Hrun. destruct (rreachable_inv c t0 Hc Hp _ _ _ Hrun) as [R HI].
  rewrite (rinv_fifo _ _ _ _ _ HI), map_app, map_snd_rv_arr.
  pose proof (rinv_phase _ _ _ _ _ HI) as P. unfold rphase_inv in P. unfold tr_held, tr_in_service.
  destruct (rphase_ s) as [|p dl|p dl].
  - destruct P as (P & _). rewrite (tpe_pkts _ _ P), map_snd_rv_dep. reflexivity.
  - destruct P as (_ & _ & _ & R' & o & pir & pbs & -> & _ & Po & _ & _ & _ & _ & _ & P & _).
    rewrite (tpe_pkts _ _ P), map_snd_rv_dep, map_app, <- app_assoc, <- Po. reflexivity.
  - destruct P as (_ & _ & _ & R' & o & -> & _ & Po & _ & _ & _ & _ & _ & P & _).
    rewrite (tpe_pkts _ _ P), map_snd_rv_dep, map_app, <- app_assoc, <- Po. reflexivity.
Qed.

Theorem trtb_fifo c t0 acts s tr :
  trwf c -> tr_run true true c (tr0 true c t0) acts = Some (s, tr) ->
  exists rest, map snd (rputs tr) = map snd (rfwds tr) ++ rest.
Proof. intros Hwf Hrun. exists (tr_held s). eapply trtb_conserves; eauto. Qed.

Theorem trtb_counters c t0 acts s tr :
  trwf c -> tr_run true true c (tr0 true c t0) acts = Some (s, tr) ->
  rrecv s = Z.of_nat (length (rputs tr)) /\ rsent s = Z.of_nat (length (rfwds tr)) /\
  length (rcols tr) = length (rfwds tr).
Proof.
  intros [Hc Hp] Hrun. destruct (rreachable_inv c t0 Hc Hp _ _ _ Hrun) as [R HI].
  split; [apply (rinv_recv _ _ _ _ _ HI)|]. split; [apply (rinv_sent _ _ _ _ _ HI)|].
  destruct (tr_matches_fwds _ _ _ (RInv_matches _ _ _ _ _ HI)) as (R1 & R2 & _ & _ & HD & HCol).
  rewrite HCol, (tpe_length _ _ HD). unfold rv_col, rv_dep. rewrite !map_length. reflexivity.
Qed.

Definition tr_quiescent (s : trtb) : Prop := tr_urgent s = false /\ rphase_ s = RIdle.

Lemma tr_quiescent_held_empty c t0 s tr R : RInv c t0 s tr R -> tr_quiescent s -> tr_held s = [].
Proof.
  intros HI [U Hp]. unfold tr_urgent in U. apply orb_false_iff in U as [U _]. apply orb_false_iff in U as [Us Uq].
  apply negb_false_iff in Us. pose proof (rinv_phase _ _ _ _ _ HI) as P. unfold rphase_inv, ridle_inv in P.
  rewrite Hp, Us in P. destruct P as (_ & _ & _ & _ & _ & _ & _ & Pg & _).
  unfold tr_held, tr_in_service. rewrite Hp. cbn [app].
  assert (G : get (rq s) = GWaiting).
  { pose proof (proj1 (sq_urgent_false _ _) Uq) as [_ Ug]. destruct (get (rq s)) as [| |x]; [contradiction|reflexivity|].
    exfalso. apply (Ug x). reflexivity. }
  rewrite (sq_waiting_quiet_held _ _ Uq (rinv_nostrand _ _ _ _ _ HI) G). reflexivity.
Qed.

Theorem trtb_lossless c t0 acts s tr :
  trwf c -> tr_run true true c (tr0 true c t0) acts = Some (s, tr) -> tr_quiescent s ->
  map snd (rfwds tr) = map snd (rputs tr).
Proof.
  intros Hwf Hrun HQ. pose proof Hwf as [Hc Hp]. destruct (rreachable_inv c t0 Hc Hp _ _ _ Hrun) as [R HI].
  rewrite (trtb_conserves _ _ _ _ _ Hwf Hrun), (tr_quiescent_held_empty _ _ _ _ _ HI HQ), app_nil_r. reflexivity.
Qed.

(* ---------------------------------------------------------------------------------------------- *)
(* the recurrence as a function of the arrivals (what the monitor of props/part_bucket.py computes) *)
Fixpoint tr_rec (c : trcfg) (C P U : Q) (arr : list (Q * pkt)) : list rsvc :=
  match arr with
  | [] => []
  | (a, p) :: rest =>
      let h := Qmax a U in
      let c1 := refill (cbs c) (cir c) C U h in
      let p1 := match pk c with Some (pir, pbs) => refill pbs pir P U h | None => P end in
      let o := {| w_pkt := p; w_arr := a; w_head := h; w_c := c1; w_p := p1;
                  w_dep := tr_dep c h c1 p1 (sz p); w_col := tr_colour c c1 p1 (sz p) |} in
      o :: tr_rec c (wpostC c o) (wpostP c o) (w_dep o) rest
  end.

Definition rec_cols (c : trcfg) (t0 : Q) (arr : list (Q * pkt)) : list colour :=
  map w_col (tr_rec c (cbs c) (tr_P0 c) t0 arr).
Definition rec_deps (c : trcfg) (t0 : Q) (arr : list (Q * pkt)) : list (Q * pkt) :=
  rv_dep (tr_rec c (cbs c) (tr_P0 c) t0 arr).

Lemma tr_colour_compat c c1 c1' p1 p1' size : c1 == c1' -> p1 == p1' -> tr_colour c c1 p1 size = tr_colour c c1' p1' size.
Proof.
  intros Ec Ep. unfold tr_colour. destruct (pk c).
  - destruct (Qlt_le_dec p1 size), (Qlt_le_dec p1' size); try lra; [reflexivity|].
    destruct (Qlt_le_dec c1 size), (Qlt_le_dec c1' size); try lra; reflexivity.
  - destruct (Qlt_le_dec c1 size), (Qlt_le_dec c1' size); try lra; reflexivity.
Qed.

Lemma tr_dep_compat c h h' c1 c1' p1 p1' size :
  h == h' -> c1 == c1' -> p1 == p1' -> tr_dep c h c1 p1 size == tr_dep c h' c1' p1' size.
Proof. intros Eh Ec Ep. unfold tr_dep. destruct (pk c) as [[pir pbs]|]; apply release_compat; assumption. Qed.

Lemma tr_postC_compat c h h' c1 c1' p1 p1' size d d' :
  h == h' -> c1 == c1' -> p1 == p1' -> d == d' -> tr_postC c h c1 p1 size d == tr_postC c h' c1' p1' size d'.
Proof.
  intros Eh Ec Ep Ed. unfold tr_postC. destruct (pk c).
  - destruct (Qlt_le_dec p1 size), (Qlt_le_dec p1' size); try lra; [apply refill_compat; assumption|].
    destruct (Qlt_le_dec c1 size), (Qlt_le_dec c1' size); lra.
  - apply post_compat. exact Ec.
Qed.

Lemma tr_postP_compat c p1 p1' size : p1 == p1' -> tr_postP c p1 size == tr_postP c p1' size.
Proof. intros Ep. unfold tr_postP. destruct (pk c); [apply post_compat|]; exact Ep. Qed.

(* a chain IS the recurrence on its own arrivals: same packets and colours, same instants and levels (==) *)
Definition rsvc_eq (o o' : rsvc) : Prop :=
  w_pkt o = w_pkt o' /\ w_arr o == w_arr o' /\ w_head o == w_head o' /\ w_c o == w_c o' /\ w_p o == w_p o' /\
  w_dep o == w_dep o' /\ w_col o = w_col o'.

Lemma rchain_rec c : forall R C P U C' P' U',
  rchain c C P U R -> C == C' -> P == P' -> U == U' -> Forall2 rsvc_eq R (tr_rec c C' P' U' (rv_arr R)).
Proof.
  induction R as [|o R IH]; intros C P U C' P' U' HC EC EP EU; cbn [rv_arr map tr_rec]; [constructor|].
  cbn [rchain] in HC. destruct HC as [(K1 & K2 & K3 & K4 & K5) HC].
  set (h' := Qmax (w_arr o) U'). set (c1' := refill (cbs c) (cir c) C' U' h').
  set (p1' := match pk c with Some (pir, pbs) => refill pbs pir P' U' h' | None => P' end).
  assert (Eh : w_head o == h') by (rewrite K1; apply Qmax_compat_r; exact EU).
  assert (Ec1 : w_c o == c1') by (rewrite K2; apply refill_compat; assumption).
  assert (Ep1 : w_p o == p1').
  { rewrite K3. unfold p1'. destruct (pk c) as [[pir pbs]|]; [apply refill_compat; assumption|exact EP]. }
  assert (Ed : w_dep o == tr_dep c h' c1' p1' (sz (w_pkt o))) by (rewrite K5; apply tr_dep_compat; assumption).
  constructor.
  - unfold rsvc_eq. cbn [w_pkt w_arr w_head w_c w_p w_dep w_col]. repeat split; try assumption; try reflexivity.
    rewrite K4. apply tr_colour_compat; assumption.
  - apply (IH _ _ _ _ _ _ HC); unfold wpostC, wpostP, wsize; cbn [w_pkt w_arr w_head w_c w_p w_dep w_col].
    + apply tr_postC_compat; assumption.
    + apply tr_postP_compat; assumption.
    + exact Ed.
Qed.

Lemma tr_rec_app c : forall l1 l2 C P U,
  exists C' P' U', tr_rec c C P U (l1 ++ l2) = tr_rec c C P U l1 ++ tr_rec c C' P' U' l2.
Proof.
  induction l1 as [|[a p] l1 IH]; intros l2 C P U; cbn [app tr_rec]; [eauto|].
  edestruct IH as (C' & P' & U' & E). exists C', P', U'. rewrite E. reflexivity.
Qed.

Lemma Forall2_rsvc_cols R R' : Forall2 rsvc_eq R R' -> map w_col R = map w_col R'.
Proof. induction 1 as [|o o' R R' (_ & _ & _ & _ & _ & _ & E) _ IH]; cbn; [reflexivity|]. rewrite E, IH. reflexivity. Qed.

Lemma Forall2_rsvc_deps R R' : Forall2 rsvc_eq R R' -> tpe (rv_dep R) (rv_dep R').
Proof.
  induction 1 as [|o o' R R' (E1 & _ & _ & _ & _ & E6 & _) _ IH]; cbn; [constructor|].
  constructor; [cbn; split; assumption|exact IH].
Qed.

Lemma Forall2_len {A B} (Rl : A -> B -> Prop) l l' : Forall2 Rl l l' -> length l = length l'.
Proof. induction 1; cbn; auto. Qed.

Lemma Forall2_trans_tpe l1 l2 l3 : tpe l1 l2 -> tpe l2 l3 -> tpe l1 l3.
Proof.
  intros H. revert l3. induction H as [|x y l l' [E1 E2] _ IH]; intros l3 H3; inversion H3; subst; constructor.
  - destruct H1 as [F1 F2]. split; [lra|congruence].
  - apply IH. assumption.
Qed.

(* the colours and departures observed are, in order, those the recurrence computes from the arrivals *)
Theorem trtb_is_recurrence c t0 acts s tr :
  trwf c -> tr_run true true c (tr0 true c t0) acts = Some (s, tr) ->
  exists n, rcols tr = firstn n (rec_cols c t0 (rputs tr)) /\ tpe (rfwds tr) (firstn n (rec_deps c t0 (rputs tr))) /\
            n = length (rfwds tr) /\ (tr_quiescent s -> n = length (rputs tr)).
Proof.
  intros Hwf Hrun. pose proof Hwf as [Hc Hp].
  destruct (rreachable_inv c t0 Hc Hp _ _ _ Hrun) as [R HI].
  pose proof (rinv_chain _ _ _ _ _ HI) as HC. pose proof (rinv_fifo _ _ _ _ _ HI) as Hf.
  destruct (tr_matches_fwds _ _ _ (RInv_matches _ _ _ _ _ HI)) as (R1 & R2 & -> & _ & HD & HCol).
  exists (length R1).
  pose proof (rchain_rec c _ _ _ _ _ _ _ (rchain_app_l _ _ _ _ _ _ HC) (Qeq_refl _) (Qeq_refl _) (Qeq_refl _)) as HF.
  assert (Erec : exists rest, tr_rec c (cbs c) (tr_P0 c) t0 (rputs tr) = tr_rec c (cbs c) (tr_P0 c) t0 (rv_arr R1) ++ rest).
  { rewrite Hf. unfold rv_arr at 1. rewrite map_app, <- app_assoc.
    destruct (tr_rec_app c (map (fun o => (w_arr o, w_pkt o)) R1)
                (map (fun o => (w_arr o, w_pkt o)) R2 ++ sq_held (rq s)) (cbs c) (tr_P0 c) t0) as (C' & P' & U' & E).
    rewrite E. eauto. }
  destruct Erec as [rest Erec].
  assert (Hlen : length (tr_rec c (cbs c) (tr_P0 c) t0 (rv_arr R1)) = length R1).
  { symmetry. eapply Forall2_len; eauto. }
  split; [|split; [|split]].
  - unfold rec_cols. rewrite Erec, map_app, firstn_app, map_length, Hlen, Nat.sub_diag. cbn [firstn].
    rewrite app_nil_r, firstn_all2 by (rewrite map_length; lia).
    rewrite HCol. apply Forall2_rsvc_cols. exact HF.
  - unfold rec_deps. unfold rv_dep. rewrite Erec, map_app, firstn_app, map_length, Hlen, Nat.sub_diag. cbn [firstn].
    rewrite app_nil_r, firstn_all2 by (rewrite map_length; lia).
    eapply Forall2_trans_tpe; [exact HD|exact (Forall2_rsvc_deps _ _ HF)].
  - rewrite (tpe_length _ _ HD). unfold rv_dep. rewrite map_length. reflexivity.
  - intros HQ. pose proof (tr_quiescent_held_empty _ _ _ _ _ HI HQ) as He.
    unfold tr_held in He. apply app_eq_nil in He as [He1 He2].
    rewrite Hf. unfold rv_arr. rewrite app_length, map_length, app_length.
    assert (length (sq_held (rq s)) = 0)%nat by (rewrite <- (map_length snd), He2; reflexivity).
    assert (length R2 = 0)%nat.
    { pose proof (rinv_phase _ _ _ _ _ HI) as P. unfold rphase_inv in P. destruct HQ as [_ HQ]. rewrite HQ in P.
      destruct P as (P & _). pose proof (tpe_length _ _ P) as L1. pose proof (tpe_length _ _ HD) as L2.
      unfold rv_dep in L1, L2. rewrite map_length in L1, L2. rewrite app_length in L1. lia. }
    lia.
Qed.

(* ---------------------------------------------------------------------------------------------- *)
(* the code as found, replayed inside Coq                                                          *)

Lemma trwf_pir cir0 cbs0 pir pbs : 0 < cir0 -> 0 < pir -> trwf {| cir := cir0; cbs := cbs0; pk := Some (pir, pbs) |}.
Proof. intros H1 H2. split; [exact H1|]. cbn. intros a b E. injection E as <- _. exact H2. Qed.

(* as found, a yellow packet emptied the committed bucket: CIR 1024 / CBS 256 / PIR 1024 / PBS 2048, 256-byte
   packets at 10, 11 and 25/2: the third is marked yellow although both buckets cover it *)
Definition ry_c : trcfg := {| cir := 1024; cbs := 256; pk := Some (1024, 2048) |}.
Definition ry_p (i : nat) : pkt := mkp i (Z.of_nat i + 1) 0 256 0.
Definition ry_acts : list raction :=
  [RInit; RAdvance 10; RPut (ry_p 0); RStoreCb; RGet; RAdvance 11; RPut (ry_p 1); RStoreCb; RGet;
   RAdvance (25 # 2); RPut (ry_p 2); RStoreCb; RGet].

Theorem trtb_yellow_refuted_before_fix :
  exists c t0 acts s tr, trwf c /\ tr_run false true c (tr0 true c t0) acts = Some (s, tr) /\ tr_quiescent s /\
    rcols tr = [Green; Yellow; Yellow] /\ rec_cols c t0 (rputs tr) = [Green; Yellow; Green].
Proof.
  exists ry_c, 0, ry_acts. eexists. eexists.
  split; [apply trwf_pir; reflexivity|]. split; [vm_compute; reflexivity|].
  split; [split; vm_compute; reflexivity|]. split; vm_compute; reflexivity.
Qed.

(* as found, the committed bucket lost the tokens of a red packet's wait: CIR 4096 / CBS 2048 / PIR 16384 /
   PBS 2048, burst 100, 100, 1500, 1500 at 2 (the last one red, waiting 9/16 s), then 1500 at 19/4: marked
   yellow (1468 committed tokens) instead of green (1756) *)
Definition rr_c : trcfg := {| cir := 4096; cbs := 2048; pk := Some (16384, 2048) |}.
Definition rr_p (i : nat) (size : Z) : pkt := mkp i (Z.of_nat i + 1) 0 size 0.
Definition rr_acts : list raction :=
  [RInit; RAdvance 2; RPut (rr_p 0 100); RPut (rr_p 1 100); RPut (rr_p 2 1500); RPut (rr_p 3 1500);
   RStoreCb; RStoreCb; RStoreCb; RStoreCb; RGet; RGet; RGet; RGet; RAdvance (41 # 16); RTimer;
   RAdvance (19 # 4); RPut (rr_p 4 1500); RStoreCb; RGet].

Theorem trtb_red_refuted_before_fix :
  exists c t0 acts s tr, trwf c /\ tr_run true false c (tr0 true c t0) acts = Some (s, tr) /\ tr_quiescent s /\
    rcols tr = [Green; Green; Green; Red; Yellow] /\ rec_cols c t0 (rputs tr) = [Green; Green; Green; Red; Green].
Proof.
  exists rr_c, 0, rr_acts. eexists. eexists.
  split; [apply trwf_pir; reflexivity|]. split; [vm_compute; reflexivity|].
  split; [split; vm_compute; reflexivity|]. split; vm_compute; reflexivity.
Qed.

(* as found, update_time started at 0.0: with a negative initial time the full buckets are drained by the
   first refill and the first packet, which both buckets cover, waits *)
Theorem trtb_initially_full_refuted_before_fix :
  exists c t0 acts s tr p, trwf c /\ tr_run true true c (tr0 false c t0) acts = Some (s, tr) /\
    rputs tr = [(-1 # 2, p)] /\ sz p <= cbs c /\ sz p <= tr_P0 c /\ rfwds tr = [(-7 # 64, p)] /\ rcols tr = [Red].
Proof.
  exists {| cir := 1024; cbs := 100; pk := Some (2048, 128) |}, (-2),
         [RInit; RAdvance (-1 # 2); RPut (mkp 2 3 0 100 (3 # 2)); RStoreCb; RGet; RAdvance (-7 # 64); RTimer].
  eexists. eexists. exists (mkp 2 3 0 100 (3 # 2)).
  split; [apply trwf_pir; reflexivity|]. split; [vm_compute; reflexivity|].
  split; [vm_compute; reflexivity|]. split; [vm_compute; discriminate|]. split; [vm_compute; discriminate|].
  split; vm_compute; reflexivity.
Qed.

(* ---------------------------------------------------------------------------------------------- *)
(* non-vacuity: CIR 1024 (128 B/s) / CBS 256 / PIR 2048 (256 B/s) / PBS 512; three 256-byte packets at 0:
   green (both buckets cover it), yellow (committed bucket empty, peak bucket covers it), red (peak bucket
   empty: waits 256/256 = 1 s); a 128-byte packet at 2 finds 256 committed and 256 peak tokens: green *)
Definition rx_c : trcfg := {| cir := 1024; cbs := 256; pk := Some (2048, 512) |}.
Definition rx_p (i : nat) (size : Z) : pkt := mkp i (Z.of_nat i + 1) 0 size 0.
Definition rx_acts : list raction :=
  [RInit; RPut (rx_p 0 256); RPut (rx_p 1 256); RPut (rx_p 2 256); RStoreCb; RStoreCb; RStoreCb; RGet; RGet; RGet;
   RAdvance 1; RTimer; RAdvance 2; RPut (rx_p 3 128); RStoreCb; RGet].

Example trtb_example :
  exists s tr, tr_run true true rx_c (tr0 true rx_c 0) rx_acts = Some (s, tr) /\
    rcols tr = [Green; Yellow; Red; Green] /\
    rfwds tr = [(0, rx_p 0 256); (0, rx_p 1 256); (1, rx_p 2 256); (2, rx_p 3 128)] /\
    rec_cols rx_c 0 (rputs tr) = [Green; Yellow; Red; Green] /\
    tr_quiescent s /\ trwf rx_c /\ 0 <= cbs rx_c.
Proof.
  eexists. eexists. split; [vm_compute; reflexivity|].
  split; [vm_compute; reflexivity|]. split; [vm_compute; reflexivity|]. split; [vm_compute; reflexivity|].
  split; [split; vm_compute; reflexivity|]. split; [apply trwf_pir; reflexivity|]. vm_compute. discriminate.
Qed.

(* ---------------------------------------------------------------------------------------------- *)
(* C08 share: per-flow order, and "drained"                                                        *)

Theorem trtb_flow_fifo c t0 acts s tr :
  trwf c -> tr_run true true c (tr0 true c t0) acts = Some (s, tr) ->
  forall f, exists rest, of_flow f (map snd (rputs tr)) = of_flow f (map snd (rfwds tr)) ++ rest.
Proof.
  intros Hwf Hrun f. rewrite (trtb_conserves _ _ _ _ _ Hwf Hrun). unfold of_flow. rewrite filter_app. eauto.
Qed.

Lemma tr_no_internal_step_quiet c t0 s tr R :
  RInv c t0 s tr R -> rphase_ s = RIdle ->
  (forall a, (forall p, a <> RPut p) -> (forall t, a <> RAdvance t) -> tr_act true true c s a = None) ->
  tr_urgent s = false.
Proof.
  intros HI Hph Hno. pose proof (rinv_phase _ _ _ _ _ HI) as P. unfold rphase_inv, ridle_inv in P.
  rewrite Hph in P. destruct P as (_ & _ & _ & _ & _ & P).
  assert (Hs : rstarted s = true).
  { destruct (rstarted s) eqn:Es; [reflexivity|]. exfalso. destruct P as (Pg & _ & _).
    assert (H : tr_act true true c s RInit = None) by (apply Hno; intros; discriminate).
    cbn [tr_act] in H. rewrite Es in H.
    destruct (sq_get_enabled _ fifo_pop _ Pg) as [q Hq]. rewrite Hq in H. discriminate. }
  rewrite Hs in P. destruct P as (_ & _ & Pg & _).
  assert (Hp : pend (rq s) = 0%nat).
  { destruct (pend (rq s)) as [|n] eqn:Ep; [reflexivity|]. exfalso.
    assert (H : tr_act true true c s RStoreCb = None) by (apply Hno; intros; discriminate).
    cbn [tr_act] in H. destruct (proj1 (sq_cb_enabled _ fifo_pop (rq s))) as [q Hq]; [lia|].
    rewrite Hq in H. discriminate. }
  assert (Hg : forall x, get (rq s) <> GGranted x).
  { intros [a0 p] Gx.
    assert (H : tr_act true true c s RGet = None) by (apply Hno; intros; discriminate).
    unfold tr_act in H. rewrite Hph in H. destruct (sq_take_enabled _ _ _ Gx) as [q Hq]. rewrite Hq in H.
    rewrite Hs in H. cbn [negb] in H.
    pose proof (sq_take_inv _ _ _ _ Hq) as (_ & _ & _ & Gn).
    destruct (sq_get_enabled _ fifo_pop _ Gn) as [q' Hq'].
    unfold tr_forward in H. cbn [rq] in H. rewrite Hq' in H.
    destruct (pk c) as [[pir pbs]|].
    - destruct (Qlt_le_dec _ _); [discriminate|]. destruct (Qlt_le_dec _ _); discriminate.
    - destruct (Qlt_le_dec _ _); discriminate. }
  unfold tr_urgent, tr_due. rewrite Hs, Hph. cbn [negb orb]. rewrite orb_false_r.
  apply sq_urgent_false. split; assumption.
Qed.

Theorem trtb_drained c t0 acts s tr :
  trwf c -> tr_run true true c (tr0 true c t0) acts = Some (s, tr) ->
  rphase_ s = RIdle ->
  (forall a, (forall p, a <> RPut p) -> (forall t, a <> RAdvance t) -> tr_act true true c s a = None) ->
  tr_held s = [] /\ map snd (rfwds tr) = map snd (rputs tr).
Proof.
  intros Hwf Hrun Hph Hno. pose proof Hwf as [Hc Hp]. destruct (rreachable_inv c t0 Hc Hp _ _ _ Hrun) as [R HI].
  assert (HQ : tr_quiescent s) by (split; [eapply tr_no_internal_step_quiet; eauto|exact Hph]).
  split; [eapply tr_quiescent_held_empty; eauto|eapply trtb_lossless; eauto].
Qed.

(* while a packet waits for tokens its timeout is pending and, when due, the server's step is enabled *)
Theorem trtb_timer_enabled c t0 acts s tr :
  trwf c -> tr_run true true c (tr0 true c t0) acts = Some (s, tr) ->
  forall p dl, rphase_ s = RWaitPeak p dl \/ rphase_ s = RWaitCommit p dl ->
    rnow s <= dl /\ (dl == rnow s -> exists s' o, tr_act true true c s RTimer = Some (s', o)).
Proof.
  intros Hwf Hrun p dl Hph. pose proof Hwf as [Hc Hp]. destruct (rreachable_inv c t0 Hc Hp _ _ _ Hrun) as [R HI].
  pose proof (rinv_phase _ _ _ _ _ HI) as P. unfold rphase_inv in P.
  destruct Hph as [Hph|Hph]; rewrite Hph in P; destruct P as (Ps & Pg & Pn & _); (split; [exact Pn|]); intros Ed;
    unfold tr_act; rewrite Hph; apply Qeq_bool_iff in Ed; rewrite Ed;
    destruct (sq_get_enabled _ fifo_pop _ Pg) as [q' Hq']; unfold tr_forward; cbn [rq]; rewrite Hq'; eauto.
Qed.
