(* Model of onl/scheduler/drr.py : DRR (as repaired by the fix: commit "DRR files packets and counts backlog
   per class") on top of the parts of onl/scheduler/base.py it uses (Scheduler.send_packet,
   add_packet_to_queue, total_packets, the packets_available token Store).  Standalone and executable;
   proofs are in DRRProofs.v.  All global names carry a d/D prefix: case files import several scheduler models.

   Actions (what the harness observes of the real execution, one per kernel step or put() call):
     DPut p           drr.put(p) called by the upstream element
     DInit            Initialize of run(): the server enters `while True`
     DStoreCb w       a StorePut event of the token store (w = None) / of stores[c] (w = Some c) is processed
     DGetDone w       the granted StoreGet of the token store / of stores[c] is processed: run() resumes
     DChildInit       Initialize of send_packet(p): current_packet := p, the transmission timeout starts
     DChildTimer      the transmission timeout: per-flow counters decremented, p forwarded, current_packet := None
     DChildEnd        the Process event of the child: run() resumes after `yield env.process(...)`,
                      class_count -= 1, the credit is debited (and forgotten if the class is now empty)
     DAdvance t       the clock moves to t (only when nothing is due at the current instant)

   Between two yields run() executes without the kernel; that stretch is computed by [dinner]/[dscan]/[dpasses].
   A pass of the `for` that sends nothing (every backlogged class has an unaffordable parked head) does not
   yield, so [dpasses] carries fuel; running out of fuel is an explicit failure (None) which
   DRRProofs.drr_progress shows unreachable.

   Besides the forwarded packets an action emits the internal events of run() in program order
   (DOPass, DOQuantum, DOSkip, DOSend, DOPark, DOEnd, DODebit): the visit rule of C15 is stated on them.
   Only DOForward is visible from outside; the correspondence compares it and, after every action, the
   public fields of the object. *)
From Coq Require Import ZArith QArith Qminmax List Bool.
From ONL Require Import Elem.Packet Elem.StoreQ.
Import ListNotations.

Record dcfg := {
  drate : Q;                         (* rate, bit/s *)
  dweights : list (Z * Z);           (* weights: (class id, weight) in declaration order *)
  df2c : Z -> Z                      (* flow2class *)
}.

Definition dclasses (c : dcfg) : list Z := map fst (dweights c).
Definition dmemZ (x : Z) (l : list Z) : bool := existsb (Z.eqb x) l.

(* flow2class given by a finite table, identity elsewhere *)
Definition dtbl (t : list (Z * Z)) (f : Z) : Z :=
  match find (fun x => Z.eqb (fst x) f) t with Some x => snd x | None => f end.

Definition dminw (l : list (Z * Z)) : Z :=
  match l with
  | [] => 1%Z
  | x :: t => fold_right (fun y m => Z.min (snd y) m) (snd x) t
  end.

Definition dweight (c : dcfg) (k : Z) : Z :=
  match find (fun x => Z.eqb (fst x) k) (dweights c) with Some x => snd x | None => 0%Z end.

(* self.quantum[class_id] = MIN_QUANTUM * weight / min_weight *)
Definition dquantum (c : dcfg) (k : Z) : Q :=
  Qred (inject_Z (1500 * dweight c k)%Z / inject_Z (dminw (dweights c))).

(* packet.size * 8.0 / self.rate *)
Definition dtx_time (c : dcfg) (p : pkt) : Q := inject_Z (psize p * 8)%Z / drate c.

Inductive dchild :=
| DCNone
| DCStart (p : pkt)                  (* env.process(send_packet(p)) created, its Initialize pending *)
| DCTx (p : pkt) (dl : Q)            (* transmitting, timeout due at dl *)
| DCDone (p : pkt).                  (* send_packet returned, its Process event pending *)

Inductive dctl :=
| DKFresh                            (* Initialize of run() pending *)
| DKTok                              (* in `yield self.packets_available.get()` *)
| DKGet (c : Z) (rest : list Z)      (* visiting class c, in `yield store.get()`; rest = classes still to visit in this pass *)
| DKChild (c : Z) (rest : list Z).   (* visiting class c, in `yield env.process(self.send_packet(packet))` *)

Record drr := {
  dnow : Q;
  dtok : sq unit;                    (* packets_available *)
  dst : Z -> sq pkt;                 (* stores[class]; an absent key is the empty store *)
  dqcnt : Z -> Z;                    (* queue_count[flow] *)
  dqbytes : Z -> Z;                  (* queue_byte_size[flow] *)
  dtotal : Z;                        (* total_packets = sum(queue_count.values()) *)
  dccnt : Z -> Z;                    (* class_count[class] *)
  ddef : Z -> Q;                     (* deficit[class] *)
  dhol : Z -> option pkt;            (* head_of_line *)
  dcur : option pkt;                 (* current_packet *)
  dnrecv : Z;                        (* packets_received *)
  dlmax : Z;                         (* largest packet size put in so far (not a field of the object) *)
  dchd : dchild;
  dctrl : dctl
}.

Definition dupd {A : Type} (m : Z -> A) (k : Z) (v : A) : Z -> A := fun g => if Z.eqb g k then v else m g.

Definition drr0 (t0 : Q) : drr :=
  {| dnow := t0; dtok := sq0; dst := fun _ => sq0; dqcnt := fun _ => 0%Z; dqbytes := fun _ => 0%Z; dtotal := 0%Z;
     dccnt := fun _ => 0%Z; ddef := fun _ => 0; dhol := fun _ => None; dcur := None; dnrecv := 0%Z; dlmax := 0%Z;
     dchd := DCNone; dctrl := DKFresh |}.

Inductive daction :=
| DPut (p : pkt) | DInit | DStoreCb (w : option Z) | DGetDone (w : option Z)
| DChildInit | DChildTimer | DChildEnd | DAdvance (t : Q).

Inductive dout :=
| DOForward (p : pkt)                (* out.put(p) *)
| DOPass                             (* a pass of the `for` over the classes begins *)
| DOQuantum (c : Z)                  (* visit of c: class_count[c] > 0, deficit[c] += quantum[c] *)
| DOSkip (c : Z)                     (* visit of c: class_count[c] = 0, no quantum *)
| DOSend (c : Z) (p : pkt)           (* head p is affordable: send_packet(p) spawned *)
| DOPark (c : Z) (p : pkt)           (* head p is not affordable: parked in head_of_line, visit ends *)
| DOEnd (c : Z)                      (* the inner while of the visit of c falls through: credit used up or class empty *)
| DODebit (c : Z) (p : pkt) (reset : bool).   (* after the transmission of p: class_count[c] -= 1, deficit[c] -= size;
                                                reset = the class is now empty and deficit[c] := 0 *)

(* ---- field updates ------------------------------------------------------------------------------ *)
Definition dset_ctl (d : drr) (k : dctl) : drr :=
  {| dnow := dnow d; dtok := dtok d; dst := dst d; dqcnt := dqcnt d; dqbytes := dqbytes d; dtotal := dtotal d;
     dccnt := dccnt d; ddef := ddef d; dhol := dhol d; dcur := dcur d; dnrecv := dnrecv d; dlmax := dlmax d;
     dchd := dchd d; dctrl := k |}.

Definition dset_tok (d : drr) (q : sq unit) : drr :=
  {| dnow := dnow d; dtok := q; dst := dst d; dqcnt := dqcnt d; dqbytes := dqbytes d; dtotal := dtotal d;
     dccnt := dccnt d; ddef := ddef d; dhol := dhol d; dcur := dcur d; dnrecv := dnrecv d; dlmax := dlmax d;
     dchd := dchd d; dctrl := dctrl d |}.

Definition dset_st (d : drr) (c : Z) (q : sq pkt) : drr :=
  {| dnow := dnow d; dtok := dtok d; dst := dupd (dst d) c q; dqcnt := dqcnt d; dqbytes := dqbytes d; dtotal := dtotal d;
     dccnt := dccnt d; ddef := ddef d; dhol := dhol d; dcur := dcur d; dnrecv := dnrecv d; dlmax := dlmax d;
     dchd := dchd d; dctrl := dctrl d |}.

Definition dset_def (d : drr) (c : Z) (v : Q) : drr :=
  {| dnow := dnow d; dtok := dtok d; dst := dst d; dqcnt := dqcnt d; dqbytes := dqbytes d; dtotal := dtotal d;
     dccnt := dccnt d; ddef := dupd (ddef d) c v; dhol := dhol d; dcur := dcur d; dnrecv := dnrecv d; dlmax := dlmax d;
     dchd := dchd d; dctrl := dctrl d |}.

Definition dset_hol (d : drr) (c : Z) (h : option pkt) : drr :=
  {| dnow := dnow d; dtok := dtok d; dst := dst d; dqcnt := dqcnt d; dqbytes := dqbytes d; dtotal := dtotal d;
     dccnt := dccnt d; ddef := ddef d; dhol := dupd (dhol d) c h; dcur := dcur d; dnrecv := dnrecv d; dlmax := dlmax d;
     dchd := dchd d; dctrl := dctrl d |}.

(* ---- run() between two yields ---------------------------------------------------------------------- *)
Inductive dres :=
| DYield (d : drr) (ev : list dout)      (* run() reached a yield *)
| DFall (d : drr) (ev : list dout)       (* the construct fell through (end of inner while / of the for) *)
| DErr.

(* run() holds packet p of class c (taken from head_of_line or received from the store) *)
Definition dtry_head (c : Z) (rest : list Z) (d : drr) (p : pkt) : dres :=
  if Qle_bool (inject_Z (psize p)) (ddef d c) then
    (* self.current_packet = packet; yield env.process(self.send_packet(packet)) *)
    DYield {| dnow := dnow d; dtok := dtok d; dst := dst d; dqcnt := dqcnt d; dqbytes := dqbytes d; dtotal := dtotal d;
              dccnt := dccnt d; ddef := ddef d; dhol := dupd (dhol d) c None; dcur := Some p; dnrecv := dnrecv d;
              dlmax := dlmax d; dchd := DCStart p; dctrl := DKChild c rest |} [DOSend c p]
  else
    (* self.head_of_line[class_id] = packet; break *)
    DFall (dset_hol d c (Some p)) [DOPark c p].

(* `while self.deficit[c] > 0 and self.class_count[c] > 0:` -- one iteration always ends in a yield or a break *)
Definition dinner (c : Z) (rest : list Z) (d : drr) : dres :=
  if negb (Qle_bool (ddef d c) 0) && (0 <? dccnt d c)%Z then
    match dhol d c with
    | Some p => dtry_head c rest d p             (* del self.head_of_line[class_id] *)
    | None =>
        match sq_get fifo_pop (dst d c) with
        | Some q => DYield (dset_ctl (dset_st d c q) (DKGet c rest)) []
        | None => DErr
        end
    end
  else DFall d [DOEnd c].

(* the visit of class c begins: `if self.class_count[c] > 0: self.deficit[c] += self.quantum[c]` *)
Definition dvisit_start (cfg : dcfg) (c : Z) (d : drr) : drr * list dout :=
  if (0 <? dccnt d c)%Z then (dset_def d c (Qred (ddef d c + dquantum cfg c)), [DOQuantum c])
  else (d, [DOSkip c]).

(* the rest of the `for class_id in self.quantum:` *)
Fixpoint dscan (cfg : dcfg) (cs : list Z) (d : drr) : dres :=
  match cs with
  | [] => DFall d []
  | c :: rest =>
      let (d1, e1) := dvisit_start cfg c d in
      match dinner c rest d1 with
      | DYield d2 e2 => DYield d2 (e1 ++ e2)
      | DFall d2 e2 =>
          match dscan cfg rest d2 with
          | DYield d3 e3 => DYield d3 (e1 ++ e2 ++ e3)
          | DFall d3 e3 => DFall d3 (e1 ++ e2 ++ e3)
          | DErr => DErr
          end
      | DErr => DErr
      end
  end.

(* `while True: while self.total_packets > 0: <for>` then `if self.total_packets == 0: yield packets_available.get()` *)
Fixpoint dpasses (fuel : nat) (cfg : dcfg) (d : drr) : option (drr * list dout) :=
  if (0 <? dtotal d)%Z then
    match fuel with
    | O => None
    | S n =>
        match dscan cfg (dclasses cfg) d with
        | DYield d' e => Some (d', DOPass :: e)
        | DFall d' e =>
            match dpasses n cfg d' with
            | Some (d'', e') => Some (d'', DOPass :: e ++ e')
            | None => None
            end
        | DErr => None
        end
    end
  else
    match sq_get fifo_pop (dtok d) with
    | Some q => Some (dset_ctl (dset_tok d q) DKTok, [])
    | None => None
    end.

(* consecutive passes without a yield each add at least 1500 to the credit of a class whose parked head (<= dlmax)
   stays unaffordable *)
Definition dfuel (d : drr) : nat := S (S (Z.to_nat (dlmax d / 1024)%Z)).

(* run() continues after something fell through inside the visit of a class: rest of the for, then the outer loops *)
Definition dcontinue (cfg : dcfg) (rest : list Z) (r : dres) : option (drr * list dout) :=
  match r with
  | DYield d e => Some (d, e)
  | DFall d e =>
      match dscan cfg rest d with
      | DYield d' e' => Some (d', e ++ e')
      | DFall d' e' =>
          match dpasses (dfuel d') cfg d' with
          | Some (d'', e'') => Some (d'', e ++ e' ++ e'')
          | None => None
          end
      | DErr => None
      end
  | DErr => None
  end.

(* run() resumes after the transmission of p (class c): class_count[c] -= 1; deficit[c] -= size;
   if class_count[c] == 0: deficit[c] = 0.0 *)
Definition ddebit_reset (d : drr) (c : Z) : bool := (dccnt d c - 1 =? 0)%Z.
Definition ddebit (d : drr) (c : Z) (rest : list Z) (p : pkt) : drr :=
  {| dnow := dnow d; dtok := dtok d; dst := dst d; dqcnt := dqcnt d; dqbytes := dqbytes d; dtotal := dtotal d;
     dccnt := dupd (dccnt d) c (dccnt d c - 1)%Z;
     ddef := dupd (ddef d) c (if ddebit_reset d c then 0 else Qred (ddef d c - inject_Z (psize p)));
     dhol := dhol d; dcur := dcur d; dnrecv := dnrecv d; dlmax := dlmax d;
     dchd := DCNone; dctrl := DKChild c rest |}.

(* ---- urgency -------------------------------------------------------------------------------------------- *)
Definition dchild_urgent (d : drr) : bool :=
  match dchd d with
  | DCNone => false
  | DCStart _ => true
  | DCTx _ dl => Qeq_bool dl (dnow d)
  | DCDone _ => true
  end.

Definition dctl_fresh (d : drr) : bool := match dctrl d with DKFresh => true | _ => false end.

Definition durgent (cfg : dcfg) (d : drr) : bool :=
  dctl_fresh d || dchild_urgent d || sq_urgent (dtok d) || existsb (fun c => sq_urgent (dst d c)) (dclasses cfg).

(* ---- the automaton ---------------------------------------------------------------------------------------- *)
Definition drr_act (cfg : dcfg) (d : drr) (a : daction) : option (drr * list dout) :=
  match a with
  | DPut p =>
      let c := df2c cfg (flow p) in
      if dmemZ c (dclasses cfg) && (0 <? psize p)%Z then
        let f := flow p in
        Some ({| dnow := dnow d;
                 dtok := if (dtotal d =? 0)%Z then sq_put fifo_push (dnow d) tt (dtok d) else dtok d;
                 dst := dupd (dst d) c (sq_put fifo_push (dnow d) p (dst d c));
                 dqcnt := dupd (dqcnt d) f (dqcnt d f + 1)%Z;
                 dqbytes := dupd (dqbytes d) f (dqbytes d f + psize p)%Z;
                 dtotal := (dtotal d + 1)%Z;
                 dccnt := dupd (dccnt d) c (dccnt d c + 1)%Z;
                 ddef := ddef d; dhol := dhol d; dcur := dcur d; dnrecv := (dnrecv d + 1)%Z;
                 dlmax := Z.max (dlmax d) (psize p);
                 dchd := dchd d; dctrl := dctrl d |}, [])
      else None                                  (* class_count[class_id] raises KeyError: unconfigured class *)
  | DInit =>
      match dctrl d with
      | DKFresh => dpasses (dfuel d) cfg d
      | _ => None
      end
  | DStoreCb None =>
      match sq_cb fifo_pop (dtok d) with Some q => Some (dset_tok d q, []) | None => None end
  | DStoreCb (Some c) =>
      if dmemZ c (dclasses cfg) then
        match sq_cb fifo_pop (dst d c) with Some q => Some (dset_st d c q, []) | None => None end
      else None
  | DGetDone None =>
      match dctrl d, sq_take (dtok d) with
      | DKTok, Some (_, q) => let d1 := dset_tok d q in dpasses (dfuel d1) cfg d1
      | _, _ => None
      end
  | DGetDone (Some c) =>
      match dctrl d with
      | DKGet c' rest =>
          if Z.eqb c c' then
            match sq_take (dst d c) with
            | Some ((_, p), q) => dcontinue cfg rest (dtry_head c rest (dset_st d c q) p)
            | None => None
            end
          else None
      | _ => None
      end
  | DChildInit =>
      match dchd d with
      | DCStart p =>
          Some ({| dnow := dnow d; dtok := dtok d; dst := dst d; dqcnt := dqcnt d; dqbytes := dqbytes d; dtotal := dtotal d;
                   dccnt := dccnt d; ddef := ddef d; dhol := dhol d; dcur := Some p; dnrecv := dnrecv d; dlmax := dlmax d;
                   dchd := DCTx p (Qred (dnow d + dtx_time cfg p)); dctrl := dctrl d |}, [])
      | _ => None
      end
  | DChildTimer =>
      match dchd d with
      | DCTx p dl =>
          if Qeq_bool dl (dnow d) then
            let f := flow p in
            Some ({| dnow := dnow d; dtok := dtok d; dst := dst d;
                     dqcnt := dupd (dqcnt d) f (dqcnt d f - 1)%Z;
                     dqbytes := dupd (dqbytes d) f (dqbytes d f - psize p)%Z;
                     dtotal := (dtotal d - 1)%Z;
                     dccnt := dccnt d; ddef := ddef d; dhol := dhol d; dcur := None; dnrecv := dnrecv d; dlmax := dlmax d;
                     dchd := DCDone p; dctrl := dctrl d |}, [DOForward p])
          else None
      | _ => None
      end
  | DChildEnd =>
      match dchd d, dctrl d with
      | DCDone p, DKChild c rest =>
          match dcontinue cfg rest (dinner c rest (ddebit d c rest p)) with
          | Some (d2, e2) => Some (d2, DODebit c p (ddebit_reset d c) :: e2)
          | None => None
          end
      | _, _ => None
      end
  | DAdvance t =>
      if durgent cfg d then None
      else if Qlt_le_dec (dnow d) t then
        let d' := {| dnow := t; dtok := dtok d; dst := dst d; dqcnt := dqcnt d; dqbytes := dqbytes d; dtotal := dtotal d;
                     dccnt := dccnt d; ddef := ddef d; dhol := dhol d; dcur := dcur d; dnrecv := dnrecv d; dlmax := dlmax d;
                     dchd := dchd d; dctrl := dctrl d |} in
        match dchd d with
        | DCTx _ dl => if Qle_bool t dl then Some (d', []) else None
        | _ => Some (d', [])
        end
      else None
  end.

(* an execution: every action must be enabled; the trace pairs each action with the instant at which it happened
   and with what it emitted *)
Definition dtev := (Q * daction * list dout)%type.

Fixpoint drr_run (cfg : dcfg) (d : drr) (acts : list daction) : option (drr * list dtev) :=
  match acts with
  | [] => Some (d, [])
  | a :: rest =>
      match drr_act cfg d a with
      | None => None
      | Some (d', outs) =>
          match drr_run cfg d' rest with
          | None => None
          | Some (d'', tr) => Some (d'', (dnow d', a, outs) :: tr)
          end
      end
  end.

(* index of the first action that is not admissible (diagnosis), or None *)
Fixpoint drr_stuck (cfg : dcfg) (d : drr) (acts : list daction) (i : nat) : option nat :=
  match acts with
  | [] => None
  | a :: rest =>
      match drr_act cfg d a with
      | None => Some i
      | Some (d', _) => drr_stuck cfg d' rest (S i)
      end
  end.

(* ---- comparison with an observed execution (correspondence) ---------------------------------------------------- *)
Definition dforwards (l : list dout) : list pkt :=
  flat_map (fun o => match o with DOForward p => [p] | _ => [] end) l.

Fixpoint dpkts_eqb (a b : list pkt) : bool :=
  match a, b with
  | [], [] => true
  | x :: s, y :: t => pkt_eqb x y && dpkts_eqb s t
  | _, _ => false
  end.

Definition dopt_uid_eqb (a : option pkt) (b : option nat) : bool :=
  match a, b with
  | None, None => true
  | Some p, Some u => Nat.eqb (uid p) u
  | _, _ => false
  end.

(* the public fields sampled after every action *)
Record dobs := mkdobs {
  o_def : list (Z * Q);                (* deficit[c] per class *)
  o_flows : list (Z * (Z * Z));        (* (flow, (queue_count, queue_byte_size)) per configured flow *)
  o_hol : list (Z * option nat);       (* uid parked in head_of_line[c] *)
  o_cur : option nat;                  (* uid of current_packet *)
  o_len : list (Z * nat);              (* len(stores[c].items) *)
  o_tok : nat;                         (* len(packets_available.items) *)
  o_recv : Z;                          (* packets_received *)
  o_total : Z;                         (* total_packets *)
  o_fwd : option (list (Z * (Z * Z)) * Z * list (Z * Z))
                                       (* what the next hop reads inside its put() at the moment the packet is handed on:
                                          (flow, (queue_count, queue_byte_size)) per flow, total_packets, class_count per class *)
}.

(* the counters a next hop sees while out.put(p) runs are those of the state after the transmission-end action: the
   departing packet is already released from queue_count / queue_byte_size / total_packets (class_count follows when
   run() resumes) *)
Definition dfwd_ok (d : drr) (o : dobs) : bool :=
  match o_fwd o with
  | None => true
  | Some (fl, tot, cc) =>
      forallb (fun x => Z.eqb (dqcnt d (fst x)) (fst (snd x)) && Z.eqb (dqbytes d (fst x)) (snd (snd x))) fl
      && Z.eqb (dtotal d) tot && forallb (fun x => Z.eqb (dccnt d (fst x)) (snd x)) cc
  end.

Definition dobs_ok (d : drr) (o : dobs) : bool :=
  forallb (fun x => Qeq_bool (ddef d (fst x)) (snd x)) (o_def o)
  && forallb (fun x => Z.eqb (dqcnt d (fst x)) (fst (snd x)) && Z.eqb (dqbytes d (fst x)) (snd (snd x))) (o_flows o)
  && forallb (fun x => dopt_uid_eqb (dhol d (fst x)) (snd x)) (o_hol o)
  && dopt_uid_eqb (dcur d) (o_cur o)
  && forallb (fun x => Nat.eqb (length (items (dst d (fst x)))) (snd x)) (o_len o)
  && Nat.eqb (length (items (dtok d))) (o_tok o)
  && Z.eqb (dnrecv d) (o_recv o) && Z.eqb (dtotal d) (o_total o) && dfwd_ok d o.

Fixpoint drr_agree (cfg : dcfg) (d : drr) (l : list (daction * list pkt * dobs)) : bool :=
  match l with
  | [] => true
  | (a, outs, o) :: rest =>
      match drr_act cfg d a with
      | None => false
      | Some (d', outs') => dpkts_eqb (dforwards outs') outs && dobs_ok d' o && drr_agree cfg d' rest
      end
  end.

(* diagnosis: index of the first observed action on which model and implementation differ, with the reason *)
Fixpoint drr_diff (cfg : dcfg) (d : drr) (l : list (daction * list pkt * dobs)) (i : nat) : option (nat * nat) :=
  match l with
  | [] => None
  | (a, outs, o) :: rest =>
      match drr_act cfg d a with
      | None => Some (i, 0%nat)
      | Some (d', outs') =>
          if negb (dpkts_eqb (dforwards outs') outs) then Some (i, 1%nat)
          else if negb (dobs_ok d' o) then Some (i, 2%nat)
          else drr_diff cfg d' rest (S i)
      end
  end.

(* the observed quantum table: quantum[c] for every configured class *)
Definition dquantum_ok (cfg : dcfg) (l : list (Z * Q)) : bool :=
  Nat.eqb (length l) (length (dclasses cfg))
  && forallb (fun x => dmemZ (fst x) (dclasses cfg) && Qeq_bool (dquantum cfg (fst x)) (snd x)) l.
