(* Model of onl/scheduler/wrr.py (WRR) over Elem/SchedBase.v: one pass visits the weight table in declaration
   (dict insertion) order; `for _ in range(weight)`: a class sends up to `weight` packets per visit and the visit ends
   as soon as its queue_count is 0.  range(w) is empty for w <= 0 (Z.to_nat). *)
From Coq Require Import ZArith QArith List Bool.
From ONL Require Import Elem.Packet Elem.StoreQ Elem.SchedBase.
Import ListNotations.

Definition wrr_slot (x : Z * Z) : Z * nat := (fst x, Z.to_nat (snd x)).

Definition wrr_cfg (r : Q) (ws : list (Z * Z)) : mq_cfg :=
  {| rate := r; pass := map wrr_slot ws; by_count := true; brk := false;
     cls := fun f => f; sflows := nodup Z.eq_dec (map fst ws) |}.

Definition wrr_act (r : Q) (ws : list (Z * Z)) := mq_act (wrr_cfg r ws).
Definition wrr_run (r : Q) (ws : list (Z * Z)) (acts : list saction) := mq_run (wrr_cfg r ws) (mq0 (wrr_cfg r ws)) acts.
