(* Bridging lemmas for the GENERATOR body Wire.run (second tie, generator bodies: vlib/translate_gen.py).
   Gen/Extracted_wire_run.v is regenerated from the tree under test on every run: Wire.run cut at its yields into
     gen_Wire_run_from_0   entry                                  -> first `yield self.store.get()`
     gen_Wire_run_from_1   resumed with a packet after the get    -> loss draw (only when loss_rate is truthy), delay draw
                           (only for a kept packet), `yield env.timeout(delay - queued_time)` | deliver | lose, loop
     gen_Wire_run_from_2   resumed after the propagation timeout  -> deliver, loop to the get
   each returning the effects in program order (FxUniform = random.uniform(0, 1) consumed, FxDelayDist = delay_dist()
   consumed, FxOutPut = self.out.put(packet)) and the next request with its program point.  Wire.run writes no field.
   Here requests / effects get their meaning in the hand-written automaton (Elem/Wire.v) and the micro-steps WInit /
   WGet u d / WTimer are proved to be EXACTLY the generated functions, for all states, loss rates and draws; the draws an
   admissible WGet carries are exactly the draws the code consumes. *)
From Coq Require Import ZArith QArith Qminmax List Bool Lqa.
From ONL Require Import Elem.Packet Elem.StoreQ Elem.Wire Gen.Extracted_wire_run.
Import ListNotations.

Definition set_hold (w : wire) (h : option (pkt * Q)) : wire :=
  {| wnow := wnow w; wq := wq w; started := started w; hold := h; nrec := nrec w |}.
Definition set_started (w : wire) : wire :=
  {| wnow := wnow w; wq := wq w; started := true; hold := hold w; nrec := nrec w |}.

(* self.out.put(packet) delivers THE packet the process holds; the draws are not outputs *)
Definition wire_run_out (po : option pkt) (e : wire_run_fx) : option (list wout) :=
  match e, po with
  | FxOutPut, Some p => Some [ODeliver p]
  | FxOutPut, None => None
  | _, _ => Some []
  end.

Fixpoint wire_run_outs (po : option pkt) (fx : list wire_run_fx) : option (list wout) :=
  match fx with
  | [] => Some []
  | e :: t => match wire_run_out po e, wire_run_outs po t with
              | Some o, Some r => Some (o ++ r)
              | _, _ => None
              end
  end.

(* the next request at its program point:
     `packet = yield self.store.get()` (point 1)   nothing propagating; the get is issued to the store; a packet the
                                                   process held and did not hand to out.put is LOST (ghost output)
     `yield env.timeout(d)` (point 2)               the held packet propagates until now + d; the automaton keeps that
                                                   deadline in its own form now + dcanon (dcanon = delay - (now -
                                                   current_time)): d must equal (==) dcanon
   exit, raise (the failed `assert self.out`), a request at the wrong point: no counterpart in the automaton *)
Definition wire_run_step (w : wire) (po : option pkt) (dcanon : Q) (g : list wire_run_fx * wire_run_next)
  : option (wire * list wout) :=
  match g with
  | (fx, n) =>
      match wire_run_outs po fx with
      | None => None
      | Some outs =>
          match n, po with
          | NxYield RqStoreGet PP1, _ =>
              match server_get (set_hold w None) with
              | Some w2 => Some (w2, match po, outs with Some p, [] => [OLost p] | _, _ => outs end)
              | None => None
              end
          | NxYield (RqTimeout d) PP2, Some p =>
              if Qeq_bool d dcanon then Some (set_hold w (Some (p, wnow w + dcanon)), outs) else None
          | _, _ => None
          end
      end
  end.

(* which draws the code consumed, read off its effects *)
Definition consumed (c : wire_run_fx -> bool) (fx : list wire_run_fx) (v : Q) : option Q :=
  if existsb c fx then Some v else None.
Definition is_uniform (e : wire_run_fx) : bool := match e with FxUniform => true | _ => false end.
Definition is_delay (e : wire_run_fx) : bool := match e with FxDelayDist => true | _ => false end.

(* the generated functions on the abstract state: self.loss_rate = loss, env.now = wnow, entry[0] (the stamp of the store entry) = the instant
   the packet was filed in the store under (Wire.put files it so: C10_gen_wire_put), self.out set (assumption of C10) *)
Definition wire_gen_init (loss : option Q) (w : wire) (ct : Q) (dbg out_set : bool) (u dd : Q) :=
  gen_Wire_run_from_0 loss (wnow w) ct dbg out_set u dd.
Definition wire_gen_get (loss : option Q) (w : wire) (ct : Q) (dbg : bool) (u dd : Q) :=
  gen_Wire_run_from_1 loss (wnow w) ct dbg true u dd.
Definition wire_gen_timer (loss : option Q) (w : wire) (ct : Q) (dbg : bool) (u dd : Q) :=
  gen_Wire_run_from_2 loss (wnow w) ct dbg true u dd.

Ltac qb :=
  repeat match goal with
         | H : Qle_bool _ _ = true |- _ => apply Qle_bool_iff in H
         | H : Qle_bool ?a ?b = false |- _ =>
             assert (~ a <= b) by (let K := fresh in intro K; apply Qle_bool_iff in K; congruence); clear H
         end.

(* ---- WInit = from_0 -------------------------------------------------------------------------------------------- *)
Lemma bridge_wire_run_init : forall (loss : option Q) (w : wire) (ct : Q) (dbg out_set : bool) (u dd : Q),
  hold w = None ->
  wire_act loss w WInit =
    (if started w then None else wire_run_step (set_started w) None 0 (wire_gen_init loss w ct dbg out_set u dd)).
Proof.
  intros loss w ct dbg out_set u dd Hh. destruct w as [nw q st h nr]; cbn in Hh; subst h.
  unfold wire_gen_init, gen_Wire_run_from_0, wire_run_step, set_started, set_hold; cbn.
  destruct st; [reflexivity|]. unfold server_get; cbn. destruct (sq_get fifo_pop q); reflexivity.
Qed.

(* ---- WGet u d = from_1, with exactly the draws the code consumes -------------------------------------------- *)
Ltac cbnq := cbn -[Qplus Qminus Qmult Qdiv Qopp Qinv Qle_bool Qeq_bool Qlt_le_dec].
Ltac delay_ok :=
  repeat match goal with
         | |- context [Qeq_bool ?a ?b] =>
             replace (Qeq_bool a b) with true by (symmetry; apply Qeq_bool_iff; ring)
         end.
Ltac cases_q :=
  repeat (cbnq; match goal with
                | |- context [Qlt_le_dec ?a ?b] => destruct (Qlt_le_dec a b)
                | |- context [Qle_bool ?a ?b] => let E := fresh "E" in destruct (Qle_bool a b) eqn:E
                | |- context [Qeq_bool ?a 0] => let E := fresh "E" in destruct (Qeq_bool a 0) eqn:E
                | |- context [sq_get fifo_pop ?q] => destruct (sq_get fifo_pop q)
                end).

Lemma bridge_wire_run_get : forall (loss : option Q) (w : wire) (a0 : Q) (p : pkt) (q : sq pkt) (dbg : bool) (u dd : Q),
  hold w = None -> sq_take (wq w) = Some ((a0, p), q) -> started w = true ->
  let g := wire_gen_get loss w a0 dbg u dd in
  wire_act loss w (WGet (consumed is_uniform (fst g) u) (consumed is_delay (fst g) dd)) =
    wire_run_step (with_q w q) (Some p) (dd - (wnow w - a0)) g.
Proof.
  intros loss w a0 p q dbg u dd Hh Ht Hs. destruct w as [nw q0 st h nr]; cbn in Hh, Ht, Hs; subst h st.
  unfold wire_gen_get, gen_Wire_run_from_1. cbn [wire_act hold wq started wnow negb]. rewrite Ht. cbn [negb].
  unfold lost_dec, loss_on, consumed, wire_run_step, with_q, set_hold, server_get.
  destruct loss as [r|]; cases_q; qb; try (exfalso; lra); delay_ok; reflexivity.
Qed.

(* a WGet the automaton admits carries exactly the draws the code consumes (taking the carried values as the draws) *)
Lemma bridge_wire_run_get_draws : forall (loss : option Q) (w : wire) (a0 : Q) (p : pkt) (q : sq pkt) (dbg : bool)
    (uo do : option Q) (r : wire * list wout),
  hold w = None -> sq_take (wq w) = Some ((a0, p), q) -> started w = true ->
  wire_act loss w (WGet uo do) = Some r ->
  let u := match uo with Some x => x | None => 0 end in
  let dd := match do with Some x => x | None => 0 end in
  let g := wire_gen_get loss w a0 dbg u dd in
  uo = consumed is_uniform (fst g) u /\ do = consumed is_delay (fst g) dd.
Proof.
  intros loss w a0 p q dbg uo do r Hh Ht Hs. destruct w as [nw q0 st h nr]; cbn in Hh, Ht, Hs; subst h st.
  unfold wire_gen_get, gen_Wire_run_from_1. cbn [wire_act hold wq started wnow negb]. rewrite Ht. cbn [negb].
  unfold lost_dec, loss_on, consumed.
  destruct loss as [rt|]; [destruct (Qeq_bool rt 0) eqn:Er|]; cbn [negb];
    destruct uo as [u|], do as [dd|]; cbn; try discriminate;
    try (destruct (Qle_bool rt u) eqn:Eu; cbn; try discriminate);
    try (destruct (Qle_bool dd (nw - a0)); cbn); intros _; split; reflexivity.
Qed.

(* ---- WTimer = from_2 ---------------------------------------------------------------------------------------- *)
Lemma bridge_wire_run_timer : forall (loss : option Q) (w : wire) (ct : Q) (dbg : bool) (u dd : Q),
  wire_act loss w WTimer =
    match hold w with
    | Some (p, dl) => if Qeq_bool dl (wnow w) then wire_run_step w (Some p) 0 (wire_gen_timer loss w ct dbg u dd) else None
    | None => None
    end.
Proof.
  intros loss w ct dbg u dd. destruct w as [nw q st h nr]. cbn [wire_act hold wnow].
  destruct h as [[p dl]|]; [|reflexivity]. destruct (Qeq_bool dl nw); [|reflexivity].
  unfold wire_gen_timer, gen_Wire_run_from_2, wire_run_step, set_hold, server_get; cbn.
  destruct (sq_get fifo_pop q); reflexivity.
Qed.

(* ---- the effects and the next request, explicitly ---------------------------------------------------------------
   program order: the loss draw (iff loss_rate is truthy) BEFORE the delay draw (iff the packet is kept: draw >= rate)
   BEFORE out.put (iff the packet already waited its delay in the store); otherwise a timeout of
   delay - (now - current_time) *)
Definition wire_waits (w : wire) (a0 dd : Q) (n : wire_run_next) : Prop :=
  exists d, n = NxYield (RqTimeout d) PP2 /\ d == dd - (wnow w - a0).

Lemma wire_run_get_explicit : forall (loss : option Q) (w : wire) (a0 : Q) (dbg : bool) (u dd : Q),
  let g := wire_gen_get loss w a0 dbg u dd in
  match loss_on loss with
  | Some r =>
      if Qle_bool r u
      then (if Qlt_le_dec (wnow w - a0) dd
            then fst g = [FxUniform; FxDelayDist] /\ wire_waits w a0 dd (snd g)
            else g = ([FxUniform; FxDelayDist; FxOutPut], NxYield RqStoreGet PP1))
      else g = ([FxUniform], NxYield RqStoreGet PP1)
  | None =>
      if Qlt_le_dec (wnow w - a0) dd
      then fst g = [FxDelayDist] /\ wire_waits w a0 dd (snd g)
      else g = ([FxDelayDist; FxOutPut], NxYield RqStoreGet PP1)
  end.
Proof.
  intros loss w a0 dbg u dd. unfold wire_gen_get, gen_Wire_run_from_1, loss_on, wire_waits.
  destruct loss as [r|]; [destruct (Qeq_bool r 0); cbn [negb]; [|destruct (Qle_bool r u)]|];
    try reflexivity;
    destruct (Qlt_le_dec (wnow w - a0) dd) as [Hd|Hd];
    destruct (Qle_bool dd (wnow w - a0)) eqn:Ed; qb; try (exfalso; lra); cbn;
    try reflexivity; (split; [reflexivity|]); eexists; (split; [reflexivity|]); ring.
Qed.

Lemma wire_run_timer_explicit : forall (loss : option Q) (w : wire) (ct : Q) (dbg : bool) (u dd : Q),
  wire_gen_timer loss w ct dbg u dd = ([FxOutPut], NxYield RqStoreGet PP1).
Proof. reflexivity. Qed.
