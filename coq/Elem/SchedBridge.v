(* Bridging lemmas (DESIGN 2.6, second tie) for the multi-queue schedulers: Scheduler.add_packet_to_queue,
   MultiQueueScheduler.put (RR, WRR: the class of a flow is the flow), SP.put (class = flow2class(flow)) and the per-flow
   sampling statements of Monitor.run, as translated from the tree under test on every run (Gen/Extracted_mq.v,
   Gen/Extracted_schedmon.v), are the SPut step and the per-flow sample of the SSample step of the hand-written
   automaton (Elem/SchedBase.v) the C12 / C13 / C15 / C08 theorems about SP, RR, WRR are stated on.
   mtotal (= sum of queue_count) is the model's reading of self.total_packets. *)
From Coq Require Import ZArith QArith List Bool Lia.
From ONL Require Import Elem.Packet Elem.StoreQ Elem.SchedBase.
From ONL Require Import Gen.Extracted_mq.
Import ListNotations.

Definition mq_fields (s : mq) : mq_st :=
  {| m_packets_received := mrecv s; m_queue_count := mqc s; m_queue_byte_size := mqb s |}.

(* the generated fields written back; one more packet is counted *)
Definition mq_with_fields (s : mq) (f : mq_st) : mq :=
  {| mnow := mnow s; mstores := mstores s; mtok := mtok s; mqc := m_queue_count f; mqb := m_queue_byte_size f;
     mtotal := (mtotal s + 1)%Z; mcur := mcur s; mrecv := m_packets_received f; mchild := mchild s; mpc := mpc s |}.

Definition mq_fx_apply (p : pkt) (s : mq) (e : mq_fx) : mq :=
  match e with
  | FxToken => with_tok s (sq_put fifo_push (mnow s) tt (mtok s))                  (* packets_available.put(True) *)
  | FxStorePut k => with_store s k (sq_put fifo_push (mnow s) p (mstores s k))      (* stores[k].put(packet) *)
  end.

Definition sp_gen_put (c : mq_cfg) (s : mq) (p : pkt) :=
  gen_SP_put (mq_fields s) (flow p) (psize p) (cls c (flow p)) (mtotal s).
Definition mqs_gen_put (c : mq_cfg) (s : mq) (p : pkt) :=
  gen_MultiQueueScheduler_put (mq_fields s) (flow p) (psize p) (cls c (flow p)) (mtotal s).
Definition mq_gen_add (s : mq) (p : pkt) := gen_Scheduler_add_packet_to_queue (mq_fields s) (flow p) (psize p).

Ltac norm := rewrite ?(Z.add_comm 1), ?(Z.eqb_sym 0).    (* `1 + x`, `0 == x` as the model writes them *)

Lemma bridge_add_packet_to_queue s p :
  let g := mq_gen_add s p in
  m_packets_received (fst g) = (mrecv s + 1)%Z /\
  m_queue_count (fst g) = upd (mqc s) (flow p) (mqc s (flow p) + 1)%Z /\
  m_queue_byte_size (fst g) = upd (mqb s) (flow p) (mqb s (flow p) + psize p)%Z /\ snd g = [].
Proof. unfold mq_gen_add, gen_Scheduler_add_packet_to_queue, mq_fields; cbn -[Z.add]; norm. repeat split; reflexivity. Qed.

Lemma bridge_sp_put c s p :
  memZ (cls c (flow p)) (classes c) && Z.leb 0 (psize p) = true ->
  let g := sp_gen_put c s p in
  mq_act c s (SPut p) = Some (fold_left (mq_fx_apply p) (snd g) (mq_with_fields s (fst g)), []) /\
  snd g = (if (mtotal s =? 0)%Z then [FxToken] else []) ++ [FxStorePut (cls c (flow p))].
Proof.
  intros Hadm. unfold sp_gen_put, gen_SP_put, mq_act. rewrite Hadm.
  unfold mq_fields, mq_with_fields; cbn -[Z.eqb Z.add]. norm.
  destruct (Z.eqb_spec (mtotal s) 0); cbn -[Z.eqb Z.add]; split; reflexivity.
Qed.

Lemma bridge_mqs_put c s p :
  cls c (flow p) = flow p ->
  memZ (cls c (flow p)) (classes c) && Z.leb 0 (psize p) = true ->
  let g := mqs_gen_put c s p in
  mq_act c s (SPut p) = Some (fold_left (mq_fx_apply p) (snd g) (mq_with_fields s (fst g)), []) /\
  snd g = (if (mtotal s =? 0)%Z then [FxToken] else []) ++ [FxStorePut (flow p)].
Proof.
  intros Hid Hadm. unfold mqs_gen_put, gen_MultiQueueScheduler_put, mq_act. rewrite Hadm, Hid.
  unfold mq_fields, mq_with_fields; cbn -[Z.eqb Z.add]. norm.
  destruct (Z.eqb_spec (mtotal s) 0); cbn -[Z.eqb Z.add]; split; reflexivity.
Qed.
