(* Lemmas shared by the adapters of elements that keep one queue per class (DRR; the multi-queue schedulers have their own
   copy in AdaptSched.v): from "per class, puts = forwards ++ held" to one multiset equation. *)
From Coq Require Import ZArith QArith List Bool Permutation Lia.
From ONL Require Import Elem.Packet.
Import ListNotations.

Lemma Qc_eq_dec (a b : Q) : {a = b} + {a <> b}.
Proof. decide equality; [apply Pos.eq_dec|apply Z.eq_dec]. Qed.
Lemma pk_eq_dec (a b : pkt) : {a = b} + {a <> b}.
Proof. decide equality; auto using Qc_eq_dec, Z.eq_dec, Nat.eq_dec. Qed.

Lemma count_filter_key (key : pkt -> Z) p l :
  count_occ pk_eq_dec (filter (fun q => Z.eqb (key q) (key p)) l) p = count_occ pk_eq_dec l p.
Proof.
  induction l as [|x t IH]; cbn; [reflexivity|].
  destruct (pk_eq_dec x p) as [->|N].
  - rewrite Z.eqb_refl. cbn. destruct (pk_eq_dec p p); [|contradiction]. rewrite IH. reflexivity.
  - destruct (Z.eqb (key x) (key p)); [cbn; destruct (pk_eq_dec x p); [contradiction|]|]; exact IH.
Qed.

Lemma count_flat_map_key {K} (g : K -> list pkt) (p : pkt) (k0 : K) (dec : forall a b : K, {a = b} + {a <> b}) :
  (forall k, In p (g k) -> k = k0) -> forall ks, NoDup ks ->
  count_occ pk_eq_dec (flat_map g ks) p = if in_dec dec k0 ks then count_occ pk_eq_dec (g k0) p else 0%nat.
Proof.
  intros Hu. induction ks as [|k ks IH]; intros ND; [reflexivity|].
  inversion ND as [|? ? Nk NDr]; subst. cbn [flat_map]. rewrite count_occ_app, (IH NDr).
  destruct (dec k k0) as [->|Ne].
  - destruct (in_dec dec k0 (k0 :: ks)) as [_|N]; [|exfalso; apply N; left; reflexivity].
    destruct (in_dec dec k0 ks) as [I|_]; [contradiction|]. lia.
  - assert (Z0 : count_occ pk_eq_dec (g k) p = 0%nat).
    { apply count_occ_not_In. intros I. apply Ne. apply Hu. exact I. }
    rewrite Z0. destruct (in_dec dec k0 ks) as [I|N]; destruct (in_dec dec k0 (k :: ks)) as [I'|N']; try reflexivity.
    + exfalso. apply N'. right. exact I.
    + exfalso. destruct I' as [E|I']; [apply Ne; exact E|contradiction].
Qed.

(* P = packets put, F = forwarded, H k = held in the queue of class k *)
Lemma class_partition_perm (key : pkt -> Z) (ks : list Z) (P F : list pkt) (H : Z -> list pkt) :
  NoDup ks ->
  (forall k, filter (fun p => Z.eqb (key p) k) P = filter (fun p => Z.eqb (key p) k) F ++ H k) ->
  (forall p, In p P -> In (key p) ks) ->
  Permutation P (F ++ flat_map H ks).
Proof.
  intros ND Hc Hin. apply (Permutation_count_occ pk_eq_dec). intros p. rewrite count_occ_app.
  rewrite <- (count_filter_key key p P), <- (count_filter_key key p F), (Hc (key p)), count_occ_app. f_equal.
  assert (Hk : forall k, In p (H k) -> k = key p).
  { intros k I. assert (I2 : In p (filter (fun q => Z.eqb (key q) k) P)) by (rewrite (Hc k); apply in_or_app; right; exact I).
    apply filter_In in I2 as [_ E]. apply Z.eqb_eq in E. symmetry. exact E. }
  rewrite (count_flat_map_key H p (key p) Z.eq_dec Hk ks ND).
  destruct (in_dec Z.eq_dec (key p) ks) as [_|N]; [reflexivity|].
  apply count_occ_not_In. intros I. apply N. apply Hin.
  assert (I2 : In p (filter (fun q => Z.eqb (key q) (key p)) P)) by (rewrite (Hc _); apply in_or_app; right; exact I).
  apply filter_In in I2 as [I2 _]. exact I2.
Qed.
