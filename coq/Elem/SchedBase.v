(* Model of onl/scheduler/base.py (Scheduler, MultiQueueScheduler) together with the shape shared by the run()
   loops of SP, RR and WRR, as ONE timed automaton with urgent internal micro-steps (DESIGN.md 2.4).
   Executable; proofs are in SchedBaseProofs.v.  SP.v / RR.v / WRR.v instantiate the configuration.

   What the code does.  put(p): if total_packets == 0 a token is put into the `packets_available` Store; then
   packets_received, queue_count[flow], queue_byte_size[flow] are incremented and p is put into the per-flow Store
   (a kernel Store: the item is appended at once, the StorePut event is processed later).  run() walks over its
   classes; for a class whose test succeeds it does `yield store.get()` (granted at once, but run() resumes only
   when the StoreGet event is processed), then `yield env.process(self.send_packet(packet))`:
   Initialize(send_packet) sets current_packet and starts the timeout 8*size/rate; when it fires the counters are
   decremented, the packet is forwarded, current_packet is cleared and the child ends; its Process event resumes
   run() INSIDE its for-loop.  After a pass: `if total_packets == 0: yield packets_available.get()`.

   The three run() loops differ only in the list of (class, allowance) slots of a pass, in the emptiness test
   (SP: store.size(); RR/WRR: queue_count[flow] > 0) and in whether the pass is left after a transmission (the
   repaired SP: `break`).  The position inside the pass -- the remaining slots, the head slot carrying the number of
   packets its class may still send in this visit -- is part of the state: it persists across yields in the code.

   Actions (one per put() call or kernel step that belongs to the scheduler; what the harness observes):
     SPut p           scheduler.put(p), p of a flow whose class is configured
     SInit            Initialize of run(): the first scan
     SStoreCb o       a StorePut event processed: of the token store (None) or of the store of class k (Some k)
     SGetDone o       a granted StoreGet processed: run() resumes with the token (None) / with a packet of flow f
     SChildInit       Initialize of send_packet: the transmission starts
     SChildTimer      the transmission timeout fires: counters decremented, packet forwarded
     SChildEnd        the Process event of send_packet: run() resumes inside its loop
     SAdvance t       the clock moves to t (only when nothing of the scheduler is due now; never past the deadline)
     SSample incl     the Monitor samples size()/byte_size() of every flow (service_included = incl)

   Outputs: OForward p (out.put), OStart p (transmission of p starts), OVisit f b (run() tested class f: b = it took
   a packet of f, otherwise it skipped the empty class), OSample (what the Monitor appends).  Only OForward and
   OSample are visible from outside; the others make the trace-level theorems readable. *)
From Coq Require Import ZArith QArith List Bool.
From ONL Require Import Elem.Packet Elem.StoreQ.
Import ListNotations.

Record mq_cfg := {
  rate : Q;                      (* bit/s *)
  pass : list (Z * nat);         (* one pass of run(): (class, packets it may send per visit) in scan order *)
  by_count : bool;               (* emptiness test: queue_count[class] > 0 (RR, WRR) or store.size() != 0 (SP) *)
  brk : bool;                    (* leave the pass after a transmission (repaired SP) *)
  cls : Z -> Z;                  (* flow id -> class id = key of the per-class Store (SP: flow2class; RR, WRR: identity) *)
  sflows : list Z                (* the flows whose counters the Monitor model reports *)
}.

(* the class ids: keys of the stores run() scans *)
Definition classes (c : mq_cfg) : list Z := map fst (pass c).
Definition dclasses (c : mq_cfg) : list Z := nodup Z.eq_dec (classes c).
(* a finite flow -> class table; flows not listed are their own class *)
Definition cls_of (m : list (Z * Z)) (f : Z) : Z :=
  match find (fun x => Z.eqb (fst x) f) m with Some (_, k) => k | None => f end.
Definition memZ (f : Z) (l : list Z) : bool := existsb (Z.eqb f) l.

Inductive child_st := CNone | CInit (p : pkt) | CTx (p : pkt) (dl : Q) | CEnded.

Inductive pc_st :=
| PNotStarted                               (* Initialize of run() pending *)
| PGet (f : Z) (rem : list (Z * nat))       (* waiting for the granted get on the store of f; rem = rest of the pass *)
| PChild (rem : list (Z * nat))             (* waiting for send_packet *)
| PTok                                      (* yield packets_available.get() *)
| PSpin.                                    (* `while True` without a yield: the simulation hangs (proved unreachable) *)

Record mq := {
  mnow : Q;
  mstores : Z -> sq pkt;         (* self.stores *)
  mtok : sq unit;                (* self.packets_available *)
  mqc : Z -> Z;                  (* queue_count *)
  mqb : Z -> Z;                  (* queue_byte_size *)
  mtotal : Z;                    (* total_packets = sum(queue_count.values()) *)
  mcur : option pkt;             (* current_packet *)
  mrecv : Z;                     (* packets_received *)
  mchild : child_st;
  mpc : pc_st
}.

Definition upd {A : Type} (m : Z -> A) (f : Z) (v : A) : Z -> A := fun g => if Z.eqb g f then v else m g.

Definition mq0 (c : mq_cfg) : mq :=
  {| mnow := 0; mstores := fun _ => sq0; mtok := sq0; mqc := fun _ => 0%Z; mqb := fun _ => 0%Z; mtotal := 0%Z;
     mcur := None; mrecv := 0%Z; mchild := CNone; mpc := PNotStarted |}.

Inductive saction :=
| SPut (p : pkt) | SInit | SStoreCb (o : option Z) | SGetDone (o : option Z)
| SChildInit | SChildTimer | SChildEnd | SAdvance (t : Q) | SSample (incl : bool).

Inductive sout := OForward (p : pkt) | OStart (p : pkt) | OVisit (f : Z) (served : bool) | OSample (l : list (Z * Z * Z)).

Definition with_pc (s : mq) (p : pc_st) : mq :=
  {| mnow := mnow s; mstores := mstores s; mtok := mtok s; mqc := mqc s; mqb := mqb s; mtotal := mtotal s;
     mcur := mcur s; mrecv := mrecv s; mchild := mchild s; mpc := p |}.
Definition with_store (s : mq) (f : Z) (q : sq pkt) : mq :=
  {| mnow := mnow s; mstores := upd (mstores s) f q; mtok := mtok s; mqc := mqc s; mqb := mqb s; mtotal := mtotal s;
     mcur := mcur s; mrecv := mrecv s; mchild := mchild s; mpc := mpc s |}.
Definition with_tok (s : mq) (q : sq unit) : mq :=
  {| mnow := mnow s; mstores := mstores s; mtok := q; mqc := mqc s; mqb := mqb s; mtotal := mtotal s;
     mcur := mcur s; mrecv := mrecv s; mchild := mchild s; mpc := mpc s |}.
Definition with_child (s : mq) (ch : child_st) (p : pc_st) : mq :=
  {| mnow := mnow s; mstores := mstores s; mtok := mtok s; mqc := mqc s; mqb := mqb s; mtotal := mtotal s;
     mcur := mcur s; mrecv := mrecv s; mchild := ch; mpc := p |}.

Definition nilb {A : Type} (l : list A) : bool := match l with [] => true | _ => false end.

(* the test run() makes before it takes a packet of class f *)
Definition nonempty (c : mq_cfg) (s : mq) (f : Z) : bool :=
  if by_count c then Z.ltb 0 (mqc s f) else negb (nilb (items (mstores s f))).

(* continue the for-loop over the remaining slots: the visits made, and the class to serve with the new position *)
Fixpoint scan (test : Z -> bool) (rem : list (Z * nat)) : list sout * option (Z * list (Z * nat)) :=
  match rem with
  | [] => ([], None)
  | (f, O) :: t => scan test t
  | (f, S n) :: t =>
      if test f then ([OVisit f true], Some (f, (f, n) :: t))
      else let '(vs, r) := scan test t in (OVisit f false :: vs, r)
  end.

Definition after (c : mq_cfg) (rem : list (Z * nat)) : list (Z * nat) := if brk c then [] else rem.

(* `packet = yield store.get()` on the store of f *)
Definition commit (s : mq) (f : Z) (rem : list (Z * nat)) : option mq :=
  match sq_get fifo_pop (mstores s f) with
  | Some q => Some (with_pc (with_store s f q) (PGet f rem))
  | None => None
  end.

(* after the for-loop: `if self.total_packets == 0: yield self.packets_available.get()`, else the next pass *)
Definition end_pass (c : mq_cfg) (s : mq) : option (mq * list sout) :=
  if Z.eqb (mtotal s) 0 then
    match sq_get fifo_pop (mtok s) with
    | Some q => Some (with_pc (with_tok s q) PTok, [])
    | None => None
    end
  else
    match scan (nonempty c s) (pass c) with
    | (vs, Some (f, rem)) =>
        match commit s f (after c rem) with Some s' => Some (s', vs) | None => None end
    | (vs, None) => Some (with_pc s PSpin, vs)      (* a whole pass found nothing although packets are counted *)
    end.

(* run() executes from loop position rem until its next yield *)
Definition resume (c : mq_cfg) (s : mq) (rem : list (Z * nat)) : option (mq * list sout) :=
  match scan (nonempty c s) rem with
  | (vs, Some (f, rem')) =>
      match commit s f (after c rem') with Some s' => Some (s', vs) | None => None end
  | (vs, None) =>
      match end_pass c s with Some (s', vs') => Some (s', vs ++ vs') | None => None end
  end.

Definition tx_time (c : mq_cfg) (p : pkt) : Q := inject_Z (8 * psize p) / rate c.

Definition child_urgent (s : mq) : bool :=
  match mchild s with
  | CNone => false
  | CInit _ => true
  | CTx _ dl => Qeq_bool dl (mnow s)
  | CEnded => true
  end.

Definition urgent (c : mq_cfg) (s : mq) : bool :=
  match mpc s with PNotStarted => true | _ => false end
  || sq_urgent (mtok s) || existsb (fun f => sq_urgent (mstores s f)) (classes c) || child_urgent s.

(* what the Monitor appends for flow f *)
Definition sample_of (s : mq) (incl : bool) (f : Z) : Z * Z * Z :=
  match mcur s with
  | Some p => if negb incl && Z.eqb (flow p) f then (f, mqc s f - 1, mqb s f - psize p)%Z else (f, mqc s f, mqb s f)
  | None => (f, mqc s f, mqb s f)
  end.

Definition mq_act (c : mq_cfg) (s : mq) (a : saction) : option (mq * list sout) :=
  match a with
  | SPut p =>
      if memZ (cls c (flow p)) (classes c) && Z.leb 0 (psize p) then
        let f := flow p in
        let k := cls c f in
        Some ({| mnow := mnow s;
                 mstores := upd (mstores s) k (sq_put fifo_push (mnow s) p (mstores s k));
                 mtok := if Z.eqb (mtotal s) 0 then sq_put fifo_push (mnow s) tt (mtok s) else mtok s;
                 mqc := upd (mqc s) f (mqc s f + 1)%Z;
                 mqb := upd (mqb s) f (mqb s f + psize p)%Z;
                 mtotal := (mtotal s + 1)%Z;
                 mcur := mcur s; mrecv := (mrecv s + 1)%Z; mchild := mchild s; mpc := mpc s |}, [])
      else None
  | SInit =>
      match mpc s with
      | PNotStarted => resume c s (pass c)
      | _ => None
      end
  | SStoreCb None =>
      match sq_cb fifo_pop (mtok s) with Some q => Some (with_tok s q, []) | None => None end
  | SStoreCb (Some f) =>
      match sq_cb fifo_pop (mstores s f) with Some q => Some (with_store s f q, []) | None => None end
  | SGetDone None =>
      match mpc s with
      | PTok =>
          match sq_take (mtok s) with
          | Some (_, q) => resume c (with_tok s q) (pass c)
          | None => None
          end
      | _ => None
      end
  | SGetDone (Some f) =>
      match mpc s, mchild s with
      | PGet g rem, CNone =>
          if Z.eqb f g then
            match sq_take (mstores s f) with
            | Some ((_, p), q) => Some (with_child (with_store s f q) (CInit p) (PChild rem), [])
            | None => None
            end
          else None
      | _, _ => None
      end
  | SChildInit =>
      match mchild s with
      | CInit p =>
          Some ({| mnow := mnow s; mstores := mstores s; mtok := mtok s; mqc := mqc s; mqb := mqb s; mtotal := mtotal s;
                   mcur := Some p; mrecv := mrecv s; mchild := CTx p (mnow s + tx_time c p); mpc := mpc s |}, [OStart p])
      | _ => None
      end
  | SChildTimer =>
      match mchild s with
      | CTx p dl =>
          if Qeq_bool dl (mnow s) then
            let f := flow p in
            Some ({| mnow := mnow s; mstores := mstores s; mtok := mtok s;
                     mqc := upd (mqc s) f (mqc s f - 1)%Z; mqb := upd (mqb s) f (mqb s f - psize p)%Z;
                     mtotal := (mtotal s - 1)%Z; mcur := None; mrecv := mrecv s; mchild := CEnded; mpc := mpc s |},
                  [OForward p])
          else None
      | _ => None
      end
  | SChildEnd =>
      match mchild s, mpc s with
      | CEnded, PChild rem => resume c (with_child s CNone (PChild rem)) rem
      | _, _ => None
      end
  | SAdvance t =>
      if urgent c s then None
      else if Qlt_le_dec (mnow s) t then
        let s' := {| mnow := t; mstores := mstores s; mtok := mtok s; mqc := mqc s; mqb := mqb s; mtotal := mtotal s;
                     mcur := mcur s; mrecv := mrecv s; mchild := mchild s; mpc := mpc s |} in
        match mchild s with
        | CTx _ dl => if Qle_bool t dl then Some (s', []) else None
        | _ => Some (s', [])
        end
      else None
  | SSample incl => Some (s, [OSample (map (sample_of s incl) (sflows c))])
  end.

(* an execution: every action must be enabled (admissible); the trace pairs each action with the instant at which
   it happened and with what it emitted *)
Definition tev := (Q * saction * list sout)%type.

Fixpoint mq_run (c : mq_cfg) (s : mq) (acts : list saction) : option (mq * list tev) :=
  match acts with
  | [] => Some (s, [])
  | a :: rest =>
      match mq_act c s a with
      | None => None
      | Some (s', outs) =>
          match mq_run c s' rest with
          | None => None
          | Some (s'', tr) => Some (s'', (mnow s', a, outs) :: tr)
          end
      end
  end.

(* index of the first action that is not admissible (diagnosis), or None *)
Fixpoint mq_stuck (c : mq_cfg) (s : mq) (acts : list saction) (i : nat) : option nat :=
  match acts with
  | [] => None
  | a :: rest =>
      match mq_act c s a with
      | None => Some i
      | Some (s', _) => mq_stuck c s' rest (S i)
      end
  end.

(* ---- comparison with an observed execution (correspondence) -------------------------------------------- *)
Record obs := mkobs {
  o_q : list (Z * Z * Z);         (* per observed flow: queue_count, queue_byte_size *)
  o_st : list (Z * nat);          (* per class: len(stores[class].items) *)
  o_cur : option nat;             (* uid of current_packet *)
  o_rec : Z;                      (* packets_received *)
  o_tok : nat;                    (* len(packets_available.items) *)
  o_tot : Z;                      (* total_packets *)
  o_mon : list (Z * Z * Z)        (* what the Monitor appended in this step: flow, size sample, byte sample *)
}.

Definition forwards (l : list sout) : list pkt :=
  flat_map (fun o => match o with OForward p => [p] | _ => [] end) l.
Definition samples (l : list sout) : option (list (Z * Z * Z)) :=
  match filter (fun o => match o with OSample _ => true | _ => false end) l with
  | [OSample x] => Some x
  | _ => None
  end.

Fixpoint pkts_eqb (a b : list pkt) : bool :=
  match a, b with
  | [], [] => true
  | x :: s, y :: t => pkt_eqb x y && pkts_eqb s t
  | _, _ => false
  end.

Definition lookup3 (f : Z) (l : list (Z * Z * Z)) : option (Z * Z) :=
  match find (fun x => Z.eqb (fst (fst x)) f) l with Some (_, a, b) => Some (a, b) | None => None end.

(* the Monitor only knows the flows the scheduler has seen so far: the others must be 0 in the model *)
Definition sample_ok (c : mq_cfg) (model : option (list (Z * Z * Z))) (seen : list (Z * Z * Z)) : bool :=
  match model with
  | None => nilb seen
  | Some l =>
      forallb (fun x => match x with (f, a, b) =>
                 match lookup3 f seen with
                 | Some (a', b') => Z.eqb a a' && Z.eqb b b'
                 | None => Z.eqb a 0 && Z.eqb b 0
                 end end) l
      && forallb (fun x => memZ (fst (fst x)) (sflows c)) seen
  end.

Definition obs_ok (c : mq_cfg) (s : mq) (o : obs) : bool :=
  forallb (fun x => match x with (f, qc, qb) => Z.eqb (mqc s f) qc && Z.eqb (mqb s f) qb end) (o_q o)
  && forallb (fun x => match x with (k, n) => Nat.eqb (length (items (mstores s k))) n end) (o_st o)
  && match mcur s, o_cur o with
     | Some p, Some u => Nat.eqb (uid p) u
     | None, None => true
     | _, _ => false
     end
  && Z.eqb (mrecv s) (o_rec o) && Nat.eqb (length (items (mtok s))) (o_tok o) && Z.eqb (mtotal s) (o_tot o).

(* tap = false: the scheduler has no next hop (out = None); the model still emits OForward when a transmission ends, but
   nothing can be observed downstream: only counters, current_packet and Monitor samples are compared *)
Fixpoint mq_agree' (tap : bool) (c : mq_cfg) (s : mq) (l : list (saction * list sout * obs)) : bool :=
  match l with
  | [] => true
  | (a, outs, o) :: rest =>
      match mq_act c s a with
      | None => false
      | Some (s', outs') =>
          (if tap then pkts_eqb (forwards outs') (forwards outs) else nilb (forwards outs))
          && sample_ok c (samples outs') (o_mon o) && obs_ok c s' o
          && mq_agree' tap c s' rest
      end
  end.

Definition mq_agree := mq_agree' true.
