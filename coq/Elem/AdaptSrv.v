(* WFQ and VirtualClock (one automaton, Elem/WFQServer.v, parameterised by a stamping discipline) as interface elements
   (Elem/Iface.v).  The adapter's labels are the server's own actions.  Its put REFUSES a packet that is not configured
   (class without a weight / vtick, negative size: the code raises KeyError resp. is outside C12's domain), so that every
   execution of the adapter is an execution of the model over configured packets ([wadm] / [vadm] hold by construction) and
   conversely; `Raises` and `Disabled` of the model are both "not admissible".  The theorems of WFQServerTrace.v transfer. *)
From Coq Require Import ZArith QArith List Bool Permutation Lia.
From ONL Require Import Elem.Packet Elem.StoreQ Elem.HeapList Elem.WFQServer Elem.WFQServerProofs Elem.WFQServerTrace
  Elem.WFQ Elem.WFQProofs Elem.VC Elem.VCProofs Elem.WFQInst Elem.Iface.
Import ListNotations.

Definition fout_e (o : fout) : eout := match o with OForward p => EForward p end.
Definition srv_internal (a : faction) : bool := match a with FPut _ | FAdvance _ => false | _ => true end.

Section Srv.
  Variable S : stamper.
  Variable rate : Q.
  Variable st0 : ST S.
  Variable confb : pkt -> bool.

  Definition flift (r : res (srv S * list fout)) : option (srv S * list eout) :=
    match r with Ok (s', o) => Some (s', map fout_e o) | _ => None end.

  Definition srv_elem : elem := {|
    st := srv S;
    lab := faction;
    init := srv0 0 st0;
    now := @WFQServer.now S;
    put := fun p s => if confb p then flift (WFQServer.act S rate s (FPut p)) else None;
    step := fun a s => if srv_internal a then flift (WFQServer.act S rate s a) else None;
    advance := fun t s => match WFQServer.act S rate s (FAdvance t) with Ok (s', _) => Some s' | _ => None end;
    urgent := @WFQServer.urgent S;
    deadline := fun s => match chl s with CTx _ dl => Some dl | _ => None end;
    held := WFQServerProofs.held S;
    accepts := fun _ => true;
    width := 1
  |}.

  Definition f_to (a : iact faction) : faction := match a with IPut p => FPut p | IStep l => l | IAdv t => FAdvance t end.
  Definition f_of (a : faction) : iact faction := match a with FPut p => IPut p | FAdvance t => IAdv t | _ => IStep a end.
  Definition f_ev (e : WFQServer.tev S) : Q * iact faction * list eout :=
    (WFQServer.now (snd e), f_of (fst (fst e)), map fout_e (snd (fst e))).
  (* the model executions the adapter covers: the upstream puts configured packets only *)
  Definition put_ok (a : faction) : Prop := forall p, a = FPut p -> confb p = true.

  Lemma srv_adv_outs s t s' o : WFQServer.act S rate s (FAdvance t) = Ok (s', o) -> o = [].
  Proof.
    cbn [WFQServer.act]. destruct (WFQServer.urgent s); [discriminate|]. destruct (Qlt_le_dec (WFQServer.now s) t); [|discriminate].
    destruct (chl s) as [|e|e dl|e]; try (intros H; injection H as _ <-; reflexivity).
    destruct (Qle_bool t dl); [|discriminate]. intros H; injection H as _ <-; reflexivity.
  Qed.

  Lemma srv_elem_act_of s a : put_ok a -> act srv_elem s (f_of a) = flift (WFQServer.act S rate s a).
  Proof.
    intros Hp. destruct a; try reflexivity.
    - cbn [f_of Iface.act srv_elem put]. rewrite (Hp p eq_refl). reflexivity.
    - cbn [f_of Iface.act srv_elem advance flift].
      destruct (WFQServer.act S rate s (FAdvance t)) as [[s' o]| |] eqn:E; try reflexivity.
      rewrite (srv_adv_outs _ _ _ _ E). reflexivity.
  Qed.

  Lemma srv_elem_act_to s a s' o :
    Iface.act srv_elem s a = Some (s', o) ->
    f_of (f_to a) = a /\ put_ok (f_to a) /\ flift (WFQServer.act S rate s (f_to a)) = Some (s', o).
  Proof.
    destruct a as [p|l|t]; cbn [Iface.act srv_elem put step advance f_to].
    - destruct (confb p) eqn:Ec; [|discriminate]. intros H. repeat split; auto. intros q E. injection E as <-. exact Ec.
    - destruct (srv_internal l) eqn:El; [|discriminate]. intros H. repeat split; auto.
      + destruct l; try reflexivity; discriminate.
      + intros q E. subst l. discriminate.
    - destruct (WFQServer.act S rate s (FAdvance t)) as [[s1 o1]| |] eqn:E; try discriminate.
      intros H. injection H as <- <-. repeat split; auto; [intros q E0; discriminate|].
      cbn [flift]. rewrite (srv_adv_outs _ _ _ _ E). reflexivity.
  Qed.

  (* every execution of the model over configured packets is an execution of the adapter ... *)
  Theorem srv_run_elem : forall acts s s' tr,
    Forall put_ok acts -> WFQServer.run S rate s acts = Some (s', tr) -> Iface.run srv_elem s (map f_of acts) = Some (s', map f_ev tr).
  Proof.
    induction acts as [|a acts IH]; intros s s' tr N H; cbn [WFQServer.run] in H.
    - injection H as <- <-. reflexivity.
    - inversion N as [|? ? Na Nr]; subst.
      destruct (WFQServer.act S rate s a) as [[s1 o]| |] eqn:Ea; try discriminate.
      destruct (WFQServer.run S rate s1 acts) as [[s2 tr1]|] eqn:Er; [|discriminate]. injection H as <- <-.
      cbn [map Iface.run]. rewrite (srv_elem_act_of _ _ Na), Ea. cbn [flift]. rewrite (IH _ _ _ Nr Er). reflexivity.
  Qed.

  (* ... and conversely: the adapter has no other executions *)
  Theorem srv_elem_run : forall acts s s' tr,
    Iface.run srv_elem s acts = Some (s', tr) ->
    exists tr0, WFQServer.run S rate s (map f_to acts) = Some (s', tr0) /\ tr = map f_ev tr0 /\
                map f_of (map f_to acts) = acts /\ Forall put_ok (map f_to acts).
  Proof.
    induction acts as [|a acts IH]; intros s s' tr H; cbn [Iface.run] in H.
    - injection H as <- <-. exists []. repeat split; try reflexivity. constructor.
    - destruct (Iface.act srv_elem s a) as [[s1 o]|] eqn:Ea; [|discriminate].
      destruct (Iface.run srv_elem s1 acts) as [[s2 tr1]|] eqn:Er; [|discriminate]. injection H as <- <-.
      destruct (srv_elem_act_to _ _ _ _ Ea) as (Hn & Hd & Hl). destruct (IH _ _ _ Er) as (tr0 & R0 & -> & Hm & Hf).
      unfold flift in Hl. destruct (WFQServer.act S rate s (f_to a)) as [[s1' o']| |] eqn:E0; try discriminate. injection Hl as -> <-.
      exists ((f_to a, o', s1) :: tr0). cbn [map WFQServer.run]. rewrite E0, R0. repeat split.
      + unfold f_ev at 2. cbn [fst snd]. rewrite Hn. reflexivity.
      + rewrite Hn, Hm. reflexivity.
      + constructor; assumption.
  Qed.

  Lemma srv_puts tr : Iface.puts (map f_ev tr) = WFQServerTrace.puts S tr.
  Proof.
    induction tr as [|[[a o] s] tr IH]; [reflexivity|]. cbn [map]. unfold f_ev at 1. cbn [fst snd]. rewrite puts_cons, IH.
    destruct a; reflexivity.
  Qed.
  Lemma srv_o_fwds o : o_fwds (map fout_e o) = out_pkts o.
  Proof. induction o as [|[p] o IH]; [reflexivity|]. cbn [map]. rewrite o_fwds_cons, IH. reflexivity. Qed.
  Lemma srv_o_drops o : o_drops (map fout_e o) = [].
  Proof. induction o as [|[p] o IH]; [reflexivity|]. cbn [map]. rewrite o_drops_cons, IH. reflexivity. Qed.
  Lemma srv_fwds tr : Iface.fwds (map f_ev tr) = WFQServerTrace.fwds S tr.
  Proof.
    induction tr as [|[[a o] s] tr IH]; [reflexivity|]. cbn [map]. unfold f_ev at 1. cbn [fst snd]. rewrite fwds_cons, IH, srv_o_fwds.
    reflexivity.
  Qed.
  Lemma srv_drops tr : Iface.drops (map f_ev tr) = [].
  Proof.
    induction tr as [|[[a o] s] tr IH]; [reflexivity|]. cbn [map]. unfold f_ev at 1. cbn [fst snd]. rewrite drops_cons, IH, srv_o_drops.
    reflexivity.
  Qed.

  (* ---- the laws, for every discipline satisfying WFQServerProofs.disc -------------------------------------- *)
  Hypothesis rate_pos : 0 < rate.
  Variable conf : pkt -> Prop.
  Variable cls : pkt -> Z.
  Variable D : disc S st0 conf cls.
  Hypothesis confb_ok : forall p, confb p = true -> conf p.

  Lemma put_ok_conf acts : Forall put_ok acts -> puts_conf conf acts.
  Proof. intros F p Hp. apply confb_ok. rewrite Forall_forall in F. exact (F _ Hp p eq_refl). Qed.

  Theorem srv_elem_conserves : conserves srv_elem.
  Proof.
    intros acts s tr H. destruct (srv_elem_run _ _ _ _ H) as (tr0 & R0 & -> & _).
    rewrite srv_puts, srv_fwds, srv_drops. cbn [app]. exact (srv_conserves S rate st0 _ _ _ R0).
  Qed.

  Theorem srv_elem_flow_fifo f : flow_fifo srv_elem f.
  Proof.
    intros acts s tr H. destruct (srv_elem_run _ _ _ _ H) as (tr0 & R0 & -> & _ & Hp).
    rewrite srv_puts, srv_fwds.
    pose proof (srv_flow_fifo S rate rate_pos st0 conf cls D _ _ _ f (put_ok_conf _ Hp) R0) as E.
    change (filter (on_flow f)) with (only f). rewrite <- E. apply sublist_app_r.
  Qed.

  Theorem srv_elem_drained : drained srv_elem.
  Proof.
    intros acts s tr H _ U Dl. destruct (srv_elem_run _ _ _ _ H) as (tr0 & R0 & _ & _ & Hp).
    cbn [Iface.urgent deadline srv_elem] in U, Dl.
    assert (Nd : forall e dl, chl s <> CTx e dl) by (intros e dl E; rewrite E in Dl; discriminate).
    exact (proj1 (srv_drained_trace S rate rate_pos st0 conf cls D _ _ _ (put_ok_conf _ Hp) R0 U Nd)).
  Qed.

  Theorem srv_elem_laws : laws srv_elem.
  Proof. split; [apply srv_elem_conserves|intros f; apply srv_elem_flow_fifo|apply srv_elem_drained]. Qed.
End Srv.

Ltac crush_res H := repeat match type of H with
  | context [match ?x with _ => _ end] =>
      lazymatch x with
      | context [match _ with _ => _ end] => fail
      | _ => destruct x eqn:?; try discriminate
      end
  end.

Lemma srv_act_now S rate (s : srv S) a s' o :
  WFQServer.act S rate s a = Ok (s', o) -> (forall t, a <> FAdvance t) -> WFQServer.now s' = WFQServer.now s.
Proof.
  intros H Nt. destruct a; cbn [WFQServer.act] in H; try (crush_res H; injection H as <- _; reflexivity).
  exfalso. eapply Nt. reflexivity.
Qed.

Theorem srv_elem_timed S rate st0 confb : timed (srv_elem S rate st0 confb).
Proof.
  repeat split.
  - intros p s s' o H. cbn [put srv_elem] in H. destruct (confb p); [|discriminate]. unfold flift in H.
    destruct (WFQServer.act S rate s (FPut p)) as [[w' o']| |] eqn:E; try discriminate. injection H as <- _.
    apply (srv_act_now _ _ _ _ _ _ E). discriminate.
  - intros l s s' o H. cbn [step srv_elem] in H. destruct (srv_internal l) eqn:El; [|discriminate]. unfold flift in H.
    destruct (WFQServer.act S rate s l) as [[w' o']| |] eqn:E; try discriminate. injection H as <- _.
    apply (srv_act_now _ _ _ _ _ _ E). intros t ->. discriminate.
  - cbn [advance srv_elem WFQServer.act] in H. crush_res H; injection H as <-; reflexivity.
  - cbn [advance srv_elem WFQServer.act] in H. destruct (WFQServer.urgent s); [discriminate|].
    destruct (Qlt_le_dec (WFQServer.now s) t); [|discriminate]. assumption.
  - cbn [advance srv_elem WFQServer.act] in H. cbn [Iface.urgent srv_elem]. destruct (WFQServer.urgent s); [discriminate|reflexivity].
  - cbn [advance srv_elem WFQServer.act] in H. cbn [deadline srv_elem]. destruct (WFQServer.urgent s); [discriminate|].
    destruct (Qlt_le_dec (WFQServer.now s) t); [|discriminate]. intros d Hd.
    destruct (chl s) as [|e|e dl|e]; try discriminate. injection Hd as <-.
    destruct (Qle_bool t dl) eqn:El; [|discriminate]. apply Qle_bool_iff. exact El.
Qed.

(* ---- WFQ and VirtualClock --------------------------------------------------------------------------------------- *)
Definition zknown {V} (k : Z) (l : list (Z * V)) : bool := match zlookup k l with Some _ => true | None => false end.
Definition wconfb (cfg : wcfg) (p : pkt) : bool := zknown (wf2c cfg (flow p)) (wweights cfg) && Z.leb 0 (psize p).
Definition vconfb (cfg : vcfg) (p : pkt) : bool := zknown (vf2c cfg (flow p)) (vticks cfg) && Z.leb 0 (psize p).

Definition wfq_elem (cfg : wcfg) : elem := srv_elem (wfq_stamper cfg) (wrate cfg) (wst0 : ST (wfq_stamper cfg)) (wconfb cfg).
Definition vc_elem (cfg : vcfg) : elem := srv_elem (vc_stamper cfg) (vrate cfg) (vst0 : ST (vc_stamper cfg)) (vconfb cfg).

Lemma wconfb_ok cfg p : wconfb cfg p = true -> wconf cfg p.
Proof.
  unfold wconfb, wconf, wcls, zknown. intros H. apply andb_prop in H as [H1 H2]. split.
  - destruct (zlookup (wf2c cfg (flow p)) (wweights cfg)); [discriminate|discriminate H1].
  - apply Z.leb_le. exact H2.
Qed.
Lemma vconfb_ok cfg p : vconfb cfg p = true -> vconf cfg p.
Proof.
  unfold vconfb, vconf, vcls, zknown. intros H. apply andb_prop in H as [H1 H2]. split.
  - destruct (zlookup (vf2c cfg (flow p)) (vticks cfg)); [discriminate|discriminate H1].
  - apply Z.leb_le. exact H2.
Qed.

Theorem wfq_elem_laws cfg : wcfg_ok cfg -> laws (wfq_elem cfg).
Proof.
  intros Hok. exact (srv_elem_laws _ _ _ _ (proj1 Hok) (wconf cfg) (wcls cfg) (wfq_disc cfg (proj1 Hok) (proj2 Hok)) (wconfb_ok cfg)).
Qed.
Theorem vc_elem_laws cfg : vcfg_ok cfg -> laws (vc_elem cfg).
Proof.
  intros Hok. exact (srv_elem_laws _ _ _ _ (proj1 Hok) (vconf cfg) (vcls cfg) (vc_disc cfg (proj2 Hok)) (vconfb_ok cfg)).
Qed.
