(* Models of onl/packet/dist_generator.py (DistPacketGenerator.run) as a timed automaton and of
   onl/packet/sink.py (PacketSink.put) as a fold over the delivered packets.  Executable; proofs in
   GenSinkProofs.v. *)
From Coq Require Import ZArith QArith List Bool.
From ONL Require Import Elem.Packet.
Import ListNotations.

(* ---------------------------------------------------------------------------------------------- *)
(* DistPacketGenerator *)

Inductive gphase := GNotStarted | GInitWait (dl : Q) | GWait (dl : Q) | GDone.

Record gen := { gnow : Q; gph : gphase; gsent : Z }.

Record gcfg := { g_init : Q;             (* initial_delay *)
                 g_finish : option Q;    (* None = float('inf') *)
                 g_flow : Z }.

Definition gen0 (t0 : Q) : gen := {| gnow := t0; gph := GNotStarted; gsent := 0 |}.

Inductive gaction :=
| GStart                              (* Initialize of run(): yield env.timeout(initial_delay) *)
| GInitFire (a : option Q)            (* that timeout is processed; if now < finish: a = arrival_dist() *)
| GFire (s : Z) (a : option Q)        (* an inter-arrival timeout is processed: s = size_dist(), packet
                                         emitted; if now < finish: a = arrival_dist() for the next one *)
| GAdvance (t : Q).

(* emitted packet: (packet_id, size, creation time, flow) *)
Definition gout := (Z * Z * Q * Z)%type.

Definition before_finish (c : gcfg) (now : Q) : bool :=
  match g_finish c with None => true | Some f => negb (Qle_bool f now) end.     (* env.now < self.finish *)

(* the `while env.now < self.finish: yield env.timeout(self.arrival_dist())` head *)
Definition loop_head (c : gcfg) (g : gen) (a : option Q) : option gen :=
  if before_finish c (gnow g) then
    match a with
    | Some d => if Qle_bool 0 d then Some {| gnow := gnow g; gph := GWait (gnow g + d); gsent := gsent g |} else None
    | None => None
    end
  else
    match a with
    | None => Some {| gnow := gnow g; gph := GDone; gsent := gsent g |}
    | Some _ => None
    end.

Definition gen_act (c : gcfg) (g : gen) (x : gaction) : option (gen * list gout) :=
  match x, gph g with
  | GStart, GNotStarted =>
      if Qle_bool 0 (g_init c)
      then Some ({| gnow := gnow g; gph := GInitWait (gnow g + g_init c); gsent := gsent g |}, [])
      else None
  | GInitFire a, GInitWait dl =>
      if Qeq_bool dl (gnow g) then
        match loop_head c g a with Some g' => Some (g', []) | None => None end
      else None
  | GFire s a, GWait dl =>
      if Qeq_bool dl (gnow g) then
        let n := (gsent g + 1)%Z in
        let g1 := {| gnow := gnow g; gph := gph g; gsent := n |} in
        match loop_head c g1 a with
        | Some g' => Some (g', [(n, s, gnow g, g_flow c)])
        | None => None
        end
      else None
  | GAdvance t, ph =>
      if Qlt_le_dec (gnow g) t then
        match ph with
        | GNotStarted => None                                  (* Initialize is due now *)
        | GInitWait dl | GWait dl =>
            if Qeq_bool dl (gnow g) then None
            else if Qle_bool t dl then Some ({| gnow := t; gph := ph; gsent := gsent g |}, []) else None
        | GDone => Some ({| gnow := t; gph := ph; gsent := gsent g |}, [])
        end
      else None
  | _, _ => None
  end.

Fixpoint gen_run (c : gcfg) (g : gen) (acts : list gaction) : option (gen * list (Q * gaction * list gout)) :=
  match acts with
  | [] => Some (g, [])
  | x :: rest =>
      match gen_act c g x with
      | None => None
      | Some (g', outs) =>
          match gen_run c g' rest with
          | None => None
          | Some (g'', tr) => Some (g'', (gnow g', x, outs) :: tr)
          end
      end
  end.

Definition gout_eqb (a b : gout) : bool :=
  match a, b with
  | (i, s, t, f), (i', s', t', f') => Z.eqb i i' && Z.eqb s s' && Qeq_bool t t' && Z.eqb f f'
  end.

Fixpoint gouts_eqb (a b : list gout) : bool :=
  match a, b with
  | [], [] => true
  | x :: s, y :: t => gout_eqb x y && gouts_eqb s t
  | _, _ => false
  end.

(* observed: per action, the packets emitted and packets_send after it *)
Fixpoint gen_agree (c : gcfg) (g : gen) (obs : list (gaction * list gout * Z)) : bool :=
  match obs with
  | [] => true
  | (x, outs, n) :: rest =>
      match gen_act c g x with
      | None => false
      | Some (g', outs') => gouts_eqb outs' outs && Z.eqb (gsent g') n && gen_agree c g' rest
      end
  end.

(* ---------------------------------------------------------------------------------------------- *)
(* PacketSink: records per key (flow id, or a source index when rec_flow_ids is False) *)

Record scfg := { rec_arrivals : bool; absolute_arrivals : bool; rec_waits : bool }.

(* a delivery: (key, size, creation time, arrival instant) *)
Definition deliv := (Z * Z * Q * Q)%type.

Record krec := { k_waits : list Q; k_sizes : list Z; k_times : list Q;
                 k_arrivals : list Q; k_first : Q; k_last : Q;
                 k_packets : Z; k_bytes : Z }.

Definition krec0 : krec :=
  {| k_waits := []; k_sizes := []; k_times := []; k_arrivals := []; k_first := 0; k_last := 0;
     k_packets := 0; k_bytes := 0 |}.

Definition sink_put_rec (c : scfg) (r : krec) (size : Z) (ptime now : Q) : krec :=
  let w := if rec_waits c then k_waits r ++ [now - ptime] else k_waits r in
  let sz := if rec_waits c then k_sizes r ++ [size] else k_sizes r in
  let tm := if rec_waits c then k_times r ++ [ptime] else k_times r in
  let first := if rec_arrivals c then (match k_arrivals r with [] => now | _ => k_first r end) else k_first r in
  let arr := if rec_arrivals c
             then k_arrivals r ++ [if absolute_arrivals c then now else now - k_last r]
             else k_arrivals r in
  let last := if rec_arrivals c then now else k_last r in
  {| k_waits := w; k_sizes := sz; k_times := tm; k_arrivals := arr; k_first := first; k_last := last;
     k_packets := (k_packets r + 1)%Z; k_bytes := (k_bytes r + size)%Z |}.

(* the sink's books: association list key -> record, keys in order of first appearance (dict order) *)
Fixpoint upd (k : Z) (f : krec -> krec) (m : list (Z * krec)) : list (Z * krec) :=
  match m with
  | [] => [(k, f krec0)]
  | (k', r) :: t => if Z.eqb k k' then (k', f r) :: t else (k', r) :: upd k f t
  end.

Definition sink_put (c : scfg) (m : list (Z * krec)) (d : deliv) : list (Z * krec) :=
  match d with (k, size, ptime, now) => upd k (fun r => sink_put_rec c r size ptime now) m end.

Definition sink_run (c : scfg) (ds : list deliv) : list (Z * krec) := fold_left (sink_put c) ds [].

Fixpoint lookup (k : Z) (m : list (Z * krec)) : krec :=
  match m with
  | [] => krec0
  | (k', r) :: t => if Z.eqb k k' then r else lookup k t
  end.

Fixpoint listQ_eqb' (a b : list Q) : bool :=
  match a, b with
  | [], [] => true
  | x :: s, y :: t => Qeq_bool x y && listQ_eqb' s t
  | _, _ => false
  end.

Fixpoint listZ_eqb' (a b : list Z) : bool :=
  match a, b with
  | [], [] => true
  | x :: s, y :: t => Z.eqb x y && listZ_eqb' s t
  | _, _ => false
  end.

Definition krec_eqb (a b : krec) : bool :=
  listQ_eqb' (k_waits a) (k_waits b) && listZ_eqb' (k_sizes a) (k_sizes b) && listQ_eqb' (k_times a) (k_times b)
  && listQ_eqb' (k_arrivals a) (k_arrivals b) && Qeq_bool (k_first a) (k_first b) && Qeq_bool (k_last a) (k_last b)
  && Z.eqb (k_packets a) (k_packets b) && Z.eqb (k_bytes a) (k_bytes b).

Fixpoint books_eqb (a b : list (Z * krec)) : bool :=
  match a, b with
  | [], [] => true
  | (k, r) :: s, (k', r') :: t => Z.eqb k k' && krec_eqb r r' && books_eqb s t
  | _, _ => false
  end.
