(* Proofs about Elem/GenSink.v: the generator law and the sink's books. *)
From Coq Require Import ZArith QArith List Bool Lia Lqa.
From ONL Require Import Elem.Packet Elem.GenSink.
Import ListNotations.

(* ---------------------------------------------------------------------------------------------- *)
(* generator *)

Definition tev := (Q * gaction * list gout)%type.

Definition emissions (tr : list tev) : list (Q * gout) :=
  flat_map (fun e => match e with (t, _, outs) => map (pair t) outs end) tr.

Definition adraws (tr : list tev) : list Q :=
  flat_map (fun e => match e with
                     | (_, GInitFire (Some a), _) => [a]
                     | (_, GFire _ (Some a), _) => [a]
                     | _ => []
                     end) tr.

Definition sdraws (tr : list tev) : list Z :=
  flat_map (fun e => match e with (_, GFire s _, _) => [s] | _ => [] end) tr.

Lemma emissions_cons t x outs tr : emissions ((t, x, outs) :: tr) = map (pair t) outs ++ emissions tr.
Proof. reflexivity. Qed.
Lemma adraws_cons t x outs tr :
  adraws ((t, x, outs) :: tr) =
  match x with GInitFire (Some a) => [a] | GFire _ (Some a) => [a] | _ => [] end ++ adraws tr.
Proof. destruct x as [|[a|]|s [a|]|]; reflexivity. Qed.
Lemma sdraws_cons t x outs tr :
  sdraws ((t, x, outs) :: tr) = match x with GFire s _ => [s] | _ => [] end ++ sdraws tr.
Proof. destruct x; reflexivity. Qed.

(* the law: packet n+1 (ids 1,2,...) leaves at T with the drawn size, creation time T; the next one
   leaves a later, a being the next inter-arrival draw *)
Fixpoint spec (flow : Z) (T : Q) (n : Z) (ss : list Z) (aa : list Q) : list (Q * gout) :=
  match ss with
  | [] => []
  | s :: ss' =>
      (T, ((n + 1)%Z, s, T, flow)) ::
      match aa with
      | a :: aa' => spec flow (T + a) (n + 1) ss' aa'
      | [] => []
      end
  end.

Definition em_equiv (x y : Q * gout) : Prop :=
  match x, y with
  | (t, (i, s, c, f)), (t', (i', s', c', f')) => t == t' /\ i = i' /\ s = s' /\ c == c' /\ f = f'
  end.

Lemma spec_equiv flow : forall ss aa T T' n, T == T' ->
  Forall2 em_equiv (spec flow T n ss aa) (spec flow T' n ss aa).
Proof.
  induction ss as [|s ss IH]; intros aa T T' n H; cbn [spec]; [constructor|].
  constructor.
  - cbn. repeat split; auto.
  - destruct aa as [|a aa]; [constructor|]. apply IH. rewrite H. reflexivity.
Qed.

Lemma Forall2_em_refl l : Forall2 em_equiv l l.
Proof.
  induction l as [|[t [[[i s] c] f]] l IH]; constructor; auto.
  cbn. repeat split; reflexivity.
Qed.

Lemma em_equiv_trans x y z : em_equiv x y -> em_equiv y z -> em_equiv x z.
Proof.
  destruct x as [t [[[i s] c] f]], y as [t' [[[i' s'] c'] f']], z as [t'' [[[i'' s''] c''] f'']].
  cbn. intros (A & B & C & D & E) (A' & B' & C' & D' & E'). repeat split; try congruence.
  - rewrite A; exact A'.
  - rewrite D; exact D'.
Qed.

Lemma Forall2_trans_em l1 : forall l2 l3,
  Forall2 em_equiv l1 l2 -> Forall2 em_equiv l2 l3 -> Forall2 em_equiv l1 l3.
Proof.
  induction l1 as [|x l1 IH]; intros l2 l3 H12 H23; inversion H12; subst; inversion H23; subst; constructor.
  - eapply em_equiv_trans; eauto.
  - eapply IH; eauto.
Qed.

(* what the rest of an execution emits, as a function of the generator's phase *)
Definition from_phase (c : gcfg) (g : gen) (tr : list tev) : Prop :=
  match gph g with
  | GNotStarted =>
      match adraws tr with
      | [] => emissions tr = []
      | a :: aa => Forall2 em_equiv (emissions tr) (spec (g_flow c) (gnow g + g_init c + a) (gsent g) (sdraws tr) aa)
      end
  | GInitWait dl =>
      match adraws tr with
      | [] => emissions tr = []
      | a :: aa => Forall2 em_equiv (emissions tr) (spec (g_flow c) (dl + a) (gsent g) (sdraws tr) aa)
      end
  | GWait dl => Forall2 em_equiv (emissions tr) (spec (g_flow c) dl (gsent g) (sdraws tr) (adraws tr))
  | GDone => emissions tr = [] /\ adraws tr = [] /\ sdraws tr = []
  end.

Lemma loop_head_inv c g a g' : loop_head c g a = Some g' ->
  gnow g' = gnow g /\ gsent g' = gsent g /\
  ((exists d, a = Some d /\ gph g' = GWait (gnow g + d) /\ before_finish c (gnow g) = true) \/
   (a = None /\ gph g' = GDone /\ before_finish c (gnow g) = false)).
Proof.
  unfold loop_head. destruct (before_finish c (gnow g)).
  - destruct a as [d|]; [|discriminate]. destruct (Qle_bool 0 d); [|discriminate].
    intros H; injection H as <-. cbn. repeat split; auto. left; exists d; auto.
  - destruct a as [d|]; [discriminate|]. intros H; injection H as <-. cbn. repeat split; auto.
Qed.

Lemma gen_run_from c : forall acts g g' tr, gen_run c g acts = Some (g', tr) -> from_phase c g tr.
Proof.
  induction acts as [|x acts IH]; intros g g' tr H; cbn [gen_run] in H.
  - injection H as <- <-. unfold from_phase. destruct (gph g); cbn; auto; constructor.
  - destruct (gen_act c g x) as [[g1 outs]|] eqn:Ea; [|discriminate].
    destruct (gen_run c g1 acts) as [[g2 tr1]|] eqn:Er; [|discriminate].
    injection H as <- <-. specialize (IH _ _ _ Er).
    unfold gen_act in Ea.
    destruct x as [|a|s a|t].
    + (* GStart *)
      destruct (gph g) eqn:Ep; try discriminate.
      destruct (Qle_bool 0 (g_init c)); [|discriminate]. injection Ea as <- <-.
      unfold from_phase in *. rewrite Ep. cbn [gph gnow gsent] in IH.
      rewrite emissions_cons, adraws_cons, sdraws_cons; cbn [app map]. exact IH.
    + (* GInitFire *)
      destruct (gph g) eqn:Ep; try discriminate.
      destruct (Qeq_bool dl (gnow g)) eqn:Eq; [|discriminate].
      destruct (loop_head c g a) as [g1'|] eqn:El; [|discriminate]. injection Ea as <- <-.
      apply Qeq_bool_eq in Eq.
      apply loop_head_inv in El as (Hn & Hs & [(d & -> & Hp & _)|(-> & Hp & _)]).
      * unfold from_phase in *. rewrite Ep. rewrite Hp in IH. rewrite Hs in IH.
        rewrite emissions_cons, adraws_cons, sdraws_cons; cbn [app map].
        eapply Forall2_trans_em; [exact IH|]. apply spec_equiv. rewrite Eq. reflexivity.
      * unfold from_phase in *. rewrite Ep. rewrite Hp in IH. destruct IH as (He & Ha & Hd).
        rewrite emissions_cons, adraws_cons, sdraws_cons; cbn [app map]. rewrite Ha. exact He.
    + (* GFire *)
      destruct (gph g) eqn:Ep; try discriminate.
      destruct (Qeq_bool dl (gnow g)) eqn:Eq; [|discriminate].
      destruct (loop_head c _ a) as [g1'|] eqn:El; [|discriminate]. injection Ea as <- <-.
      apply Qeq_bool_eq in Eq.
      apply loop_head_inv in El as (Hn & Hs & [(d & -> & Hp & _)|(-> & Hp & _)]); cbn [gnow gsent] in *.
      * unfold from_phase in *. rewrite Ep. rewrite Hp, Hs in IH.
        rewrite emissions_cons, adraws_cons, sdraws_cons; cbn [app map spec]. rewrite Hn.
        constructor.
        -- cbn. repeat split; auto; rewrite Eq; reflexivity.
        -- eapply Forall2_trans_em; [exact IH|]. apply spec_equiv. rewrite Eq. reflexivity.
      * unfold from_phase in *. rewrite Ep. rewrite Hp in IH. destruct IH as (He & Ha & Hd).
        rewrite emissions_cons, adraws_cons, sdraws_cons; cbn [app map spec]. rewrite Hn, He, Ha. cbn [app spec].
        constructor; [|constructor]. cbn. repeat split; auto; rewrite Eq; reflexivity.
    + (* GAdvance: the phase and the counter are unchanged, nothing is emitted or drawn *)
      destruct (Qlt_le_dec (gnow g) t); [|discriminate].
      assert (K : gph g1 = gph g /\ gsent g1 = gsent g /\ outs = [] /\
                  (gph g = GNotStarted -> False)).
      { destruct (gph g) eqn:Ep; try discriminate.
        - destruct (Qeq_bool dl (gnow g)); [discriminate|]. destruct (Qle_bool t dl); [|discriminate].
          injection Ea as <- <-. cbn. repeat split; auto; discriminate.
        - destruct (Qeq_bool dl (gnow g)); [discriminate|]. destruct (Qle_bool t dl); [|discriminate].
          injection Ea as <- <-. cbn. repeat split; auto; discriminate.
        - injection Ea as <- <-. cbn. repeat split; auto; discriminate. }
      destruct K as (Kp & Ks & -> & Kn).
      unfold from_phase in *. rewrite Kp, Ks in IH.
      rewrite emissions_cons, adraws_cons, sdraws_cons; cbn [app map].
      destruct (gph g); [exfalso; auto| | |]; exact IH.
Qed.

(* closed form of the law: the k-th emission (0-based) of [spec] *)
Fixpoint qsum (l : list Q) : Q := match l with [] => 0 | x :: t => x + qsum t end.

Lemma spec_nth flow : forall ss aa T n k t i s c f,
  nth_error (spec flow T n ss aa) k = Some (t, (i, s, c, f)) ->
  t == T + qsum (firstn k aa) /\ c == t /\ i = (n + Z.of_nat k + 1)%Z /\ nth_error ss k = Some s /\ f = flow.
Proof.
  induction ss as [|s0 ss IH]; intros aa T n k t i s c f H; cbn [spec] in H.
  - destruct k; discriminate.
  - destruct k as [|k]; cbn [nth_error] in H.
    + injection H as <- <- <- <- <-. cbn [firstn qsum nth_error]. repeat split; try reflexivity; try lia. ring.
    + destruct aa as [|a aa]; [destruct k; discriminate|].
      apply IH in H as (Ht & Hc & Hi & Hs & Hf). cbn [firstn qsum nth_error].
      repeat split; auto; [rewrite Ht; ring|lia].
Qed.

Theorem generator_law c t0 acts g tr :
  gen_run c (gen0 t0) acts = Some (g, tr) ->
  match adraws tr with
  | [] => emissions tr = []
  | a :: aa => Forall2 em_equiv (emissions tr) (spec (g_flow c) (t0 + g_init c + a) 0 (sdraws tr) aa)
  end.
Proof. intros H. apply gen_run_from in H. exact H. Qed.

(* packet number k+1 is emitted at initial_delay + (a_0 + ... + a_k) with the k-th drawn size and id k+1 *)
Corollary generator_law_nth c t0 acts g tr k t i s ct f :
  gen_run c (gen0 t0) acts = Some (g, tr) ->
  nth_error (emissions tr) k = Some (t, (i, s, ct, f)) ->
  t == t0 + g_init c + qsum (firstn (S k) (adraws tr)) /\ ct == t /\ i = (Z.of_nat k + 1)%Z /\
  nth_error (sdraws tr) k = Some s /\ f = g_flow c.
Proof.
  intros H Hk. apply generator_law in H.
  destruct (adraws tr) as [|a aa].
  - rewrite H in Hk. destruct k; discriminate.
  - assert (exists y, nth_error (spec (g_flow c) (t0 + g_init c + a) 0 (sdraws tr) aa) k = Some y /\ em_equiv (t, (i, s, ct, f)) y)
      as (y & Hy & He).
    { clear -H Hk. revert k Hk. induction H as [|x y l l' Hxy Hl IH]; intros k Hk.
      - destruct k; discriminate.
      - destruct k; cbn [nth_error] in *; [injection Hk as ->; eauto|eauto]. }
    destruct y as [t' [[[i' s'] c'] f']]. cbn in He. destruct He as (A & -> & -> & D & ->).
    apply spec_nth in Hy as (Ht & Hc & Hi & Hs & Hf).
    cbn [firstn qsum]. split; [rewrite A, Ht; ring|]. split; [rewrite D, Hc, A; reflexivity|].
    split; [lia|]. split; auto.
Qed.

(* a further inter-arrival draw is made exactly while the clock is before `finish` *)
Lemma gen_draw_iff c : forall acts g g' tr, gen_run c g acts = Some (g', tr) ->
  Forall (fun e => match e with
                   | (t, GInitFire a, _) | (t, GFire _ a, _) => (a <> None <-> before_finish c t = true)
                   | _ => True
                   end) tr.
Proof.
  induction acts as [|x acts IH]; intros g g' tr H; cbn [gen_run] in H.
  - injection H as <- <-. constructor.
  - destruct (gen_act c g x) as [[g1 outs]|] eqn:Ea; [|discriminate].
    destruct (gen_run c g1 acts) as [[g2 tr1]|] eqn:Er; [|discriminate].
    injection H as <- <-. constructor; [|eapply IH; eauto].
    unfold gen_act in Ea. destruct x as [|a|s a|t]; auto.
    + destruct (gph g); try discriminate. destruct (Qeq_bool dl (gnow g)); [|discriminate].
      destruct (loop_head c g a) as [g1'|] eqn:El; [|discriminate]. injection Ea as <- <-.
      apply loop_head_inv in El as (Hn & _ & [(d & -> & _ & Hb)|(-> & _ & Hb)]); rewrite Hn, Hb; split; congruence.
    + destruct (gph g); try discriminate. destruct (Qeq_bool dl (gnow g)); [|discriminate].
      destruct (loop_head c _ a) as [g1'|] eqn:El; [|discriminate]. injection Ea as <- <-.
      apply loop_head_inv in El as (Hn & _ & [(d & -> & _ & Hb)|(-> & _ & Hb)]); cbn [gnow] in *; rewrite Hn, Hb; split; congruence.
Qed.

Example generator_example :
  exists g tr, gen_run {| g_init := 1; g_finish := Some 4; g_flow := 7 |} (gen0 0)
    [GStart; GAdvance 1; GInitFire (Some (1#2)); GAdvance (3#2); GFire 100 (Some 3); GAdvance (9#2); GFire 200 None] = Some (g, tr)
    /\ emissions tr = [(3#2, (1, 100, 3#2, 7)%Z); (9#2, (2, 200, 9#2, 7)%Z)].
Proof. eexists; eexists; split; vm_compute; reflexivity. Qed.

(* ---------------------------------------------------------------------------------------------- *)
(* sink *)

Definition dkey (d : deliv) : Z := match d with (k, _, _, _) => k end.
Definition dsize (d : deliv) : Z := match d with (_, s, _, _) => s end.
Definition dptime (d : deliv) : Q := match d with (_, _, p, _) => p end.
Definition dnow (d : deliv) : Q := match d with (_, _, _, n) => n end.

Definition of_key (k : Z) (ds : list deliv) : list deliv := filter (fun d => Z.eqb (dkey d) k) ds.

Definition put1 (c : scfg) (r : krec) (d : deliv) : krec := sink_put_rec c r (dsize d) (dptime d) (dnow d).

Lemma lookup_upd_same k f m : lookup k (upd k f m) = f (lookup k m).
Proof.
  induction m as [|[k' r] m IH]; cbn [upd lookup].
  - rewrite Z.eqb_refl. reflexivity.
  - destruct (Z.eqb k k') eqn:E; cbn [lookup]; rewrite E; auto.
Qed.

Lemma lookup_upd_other k k' f m : k <> k' -> lookup k (upd k' f m) = lookup k m.
Proof.
  intros Hne. induction m as [|[k'' r] m IH]; cbn [upd lookup].
  - destruct (Z.eqb k k') eqn:E; [apply Z.eqb_eq in E; contradiction|reflexivity].
  - destruct (Z.eqb k' k'') eqn:E; cbn [lookup].
    + apply Z.eqb_eq in E. subst k''. destruct (Z.eqb k k') eqn:E2; [apply Z.eqb_eq in E2; contradiction|reflexivity].
    + destruct (Z.eqb k k''); auto.
Qed.

(* the books of key k depend only on the deliveries with key k, in their order *)
Lemma sink_key_separation c k : forall ds m,
  lookup k (fold_left (sink_put c) ds m) = fold_left (put1 c) (of_key k ds) (lookup k m).
Proof.
  induction ds as [|d ds IH]; intros m; cbn [fold_left of_key filter]; [reflexivity|].
  rewrite IH. destruct d as [[[k' s] p] n]. unfold sink_put. cbn [dkey].
  destruct (Z.eqb k' k) eqn:E.
  - apply Z.eqb_eq in E. subst k'. rewrite lookup_upd_same. reflexivity.
  - apply Z.eqb_neq in E. rewrite lookup_upd_other by congruence. reflexivity.
Qed.

(* closed forms for one key *)
Fixpoint zsum (l : list Z) : Z := match l with [] => 0%Z | x :: t => (x + zsum t)%Z end.
Fixpoint diffs (prev : Q) (l : list Q) : list Q :=
  match l with [] => [] | x :: t => (x - prev) :: diffs x t end.

Lemma last_cons (A : Type) (l : list A) : forall (x d : A), last (x :: l) d = last l x.
Proof.
  induction l as [|y l IH]; intros x d; [reflexivity|].
  change (last (x :: y :: l) d) with (last (y :: l) d). rewrite !IH. reflexivity.
Qed.

Lemma fold_put1 c : forall ds r,
  let r' := fold_left (put1 c) ds r in
  k_packets r' = (k_packets r + Z.of_nat (length ds))%Z /\
  k_bytes r' = (k_bytes r + zsum (map dsize ds))%Z /\
  (rec_waits c = true ->
     k_waits r' = k_waits r ++ map (fun d => dnow d - dptime d) ds /\
     k_sizes r' = k_sizes r ++ map dsize ds /\ k_times r' = k_times r ++ map dptime ds) /\
  (rec_waits c = false -> k_waits r' = k_waits r /\ k_sizes r' = k_sizes r /\ k_times r' = k_times r) /\
  (rec_arrivals c = true ->
     k_last r' = last (map dnow ds) (k_last r) /\
     (absolute_arrivals c = true -> k_arrivals r' = k_arrivals r ++ map dnow ds) /\
     (absolute_arrivals c = false -> k_arrivals r' = k_arrivals r ++ diffs (k_last r) (map dnow ds)) /\
     k_first r' = match k_arrivals r, ds with [], d :: _ => dnow d | _, _ => k_first r end) /\
  (rec_arrivals c = false -> k_arrivals r' = k_arrivals r /\ k_first r' = k_first r /\ k_last r' = k_last r).
Proof.
  induction ds as [|d ds IH]; intros r; cbn [fold_left].
  - cbn. rewrite !app_nil_r, Z.add_0_r. repeat split; auto; try lia. destruct (k_arrivals r); auto.
  - specialize (IH (put1 c r d)). cbv zeta in IH.
    destruct IH as (P & B & W & W' & A & A').
    set (r1 := put1 c r d) in *. set (r' := fold_left (put1 c) ds r1) in *.
    assert (P1 : k_packets r1 = (k_packets r + 1)%Z) by reflexivity.
    assert (B1 : k_bytes r1 = (k_bytes r + dsize d)%Z) by reflexivity.
    cbn [length map zsum].
    split; [rewrite P, P1; lia|]. split; [rewrite B, B1; lia|].
    split; [|split; [|split]].
    + intros Hw. destruct (W Hw) as (W1 & W2 & W3). unfold r1, put1, sink_put_rec in W1, W2, W3; cbn in W1, W2, W3.
      rewrite Hw in *. rewrite W1, W2, W3, <- !app_assoc. auto.
    + intros Hw. destruct (W' Hw) as (W1 & W2 & W3). unfold r1, put1, sink_put_rec in W1, W2, W3; cbn in W1, W2, W3.
      rewrite Hw in *. auto.
    + intros Ha. destruct (A Ha) as (L & Ab & Ad & F).
      unfold r1, put1, sink_put_rec in L, Ab, Ad, F; cbn in L, Ab, Ad, F. rewrite Ha in *.
      split; [|split; [|split]].
      * rewrite L. cbn [map]. rewrite last_cons. reflexivity.
      * intros Habs. rewrite Habs in *. rewrite (Ab eq_refl), <- app_assoc. reflexivity.
      * intros Habs. rewrite Habs in *. rewrite (Ad eq_refl), <- app_assoc. reflexivity.
      * rewrite F. destruct (k_arrivals r); cbn [app]; [destruct ds; reflexivity|destruct ds; reflexivity].
    + intros Ha. destruct (A' Ha) as (A1 & A2 & A3). unfold r1, put1, sink_put_rec in A1, A2, A3; cbn in A1, A2, A3.
      rewrite Ha in *. auto.
Qed.

(* PacketSink's books for key k are exactly those of the packets delivered with key k *)
Theorem sink_books c ds k :
  let r := lookup k (sink_run c ds) in
  let dk := of_key k ds in
  k_packets r = Z.of_nat (length dk) /\
  k_bytes r = zsum (map dsize dk) /\
  (rec_waits c = true -> k_waits r = map (fun d => dnow d - dptime d) dk /\ k_sizes r = map dsize dk /\ k_times r = map dptime dk) /\
  (rec_arrivals c = true ->
     (absolute_arrivals c = true -> k_arrivals r = map dnow dk) /\
     (absolute_arrivals c = false -> k_arrivals r = diffs 0 (map dnow dk)) /\
     k_first r = match dk with d :: _ => dnow d | [] => 0 end /\
     k_last r = last (map dnow dk) 0).
Proof.
  cbv zeta. unfold sink_run. rewrite sink_key_separation. cbn [lookup].
  destruct (fold_put1 c (of_key k ds) krec0) as (P & B & W & _ & A & _).
  cbn [krec0 k_packets k_bytes k_waits k_sizes k_times k_arrivals k_first k_last app] in *.
  split; [rewrite P; lia|]. split; [rewrite B; lia|]. split; [exact W|].
  intros Ha. destruct (A Ha) as (L & Ab & Ad & F). repeat split; auto.
Qed.

Example sink_example :
  let c := {| rec_arrivals := true; absolute_arrivals := false; rec_waits := true |} in
  let r := lookup 1 (sink_run c [(1%Z, 100%Z, 0, 2); (2%Z, 50%Z, 1, 3); (1%Z, 200%Z, 1, 5)]) in
  k_arrivals r = [2 - 0; 5 - 2] /\ k_packets r = 2%Z /\ k_bytes r = 300%Z.
Proof. cbv zeta. repeat split; reflexivity. Qed.
