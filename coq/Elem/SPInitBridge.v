(* Bridging lemma (DESIGN 2.6, second tie) for SP.__init__: the constructor as translated from the tree under test on every
   run (Gen/Extracted_spinit.v) fixes the scan order the hand-written model of SP uses (Elem/SP.v: [sort_desc], the [pass]
   of [sp_cfg]).  Python's sorted(items, key=lambda item: item[k], reverse=r) is taken as a STABLE sort by the k-th
   component (reverse=True keeps the original order of equal keys as well); its meaning for the parameters the code
   passes is [py_sorted]. *)
From Coq Require Import ZArith QArith List Bool Lia.
From ONL Require Import Elem.Packet Elem.StoreQ Elem.SchedBase Elem.SP Gen.Extracted_spinit.
Import ListNotations.

(* stable insertion sort: [before x y] = x, the earlier element, stays in front of y *)
Fixpoint ins_gen (before : Z * Z -> Z * Z -> bool) (x : Z * Z) (l : list (Z * Z)) : list (Z * Z) :=
  match l with
  | [] => [x]
  | y :: t => if before x y then x :: y :: t else y :: ins_gen before x t
  end.
Fixpoint sort_gen (before : Z * Z -> Z * Z -> bool) (l : list (Z * Z)) : list (Z * Z) :=
  match l with [] => [] | x :: t => ins_gen before x (sort_gen before t) end.

Definition key_of (k : Z) (x : Z * Z) : option Z :=
  if Z.eqb k 0 then Some (fst x) else if Z.eqb k 1 then Some (snd x) else None.      (* item[k] of a pair; other k: IndexError *)

Definition py_sorted (k : Z) (rev : bool) (tbl : list (Z * Z)) : option (list (Z * Z)) :=
  if Z.eqb k 0 then Some (sort_gen (fun x y => if rev then Z.leb (fst y) (fst x) else Z.leb (fst x) (fst y)) tbl)
  else if Z.eqb k 1 then Some (sort_gen (fun x y => if rev then Z.leb (snd y) (snd x) else Z.leb (snd x) (snd y)) tbl)
  else None.

Definition sp_init_fx (tbl : list (Z * Z)) (fx : list spinit_fx) : option (list (Z * nat)) :=
  match fx with
  | [FxBaseInit; FxSortPriorities k rev; FxStartRun] =>
      match py_sorted k rev tbl with Some l => Some (map sp_slot l) | None => None end
  | _ => None
  end.

Lemma sort_gen_desc tbl : sort_gen (fun x y => Z.leb (snd y) (snd x)) tbl = sort_desc tbl.
Proof.
  induction tbl as [|x t IH]; [reflexivity|]. cbn. rewrite IH. generalize (sort_desc t). intros l.
  induction l as [|y l IHl]; [reflexivity|]. cbn. destruct (Z.leb (snd y) (snd x)); [reflexivity|]. rewrite IHl. reflexivity.
Qed.

Lemma bridge_sp_init fixed r cm fl tbl :
  sp_init_fx tbl gen_SP_init = Some (pass (sp_cfg fixed r cm fl tbl)).
Proof. unfold gen_SP_init, sp_init_fx, py_sorted. cbn. rewrite sort_gen_desc. reflexivity. Qed.
