(* The switches of onl/netdev/switch.py as composed interface elements (Elem/ComposeSwitch.v over the adapters):
     SimplePacketSwitch(env, n, rate, buffer)            = FlowDemux over n Ports (packet limit `buffer`)
     FairPacketSwitch(env, n, rate, buffer, weights, server, flow2class)
                                                         = FIBDemux over n branches `egress Port(rate 0, limit buffer) >> scheduler`,
                                                           scheduler = SP | WFQ | VirtualClock | DRR with the given flow2class;
                                                           the application sets demux.fib (and demux.ends) afterwards.
   The decision functions are Route/Demux.v's simple_switch / fair_switch (C18). *)
From Coq Require Import ZArith QArith List Bool Permutation Lia Arith.
From ONL Require Import Elem.Packet Elem.StoreQ Elem.Port Elem.PortProofs Elem.Iface Elem.Compose Elem.ComposePar Elem.ComposeHands
  Elem.ComposeFan Elem.ComposeSwitch Elem.AdaptPort Elem.AdaptTagged Route.Demux Route.DemuxProofs.
Import ListNotations.
Local Open Scope Q_scope.

(* ---- SimplePacketSwitch ---------------------------------------------------------------------------------------------- *)
Definition sswitch_port (rate : Q) (buf : option Z) (eid : nat -> ekey) (t0 : Q) (i : nat) : elem :=
  port_elem (port_cfg all_fixed rate buf false (eid i)) t0.
Definition sswitch_elem (n : nat) (rate : Q) (buf : option Z) (eid : nat -> ekey) (t0 : Q) : elem :=
  switch (simple_switch true n) t0 n (map (sswitch_port rate buf eid t0) (seq 0 n)).

Lemma Forall_map_seq {P : elem -> Prop} (f : nat -> elem) a n : (forall i, P (f i)) -> Forall P (map f (seq a n)).
Proof. intros H. apply Forall_forall. intros x Hx. apply in_map_iff in Hx as (i & <- & _). apply H. Qed.

Theorem sswitch_laws n rate buf eid t0 :
  laws (sswitch_elem n rate buf eid t0) /\ timed (sswitch_elem n rate buf eid t0) /\ tagged (sswitch_elem n rate buf eid t0).
Proof.
  split; [|split].
  - apply switch_laws. apply Forall_map_seq. intros i. apply port_elem_laws.
  - apply switch_timed. apply Forall_map_seq. intros i. apply port_elem_timed.
  - apply switch_tagged. apply Forall_map_seq. intros i. apply port_elem_tagged.
Qed.

(* the slot a packet is routed to: port i gets exactly flow i (C18_simple_switch_rule) *)
Lemma sswitch_slot n i p : (i < n)%nat ->
  routed (simple_switch true n) p && Nat.eqb (bidx n (simple_switch true n) p) i = Z.eqb (flow p) (Z.of_nat i).
Proof.
  intros Hi. unfold routed, bidx. destruct (simple_switch_rule n (flow p)) as [R1 R2].
  destruct (Z_le_dec 0 (flow p)) as [L|L]; [destruct (Z_lt_dec (flow p) (Z.of_nat n)) as [U|U]|].
  - rewrite (R1 (conj L U)). cbn [out_slot andb]. destruct (Nat.eqb_spec (Z.to_nat (flow p)) i), (Z.eqb_spec (flow p) (Z.of_nat i)); try reflexivity; lia.
  - rewrite R2 by lia. cbn [andb]. symmetry. apply Z.eqb_neq. lia.
  - rewrite R2 by lia. cbn [andb]. symmetry. apply Z.eqb_neq. lia.
Qed.
Lemma sswitch_unrouted n p : routed (simple_switch true n) p = false <-> ~ (0 <= flow p < Z.of_nat n)%Z.
Proof.
  unfold routed. destruct (simple_switch_rule n (flow p)) as [R1 R2]. split.
  - intros H C. rewrite (R1 C) in H. discriminate.
  - intros C. rewrite (R2 C). reflexivity.
Qed.

(* every port of the switch, inside ANY execution of the switch: it runs as a Port alone would (so all of C09 / C08_Port holds
   for it), it was given exactly the packets of its flow, in order; its counted drops are its refusals; what it forwards is
   delivered by the switch; flows without a port are discarded by the demux *)
Theorem sswitch_port_view n rate buf eid t0 : forall acts s tr,
  run (sswitch_elem n rate buf eid t0) (init (sswitch_elem n rate buf eid t0)) acts = Some (s, tr) ->
  (forall i, (i < n)%nat ->
     exists (sP : port) pacts ptr,
       bank_has t0 (map (sswitch_port rate buf eid t0) (seq 0 n)) (bidx n (simple_switch true n)) (snd s) i (sswitch_port rate buf eid t0 i) sP /\
       port_run (port_cfg all_fixed rate buf false (eid i)) (port0 t0) pacts = Some (sP, ptr) /\
       PortProofs.puts ptr = filter (fun p => Z.eqb (flow p) (Z.of_nat i)) (Iface.puts tr) /\
       sublist (forwarded ptr) (fwds tr) /\ (forall p, In p (dropped ptr) -> In p (drops tr)) /\
       pdrop sP = Z.of_nat (length (dropped ptr)) /\
       Permutation (PortProofs.puts ptr) (forwarded ptr ++ dropped ptr ++ port_held sP)) /\
  (forall p, In p (Iface.puts tr) -> ~ (0 <= flow p < Z.of_nat n)%Z -> In p (drops tr)).
Proof.
  intros acts s tr H. split.
  - intros i Hi.
    assert (Hn : nth_error (map (sswitch_port rate buf eid t0) (seq 0 n)) i = Some (sswitch_port rate buf eid t0 i)).
    { apply nth_error_map_seq. exact Hi. }
    destruct (switch_branch_exists _ _ _ _ _ _ _ H i _ Hn) as (sE & acts_i & tr_i & Hh & R & P & Fw & Dr).
    unfold sswitch_port in R.
    destruct (port_elem_run _ _ _ _ _ _ R) as (ptr & PR & -> & _).
    rewrite port_puts in P. rewrite port_fwds in Fw. rewrite port_drops in Dr.
    exists sE, (map p_to acts_i), ptr. split; [exact Hh|]. split; [exact PR|].
    destruct (port_conserves _ _ _ _ _ PR) as (C1 & C2 & _).
    repeat split; auto. rewrite P. apply filter_ext. intros p. apply sswitch_slot. exact Hi.
  - intros p Hp Hr. apply (switch_unrouted_dropped _ _ _ _ _ _ _ H p Hp). apply sswitch_unrouted. exact Hr.
Qed.

(* ---- FairPacketSwitch -------------------------------------------------------------------------------------------------- *)
From ONL Require Import Elem.SchedBase Elem.SchedBaseProofs Elem.SP Elem.HeapList Elem.WFQServer Elem.WFQ Elem.VC Elem.WFQInst Elem.DRR Elem.DRRInv
  Elem.AdaptSched Elem.AdaptSrv Elem.AdaptDRR.
Import ONL.Elem.Iface.

(* branch i: the egress port (rate 0, packet limit `buf`, element id eid i) handing every packet at once to its scheduler *)
Definition fbranch (buf : option Z) (eid : nat -> Port.ekey) (sched : elem) (t0 : Q) (i : nat) : elem :=
  port_elem (port_cfg all_fixed 0 buf false (eid i)) t0 >> sched.
(* ends: the end devices registered in demux.ends afterwards (fs_ends c maps a flow to an index into this list) *)
Definition fswitch_elem (c : fair_cfg) (buf : option Z) (eid : nat -> Port.ekey) (sched : elem) (ends : list elem) (t0 : Q) : elem :=
  switch (fair_switch true true c) t0 (fs_nports c)
         (map (fbranch buf eid sched t0) (List.seq 0 (fs_nports c)) ++ nil_elem t0 :: ends).

Theorem fswitch_laws c buf eid sched ends t0 :
  (laws sched -> Forall laws ends -> laws (fswitch_elem c buf eid sched ends t0)) /\
  (timed sched -> Forall timed ends -> timed (fswitch_elem c buf eid sched ends t0)) /\
  (tagged sched -> Forall tagged ends -> tagged (fswitch_elem c buf eid sched ends t0)).
Proof.
  split; [|split]; intros Hs He.
  - apply switch_laws. apply Forall_app. split; [|constructor; [apply nil_elem_laws|exact He]].
    apply Forall_map_seq. intros i. apply series_laws; [apply port_elem_laws|exact Hs].
  - apply switch_timed. apply Forall_app. split; [|constructor; [apply nil_elem_timed|exact He]].
    apply Forall_map_seq. intros i. apply series_timed; [apply port_elem_timed|exact Hs].
  - apply switch_tagged. apply Forall_app. split; [|constructor; [apply nil_elem_tagged|exact He]].
    apply Forall_map_seq. intros i. apply series_tagged; [apply port_elem_tagged|exact Hs].
Qed.

(* for ANY decision function: slot i < nouts is reached exactly by the decision OOut i *)
Lemma slot_out route nouts i p : (i < nouts)%nat ->
  routed route p && Nat.eqb (bidx nouts route p) i = output_eqb (route (flow p)) (OOut i).
Proof.
  intros Hi. unfold routed, bidx. destruct (route (flow p)) as [d|j| | |e]; cbn [out_slot andb output_eqb]; try reflexivity.
  - apply Nat.eqb_neq. lia.
  - apply Nat.eqb_neq. lia.
Qed.

(* every branch of the switch, inside ANY execution of the switch: the egress port and the scheduler run as they would alone;
   the egress port was given exactly the packets the FIB rule sends to output i (C18_fair_switch_rule), the scheduler exactly what
   the egress port forwarded, and what the scheduler forwards is delivered by the switch *)
Theorem fswitch_branch_view c buf eid sched ends t0 : forall acts s tr,
  run (fswitch_elem c buf eid sched ends t0) (init (fswitch_elem c buf eid sched ends t0)) acts = Some (s, tr) ->
  forall i, (i < fs_nports c)%nat ->
  exists (sP : port) (sS : st sched) pacts ptr sacts str,
    port_run (port_cfg all_fixed 0 buf false (eid i)) (port0 t0) pacts = Some (sP, ptr) /\
    run sched (init sched) sacts = Some (sS, str) /\
    PortProofs.puts ptr = filter (fun p => output_eqb (fair_switch true true c (flow p)) (OOut i)) (Iface.puts tr) /\
    Iface.puts str = forwarded ptr /\ sublist (fwds str) (fwds tr) /\
    pdrop sP = Z.of_nat (length (dropped ptr)) /\ (forall p, In p (dropped ptr) -> In p (drops tr)).
Proof.
  intros acts s tr H i Hi.
  assert (Hn : nth_error (map (fbranch buf eid sched t0) (List.seq 0 (fs_nports c)) ++ nil_elem t0 :: ends) i = Some (fbranch buf eid sched t0 i)).
  { rewrite nth_error_app1 by (rewrite map_length, seq_length; exact Hi). apply nth_error_map_seq. exact Hi. }
  destruct (switch_branch_exists _ _ _ _ _ _ _ H i _ Hn) as ([sP sS] & acts_i & tr_i & Hh & R & P & Fw & Dr).
  unfold fbranch in R.
  destruct (series_projection_init _ _ _ _ _ R) as (trP & trS & RP & RS & P1 & P2 & P3 & P4). cbn [fst snd] in RP, RS.
  destruct (port_elem_run _ _ _ _ _ _ RP) as (ptr & PR & -> & _).
  rewrite port_puts in P1. rewrite port_fwds in P2. rewrite port_drops in P4.
  exists sP, sS, (map p_to (actsA (port_elem (port_cfg all_fixed 0 buf false (eid i)) t0) sched acts_i)), ptr,
         (actsB (port_elem (port_cfg all_fixed 0 buf false (eid i)) t0) sched (init (port_elem (port_cfg all_fixed 0 buf false (eid i)) t0)) acts_i), trS.
  destruct (port_conserves _ _ _ _ _ PR) as (_ & C2 & _).
  repeat split; auto.
  - rewrite P1. etransitivity; [exact P|]. apply filter_ext. intros p. apply slot_out. exact Hi.
  - rewrite P3. exact Fw.
  - intros p Hp. apply Dr. apply (Permutation_in p (Permutation_sym P4)). apply in_or_app. left. exact Hp.
Qed.

(* the four servers FairPacketSwitch offers, each with the switch's flow2class (any function; several flows per class) *)
Definition fs_sp (c : fair_cfg) (r : Q) (fl : list Z) (tbl : list (Z * Z)) : elem := sp_elem r (fs_class c) fl tbl.
Definition fs_wfq (c : fair_cfg) (r : Q) (ws : list (Z * Z)) : elem :=
  wfq_elem {| wrate := r; wweights := ws; wf2c := fs_class c; wfix_first := true |}.
Definition fs_vc (c : fair_cfg) (r : Q) (vt : list (Z * Q)) : elem := vc_elem {| vrate := r; vticks := vt; vf2c := fs_class c |}.
Definition fs_drr (c : fair_cfg) (r : Q) (ws : list (Z * Z)) (t0 : Q) : elem := drr_elem {| drate := r; dweights := ws; df2c := fs_class c |} t0.

Theorem fswitch_servers_laws c buf eid t0 :
  (forall r fl tbl, 0 < r -> (forall k p, In (k, p) tbl -> (0 < p)%Z) -> laws (fswitch_elem c buf eid (fs_sp c r fl tbl) [] t0)) /\
  (forall r ws, wcfg_ok {| wrate := r; wweights := ws; wf2c := fs_class c; wfix_first := true |} ->
                laws (fswitch_elem c buf eid (fs_wfq c r ws) [] t0)) /\
  (forall r vt, vcfg_ok {| vrate := r; vticks := vt; vf2c := fs_class c |} -> laws (fswitch_elem c buf eid (fs_vc c r vt) [] t0)) /\
  (forall r ws, dwf {| drate := r; dweights := ws; df2c := fs_class c |} -> laws (fswitch_elem c buf eid (fs_drr c r ws t0) [] t0)).
Proof.
  split; [|split; [|split]]; intros.
  - apply (proj1 (fswitch_laws _ _ _ _ _ _)); [apply sp_elem_laws; assumption|constructor].
  - apply (proj1 (fswitch_laws _ _ _ _ _ _)); [apply wfq_elem_laws; assumption|constructor].
  - apply (proj1 (fswitch_laws _ _ _ _ _ _)); [apply vc_elem_laws; assumption|constructor].
  - apply (proj1 (fswitch_laws _ _ _ _ _ _)); [apply drr_elem_laws; assumption|constructor].
Qed.
