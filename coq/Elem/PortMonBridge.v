(* Bridging lemma (DESIGN 2.6, second tie) for PortMonitor: the statements run() executes at each sampling instant, as
   translated from the tree under test on every run (Gen/Extracted_portmon.v), append exactly the sample the
   hand-written model takes ([sample true incl s] of Elem/Port.v, the PSample action). *)
From Coq Require Import ZArith QArith List Bool Lia.
From ONL Require Import Elem.Packet Elem.StoreQ Elem.Port Gen.Extracted_portmon.
Import ListNotations.

(* the generated statements on the port fields read off the abstract state *)
Definition portmon_gen_sample (incl : bool) (s : port) : list mon_fx :=
  gen_PortMonitor_sample incl (pbytes s) (Z.of_nat (length (items (pq s)))) (busy_flag s) (busy_size s).

(* sizes.append(n) then sizes_byte.append(b)  =  the model's output OSample n b *)
Definition mon_fx_output (fx : list mon_fx) : option pout :=
  match fx with
  | [FxSize n; FxSizeByte b] => Some (OSample n b)
  | _ => None
  end.

Lemma bridge_portmon_sample incl s :
  mon_fx_output (portmon_gen_sample incl s) = Some (sample true incl s).
Proof.
  unfold portmon_gen_sample, gen_PortMonitor_sample, sample, mon_fx_output.
  destruct incl; cbn; reflexivity.
Qed.
