(* Invariants of the DRR model (Elem/DRR.v): what is held per class, the counters, the control state of
   run(), the wake-up token, the credit.  [dinv_step]: every enabled action preserves them. *)
From Coq Require Import ZArith QArith Qminmax List Bool Lia Lqa.
From ONL Require Import Elem.Packet Elem.StoreQ Elem.StoreQProofs Elem.DRR.
Import ListNotations.
Opaque Qred.

(* ---- configuration -------------------------------------------------------------------------------- *)
Definition dwf (cfg : dcfg) : Prop :=
  0 < drate cfg /\ dweights cfg <> [] /\ NoDup (dclasses cfg) /\ (forall x, In x (dweights cfg) -> (0 < snd x)%Z).

(* ---- what the scheduler holds ------------------------------------------------------------------------ *)
Definition dcls (cfg : dcfg) (p : pkt) : Z := df2c cfg (flow p).

Definition dtx_l (cfg : dcfg) (d : drr) (c : Z) : list pkt :=
  match dchd d with
  | DCStart p | DCTx p _ => if Z.eqb (dcls cfg p) c then [p] else []
  | _ => []
  end.
Definition dhol_l (d : drr) (c : Z) : list pkt := match dhol d c with Some p => [p] | None => [] end.
Definition dsth (d : drr) (c : Z) : list pkt := map snd (sq_held (dst d c)).
(* packets of class c waiting or in transmission, oldest first *)
Definition dheld (cfg : dcfg) (d : drr) (c : Z) : list pkt := dtx_l cfg d c ++ dhol_l d c ++ dsth d c.
(* the packet already forwarded whose debit is still to come *)
Definition ddone (cfg : dcfg) (d : drr) (c : Z) : Z :=
  match dchd d with DCDone p => if Z.eqb (dcls cfg p) c then 1%Z else 0%Z | _ => 0%Z end.

Definition dvisiting (d : drr) : option Z :=
  match dctrl d with DKGet c _ | DKChild c _ => Some c | _ => None end.

Fixpoint dsum (g : Z -> Z) (l : list Z) : Z := match l with [] => 0%Z | c :: t => (g c + dsum g t)%Z end.
Definition dlen (cfg : dcfg) (d : drr) (c : Z) : Z := Z.of_nat (length (dheld cfg d c)).
Fixpoint dbytes (l : list pkt) : Z := match l with [] => 0%Z | p :: t => (psize p + dbytes t)%Z end.
Definition dof_flow (f : Z) (l : list pkt) : list pkt := filter (fun p => Z.eqb (flow p) f) l.

(* the credit of a class that is not being visited: nothing left, or its parked head is unaffordable *)
Definition dparked_or_zero (d : drr) (c : Z) : Prop :=
  match dhol d c with Some p => ddef d c < inject_Z (psize p) | None => ddef d c == 0 end.

(* ---- the part of the invariant that does not depend on where run() is ---------------------------------- *)
Record dbase (cfg : dcfg) (d : drr) : Prop := {
  b_cls : forall c p, In p (dheld cfg d c) -> dcls cfg p = c /\ In c (dclasses cfg) /\ (0 < psize p <= dlmax d)%Z;
  b_ccnt : forall c, dccnt d c = (dlen cfg d c + ddone cfg d c)%Z;
  b_qcnt : forall f, dqcnt d f = Z.of_nat (length (dof_flow f (dheld cfg d (df2c cfg f))));
  b_qbytes : forall f, dqbytes d f = dbytes (dof_flow f (dheld cfg d (df2c cfg f)));
  b_total : dtotal d = dsum (dlen cfg d) (dclasses cfg);
  b_lmax : (0 <= dlmax d)%Z;
  b_nostrand : sq_nostrand (dtok d);
  b_def : forall c, 0 <= ddef d c /\ (In c (dclasses cfg) -> ddef d c < dquantum cfg c + inject_Z (dlmax d))
}.

(* ---- the full invariant at action boundaries ----------------------------------------------------------- *)
Definition dsuffix (cfg : dcfg) (l : list Z) : Prop := exists pre, dclasses cfg = pre ++ l.

Definition dctl_ok (cfg : dcfg) (d : drr) : Prop :=
  match dctrl d with
  | DKFresh => dchd d = DCNone /\ get (dtok d) = GNone /\ (forall c, get (dst d c) = GNone)
  | DKTok => dchd d = DCNone /\ get (dtok d) <> GNone /\ (forall c, get (dst d c) = GNone)
  | DKGet c rest =>
      dchd d = DCNone /\ get (dtok d) = GNone /\ (exists x, get (dst d c) = GGranted x)
      /\ (forall c', c' <> c -> get (dst d c') = GNone) /\ dhol d c = None /\ dsuffix cfg (c :: rest) /\ 0 < ddef d c
  | DKChild c rest =>
      (exists p, (dchd d = DCStart p \/ (exists dl, dchd d = DCTx p dl /\ dnow d <= dl) \/ dchd d = DCDone p)
                 /\ dcls cfg p = c /\ inject_Z (psize p) <= ddef d c /\ (0 < psize p <= dlmax d)%Z)
      /\ get (dtok d) = GNone /\ (forall c', get (dst d c') = GNone) /\ dhol d c = None /\ dsuffix cfg (c :: rest)
      /\ In c (dclasses cfg)
  end.

Record dinv (cfg : dcfg) (d : drr) : Prop := {
  i_base : dbase cfg d;
  i_ctl : dctl_ok cfg d;
  i_tok : dctrl d = DKTok -> get (dtok d) = GWaiting -> (0 < dtotal d)%Z -> items (dtok d) <> [];
  i_rest : forall c, dvisiting d <> Some c -> dparked_or_zero d c
}.

(* ---- in the middle of run(): no child, no outstanding get; [vis] = class whose visit is in progress -------- *)
Record dmid (cfg : dcfg) (d : drr) (vis : option Z) : Prop := {
  m_base : dbase cfg d;
  m_chd : dchd d = DCNone;
  m_tok : get (dtok d) = GNone;
  m_get : forall c, get (dst d c) = GNone;
  m_rest : forall c, vis <> Some c -> dparked_or_zero d c;
  m_vis : forall c, vis = Some c ->
          In c (dclasses cfg) /\ ((dccnt d c = 0%Z \/ ddef d c <= 0) -> ddef d c == 0 /\ dhol d c = None)
}.

(* ---- small facts ------------------------------------------------------------------------------------------ *)
Lemma dupd_eq {A} (m : Z -> A) k v : dupd m k v k = v.
Proof. unfold dupd. rewrite Z.eqb_refl. reflexivity. Qed.
Lemma dupd_neq {A} (m : Z -> A) k v g : g <> k -> dupd m k v g = m g.
Proof. unfold dupd. intros H. destruct (Z.eqb_spec g k); [contradiction|reflexivity]. Qed.

Lemma dmemZ_In x l : dmemZ x l = true <-> In x l.
Proof.
  unfold dmemZ. rewrite existsb_exists. split.
  - intros (y & Hy & E). apply Z.eqb_eq in E. subst. exact Hy.
  - intros H. exists x. split; [exact H|apply Z.eqb_refl].
Qed.

Lemma dsum_ext g h l : (forall c, In c l -> g c = h c) -> dsum g l = dsum h l.
Proof.
  induction l as [|c t IH]; cbn; intros H; [reflexivity|].
  rewrite (H c) by (left; reflexivity). rewrite IH; [reflexivity|]. intros x Hx. apply H. right. exact Hx.
Qed.

Lemma dsum_change g h l k :
  NoDup l -> In k l -> (forall c, c <> k -> g c = h c) -> dsum h l = (dsum g l + (h k - g k))%Z.
Proof.
  induction l as [|c t IH]; cbn; intros ND Hin Hext; [destruct Hin|].
  inversion ND as [|? ? Hnot ND']; subst.
  destruct (Z.eq_dec c k) as [->|Hne].
  - rewrite (dsum_ext h g t); [lia|]. intros x Hx. symmetry. apply Hext. intros ->. contradiction.
  - destruct Hin as [E|Hin]; [contradiction|]. rewrite (IH ND' Hin Hext). rewrite (Hext c Hne). lia.
Qed.

Lemma dsum_nonneg g l : (forall c, (0 <= g c)%Z) -> (0 <= dsum g l)%Z.
Proof. induction l; cbn; intros H; [lia|]. specialize (H a) as Ha. specialize (IHl H). lia. Qed.

Lemma dsum_pos_ex g l : (forall c, (0 <= g c)%Z) -> (0 < dsum g l)%Z -> exists c, In c l /\ (0 < g c)%Z.
Proof.
  induction l as [|c t IH]; cbn; intros H Hp; [lia|].
  destruct (Z_lt_dec 0 (g c)) as [Hc|Hc]; [exists c; auto|].
  destruct IH as (x & Hx & Hgx); auto. { specialize (H c). lia. } exists x; auto.
Qed.

Lemma dsum_zero_all g l : (forall c, (0 <= g c)%Z) -> dsum g l = 0%Z -> forall c, In c l -> g c = 0%Z.
Proof.
  induction l as [|x t IH]; cbn; intros H Hs c Hc; [destruct Hc|].
  pose proof (H x). pose proof (dsum_nonneg g t H).
  destruct Hc as [<-|Hc]; [lia|]. apply IH; auto. lia.
Qed.

Lemma dbytes_app a b : dbytes (a ++ b) = (dbytes a + dbytes b)%Z.
Proof. induction a; cbn; [reflexivity|]. rewrite IHa. lia. Qed.

Lemma dof_flow_app f a b : dof_flow f (a ++ b) = dof_flow f a ++ dof_flow f b.
Proof. unfold dof_flow. apply filter_app. Qed.

Lemma dquantum_eq cfg c : dquantum cfg c == inject_Z (1500 * dweight cfg c) / inject_Z (dminw (dweights cfg)).
Proof. unfold dquantum. apply Qred_correct. Qed.

(* ---- quantum ------------------------------------------------------------------------------------------------ *)
Lemma dfind_weight cfg c : In c (dclasses cfg) ->
  exists x, find (fun x => Z.eqb (fst x) c) (dweights cfg) = Some x /\ In x (dweights cfg) /\ fst x = c.
Proof.
  unfold dclasses. induction (dweights cfg) as [|y t IH]; cbn; intros H; [destruct H|].
  destruct (Z.eqb_spec (fst y) c) as [E|E].
  - exists y. auto.
  - destruct H as [H|H]; [contradiction|]. destruct (IH H) as (x & Hf & Hin & Hx). exists x. auto.
Qed.

Lemma dminw_fold_pos (t : list (Z * Z)) (m0 : Z) :
  (0 < m0)%Z -> (forall x, In x t -> (0 < snd x)%Z) -> (0 < fold_right (fun y m => Z.min (snd y) m) m0 t)%Z.
Proof.
  induction t as [|y t IH]; cbn; intros H0 H; [exact H0|].
  assert (0 < snd y)%Z by (apply H; left; reflexivity).
  assert (0 < fold_right (fun y m => Z.min (snd y) m) m0 t)%Z by (apply IH; auto).
  lia.
Qed.

Lemma dminw_fold_le (t : list (Z * Z)) (m0 : Z) :
  (fold_right (fun y m => Z.min (snd y) m) m0 t <= m0)%Z /\
  (forall x, In x t -> (fold_right (fun y m => Z.min (snd y) m) m0 t <= snd x)%Z).
Proof.
  induction t as [|y t [IH1 IH2]]; cbn.
  - split; [lia|intros x []].
  - split; [lia|]. intros x [<-|Hx]; [lia|]. specialize (IH2 x Hx). lia.
Qed.

Lemma dminw_pos cfg : dwf cfg -> (0 < dminw (dweights cfg))%Z.
Proof.
  intros (_ & Hne & _ & Hpos). unfold dminw. destruct (dweights cfg) as [|x t]; [contradiction|].
  apply dminw_fold_pos; [apply Hpos; left; reflexivity|]. intros y Hy. apply Hpos. right. exact Hy.
Qed.

Lemma dminw_le cfg x : In x (dweights cfg) -> (dminw (dweights cfg) <= snd x)%Z.
Proof.
  unfold dminw. destruct (dweights cfg) as [|y t]; [intros []|].
  destruct (dminw_fold_le t (snd y)) as [H1 H2]. intros [<-|Hx]; [exact H1|apply H2; exact Hx].
Qed.

Lemma dweight_pos cfg c : dwf cfg -> In c (dclasses cfg) -> (dminw (dweights cfg) <= dweight cfg c)%Z /\ (0 < dweight cfg c)%Z.
Proof.
  intros Hwf Hc. destruct (dfind_weight cfg c Hc) as (x & Hf & Hin & _).
  unfold dweight. rewrite Hf. split; [apply dminw_le; exact Hin|]. destruct Hwf as (_ & _ & _ & Hpos). apply Hpos. exact Hin.
Qed.

(* every quantum is at least MIN_QUANTUM *)
Lemma dquantum_ge cfg c : dwf cfg -> In c (dclasses cfg) -> 1500 <= dquantum cfg c.
Proof.
  intros Hwf Hc. rewrite dquantum_eq.
  pose proof (dminw_pos cfg Hwf) as Hm. destruct (dweight_pos cfg c Hwf Hc) as [Hle Hw].
  apply Qle_shift_div_l.
  - change 0 with (inject_Z 0). rewrite <- Zlt_Qlt. lia.
  - change 1500 with (inject_Z 1500). rewrite <- inject_Z_mult, <- Zle_Qle. nia.
Qed.

Lemma dquantum_pos cfg c : dwf cfg -> In c (dclasses cfg) -> 0 < dquantum cfg c.
Proof. intros Hwf Hc. pose proof (dquantum_ge cfg c Hwf Hc). lra. Qed.

(* ---- internal moves keep what is held ------------------------------------------------------------------------- *)
Record dsame (cfg : dcfg) (d d' : drr) : Prop := {
  s_held : forall c, dheld cfg d' c = dheld cfg d c;
  s_ccnt : forall c, dccnt d' c = dccnt d c;
  s_qcnt : forall f, dqcnt d' f = dqcnt d f;
  s_qbytes : forall f, dqbytes d' f = dqbytes d f;
  s_total : dtotal d' = dtotal d;
  s_lmax : dlmax d' = dlmax d;
  s_now : dnow d' = dnow d
}.

Lemma dsame_refl cfg d : dsame cfg d d.
Proof. constructor; auto. Qed.

Lemma dsame_trans cfg a b c : dsame cfg a b -> dsame cfg b c -> dsame cfg a c.
Proof.
  intros [h1 c1 q1 y1 t1 l1 n1] [h2 c2 q2 y2 t2 l2 n2]. constructor; intros;
    [rewrite h2; apply h1|rewrite c2; apply c1|rewrite q2; apply q1|rewrite y2; apply y1|congruence|congruence|congruence].
Qed.

(* the same without the per-class count (it is decremented when run() resumes after a transmission) *)
Record dsameh (cfg : dcfg) (d d' : drr) : Prop := {
  h_held : forall c, dheld cfg d' c = dheld cfg d c;
  h_qcnt : forall f, dqcnt d' f = dqcnt d f;
  h_qbytes : forall f, dqbytes d' f = dqbytes d f;
  h_total : dtotal d' = dtotal d;
  h_lmax : dlmax d' = dlmax d;
  h_now : dnow d' = dnow d
}.

Lemma dsame_h cfg d d' : dsame cfg d d' -> dsameh cfg d d'.
Proof. intros [h c q y t l n]. constructor; auto. Qed.

Lemma dsameh_trans cfg a b c : dsameh cfg a b -> dsameh cfg b c -> dsameh cfg a c.
Proof.
  intros [h1 q1 y1 t1 l1 n1] [h2 q2 y2 t2 l2 n2]. constructor; intros;
    [rewrite h2; apply h1|rewrite q2; apply q1|rewrite y2; apply y1|congruence|congruence|congruence].
Qed.

(* dbase moves along when held, counters and token store stay and the new credits are within bounds *)
Lemma dbase_transfer cfg d d' :
  dbase cfg d -> dsame cfg d d' -> (forall c, ddone cfg d' c = ddone cfg d c) -> sq_nostrand (dtok d') ->
  (forall c, 0 <= ddef d' c /\ (In c (dclasses cfg) -> ddef d' c < dquantum cfg c + inject_Z (dlmax d'))) -> dbase cfg d'.
Proof.
  intros B [h c q y t l n] Hdone Hns Hdef. destruct B as [b1 b2 b3 b4 b5 b6 b7 b8].
  constructor; auto.
  - intros k p Hp. rewrite h in Hp. rewrite l. apply b1. exact Hp.
  - intros k. unfold dlen. rewrite c, h, Hdone. apply b2.
  - intros f. rewrite q, h. apply b3.
  - intros f. rewrite y, h. apply b4.
  - rewrite t, b5. apply dsum_ext. intros k _. unfold dlen. rewrite h. reflexivity.
  - rewrite l. exact b6.
Qed.

Lemma dlen_nonneg cfg d c : (0 <= dlen cfg d c)%Z.
Proof. unfold dlen. lia. Qed.

Lemma dbase_total_nonneg cfg d : dbase cfg d -> (0 <= dtotal d)%Z.
Proof. intros B. rewrite (b_total _ _ B). apply dsum_nonneg. intros c. apply dlen_nonneg. Qed.

Lemma dheld_outside cfg d c : dbase cfg d -> ~ In c (dclasses cfg) -> dheld cfg d c = [].
Proof.
  intros B Hc. destruct (dheld cfg d c) as [|p t] eqn:E; [reflexivity|].
  exfalso. apply Hc. apply (b_cls _ _ B c p). rewrite E. left. reflexivity.
Qed.

(* ---- helpers about the pieces of dheld -------------------------------------------------------------------------- *)
Lemma dhol_in_held cfg d c p : dhol d c = Some p -> In p (dheld cfg d c).
Proof. intros H. unfold dheld, dhol_l. rewrite H. apply in_or_app. right. left. reflexivity. Qed.

Lemma dlen_pos_in cfg d c : (0 < dlen cfg d c)%Z -> exists p, In p (dheld cfg d c).
Proof. unfold dlen. destruct (dheld cfg d c) as [|p t]; cbn; [lia|]. intros _. exists p. left. reflexivity. Qed.

Lemma dmid_done0 cfg d v c : dmid cfg d v -> ddone cfg d c = 0%Z.
Proof. intros M. unfold ddone. rewrite (m_chd _ _ _ M). reflexivity. Qed.

Lemma dmid_ccnt cfg d v c : dmid cfg d v -> dccnt d c = dlen cfg d c.
Proof. intros M. rewrite (b_ccnt _ _ (m_base _ _ _ M)), (dmid_done0 _ _ _ _ M). lia. Qed.

Lemma dmid_tx_nil cfg d v c : dmid cfg d v -> dtx_l cfg d c = [].
Proof. intros M. unfold dtx_l. rewrite (m_chd _ _ _ M). reflexivity. Qed.

Lemma dlmax_pos_of_held cfg d c p : dbase cfg d -> In p (dheld cfg d c) -> (0 < dlmax d)%Z.
Proof. intros B H. destruct (b_cls _ _ B c p H) as (_ & _ & H1). lia. Qed.

Lemma dparked_lt_lmax cfg d c : dbase cfg d -> dparked_or_zero d c -> (0 < dlmax d)%Z -> ddef d c < inject_Z (dlmax d).
Proof.
  intros B P L. unfold dparked_or_zero in P. destruct (dhol d c) as [p|] eqn:E.
  - destruct (b_cls _ _ B c p (dhol_in_held cfg d c p E)) as (_ & _ & H1).
    assert (inject_Z (psize p) <= inject_Z (dlmax d)) by (rewrite <- Zle_Qle; lia). lra.
  - rewrite P. change 0 with (inject_Z 0). rewrite <- Zlt_Qlt. exact L.
Qed.

(* ---- the visit of a class begins ----------------------------------------------------------------------------------- *)
Lemma dvisit_start_spec cfg d c :
  dwf cfg -> dmid cfg d None -> In c (dclasses cfg) ->
  dmid cfg (fst (dvisit_start cfg c d)) (Some c) /\ dsame cfg d (fst (dvisit_start cfg c d))
  /\ dtok (fst (dvisit_start cfg c d)) = dtok d.
Proof.
  intros Hwf M Hc. unfold dvisit_start.
  pose proof (m_base _ _ _ M) as B.
  assert (Hrest : dparked_or_zero d c) by (apply (m_rest _ _ _ M); discriminate).
  destruct (0 <? dccnt d c)%Z eqn:E; cbn [fst].
  - apply Z.ltb_lt in E. rewrite (dmid_ccnt _ _ _ c M) in E.
    destruct (dlen_pos_in _ _ _ E) as (p & Hp).
    pose proof (dlmax_pos_of_held _ _ _ _ B Hp) as HL.
    pose proof (dparked_lt_lmax _ _ _ B Hrest HL) as Hlt.
    pose proof (dquantum_pos cfg c Hwf Hc) as HQ.
    assert (S : dsame cfg d (dset_def d c (Qred (ddef d c + dquantum cfg c)))) by (constructor; reflexivity).
    split; [|split; [exact S|reflexivity]].
    constructor; try (cbn; first [apply (m_chd _ _ _ M)|apply (m_tok _ _ _ M)|apply (m_get _ _ _ M)]).
    + apply (dbase_transfer cfg d _ B S).
      * intros k. reflexivity.
      * cbn. apply (b_nostrand _ _ B).
      * intros k. cbn [dset_def ddef dlmax]. unfold dupd. destruct (Z.eqb_spec k c) as [->|Hne].
        -- rewrite Qred_correct. destruct (b_def _ _ B c) as [H0 _]. split; [lra|intros _; lra].
        -- apply (b_def _ _ B).
    + intros k Hk. assert (k <> c) by congruence.
      unfold dparked_or_zero. cbn [dset_def dhol ddef]. rewrite dupd_neq by assumption.
      apply (m_rest _ _ _ M). discriminate.
    + intros k Hk. injection Hk as <-. split; [exact Hc|].
      cbn [dset_def dccnt ddef dhol]. rewrite dupd_eq, Qred_correct.
      intros [H|H].
      * rewrite (dmid_ccnt _ _ _ c M) in H. lia.
      * destruct (b_def _ _ B c) as [H0 _]. lra.
  - apply Z.ltb_ge in E. split; [|split; [apply dsame_refl|reflexivity]].
    constructor; try (first [apply (m_base _ _ _ M)|apply (m_chd _ _ _ M)|apply (m_tok _ _ _ M)|apply (m_get _ _ _ M)]).
    + intros k Hk. apply (m_rest _ _ _ M). discriminate.
    + intros k Hk. injection Hk as <-. split; [exact Hc|]. intros _.
      rewrite (dmid_ccnt _ _ _ c M) in E. pose proof (dlen_nonneg cfg d c).
      assert (Hl : dheld cfg d c = []).
      { unfold dlen in *. destruct (dheld cfg d c); [reflexivity|cbn in *; lia]. }
      assert (Hh : dhol d c = None).
      { destruct (dhol d c) as [p|] eqn:Eh; [|reflexivity]. pose proof (dhol_in_held cfg d c p Eh) as Hin. rewrite Hl in Hin. destruct Hin. }
      split; [|exact Hh]. unfold dparked_or_zero in Hrest. rewrite Hh in Hrest. exact Hrest.
Qed.

Lemma Qle_bool_false a b : Qle_bool a b = false -> b < a.
Proof.
  intros H. apply Qnot_le_lt. intros L. apply Qle_bool_iff in L. congruence.
Qed.

(* ---- run() has the head packet of class c in its hands ------------------------------------------------------------- *)
Lemma dtry_head_spec cfg d c rest p :
  dwf cfg -> dmid cfg (dset_hol d c (Some p)) (Some c) -> dsuffix cfg (c :: rest) ->
  match dtry_head c rest d p with
  | DYield d' e => dinv cfg d' /\ dsame cfg (dset_hol d c (Some p)) d' /\ dtok d' = dtok d
  | DFall d' e => dmid cfg d' None /\ dsame cfg (dset_hol d c (Some p)) d' /\ dtok d' = dtok d
  | DErr => False
  end.
Proof.
  intros Hwf M Hsuf. set (d1 := dset_hol d c (Some p)) in *.
  pose proof (m_base _ _ _ M) as B.
  assert (Hh1 : dhol d1 c = Some p) by (cbn; apply dupd_eq).
  pose proof (dhol_in_held cfg d1 c p Hh1) as Hp.
  destruct (b_cls _ _ B c p Hp) as (Hcls & Hin & Hsz).
  pose proof (m_chd _ _ _ M) as Hch. cbn in Hch.
  unfold dtry_head. destruct (Qle_bool (inject_Z (psize p)) (ddef d c)) eqn:E.
  - apply Qle_bool_iff in E.
    match goal with |- dinv cfg ?X /\ _ /\ _ => set (d' := X) end.
    assert (S : dsame cfg d1 d').
    { constructor; try reflexivity. intros k. unfold dheld, dtx_l, dhol_l, dsth. cbn. rewrite Hch.
      unfold dcls in Hcls. unfold dcls. rewrite Hcls. unfold dupd.
      destruct (Z.eqb_spec k c) as [->|Hne].
      - rewrite Z.eqb_refl. reflexivity.
      - destruct (Z.eqb_spec c k); [congruence|]. reflexivity. }
    split; [|split; [exact S|reflexivity]].
    constructor.
    + apply (dbase_transfer cfg d1 d' B S).
      * intros k. unfold ddone. cbn. rewrite Hch. reflexivity.
      * apply (b_nostrand _ _ B).
      * apply (b_def _ _ B).
    + unfold dctl_ok. cbn. split; [|split; [|split; [|split; [|split]]]].
      * exists p. split; [left; reflexivity|]. split; [exact Hcls|]. split; [exact E|exact Hsz].
      * apply (m_tok _ _ _ M).
      * apply (m_get _ _ _ M).
      * apply dupd_eq.
      * exact Hsuf.
      * exact Hin.
    + cbn. discriminate.
    + intros k Hk. cbn in Hk. assert (k <> c) by congruence.
      unfold dparked_or_zero. cbn. rewrite dupd_neq by assumption.
      assert (R : dparked_or_zero d1 k) by (apply (m_rest _ _ _ M); congruence).
      unfold dparked_or_zero in R. cbn in R. rewrite dupd_neq in R by assumption. exact R.
  - apply Qle_bool_false in E. fold d1. split; [|split; [apply dsame_refl|reflexivity]].
    constructor; try (first [exact B|apply (m_chd _ _ _ M)|apply (m_tok _ _ _ M)|apply (m_get _ _ _ M)]).
    + intros k _. destruct (Z.eq_dec k c) as [->|Hne].
      * unfold dparked_or_zero. rewrite Hh1. exact E.
      * apply (m_rest _ _ _ M). congruence.
    + intros k Hk. discriminate.
Qed.

Lemma dmid_rehol cfg d v c p :
  dmid cfg d v -> dhol d c = Some p -> dmid cfg (dset_hol d c (Some p)) v /\ dsame cfg d (dset_hol d c (Some p)).
Proof.
  intros M Eh.
  assert (Hhol : forall k, dhol (dset_hol d c (Some p)) k = dhol d k).
  { intros k. cbn. unfold dupd. destruct (Z.eqb_spec k c) as [->|]; [symmetry; exact Eh|reflexivity]. }
  assert (S : dsame cfg d (dset_hol d c (Some p))).
  { constructor; try reflexivity. intros k. unfold dheld, dhol_l. rewrite Hhol. reflexivity. }
  split; [|exact S]. pose proof (m_base _ _ _ M) as B.
  constructor; try (first [apply (m_chd _ _ _ M)|apply (m_tok _ _ _ M)|apply (m_get _ _ _ M)]).
  - apply (dbase_transfer cfg d _ B S); [intros k; reflexivity|apply (b_nostrand _ _ B)|apply (b_def _ _ B)].
  - intros k Hk. unfold dparked_or_zero. rewrite Hhol. apply (m_rest _ _ _ M k Hk).
  - intros k Hk. rewrite Hhol. apply (m_vis _ _ _ M k Hk).
Qed.

(* ---- the inner while of the visit of class c --------------------------------------------------------------------- *)
Lemma dinner_spec cfg d c rest :
  dwf cfg -> dmid cfg d (Some c) -> dsuffix cfg (c :: rest) ->
  match dinner c rest d with
  | DYield d' e => dinv cfg d' /\ dsame cfg d d' /\ dtok d' = dtok d
  | DFall d' e => dmid cfg d' None /\ dsame cfg d d' /\ dtok d' = dtok d
  | DErr => False
  end.
Proof.
  intros Hwf M Hsuf. pose proof (m_base _ _ _ M) as B.
  destruct (m_vis _ _ _ M c eq_refl) as (Hin & Hvis).
  unfold dinner. destruct (negb (Qle_bool (ddef d c) 0) && (0 <? dccnt d c)%Z) eqn:T.
  - apply andb_true_iff in T as [T1 T2]. apply negb_true_iff, Qle_bool_false in T1. apply Z.ltb_lt in T2.
    destruct (dhol d c) as [p|] eqn:Eh.
    + destruct (dmid_rehol cfg d (Some c) c p M Eh) as [M1 S1].
      pose proof (dtry_head_spec cfg d c rest p Hwf M1 Hsuf) as H.
      destruct (dtry_head c rest d p) as [d' e|d' e|]; [| |exact H].
      * destruct H as (I & S & Ht). split; [exact I|]. split; [eapply dsame_trans; eauto|exact Ht].
      * destruct H as (I & S & Ht). split; [exact I|]. split; [eapply dsame_trans; eauto|exact Ht].
    + pose proof (m_get _ _ _ M c) as G.
      rewrite (dmid_ccnt _ _ _ c M) in T2. destruct (dlen_pos_in _ _ _ T2) as (p & Hp).
      unfold dheld in Hp. rewrite (dmid_tx_nil _ _ _ c M) in Hp. unfold dhol_l in Hp. rewrite Eh in Hp. cbn in Hp.
      unfold dsth in Hp.
      assert (Hne : items (dst d c) <> []).
      { unfold sq_held in Hp. rewrite G in Hp. intros E0. rewrite E0 in Hp. destruct Hp. }
      destruct (sq_get_enabled pkt fifo_pop (dst d c) G) as (q & Hq). rewrite Hq.
      pose proof (fifo_held_get pkt _ _ Hq) as Hheld.
      apply fifo_get_inv in Hq as (_ & Hpend & [(E0 & _)|(x & Hx & Gx)]); [contradiction|].
      set (d' := dset_ctl (dset_st d c q) (DKGet c rest)).
      assert (S : dsame cfg d d').
      { constructor; try reflexivity. intros k. unfold dheld, dsth. cbn. unfold dupd.
        destruct (Z.eqb_spec k c) as [->|]; [rewrite Hheld|]; reflexivity. }
      split; [|split; [exact S|reflexivity]].
      constructor.
      * apply (dbase_transfer cfg d d' B S); [intros k; reflexivity|apply (b_nostrand _ _ B)|apply (b_def _ _ B)].
      * unfold dctl_ok. cbn. split; [apply (m_chd _ _ _ M)|]. split; [apply (m_tok _ _ _ M)|].
        split; [exists x; rewrite dupd_eq; exact Gx|]. split; [intros k Hk; rewrite dupd_neq by exact Hk; apply (m_get _ _ _ M)|].
        split; [exact Eh|]. split; [exact Hsuf|exact T1].
      * cbn. discriminate.
      * intros k Hk. cbn in Hk. apply (m_rest _ _ _ M). congruence.
  - split; [|split; [apply dsame_refl|reflexivity]].
    constructor; try (first [exact B|apply (m_chd _ _ _ M)|apply (m_tok _ _ _ M)|apply (m_get _ _ _ M)]).
    + intros k _. destruct (Z.eq_dec k c) as [->|Hne]; [|apply (m_rest _ _ _ M); congruence].
      assert (Hpre : dccnt d c = 0%Z \/ ddef d c <= 0).
      { apply andb_false_iff in T as [T|T].
        - right. apply negb_false_iff, Qle_bool_iff in T. exact T.
        - left. apply Z.ltb_ge in T. rewrite (dmid_ccnt _ _ _ c M) in *. pose proof (dlen_nonneg cfg d c). lia. }
      destruct (Hvis Hpre) as [H0 Hh]. unfold dparked_or_zero. rewrite Hh. exact H0.
    + intros k Hk. discriminate.
Qed.

Lemma dsuffix_head cfg c rest : dsuffix cfg (c :: rest) -> In c (dclasses cfg).
Proof. intros (pre & E). rewrite E. apply in_or_app. right. left. reflexivity. Qed.

Lemma dsuffix_tail cfg c rest : dsuffix cfg (c :: rest) -> dsuffix cfg rest.
Proof. intros (pre & E). exists (pre ++ [c]). rewrite <- app_assoc. exact E. Qed.

Lemma dsuffix_all cfg : dsuffix cfg (dclasses cfg).
Proof. exists []. reflexivity. Qed.

(* ---- the rest of a pass ----------------------------------------------------------------------------------------------- *)
Lemma dscan_spec cfg cs : forall d,
  dwf cfg -> dmid cfg d None -> dsuffix cfg cs ->
  match dscan cfg cs d with
  | DYield d' e => dinv cfg d' /\ dsame cfg d d' /\ dtok d' = dtok d
  | DFall d' e => dmid cfg d' None /\ dsame cfg d d' /\ dtok d' = dtok d
  | DErr => False
  end.
Proof.
  induction cs as [|c rest IH]; intros d Hwf M Hsuf; cbn [dscan].
  - split; [exact M|split; [apply dsame_refl|reflexivity]].
  - pose proof (dsuffix_head _ _ _ Hsuf) as Hin.
    destruct (dvisit_start_spec cfg d c Hwf M Hin) as (M1 & S1 & T1).
    destruct (dvisit_start cfg c d) as [d1 e1]. cbn [fst] in *.
    pose proof (dinner_spec cfg d1 c rest Hwf M1 Hsuf) as H.
    destruct (dinner c rest d1) as [d2 e2|d2 e2|]; [| |exact H].
    + destruct H as (I & S & T). split; [exact I|]. split; [eapply dsame_trans; eauto|congruence].
    + destruct H as (M2 & S2 & T2).
      specialize (IH d2 Hwf M2 (dsuffix_tail _ _ _ Hsuf)).
      destruct (dscan cfg rest d2) as [d3 e3|d3 e3|]; [| |exact IH].
      * destruct IH as (I & S & T). split; [exact I|]. split; [|congruence].
        eapply dsame_trans; [|exact S]. eapply dsame_trans; eauto.
      * destruct IH as (I & S & T). split; [exact I|]. split; [|congruence].
        eapply dsame_trans; [|exact S]. eapply dsame_trans; eauto.
Qed.

(* what changes when run() finally blocks on the token store *)
Record dsame_tok (cfg : dcfg) (d d' : drr) : Prop := {
  st_same : dsame cfg d d';
  st_tok : dtok d' = dtok d \/ (dctrl d' = DKTok /\ dtotal d = 0%Z /\ sq_get fifo_pop (dtok d) = Some (dtok d'))
}.

(* ---- the outer loops ------------------------------------------------------------------------------------------------------ *)
Lemma dpasses_spec cfg fuel : forall d d' e,
  dwf cfg -> dmid cfg d None -> dpasses fuel cfg d = Some (d', e) -> dinv cfg d' /\ dsame_tok cfg d d'.
Proof.
  induction fuel as [|n IH]; intros d d' e Hwf M H; cbn [dpasses] in H.
  - destruct (0 <? dtotal d)%Z eqn:T; [discriminate|].
    revert H. generalize (eq_refl (dpasses 0 cfg d)). intros _ H.
    (* token branch, shared below *)
    apply Z.ltb_ge in T. pose proof (dbase_total_nonneg _ _ (m_base _ _ _ M)) as T0.
    destruct (sq_get fifo_pop (dtok d)) as [q|] eqn:G; [|discriminate]. injection H as <- <-.
    pose proof (m_base _ _ _ M) as B.
    assert (S : dsame cfg d (dset_ctl (dset_tok d q) DKTok)) by (constructor; reflexivity).
    split.
    + constructor.
      * apply (dbase_transfer cfg d _ B S); [intros k; reflexivity| |apply (b_def _ _ B)].
        cbn. apply (fifo_nostrand_get unit _ _ G).
      * unfold dctl_ok. cbn. split; [apply (m_chd _ _ _ M)|]. split; [|apply (m_get _ _ _ M)].
        apply (sq_get_not_none unit fifo_pop _ _ G).
      * cbn. intros _ _ Hpos. lia.
      * intros k _. apply (m_rest _ _ _ M). discriminate.
    + constructor; [exact S|]. right. cbn. split; [reflexivity|]. split; [lia|exact G].
  - destruct (0 <? dtotal d)%Z eqn:T.
    + pose proof (dscan_spec cfg (dclasses cfg) d Hwf M (dsuffix_all cfg)) as HS.
      destruct (dscan cfg (dclasses cfg) d) as [d1 e1|d1 e1|]; [| |discriminate].
      * injection H as <- <-. destruct HS as (I & S & Tk). split; [exact I|]. constructor; [exact S|left; exact Tk].
      * destruct HS as (M1 & S1 & T1).
        destruct (dpasses n cfg d1) as [[d2 e2]|] eqn:P; [|discriminate]. injection H as <- <-.
        destruct (IH d1 d2 e2 Hwf M1 P) as (I & [S2 Tk2]). split; [exact I|].
        constructor; [eapply dsame_trans; eauto|].
        destruct Tk2 as [Tk2|(K & Z0 & G)]; [left; congruence|right].
        split; [exact K|]. split; [rewrite <- (s_total _ _ _ S1); exact Z0|rewrite <- T1; exact G].
    + apply Z.ltb_ge in T. pose proof (dbase_total_nonneg _ _ (m_base _ _ _ M)) as T0.
      destruct (sq_get fifo_pop (dtok d)) as [q|] eqn:G; [|discriminate]. injection H as <- <-.
      pose proof (m_base _ _ _ M) as B.
      assert (S : dsame cfg d (dset_ctl (dset_tok d q) DKTok)) by (constructor; reflexivity).
      split.
      * constructor.
        -- apply (dbase_transfer cfg d _ B S); [intros k; reflexivity| |apply (b_def _ _ B)].
           cbn. apply (fifo_nostrand_get unit _ _ G).
        -- unfold dctl_ok. cbn. split; [apply (m_chd _ _ _ M)|]. split; [|apply (m_get _ _ _ M)].
           apply (sq_get_not_none unit fifo_pop _ _ G).
        -- cbn. intros _ _ Hpos. lia.
        -- intros k _. apply (m_rest _ _ _ M). discriminate.
      * constructor; [exact S|]. right. cbn. split; [reflexivity|]. split; [lia|exact G].
Qed.

(* ---- run() continues after the visit of a class was left ----------------------------------------------------------------- *)
Lemma dcontinue_spec cfg rest r d' e :
  dwf cfg -> dsuffix cfg rest ->
  match r with DYield d _ => dinv cfg d | DFall d _ => dmid cfg d None | DErr => False end ->
  dcontinue cfg rest r = Some (d', e) ->
  dinv cfg d' /\
  match r with DYield d _ | DFall d _ => dsame_tok cfg d d' | DErr => False end.
Proof.
  intros Hwf Hsuf Hr H. destruct r as [d e0|d e0|]; cbn [dcontinue] in H; [| |contradiction].
  - injection H as <- <-. split; [exact Hr|]. constructor; [apply dsame_refl|left; reflexivity].
  - pose proof (dscan_spec cfg rest d Hwf Hr Hsuf) as HS.
    destruct (dscan cfg rest d) as [d1 e1|d1 e1|]; [| |discriminate].
    + injection H as <- <-. destruct HS as (I & S & Tk). split; [exact I|]. constructor; [exact S|left; exact Tk].
    + destruct HS as (M1 & S1 & T1).
      destruct (dpasses (dfuel d1) cfg d1) as [[d2 e2]|] eqn:P; [|discriminate]. injection H as <- <-.
      destruct (dpasses_spec cfg _ d1 d2 e2 Hwf M1 P) as (I & [S2 Tk2]). split; [exact I|].
      constructor; [eapply dsame_trans; eauto|].
      destruct Tk2 as [Tk2|(K & Z0 & G)]; [left; congruence|right].
      split; [exact K|]. split; [rewrite <- (s_total _ _ _ S1); exact Z0|rewrite <- T1; exact G].
Qed.

(* ====================================================================================================================== *)
(* Every enabled action preserves the invariant                                                                          *)

Lemma dbase_transfer2 cfg d d' :
  dbase cfg d -> (forall c, dheld cfg d' c = dheld cfg d c) ->
  (forall c, dccnt d' c = (dlen cfg d' c + ddone cfg d' c)%Z) ->
  (forall f, dqcnt d' f = dqcnt d f) -> (forall f, dqbytes d' f = dqbytes d f) -> dtotal d' = dtotal d ->
  dlmax d' = dlmax d -> sq_nostrand (dtok d') ->
  (forall c, 0 <= ddef d' c /\ (In c (dclasses cfg) -> ddef d' c < dquantum cfg c + inject_Z (dlmax d'))) -> dbase cfg d'.
Proof.
  intros [b1 b2 b3 b4 b5 b6 b7 b8] h c q y t l Hns Hdef.
  constructor; auto.
  - intros k p Hp. rewrite h in Hp. rewrite l. apply b1. exact Hp.
  - intros f. rewrite q, h. apply b3.
  - intros f. rewrite y, h. apply b4.
  - rewrite t, b5. apply dsum_ext. intros k _. unfold dlen. rewrite h. reflexivity.
  - rewrite l. exact b6.
Qed.

Lemma dinv_mid cfg d : dinv cfg d -> dchd d = DCNone -> get (dtok d) = GNone -> (forall c, get (dst d c) = GNone) ->
  dvisiting d = None -> dmid cfg d None.
Proof.
  intros I H1 H2 H3 H4. constructor; auto.
  - apply (i_base _ _ I).
  - intros c _. apply (i_rest _ _ I). rewrite H4. discriminate.
  - intros c Hc. discriminate.
Qed.

Lemma dstep_init cfg d d' e : dwf cfg -> dinv cfg d -> drr_act cfg d DInit = Some (d', e) -> dinv cfg d' /\ dsameh cfg d d'.
Proof.
  intros Hwf I H. unfold drr_act in H. destruct (dctrl d) eqn:K; try discriminate.
  pose proof (i_ctl _ _ I) as C. unfold dctl_ok in C. rewrite K in C. destruct C as (C1 & C2 & C3).
  assert (M : dmid cfg d None) by (apply dinv_mid; auto; unfold dvisiting; rewrite K; reflexivity).
  destruct (dpasses_spec cfg _ d d' e Hwf M H) as (I' & [S _]). split; [exact I'|apply dsame_h; exact S].
Qed.

Lemma dstep_tokget cfg d d' e : dwf cfg -> dinv cfg d -> drr_act cfg d (DGetDone None) = Some (d', e) -> dinv cfg d' /\ dsameh cfg d d'.
Proof.
  intros Hwf I H. unfold drr_act in H. destruct (dctrl d) eqn:K; try discriminate.
  destruct (sq_take (dtok d)) as [[x q]|] eqn:Tk; [|discriminate].
  pose proof (i_ctl _ _ I) as C. unfold dctl_ok in C. rewrite K in C. destruct C as (C1 & C2 & C3).
  pose proof (i_base _ _ I) as B.
  pose proof (sq_take_inv unit _ _ _ Tk) as (G & Ei & Ep & Gq).
  assert (M : dmid cfg (dset_tok d q) None).
  { constructor; cbn; auto.
    - apply (dbase_transfer cfg d _ B); [constructor; reflexivity|intros k; reflexivity| |apply (b_def _ _ B)].
      cbn. apply (fifo_nostrand_take unit _ _ _ Tk).
    - intros c _. apply (i_rest _ _ I). unfold dvisiting. rewrite K. discriminate.
    - intros c Hc. discriminate. }
  destruct (dpasses_spec cfg _ _ d' e Hwf M H) as (I' & [S _]). split; [exact I'|].
  apply dsame_h. eapply dsame_trans; [|exact S]. constructor; reflexivity.
Qed.

(* what the pieces of the control invariant say about the getters of the class stores *)
Lemma dctl_get_not_waiting cfg d c : dctl_ok cfg d -> get (dst d c) <> GWaiting.
Proof.
  unfold dctl_ok. destruct (dctrl d) as [| |c0 rest|c0 rest].
  - intros (_ & _ & H). rewrite H. discriminate.
  - intros (_ & _ & H). rewrite H. discriminate.
  - intros (_ & _ & (x & Hx) & Ho & _). destruct (Z.eq_dec c c0) as [->|Hne]; [rewrite Hx|rewrite Ho by exact Hne]; discriminate.
  - intros (_ & _ & H & _). rewrite H. discriminate.
Qed.

Lemma dstep_get cfg d c d' e : dwf cfg -> dinv cfg d -> drr_act cfg d (DGetDone (Some c)) = Some (d', e) -> dinv cfg d' /\ dsameh cfg d d'.
Proof.
  intros Hwf I H. unfold drr_act in H. destruct (dctrl d) as [| |c0 rest|] eqn:K; try discriminate.
  destruct (Z.eqb_spec c c0) as [<-|]; [|discriminate].
  destruct (sq_take (dst d c)) as [[[t p] q]|] eqn:Tk; [|discriminate].
  pose proof (i_ctl _ _ I) as C. unfold dctl_ok in C. rewrite K in C.
  destruct C as (C1 & C2 & (x & Gx) & C4 & C5 & C6 & C7).
  pose proof (i_base _ _ I) as B.
  pose proof (sq_take_inv pkt _ _ _ Tk) as (G & Ei & Ep & Gq).
  pose proof (fifo_held_take pkt _ _ _ Tk) as Hh.
  set (d2 := dset_hol (dset_st d c q) c (Some p)).
  assert (Hheld : forall k, dheld cfg d2 k = dheld cfg d k).
  { intros k. unfold dheld, dtx_l, dhol_l, dsth. cbn. rewrite C1. unfold dupd.
    destruct (Z.eqb_spec k c) as [->|]; [|reflexivity]. rewrite C5, Hh. reflexivity. }
  assert (S : dsame cfg d d2) by (constructor; try reflexivity; exact Hheld).
  assert (M : dmid cfg d2 (Some c)).
  { constructor; cbn; auto.
    - apply (dbase_transfer cfg d _ B S); [intros k; unfold ddone; cbn; reflexivity|apply (b_nostrand _ _ B)|apply (b_def _ _ B)].
    - intros k. unfold dupd. destruct (Z.eqb_spec k c) as [->|Hne]; [exact Gq|apply C4; exact Hne].
    - intros k Hk. assert (k <> c) by congruence. unfold dparked_or_zero. cbn. rewrite dupd_neq by assumption.
      apply (i_rest _ _ I). unfold dvisiting. rewrite K. congruence.
    - intros k Hk. injection Hk as <-. split; [apply (dsuffix_head _ _ _ C6)|].
      intros [Hc|Hd]; [|exfalso; lra]. exfalso.
      assert (Hpos : (0 < dlen cfg d c)%Z).
      { unfold dlen. rewrite <- (Hheld c). unfold dheld, dhol_l. cbn. rewrite dupd_eq. rewrite app_length. cbn. lia. }
      rewrite (b_ccnt _ _ B c) in Hc. unfold ddone in Hc. rewrite C1 in Hc. cbv beta iota in Hc. lia. }
  pose proof (dtry_head_spec cfg (dset_st d c q) c rest p Hwf M C6) as HT.
  apply (dcontinue_spec cfg rest _ d' e Hwf (dsuffix_tail _ _ _ C6)) in H.
  - destruct H as (I' & H). split; [exact I'|]. apply dsame_h.
    destruct (dtry_head c rest (dset_st d c q) p) as [dr er|dr er|]; [| |contradiction];
      destruct HT as (_ & S2 & _); destruct H as [S3 _];
      (eapply dsame_trans; [exact S|]; eapply dsame_trans; [exact S2|exact S3]).
  - destruct (dtry_head c rest (dset_st d c q) p); [apply HT|apply HT|exact HT].
Qed.

Lemma dtx_time_nonneg cfg p : dwf cfg -> (0 < psize p)%Z -> 0 < dtx_time cfg p.
Proof.
  intros (Hr & _) Hp. unfold dtx_time. apply Qlt_shift_div_l; [exact Hr|].
  rewrite Qmult_0_l. change 0 with (inject_Z 0). rewrite <- Zlt_Qlt. lia.
Qed.

Lemma dstep_childinit cfg d d' e : dwf cfg -> dinv cfg d -> drr_act cfg d DChildInit = Some (d', e) -> dinv cfg d'.
Proof.
  intros Hwf I H. unfold drr_act in H. destruct (dchd d) as [|p| |] eqn:Ch; try discriminate. injection H as <- <-.
  pose proof (i_ctl _ _ I) as C. pose proof (i_base _ _ I) as B. unfold dctl_ok in C.
  match goal with |- dinv cfg ?X => set (d' := X) end.
  assert (S : dsame cfg d d').
  { constructor; try reflexivity. intros k. unfold dheld, dtx_l. cbn. rewrite Ch. reflexivity. }
  destruct (dctrl d) as [| |c rest|c rest] eqn:K;
    try (destruct C as (C1 & _); congruence).
  destruct C as ((p0 & Hp0 & Hc & Hd & Hs) & C2 & C3 & C4 & C5 & C6).
  assert (p0 = p) by (destruct Hp0 as [E|[(dl & E & _)|E]]; congruence). subst p0.
  constructor.
  - apply (dbase_transfer cfg d _ B S); [intros k; unfold ddone; cbn; rewrite Ch; reflexivity|apply (b_nostrand _ _ B)|apply (b_def _ _ B)].
  - unfold dctl_ok, d'. cbn [dctrl dchd dtok dst dhol ddef dnow dlmax dccnt]. try rewrite K. split; [|auto].
    exists p. split; [|auto]. right. left. eexists. split; [reflexivity|].
    pose proof (Qred_correct (dnow d + dtx_time cfg p)) as HR. pose proof (dtx_time_nonneg cfg p Hwf ltac:(lia)). lra.
  - cbn. try rewrite K. discriminate.
  - intros k Hk. apply (i_rest _ _ I k). unfold dvisiting. rewrite K. exact Hk.
Qed.

Lemma dstep_cb_tok cfg d d' e : dwf cfg -> dinv cfg d -> drr_act cfg d (DStoreCb None) = Some (d', e) -> dinv cfg d'.
Proof.
  intros Hwf I H. unfold drr_act in H. destruct (sq_cb fifo_pop (dtok d)) as [q|] eqn:Cb; [|discriminate]. injection H as <- <-.
  pose proof (i_ctl _ _ I) as C. pose proof (i_base _ _ I) as B.
  assert (S : dsame cfg d (dset_tok d q)) by (constructor; reflexivity).
  pose proof (sq_cb_get_none unit fifo_pop _ _ Cb) as Gn.
  constructor.
  - apply (dbase_transfer cfg d _ B S); [intros k; reflexivity| |apply (b_def _ _ B)].
    cbn. apply (fifo_nostrand_cb unit _ _ Cb).
  - unfold dctl_ok in *. cbn. destruct (dctrl d) as [| |c rest|c rest].
    + destruct C as (C1 & C2 & C3). split; [exact C1|]. split; [apply Gn; exact C2|exact C3].
    + destruct C as (C1 & C2 & C3). split; [exact C1|]. split; [|exact C3]. intros E. apply C2. apply Gn. exact E.
    + destruct C as (C1 & C2 & C3). split; [exact C1|]. split; [apply Gn; exact C2|exact C3].
    + destruct C as (C1 & C2 & C3). split; [exact C1|]. split; [apply Gn; exact C2|exact C3].
  - cbn. intros K Gw Tp. apply fifo_cb_inv in Cb as (_ & [(_ & x & _ & Gx)|(_ & Ei & Eg)]).
    + rewrite Gx in Gw. discriminate.
    + rewrite Ei. apply (i_tok _ _ I K); [rewrite <- Eg; exact Gw|exact Tp].
  - intros k Hk. apply (i_rest _ _ I k). exact Hk.
Qed.

Lemma dstep_cb_cls cfg d c d' e : dwf cfg -> dinv cfg d -> drr_act cfg d (DStoreCb (Some c)) = Some (d', e) -> dinv cfg d'.
Proof.
  intros Hwf I H. unfold drr_act in H. destruct (dmemZ c (dclasses cfg)); [|discriminate].
  destruct (sq_cb fifo_pop (dst d c)) as [q|] eqn:Cb; [|discriminate]. injection H as <- <-.
  pose proof (i_ctl _ _ I) as C. pose proof (i_base _ _ I) as B.
  destruct (sq_cb_not_waiting pkt fifo_pop _ _ Cb (dctl_get_not_waiting cfg d c C)) as (Ei & Eg).
  assert (Hst : forall k, get (dupd (dst d) c q k) = get (dst d k) /\ sq_held (dupd (dst d) c q k) = sq_held (dst d k)).
  { intros k. unfold dupd. destruct (Z.eqb_spec k c) as [->|]; [|auto]. split; [exact Eg|]. unfold sq_held. rewrite Eg, Ei. reflexivity. }
  assert (S : dsame cfg d (dset_st d c q)).
  { constructor; try reflexivity. intros k. unfold dheld, dsth. cbn. rewrite (proj2 (Hst k)). reflexivity. }
  constructor.
  - apply (dbase_transfer cfg d _ B S); [intros k; reflexivity|apply (b_nostrand _ _ B)|apply (b_def _ _ B)].
  - unfold dctl_ok in *. cbn. destruct (dctrl d) as [| |c0 rest|c0 rest].
    + destruct C as (C1 & C2 & C3). repeat split; auto. intros k. rewrite (proj1 (Hst k)). apply C3.
    + destruct C as (C1 & C2 & C3). repeat split; auto. intros k. rewrite (proj1 (Hst k)). apply C3.
    + destruct C as (C1 & C2 & (x & Gx) & C4 & C5). split; [exact C1|]. split; [exact C2|].
      split; [exists x; rewrite (proj1 (Hst c0)); exact Gx|]. split; [|exact C5].
      intros k Hk. rewrite (proj1 (Hst k)). apply C4. exact Hk.
    + destruct C as (C1 & C2 & C3 & C4). split; [exact C1|]. split; [exact C2|]. split; [|exact C4].
      intros k. rewrite (proj1 (Hst k)). apply C3.
  - cbn. apply (i_tok _ _ I).
  - intros k Hk. apply (i_rest _ _ I k). exact Hk.
Qed.

Lemma dof_flow_cons f p l : dof_flow f (p :: l) = if Z.eqb (flow p) f then p :: dof_flow f l else dof_flow f l.
Proof. reflexivity. Qed.

Lemma dof_flow_snoc f l p : dof_flow f (l ++ [p]) = if Z.eqb (flow p) f then dof_flow f l ++ [p] else dof_flow f l.
Proof. rewrite dof_flow_app. cbn. destruct (Z.eqb (flow p) f); [reflexivity|apply app_nil_r]. Qed.

Lemma dstep_put cfg d p d' e : dwf cfg -> dinv cfg d -> drr_act cfg d (DPut p) = Some (d', e) -> dinv cfg d'.
Proof.
  intros Hwf I H. unfold drr_act in H. cbv zeta in H.
  set (c0 := df2c cfg (flow p)) in *.
  destruct (dmemZ c0 (dclasses cfg) && (0 <? psize p)%Z) eqn:G; [|discriminate].
  apply andb_true_iff in G as [G1 G2]. apply dmemZ_In in G1. apply Z.ltb_lt in G2.
  injection H as <- <-.
  match goal with |- dinv cfg ?X => set (d' := X) end.
  pose proof (i_base _ _ I) as B. pose proof (i_ctl _ _ I) as C.
  destruct Hwf as (Hr & Hne & Hnd & Hpos).
  assert (Hheld : forall k, dheld cfg d' k = if Z.eqb k c0 then dheld cfg d k ++ [p] else dheld cfg d k).
  { intros k. unfold dheld, dtx_l, dhol_l, dsth, d'. cbn [dchd dhol dst]. unfold dupd.
    destruct (Z.eqb_spec k c0) as [->|]; [|reflexivity].
    rewrite fifo_held_put, map_app. cbn [map snd]. rewrite !app_assoc. reflexivity. }
  assert (Hdone : forall k, ddone cfg d' k = ddone cfg d k) by (intros k; reflexivity).
  assert (Hgs : forall k, get (dst d' k) = get (dst d k)).
  { intros k. unfold d'. cbn [dst]. unfold dupd. destruct (Z.eqb_spec k c0) as [->|]; reflexivity. }
  assert (Hgt : get (dtok d') = get (dtok d)).
  { unfold d'. cbn [dtok]. destruct (dtotal d =? 0)%Z; reflexivity. }
  assert (Hl : (dlmax d <= dlmax d')%Z) by (unfold d'; cbn [dlmax]; lia).
  constructor.
  - constructor.
    + intros k q Hq. rewrite Hheld in Hq.
      assert (Hold : In q (dheld cfg d k) -> dcls cfg q = k /\ In k (dclasses cfg) /\ (0 < psize q <= dlmax d')%Z).
      { intros Hq'. destruct (b_cls _ _ B k q Hq') as (A1 & A2 & A3). repeat split; auto; lia. }
      destruct (Z.eqb_spec k c0) as [->|]; [|auto].
      apply in_app_or in Hq as [Hq|[<-|[]]]; [auto|].
      split; [reflexivity|]. split; [exact G1|]. unfold d'. cbn [dlmax]. lia.
    + intros k. unfold dlen. rewrite Hheld, Hdone. unfold d'. cbn [dccnt]. unfold dupd.
      pose proof (b_ccnt _ _ B k) as Hk. unfold dlen in Hk.
      destruct (Z.eqb_spec k c0) as [->|]; [|exact Hk]. rewrite app_length. cbn [length]. lia.
    + intros f. unfold d'. cbn [dqcnt]. fold d'. rewrite Hheld. unfold dupd.
      pose proof (b_qcnt _ _ B f) as Hf.
      destruct (Z.eqb_spec f (flow p)) as [->|Hne'].
      * try fold c0. try fold c0 in Hf. rewrite Z.eqb_refl, dof_flow_snoc, Z.eqb_refl, app_length. cbn [length]. lia.
      * destruct (Z.eqb_spec (df2c cfg f) c0) as [E|]; [|exact Hf].
        rewrite dof_flow_snoc. destruct (Z.eqb_spec (flow p) f); [congruence|]. try rewrite <- E. exact Hf.
    + intros f. unfold d'. cbn [dqbytes]. fold d'. rewrite Hheld. unfold dupd.
      pose proof (b_qbytes _ _ B f) as Hf.
      destruct (Z.eqb_spec f (flow p)) as [->|Hne'].
      * try fold c0. try fold c0 in Hf. rewrite Z.eqb_refl, dof_flow_snoc, Z.eqb_refl, dbytes_app. cbn [dbytes]. lia.
      * destruct (Z.eqb_spec (df2c cfg f) c0) as [E|]; [|exact Hf].
        rewrite dof_flow_snoc. destruct (Z.eqb_spec (flow p) f); [congruence|]. try rewrite <- E. exact Hf.
    + unfold d' at 1. cbn [dtotal]. rewrite (b_total _ _ B).
      rewrite (dsum_change (dlen cfg d) (dlen cfg d') (dclasses cfg) c0 Hnd G1).
      * unfold dlen. rewrite Hheld, Z.eqb_refl, app_length. cbn [length]. lia.
      * intros k Hk. unfold dlen. rewrite Hheld. destruct (Z.eqb_spec k c0); [contradiction|reflexivity].
    + pose proof (b_lmax _ _ B). lia.
    + unfold d'. cbn [dtok]. destruct (dtotal d =? 0)%Z; [apply sq_nostrand_put|apply (b_nostrand _ _ B)].
    + intros k. destruct (b_def _ _ B k) as [D1 D2]. split; [exact D1|]. intros Hin. specialize (D2 Hin).
      assert (inject_Z (dlmax d) <= inject_Z (dlmax d')) by (rewrite <- Zle_Qle; exact Hl).
      change (ddef d' k) with (ddef d k). lra.
  - unfold dctl_ok in *. change (dctrl d') with (dctrl d). change (dchd d') with (dchd d).
    change (dhol d') with (dhol d). change (ddef d') with (ddef d). change (dnow d') with (dnow d).
    rewrite Hgt. destruct (dctrl d) as [| |c rest|c rest].
    + destruct C as (C1 & C2 & C3). repeat split; auto. intros k. rewrite Hgs. apply C3.
    + destruct C as (C1 & C2 & C3). repeat split; auto. intros k. rewrite Hgs. apply C3.
    + destruct C as (C1 & C2 & (x & Gx) & C4 & C5). split; [exact C1|]. split; [exact C2|].
      split; [exists x; rewrite Hgs; exact Gx|]. split; [|exact C5]. intros k Hk. rewrite Hgs. apply C4. exact Hk.
    + destruct C as ((q & Hq & A1 & A2 & A3) & C2 & C3 & C4). split; [|split; [exact C2|split; [|exact C4]]].
      * exists q. repeat split; auto; lia.
      * intros k. rewrite Hgs. apply C3.
  - change (dctrl d') with (dctrl d). rewrite Hgt. intros K Gw _.
    unfold d'. cbn [dtok]. destruct (dtotal d =? 0)%Z eqn:T0.
    + cbn. unfold fifo_push. destruct (items (dtok d)); discriminate.
    + apply Z.eqb_neq in T0. pose proof (dbase_total_nonneg _ _ B). apply (i_tok _ _ I K Gw). lia.
  - intros k Hk. apply (i_rest _ _ I k Hk).
Qed.

Lemma dctl_child cfg d : dctl_ok cfg d -> dchd d <> DCNone ->
  exists c rest p, dctrl d = DKChild c rest /\
    (dchd d = DCStart p \/ (exists dl, dchd d = DCTx p dl /\ dnow d <= dl) \/ dchd d = DCDone p)
    /\ dcls cfg p = c /\ inject_Z (psize p) <= ddef d c /\ (0 < psize p <= dlmax d)%Z
    /\ get (dtok d) = GNone /\ (forall c', get (dst d c') = GNone) /\ dhol d c = None /\ dsuffix cfg (c :: rest)
    /\ In c (dclasses cfg).
Proof.
  unfold dctl_ok. intros C Hn. destruct (dctrl d) as [| |c rest|c rest];
    try (destruct C as (C1 & _); contradiction).
  destruct C as ((p & Hp & A1 & A2 & A3) & C2 & C3 & C4 & C5 & C6).
  exists c, rest, p. repeat split; auto; lia.
Qed.

Lemma dstep_childtimer cfg d d' e : dwf cfg -> dinv cfg d -> drr_act cfg d DChildTimer = Some (d', e) -> dinv cfg d'.
Proof.
  intros Hwf I H. unfold drr_act in H. destruct (dchd d) as [| |p dl|] eqn:Ch; try discriminate.
  destruct (Qeq_bool dl (dnow d)) eqn:Edl; [|discriminate]. cbv zeta in H. injection H as <- <-.
  match goal with |- dinv cfg ?X => set (d' := X) end.
  pose proof (i_base _ _ I) as B. pose proof (i_ctl _ _ I) as C.
  destruct (dctl_child cfg d C ltac:(congruence)) as (c & rest & p0 & K & Hp0 & Hc & A2 & A3 & C2 & C3 & C4 & C5 & C6).
  assert (p0 = p) by (destruct Hp0 as [E|[(dl0 & E & _)|E]]; congruence). subst p0.
  destruct Hwf as (Hr & Hne & Hnd & Hpos).
  assert (Hheld : forall k, dheld cfg d k = (if Z.eqb (dcls cfg p) k then [p] else []) ++ dheld cfg d' k).
  { intros k. unfold dheld, dtx_l, d'. cbn [dchd dhol dst]. rewrite Ch. reflexivity. }
  assert (Hdone : forall k, ddone cfg d' k = if Z.eqb (dcls cfg p) k then 1%Z else 0%Z) by (intros k; reflexivity).
  assert (Hdone0 : forall k, ddone cfg d k = 0%Z) by (intros k; unfold ddone; rewrite Ch; reflexivity).
  constructor.
  - constructor.
    + intros k q Hq. apply (b_cls _ _ B k q). rewrite Hheld. apply in_or_app. right. exact Hq.
    + intros k. change (dccnt d' k) with (dccnt d k). rewrite (b_ccnt _ _ B k), Hdone, Hdone0. unfold dlen. rewrite (Hheld k).
      rewrite app_length. destruct (Z.eqb (dcls cfg p) k); cbn [length]; lia.
    + intros f. unfold d' at 1. cbn [dqcnt]. unfold dupd.
      destruct (Z.eqb_spec f (flow p)) as [->|Hne'].
      * assert (E1 : dheld cfg d (df2c cfg (flow p)) = p :: dheld cfg d' (df2c cfg (flow p))).
        { rewrite Hheld. unfold dcls. rewrite Z.eqb_refl. reflexivity. }
        rewrite (b_qcnt _ _ B (flow p)), E1, dof_flow_cons, Z.eqb_refl. cbn [length]. lia.
      * assert (E1 : dof_flow f (dheld cfg d (df2c cfg f)) = dof_flow f (dheld cfg d' (df2c cfg f))).
        { rewrite Hheld. destruct (Z.eqb (dcls cfg p) (df2c cfg f)); [|reflexivity].
          cbn [app]. rewrite dof_flow_cons. destruct (Z.eqb_spec (flow p) f); [congruence|reflexivity]. }
        rewrite (b_qcnt _ _ B f), E1. reflexivity.
    + intros f. unfold d' at 1. cbn [dqbytes]. unfold dupd.
      destruct (Z.eqb_spec f (flow p)) as [->|Hne'].
      * assert (E1 : dheld cfg d (df2c cfg (flow p)) = p :: dheld cfg d' (df2c cfg (flow p))).
        { rewrite Hheld. unfold dcls. rewrite Z.eqb_refl. reflexivity. }
        rewrite (b_qbytes _ _ B (flow p)), E1, dof_flow_cons, Z.eqb_refl. cbn [dbytes]. lia.
      * assert (E1 : dof_flow f (dheld cfg d (df2c cfg f)) = dof_flow f (dheld cfg d' (df2c cfg f))).
        { rewrite Hheld. destruct (Z.eqb (dcls cfg p) (df2c cfg f)); [|reflexivity].
          cbn [app]. rewrite dof_flow_cons. destruct (Z.eqb_spec (flow p) f); [congruence|reflexivity]. }
        rewrite (b_qbytes _ _ B f), E1. reflexivity.
    + unfold d' at 1. cbn [dtotal]. rewrite (b_total _ _ B).
      rewrite (dsum_change (dlen cfg d) (dlen cfg d') (dclasses cfg) c Hnd C6).
      * unfold dlen. rewrite (Hheld c), Hc, Z.eqb_refl, app_length. cbn [length]. lia.
      * intros k Hk. unfold dlen. rewrite (Hheld k), Hc. destruct (Z.eqb_spec c k); [congruence|reflexivity].
    + apply (b_lmax _ _ B).
    + apply (b_nostrand _ _ B).
    + apply (b_def _ _ B).
  - unfold dctl_ok, d'. cbn [dctrl dchd dtok dst dhol ddef dnow dlmax]. rewrite K.
    split; [|auto]. exists p. split; [right; right; reflexivity|auto].
  - unfold d'. cbn [dctrl]. rewrite K. discriminate.
  - intros k Hk. apply (i_rest _ _ I k). exact Hk.
Qed.

Lemma durgent_false cfg d : durgent cfg d = false ->
  dctl_fresh d = false /\ dchild_urgent d = false /\ sq_urgent (dtok d) = false
  /\ (forall c, In c (dclasses cfg) -> sq_urgent (dst d c) = false).
Proof.
  unfold durgent. intros H. apply orb_false_iff in H as [H H4]. apply orb_false_iff in H as [H H3].
  apply orb_false_iff in H as [H1 H2]. repeat split; auto.
  intros c Hc. destruct (sq_urgent (dst d c)) eqn:E; [|reflexivity].
  assert (existsb (fun c => sq_urgent (dst d c)) (dclasses cfg) = true) by (apply existsb_exists; exists c; auto). congruence.
Qed.

Lemma dstep_advance cfg d t d' e : dwf cfg -> dinv cfg d -> drr_act cfg d (DAdvance t) = Some (d', e) -> dinv cfg d'.
Proof.
  intros Hwf I H. unfold drr_act in H. destruct (durgent cfg d) eqn:U; [discriminate|].
  destruct (Qlt_le_dec (dnow d) t) as [Lt|]; [|discriminate]. cbv zeta in H.
  destruct (durgent_false _ _ U) as (_ & U2 & _ & _).
  pose proof (i_base _ _ I) as B. pose proof (i_ctl _ _ I) as C.
  assert (Hgoal : forall d0, d0 = d' ->
    d0 = {| dnow := t; dtok := dtok d; dst := dst d; dqcnt := dqcnt d; dqbytes := dqbytes d; dtotal := dtotal d;
            dccnt := dccnt d; ddef := ddef d; dhol := dhol d; dcur := dcur d; dnrecv := dnrecv d; dlmax := dlmax d;
            dchd := dchd d; dctrl := dctrl d |} ->
    (forall p dl, dchd d = DCTx p dl -> t <= dl) -> dinv cfg d').
  { intros d0 <- -> Hdl. constructor.
    - apply (dbase_transfer2 cfg d _ B); try reflexivity.
      + intros k. apply (b_ccnt _ _ B k).
      + apply (b_nostrand _ _ B).
      + apply (b_def _ _ B).
    - unfold dctl_ok in *. cbn [dctrl dchd dtok dst dhol ddef dnow dlmax].
      destruct (dctrl d) as [| |c rest|c rest]; auto.
      destruct C as ((p & Hp & A) & C'). split; [|exact C']. exists p. split; [|exact A].
      destruct Hp as [E|[(dl & E & _)|E]]; [left; exact E| |right; right; exact E].
      right. left. exists dl. split; [exact E|apply (Hdl p dl E)].
    - cbn [dctrl dtok dtotal]. apply (i_tok _ _ I).
    - intros k Hk. apply (i_rest _ _ I k). exact Hk. }
  destruct (dchd d) as [|p|p dl|p] eqn:Ch.
  - injection H as <- <-. eapply Hgoal; [reflexivity|reflexivity|]. intros; discriminate.
  - unfold dchild_urgent in U2. rewrite Ch in U2. discriminate.
  - destruct (Qle_bool t dl) eqn:Le; [|discriminate]. injection H as <- <-.
    eapply Hgoal; [reflexivity|reflexivity|]. intros p0 dl0 E. injection E as <- <-. apply Qle_bool_iff. exact Le.
  - unfold dchild_urgent in U2. rewrite Ch in U2. discriminate.
Qed.

(* ---- the states run() resumes in (used again by the refinement proof in DRRVisit.v) ------------------------------------- *)
Lemma dget_mid cfg d c rest t p q :
  dwf cfg -> dinv cfg d -> dctrl d = DKGet c rest -> sq_take (dst d c) = Some ((t, p), q) ->
  dmid cfg (dset_hol (dset_st d c q) c (Some p)) (Some c)
  /\ dsame cfg d (dset_hol (dset_st d c q) c (Some p)) /\ 0 < ddef d c /\ dsuffix cfg (c :: rest) /\ dchd d = DCNone.
Proof.
  intros Hwf I K Tk.
  pose proof (i_ctl _ _ I) as C. unfold dctl_ok in C. rewrite K in C.
  destruct C as (C1 & C2 & (x & Gx) & C4 & C5 & C6 & C7).
  pose proof (i_base _ _ I) as B.
  pose proof (sq_take_inv pkt _ _ _ Tk) as (G & Ei & Ep & Gq).
  pose proof (fifo_held_take pkt _ _ _ Tk) as Hh.
  set (d2 := dset_hol (dset_st d c q) c (Some p)).
  assert (Hheld : forall k, dheld cfg d2 k = dheld cfg d k).
  { intros k. unfold dheld, dtx_l, dhol_l, dsth. cbn. rewrite C1. unfold dupd.
    destruct (Z.eqb_spec k c) as [->|]; [|reflexivity]. rewrite C5, Hh. reflexivity. }
  assert (S : dsame cfg d d2) by (constructor; try reflexivity; exact Hheld).
  split; [|auto].
  constructor; cbn; auto.
  - apply (dbase_transfer cfg d _ B S); [intros k; unfold ddone; cbn; reflexivity|apply (b_nostrand _ _ B)|apply (b_def _ _ B)].
  - intros k. unfold dupd. destruct (Z.eqb_spec k c) as [->|Hne]; [exact Gq|apply C4; exact Hne].
  - intros k Hk. assert (k <> c) by congruence. unfold dparked_or_zero. cbn. rewrite dupd_neq by assumption.
    apply (i_rest _ _ I). unfold dvisiting. rewrite K. congruence.
  - intros k Hk. injection Hk as <-. split; [apply (dsuffix_head _ _ _ C6)|].
    intros [Hc|Hd]; [|exfalso; lra]. exfalso.
    assert (Hpos : (0 < dlen cfg d c)%Z).
    { unfold dlen. rewrite <- (Hheld c). unfold dheld, dhol_l. cbn. rewrite dupd_eq. rewrite app_length. cbn. lia. }
    rewrite (b_ccnt _ _ B c) in Hc. unfold ddone in Hc. rewrite C1 in Hc. cbv beta iota in Hc. lia.
Qed.

Lemma dchildend_mid cfg d c rest p :
  dwf cfg -> dinv cfg d -> dchd d = DCDone p -> dctrl d = DKChild c rest ->
  dmid cfg (ddebit d c rest p) (Some c) /\ dsameh cfg d (ddebit d c rest p) /\ dsuffix cfg (c :: rest)
  /\ dcls cfg p = c /\ (ddebit_reset d c = true <-> dheld cfg d c = []).
Proof.
  intros Hwf I Ch K.
  pose proof (i_base _ _ I) as B. pose proof (i_ctl _ _ I) as C.
  destruct (dctl_child cfg d C ltac:(congruence)) as (c' & rest' & p0 & K' & Hp0 & Hc & A2 & A3 & C2 & C3 & C4 & C5 & C6).
  rewrite K in K'. injection K' as <- <-.
  assert (p0 = p) by (destruct Hp0 as [E|[(dl0 & E & _)|E]]; congruence). subst p0.
  set (d1 := ddebit d c rest p).
  assert (Hheld : forall k, dheld cfg d1 k = dheld cfg d k).
  { intros k. unfold dheld, dtx_l, d1, ddebit. cbn [dchd dhol dst]. rewrite Ch. reflexivity. }
  assert (Hdone : forall k, ddone cfg d k = if Z.eqb c k then 1%Z else 0%Z).
  { intros k. unfold ddone. rewrite Ch, Hc. reflexivity. }
  pose proof (Qred_correct (ddef d c - inject_Z (psize p))) as HR.
  pose proof (dquantum_pos cfg c Hwf C6) as HQ.
  assert (HL : 0 <= inject_Z (dlmax d)) by (change 0 with (inject_Z 0); rewrite <- Zle_Qle; apply (b_lmax _ _ B)).
  assert (HS : 0 < inject_Z (psize p)) by (change 0 with (inject_Z 0); rewrite <- Zlt_Qlt; lia).
  destruct (b_def _ _ B c) as [D1 D2]. specialize (D2 C6).
  split; [|split; [constructor; try reflexivity; exact Hheld|split; [exact C5|split; [exact Hc|]]]].
  - constructor.
    + apply (dbase_transfer2 cfg d d1 B Hheld); try reflexivity.
      * intros k. unfold dlen. rewrite Hheld. unfold d1, ddebit. cbn [dccnt]. unfold dupd, ddone. cbn [dchd].
        pose proof (b_ccnt _ _ B k) as Hk. rewrite Hdone in Hk. unfold dlen in Hk.
        destruct (Z.eqb_spec k c) as [->|Hne].
        -- rewrite Z.eqb_refl in Hk. lia.
        -- destruct (Z.eqb_spec c k); [congruence|]. lia.
      * apply (b_nostrand _ _ B).
      * intros k. unfold d1, ddebit. cbn [ddef dlmax]. unfold dupd. destruct (Z.eqb_spec k c) as [->|]; [|apply (b_def _ _ B)].
        destruct (ddebit_reset d c); (split; [lra|intros _; lra]).
    + reflexivity.
    + exact C2.
    + exact C3.
    + intros k Hk. assert (k <> c) by congruence. unfold dparked_or_zero, d1, ddebit. cbn [dhol ddef]. rewrite dupd_neq by assumption.
      apply (i_rest _ _ I). unfold dvisiting. rewrite K. congruence.
    + intros k Hk. injection Hk as <-. split; [exact C6|]. unfold d1, ddebit. cbn [dccnt ddef dhol]. rewrite !dupd_eq.
      intros Hpre. split; [|exact C4].
      destruct (ddebit_reset d c) eqn:R; [reflexivity|]. unfold ddebit_reset in R. apply Z.eqb_neq in R.
      destruct Hpre as [Hz|Hz]; [contradiction|]. lra.
  - pose proof (b_ccnt _ _ B c) as Hk. rewrite Hdone, Z.eqb_refl in Hk. unfold dlen in Hk. unfold ddebit_reset. rewrite Z.eqb_eq. split.
    + intros E. destruct (dheld cfg d c); [reflexivity|cbn [length] in Hk; lia].
    + intros E. rewrite E in Hk. cbn in Hk. lia.
Qed.

Lemma dstep_childend cfg d d' e : dwf cfg -> dinv cfg d -> drr_act cfg d DChildEnd = Some (d', e) -> dinv cfg d' /\ dsameh cfg d d'.
Proof.
  intros Hwf I H. unfold drr_act in H. destruct (dchd d) as [| | |p] eqn:Ch; try discriminate.
  destruct (dctrl d) as [| | |c rest] eqn:K; try discriminate.
  destruct (dchildend_mid cfg d c rest p Hwf I Ch K) as (M & S1 & C5 & _).
  pose proof (dinner_spec cfg (ddebit d c rest p) c rest Hwf M C5) as HI.
  destruct (dcontinue cfg rest (dinner c rest (ddebit d c rest p))) as [[d2 e2]|] eqn:Dc; [|discriminate]. injection H as <- <-.
  apply (dcontinue_spec cfg rest _ d2 e2 Hwf (dsuffix_tail _ _ _ C5)) in Dc.
  - destruct Dc as (I' & Dc). split; [exact I'|].
    eapply dsameh_trans; [exact S1|]. apply dsame_h.
    destruct (dinner c rest (ddebit d c rest p)) as [dr er|dr er|]; [| |contradiction];
      destruct HI as (_ & S2 & _); destruct Dc as [S3 _]; (eapply dsame_trans; [exact S2|exact S3]).
  - destruct (dinner c rest (ddebit d c rest p)); [apply HI|apply HI|exact HI].
Qed.

(* ---- all together ------------------------------------------------------------------------------------------------------- *)
Theorem dinv_step cfg d a d' e : dwf cfg -> dinv cfg d -> drr_act cfg d a = Some (d', e) -> dinv cfg d'.
Proof.
  intros Hwf I H. destruct a as [p| |[c|]|[c|]| | | |t].
  - eapply dstep_put; eauto.
  - apply (dstep_init cfg d d' e Hwf I H).
  - eapply dstep_cb_cls; eauto.
  - eapply dstep_cb_tok; eauto.
  - apply (dstep_get cfg d c d' e Hwf I H).
  - apply (dstep_tokget cfg d d' e Hwf I H).
  - eapply dstep_childinit; eauto.
  - eapply dstep_childtimer; eauto.
  - apply (dstep_childend cfg d d' e Hwf I H).
  - eapply dstep_advance; eauto.
Qed.

Lemma dinv_init cfg t0 : dwf cfg -> dinv cfg (drr0 t0).
Proof.
  intros Hwf. constructor.
  - constructor.
    + intros c p Hp. cbn in Hp. destruct Hp.
    + intros c. reflexivity.
    + intros f. reflexivity.
    + intros f. reflexivity.
    + cbn [drr0 dtotal]. induction (dclasses cfg) as [|x l IHl]; cbn [dsum]; [reflexivity|]. rewrite <- IHl. reflexivity.
    + cbn. lia.
    + apply sq_nostrand_init.
    + intros c. cbn [drr0 ddef dlmax]. split; [lra|]. intros Hc. pose proof (dquantum_pos cfg c Hwf Hc). change (inject_Z 0) with 0. lra.
  - cbn. auto.
  - cbn. discriminate.
  - intros c _. reflexivity.
Qed.

