(* The kernel Store as a network element uses it: unbounded, one consumer (the element's server
   process).  The hand-off is NOT atomic in onl/sim: store.put(x) appends x at once and triggers a
   StorePut event; only when the kernel processes that event does _trigger_get serve a waiting get;
   the granted StoreGet event is processed in turn and only then does the consumer resume.  A get()
   issued while the store is non-empty is granted at once (the item leaves `items` immediately) but
   the consumer still resumes only when the StoreGet event is processed.
   All of this happens inside one simulated instant; the micro-steps are kept because elements take
   decisions (drops, "smallest stamp") between them.

   Items are paired with the instant at which they were put.  The discipline (FIFO list / heap) is
   a parameter: [push] and [pop]. *)
From Coq Require Import ZArith QArith List Bool.
Import ListNotations.

Section StoreQ.
  Variable A : Type.
  Variable push : (Q * A) -> list (Q * A) -> list (Q * A).     (* Store: append;  PriorityStore: heappush *)
  Variable pop : list (Q * A) -> option ((Q * A) * list (Q * A)).   (* Store: pop(0); PriorityStore: heappop *)

  Inductive getter := GNone | GWaiting | GGranted (x : Q * A).

  Record sq := { items : list (Q * A);      (* store.items *)
                 pend : nat;                (* StorePut events triggered and not yet processed *)
                 get : getter }.            (* the consumer's outstanding StoreGet *)

  Definition sq0 : sq := {| items := []; pend := 0; get := GNone |}.

  (* store.put(x) at instant [now] *)
  Definition sq_put (now : Q) (x : A) (s : sq) : sq :=
    {| items := push (now, x) (items s); pend := S (pend s); get := get s |}.

  (* the kernel processes one StorePut event: _trigger_get serves the waiting get, if any *)
  Definition sq_cb (s : sq) : option sq :=
    match pend s with
    | O => None
    | S n =>
        match get s, pop (items s) with
        | GWaiting, Some (x, rest) => Some {| items := rest; pend := n; get := GGranted x |}
        | _, _ => Some {| items := items s; pend := n; get := get s |}
        end
    end.

  (* the consumer calls store.get() (it must not have one outstanding) *)
  Definition sq_get (s : sq) : option sq :=
    match get s with
    | GNone =>
        match pop (items s) with
        | Some (x, rest) => Some {| items := rest; pend := pend s; get := GGranted x |}
        | None => Some {| items := items s; pend := pend s; get := GWaiting |}
        end
    | _ => None
    end.

  (* the kernel processes the granted StoreGet event: the consumer resumes with the item *)
  Definition sq_take (s : sq) : option ((Q * A) * sq) :=
    match get s with
    | GGranted x => Some (x, {| items := items s; pend := pend s; get := GNone |})
    | _ => None
    end.

  (* something of this store is still due in the current instant *)
  Definition sq_urgent (s : sq) : bool :=
    negb (Nat.eqb (pend s) 0) || match get s with GGranted _ => true | _ => false end.

  (* what the store holds, including an item travelling inside a granted get *)
  Definition sq_held (s : sq) : list (Q * A) :=
    match get s with GGranted x => x :: items s | _ => items s end.
End StoreQ.

Arguments GNone {A}.
Arguments GWaiting {A}.
Arguments GGranted {A} x.
Arguments items {A} s.
Arguments pend {A} s.
Arguments get {A} s.
Arguments sq0 {A}.
Arguments sq_put {A} push now x s.
Arguments sq_cb {A} pop s.
Arguments sq_get {A} pop s.
Arguments sq_take {A} s.
Arguments sq_urgent {A} s.
Arguments sq_held {A} s.

(* the FIFO discipline of Store *)
Definition fifo_push {A : Type} (x : Q * A) (l : list (Q * A)) : list (Q * A) := l ++ [x].
Definition fifo_pop {A : Type} (l : list (Q * A)) : option ((Q * A) * list (Q * A)) :=
  match l with [] => None | x :: t => Some (x, t) end.
