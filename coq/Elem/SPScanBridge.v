(* Bridging lemmas for the GENERATOR body SP.run (second tie, generator bodies: vlib/translate_gen.py).
   Gen/Extracted_sp_run.v is regenerated from the tree under test on every run: SP.run cut at its yields, the for-loop over
   self.priorities a structural fix over the (remaining) table:
     gen_SP_run_from_0   entry: `while True:` the scan `for flow_id, prio in self.priorities` -- skip prio <= 0, skip a class
                         whose store.size() == 0 (`continue`) -- up to `packet = yield store.get()` on the first class that
                         has a packet; after the table: `if self.total_packets == 0: yield self.packets_available.get()`, else
                         around the while again, which finds nothing again: the generator spins (NxSpin)
     gen_SP_run_from_1   resumed with a packet: packet.priorities[class] = prio, `yield env.process(self.send_packet(packet))`
     gen_SP_run_from_2   the child has ended: `break` -- the scan is NOT continued --, the idle test, then a scan from the top
     gen_SP_run_from_3   resumed with the token: a scan from the top
   Here they get their meaning in the hand-written automaton (Elem/SchedBase.v with the SP configuration of Elem/SP.v) and
   the micro-steps SInit / SGetDone / SChildEnd are proved to be EXACTLY the generated functions: by induction over the
   table, the generated fix finds the class the automaton's [scan] finds.  The ghost outputs OVisit of the automaton (which
   classes the scan looked at) are not part of the code: the statements compare the states. *)
From Coq Require Import ZArith QArith List Bool Lia.
From ONL Require Import Elem.Packet Elem.StoreQ Elem.SchedBase Elem.SP Gen.Extracted_sp_run.
Import ListNotations.

(* store.size() of the store of class k *)
Definition sp_store_size (s : mq) (k : Z) : Z := Z.of_nat (length (items (mstores s k))).

(* the first entry of the table with a positive priority and a non-empty store: what the scan of the code stops at *)
Fixpoint sp_find (size : Z -> Z) (l : list (Z * Z)) : option (Z * Z) :=
  match l with
  | [] => None
  | (k, pr) :: t => if Z.ltb 0 pr && negb (Z.eqb (size k) 0) then Some (k, pr) else sp_find size t
  end.

(* the next request, given its meaning: `yield store.get()` on class k at point 1 = the get is issued on that store and the
   position in the pass is dropped (the repaired SP leaves the for-loop after the transmission); the token get at point 3;
   the spin = the automaton's PSpin.  Scan steps have no effect. *)
Definition sp_scan_state (s : mq) (g : list sp_run_fx * sp_run_next) : option mq :=
  match g with
  | ([], NxYield (RqStoreGet k) (PP1 _)) => commit s k []
  | ([], NxYield RqTokGet PP3) =>
      match sq_get fifo_pop (mtok s) with Some q => Some (with_pc (with_tok s q) PTok) | None => None end
  | ([], NxSpin) => Some (with_pc s PSpin)
  | _ => None
  end.

(* resumed with packet p: the only meaningful continuation is to start the child process and wait for it at point 2; the
   stamp on the packet is not part of the automaton's state *)
Definition sp_child_state (s : mq) (p : pkt) (rem : list (Z * nat)) (g : list sp_run_fx * sp_run_next) : option mq :=
  match g with
  | (_, NxYield RqChild PP2) => Some (with_child s (CInit p) (PChild rem))
  | _ => None
  end.

Definition sp_gen0 (s : mq) (prios : list (Z * Z)) := gen_SP_run_from_0 (mtotal s) prios (sp_store_size s).
Definition sp_gen1 (s : mq) (prios : list (Z * Z)) (prio : Z) := gen_SP_run_from_1 prio (mtotal s) prios (sp_store_size s).
Definition sp_gen2 (s : mq) (prios : list (Z * Z)) := gen_SP_run_from_2 (mtotal s) prios (sp_store_size s).
Definition sp_gen3 (s : mq) (prios : list (Z * Z)) := gen_SP_run_from_3 (mtotal s) prios (sp_store_size s).

Definition sp_idle (tot : Z) : sp_run_next := if Z.eqb tot 0 then NxYield RqTokGet PP3 else NxSpin.
Definition sp_found (tot : Z) (o : option (Z * Z)) : list sp_run_fx * sp_run_next :=
  match o with Some (k, pr) => ([], NxYield (RqStoreGet k) (PP1 pr)) | None => ([], sp_idle tot) end.

(* ---- the generated fix, by induction over the table ----------------------------------------------------------------- *)
Lemma gen_sp_scan_spec : forall (tot : Z) (size : Z -> Z) (l : list (Z * Z)),
  gen_SP_run_from_0 tot l size = sp_found tot (sp_find size l).
Proof.
  intros tot size l. unfold gen_SP_run_from_0, sp_found, sp_idle.
  induction l as [|[k pr] t IH]; cbn [sp_find].
  - destruct (Z.eqb tot 0); reflexivity.
  - destruct (Z.ltb 0 pr); cbn [andb]; [|exact IH].
    rewrite ?(Z.eqb_sym 0 (size k)). destruct (Z.eqb (size k) 0); cbn [negb]; [exact IH|reflexivity].
Qed.

Lemma gen_sp_from3_spec : forall tot size l, gen_SP_run_from_3 tot l size = sp_found tot (sp_find size l).
Proof.
  intros tot size l. unfold gen_SP_run_from_3, sp_found, sp_idle.
  induction l as [|[k pr] t IH]; cbn [sp_find].
  - destruct (Z.eqb tot 0); reflexivity.
  - destruct (Z.ltb 0 pr); cbn [andb]; [|exact IH].
    rewrite ?(Z.eqb_sym 0 (size k)). destruct (Z.eqb (size k) 0); cbn [negb]; [exact IH|reflexivity].
Qed.

Lemma gen_sp_from2_spec : forall tot size l,
  gen_SP_run_from_2 tot l size = if Z.eqb tot 0 then ([], NxYield RqTokGet PP3) else sp_found tot (sp_find size l).
Proof.
  intros tot size l. unfold gen_SP_run_from_2. destruct (Z.eqb tot 0) eqn:E; [reflexivity|].
  unfold sp_found, sp_idle. rewrite E.
  induction l as [|[k pr] t IH]; cbn [sp_find].
  - reflexivity.
  - destruct (Z.ltb 0 pr); cbn [andb]; [|exact IH].
    rewrite ?(Z.eqb_sym 0 (size k)). destruct (Z.eqb (size k) 0); cbn [negb]; [exact IH|reflexivity].
Qed.

(* ---- the automaton's scan, by induction over the table -------------------------------------------------------------- *)
Lemma sp_nonempty_size (c : mq_cfg) (s : mq) (k : Z) :
  by_count c = false -> nonempty c s k = negb (Z.eqb (sp_store_size s k) 0).
Proof.
  intros H. unfold nonempty, sp_store_size. rewrite H. destruct (items (mstores s k)); reflexivity.
Qed.

Lemma sp_scan_spec (c : mq_cfg) (s : mq) (l : list (Z * Z)) :
  by_count c = false ->
  match snd (scan (nonempty c s) (map sp_slot l)) with Some (k, _) => Some k | None => None end =
  match sp_find (sp_store_size s) l with Some (k, _) => Some k | None => None end.
Proof.
  intros H. induction l as [|[k pr] t IH]; [reflexivity|].
  cbn [map sp_find]. unfold sp_slot at 1. cbn [fst snd]. destruct (Z.ltb 0 pr); cbn [andb scan]; [|exact IH].
  rewrite (sp_nonempty_size c s k H). destruct (Z.eqb (sp_store_size s k) 0); cbn [negb].
  - destruct (scan (nonempty c s) (map sp_slot t)) as [vs r]. exact IH.
  - reflexivity.
Qed.

(* one scan from the top of the table, then the idle test: the automaton's [resume c s (pass c)] and [end_pass c s] *)
Lemma sp_resume_top (c : mq_cfg) (s : mq) (l : list (Z * Z)) :
  by_count c = false -> brk c = true -> pass c = map sp_slot l ->
  option_map fst (resume c s (pass c)) = sp_scan_state s (sp_found (mtotal s) (sp_find (sp_store_size s) l)).
Proof.
  intros Hb Hk Hp. unfold resume, end_pass. rewrite Hp.
  pose proof (sp_scan_spec c s l Hb) as E.
  destruct (scan (nonempty c s) (map sp_slot l)) as [vs [[f rem]|]]; cbn [snd] in E;
    destruct (sp_find (sp_store_size s) l) as [[k pr]|]; try discriminate.
  - inversion E; subst k. unfold after; rewrite Hk. cbn [sp_found sp_scan_state].
    destruct (commit s f []); reflexivity.
  - cbn [sp_found sp_scan_state]. unfold sp_idle. destruct (Z.eqb (mtotal s) 0).
    + cbn. destruct (sq_get fifo_pop (mtok s)); reflexivity.
    + reflexivity.
Qed.

Lemma sp_end_pass (c : mq_cfg) (s : mq) (l : list (Z * Z)) :
  by_count c = false -> brk c = true -> pass c = map sp_slot l ->
  option_map fst (end_pass c s) =
  sp_scan_state s (if Z.eqb (mtotal s) 0 then ([], NxYield RqTokGet PP3)
                   else sp_found (mtotal s) (sp_find (sp_store_size s) l)).
Proof.
  intros Hb Hk Hp. unfold end_pass. destruct (Z.eqb (mtotal s) 0) eqn:E0.
  - cbn. destruct (sq_get fifo_pop (mtok s)); reflexivity.
  - rewrite Hp. pose proof (sp_scan_spec c s l Hb) as E.
    destruct (scan (nonempty c s) (map sp_slot l)) as [vs [[f rem]|]]; cbn [snd] in E;
      destruct (sp_find (sp_store_size s) l) as [[k pr]|]; try discriminate.
    + inversion E; subst k. unfold after; rewrite Hk. cbn [sp_found sp_scan_state].
      destruct (commit s f []); reflexivity.
    + cbn [sp_found sp_scan_state]. unfold sp_idle. rewrite E0. reflexivity.
Qed.

(* ---- the micro-steps ---------------------------------------------------------------------------------------------- *)
Definition sp_c (r : Q) (cm : Z -> Z) (fl : list Z) (tbl : list (Z * Z)) : mq_cfg := sp_cfg true r cm fl tbl.

  Lemma bridge_sp_run_init : forall (r : Q) (cm : Z -> Z) (fl : list Z) (tbl : list (Z * Z)) (s : mq),
    option_map fst (mq_act (sp_c r cm fl tbl) s SInit) =
      match mpc s with PNotStarted => sp_scan_state s (sp_gen0 s (sort_desc tbl)) | _ => None end.
  Proof.
    intros r cm fl tbl s. cbn [mq_act]. destruct (mpc s); try reflexivity.
    unfold sp_gen0. rewrite gen_sp_scan_spec. apply sp_resume_top; reflexivity.
  Qed.

  Lemma bridge_sp_run_token : forall (r : Q) (cm : Z -> Z) (fl : list Z) (tbl : list (Z * Z)) (s : mq),
    option_map fst (mq_act (sp_c r cm fl tbl) s (SGetDone None)) =
      match mpc s with
      | PTok => match sq_take (mtok s) with
                | Some (_, q) => sp_scan_state (with_tok s q) (sp_gen3 (with_tok s q) (sort_desc tbl))
                | None => None
                end
      | _ => None
      end.
  Proof.
    intros r cm fl tbl s. cbn [mq_act]. destruct (mpc s); try reflexivity.
    destruct (sq_take (mtok s)) as [[u q]|]; [|reflexivity].
    unfold sp_gen3. rewrite gen_sp_from3_spec. apply sp_resume_top; reflexivity.
  Qed.

  Lemma bridge_sp_run_get : forall (r : Q) (cm : Z -> Z) (fl : list Z) (tbl : list (Z * Z)) (s : mq) (f prio : Z),
    mq_act (sp_c r cm fl tbl) s (SGetDone (Some f)) =
      match mpc s, mchild s with
      | PGet g rem, CNone =>
          if Z.eqb f g then
            match sq_take (mstores s f) with
            | Some ((_, p), q) =>
                match sp_child_state (with_store s f q) p rem (sp_gen1 s (sort_desc tbl) prio) with
                | Some s' => Some (s', [])
                | None => None
                end
            | None => None
            end
          else None
      | _, _ => None
      end.
  Proof.
    intros r cm fl tbl s f prio. cbn [mq_act].
    destruct (mpc s), (mchild s); try reflexivity; destruct (Z.eqb f _); try reflexivity;
      destruct (sq_take _) as [[[a p] q]|]; reflexivity.
  Qed.

  (* the child has ended: the repaired SP holds no position in the pass (PChild []): `break`, idle test, scan from the top *)
  Lemma bridge_sp_run_child_end : forall (r : Q) (cm : Z -> Z) (fl : list Z) (tbl : list (Z * Z)) (s : mq),
    mpc s = PChild [] ->
    option_map fst (mq_act (sp_c r cm fl tbl) s SChildEnd) =
      match mchild s with
      | CEnded => let s0 := with_child s CNone (PChild []) in sp_scan_state s0 (sp_gen2 s0 (sort_desc tbl))
      | _ => None
      end.
  Proof.
    intros r cm fl tbl s Hpc. cbn [mq_act]. rewrite Hpc. destruct (mchild s); try reflexivity.
    cbv zeta. unfold sp_gen2. rewrite gen_sp_from2_spec.
    unfold resume. cbn [scan]. 
    rewrite <- (sp_end_pass (sp_c r cm fl tbl) (with_child s CNone (PChild [])) (sort_desc tbl)) by reflexivity.
    destruct (end_pass (sp_c r cm fl tbl) (with_child s CNone (PChild []))) as [[s' vs]|]; reflexivity.
  Qed.

  (* explicitly: what the scan stops at, the stamp, and that nothing else happens *)
  Lemma sp_run_explicit : forall (tbl : list (Z * Z)) (s : mq) (prio : Z),
    sp_gen0 s (sort_desc tbl) = sp_found (mtotal s) (sp_find (sp_store_size s) (sort_desc tbl)) /\
    sp_gen1 s (sort_desc tbl) prio = ([FxStampPrio prio], NxYield RqChild PP2) /\
    sp_gen2 s (sort_desc tbl) = (if Z.eqb (mtotal s) 0 then ([], NxYield RqTokGet PP3)
                       else sp_found (mtotal s) (sp_find (sp_store_size s) (sort_desc tbl))) /\
    sp_gen3 s (sort_desc tbl) = sp_found (mtotal s) (sp_find (sp_store_size s) (sort_desc tbl)).
  Proof.
    intros tbl s prio. unfold sp_gen0, sp_gen1, sp_gen2, sp_gen3.
    rewrite gen_sp_scan_spec, gen_sp_from2_spec, gen_sp_from3_spec. repeat split; reflexivity.
  Qed.
