(* The TwoRateTokenBucket (Elem/TwoRate.v, repaired code) as an interface element (Elem/Iface.v).  The adapter's labels are
   the element's own actions; its executions are exactly the executions of tr_run, so the theorems of TwoRateProofs.v
   transfer.  No drop rule (the colour marked on a forwarded packet is not a packet event of the interface). *)
From Coq Require Import ZArith QArith List Bool Permutation Lia.
From ONL Require Import Elem.Packet Elem.StoreQ Elem.Bucket Elem.BucketProofs Elem.TwoRate Elem.TwoRateProofs Elem.Iface.
Import ListNotations.

Definition rout_e (o : rout) : list eout := match o with RFwd p _ => [EForward p] | _ => [] end.
Definition tr_internal (a : raction) : bool := match a with RPut _ | RAdvance _ => false | _ => true end.
Definition rlift (r : option (trtb * list rout)) : option (trtb * list eout) :=
  match r with Some (s', o) => Some (s', flat_map rout_e o) | None => None end.

Definition trtb_elem (c : trcfg) (t0 : Q) : elem := {|
  st := trtb;
  lab := raction;
  init := tr0 true c t0;
  now := rnow;
  put := fun p s => rlift (tr_act true true c s (RPut p));
  step := fun a s => if tr_internal a then rlift (tr_act true true c s a) else None;
  advance := fun t s => match tr_act true true c s (RAdvance t) with Some (s', _) => Some s' | None => None end;
  urgent := tr_urgent;
  deadline := fun s => match rphase_ s with RIdle => None | RWaitPeak _ dl => Some dl | RWaitCommit _ dl => Some dl end;
  held := tr_held;
  accepts := fun _ => true;
  width := 1
|}.

Definition r_to (a : iact raction) : raction := match a with IPut p => RPut p | IStep l => l | IAdv t => RAdvance t end.
Definition r_of (a : raction) : iact raction := match a with RPut p => IPut p | RAdvance t => IAdv t | _ => IStep a end.
Definition r_ev (e : rev) : Q * iact raction * list eout := (fst (fst e), r_of (snd (fst e)), flat_map rout_e (snd e)).

Lemma tr_adv_outs c s t s' o : tr_act true true c s (RAdvance t) = Some (s', o) -> o = [].
Proof.
  cbn [tr_act]. destruct (tr_urgent s); [discriminate|]. destruct (Qlt_le_dec (rnow s) t); [|discriminate].
  destruct (rphase_ s) as [|p dl|p dl]; [|destruct (Qle_bool t dl); [|discriminate]|destruct (Qle_bool t dl); [|discriminate]];
    intros H; injection H as _ <-; reflexivity.
Qed.

Lemma trtb_elem_act_of c t0 s a : act (trtb_elem c t0) s (r_of a) = rlift (tr_act true true c s a).
Proof.
  destruct a; try reflexivity. cbn [r_of act trtb_elem advance rlift].
  destruct (tr_act true true c s (RAdvance t)) as [[s' o]|] eqn:E; [|reflexivity].
  rewrite (tr_adv_outs _ _ _ _ _ E). reflexivity.
Qed.

Lemma trtb_elem_act_to c t0 s a s' o :
  act (trtb_elem c t0) s a = Some (s', o) -> r_of (r_to a) = a /\ rlift (tr_act true true c s (r_to a)) = Some (s', o).
Proof.
  destruct a as [p|l|t]; cbn [act trtb_elem put step advance r_to].
  - intros H. split; [reflexivity|exact H].
  - destruct (tr_internal l) eqn:El; [|discriminate]. intros H. split; [|exact H]. destruct l; try reflexivity; discriminate.
  - destruct (tr_act true true c s (RAdvance t)) as [[s1 o1]|] eqn:E; [|discriminate].
    intros H. injection H as <- <-. split; [reflexivity|]. cbn [rlift]. rewrite (tr_adv_outs _ _ _ _ _ E). reflexivity.
Qed.

Theorem tr_run_elem c t0 : forall acts s s' tr,
  tr_run true true c s acts = Some (s', tr) -> run (trtb_elem c t0) s (map r_of acts) = Some (s', map r_ev tr).
Proof.
  induction acts as [|a acts IH]; intros s s' tr H; cbn [tr_run] in H.
  - injection H as <- <-. reflexivity.
  - destruct (tr_act true true c s a) as [[s1 o]|] eqn:Ea; [|discriminate].
    destruct (tr_run true true c s1 acts) as [[s2 tr1]|] eqn:Er; [|discriminate]. injection H as <- <-.
    cbn [map run]. rewrite trtb_elem_act_of, Ea. cbn [rlift]. rewrite (IH _ _ _ Er). reflexivity.
Qed.

Theorem trtb_elem_run c t0 : forall acts s s' tr,
  run (trtb_elem c t0) s acts = Some (s', tr) ->
  exists tr0, tr_run true true c s (map r_to acts) = Some (s', tr0) /\ tr = map r_ev tr0 /\ map r_of (map r_to acts) = acts.
Proof.
  induction acts as [|a acts IH]; intros s s' tr H; cbn [run] in H.
  - injection H as <- <-. exists []. auto.
  - destruct (act (trtb_elem c t0) s a) as [[s1 o]|] eqn:Ea; [|discriminate].
    destruct (run (trtb_elem c t0) s1 acts) as [[s2 tr1]|] eqn:Er; [|discriminate]. injection H as <- <-.
    destruct (trtb_elem_act_to _ _ _ _ _ _ Ea) as [Hn Hl]. destruct (IH _ _ _ Er) as (tr0 & R0 & -> & Hm).
    unfold rlift in Hl. destruct (tr_act true true c s (r_to a)) as [[s1' o']|] eqn:E0; [|discriminate]. injection Hl as -> <-.
    exists ((rnow s1, r_to a, o') :: tr0). cbn [map tr_run]. rewrite E0, R0. repeat split.
    + unfold r_ev at 2. cbn [fst snd]. rewrite Hn. reflexivity.
    + rewrite Hn, Hm. reflexivity.
Qed.

Lemma trtb_puts tr : Iface.puts (map r_ev tr) = map snd (rputs tr).
Proof.
  induction tr as [|[[t a] o] tr IH]; [reflexivity|]. cbn [map]. unfold r_ev at 1. cbn [fst snd]. rewrite puts_cons, IH.
  unfold rputs. cbn [flat_map]. rewrite map_app. destruct a; reflexivity.
Qed.
Lemma trtb_o_fwds o : o_fwds (flat_map rout_e o) = flat_map r_is_fwd o.
Proof. induction o as [|x o IH]; [reflexivity|]. cbn [flat_map]. rewrite o_fwds_app, IH. destruct x; reflexivity. Qed.
Lemma trtb_o_drops o : o_drops (flat_map rout_e o) = [].
Proof. induction o as [|x o IH]; [reflexivity|]. cbn [flat_map]. rewrite o_drops_app, IH. destruct x; reflexivity. Qed.
Lemma trtb_fwds tr : Iface.fwds (map r_ev tr) = map snd (rfwds tr).
Proof.
  induction tr as [|[[t a] o] tr IH]; [reflexivity|]. cbn [map]. unfold r_ev at 1. cbn [fst snd]. rewrite fwds_cons, IH.
  unfold rfwds. cbn [flat_map rev_outs]. rewrite map_app, map_map. cbn [snd]. rewrite map_id, trtb_o_fwds. reflexivity.
Qed.
Lemma trtb_drops tr : drops (map r_ev tr) = [].
Proof.
  induction tr as [|[[t a] o] tr IH]; [reflexivity|]. cbn [map]. unfold r_ev at 1. cbn [fst snd]. rewrite drops_cons, IH, trtb_o_drops.
  reflexivity.
Qed.

Lemma tr_quiet c s : tr_urgent s = false -> rphase_ s = RIdle ->
  forall a, (forall p, a <> RPut p) -> (forall t, a <> RAdvance t) -> tr_act true true c s a = None.
Proof.
  unfold tr_urgent. intros U Hh a Np Nt. apply orb_false_elim in U as [U _]. apply orb_false_elim in U as [Us Uq].
  apply negb_false_iff in Us. unfold sq_urgent in Uq. apply orb_false_elim in Uq as [Up Ug].
  apply negb_false_iff, Nat.eqb_eq in Up.
  destruct a as [p| | | | |t]; cbn [tr_act].
  - exfalso. eapply Np. reflexivity.
  - rewrite Us. reflexivity.
  - unfold sq_cb. rewrite Up. reflexivity.
  - rewrite Hh. unfold sq_take. destruct (get (rq s)); try reflexivity; discriminate.
  - rewrite Hh. reflexivity.
  - exfalso. eapply Nt. reflexivity.
Qed.

Theorem trtb_elem_conserves c t0 : trwf c -> conserves (trtb_elem c t0).
Proof.
  intros R acts s tr H. destruct (trtb_elem_run _ _ _ _ _ _ H) as (tr0 & R0 & -> & _).
  rewrite trtb_puts, trtb_fwds, trtb_drops. cbn [app]. rewrite (trtb_conserves _ _ _ _ _ R R0). apply Permutation_refl.
Qed.

Theorem trtb_elem_flow_fifo c t0 f : trwf c -> flow_fifo (trtb_elem c t0) f.
Proof.
  intros R acts s tr H. destruct (trtb_elem_run _ _ _ _ _ _ H) as (tr0 & R0 & -> & _).
  rewrite trtb_puts, trtb_fwds. destruct (trtb_flow_fifo _ _ _ _ _ R R0 f) as [rest E].
  unfold of_flow in E. unfold on_flow. rewrite E. apply sublist_app_r.
Qed.

Theorem trtb_elem_drained c t0 : trwf c -> drained (trtb_elem c t0).
Proof.
  intros R acts s tr H _ U Dl. destruct (trtb_elem_run _ _ _ _ _ _ H) as (tr0 & R0 & -> & _).
  cbn [urgent deadline trtb_elem] in U, Dl.
  assert (Hh : rphase_ s = RIdle) by (destruct (rphase_ s); [reflexivity|discriminate|discriminate]).
  exact (proj1 (trtb_drained _ _ _ _ _ R R0 Hh (tr_quiet _ _ U Hh))).
Qed.

Theorem trtb_elem_laws c t0 : trwf c -> laws (trtb_elem c t0).
Proof. intros R. split; [apply trtb_elem_conserves|intros f; apply trtb_elem_flow_fifo|apply trtb_elem_drained]; exact R. Qed.

Ltac crush_tr H := repeat match type of H with
  | context [match ?x with _ => _ end] =>
      lazymatch x with
      | context [match _ with _ => _ end] => fail
      | _ => destruct x eqn:?; try discriminate
      end
  end.

Lemma tr_act_now c s a s' o : tr_act true true c s a = Some (s', o) -> (forall t, a <> RAdvance t) -> rnow s' = rnow s.
Proof.
  intros H Nt. destruct a as [p| | | | |t]; cbn [tr_act] in H; unfold tr_forward in H;
    try (crush_tr H; injection H as <- _; reflexivity).
  exfalso. eapply Nt. reflexivity.
Qed.

Theorem trtb_elem_timed c t0 : timed (trtb_elem c t0).
Proof.
  repeat split.
  - intros p s s' o H. cbn [put trtb_elem] in H. unfold rlift in H.
    destruct (tr_act true true c s (RPut p)) as [[w' o']|] eqn:E; [|discriminate]. injection H as <- _.
    apply (tr_act_now _ _ _ _ _ E). discriminate.
  - intros l s s' o H. cbn [step trtb_elem] in H. destruct (tr_internal l) eqn:El; [|discriminate]. unfold rlift in H.
    destruct (tr_act true true c s l) as [[w' o']|] eqn:E; [|discriminate]. injection H as <- _.
    apply (tr_act_now _ _ _ _ _ E). intros t ->. discriminate.
  - cbn [advance trtb_elem tr_act] in H. crush_tr H; injection H as <-; reflexivity.
  - cbn [advance trtb_elem tr_act] in H. destruct (tr_urgent s); [discriminate|]. destruct (Qlt_le_dec (rnow s) t); [|discriminate]. assumption.
  - cbn [advance trtb_elem tr_act] in H. cbn [urgent trtb_elem]. destruct (tr_urgent s); [discriminate|reflexivity].
  - cbn [advance trtb_elem tr_act] in H. cbn [deadline trtb_elem]. destruct (tr_urgent s); [discriminate|].
    destruct (Qlt_le_dec (rnow s) t); [|discriminate]. intros d Hd.
    destruct (rphase_ s) as [|p dl|p dl]; [discriminate| |]; injection Hd as <-;
      (destruct (Qle_bool t dl) eqn:El; [|discriminate]); apply Qle_bool_iff; exact El.
Qed.
