(* Executable model of CPython's heapq (Lib/heapq.py: heappush, heappop, _siftdown, _siftup; the C
   accelerator _heapqmodule.c performs the same comparisons in the same order and produces the same
   array), generic in the comparison.  The heap is the Python list; the only comparison heapq ever
   evaluates is `a < b`, which is [ltb a b] here.  Transcribed position by position, so WHICH of two
   equivalent items (neither less than the other) leaves first is reproduced exactly
   (HeapProofs.heapq_tie_order: six equal keys pushed with tags 0..5 leave as 0,2,5,4,1,3).
   Executable definitions only; the proofs are in Elem/HeapProofs.v. *)
From Coq Require Import List Bool Arith.
Import ListNotations.

Section Heap.
  Variable A : Type.
  Variable ltb : A -> A -> bool.                                (* ltb a b  is  a < b *)

  (* heap[i] = x   (identity when i is out of range; never happens, see HeapProofs) *)
  Fixpoint upd (l : list A) (i : nat) (x : A) : list A :=
    match l, i with
    | [], _ => []
    | _ :: t, O => x :: t
    | y :: t, S j => y :: upd t j x
    end.

  Definition par (i : nat) : nat := Nat.div2 (i - 1).           (* (pos - 1) >> 1 *)

  (* def _siftdown(heap, startpos, pos):
         newitem = heap[pos]
         while pos > startpos:
             parentpos = (pos - 1) >> 1
             parent = heap[parentpos]
             if newitem < parent:
                 heap[pos] = parent
                 pos = parentpos
                 continue
             break
         heap[pos] = newitem
     [newitem] is passed explicitly (the slot heap[pos] is a hole while the loop runs: Python never
     reads it again before the final store).  None = out of fuel or index out of range. *)
  Fixpoint siftdown (fuel : nat) (h : list A) (startpos : nat) (newitem : A) (pos : nat)
    : option (list A) :=
    match fuel with
    | O => None
    | S f =>
        if Nat.ltb startpos pos then
          let parentpos := par pos in
          match nth_error h parentpos with
          | None => None
          | Some parent =>
              if ltb newitem parent then siftdown f (upd h pos parent) startpos newitem parentpos
              else Some (upd h pos newitem)
          end
        else Some (upd h pos newitem)
    end.

  (* def heappush(heap, item):
         heap.append(item)
         _siftdown(heap, 0, len(heap)-1) *)
  Definition heappush (h : list A) (item : A) : option (list A) :=
    let h' := h ++ [item] in
    siftdown (length h') h' 0 item (length h' - 1).

  (* the loop of _siftup: bubble the smaller child up until the hole is a leaf
         childpos = 2*pos + 1
         while childpos < endpos:
             rightpos = childpos + 1
             if rightpos < endpos and not heap[childpos] < heap[rightpos]:
                 childpos = rightpos
             heap[pos] = heap[childpos]
             pos = childpos
             childpos = 2*pos + 1
     returns the array and the leaf position reached. *)
  Fixpoint siftup_loop (fuel : nat) (h : list A) (pos : nat) : option (list A * nat) :=
    match fuel with
    | O => None
    | S f =>
        let endpos := length h in
        let childpos := 2 * pos + 1 in
        if Nat.ltb childpos endpos then
          let rightpos := childpos + 1 in
          match nth_error h childpos with
          | None => None
          | Some cl =>
              let pick :=
                if Nat.ltb rightpos endpos then
                  match nth_error h rightpos with
                  | None => None
                  | Some cr => Some (if negb (ltb cl cr) then rightpos else childpos)
                  end
                else Some childpos in
              match pick with
              | None => None
              | Some cp =>
                  match nth_error h cp with
                  | None => None
                  | Some c => siftup_loop f (upd h pos c) cp
                  end
              end
          end
        else Some (h, pos)
    end.

  (* def _siftup(heap, pos):
         endpos = len(heap); startpos = pos; newitem = heap[pos]
         <loop above>
         heap[pos] = newitem
         _siftdown(heap, startpos, pos) *)
  Definition siftup (h : list A) (pos : nat) : option (list A) :=
    match nth_error h pos with
    | None => None
    | Some newitem =>
        match siftup_loop (length h) h pos with
        | None => None
        | Some (h1, leaf) => siftdown (S leaf) (upd h1 leaf newitem) pos newitem leaf
        end
    end.

  (* def heappop(heap):
         lastelt = heap.pop()    # raises IndexError if heap is empty  -> None here
         if heap:
             returnitem = heap[0]
             heap[0] = lastelt
             _siftup(heap, 0)
             return returnitem
         return lastelt *)
  Definition heappop (h : list A) : option (A * list A) :=
    match nth_error h (length h - 1) with
    | None => None
    | Some lastelt =>
        let h' := firstn (length h - 1) h in
        match h' with
        | [] => Some (lastelt, [])
        | returnitem :: _ =>
            match siftup (upd h' 0 lastelt) 0 with
            | None => None
            | Some h2 => Some (returnitem, h2)
            end
        end
    end.

End Heap.

Arguments upd {A}.
Arguments siftdown {A}.
Arguments siftup_loop {A}.
Arguments siftup {A}.
Arguments heappush {A}.
Arguments heappop {A}.
