(* FAN-IN hand-overs and FAN-OUT.
   - `par sel A B` numbers its stages consistently (tagged), so in `fanin sel A B C = par sel A B >> C` the hand-overs shown at
     the boundary in front of C are exactly what the two branches forwarded (an interleaving of A's and B's forwards).
   - when the classifier is a function of the flow id, `par` keeps per-flow order for EVERY flow: it satisfies all three laws.
   - a demultiplexer (onl/netdev/demux.py: FlowDemux / FIBDemux, decision functions of Route/Demux.v) as a stateless
     interface element: put(p) hands p on at once when the decision is an output, discards it when the decision is
     "nowhere" (no route and no default: the documented discard of C08), and is not admissible when the decision raises.
   - FAN-OUT: `fanout route t0 A B C = A >> (demux_elem route t0 >> par (branch0 route) B C)`: what A forwards goes through the
     demux to B (decision OOut 0) or to C (any other output).  All laws follow from the series / par theorems. *)
From Coq Require Import ZArith QArith List Bool Permutation Lia Arith.
From ONL Require Import Elem.Packet Elem.Iface Elem.Compose Elem.ComposePar Elem.ComposeHands Route.Demux Route.DemuxProofs.
Import ListNotations.

(* ---- par is tagged; the hand-overs of a fan-in ------------------------------------------------------------------- *)
Section ParTagged.
  Variable sel : pkt -> bool.
  Variables A B : elem.
  Local Close Scope Q_scope.

  Lemma shift_tag_ok o : Forall (tag_ok (width B)) o -> Forall (tag_ok (width A + width B)) (map (shift A) o).
  Proof.
    intros H. apply Forall_forall. intros z Hz. apply in_map_iff in Hz as (z0 & <- & Hz0).
    pose proof (proj1 (Forall_forall _ _) H z0 Hz0) as Tz. destruct z0; cbn in *; auto; lia.
  Qed.
  Lemma mono_tag_ok o : Forall (tag_ok (width A)) o -> Forall (tag_ok (width A + width B)) o.
  Proof. intros H. eapply Forall_impl; [|exact H]. intros x Hx. apply (tag_ok_mono A (width A)); [lia|exact Hx]. Qed.

  Theorem par_tagged : tagged A -> tagged B -> tagged (par sel A B).
  Proof.
    intros (WA & TPA & TSA) (WB & TPB & TSB). split; [cbn; lia|]. split.
    - intros p [sA sB] s' o H. cbn [put par] in H. destruct (sel p).
      + unfold onA in H. cbn [fst] in H. destruct (put A p sA) as [[a' oA]|] eqn:E; [|discriminate]. injection H as _ <-.
        apply mono_tag_ok. eapply TPA; eauto.
      + unfold onB in H. cbn [snd] in H. destruct (put B p sB) as [[b' oB]|] eqn:E; [|discriminate]. injection H as _ <-.
        apply shift_tag_ok. eapply TPB; eauto.
    - intros [x|y] [sA sB] s' o H; cbn [step par] in H.
      + unfold onA in H. cbn [fst] in H. destruct (step A x sA) as [[a' oA]|] eqn:E; [|discriminate]. injection H as _ <-.
        apply mono_tag_ok. eapply TSA; eauto.
      + unfold onB in H. cbn [snd] in H. destruct (step B y sB) as [[b' oB]|] eqn:E; [|discriminate]. injection H as _ <-.
        apply shift_tag_ok. eapply TSB; eauto.
  Qed.
End ParTagged.

(* what a fan-in shows in front of C is, in order, an interleaving of what A forwarded and what B forwarded *)
Theorem fanin_hands sel A B C : tagged A -> tagged B -> forall acts s tr,
  run (fanin sel A B C) (init (fanin sel A B C)) acts = Some (s, tr) ->
  exists trA trB,
    run A (init A) (pactsA sel A B (actsA (par sel A B) C acts)) = Some (fst (fst s), trA) /\
    run B (init B) (pactsB sel A B (actsA (par sel A B) C acts)) = Some (snd (fst s), trB) /\
    interleave (fwds trA) (fwds trB) (hands (pred (width A + width B)) tr).
Proof.
  intros TA TB acts [[sA sB] sC] tr H.
  destruct (series_projection (par sel A B) C _ _ _ _ _ _ H) as (trP & trC & RP & _).
  pose proof (series_hands (par sel A B) C (par_tagged sel A B TA TB) _ _ _ _ _ _ _ H RP) as Hh.
  destruct (par_projection sel A B _ _ _ _ _ _ RP) as (trA & trB & RA & RB & _ & I2 & _).
  exists trA, trB. cbn [fst snd]. repeat split; auto. rewrite <- Hh in I2. exact I2.
Qed.

(* ---- a classifier that looks at the flow id only: every flow stays on one branch ------------------------------- *)
Theorem par_laws_by_flow sel (g : Z -> bool) A B :
  (forall p, sel p = g (flow p)) -> laws A -> laws B -> laws (par sel A B).
Proof.
  intros Hg [CA FA DA] [CB FB DB]. split.
  - apply par_conserves; assumption.
  - intros f. destruct (g f) eqn:Eg.
    + apply par_flow_fifo_A; auto. intros p Hp. unfold on_flow in Hp. apply Z.eqb_eq in Hp. rewrite Hg, Hp. exact Eg.
    + apply par_flow_fifo_B; auto. intros p Hp. unfold on_flow in Hp. apply Z.eqb_eq in Hp. rewrite Hg, Hp. exact Eg.
  - apply par_drained; assumption.
Qed.

Theorem par_timed sel A B : timed A -> timed B -> timed (par sel A B).
Proof.
  intros TA TB. pose proof TA as (PA & SA & AA). pose proof TB as (PB & SB & AB). repeat split.
  - intros p [sA sB] [sA1 sB1] o H. cbn [put par] in H. destruct (sel p).
    + unfold onA in H. cbn [fst snd] in H. destruct (put A p sA) as [[a' oA]|] eqn:E; [|discriminate]. injection H as <- _ _.
      cbn. eapply PA; eauto.
    + unfold onB in H. cbn [fst snd] in H. destruct (put B p sB) as [[b' oB]|] eqn:E; [|discriminate]. injection H as <- _ _. reflexivity.
  - intros [x|y] [sA sB] [sA1 sB1] o H; cbn [step par] in H.
    + unfold onA in H. cbn [fst snd] in H. destruct (step A x sA) as [[a' oA]|] eqn:E; [|discriminate]. injection H as <- _ _.
      cbn. eapply SA; eauto.
    + unfold onB in H. cbn [fst snd] in H. destruct (step B y sB) as [[b' oB]|] eqn:E; [|discriminate]. injection H as <- _ _. reflexivity.
  - destruct s as [sA sB]. cbn [advance par fst snd] in H. destruct (advance A t sA) as [a1|] eqn:EA; [|discriminate].
    destruct (advance B t sB) as [b1|]; [|discriminate]. injection H as <-. cbn. apply (AA _ _ _ EA).
  - destruct s as [sA sB]. cbn [advance par fst snd] in H. destruct (advance A t sA) as [a1|] eqn:EA; [|discriminate]. cbn. apply (AA _ _ _ EA).
  - destruct s as [sA sB]. cbn [advance par fst snd] in H. destruct (advance A t sA) as [a1|] eqn:EA; [|discriminate].
    destruct (advance B t sB) as [b1|] eqn:EB; [|discriminate].
    cbn. destruct (AA _ _ _ EA) as (_ & _ & -> & _). destruct (AB _ _ _ EB) as (_ & _ & -> & _). reflexivity.
  - destruct s as [sA sB]. cbn [advance par fst snd] in H. destruct (advance A t sA) as [a1|] eqn:EA; [|discriminate].
    destruct (advance B t sB) as [b1|] eqn:EB; [|discriminate].
    cbn [deadline par fst snd]. apply omin_le; [apply (AA _ _ _ EA)|apply (AB _ _ _ EB)].
Qed.

(* ---- the demultiplexer as an element ------------------------------------------------------------------------------ *)
Definition demux_put (route : Z -> output) (p : pkt) (s : Q) : option (Q * list eout) :=
  match route (flow p) with
  | OOut _ | OEnd _ | ODefault => Some (s, [EForward p])       (* handed to exactly one device *)
  | ONowhere => Some (s, [EDrop p])                             (* no route, no default: discarded *)
  | OError _ => None                                            (* put() raises: not an admissible input *)
  end.

Definition demux_elem (route : Z -> output) (t0 : Q) : elem := {|
  st := Q;                                   (* stateless: only the clock *)
  lab := Empty_set;
  init := t0;
  now := fun s => s;
  put := demux_put route;
  step := fun l _ => match l with end;
  advance := fun t s => if Qlt_le_dec s t then Some t else None;
  urgent := fun _ => false;
  deadline := fun _ => None;
  held := fun _ => [];
  accepts := fun _ => true;
  width := 1
|}.

Definition routed (route : Z -> output) (p : pkt) : bool :=
  match route (flow p) with OOut _ | OEnd _ | ODefault => true | _ => false end.

Lemma demux_run route t0 : forall acts s s' tr,
  run (demux_elem route t0) s acts = Some (s', tr) ->
  fwds tr = filter (routed route) (puts tr) /\ drops tr = filter (fun p => negb (routed route p)) (puts tr).
Proof.
  induction acts as [|a acts IH]; intros s s' tr H; cbn [run] in H.
  - injection H as _ <-. split; reflexivity.
  - destruct (act (demux_elem route t0) s a) as [[s1 o]|] eqn:Ea; [|discriminate].
    destruct (run (demux_elem route t0) s1 acts) as [[s2 tr1]|] eqn:Er; [|discriminate]. injection H as _ <-.
    destruct (IH _ _ _ Er) as [F D]. rewrite puts_cons, fwds_cons, drops_cons, F, D.
    destruct a as [p|[]|t].
    + cbn [act demux_elem put] in Ea. unfold demux_put in Ea. cbn [a_puts app filter].
      assert (Rp : routed route p = match route (flow p) with OOut _ | OEnd _ | ODefault => true | _ => false end) by reflexivity.
      destruct (route (flow p)) eqn:E0; try discriminate; injection Ea as _ <-; rewrite Rp; cbn; split; reflexivity.
    + cbn [act demux_elem advance] in Ea. destruct (Qlt_le_dec s t); [|discriminate]. injection Ea as _ <-. split; reflexivity.
Qed.

Lemma filter_split_perm {X} (f : X -> bool) l : Permutation l (filter f l ++ filter (fun x => negb (f x)) l).
Proof.
  induction l as [|x l IH]; cbn; [constructor|]. destruct (f x); cbn.
  - constructor. exact IH.
  - apply Permutation_trans with (x :: filter f l ++ filter (fun x => negb (f x)) l); [constructor; exact IH|].
    apply Permutation_middle.
Qed.
Lemma filter_sublist {X} (f : X -> bool) l : sublist (filter f l) l.
Proof. induction l as [|x l IH]; cbn; [constructor|]. destruct (f x); [constructor|apply sl_skip]; exact IH. Qed.

Theorem demux_elem_laws route t0 : laws (demux_elem route t0).
Proof.
  split.
  - intros acts s tr H. destruct (demux_run _ _ _ _ _ _ H) as [-> ->]. cbn [held demux_elem]. rewrite app_nil_r. apply filter_split_perm.
  - intros f acts s tr H. destruct (demux_run _ _ _ _ _ _ H) as [-> _]. apply sublist_filter. apply filter_sublist.
  - intros acts s tr H _ _ _. reflexivity.
Qed.

Theorem demux_elem_timed route t0 : timed (demux_elem route t0).
Proof.
  repeat split.
  - intros p s s' o H. cbn [put demux_elem] in H. unfold demux_put in H. destruct (route (flow p)); try discriminate; injection H as <- _; reflexivity.
  - intros [].
  - cbn [advance demux_elem] in H. destruct (Qlt_le_dec s t); [|discriminate]. injection H as <-. reflexivity.
  - cbn [advance demux_elem] in H. destruct (Qlt_le_dec s t); [|discriminate]. assumption.
  - intros d Hd. discriminate.
Qed.

Theorem demux_elem_tagged route t0 : tagged (demux_elem route t0).
Proof.
  apply atomic_tagged; [cbn; lia| |].
  - intros p s s' o H. cbn [put demux_elem] in H. unfold demux_put in H.
    destruct (route (flow p)); try discriminate; injection H as _ <-; repeat constructor.
  - intros [].
Qed.

(* ---- fan-out ------------------------------------------------------------------------------------------------------- *)
Definition branch0 (route : Z -> output) (p : pkt) : bool := match route (flow p) with OOut O => true | _ => false end.

Definition fanout (route : Z -> output) (t0 : Q) (A B C : elem) : elem := A >> (demux_elem route t0 >> par (branch0 route) B C).

Theorem fanout_laws route t0 A B C : laws A -> laws B -> laws C -> laws (fanout route t0 A B C).
Proof.
  intros LA LB LC. apply series_laws; [exact LA|]. apply series_laws; [apply demux_elem_laws|].
  apply (par_laws_by_flow _ (fun f => match route f with OOut O => true | _ => false end)); auto.
Qed.

Theorem fanout_timed route t0 A B C : timed A -> timed B -> timed C -> timed (fanout route t0 A B C).
Proof. intros TA TB TC. apply series_timed; [exact TA|]. apply series_timed; [apply demux_elem_timed|]. apply par_timed; assumption. Qed.

Theorem fanout_tagged route t0 A B C : tagged A -> tagged B -> tagged C -> tagged (fanout route t0 A B C).
Proof. intros TA TB TC. apply series_tagged; [exact TA|]. apply series_tagged; [apply demux_elem_tagged|]. apply par_tagged; assumption. Qed.

(* injected into A = delivered by B ++ delivered by C (interleaved) ++ dropped (by A, by the demux: no route, by B, by C) ++ held *)
Theorem fanout_conserves route t0 A B C : conserves A -> conserves B -> conserves C -> forall acts s tr,
  run (fanout route t0 A B C) (init (fanout route t0 A B C)) acts = Some (s, tr) ->
  Permutation (puts tr) (fwds tr ++ drops tr ++ held A (fst s) ++ held B (fst (snd (snd s))) ++ held C (snd (snd (snd s)))).
Proof.
  intros CA CB CC. 
  exact (series_conserves A _ CA (series_conserves _ _ (l_conserves _ (demux_elem_laws route t0)) (par_conserves _ B C CB CC))).
Qed.

(* ---- the selector is the routing model of Route/Demux.v: what C18 proves about it feeds the composition -------------- *)
(* every packet put into the demux element leaves it exactly once: handed on (to exactly one device: as many hand-overs as
   C18_exactly_one_output's delivery list has entries, i.e. one) or discarded by the no-route rule; never both, never twice *)
Theorem demux_put_once route p s s' o : demux_put route p s = Some (s', o) ->
  s' = s /\ o_fwds o ++ o_drops o = [p] /\ (o_fwds o = [p] <-> deliverable (route (flow p)) = true).
Proof.
  unfold demux_put. destruct (route (flow p)) eqn:E; try discriminate; intros H; injection H as <- <-; cbn;
    (split; [reflexivity|split; [reflexivity|split; congruence]]).
Qed.

Theorem fibdemux_put_deliveries c p s s' o : demux_put (fibdemux true true c) p s = Some (s', o) ->
  length (o_fwds o) = length (fst (fib_deliveries true true true c [] (flow p))).
Proof.
  intros H. destruct (demux_put_once _ _ _ _ _ H) as (_ & _ & Hd).
  destruct (exactly_one_output c [] (flow p)) as (D1 & D0 & _).
  destruct (deliverable (fibdemux true true c (flow p))) eqn:Ed.
  - rewrite (D1 eq_refl), (proj2 Hd eq_refl). reflexivity.
  - rewrite (D0 eq_refl). unfold demux_put in H. destruct (fibdemux true true c (flow p)); try discriminate;
      injection H as _ <-; reflexivity.
Qed.

(* FlowDemux with two outputs and no default (C18_flowdemux_rule): flow 0 goes to the first branch, flow 1 to the second,
   every other flow is discarded *)
Theorem flowdemux2_routes : let route := flowdemux true {| fd_nouts := 2; fd_default := false |} in
  forall p, (branch0 route p = true <-> flow p = 0%Z) /\ (routed route p = true <-> (0 <= flow p < 2)%Z) /\
            (routed route p = false -> route (flow p) = ONowhere).
Proof.
  intros route p. unfold route.
  destruct (flowdemux_rule {| fd_nouts := 2; fd_default := false |} (flow p)) as (R1 & _ & R3). cbn [fd_nouts fd_default] in *.
  destruct (Z_le_dec 0 (flow p)) as [L|L]; [destruct (Z_lt_dec (flow p) 2) as [U|U]|].
  - rewrite (fun H => R1 H) by (cbn; lia). unfold branch0, routed. rewrite (R1 ltac:(cbn; lia)). cbn.
    repeat split; intros; try lia; try discriminate; auto.
    + destruct (Z.to_nat (flow p)) eqn:E; [lia|discriminate].
    + subst. rewrite H. reflexivity.
  - unfold branch0, routed. rewrite (R3 ltac:(cbn; lia) eq_refl). repeat split; intros; try discriminate; try lia; auto.
  - unfold branch0, routed. rewrite (R3 ltac:(cbn; lia) eq_refl). repeat split; intros; try discriminate; try lia; auto.
Qed.
