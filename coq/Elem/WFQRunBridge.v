(* Bridging lemmas for the GENERATOR body WFQ.run (second tie, generator bodies: vlib/translate_gen.py).
   Gen/Extracted_wfq_run.v is regenerated from the tree under test on every run (update_vtime / reset_vtime inlined; their
   loops over self.active_set / self.weights.keys() are listed statements whose meaning is a parameter, as in Elem/WFQBridge.v):
     gen_WFQ_run_from_0   entry                          -> `item = yield self.store.get()`
     gen_WFQ_run_from_1   resumed with the PriorityItem  -> packet = item.item, `yield env.process(self.send_packet(packet))`
     gen_WFQ_run_from_2   the child process has ended    -> update_vtime(); class_count[class] -= 1; the class leaves
                          active_set iff its count reached 0; reset_vtime() iff active_set is empty THEN; last_time = now;
                          around the loop: the next `yield self.store.get()`
   from_0 / from_1 / the request of from_2 are the run() loop of the hand-written automaton (Elem/WFQServer.v: FInit, FGetDone,
   FChildEnd); the bookkeeping of from_2 is [wfq_done] of Elem/WFQ.v (the [st_done] of the WFQ stamper), up to == on virtual
   times (the model stores them reduced). *)
From Coq Require Import ZArith QArith Qminmax Qreduction List Bool Lia.
From ONL Require Import Elem.Packet Elem.StoreQ Elem.HeapList Elem.WFQServer Elem.WFQ Gen.Extracted_wfq_run.
Import ListNotations.

Definition wfq_run_fields (s : wst) (arr : Z) : wfq_run_st :=
  {| wr_vtime := vtime s; wr_last_time := last_time s; wr_arrivals := arr; wr_finish_times := fin s;
     wr_class_count := ccount s |}.

(* the sum over self.active_set of the weights (0 where the model's sum would raise KeyError) *)
Definition run_active_weight (cfg : wcfg) (s : wst) : Q :=
  match weight_sum (wweights cfg) (active s) with Some w => inject_Z w | None => 0 end.

(* active_set after `if self.class_count[c] == 0: self.active_set.remove(c)` with n the new count *)
Definition active_after (c n : Z) (a : list Z) : list Z := if Z.eqb n 0 then zremove c a else a.

(* from_2 on the stamper state: class of the packet, now, len(active_set) when run() resumes (the code itself counts the
   removal: `self.active_set.remove(c)` makes the length one less for the test that follows), reset_finish = all finish
   times 0 *)
Definition wfq_gen_done (cfg : wcfg) (now : Q) (s : wst) (arr : Z) (p : pkt) :=
  let c := wf2c cfg (flow p) in
  gen_WFQ_run_from_2 (wfq_run_fields s arr) c now
                     (Z.of_nat (length (active s))) (fun _ _ => 0) (run_active_weight cfg s).

Definition wst_agrees_run (s' : wst) (g : wfq_run_st) : Prop :=
  vtime s' == wr_vtime g /\ last_time s' = wr_last_time g /\
  (forall k, fin s' k == wr_finish_times g k) /\ (forall k, ccount s' k = wr_class_count g k).

Definition wfq_asks_get (g : wfq_run_st * list wfq_run_fx * wfq_run_next) : bool :=
  match snd g with NxYield RqStoreGet PP1 => true | _ => false end.
Definition wfq_asks_child (g : wfq_run_st * list wfq_run_fx * wfq_run_next) : bool :=
  match g with (_, [FxUnwrap], NxYield RqChild PP2) => true | _ => false end.

(* ---- the bookkeeping after a transmission -------------------------------------------------------------------------- *)
Lemma zremove_absent (c : Z) (a : list Z) : ~ In c a -> zremove c a = a.
Proof.
  induction a as [|x t IH]; intros H; [reflexivity|]. cbn.
  destruct (Z.eqb_spec x c) as [E|E]; [exfalso; apply H; left; exact E|].
  cbn. f_equal. apply IH. intros K. apply H. right. exact K.
Qed.

(* a set (no duplicates) loses exactly one element when a member is removed *)
Lemma length_zremove (c : Z) (a : list Z) : NoDup a -> zmem c a = true -> length a = S (length (zremove c a)).
Proof.
  induction a as [|x t IH]; intros Hn Hm; [discriminate|].
  inversion Hn as [|y l Hx Ht]; subst. cbn [zmem existsb] in Hm.
  unfold zremove. cbn [filter]. fold (zremove c t).
  destruct (Z.eqb_spec x c) as [E|E]; cbn [negb length].
  - subst x. rewrite (zremove_absent c t Hx). reflexivity.
  - f_equal. apply IH; [exact Ht|].
    destruct (Z.eqb_spec c x) as [E'|E']; [exfalso; apply E; symmetry; exact E'|]. exact Hm.
Qed.

Lemma bridge_wfq_run_done : forall (cfg : wcfg) (now : Q) (s : wst) (arr : Z) (p : pkt) (ws : Z),
  let c := wf2c cfg (flow p) in
  let n := (ccount s c - 1)%Z in
  weight_sum (wweights cfg) (active s) = Some ws -> ws <> 0%Z ->
  (n = 0%Z -> zmem c (active s) = true) -> NoDup (active s) ->
  let g := wfq_gen_done cfg now s arr p in
  exists st', wfq_done cfg now s p = Some st' /\
              wst_agrees_run st' (fst (fst g)) /\
              active st' = active_after c n (active s) /\
              snd (fst g) = (if Z.eqb n 0 then [FxActiveRemove c] else []) /\
              snd g = NxYield RqStoreGet PP1 /\
              wr_arrivals (fst (fst g)) = arr.
Proof.
  intros cfg now s arr p ws c n Hw Hz Hm Hnd g. subst g.
  unfold wfq_gen_done, gen_WFQ_run_from_2, wfq_done, update_vtime, run_active_weight, wfq_run_fields, active_after.
  fold c. rewrite Hw. destruct (Z.eqb_spec ws 0) as [E|E]; [contradiction|].
  cbn [wr_vtime wr_last_time wr_arrivals wr_finish_times wr_class_count]. fold n.
  assert (G : gen_upd (ccount s) c n c = n) by (unfold gen_upd; rewrite Z.eqb_refl; reflexivity). rewrite ?G.
  assert (V : Qred (vtime s + (now - last_time s) / inject_Z ws) ==
              vtime s + (now - last_time s) / ((0 # 1) + inject_Z ws))
    by (rewrite Qred_correct, Qplus_0_l; reflexivity).
  rewrite ?(Z.eqb_sym 0 n). destruct (Z.eqb n 0) eqn:En.
  - apply Z.eqb_eq in En. rewrite (Hm En). pose proof (length_zremove c (active s) Hnd (Hm En)) as L. rewrite L.
    destruct (zremove c (active s)) as [|x l] eqn:Er; cbn [length];
      [ change (Z.of_nat 1 + -1 =? 0)%Z with true
      | replace (Z.of_nat (S (S (length l))) + -1 =? 0)%Z with false by (symmetry; apply Z.eqb_neq; lia) ];
      (eexists; split; [reflexivity|]); cbn -[Qred Qplus Qdiv Qminus]; repeat split;
      first [reflexivity | exact V | (symmetry; exact Er)].
  - destruct (active s) as [|x l] eqn:Ea;
      (eexists; split; [reflexivity|]); cbn -[Qred Qplus Qdiv Qminus]; repeat split;
      first [reflexivity | exact V].
Qed.

(* ---- the run() loop ------------------------------------------------------------------------------------------------ *)
Lemma bridge_wfq_run_init : forall (cfg : wcfg) (s : wfq cfg) (arr c : Z) (now : Q) (na : Z) (rf : (Z -> Q) -> Z -> Q) (aw : Q),
  wfq_act cfg s FInit =
    if started s then Disabled
    else if wfq_asks_get (gen_WFQ_run_from_0 (wfq_run_fields (stm s) arr) c now na rf aw) then
      match sq_get pq_pop (store s) with
      | Some q => Ok ({| now := WFQServer.now s; started := true; store := q; stm := stm s; seq := seq s; qcount := qcount s;
                         qbytes := qbytes s; nrecv := nrecv s; chl := chl s |}, [])
      | None => Disabled
      end
    else Disabled.
Proof. intros. reflexivity. Qed.

Lemma bridge_wfq_run_get : forall (cfg : wcfg) (s : wfq cfg) (arr c : Z) (now : Q) (na : Z) (rf : (Z -> Q) -> Z -> Q) (aw : Q),
  wfq_act cfg s FGetDone =
    match chl s, sq_take (store s) with
    | CNone, Some (e, q) =>
        if started s then
          (if wfq_asks_child (gen_WFQ_run_from_1 (wfq_run_fields (stm s) arr) c now na rf aw)
           then Ok (with_child _ (with_store _ s q) (CInit e), []) else Disabled)
        else Disabled
    | _, _ => Disabled
    end.
Proof.
  intros. unfold wfq_act, act.
  destruct (chl s); try reflexivity; destruct (sq_take (store s)) as [[e q]|]; try reflexivity;
    destruct (started s); reflexivity.
Qed.

Lemma wfq_done_asks_get cfg now s arr p : wfq_asks_get (wfq_gen_done cfg now s arr p) = true.
Proof.
  unfold wfq_asks_get, wfq_gen_done, gen_WFQ_run_from_2.
  repeat match goal with |- context [if ?b then _ else _] => destruct b end; reflexivity.
Qed.

(* the child has ended: the stamper's books are brought up to date by from_2, then the next get is issued *)
Lemma bridge_wfq_run_child_end : forall (cfg : wcfg) (s : wfq cfg) (e : entry) (st' : wst),
  chl s = CEnded e ->
  wfq_done cfg (WFQServer.now s) (stm s) (epkt e) = Some st' ->
  wfq_act cfg s FChildEnd =
    if wfq_asks_get (wfq_gen_done cfg (WFQServer.now s) (stm s) (Z.of_nat (seq s)) (epkt e)) then
      match sq_get pq_pop (store s) with
      | Some q => Ok ({| now := WFQServer.now s; started := started s; store := q; stm := (st' : ST (wfq_stamper cfg));
                         seq := seq s; qcount := qcount s; qbytes := qbytes s; nrecv := nrecv s; chl := CNone |}, [])
      | None => Disabled
      end
    else Disabled.
Proof.
  intros cfg s e st' Hc Hd. unfold wfq_act, act. rewrite Hc. cbn [st_done wfq_stamper]. rewrite Hd, wfq_done_asks_get. reflexivity.
Qed.
