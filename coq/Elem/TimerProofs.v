(* Proofs about Elem/Timer.v (the repaired code: `fixed`).  All statements quantify over every admissible
   execution of the automaton: any interleaving of stop()/restart() calls by foreign processes, calls made by
   the callback, and the kernel steps of the timer processes. *)
From Coq Require Import ZArith QArith Qminmax List Bool Lia Lqa Sorted.
From ONL Require Import Elem.Timer.
Import ListNotations.

Local Open Scope Q_scope.

(* ---- lists ------------------------------------------------------------------------------------ *)
Lemma nth_error_upd {A : Type} (f : A -> A) (l : list A) : forall i j,
  nth_error (upd i f l) j = if Nat.eqb i j then option_map f (nth_error l j) else nth_error l j.
Proof.
  induction l as [|x t IH]; intros i j.
  - destruct i, j; cbn; try reflexivity; destruct (Nat.eqb _ _); reflexivity.
  - destruct i as [|i], j as [|j]; cbn; try reflexivity. apply IH.
Qed.

Lemma nth_error_upd_same {A : Type} (f : A -> A) (l : list A) i p :
  nth_error l i = Some p -> nth_error (upd i f l) i = Some (f p).
Proof. intros H. rewrite nth_error_upd, Nat.eqb_refl, H. reflexivity. Qed.

Lemma nth_error_upd_other {A : Type} (f : A -> A) (l : list A) i j :
  i <> j -> nth_error (upd i f l) j = nth_error l j.
Proof. intros H. rewrite nth_error_upd. apply Nat.eqb_neq in H. rewrite H. reflexivity. Qed.

Lemma length_upd {A : Type} (f : A -> A) (l : list A) : forall i, length (upd i f l) = length l.
Proof. induction l as [|x t IH]; intros [|i]; cbn; auto. Qed.

Lemma existsb_false_nth {A : Type} (f : A -> bool) (l : list A) i x :
  existsb f l = false -> nth_error l i = Some x -> f x = false.
Proof.
  intros H Hn. apply nth_error_In in Hn.
  destruct (f x) eqn:E; [|reflexivity].
  assert (existsb f l = true) by (apply existsb_exists; eauto). congruence.
Qed.

Lemma forallb_nth {A : Type} (f : A -> bool) (l : list A) i x :
  forallb f l = true -> nth_error l i = Some x -> f x = true.
Proof. intros H Hn. apply nth_error_In in Hn. rewrite forallb_forall in H. auto. Qed.

(* ---- the callback's calls, for the repaired code, only touch the scheduling fields -------------- *)
Definition cb_call (st : timer) (c : call) : timer :=
  match c with CStop => do_stop st | CRestart tau => set_sched st tau end.
Definition cb_effect (cs : list call) (st : timer) : timer := fold_left cb_call cs st.

Lemma cb_effect_frame cs : forall st,
  let st' := cb_effect cs st in
  tnow st' = tnow st /\ procs st' = procs st /\ cur st' = cur st /\ err st' = err st /\
  autor st' = autor st /\ cargs st' = cargs st.
Proof.
  induction cs as [|c t IH]; intros st; cbn; [repeat split|].
  destruct (IH (cb_call st c)) as (A & B & C & D & E & G).
  unfold cb_effect in *. rewrite A, B, C, D, E, G. destruct c; cbn; repeat split.
Qed.

Lemma apply_calls_fixed cs : forall st,
  err st = None ->
  fold_left (apply_call fixed (cur st)) cs st = cb_effect cs st.
Proof.
  induction cs as [|c t IH]; intros st He; cbn; [reflexivity|].
  assert (E : apply_call fixed (cur st) st c = cb_call st c).
  { unfold apply_call. rewrite He. destruct c; cbn; [reflexivity|].
    unfold do_restart. cbn. rewrite Nat.eqb_refl. reflexivity. }
  rewrite E.
  assert (C : cur (cb_call st c) = cur st) by (destruct c; reflexivity).
  assert (He' : err (cb_call st c) = None) by (destruct c; cbn; exact He).
  rewrite <- C. rewrite IH by exact He'. reflexivity.
Qed.

(* ---- the invariant ----------------------------------------------------------------------------- *)
(* self.proc carries no pending interruption; while it sleeps and the timer is not stopped its Timeout is due
   exactly at expire_time, which is not in the past; every other live timer process has an interruption
   pending (so it ends before its own Timeout can be processed) *)
Definition Inv (st : timer) : Prop :=
  err st = None /\
  (exists a, cargs st = Some a) /\
  (exists p, nth_error (procs st) (cur st) = Some p /\ intr p = 0%nat /\
     forall d, ph p = PWait d -> tnow st <= d /\ (stopped st = false -> d == expire st)) /\
  (forall i p, i <> cur st -> nth_error (procs st) i = Some p -> alive p = true -> intr p <> 0%nat).

Lemma Inv_init t0 tau au a : Inv (timer0 fixed t0 tau au a).
Proof.
  unfold Inv, timer0; cbn. split; [reflexivity|]. split; [destruct a; cbn; eauto|]. split.
  - exists {| ph := PInit; intr := 0 |}. cbn. split; [reflexivity|split; [reflexivity|intros d H; discriminate]].
  - intros [|i] p Hi Hn; [congruence|]. destruct i; discriminate.
Qed.

Lemma no_urgent_nth st i p :
  any_urgent st = false -> nth_error (procs st) i = Some p -> ph p <> PInit /\ intr p = 0%nat.
Proof.
  intros H Hn. apply (existsb_false_nth _ _ _ _ H) in Hn. unfold urgent_p, is_init in Hn.
  apply orb_false_iff in Hn as [H1 H2]. apply negb_false_iff, Nat.eqb_eq in H2.
  split; [|exact H2]. intros E. rewrite E in H1. discriminate.
Qed.

Lemma loop_phase_wait st d :
  loop_phase st = PWait d -> tnow st < expire st /\ d == expire st.
Proof.
  unfold loop_phase. destruct (Qlt_le_dec (tnow st) (expire st)) as [L|L]; [|discriminate].
  intros E. injection E as <-. split; [exact L|ring].
Qed.

Lemma loop_phase_cases st :
  (tnow st < expire st /\ loop_phase st = PWait (tnow st + (expire st - tnow st))) \/
  (expire st <= tnow st /\ loop_phase st = PDone).
Proof. unfold loop_phase. destruct (Qlt_le_dec (tnow st) (expire st)); [left|right]; auto. Qed.

(* what an admissible action does, in a state satisfying the invariant *)
Definition kill (p : tproc) : tproc := set_ph PDone (sub_intr p).

Lemma act_cases st a st' outs :
  Inv st -> timer_act fixed st a = Some (st', outs) ->
  match a with
  | TStop => outs = [] /\ st' = do_stop st
  | TRestart tau =>
      outs = [] /\ exists p, nth_error (procs st) (cur st) = Some p /\
      ((alive p = true /\
        st' = set_cur (set_procs (set_sched st tau) (upd (cur st) add_intr (procs st) ++ [newp])) (length (procs st)))
       \/ (alive p = false /\ st' = set_sched st tau))
  | TProcInit i =>
      outs = [] /\ exists p, nth_error (procs st) i = Some p /\ ph p = PInit /\
      st' = set_procs st (upd i (set_ph (loop_phase st)) (procs st))
  | TProcTimeout i cs =>
      i = cur st /\ any_urgent st = false /\
      exists p d a0, nth_error (procs st) i = Some p /\ ph p = PWait d /\ d == tnow st /\ cargs st = Some a0 /\
      ((stopped st = true /\ cs = [] /\ outs = [] /\
        st' = set_procs st (upd i (set_ph (loop_phase st)) (procs st)))
       \/ (stopped st = false /\ outs = [OFire a0] /\
           st' = set_procs (rebase (cb_effect cs st))
                           (upd i (set_ph (loop_phase (rebase (cb_effect cs st)))) (procs st))))
  | TProcInterrupt i =>
      outs = [] /\ i <> cur st /\ exists p, nth_error (procs st) i = Some p /\ intr p <> 0%nat /\ ph p <> PInit /\
      ((exists d, ph p = PWait d /\ st' = set_procs st (upd i kill (procs st)))
       \/ (alive p = false /\ st' = set_procs st (upd i sub_intr (procs st))))
  | TProcEnd i =>
      outs = [] /\ exists p, nth_error (procs st) i = Some p /\ ph p = PDone /\
      st' = set_procs st (upd i (set_ph PGone) (procs st))
  | TAdvance t =>
      outs = [] /\ any_urgent st = false /\ tnow st < t /\
      (forall i p d, nth_error (procs st) i = Some p -> ph p = PWait d -> t <= d) /\
      st' = set_now st t
  end.
Proof.
  intros (He & (a0 & Ha) & (pc & Hc & Hi0 & Hw) & Hoth) H.
  unfold timer_act in H. rewrite He in H. destruct a as [|tau|i|i cs|i|i|t].
  - injection H as <- <-. auto.
  - injection H as <- <-. split; [reflexivity|]. exists pc. split; [exact Hc|].
    unfold do_restart. cbn [fx_selfcb fixed is_caller andb]. rewrite Hc. unfold alive_test. cbn [fx_alive fixed].
    destruct (alive pc) eqn:E; cbn [negb]; [left|right]; split; reflexivity.
  - destruct (nth_error (procs st) i) as [p|] eqn:Hn; [|discriminate].
    destruct (ph p) eqn:Hp; try discriminate. injection H as <- <-.
    split; [reflexivity|]. exists p. auto.
  - destruct (nth_error (procs st) i) as [p|] eqn:Hn; [|discriminate].
    destruct (ph p) as [|d| |] eqn:Hp; try discriminate.
    destruct (Qeq_bool d (tnow st) && negb (any_urgent st)) eqn:G; [|discriminate].
    apply andb_true_iff in G as [G1 G2]. apply Qeq_bool_iff in G1. apply negb_true_iff in G2.
    assert (Hic : i = cur st).
    { destruct (Nat.eq_dec i (cur st)) as [|N]; [assumption|]. exfalso.
      destruct (no_urgent_nth _ _ _ G2 Hn) as [_ Z]. apply (Hoth i p N Hn); [unfold alive; rewrite Hp; reflexivity|exact Z]. }
    split; [exact Hic|]. split; [exact G2|]. exists p, d, a0. repeat (split; [first [assumption|reflexivity]|]).
    destruct (stopped st) eqn:Hs.
    + destruct cs; [|discriminate]. injection H as <- <-. left. auto.
    + rewrite Ha in H. subst i. rewrite (apply_calls_fixed cs st He) in H.
      destruct (cb_effect_frame cs st) as (F1 & F2 & F3 & F4 & F5 & F6).
      rewrite F4, He in H. injection H as <- <-. right. split; [reflexivity|]. split; [reflexivity|].
      assert (P : procs (rebase (cb_effect cs st)) = procs st).
      { unfold rebase. destruct (autor (cb_effect cs st)); cbn; exact F2. }
      rewrite P. reflexivity.
  - destruct (nth_error (procs st) i) as [p|] eqn:Hn; [|discriminate].
    destruct (Nat.eqb (intr p) 0) eqn:Z; [discriminate|]. apply Nat.eqb_neq in Z.
    assert (Hic : i <> cur st).
    { intros ->. rewrite Hc in Hn. injection Hn as <-. auto. }
    destruct (ph p) as [|d| |] eqn:Hp; try discriminate; injection H as <- <-;
      (split; [reflexivity|]; split; [exact Hic|]; exists p; split; [reflexivity|]; split; [exact Z|];
       split; [congruence|]).
    + left. exists d. split; [exact Hp|reflexivity].
    + right. split; [unfold alive; rewrite Hp; reflexivity|reflexivity].
    + right. split; [unfold alive; rewrite Hp; reflexivity|reflexivity].
  - destruct (nth_error (procs st) i) as [p|] eqn:Hn; [|discriminate].
    destruct (ph p) eqn:Hp; try discriminate. injection H as <- <-.
    split; [reflexivity|]. exists p. auto.
  - destruct (any_urgent st) eqn:U; [discriminate|].
    destruct (Qlt_le_dec (tnow st) t) as [L|L]; [|discriminate].
    destruct (forallb _ (procs st)) eqn:Fa; [|discriminate]. injection H as <- <-.
    split; [reflexivity|]. split; [reflexivity|]. split; [exact L|]. split; [|reflexivity].
    intros i p d Hn Hp. apply (forallb_nth _ _ _ _ Fa) in Hn. rewrite Hp in Hn. apply Qle_bool_iff in Hn. exact Hn.
Qed.

Lemma rebase_frame st :
  tnow (rebase st) = tnow st /\ procs (rebase st) = procs st /\ cur (rebase st) = cur st /\
  err (rebase st) = err st /\ autor (rebase st) = autor st /\ cargs (rebase st) = cargs st /\
  stopped (rebase st) = stopped st /\ tmo (rebase st) = tmo st.
Proof. unfold rebase. destruct (autor st) eqn:E; cbn; rewrite ?E; repeat split. Qed.

Lemma fired_frame cs st :
  let st2 := rebase (cb_effect cs st) in
  tnow st2 = tnow st /\ procs st2 = procs st /\ cur st2 = cur st /\ err st2 = err st /\
  autor st2 = autor st /\ cargs st2 = cargs st.
Proof.
  cbn. destruct (rebase_frame (cb_effect cs st)) as (A & B & C & D & E & G & _).
  destruct (cb_effect_frame cs st) as (A' & B' & C' & D' & E' & G').
  rewrite A, B, C, D, E, G. repeat split; assumption.
Qed.

Lemma Inv_step st a st' outs :
  Inv st -> timer_act fixed st a = Some (st', outs) -> Inv st'.
Proof.
  intros HI H. pose proof (act_cases _ _ _ _ HI H) as C.
  destruct HI as (He & (a0 & Ha) & (pc & Hc & Hi0 & Hw) & Hoth).
  destruct a as [|tau|i|i cs|i|i|t].
  - destruct C as (_ & ->). unfold Inv; cbn. split; [exact He|]. split; [eauto|]. split.
    + exists pc. split; [exact Hc|]. split; [exact Hi0|]. intros d Hd. destruct (Hw d Hd) as [L _].
      split; [exact L|discriminate].
    + exact Hoth.
  - destruct C as (_ & p & Hp & [(Al & ->)|(Al & ->)]); rewrite Hc in Hp; injection Hp as <-.
    + unfold Inv; cbn. split; [exact He|]. split; [eauto|]. split.
      * exists newp. split.
        { rewrite nth_error_app2 by (rewrite length_upd; lia). rewrite length_upd, Nat.sub_diag. reflexivity. }
        split; [reflexivity|]. intros d Hd; discriminate.
      * intros i p Hi Hn Hal.
        assert (Hlt : (i < length (procs st))%nat).
        { destruct (Nat.lt_ge_cases i (length (procs st))) as [L|G]; [exact L|exfalso].
          assert (Hlen : (length (upd (cur st) add_intr (procs st) ++ [newp]) <= i)%nat).
          { rewrite app_length, length_upd. cbn. lia. }
          apply nth_error_None in Hlen. congruence. }
        rewrite nth_error_app1 in Hn by (rewrite length_upd; exact Hlt).
        rewrite nth_error_upd in Hn. destruct (Nat.eqb (cur st) i) eqn:E.
        -- apply Nat.eqb_eq in E. subst i. rewrite Hc in Hn. injection Hn as <-. cbn. lia.
        -- apply Nat.eqb_neq in E. apply (Hoth i p); auto.
    + unfold Inv; cbn. split; [exact He|]. split; [eauto|]. split.
      * exists pc. split; [exact Hc|]. split; [exact Hi0|]. intros d Hd. unfold alive in Al. rewrite Hd in Al. discriminate.
      * exact Hoth.
  - destruct C as (_ & p & Hp & Hph & ->). unfold Inv; cbn. split; [exact He|]. split; [eauto|]. split.
    + destruct (Nat.eq_dec i (cur st)) as [->|N].
      * rewrite Hc in Hp. injection Hp as <-. exists (set_ph (loop_phase st) pc).
        split; [apply nth_error_upd_same; exact Hc|]. split; [exact Hi0|]. cbn. intros d Hd.
        apply loop_phase_wait in Hd as [L E]. split; [|intros _; exact E]. rewrite E. apply Qlt_le_weak, L.
      * exists pc. split; [rewrite nth_error_upd_other by exact N; exact Hc|]. auto.
    + intros j q Hj Hn Hal. rewrite nth_error_upd in Hn. destruct (Nat.eqb i j) eqn:E.
      * apply Nat.eqb_eq in E. subst j. rewrite Hp in Hn. cbn in Hn. injection Hn as <-. cbn.
        apply (Hoth i p Hj Hp). unfold alive. rewrite Hph. reflexivity.
      * apply (Hoth j q); auto.
  - destruct C as (-> & U & p & d & a1 & Hp & Hph & Hd & Ha1 & [(Hs & -> & -> & ->)|(Hs & -> & ->)]);
      rewrite Hc in Hp; injection Hp as <-.
    + unfold Inv; cbn. split; [exact He|]. split; [eauto|]. split.
      * exists (set_ph (loop_phase st) pc). split; [apply nth_error_upd_same; exact Hc|]. split; [exact Hi0|].
        cbn. intros d' Hd'. apply loop_phase_wait in Hd' as [L E]. split; [|intros _; exact E].
        rewrite E. apply Qlt_le_weak, L.
      * intros j q Hj Hn Hal. rewrite nth_error_upd_other in Hn by congruence. apply (Hoth j q); auto.
    + destruct (fired_frame cs st) as (F1 & F2 & F3 & F4 & F5 & F6). cbn in F1, F2, F3, F4, F5, F6.
      set (st2 := rebase (cb_effect cs st)) in *.
      unfold Inv; cbn. rewrite F3, F4, F6. split; [exact He|]. split; [eauto|]. split.
      * exists (set_ph (loop_phase st2) pc). split; [apply nth_error_upd_same; exact Hc|]. split; [exact Hi0|].
        cbn. intros d' Hd'. apply loop_phase_wait in Hd' as [L E]. split; [|intros _; exact E].
        rewrite E. apply Qlt_le_weak, L.
      * intros j q Hj Hn Hal. rewrite nth_error_upd_other in Hn by congruence. apply (Hoth j q); auto.
  - destruct C as (_ & Hic & p & Hp & Hz & Hni & [(d & Hd & ->)|(Al & ->)]);
      (unfold Inv; cbn; split; [exact He|]; split; [eauto|]; split;
       [exists pc; split; [rewrite nth_error_upd_other by exact Hic; exact Hc|auto]|]).
    + intros j q Hj Hn Hal. rewrite nth_error_upd in Hn. destruct (Nat.eqb i j) eqn:E.
      * apply Nat.eqb_eq in E. subst j. rewrite Hp in Hn. cbn in Hn. injection Hn as <-. discriminate.
      * apply (Hoth j q); auto.
    + intros j q Hj Hn Hal. rewrite nth_error_upd in Hn. destruct (Nat.eqb i j) eqn:E.
      * apply Nat.eqb_eq in E. subst j. rewrite Hp in Hn. cbn in Hn. injection Hn as <-.
        unfold alive in *. cbn in Hal. congruence.
      * apply (Hoth j q); auto.
  - destruct C as (_ & p & Hp & Hph & ->). unfold Inv; cbn. split; [exact He|]. split; [eauto|]. split.
    + destruct (Nat.eq_dec i (cur st)) as [->|N].
      * rewrite Hc in Hp. injection Hp as <-. exists (set_ph PGone pc).
        split; [apply nth_error_upd_same; exact Hc|]. split; [exact Hi0|]. cbn. intros d Hd. discriminate.
      * exists pc. split; [rewrite nth_error_upd_other by exact N; exact Hc|]. auto.
    + intros j q Hj Hn Hal. rewrite nth_error_upd in Hn. destruct (Nat.eqb i j) eqn:E.
      * apply Nat.eqb_eq in E. subst j. rewrite Hp in Hn. cbn in Hn. injection Hn as <-. discriminate.
      * apply (Hoth j q); auto.
  - destruct C as (_ & U & L & Hall & ->). unfold Inv; cbn. split; [exact He|]. split; [eauto|]. split.
    + exists pc. split; [exact Hc|]. split; [exact Hi0|]. intros d Hd. split; [apply (Hall _ _ _ Hc Hd)|apply (Hw d Hd)].
    + exact Hoth.
Qed.

Lemma Inv_run acts : forall st st' tr,
  Inv st -> timer_run fixed st acts = Some (st', tr) -> Inv st'.
Proof.
  induction acts as [|a rest IH]; intros st st' tr HI H; cbn in H.
  - injection H as <- _. exact HI.
  - destruct (timer_act fixed st a) as [[s1 o1]|] eqn:Ha; [|discriminate].
    destruct (timer_run fixed s1 rest) as [[s2 t2]|] eqn:Hr; [|discriminate].
    injection H as <- _. eapply IH; [eapply Inv_step; eauto|eauto].
Qed.

(* ---- never raises; one live uninterrupted process ---------------------------------------------- *)
Theorem timer_never_raises t0 tau au a acts st tr :
  timer_run fixed (timer0 fixed t0 tau au a) acts = Some (st, tr) -> err st = None.
Proof. intros H. apply (Inv_run _ _ _ _ (Inv_init t0 tau au a)) in H. apply H. Qed.

Theorem single_live_process t0 tau au a acts st tr :
  timer_run fixed (timer0 fixed t0 tau au a) acts = Some (st, tr) ->
  (forall i p, nth_error (procs st) i = Some p -> alive p = true -> intr p = 0%nat -> i = cur st) /\
  (exists p, nth_error (procs st) (cur st) = Some p /\ intr p = 0%nat /\
     forall d, ph p = PWait d -> tnow st <= d /\ (stopped st = false -> d == expire st)).
Proof.
  intros H. apply (Inv_run _ _ _ _ (Inv_init t0 tau au a)) in H.
  destruct H as (_ & _ & Hc & Hoth). split; [|exact Hc].
  intros i p Hn Hal Hz. destruct (Nat.eq_dec i (cur st)) as [|N]; [assumption|].
  exfalso. apply (Hoth i p N Hn Hal Hz).
Qed.

(* ---- run: composition ------------------------------------------------------------------------- *)
Lemma run_app fx pre : forall post st st2 tr,
  timer_run fx st (pre ++ post) = Some (st2, tr) ->
  exists st1 tr1 tr2, timer_run fx st pre = Some (st1, tr1) /\ timer_run fx st1 post = Some (st2, tr2) /\
                      tr = tr1 ++ tr2.
Proof.
  induction pre as [|a rest IH]; intros post st st2 tr H; cbn in *.
  - exists st, [], tr. auto.
  - destruct (timer_act fx st a) as [[s1 o1]|]; [|discriminate].
    destruct (timer_run fx s1 (rest ++ post)) as [[s2 t2]|] eqn:Hr; [|discriminate].
    injection H as <- <-. destruct (IH _ _ _ _ Hr) as (st1 & tr1 & tr2 & R1 & R2 & ->).
    rewrite R1. exists st1, ((tnow s1, a, o1) :: tr1), tr2. auto.
Qed.

Lemma fires_app tr1 tr2 : fires (tr1 ++ tr2) = fires tr1 ++ fires tr2.
Proof.
  induction tr1 as [|[[t a] o] rest IH]; cbn; [reflexivity|]. rewrite IH, app_assoc. reflexivity.
Qed.

(* ---- stop is final ---------------------------------------------------------------------------- *)
Lemma cb_effect_stopped_mono cs : forall st, stopped st = true -> stopped (cb_effect cs st) = true.
Proof.
  induction cs as [|c t IH]; intros st H; cbn; [exact H|]. apply IH. destruct c; cbn; auto.
Qed.

Lemma cb_effect_stop cs : forall st, In CStop cs -> stopped (cb_effect cs st) = true.
Proof.
  induction cs as [|c t IH]; intros st H; [destruct H|]. cbn. destruct H as [->|H].
  - apply cb_effect_stopped_mono. reflexivity.
  - apply IH, H.
Qed.

Lemma stopped_step st a st' outs :
  Inv st -> stopped st = true -> timer_act fixed st a = Some (st', outs) -> stopped st' = true /\ outs = [].
Proof.
  intros HI Hs H. pose proof (act_cases _ _ _ _ HI H) as C. destruct a as [|tau|i|i cs|i|i|t].
  - destruct C as (-> & ->). auto.
  - destruct C as (-> & p & _ & [(_ & ->)|(_ & ->)]); cbn; auto.
  - destruct C as (-> & p & _ & _ & ->). cbn; auto.
  - destruct C as (_ & _ & p & d & a0 & _ & _ & _ & _ & [(_ & _ & -> & ->)|(Hs' & _)]); [cbn; auto|congruence].
  - destruct C as (-> & _ & p & _ & _ & _ & [(d & _ & ->)|(_ & ->)]); cbn; auto.
  - destruct C as (-> & p & _ & _ & ->). cbn; auto.
  - destruct C as (-> & _ & _ & _ & ->). cbn; auto.
Qed.

Lemma stopped_run acts : forall st st' tr,
  Inv st -> stopped st = true -> timer_run fixed st acts = Some (st', tr) -> stopped st' = true /\ fires tr = [].
Proof.
  induction acts as [|a rest IH]; intros st st' tr HI Hs H; cbn in H.
  - injection H as <- <-. auto.
  - destruct (timer_act fixed st a) as [[s1 o1]|] eqn:Ha; [|discriminate].
    destruct (timer_run fixed s1 rest) as [[s2 t2]|] eqn:Hr; [|discriminate].
    injection H as <- <-. destruct (stopped_step _ _ _ _ HI Hs Ha) as [Hs1 ->].
    destruct (IH _ _ _ (Inv_step _ _ _ _ HI Ha) Hs1 Hr) as [Hs2 Hf]. cbn. auto.
Qed.

(* the history contains a stop: stop() by a foreign process, or a callback that calls stop() *)
Definition is_stop (a : taction) : Prop :=
  a = TStop \/ exists i cs, a = TProcTimeout i cs /\ In CStop cs.

Lemma stop_step st a st' outs :
  Inv st -> is_stop a -> timer_act fixed st a = Some (st', outs) -> stopped st' = true.
Proof.
  intros HI Hst H. pose proof (act_cases _ _ _ _ HI H) as C.
  destruct Hst as [->|(i & cs & -> & Hin)].
  - destruct C as (_ & ->). reflexivity.
  - destruct C as (_ & _ & p & d & a0 & _ & _ & _ & _ & [(_ & -> & _)|(_ & _ & ->)]); [destruct Hin|].
    cbn. destruct (rebase_frame (cb_effect cs st)) as (_ & _ & _ & _ & _ & _ & S & _). rewrite S.
    apply cb_effect_stop, Hin.
Qed.

Lemma stop_in_run acts : forall st st' tr,
  Inv st -> (exists a, In a acts /\ is_stop a) -> timer_run fixed st acts = Some (st', tr) -> stopped st' = true.
Proof.
  induction acts as [|a rest IH]; intros st st' tr HI (x & Hin & Hx) H; [destruct Hin|]. cbn in H.
  destruct (timer_act fixed st a) as [[s1 o1]|] eqn:Ha; [|discriminate].
  destruct (timer_run fixed s1 rest) as [[s2 t2]|] eqn:Hr; [|discriminate].
  injection H as <- <-. pose proof (Inv_step _ _ _ _ HI Ha) as HI1.
  destruct Hin as [->|Hin].
  - apply (stopped_run rest s1 s2 t2 HI1 (stop_step _ _ _ _ HI Hx Ha) Hr).
  - apply (IH s1 s2 t2 HI1); eauto.
Qed.

Theorem stop_is_final t0 tau au a pre post st tr :
  timer_run fixed (timer0 fixed t0 tau au a) (pre ++ post) = Some (st, tr) ->
  (exists x, In x pre /\ is_stop x) ->
  exists st1 tr1 tr2, timer_run fixed (timer0 fixed t0 tau au a) pre = Some (st1, tr1) /\
                      timer_run fixed st1 post = Some (st, tr2) /\ tr = tr1 ++ tr2 /\
                      stopped st1 = true /\ fires tr2 = [].
Proof.
  intros H Hst. destruct (run_app _ _ _ _ _ _ H) as (st1 & tr1 & tr2 & R1 & R2 & ->).
  exists st1, tr1, tr2. split; [exact R1|]. split; [exact R2|]. split; [reflexivity|].
  pose proof (Inv_init t0 tau au a) as HI0.
  pose proof (stop_in_run _ _ _ _ HI0 Hst R1) as Hs.
  split; [exact Hs|]. apply (stopped_run _ _ _ _ (Inv_run _ _ _ _ HI0 R1) Hs R2).
Qed.
