(* Proofs about Elem/Timer.v (the repaired code: `fixed`).  All statements quantify over every admissible
   execution of the automaton: any interleaving of stop()/restart() calls by foreign processes, calls made by
   the callback, and the kernel steps of the timer processes. *)
From Coq Require Import ZArith QArith Qminmax List Bool Lia Lqa Sorted.
From ONL Require Import Elem.Timer.
Import ListNotations.

Local Open Scope Q_scope.

(* ---- lists ------------------------------------------------------------------------------------ *)
Lemma nth_error_upd {A : Type} (f : A -> A) (l : list A) : forall i j,
  nth_error (upd i f l) j = if Nat.eqb i j then option_map f (nth_error l j) else nth_error l j.
Proof.
  induction l as [|x t IH]; intros i j.
  - destruct i, j; cbn; try reflexivity; destruct (Nat.eqb _ _); reflexivity.
  - destruct i as [|i], j as [|j]; cbn; try reflexivity. apply IH.
Qed.

Lemma nth_error_upd_same {A : Type} (f : A -> A) (l : list A) i p :
  nth_error l i = Some p -> nth_error (upd i f l) i = Some (f p).
Proof. intros H. rewrite nth_error_upd, Nat.eqb_refl, H. reflexivity. Qed.

Lemma nth_error_upd_other {A : Type} (f : A -> A) (l : list A) i j :
  i <> j -> nth_error (upd i f l) j = nth_error l j.
Proof. intros H. rewrite nth_error_upd. apply Nat.eqb_neq in H. rewrite H. reflexivity. Qed.

Lemma length_upd {A : Type} (f : A -> A) (l : list A) : forall i, length (upd i f l) = length l.
Proof. induction l as [|x t IH]; intros [|i]; cbn; auto. Qed.

Lemma existsb_false_nth {A : Type} (f : A -> bool) (l : list A) i x :
  existsb f l = false -> nth_error l i = Some x -> f x = false.
Proof.
  intros H Hn. apply nth_error_In in Hn.
  destruct (f x) eqn:E; [|reflexivity].
  assert (existsb f l = true) by (apply existsb_exists; eauto). congruence.
Qed.

Lemma forallb_nth {A : Type} (f : A -> bool) (l : list A) i x :
  forallb f l = true -> nth_error l i = Some x -> f x = true.
Proof. intros H Hn. apply nth_error_In in Hn. rewrite forallb_forall in H. auto. Qed.

(* ---- the callback's calls, for the repaired code, only touch the scheduling fields -------------- *)
Definition cb_call (st : timer) (c : call) : timer :=
  match c with CStop => do_stop st | CRestart tau => set_sched st tau end.
Definition cb_effect (cs : list call) (st : timer) : timer := fold_left cb_call cs st.

Lemma cb_effect_frame cs : forall st,
  let st' := cb_effect cs st in
  tnow st' = tnow st /\ procs st' = procs st /\ cur st' = cur st /\ err st' = err st /\
  autor st' = autor st /\ cargs st' = cargs st.
Proof.
  induction cs as [|c t IH]; intros st; cbn; [repeat split|].
  destruct (IH (cb_call st c)) as (A & B & C & D & E & G).
  unfold cb_effect in *. rewrite A, B, C, D, E, G. destruct c; cbn; repeat split.
Qed.

Lemma apply_calls_fixed cs : forall st,
  err st = None ->
  fold_left (apply_call fixed (cur st)) cs st = cb_effect cs st.
Proof.
  induction cs as [|c t IH]; intros st He; cbn; [reflexivity|].
  assert (E : apply_call fixed (cur st) st c = cb_call st c).
  { unfold apply_call. rewrite He. destruct c; cbn; [reflexivity|].
    unfold do_restart. cbn. rewrite Nat.eqb_refl. reflexivity. }
  rewrite E.
  assert (C : cur (cb_call st c) = cur st) by (destruct c; reflexivity).
  assert (He' : err (cb_call st c) = None) by (destruct c; cbn; exact He).
  rewrite <- C. rewrite IH by exact He'. reflexivity.
Qed.

(* ---- the invariant ----------------------------------------------------------------------------- *)
(* self.proc carries no pending interruption; while it sleeps and the timer is not stopped its Timeout is due
   exactly at expire_time, which is not in the past; every other live timer process has an interruption
   pending (so it ends before its own Timeout can be processed) *)
Definition Inv (st : timer) : Prop :=
  err st = None /\
  (exists a, cargs st = Some a) /\
  (exists p, nth_error (procs st) (cur st) = Some p /\ intr p = 0%nat /\
     forall d, ph p = PWait d -> tnow st <= d /\ (stopped st = false -> d == expire st)) /\
  (forall i p, i <> cur st -> nth_error (procs st) i = Some p -> alive p = true -> intr p <> 0%nat).

Lemma Inv_init t0 tau au a : Inv (timer0 fixed t0 tau au a).
Proof.
  unfold Inv, timer0; cbn. split; [reflexivity|]. split; [destruct a; cbn; eauto|]. split.
  - exists {| ph := PInit; intr := 0 |}. cbn. split; [reflexivity|split; [reflexivity|intros d H; discriminate]].
  - intros [|i] p Hi Hn; [congruence|]. destruct i; discriminate.
Qed.

Lemma no_urgent_nth st i p :
  any_urgent st = false -> nth_error (procs st) i = Some p -> ph p <> PInit /\ intr p = 0%nat.
Proof.
  intros H Hn. apply (existsb_false_nth _ _ _ _ H) in Hn. unfold urgent_p, is_init in Hn.
  apply orb_false_iff in Hn as [H1 H2]. apply negb_false_iff, Nat.eqb_eq in H2.
  split; [|exact H2]. intros E. rewrite E in H1. discriminate.
Qed.

Lemma loop_phase_wait st d :
  loop_phase st = PWait d -> tnow st < expire st /\ d == expire st.
Proof.
  unfold loop_phase. destruct (Qlt_le_dec (tnow st) (expire st)) as [L|L]; [|discriminate].
  intros E. injection E as <-. split; [exact L|ring].
Qed.

Lemma loop_phase_cases st :
  (tnow st < expire st /\ loop_phase st = PWait (tnow st + (expire st - tnow st))) \/
  (expire st <= tnow st /\ loop_phase st = PDone).
Proof. unfold loop_phase. destruct (Qlt_le_dec (tnow st) (expire st)); [left|right]; auto. Qed.

(* what an admissible action does, in a state satisfying the invariant *)
Definition kill (p : tproc) : tproc := set_ph PDone (sub_intr p).

Lemma act_cases st a st' outs :
  Inv st -> timer_act fixed st a = Some (st', outs) ->
  match a with
  | TStop => outs = [] /\ st' = do_stop st
  | TRestart tau =>
      outs = [] /\ exists p, nth_error (procs st) (cur st) = Some p /\
      ((alive p = true /\
        st' = set_cur (set_procs (set_sched st tau) (upd (cur st) add_intr (procs st) ++ [newp])) (length (procs st)))
       \/ (alive p = false /\ st' = set_sched st tau))
  | TProcInit i =>
      outs = [] /\ exists p, nth_error (procs st) i = Some p /\ ph p = PInit /\
      st' = set_procs st (upd i (set_ph (loop_phase st)) (procs st))
  | TProcTimeout i cs =>
      i = cur st /\ any_urgent st = false /\
      exists p d a0, nth_error (procs st) i = Some p /\ ph p = PWait d /\ d == tnow st /\ cargs st = Some a0 /\
      ((stopped st = true /\ cs = [] /\ outs = [] /\
        st' = set_procs st (upd i (set_ph (loop_phase st)) (procs st)))
       \/ (stopped st = false /\ outs = [OFire a0] /\
           st' = set_procs (rebase (cb_effect cs st))
                           (upd i (set_ph (loop_phase (rebase (cb_effect cs st)))) (procs st))))
  | TProcInterrupt i =>
      outs = [] /\ i <> cur st /\ exists p, nth_error (procs st) i = Some p /\ intr p <> 0%nat /\ ph p <> PInit /\
      ((exists d, ph p = PWait d /\ st' = set_procs st (upd i kill (procs st)))
       \/ (alive p = false /\ st' = set_procs st (upd i sub_intr (procs st))))
  | TProcEnd i =>
      outs = [] /\ exists p, nth_error (procs st) i = Some p /\ ph p = PDone /\
      st' = set_procs st (upd i (set_ph PGone) (procs st))
  | TAdvance t =>
      outs = [] /\ any_urgent st = false /\ tnow st < t /\
      (forall i p d, nth_error (procs st) i = Some p -> ph p = PWait d -> t <= d) /\
      st' = set_now st t
  end.
Proof.
  intros (He & (a0 & Ha) & (pc & Hc & Hi0 & Hw) & Hoth) H.
  unfold timer_act in H. rewrite He in H. destruct a as [|tau|i|i cs|i|i|t].
  - injection H as <- <-. auto.
  - injection H as <- <-. split; [reflexivity|]. exists pc. split; [exact Hc|].
    unfold do_restart. cbn [fx_selfcb fixed is_caller andb]. rewrite Hc. unfold alive_test. cbn [fx_alive fixed].
    destruct (alive pc) eqn:E; cbn [negb]; [left|right]; split; reflexivity.
  - destruct (nth_error (procs st) i) as [p|] eqn:Hn; [|discriminate].
    destruct (ph p) eqn:Hp; try discriminate. injection H as <- <-.
    split; [reflexivity|]. exists p. auto.
  - destruct (nth_error (procs st) i) as [p|] eqn:Hn; [|discriminate].
    destruct (ph p) as [|d| |] eqn:Hp; try discriminate.
    destruct (Qeq_bool d (tnow st) && negb (any_urgent st)) eqn:G; [|discriminate].
    apply andb_true_iff in G as [G1 G2]. apply Qeq_bool_iff in G1. apply negb_true_iff in G2.
    assert (Hic : i = cur st).
    { destruct (Nat.eq_dec i (cur st)) as [|N]; [assumption|]. exfalso.
      destruct (no_urgent_nth _ _ _ G2 Hn) as [_ Z]. apply (Hoth i p N Hn); [unfold alive; rewrite Hp; reflexivity|exact Z]. }
    split; [exact Hic|]. split; [exact G2|]. exists p, d, a0. repeat (split; [first [assumption|reflexivity]|]).
    destruct (stopped st) eqn:Hs.
    + destruct cs; [|discriminate]. injection H as <- <-. left. auto.
    + rewrite Ha in H. subst i. rewrite (apply_calls_fixed cs st He) in H.
      destruct (cb_effect_frame cs st) as (F1 & F2 & F3 & F4 & F5 & F6).
      rewrite F4, He in H. injection H as <- <-. right. split; [reflexivity|]. split; [reflexivity|].
      assert (P : procs (rebase (cb_effect cs st)) = procs st).
      { unfold rebase. destruct (autor (cb_effect cs st)); cbn; exact F2. }
      rewrite P. reflexivity.
  - destruct (nth_error (procs st) i) as [p|] eqn:Hn; [|discriminate].
    destruct (Nat.eqb (intr p) 0) eqn:Z; [discriminate|]. apply Nat.eqb_neq in Z.
    assert (Hic : i <> cur st).
    { intros ->. rewrite Hc in Hn. injection Hn as <-. auto. }
    destruct (ph p) as [|d| |] eqn:Hp; try discriminate; injection H as <- <-;
      (split; [reflexivity|]; split; [exact Hic|]; exists p; split; [reflexivity|]; split; [exact Z|];
       split; [congruence|]).
    + left. exists d. split; [exact Hp|reflexivity].
    + right. split; [unfold alive; rewrite Hp; reflexivity|reflexivity].
    + right. split; [unfold alive; rewrite Hp; reflexivity|reflexivity].
  - destruct (nth_error (procs st) i) as [p|] eqn:Hn; [|discriminate].
    destruct (ph p) eqn:Hp; try discriminate. injection H as <- <-.
    split; [reflexivity|]. exists p. auto.
  - destruct (any_urgent st) eqn:U; [discriminate|].
    destruct (Qlt_le_dec (tnow st) t) as [L|L]; [|discriminate].
    destruct (forallb _ (procs st)) eqn:Fa; [|discriminate]. injection H as <- <-.
    split; [reflexivity|]. split; [reflexivity|]. split; [exact L|]. split; [|reflexivity].
    intros i p d Hn Hp. apply (forallb_nth _ _ _ _ Fa) in Hn. rewrite Hp in Hn. apply Qle_bool_iff in Hn. exact Hn.
Qed.

Lemma rebase_frame st :
  tnow (rebase st) = tnow st /\ procs (rebase st) = procs st /\ cur (rebase st) = cur st /\
  err (rebase st) = err st /\ autor (rebase st) = autor st /\ cargs (rebase st) = cargs st /\
  stopped (rebase st) = stopped st /\ tmo (rebase st) = tmo st.
Proof. unfold rebase. destruct (autor st) eqn:E; cbn; rewrite ?E; repeat split. Qed.

Lemma fired_frame cs st :
  let st2 := rebase (cb_effect cs st) in
  tnow st2 = tnow st /\ procs st2 = procs st /\ cur st2 = cur st /\ err st2 = err st /\
  autor st2 = autor st /\ cargs st2 = cargs st.
Proof.
  cbn. destruct (rebase_frame (cb_effect cs st)) as (A & B & C & D & E & G & _).
  destruct (cb_effect_frame cs st) as (A' & B' & C' & D' & E' & G').
  rewrite A, B, C, D, E, G. repeat split; assumption.
Qed.

Lemma Inv_step st a st' outs :
  Inv st -> timer_act fixed st a = Some (st', outs) -> Inv st'.
Proof.
  intros HI H. pose proof (act_cases _ _ _ _ HI H) as C.
  destruct HI as (He & (a0 & Ha) & (pc & Hc & Hi0 & Hw) & Hoth).
  destruct a as [|tau|i|i cs|i|i|t].
  - destruct C as (_ & ->). unfold Inv; cbn. split; [exact He|]. split; [eauto|]. split.
    + exists pc. split; [exact Hc|]. split; [exact Hi0|]. intros d Hd. destruct (Hw d Hd) as [L _].
      split; [exact L|discriminate].
    + exact Hoth.
  - destruct C as (_ & p & Hp & [(Al & ->)|(Al & ->)]); rewrite Hc in Hp; injection Hp as <-.
    + unfold Inv; cbn. split; [exact He|]. split; [eauto|]. split.
      * exists newp. split.
        { rewrite nth_error_app2 by (rewrite length_upd; lia). rewrite length_upd, Nat.sub_diag. reflexivity. }
        split; [reflexivity|]. intros d Hd; discriminate.
      * intros i p Hi Hn Hal.
        assert (Hlt : (i < length (procs st))%nat).
        { destruct (Nat.lt_ge_cases i (length (procs st))) as [L|G]; [exact L|exfalso].
          assert (Hlen : (length (upd (cur st) add_intr (procs st) ++ [newp]) <= i)%nat).
          { rewrite app_length, length_upd. cbn. lia. }
          apply nth_error_None in Hlen. congruence. }
        rewrite nth_error_app1 in Hn by (rewrite length_upd; exact Hlt).
        rewrite nth_error_upd in Hn. destruct (Nat.eqb (cur st) i) eqn:E.
        -- apply Nat.eqb_eq in E. subst i. rewrite Hc in Hn. injection Hn as <-. cbn. lia.
        -- apply Nat.eqb_neq in E. apply (Hoth i p); auto.
    + unfold Inv; cbn. split; [exact He|]. split; [eauto|]. split.
      * exists pc. split; [exact Hc|]. split; [exact Hi0|]. intros d Hd. unfold alive in Al. rewrite Hd in Al. discriminate.
      * exact Hoth.
  - destruct C as (_ & p & Hp & Hph & ->). unfold Inv; cbn. split; [exact He|]. split; [eauto|]. split.
    + destruct (Nat.eq_dec i (cur st)) as [->|N].
      * rewrite Hc in Hp. injection Hp as <-. exists (set_ph (loop_phase st) pc).
        split; [apply nth_error_upd_same; exact Hc|]. split; [exact Hi0|]. cbn. intros d Hd.
        apply loop_phase_wait in Hd as [L E]. split; [|intros _; exact E]. rewrite E. apply Qlt_le_weak, L.
      * exists pc. split; [rewrite nth_error_upd_other by exact N; exact Hc|]. auto.
    + intros j q Hj Hn Hal. rewrite nth_error_upd in Hn. destruct (Nat.eqb i j) eqn:E.
      * apply Nat.eqb_eq in E. subst j. rewrite Hp in Hn. cbn in Hn. injection Hn as <-. cbn.
        apply (Hoth i p Hj Hp). unfold alive. rewrite Hph. reflexivity.
      * apply (Hoth j q); auto.
  - destruct C as (-> & U & p & d & a1 & Hp & Hph & Hd & Ha1 & [(Hs & -> & -> & ->)|(Hs & -> & ->)]);
      rewrite Hc in Hp; injection Hp as <-.
    + unfold Inv; cbn. split; [exact He|]. split; [eauto|]. split.
      * exists (set_ph (loop_phase st) pc). split; [apply nth_error_upd_same; exact Hc|]. split; [exact Hi0|].
        cbn. intros d' Hd'. apply loop_phase_wait in Hd' as [L E]. split; [|intros _; exact E].
        rewrite E. apply Qlt_le_weak, L.
      * intros j q Hj Hn Hal. rewrite nth_error_upd_other in Hn by congruence. apply (Hoth j q); auto.
    + destruct (fired_frame cs st) as (F1 & F2 & F3 & F4 & F5 & F6). cbn in F1, F2, F3, F4, F5, F6.
      set (st2 := rebase (cb_effect cs st)) in *.
      unfold Inv; cbn. rewrite F3, F4, F6. split; [exact He|]. split; [eauto|]. split.
      * exists (set_ph (loop_phase st2) pc). split; [apply nth_error_upd_same; exact Hc|]. split; [exact Hi0|].
        cbn. intros d' Hd'. apply loop_phase_wait in Hd' as [L E]. split; [|intros _; exact E].
        rewrite E. apply Qlt_le_weak, L.
      * intros j q Hj Hn Hal. rewrite nth_error_upd_other in Hn by congruence. apply (Hoth j q); auto.
  - destruct C as (_ & Hic & p & Hp & Hz & Hni & [(d & Hd & ->)|(Al & ->)]);
      (unfold Inv; cbn; split; [exact He|]; split; [eauto|]; split;
       [exists pc; split; [rewrite nth_error_upd_other by exact Hic; exact Hc|auto]|]).
    + intros j q Hj Hn Hal. rewrite nth_error_upd in Hn. destruct (Nat.eqb i j) eqn:E.
      * apply Nat.eqb_eq in E. subst j. rewrite Hp in Hn. cbn in Hn. injection Hn as <-. discriminate.
      * apply (Hoth j q); auto.
    + intros j q Hj Hn Hal. rewrite nth_error_upd in Hn. destruct (Nat.eqb i j) eqn:E.
      * apply Nat.eqb_eq in E. subst j. rewrite Hp in Hn. cbn in Hn. injection Hn as <-.
        unfold alive in *. cbn in Hal. congruence.
      * apply (Hoth j q); auto.
  - destruct C as (_ & p & Hp & Hph & ->). unfold Inv; cbn. split; [exact He|]. split; [eauto|]. split.
    + destruct (Nat.eq_dec i (cur st)) as [->|N].
      * rewrite Hc in Hp. injection Hp as <-. exists (set_ph PGone pc).
        split; [apply nth_error_upd_same; exact Hc|]. split; [exact Hi0|]. cbn. intros d Hd. discriminate.
      * exists pc. split; [rewrite nth_error_upd_other by exact N; exact Hc|]. auto.
    + intros j q Hj Hn Hal. rewrite nth_error_upd in Hn. destruct (Nat.eqb i j) eqn:E.
      * apply Nat.eqb_eq in E. subst j. rewrite Hp in Hn. cbn in Hn. injection Hn as <-. discriminate.
      * apply (Hoth j q); auto.
  - destruct C as (_ & U & L & Hall & ->). unfold Inv; cbn. split; [exact He|]. split; [eauto|]. split.
    + exists pc. split; [exact Hc|]. split; [exact Hi0|]. intros d Hd. split; [apply (Hall _ _ _ Hc Hd)|apply (Hw d Hd)].
    + exact Hoth.
Qed.

Lemma Inv_run acts : forall st st' tr,
  Inv st -> timer_run fixed st acts = Some (st', tr) -> Inv st'.
Proof.
  induction acts as [|a rest IH]; intros st st' tr HI H; cbn in H.
  - injection H as <- _. exact HI.
  - destruct (timer_act fixed st a) as [[s1 o1]|] eqn:Ha; [|discriminate].
    destruct (timer_run fixed s1 rest) as [[s2 t2]|] eqn:Hr; [|discriminate].
    injection H as <- _. eapply IH; [eapply Inv_step; eauto|eauto].
Qed.

(* ---- never raises; one live uninterrupted process ---------------------------------------------- *)
Theorem timer_never_raises t0 tau au a acts st tr :
  timer_run fixed (timer0 fixed t0 tau au a) acts = Some (st, tr) -> err st = None.
Proof. intros H. apply (Inv_run _ _ _ _ (Inv_init t0 tau au a)) in H. apply H. Qed.

Theorem single_live_process t0 tau au a acts st tr :
  timer_run fixed (timer0 fixed t0 tau au a) acts = Some (st, tr) ->
  (forall i p, nth_error (procs st) i = Some p -> alive p = true -> intr p = 0%nat -> i = cur st) /\
  (exists p, nth_error (procs st) (cur st) = Some p /\ intr p = 0%nat /\
     forall d, ph p = PWait d -> tnow st <= d /\ (stopped st = false -> d == expire st)).
Proof.
  intros H. apply (Inv_run _ _ _ _ (Inv_init t0 tau au a)) in H.
  destruct H as (_ & _ & Hc & Hoth). split; [|exact Hc].
  intros i p Hn Hal Hz. destruct (Nat.eq_dec i (cur st)) as [|N]; [assumption|].
  exfalso. apply (Hoth i p N Hn Hal Hz).
Qed.

(* ---- run: composition ------------------------------------------------------------------------- *)
Lemma run_app fx pre : forall post st st2 tr,
  timer_run fx st (pre ++ post) = Some (st2, tr) ->
  exists st1 tr1 tr2, timer_run fx st pre = Some (st1, tr1) /\ timer_run fx st1 post = Some (st2, tr2) /\
                      tr = tr1 ++ tr2.
Proof.
  induction pre as [|a rest IH]; intros post st st2 tr H; cbn in *.
  - exists st, [], tr. auto.
  - destruct (timer_act fx st a) as [[s1 o1]|]; [|discriminate].
    destruct (timer_run fx s1 (rest ++ post)) as [[s2 t2]|] eqn:Hr; [|discriminate].
    injection H as <- <-. destruct (IH _ _ _ _ Hr) as (st1 & tr1 & tr2 & R1 & R2 & ->).
    rewrite R1. exists st1, ((tnow s1, a, o1) :: tr1), tr2. auto.
Qed.

Lemma fires_app tr1 tr2 : fires (tr1 ++ tr2) = fires tr1 ++ fires tr2.
Proof.
  induction tr1 as [|[[t a] o] rest IH]; cbn; [reflexivity|]. rewrite IH, app_assoc. reflexivity.
Qed.

(* ---- stop is final ---------------------------------------------------------------------------- *)
Lemma cb_effect_stopped_mono cs : forall st, stopped st = true -> stopped (cb_effect cs st) = true.
Proof.
  induction cs as [|c t IH]; intros st H; cbn; [exact H|]. apply IH. destruct c; cbn; auto.
Qed.

Lemma cb_effect_stop cs : forall st, In CStop cs -> stopped (cb_effect cs st) = true.
Proof.
  induction cs as [|c t IH]; intros st H; [destruct H|]. cbn. destruct H as [->|H].
  - apply cb_effect_stopped_mono. reflexivity.
  - apply IH, H.
Qed.

Lemma stopped_step st a st' outs :
  Inv st -> stopped st = true -> timer_act fixed st a = Some (st', outs) -> stopped st' = true /\ outs = [].
Proof.
  intros HI Hs H. pose proof (act_cases _ _ _ _ HI H) as C. destruct a as [|tau|i|i cs|i|i|t].
  - destruct C as (-> & ->). auto.
  - destruct C as (-> & p & _ & [(_ & ->)|(_ & ->)]); cbn; auto.
  - destruct C as (-> & p & _ & _ & ->). cbn; auto.
  - destruct C as (_ & _ & p & d & a0 & _ & _ & _ & _ & [(_ & _ & -> & ->)|(Hs' & _)]); [cbn; auto|congruence].
  - destruct C as (-> & _ & p & _ & _ & _ & [(d & _ & ->)|(_ & ->)]); cbn; auto.
  - destruct C as (-> & p & _ & _ & ->). cbn; auto.
  - destruct C as (-> & _ & _ & _ & ->). cbn; auto.
Qed.

Lemma stopped_run acts : forall st st' tr,
  Inv st -> stopped st = true -> timer_run fixed st acts = Some (st', tr) -> stopped st' = true /\ fires tr = [].
Proof.
  induction acts as [|a rest IH]; intros st st' tr HI Hs H; cbn in H.
  - injection H as <- <-. auto.
  - destruct (timer_act fixed st a) as [[s1 o1]|] eqn:Ha; [|discriminate].
    destruct (timer_run fixed s1 rest) as [[s2 t2]|] eqn:Hr; [|discriminate].
    injection H as <- <-. destruct (stopped_step _ _ _ _ HI Hs Ha) as [Hs1 ->].
    destruct (IH _ _ _ (Inv_step _ _ _ _ HI Ha) Hs1 Hr) as [Hs2 Hf]. cbn. auto.
Qed.

(* the history contains a stop: stop() by a foreign process, or a callback that calls stop() *)
Definition is_stop (a : taction) : Prop :=
  a = TStop \/ exists i cs, a = TProcTimeout i cs /\ In CStop cs.

Lemma stop_step st a st' outs :
  Inv st -> is_stop a -> timer_act fixed st a = Some (st', outs) -> stopped st' = true.
Proof.
  intros HI Hst H. pose proof (act_cases _ _ _ _ HI H) as C.
  destruct Hst as [->|(i & cs & -> & Hin)].
  - destruct C as (_ & ->). reflexivity.
  - destruct C as (_ & _ & p & d & a0 & _ & _ & _ & _ & [(_ & -> & _)|(_ & _ & ->)]); [destruct Hin|].
    cbn. destruct (rebase_frame (cb_effect cs st)) as (_ & _ & _ & _ & _ & _ & S & _). rewrite S.
    apply cb_effect_stop, Hin.
Qed.

Lemma stop_in_run acts : forall st st' tr,
  Inv st -> (exists a, In a acts /\ is_stop a) -> timer_run fixed st acts = Some (st', tr) -> stopped st' = true.
Proof.
  induction acts as [|a rest IH]; intros st st' tr HI (x & Hin & Hx) H; [destruct Hin|]. cbn in H.
  destruct (timer_act fixed st a) as [[s1 o1]|] eqn:Ha; [|discriminate].
  destruct (timer_run fixed s1 rest) as [[s2 t2]|] eqn:Hr; [|discriminate].
  injection H as <- <-. pose proof (Inv_step _ _ _ _ HI Ha) as HI1.
  destruct Hin as [->|Hin].
  - apply (stopped_run rest s1 s2 t2 HI1 (stop_step _ _ _ _ HI Hx Ha) Hr).
  - apply (IH s1 s2 t2 HI1); eauto.
Qed.

Theorem stop_is_final t0 tau au a pre post st tr :
  timer_run fixed (timer0 fixed t0 tau au a) (pre ++ post) = Some (st, tr) ->
  (exists x, In x pre /\ is_stop x) ->
  exists st1 tr1 tr2, timer_run fixed (timer0 fixed t0 tau au a) pre = Some (st1, tr1) /\
                      timer_run fixed st1 post = Some (st, tr2) /\ tr = tr1 ++ tr2 /\
                      stopped st1 = true /\ fires tr2 = [].
Proof.
  intros H Hst. destruct (run_app _ _ _ _ _ _ H) as (st1 & tr1 & tr2 & R1 & R2 & ->).
  exists st1, tr1, tr2. split; [exact R1|]. split; [exact R2|]. split; [reflexivity|].
  pose proof (Inv_init t0 tau au a) as HI0.
  pose proof (stop_in_run _ _ _ _ HI0 Hst R1) as Hs.
  split; [exact Hs|]. apply (stopped_run _ _ _ _ (Inv_run _ _ _ _ HI0 R1) Hs R2).
Qed.

(* ---- no double fire: firing instants are strictly increasing; arguments are exact ---------------- *)
(* B is an instant not later than now such that a sleeping, not stopped self.proc expires strictly after B *)
Definition Guard (st : timer) (B : Q) : Prop :=
  B <= tnow st /\
  forall p d, nth_error (procs st) (cur st) = Some p -> ph p = PWait d -> stopped st = false -> B < expire st.

Lemma cargs_step st a st' outs :
  Inv st -> timer_act fixed st a = Some (st', outs) -> cargs st' = cargs st.
Proof.
  intros HI H. pose proof (act_cases _ _ _ _ HI H) as C. destruct a as [|tau|i|i cs|i|i|t].
  - destruct C as (_ & ->). reflexivity.
  - destruct C as (_ & p & _ & [(_ & ->)|(_ & ->)]); reflexivity.
  - destruct C as (_ & p & _ & _ & ->). reflexivity.
  - destruct C as (_ & _ & p & d & a0 & _ & _ & _ & _ & [(_ & _ & _ & ->)|(_ & _ & ->)]); [reflexivity|].
    cbn. apply (fired_frame cs st).
  - destruct C as (_ & _ & p & _ & _ & _ & [(d & _ & ->)|(_ & ->)]); reflexivity.
  - destruct C as (_ & p & _ & _ & ->). reflexivity.
  - destruct C as (_ & _ & _ & _ & ->). reflexivity.
Qed.

Lemma guard_step st a st' outs B :
  Inv st -> Guard st B -> timer_act fixed st a = Some (st', outs) ->
  (outs = [] /\ Guard st' B) \/
  (exists a0, outs = [OFire a0] /\ cargs st = Some a0 /\ B < tnow st' /\ tnow st' == expire st /\
              Guard st' (tnow st')).
Proof.
  intros HI (GB & GW) H. pose proof (act_cases _ _ _ _ HI H) as C.
  destruct HI as (He & (a1 & Ha) & (pc & Hc & Hi0 & Hw) & Hoth).
  destruct a as [|tau|i|i cs|i|i|t].
  - destruct C as (-> & ->). left. split; [reflexivity|]. split; [exact GB|]. cbn. intros; discriminate.
  - destruct C as (-> & p & Hp & [(Al & ->)|(Al & ->)]); rewrite Hc in Hp; injection Hp as <-;
      left; (split; [reflexivity|]); (split; [exact GB|]); cbn.
    + intros p d Hn Hd. rewrite nth_error_app2 in Hn by (rewrite length_upd; lia).
      rewrite length_upd, Nat.sub_diag in Hn. cbn in Hn. injection Hn as <-. discriminate.
    + intros p d Hn Hd. rewrite Hc in Hn. injection Hn as <-. unfold alive in Al. rewrite Hd in Al. discriminate.
  - destruct C as (-> & p & Hp & Hph & ->). left. split; [reflexivity|]. split; [exact GB|]. cbn.
    intros q d Hn Hd Hs. destruct (Nat.eq_dec i (cur st)) as [->|N].
    + rewrite (nth_error_upd_same _ _ _ _ Hp) in Hn. injection Hn as <-. cbn in Hd.
      apply loop_phase_wait in Hd as [L _]. eapply Qle_lt_trans; eauto.
    + rewrite nth_error_upd_other in Hn by exact N. eapply GW; eauto.
  - destruct C as (-> & U & p & d & a0 & Hp & Hph & Hd & Ha0 & [(Hs & -> & -> & ->)|(Hs & -> & ->)]).
    + left. split; [reflexivity|]. split; [exact GB|]. cbn. intros; congruence.
    + right. exists a0. split; [reflexivity|]. split; [exact Ha0|].
      destruct (fired_frame cs st) as (F1 & F2 & F3 & F4 & F5 & F6). cbn in F1, F2, F3, F4, F5, F6.
      set (st2 := rebase (cb_effect cs st)) in *. cbn [tnow set_procs]. rewrite F1.
      rewrite Hc in Hp. injection Hp as <-.
      destruct (Hw d Hph) as [_ E]. specialize (E Hs).
      assert (NE : tnow st == expire st) by (rewrite <- Hd; exact E).
      split; [rewrite NE; eapply GW; eauto|]. split; [exact NE|].
      split; [cbn; rewrite F1; apply Qle_refl|]. cbn. rewrite F3.
      intros q d' Hn Hd' _. rewrite (nth_error_upd_same _ _ _ _ Hc) in Hn. injection Hn as <-. cbn in Hd'.
      apply loop_phase_wait in Hd' as [L _]. rewrite <- F1. exact L.
  - destruct C as (-> & Hic & p & Hp & _ & _ & [(d & _ & ->)|(_ & ->)]); left; (split; [reflexivity|]);
      (split; [exact GB|]); cbn; intros q d' Hn; rewrite nth_error_upd_other in Hn by exact Hic; eapply GW; eauto.
  - destruct C as (-> & p & Hp & Hph & ->). left. split; [reflexivity|]. split; [exact GB|]. cbn.
    intros q d Hn Hd. destruct (Nat.eq_dec i (cur st)) as [->|N].
    + rewrite (nth_error_upd_same _ _ _ _ Hp) in Hn. injection Hn as <-. discriminate.
    + rewrite nth_error_upd_other in Hn by exact N. eapply GW; eauto.
  - destruct C as (-> & _ & L & _ & ->). left. split; [reflexivity|]. split.
    + cbn. apply Qlt_le_weak. eapply Qle_lt_trans; eauto.
    + cbn. exact GW.
Qed.

Definition before (x y : Q * list Z) : Prop := fst x < fst y.

Lemma fires_sorted_run acts : forall st st' tr B a0,
  Inv st -> Guard st B -> cargs st = Some a0 -> timer_run fixed st acts = Some (st', tr) ->
  Forall (fun f => B < fst f /\ snd f = a0) (fires tr) /\ StronglySorted before (fires tr).
Proof.
  induction acts as [|a rest IH]; intros st st' tr B a0 HI HG Ha H; cbn in H.
  - injection H as <- <-. cbn. split; constructor.
  - destruct (timer_act fixed st a) as [[s1 o1]|] eqn:Hact; [|discriminate].
    destruct (timer_run fixed s1 rest) as [[s2 t2]|] eqn:Hr; [|discriminate].
    injection H as <- <-. pose proof (Inv_step _ _ _ _ HI Hact) as HI1.
    assert (Ha1 : cargs s1 = Some a0) by (rewrite (cargs_step _ _ _ _ HI Hact); exact Ha).
    destruct (guard_step _ _ _ _ _ HI HG Hact) as [(-> & G1)|(a2 & -> & Ha2 & Lt & _ & G1)].
    + cbn. apply (IH _ _ _ _ _ HI1 G1 Ha1 Hr).
    + destruct (IH _ _ _ _ _ HI1 G1 Ha1 Hr) as [F S]. cbn. split.
      * constructor; [cbn; split; [exact Lt|congruence]|].
        eapply Forall_impl; [|exact F]. cbn. intros f [L E]. split; [eapply Qlt_trans; eauto|exact E].
      * constructor; [exact S|]. eapply Forall_impl; [|exact F]. intros f [L _]. exact L.
Qed.

Theorem no_double_fire t0 tau au a acts st tr l :
  norm_args fixed a = Some l ->
  timer_run fixed (timer0 fixed t0 tau au a) acts = Some (st, tr) ->
  StronglySorted before (fires tr) /\ Forall (fun f => t0 < fst f /\ snd f = l) (fires tr).
Proof.
  intros Hl H.
  assert (G : Guard (timer0 fixed t0 tau au a) t0).
  { split; [cbn; apply Qle_refl|]. cbn. intros p d Hn Hd. injection Hn as <-. discriminate. }
  destruct (fires_sorted_run acts _ _ _ t0 l (Inv_init t0 tau au a) G Hl H) as [F S].
  split; assumption.
Qed.

(* ---- armed timers: quiet runs fire exactly at the expiry, then every timeout ---------------------- *)
(* not stopped, self.proc alive: about to start with the expiry still ahead, or sleeping (then, by the
   invariant, until exactly expire_time) *)
Definition Armed (st : timer) (E : Q) : Prop :=
  Inv st /\ stopped st = false /\ expire st == E /\ 0 < tmo st /\
  exists p, nth_error (procs st) (cur st) = Some p /\ ((ph p = PInit /\ tnow st < E) \/ exists d, ph p = PWait d).

(* self.proc has ended: nothing can re-arm the timer (restart() only re-arms a live process) *)
Definition Spent (st : timer) : Prop := Inv st /\ cur_alive st = false.

(* no stop()/restart() from anywhere *)
Definition quiet (a : taction) : bool :=
  match a with
  | TStop | TRestart _ => false
  | TProcTimeout _ (_ :: _) => false
  | _ => true
  end.

Lemma armed_now st E : Armed st E -> tnow st <= E.
Proof.
  intros ((_ & _ & (pc & Hc & _ & Hw) & _) & Hs & He & _ & p & Hp & [(_ & L)|(d & Hd)]).
  - apply Qlt_le_weak, L.
  - rewrite Hc in Hp. injection Hp as <-. destruct (Hw d Hd) as [L E']. rewrite <- He, <- (E' Hs). exact L.
Qed.

Lemma armed_eq st E E' : E == E' -> Armed st E -> Armed st E'.
Proof.
  intros HE (HI & Hs & He & Ht & p & Hp & Hc). split; [exact HI|]. split; [exact Hs|].
  split; [rewrite He; exact HE|]. split; [exact Ht|]. exists p. split; [exact Hp|].
  destruct Hc as [(Hi & L)|Hd]; [left; split; [exact Hi|rewrite <- HE; exact L]|right; exact Hd].
Qed.

Lemma const_step st a st' outs :
  Inv st -> timer_act fixed st a = Some (st', outs) -> cargs st' = cargs st /\ autor st' = autor st.
Proof.
  intros HI H. pose proof (act_cases _ _ _ _ HI H) as C. destruct a as [|tau|i|i cs|i|i|t].
  - destruct C as (_ & ->). split; reflexivity.
  - destruct C as (_ & p & _ & [(_ & ->)|(_ & ->)]); split; reflexivity.
  - destruct C as (_ & p & _ & _ & ->). split; reflexivity.
  - destruct C as (_ & _ & p & d & a0 & _ & _ & _ & _ & [(_ & _ & _ & ->)|(_ & _ & ->)]); [split; reflexivity|].
    cbn. destruct (fired_frame cs st) as (_ & _ & _ & _ & A & B). split; assumption.
  - destruct C as (_ & _ & p & _ & _ & _ & [(d & _ & ->)|(_ & ->)]); split; reflexivity.
  - destruct C as (_ & p & _ & _ & ->). split; reflexivity.
  - destruct C as (_ & _ & _ & _ & ->). split; reflexivity.
Qed.

Lemma const_run acts : forall st st' tr,
  Inv st -> timer_run fixed st acts = Some (st', tr) -> cargs st' = cargs st /\ autor st' = autor st.
Proof.
  induction acts as [|a rest IH]; intros st st' tr HI H; cbn in H.
  - injection H as <- _. split; reflexivity.
  - destruct (timer_act fixed st a) as [[s1 o1]|] eqn:Ha; [|discriminate].
    destruct (timer_run fixed s1 rest) as [[s2 t2]|] eqn:Hr; [|discriminate].
    injection H as <- _. destruct (const_step _ _ _ _ HI Ha) as [A B].
    destruct (IH _ _ _ (Inv_step _ _ _ _ HI Ha) Hr) as [A' B']. split; congruence.
Qed.

Lemma armed_step st a st' outs E :
  Armed st E -> quiet a = true -> timer_act fixed st a = Some (st', outs) ->
  tmo st' = tmo st /\
  ((outs = [] /\ Armed st' E) \/
   (exists a0, outs = [OFire a0] /\ cargs st = Some a0 /\ tnow st' == E /\
      ((autor st = false /\ Spent st') \/ (autor st = true /\ Armed st' (E + tmo st))))).
Proof.
  intros HA Hq H. destruct HA as (HI & Hs & HE & Ht & pc & Hc & Hph).
  pose proof (Inv_step _ _ _ _ HI H) as HI'. pose proof (act_cases _ _ _ _ HI H) as C.
  assert (Hw : forall d, ph pc = PWait d -> tnow st <= d /\ d == expire st).
  { destruct HI as (_ & _ & (p & Hp & _ & W) & _). rewrite Hc in Hp. injection Hp as <-.
    intros d Hd. destruct (W d Hd) as [L E']. auto. }
  destruct a as [|tau|i|i cs|i|i|t]; try discriminate.
  - (* Initialize *)
    destruct C as (-> & p & Hp & Hpi & ->). split; [reflexivity|]. left. split; [reflexivity|].
    split; [exact HI'|]. cbn. split; [exact Hs|]. split; [exact HE|]. split; [exact Ht|].
    destruct (Nat.eq_dec i (cur st)) as [->|N].
    + rewrite Hc in Hp. injection Hp as <-. exists (set_ph (loop_phase st) pc).
      split; [apply nth_error_upd_same; exact Hc|]. right. cbn.
      destruct Hph as [(_ & L)|(d & Hd)]; [|congruence].
      destruct (loop_phase_cases st) as [(_ & ->)|(G & _)]; [eauto|].
      exfalso. rewrite HE in G. apply (Qlt_irrefl E). eapply Qle_lt_trans; eauto.
    + exists pc. split; [rewrite nth_error_upd_other by exact N; exact Hc|exact Hph].
  - (* Timeout of self.proc: the callback runs *)
    destruct cs; [|discriminate].
    destruct C as (-> & U & p & d & a0 & Hp & Hpw & Hd & Ha0 & [(Hs' & _)|(_ & -> & ->)]); [congruence|].
    rewrite Hc in Hp. injection Hp as <-. destruct (Hw d Hpw) as [_ Ed].
    assert (NE : tnow st == E) by (rewrite <- Hd, Ed; exact HE).
    unfold cb_effect in *. cbn [fold_left] in *. unfold rebase in *. destruct (autor st) eqn:Hau.
    + split; [reflexivity|]. right. exists a0. split; [reflexivity|]. split; [exact Ha0|]. split; [exact NE|].
      right. split; [reflexivity|]. split; [exact HI'|]. cbn. split; [exact Hs|].
      split; [rewrite NE; reflexivity|]. split; [exact Ht|].
      exists (set_ph (loop_phase (set_expire st (tnow st + tmo st))) pc).
      split; [apply nth_error_upd_same; exact Hc|]. right. cbn.
      destruct (loop_phase_cases (set_expire st (tnow st + tmo st))) as [(_ & ->)|(G & _)]; [eauto|].
      exfalso. cbn in G. lra.
    + split; [reflexivity|]. right. exists a0. split; [reflexivity|]. split; [exact Ha0|]. split; [exact NE|].
      left. split; [reflexivity|]. split; [exact HI'|]. unfold cur_alive. cbn.
      rewrite (nth_error_upd_same _ _ _ _ Hc). unfold alive. cbn.
      destruct (loop_phase_cases st) as [(L & _)|(_ & ->)]; [|reflexivity].
      exfalso. rewrite HE, NE in L. apply (Qlt_irrefl E L).
  - (* Interruption of an old process *)
    destruct C as (-> & Hic & p & Hp & _ & _ & [(d & _ & ->)|(_ & ->)]); (split; [reflexivity|]); left;
      (split; [reflexivity|]); (split; [exact HI'|]); cbn; (split; [exact Hs|]); (split; [exact HE|]);
      (split; [exact Ht|]); exists pc; (split; [rewrite nth_error_upd_other by exact Hic; exact Hc|exact Hph]).
  - (* Process event of an ended process *)
    destruct C as (-> & p & Hp & Hpd & ->). split; [reflexivity|]. left. split; [reflexivity|].
    split; [exact HI'|]. cbn. split; [exact Hs|]. split; [exact HE|]. split; [exact Ht|].
    exists pc. split; [|exact Hph]. rewrite nth_error_upd_other; [exact Hc|].
    intros ->. rewrite Hc in Hp. injection Hp as <-. destruct Hph as [(Hi & _)|(d & Hd)]; congruence.
  - (* Advance *)
    destruct C as (-> & U & L & Hall & ->). split; [reflexivity|]. left. split; [reflexivity|].
    split; [exact HI'|]. cbn. split; [exact Hs|]. split; [exact HE|]. split; [exact Ht|].
    exists pc. split; [exact Hc|]. destruct Hph as [(Hi & _)|Hd]; [|right; exact Hd].
    exfalso. destruct (no_urgent_nth _ _ _ U Hc) as [N _]. auto.
Qed.

Lemma spent_step st a st' outs :
  Spent st -> timer_act fixed st a = Some (st', outs) -> outs = [] /\ Spent st'.
Proof.
  intros (HI & Hd) H. pose proof (Inv_step _ _ _ _ HI H) as HI'. pose proof (act_cases _ _ _ _ HI H) as C.
  unfold Spent, cur_alive in *. destruct (nth_error (procs st) (cur st)) as [pc|] eqn:Hc.
  2:{ destruct HI as (_ & _ & (p & Hp & _) & _). congruence. }
  destruct a as [|tau|i|i cs|i|i|t].
  - destruct C as (-> & ->). cbn. rewrite Hc. auto.
  - destruct C as (-> & p & Hp & [(Al & _)|(_ & ->)]); [congruence|]. cbn. rewrite Hc. auto.
  - destruct C as (-> & p & Hp & Hpi & ->). cbn. split; [reflexivity|]. split; [exact HI'|].
    rewrite nth_error_upd_other; [rewrite Hc; exact Hd|].
    intros ->. rewrite Hc in Hp. injection Hp as <-. unfold alive in Hd. rewrite Hpi in Hd. discriminate.
  - destruct C as (-> & _ & p & d & a0 & Hp & Hpw & _). exfalso.
    rewrite Hc in Hp. injection Hp as <-. unfold alive in Hd. rewrite Hpw in Hd. discriminate.
  - destruct C as (-> & Hic & p & Hp & _ & _ & [(d & _ & ->)|(_ & ->)]); cbn; (split; [reflexivity|]);
      (split; [exact HI'|]); rewrite nth_error_upd_other by exact Hic; rewrite Hc; exact Hd.
  - destruct C as (-> & p & Hp & Hpd & ->). cbn. split; [reflexivity|]. split; [exact HI'|].
    destruct (Nat.eq_dec i (cur st)) as [->|N].
    + rewrite (nth_error_upd_same _ _ _ _ Hp). reflexivity.
    + rewrite nth_error_upd_other by exact N. rewrite Hc. exact Hd.
  - destruct C as (-> & _ & _ & _ & ->). cbn. rewrite Hc. auto.
Qed.

Lemma spent_run acts : forall st st' tr,
  Spent st -> timer_run fixed st acts = Some (st', tr) -> fires tr = [] /\ Spent st'.
Proof.
  induction acts as [|a rest IH]; intros st st' tr HS H; cbn in H.
  - injection H as <- <-. auto.
  - destruct (timer_act fixed st a) as [[s1 o1]|] eqn:Ha; [|discriminate].
    destruct (timer_run fixed s1 rest) as [[s2 t2]|] eqn:Hr; [|discriminate].
    injection H as <- <-. destruct (spent_step _ _ _ _ HS Ha) as [-> HS1].
    destruct (IH _ _ _ HS1 Hr) as [F HS2]. cbn. auto.
Qed.

(* a one-shot timer: nothing before the expiry, the clock cannot pass the expiry without the callback, the
   callback runs once, with the arguments, at the expiry; afterwards the timer is spent *)
Lemma oneshot_run acts : forall st st' tr E a0,
  Armed st E -> autor st = false -> cargs st = Some a0 -> forallb quiet acts = true ->
  timer_run fixed st acts = Some (st', tr) ->
  (fires tr = [] /\ Armed st' E) \/ (exists t, fires tr = [(t, a0)] /\ t == E /\ Spent st').
Proof.
  induction acts as [|a rest IH]; intros st st' tr E a0 HA Hau Hca Hq H; cbn in H.
  - injection H as <- <-. left. auto.
  - destruct (timer_act fixed st a) as [[s1 o1]|] eqn:Ha; [|discriminate].
    destruct (timer_run fixed s1 rest) as [[s2 t2]|] eqn:Hr; [|discriminate].
    injection H as <- <-. cbn in Hq. apply andb_true_iff in Hq as [Hqa Hqr].
    destruct (const_step _ _ _ _ (proj1 HA) Ha) as [C1 C2].
    destruct (armed_step _ _ _ _ _ HA Hqa Ha) as (_ & [(-> & HA1)|(a1 & -> & Ha1 & NE & [(_ & HS)|(Hau' & _)])]).
    + cbn. apply (IH _ _ _ _ _ HA1); congruence.
    + right. destruct (spent_run _ _ _ _ HS Hr) as [F HS2]. exists (tnow s1). cbn. rewrite F.
      split; [congruence|]. split; [exact NE|exact HS2].
    + congruence.
Qed.

(* firings at E, E + tau, E + 2 tau, ... *)
Fixpoint periodic (fs : list (Q * list Z)) (E tau : Q) (a0 : list Z) : Prop :=
  match fs with
  | [] => True
  | f :: rest => fst f == E /\ snd f = a0 /\ periodic rest (E + tau) tau a0
  end.

Definition nQ (n : nat) : Q := inject_Z (Z.of_nat n).

Lemma nQ_S n : nQ (S n) == nQ n + 1.
Proof. unfold nQ. rewrite Nat2Z.inj_succ. unfold Z.succ. rewrite inject_Z_plus. reflexivity. Qed.

Lemma auto_run acts : forall st st' tr E a0,
  Armed st E -> autor st = true -> cargs st = Some a0 -> forallb quiet acts = true ->
  timer_run fixed st acts = Some (st', tr) ->
  periodic (fires tr) E (tmo st) a0 /\ Armed st' (E + nQ (length (fires tr)) * tmo st) /\ tmo st' = tmo st.
Proof.
  induction acts as [|a rest IH]; intros st st' tr E a0 HA Hau Hca Hq H; cbn in H.
  - injection H as <- <-. cbn. split; [exact I|]. split; [|reflexivity].
    eapply armed_eq; [|exact HA]. unfold nQ. cbn. ring.
  - destruct (timer_act fixed st a) as [[s1 o1]|] eqn:Ha; [|discriminate].
    destruct (timer_run fixed s1 rest) as [[s2 t2]|] eqn:Hr; [|discriminate].
    injection H as <- <-. cbn in Hq. apply andb_true_iff in Hq as [Hqa Hqr].
    destruct (const_step _ _ _ _ (proj1 HA) Ha) as [C1 C2].
    destruct (armed_step _ _ _ _ _ HA Hqa Ha) as (Tm & [(-> & HA1)|(a1 & -> & Ha1 & NE & [(Hau' & _)|(_ & HA1)])]).
    + cbn. rewrite <- Tm. apply (IH _ _ _ _ _ HA1); congruence.
    + congruence.
    + assert (Hc1 : cargs s1 = Some a0) by congruence. assert (Hu1 : autor s1 = true) by congruence.
      destruct (IH _ _ _ _ _ HA1 Hu1 Hc1 Hqr Hr) as (P & HA2 & Tm2). rewrite Tm in P, HA2, Tm2.
      cbn. split; [split; [exact NE|split; [congruence|exact P]]|]. split; [|exact Tm2].
      eapply armed_eq; [|exact HA2]. rewrite nQ_S. ring.
Qed.

Lemma periodic_nth fs : forall E tau a0 k f,
  periodic fs E tau a0 -> nth_error fs k = Some f -> fst f == E + nQ k * tau /\ snd f = a0.
Proof.
  induction fs as [|x rest IH]; intros E tau a0 k f P Hk; [destruct k; discriminate|].
  destruct P as (P1 & P2 & P3). destruct k as [|k]; cbn in Hk.
  - injection Hk as <-. split; [rewrite P1; unfold nQ; cbn; ring|exact P2].
  - destruct (IH _ _ _ _ _ P3 Hk) as [A B]. split; [rewrite A, nQ_S; ring|exact B].
Qed.

(* the firings of a quiet run that starts with the expiry E pending and period tau:
   the k-th callback (k = 0, 1, ...) runs at E + k tau with the arguments; a one-shot timer fires at most once;
   the clock does not pass the next expiry without the callback *)
Definition fires_from (au : bool) (E tau : Q) (l : list Z) (fs : list (Q * list Z)) (tend : Q) : Prop :=
  (forall k f, nth_error fs k = Some f -> fst f == E + nQ k * tau /\ snd f = l) /\
  (if au then tend <= E + nQ (length fs) * tau else (length fs <= 1)%nat /\ (fs = [] -> tend <= E)).

Lemma armed_quiet_run acts st st' tr E l :
  Armed st E -> cargs st = Some l -> forallb quiet acts = true ->
  timer_run fixed st acts = Some (st', tr) ->
  fires_from (autor st) E (tmo st) l (fires tr) (tnow st').
Proof.
  intros HA Hl Hq H. destruct (autor st) eqn:Hau.
  - destruct (auto_run _ _ _ _ _ _ HA Hau Hl Hq H) as (P & HA' & _). split.
    + intros k f Hk. apply (periodic_nth _ _ _ _ _ _ P Hk).
    + apply (armed_now _ _ HA').
  - destruct (oneshot_run _ _ _ _ _ _ HA Hau Hl Hq H) as [(-> & HA')|(t & -> & Ht & _)].
    + split; [intros [|k] f Hk; discriminate|]. cbn. split; [lia|]. intros _. apply (armed_now _ _ HA').
    + split.
      * intros [|k] f Hk; cbn in Hk; [|destruct k; discriminate]. injection Hk as <-. cbn.
        split; [rewrite Ht; unfold nQ; cbn; ring|reflexivity].
      * cbn. split; [lia|discriminate].
Qed.

(* ---- how a timer gets armed: creation, restart() by a foreign process, restart() from the callback -- *)
Lemma armed_init t0 tau au a : 0 < tau -> Armed (timer0 fixed t0 tau au a) (t0 + tau).
Proof.
  intros Ht. split; [apply Inv_init|]. cbn. split; [reflexivity|]. split; [reflexivity|]. split; [exact Ht|].
  exists {| ph := PInit; intr := 0 |}. split; [reflexivity|]. left. split; [reflexivity|]. lra.
Qed.

Lemma armed_after_restart st tau st1 outs :
  Inv st -> stopped st = false -> cur_alive st = true -> 0 < tau ->
  timer_act fixed st (TRestart tau) = Some (st1, outs) ->
  outs = [] /\ Armed st1 (tnow st + tau) /\ tmo st1 = tau /\ tnow st1 = tnow st.
Proof.
  intros HI Hs Hal Ht H. pose proof (Inv_step _ _ _ _ HI H) as HI'. pose proof (act_cases _ _ _ _ HI H) as C.
  destruct C as (-> & p & Hp & [(Al & ->)|(Al & ->)]).
  - split; [reflexivity|]. cbn. split; [|split; reflexivity].
    split; [exact HI'|]. cbn. split; [exact Hs|]. split; [reflexivity|]. split; [exact Ht|].
    exists newp. split.
    + rewrite nth_error_app2 by (rewrite length_upd; lia). rewrite length_upd, Nat.sub_diag. reflexivity.
    + left. split; [reflexivity|]. lra.
  - unfold cur_alive in Hal. rewrite Hp in Hal. congruence.
Qed.

Lemma cb_effect_snoc cs c st : cb_effect (cs ++ [c]) st = cb_call (cb_effect cs st) c.
Proof. unfold cb_effect. rewrite fold_left_app. reflexivity. Qed.

Lemma cb_effect_nostop cs : forall st, ~ In CStop cs -> stopped (cb_effect cs st) = stopped st.
Proof.
  induction cs as [|c t IH]; intros st H; cbn; [reflexivity|].
  unfold cb_effect in IH. rewrite IH by (intros X; apply H; right; exact X).
  destruct c; [exfalso; apply H; left; reflexivity|reflexivity].
Qed.

Lemma armed_after_cb_restart st i cs0 tau st1 outs :
  Inv st -> stopped st = false -> ~ In CStop cs0 -> 0 < tau ->
  timer_act fixed st (TProcTimeout i (cs0 ++ [CRestart tau])) = Some (st1, outs) ->
  exists a0, outs = [OFire a0] /\ cargs st = Some a0 /\ Armed st1 (tnow st + tau) /\ tmo st1 = tau /\
             tnow st1 = tnow st.
Proof.
  intros HI Hs Hns Ht H. pose proof (Inv_step _ _ _ _ HI H) as HI'. pose proof (act_cases _ _ _ _ HI H) as C.
  destruct C as (-> & U & p & d & a0 & Hp & Hpw & Hd & Ha0 & [(Hs' & _)|(_ & -> & ->)]); [congruence|].
  exists a0. split; [reflexivity|]. split; [exact Ha0|].
  destruct (fired_frame (cs0 ++ [CRestart tau]) st) as (F1 & F2 & F3 & F4 & F5 & F6). cbn in F1, F2, F3, F4, F5, F6.
  set (st2 := rebase (cb_effect (cs0 ++ [CRestart tau]) st)) in *.
  assert (S2 : stopped st2 = false /\ tmo st2 = tau /\ expire st2 == tnow st + tau).
  { unfold st2. rewrite cb_effect_snoc. cbn [cb_call].
    destruct (cb_effect_frame cs0 st) as (G1 & _).
    pose proof (cb_effect_nostop cs0 st Hns) as G2.
    unfold rebase. destruct (autor (set_sched (cb_effect cs0 st) tau)); cbn; rewrite G1, G2, Hs;
      split; try reflexivity; split; reflexivity. }
  destruct S2 as (S2a & S2b & S2c).
  cbn [tmo tnow set_procs]. split; [|split; [exact S2b|exact F1]].
  split; [exact HI'|]. cbn. split; [exact S2a|]. split; [exact S2c|]. split; [rewrite S2b; exact Ht|].
  rewrite F3. exists (set_ph (loop_phase st2) p). split; [apply nth_error_upd_same; exact Hp|]. right. cbn.
  destruct (loop_phase_cases st2) as [(_ & ->)|(G & _)]; [eauto|].
  exfalso. rewrite F1, S2c in G. lra.
Qed.

Lemma fires_from_lower au E tau l fs tend :
  0 < tau -> fires_from au E tau l fs tend -> Forall (fun f => E <= fst f) fs.
Proof.
  intros Ht [Hn _]. apply Forall_forall. intros f Hin. apply In_nth_error in Hin as (k & Hk).
  destruct (Hn k f Hk) as [A _]. rewrite A.
  assert (0 <= nQ k) by (unfold nQ; change 0 with (inject_Z 0); rewrite <- Zle_Qle; lia).
  nra.
Qed.

(* ---- the theorems of C19 ----------------------------------------------------------------------- *)
Theorem fires_at_expiry t0 tau a l acts st tr :
  0 < tau -> norm_args fixed a = Some l -> forallb quiet acts = true ->
  timer_run fixed (timer0 fixed t0 tau false a) acts = Some (st, tr) ->
  (fires tr = [] /\ tnow st <= t0 + tau) \/ (exists t, fires tr = [(t, l)] /\ t == t0 + tau).
Proof.
  intros Ht Hl Hq H.
  destruct (oneshot_run _ _ _ _ _ _ (armed_init t0 tau false a Ht) eq_refl Hl Hq H) as [(F & HA)|(t & F & E & _)].
  - left. split; [exact F|apply (armed_now _ _ HA)].
  - right. eauto.
Qed.

(* once the callback of a one-shot timer ran (without restarting it), nothing re-arms the timer *)
Theorem expired_one_shot_never_refires t0 tau a l pre post st1 tr1 st tr :
  0 < tau -> norm_args fixed a = Some l -> forallb quiet pre = true ->
  timer_run fixed (timer0 fixed t0 tau false a) pre = Some (st1, tr1) -> fires tr1 <> [] ->
  timer_run fixed st1 post = Some (st, tr) -> fires tr = [].
Proof.
  intros Ht Hl Hq H1 Hne H2.
  destruct (oneshot_run _ _ _ _ _ _ (armed_init t0 tau false a Ht) eq_refl Hl Hq H1) as [(F & _)|(t & _ & _ & HS)].
  - congruence.
  - apply (spent_run _ _ _ _ HS H2).
Qed.

Theorem auto_restart_period t0 tau a l acts st tr :
  0 < tau -> norm_args fixed a = Some l -> forallb quiet acts = true ->
  timer_run fixed (timer0 fixed t0 tau true a) acts = Some (st, tr) ->
  (forall k f, nth_error (fires tr) k = Some f ->
     fst f == t0 + tau + inject_Z (Z.of_nat k) * tau /\ snd f = l) /\
  tnow st <= t0 + tau + inject_Z (Z.of_nat (length (fires tr))) * tau.
Proof.
  intros Ht Hl Hq H.
  apply (armed_quiet_run _ _ _ _ _ _ (armed_init t0 tau true a Ht) Hl Hq H).
Qed.

Theorem restart_rebases t0 tau au a l pre st trp tau' acts st' tr :
  norm_args fixed a = Some l ->
  timer_run fixed (timer0 fixed t0 tau au a) pre = Some (st, trp) ->
  stopped st = false -> cur_alive st = true -> 0 < tau' -> forallb quiet acts = true ->
  timer_run fixed st (TRestart tau' :: acts) = Some (st', tr) ->
  fires_from au (tnow st + tau') tau' l (fires tr) (tnow st') /\
  Forall (fun f => tnow st + tau' <= fst f) (fires tr).
Proof.
  intros Hl Hp Hs Hal Ht Hq H. pose proof (Inv_run _ _ _ _ (Inv_init t0 tau au a) Hp) as HI.
  destruct (const_run _ _ _ _ (Inv_init t0 tau au a) Hp) as [Hc Hu]. cbn in Hc, Hu.
  cbn in H. destruct (timer_act fixed st (TRestart tau')) as [[s1 o1]|] eqn:Ha; [|discriminate].
  destruct (timer_run fixed s1 acts) as [[s2 t2]|] eqn:Hr; [|discriminate]. injection H as <- <-.
  destruct (armed_after_restart _ _ _ _ HI Hs Hal Ht Ha) as (-> & HA & Tm & Tn).
  destruct (const_step _ _ _ _ HI Ha) as [C1 C2].
  assert (Hl1 : cargs s1 = Some l) by congruence.
  pose proof (armed_quiet_run _ _ _ _ _ _ HA Hl1 Hq Hr) as FF. rewrite C2, Hu, Tm in FF. cbn.
  split; [exact FF|]. eapply fires_from_lower; eauto.
Qed.

Theorem restart_rebases_from_callback t0 tau au a l pre st trp i cs0 tau' acts st' tr :
  norm_args fixed a = Some l ->
  timer_run fixed (timer0 fixed t0 tau au a) pre = Some (st, trp) ->
  stopped st = false -> ~ In CStop cs0 -> 0 < tau' -> forallb quiet acts = true ->
  timer_run fixed st (TProcTimeout i (cs0 ++ [CRestart tau']) :: acts) = Some (st', tr) ->
  exists rest, fires tr = (tnow st, l) :: rest /\
               fires_from au (tnow st + tau') tau' l rest (tnow st') /\
               Forall (fun f => tnow st + tau' <= fst f) rest.
Proof.
  intros Hl Hp Hs Hns Ht Hq H. pose proof (Inv_run _ _ _ _ (Inv_init t0 tau au a) Hp) as HI.
  destruct (const_run _ _ _ _ (Inv_init t0 tau au a) Hp) as [Hc Hu]. cbn in Hc, Hu.
  cbn [timer_run] in H.
  destruct (timer_act fixed st (TProcTimeout i (cs0 ++ [CRestart tau']))) as [[s1 o1]|] eqn:Ha; [|discriminate].
  destruct (timer_run fixed s1 acts) as [[s2 t2]|] eqn:Hr; [|discriminate]. injection H as <- <-.
  destruct (armed_after_cb_restart _ _ _ _ _ _ HI Hs Hns Ht Ha) as (a0 & -> & Ha0 & HA & Tm & Tn).
  destruct (const_step _ _ _ _ HI Ha) as [C1 C2].
  assert (Hl1 : cargs s1 = Some l) by congruence.
  pose proof (armed_quiet_run _ _ _ _ _ _ HA Hl1 Hq Hr) as FF. rewrite C2, Hu, Tm in FF.
  exists (fires t2). cbn. rewrite Tn. split; [congruence|]. split; [exact FF|].
  eapply fires_from_lower; eauto.
Qed.

(* for EVERY history: the callback runs only inside the Timeout step of self.proc, only when the timer is not
   stopped, and only at the instant expire_time holds at that moment *)
Theorem fires_only_at_expire_time t0 tau au a l pre st trp x st' outs :
  norm_args fixed a = Some l ->
  timer_run fixed (timer0 fixed t0 tau au a) pre = Some (st, trp) ->
  timer_act fixed st x = Some (st', outs) -> outs <> [] ->
  outs = [OFire l] /\ stopped st = false /\ tnow st == expire st /\ tnow st' = tnow st /\
  exists cs, x = TProcTimeout (cur st) cs.
Proof.
  intros Hl Hp Ha Hne. pose proof (Inv_run _ _ _ _ (Inv_init t0 tau au a) Hp) as HI.
  destruct (const_run _ _ _ _ (Inv_init t0 tau au a) Hp) as [Hc _]. cbn in Hc.
  pose proof (act_cases _ _ _ _ HI Ha) as C.
  destruct x as [|tau'|i|i cs|i|i|t]; try (destruct C as (-> & _); congruence).
  destruct C as (-> & _ & p & d & a0 & Hn & Hpw & Hd & Ha0 & [(_ & _ & -> & _)|(Hs & -> & ->)]); [congruence|].
  destruct HI as (_ & _ & (pc & Hcur & _ & Hw) & _). rewrite Hcur in Hn. injection Hn as <-.
  destruct (Hw d Hpw) as [_ E]. split; [congruence|]. split; [exact Hs|].
  split; [rewrite <- Hd; exact (E Hs)|]. split; [|eauto].
  cbn. apply (fired_frame cs st).
Qed.

(* ---- non-vacuity: concrete admissible histories ------------------------------------------------- *)
(* restart(6) by a foreign process at 3 on a one-shot timer(5) with the scalar argument 7 *)
Example ex_restart_before_expiry :
  option_map (fun r => fires (snd r))
    (timer_run fixed (timer0 fixed 0 5 false (AScalar 7))
       [TProcInit 0; TAdvance 3; TRestart 6; TProcInterrupt 0; TProcInit 1; TProcEnd 0; TAdvance 5; TAdvance 9;
        TProcTimeout 1 []; TProcEnd 1; TAdvance 20])
  = Some [(9, [7%Z])].
Proof. vm_compute. reflexivity. Qed.

(* restart(3) at the expiry instant, before the kernel processed the Timeout: the old process has an
   interruption pending, so its Timeout step is not admissible (K1); the callback runs at 8 only *)
Example ex_restart_at_expiry_before_timeout :
  option_map (fun r => fires (snd r))
    (timer_run fixed (timer0 fixed 0 5 false (AList [1%Z]))
       [TProcInit 0; TAdvance 5; TRestart 3; TProcInterrupt 0; TProcInit 1; TAdvance 8; TProcTimeout 1 []])
  = Some [(8, [1%Z])] /\
  timer_run fixed (timer0 fixed 0 5 false (AList [1%Z])) [TProcInit 0; TAdvance 5; TRestart 3; TProcTimeout 0 []] = None.
Proof. vm_compute. split; reflexivity. Qed.

(* restart(3) at the expiry instant after the callback of a one-shot timer ran: no error, no second callback *)
Example ex_restart_at_expiry_after_callback :
  option_map (fun r => (fires (snd r), err (fst r), cur_alive (fst r)))
    (timer_run fixed (timer0 fixed 0 5 false (AList [1%Z]))
       [TProcInit 0; TAdvance 5; TProcTimeout 0 []; TRestart 3; TProcEnd 0; TAdvance 8; TAdvance 30])
  = Some ([(5, [1%Z])], None, false).
Proof. vm_compute. reflexivity. Qed.

(* auto-restart, the callback restarts (period becomes 2), later stops *)
Example ex_auto_restart_callback_calls :
  option_map (fun r => fires (snd r))
    (timer_run fixed (timer0 fixed 0 5 true ANone)
       [TProcInit 0; TAdvance 5; TProcTimeout 0 [CRestart 2]; TAdvance 7; TProcTimeout 0 []; TAdvance 9;
        TProcTimeout 0 [CStop]; TAdvance 11; TProcTimeout 0 []; TProcEnd 0; TAdvance 40])
  = Some [(5, []); (7, []); (9, [])].
Proof. vm_compute. reflexivity. Qed.

(* two restarts in the instant of creation, Initialize of every process still pending; then stop() makes the
   interruptions hit processes that have already ended (dropped silently) *)
Example ex_two_restarts_at_creation :
  option_map (fun r => fires (snd r))
    (timer_run fixed (timer0 fixed 0 5 false ANone)
       [TRestart 3; TRestart 4; TProcInit 0; TProcInterrupt 0; TProcInit 1; TProcInterrupt 1; TProcInit 2;
        TAdvance 4; TProcTimeout 2 []])
  = Some [(4, [])] /\
  option_map (fun r => (live_count (fst r), err (fst r)))
    (timer_run fixed (timer0 fixed 0 5 false ANone)
       [TRestart 5; TStop; TProcInit 0; TProcInterrupt 0; TProcInit 1; TAdvance 100])
  = Some (0%nat, None).
Proof. vm_compute. split; reflexivity. Qed.

(* the hypotheses of restart_rebases hold in a reachable state *)
Example ex_pending_state :
  exists st trp, timer_run fixed (timer0 fixed 0 5 true (AScalar 7)) [TProcInit 0; TAdvance 5; TProcTimeout 0 []; TAdvance 6]
                 = Some (st, trp) /\ stopped st = false /\ cur_alive st = true /\ fires trp = [(5, [7%Z])].
Proof. eexists. eexists. split; [vm_compute; reflexivity|]. vm_compute. auto. Qed.

(* ---- the code before the three fix: commits reaches an error state ------------------------------- *)
Lemma raises_before_fix_scalar_args :
  exists acts st tr,
    timer_run {| fx_wrap := false; fx_selfcb := true; fx_alive := true |}
              (timer0 {| fx_wrap := false; fx_selfcb := true; fx_alive := true |} 0 5 false (AScalar 7)) acts = Some (st, tr)
    /\ err st = Some ENotIterable.
Proof. exists [TProcInit 0; TAdvance 5; TProcTimeout 0 []]. eexists. eexists. split; vm_compute; reflexivity. Qed.

Lemma raises_before_fix_restart_from_callback :
  exists acts st tr,
    timer_run {| fx_wrap := true; fx_selfcb := false; fx_alive := true |}
              (timer0 {| fx_wrap := true; fx_selfcb := false; fx_alive := true |} 0 5 false (AScalar 7)) acts = Some (st, tr)
    /\ err st = Some EInterruptSelf.
Proof. exists [TProcInit 0; TAdvance 5; TProcTimeout 0 [CRestart 2]]. eexists. eexists. split; vm_compute; reflexivity. Qed.

Lemma raises_before_fix_restart_after_expiry :
  exists acts st tr,
    timer_run {| fx_wrap := true; fx_selfcb := true; fx_alive := false |}
              (timer0 {| fx_wrap := true; fx_selfcb := true; fx_alive := false |} 0 5 false (AScalar 7)) acts = Some (st, tr)
    /\ err st = Some EInterruptDead.
Proof. exists [TProcInit 0; TAdvance 5; TProcTimeout 0 []; TRestart 3]. eexists. eexists. split; vm_compute; reflexivity. Qed.
