(* Bridging lemmas for the GENERATOR body TokenBucket.run (second tie, generator bodies: vlib/translate_gen.py).
   Gen/Extracted_bucket_run.v is regenerated from the tree under test on every run: TokenBucket.run cut at its yields into
     gen_TokenBucket_run_from_0   entry                                -> first `yield self.store.get()`
     gen_TokenBucket_run_from_1   resumed with a packet after the get  -> refill, then the token wait
                                  `yield env.timeout((size - current_bucket) * 8.0 / rate)` | debit, then as from_2
     gen_TokenBucket_run_from_2   resumed after the token wait         -> current_bucket = 0, update_time = now, then the
                                  peak spacing `yield env.timeout(size * 8.0 / peak)` (iff peak is truthy) | forward, loop
     gen_TokenBucket_run_from_3   resumed after the peak spacing       -> out.put(packet), packets_sent += 1, loop
   each returning the code's fields (current_bucket, update_time, packets_sent), the effects in program order and the next
   request with its program point.  Here requests / effects get their meaning in the hand-written automaton
   (Elem/Bucket.v) and the micro-steps TInit / TGet / TTimer are proved to be EXACTLY the generated functions, for all
   states and configurations.  The automaton stores levels and deadlines reduced (Qred); the code's expressions are
   compared up to ==, which Qred turns into equality. *)
From Coq Require Import ZArith QArith Qminmax Qreduction List Bool Lqa.
From ONL Require Import Elem.Packet Elem.StoreQ Elem.Bucket Gen.Extracted_bucket_run.
Import ListNotations.

(* the fields of the code, read off the abstract state *)
Definition tb_run_fields (s : tb) : tb_run_st :=
  {| tb_current_bucket := level s; tb_update_time := utime s; tb_packets_sent := nsent s |}.

(* where the process is resumed: after the get (point 1), the token wait (point 2), the peak spacing (point 3) *)
Inductive tb_at := AtGet | AtTok | AtPeak.

(* self.out.put(packet) forwards THE packet the process holds *)
Definition tb_run_fwd (p : pkt) (fx : list tb_run_fx) : list tout :=
  map (fun e => match e with FxOutPut _ => OForward p end) fx.

(* The automaton's state and outputs after the code ran from one yield to the next: the fields as the code left them
   (the level stored reduced), every out.put an OForward of the held packet, and the next request given its meaning:
     `yield self.store.get()` at point 1     idle, the get is issued
     `yield env.timeout(d)` at point 2       waiting for the missing tokens of the packet until now + d (only straight
                                             after the get)
     `yield env.timeout(d)` at point 3       the peak spacing of the packet until now + d; the kernel refuses d < 0
   The ghost outputs mark the instants the property speaks about: OHead when the process resumes with a new packet,
   ODebit in the step in which the token test is passed or the token wait ends. *)
Definition tb_run_step (s : tb) (p : pkt) (at_ : tb_at) (g : tb_run_st * list tb_run_fx * tb_run_next)
  : option (tb * list tout) :=
  match g with
  | (f, fx, n) =>
      let head := match at_ with AtGet => [OHead p] | _ => [] end in
      let debit := match at_ with AtPeak => [] | _ => [ODebit p] end in
      let mk (ph : tphase) (q : sq pkt) :=
        {| tnow := tnow s; tq := q; tstarted := tstarted s; level := Qred (tb_current_bucket f);
           utime := tb_update_time f; phase := ph; nrecv := nrecv s; nsent := tb_packets_sent f |} in
      match n with
      | NxYield (RqTimeout d) PP2 =>
          match at_, fx with
          | AtGet, [] => Some (mk (PTok p (Qred (tnow s + d))) (tq s), head)
          | _, _ => None
          end
      | NxYield (RqTimeout d) PP3 =>
          match fx with
          | [] => if Qlt_le_dec d 0 then None else Some (mk (PPeak p (Qred (tnow s + d))) (tq s), head ++ debit)
          | _ => None
          end
      | NxYield RqStoreGet PP1 =>
          match sq_get fifo_pop (tq s) with
          | Some q => Some (mk PIdle q, head ++ debit ++ tb_run_fwd p fx)
          | None => None
          end
      | _ => None
      end
  end.

(* the generated functions on the abstract state: self.bucket_size / rate / peak from the configuration, env.now,
   packet.size, self.out set (assumption of C11) *)
Definition tb_gen (k : nat) (c : tbcfg) (s : tb) (size : Z) (out_set dbg : bool) :=
  match k with
  | 0%nat => gen_TokenBucket_run_from_0 (tb_run_fields s) (bsize c) (rate c) (peak c) (tnow s) size out_set dbg
  | 1%nat => gen_TokenBucket_run_from_1 (tb_run_fields s) (bsize c) (rate c) (peak c) (tnow s) size out_set dbg
  | 2%nat => gen_TokenBucket_run_from_2 (tb_run_fields s) (bsize c) (rate c) (peak c) (tnow s) size out_set dbg
  | _ => gen_TokenBucket_run_from_3 (tb_run_fields s) (bsize c) (rate c) (peak c) (tnow s) size out_set dbg
  end.

Definition with_tq (s : tb) (q : sq pkt) : tb :=
  {| tnow := tnow s; tq := q; tstarted := tstarted s; level := level s; utime := utime s; phase := phase s;
     nrecv := nrecv s; nsent := nsent s |}.
Definition with_phase (s : tb) (ph : tphase) : tb :=
  {| tnow := tnow s; tq := tq s; tstarted := tstarted s; level := level s; utime := utime s; phase := ph;
     nrecv := nrecv s; nsent := nsent s |}.

(* ---- tactics ----------------------------------------------------------------------------------------------- *)
Ltac cbnq := cbn -[Qred Qplus Qminus Qmult Qdiv Qopp Qinv Qmin Qle_bool Qeq_bool Qlt_le_dec inject_Z Z.add].
Ltac qb :=
  repeat match goal with
         | H : Qle_bool _ _ = true |- _ => apply Qle_bool_iff in H
         | H : Qle_bool ?a ?b = false |- _ =>
             assert (~ a <= b) by (let K := fresh in intro K; apply Qle_bool_iff in K; congruence); clear H
         | H : Qeq_bool _ _ = true |- _ => apply Qeq_bool_iff in H
         | H : Qeq_bool ?a ?b = false |- _ =>
             assert (~ a == b) by (let K := fresh in intro K; apply Qeq_bool_iff in K; congruence); clear H
         end.

Lemma Qmin_comp (a a' b b' : Q) : a == a' -> b == b' -> Qmin a b == Qmin a' b'.
Proof. intros E1 E2. rewrite E1, E2. reflexivity. Qed.

(* a == b for the expressions the code builds: no side conditions (division is multiplication by the inverse) *)
Ltac qeq :=
  unfold refill, fill, tokwait, spacing, sz in *; rewrite ?Qred_correct;
  first [ reflexivity
        | unfold Qdiv; ring
        | apply Qmin_comp; [first [reflexivity | ring] | first [reflexivity | unfold Qdiv; ring]]
        | rewrite Q.min_comm; apply Qmin_comp; [first [reflexivity | ring] | first [reflexivity | unfold Qdiv; ring]]
        | apply Qplus_comp; [reflexivity|]; unfold Qdiv; ring ].

(* a == b given the two forms of "the refilled level is cb1" *)
Ltac qsolve E0 E1 :=
  first [ exact E0 | symmetry; exact E0 | exact E1 | symmetry; exact E1
        | unfold tokwait, spacing, sz; rewrite ?E1;
          first [ reflexivity | unfold Qdiv; ring | apply Qplus_comp; [reflexivity|]; unfold Qdiv; ring ] ].

(* two states / outputs equal up to == under Qred *)
Ltac req :=
  repeat match goal with
         | |- Qred _ = Qred _ => apply Qred_complete
         | |- @eq Q _ _ => fail 1
         | |- _ = _ => progress f_equal
         end.

(* ---- TInit = from_0 ---------------------------------------------------------------------------------------- *)
(* the entry step: no packet is held; the only request with a meaning is the first `yield self.store.get()` *)
Definition tb_run_entry (s : tb) (g : tb_run_st * list tb_run_fx * tb_run_next) : option (tb * list tout) :=
  match g with
  | (f, [], NxYield RqStoreGet PP1) =>
      match sq_get fifo_pop (tq s) with
      | Some q => Some ({| tnow := tnow s; tq := q; tstarted := true; level := Qred (tb_current_bucket f);
                           utime := tb_update_time f; phase := phase s; nrecv := nrecv s; nsent := tb_packets_sent f |}, [])
      | None => None
      end
  | _ => None
  end.

Lemma bridge_tb_run_init : forall (c : tbcfg) (s : tb) (size : Z) (out_set dbg : bool),
  Qred (level s) = level s ->
  tb_act c s TInit = (if tstarted s then None else tb_run_entry s (tb_gen 0 c s size out_set dbg)).
Proof.
  intros c s size out_set dbg Hred. destruct s as [nw q st lv ut ph nr ns]. cbn in Hred. cbnq.
  destruct st; [reflexivity|]. rewrite Hred. reflexivity.
Qed.

(* ---- TGet = from_1 ----------------------------------------------------------------------------------------- *)
Lemma refilled (lvl cb1 : Q) (size : Z) (A : Type) (x y : A) :
  lvl == cb1 ->
  (if negb (Qle_bool (inject_Z size) cb1) then x else y) = (if Qlt_le_dec lvl (inject_Z size) then x else y).
Proof.
  intros E. destruct (Qlt_le_dec lvl (inject_Z size)) as [H|H]; rewrite E in H;
    destruct (Qle_bool (inject_Z size) cb1) eqn:E2; qb; try reflexivity; exfalso; lra.
Qed.

Lemma bridge_tb_run_get : forall (c : tbcfg) (s : tb) (dbg : bool),
  tb_act c s TGet =
    match phase s, sq_take (tq s) with
    | PIdle, Some ((_, p), q) =>
        if negb (tstarted s) then None
        else tb_run_step (with_tq s q) p AtGet (tb_gen 1 c (with_tq s q) (psize p) true dbg)
    | _, _ => None
    end.
Proof.
  intros c s dbg. destruct s as [nw q0 st lv ut ph nr ns]. cbn [tb_act phase tq tstarted].
  destruct ph; try reflexivity. destruct (sq_take q0) as [[[a p] q]|]; [|reflexivity].
  destruct st; cbn [negb]; [|reflexivity].
  unfold tb_gen, gen_TokenBucket_run_from_1, tb_run_fields, with_tq. cbnq.
  match goal with |- context [Qle_bool (inject_Z (psize p)) ?x] => set (cb1 := x) end.
  assert (E0 : refill (bsize c) (rate c) lv ut nw == cb1) by (subst cb1; qeq).
  assert (E1 : Qred (refill (bsize c) (rate c) lv ut nw) == cb1) by (rewrite Qred_correct; exact E0).
  clearbody cb1. rewrite (refilled (Qred (refill (bsize c) (rate c) lv ut nw)) cb1 (psize p) _ _ _ E1). fold (sz p).
  destruct (Qlt_le_dec (Qred (refill (bsize c) (rate c) lv ut nw)) (sz p)) as [Hw|Hw].
  - (* the token wait *)
    unfold tb_run_step. cbnq. req; qsolve E0 E1.
  - (* debit, then the peak spacing or the forward *)
    unfold tb_after_debit, peak_on, tb_forward, tb_run_step. cbnq.
    destruct (peak c) as [k|]; [destruct (Qeq_bool k 0) eqn:Ek; cbn [negb]|].
    + destruct (sq_get fifo_pop q); cbnq; [|reflexivity]. req; qsolve E0 E1.
    + unfold spacing. destruct (Qlt_le_dec (sz p * 8 / k) 0) as [Hn|Hn];
        destruct (Qlt_le_dec (inject_Z (psize p) * (8 # 1) / k) 0) as [Hn'|Hn']; try (exfalso; unfold sz in *; lra);
        try reflexivity.
      cbnq. req; qsolve E0 E1.
    + destruct (sq_get fifo_pop q); cbnq; [|reflexivity]. req; qsolve E0 E1.
Qed.

(* ---- TTimer = from_2 (the token wait ends) / from_3 (the peak spacing ends) ---------------------------------- *)
Lemma bridge_tb_run_timer : forall (c : tbcfg) (s : tb) (dbg : bool),
  Qred (level s) = level s ->
  tb_act c s TTimer =
    match phase s with
    | PTok p dl => if Qeq_bool dl (tnow s)
                   then tb_run_step s p AtTok (tb_gen 2 c s (psize p) true dbg) else None
    | PPeak p dl => if Qeq_bool dl (tnow s)
                    then tb_run_step s p AtPeak (tb_gen 3 c s (psize p) true dbg) else None
    | PIdle => None
    end.
Proof.
  intros c s dbg Hred. destruct s as [nw q st lv ut ph nr ns]. cbn in Hred. cbn [tb_act phase tnow].
  destruct ph as [|p dl|p dl]; [reflexivity| |]; (destruct (Qeq_bool dl nw); [|reflexivity]).
  - unfold tb_gen, gen_TokenBucket_run_from_2, tb_run_fields, tb_after_debit, peak_on, tb_forward, tb_run_step. cbnq.
    destruct (peak c) as [k|]; [destruct (Qeq_bool k 0) eqn:Ek; cbn [negb]|].
    + destruct (sq_get fifo_pop q); reflexivity.
    + unfold spacing. destruct (Qlt_le_dec (sz p * 8 / k) 0) as [Hn|Hn];
        destruct (Qlt_le_dec (inject_Z (psize p) * (8 # 1) / k) 0) as [Hn'|Hn']; try (exfalso; unfold sz in *; lra);
        reflexivity.
    + destruct (sq_get fifo_pop q); reflexivity.
  - unfold tb_gen, gen_TokenBucket_run_from_3, tb_run_fields, tb_forward, tb_run_step. cbnq.
    destruct (sq_get fifo_pop q); [|reflexivity]. rewrite Hred. reflexivity.
Qed.

(* ---- the generated functions, explicitly ------------------------------------------------------------------------ *)
(* after the get: the refilled level is min(B, level + rate * (now - update_time) / 8); the wait is requested iff
   size > that level and lasts exactly (size - level) * 8 / rate; otherwise the level is debited by size; update_time = now
   either way; out.put happens BEFORE packets_sent += 1 *)
Lemma tb_run_get_explicit : forall (c : tbcfg) (s : tb) (p : pkt) (dbg : bool),
  let lvl := refill (bsize c) (rate c) (level s) (utime s) (tnow s) in
  match tb_gen 1 c s (psize p) true dbg with
  | (f, fx, n) =>
      tb_update_time f = tnow s /\
      if Qlt_le_dec lvl (sz p)
      then tb_current_bucket f == lvl /\ fx = [] /\ tb_packets_sent f = nsent s /\
           exists d, n = NxYield (RqTimeout d) PP2 /\ d == tokwait (rate c) (sz p) lvl
      else tb_current_bucket f == lvl - sz p /\
           match peak_on c with
           | Some k => fx = [] /\ tb_packets_sent f = nsent s /\
                       exists d, n = NxYield (RqTimeout d) PP3 /\ d == spacing k (sz p)
           | None => fx = [FxOutPut (nsent s)] /\ tb_packets_sent f = (nsent s + 1)%Z /\ n = NxYield RqStoreGet PP1
           end
  end.
Proof.
  intros c s p dbg lvl. subst lvl. destruct s as [nw q st lv ut ph nr ns].
  unfold tb_gen, gen_TokenBucket_run_from_1, tb_run_fields. cbnq.
  match goal with |- context [Qle_bool (inject_Z (psize p)) ?x] => set (cb1 := x) end.
  assert (E1 : refill (bsize c) (rate c) lv ut nw == cb1) by (subst cb1; qeq).
  clearbody cb1. destruct (Qlt_le_dec (refill (bsize c) (rate c) lv ut nw) (sz p)) as [Hw|Hw];
    destruct (Qle_bool (inject_Z (psize p)) cb1) eqn:E; qb; unfold sz in *; try (exfalso; lra); cbnq.
  - split; [reflexivity|]. split; [symmetry; exact E1|]. split; [reflexivity|]. split; [reflexivity|].
    eexists; split; [reflexivity|]. unfold tokwait. rewrite E1. unfold Qdiv; ring.
  - unfold peak_on. destruct (peak c) as [k|]; [destruct (Qeq_bool k 0) eqn:Ek; cbn [negb]|]; cbnq;
      (split; [reflexivity|]); (split; [rewrite E1; reflexivity|]); repeat split; try reflexivity.
    eexists; split; [reflexivity|]. unfold spacing. reflexivity.
Qed.
