(* Proofs about Elem/SP.v: the repaired SP scheduler is strictly prioritised in EVERY admissible execution, for
   every priority table; the loop of the pinned commit is not. *)
From Coq Require Import ZArith QArith List Bool Lia Lqa Sorted.
From ONL Require Import Elem.Packet Elem.StoreQ Elem.StoreQProofs Elem.SchedBase Elem.SchedBaseProofs Elem.SP.
Import ListNotations.

(* ---- the sort ---- *)
Lemma ins_desc_in x l y : In y (ins_desc x l) <-> y = x \/ In y l.
Proof.
  induction l as [|z t IH]; cbn; [intuition|].
  destruct (snd z <=? snd x)%Z; cbn; rewrite ?IH; intuition.
Qed.

Lemma sort_desc_in l y : In y (sort_desc l) <-> In y l.
Proof.
  induction l as [|x t IH]; cbn; [tauto|]. rewrite ins_desc_in, IH. intuition.
Qed.

Definition ge_prio (x y : Z * Z) : Prop := (snd y <= snd x)%Z.

Lemma ins_desc_sorted x l : StronglySorted ge_prio l -> StronglySorted ge_prio (ins_desc x l).
Proof.
  induction l as [|z t IH]; cbn; intros S.
  - constructor; constructor.
  - inversion S as [|? ? St Hall]; subst. destruct (Z.leb_spec (snd z) (snd x)).
    + constructor; [exact S|]. constructor; [exact H|].
      eapply Forall_impl; [|exact Hall]. intros a Ha. unfold ge_prio in *. lia.
    + constructor; [apply IH; exact St|].
      apply Forall_forall. intros y Hy. apply ins_desc_in in Hy as [->|Hy].
      * unfold ge_prio. lia.
      * rewrite Forall_forall in Hall. apply Hall. exact Hy.
Qed.

Lemma sort_desc_sorted l : StronglySorted ge_prio (sort_desc l).
Proof. induction l as [|x t IH]; cbn; [constructor|apply ins_desc_sorted; exact IH]. Qed.

Lemma sorted_app_later (l1 : list (Z * Z)) x l2 y :
  StronglySorted ge_prio (l1 ++ x :: l2) -> In y l2 -> ge_prio x y.
Proof.
  induction l1 as [|z t IH]; cbn; intros S Hy.
  - inversion S as [|? ? _ Hall]; subst. rewrite Forall_forall in Hall. apply Hall. exact Hy.
  - inversion S; subst. apply IH; assumption.
Qed.

Lemma nodup_key (l : list (Z * Z)) k a b : NoDup (map fst l) -> In (k, a) l -> In (k, b) l -> a = b.
Proof.
  induction l as [|[k' v] t IH]; cbn; intros ND Ha Hb; [destruct Ha|].
  inversion ND as [|? ? Nin ND']; subst.
  destruct Ha as [Ea|Ha], Hb as [Eb|Hb].
  - congruence.
  - injection Ea as -> ->. exfalso. apply Nin. apply in_map_iff. exists (k, b). auto.
  - injection Eb as -> ->. exfalso. apply Nin. apply in_map_iff. exists (k, a). auto.
  - eauto.
Qed.

Lemma map_split_mid {A B} (g : A -> B) (l : list A) l1 y l2 :
  map g l = l1 ++ y :: l2 -> exists L1 x L2, l = L1 ++ x :: L2 /\ map g L1 = l1 /\ g x = y /\ map g L2 = l2.
Proof.
  revert l1. induction l as [|a t IH]; intros l1 H; cbn in H.
  - destruct l1; discriminate.
  - destruct l1 as [|b l1]; cbn in H.
    + injection H as <- <-. exists [], a, t. auto.
    + injection H as <- H. destruct (IH _ H) as (L1 & x & L2 & -> & <- & <- & <-).
      exists (a :: L1), x, L2. auto.
Qed.

(* ---- the configuration ---- *)
Lemma sp_flows fixed r cm fl tbl f : In f (classes (sp_cfg fixed r cm fl tbl)) <-> In f (map fst tbl).
Proof.
  unfold classes, sp_cfg; cbn. rewrite map_map. cbn. rewrite !in_map_iff. split.
  - intros (x & <- & Hx). exists x. split; [reflexivity|]. apply sort_desc_in. exact Hx.
  - intros (x & <- & Hx). exists x. split; [reflexivity|]. apply sort_desc_in. exact Hx.
Qed.

Lemma sp_wf fixed r cm fl tbl : 0 < r -> wf (sp_cfg fixed r cm fl tbl).
Proof. intros R. split; [exact R|]. cbn. discriminate. Qed.

Lemma sp_cfg_ok fixed r cm fl tbl : 0 < r -> (forall f p, In (f, p) tbl -> (0 < p)%Z) -> cfg_ok (sp_cfg fixed r cm fl tbl).
Proof.
  intros R Pos. split; [apply sp_wf; exact R|]. intros f n Hin. unfold sp_cfg in Hin; cbn in Hin.
  apply in_map_iff in Hin as ([f' p] & E & Hx). rewrite sort_desc_in in Hx. unfold sp_slot in E; cbn in E.
  injection E as <- <-. specialize (Pos _ _ Hx). apply Z.ltb_lt in Pos. rewrite Pos. lia.
Qed.

(* ---- the repaired loop always scans from the top ---- *)
Definition top_cursor (c : mq_cfg) (s : mq) : Prop :=
  match mpc s with PGet _ rem => rem = [] | PChild rem => rem = [] | _ => True end.

Lemma resume_brk c s rem s' o : brk c = true -> resume c s rem = Some (s', o) -> top_cursor c s'.
Proof.
  intros B. unfold resume, end_pass, commit, after, top_cursor. rewrite B.
  destruct (scan (nonempty c s) rem) as [vs0 [[f rem']|]].
  - destruct (sq_get fifo_pop (mstores s f)); [|discriminate]. intros H; injection H as <- <-. reflexivity.
  - destruct (mtotal s =? 0)%Z.
    + destruct (sq_get fifo_pop (mtok s)); [|discriminate]. intros H; injection H as <- <-. exact I.
    + destruct (scan (nonempty c s) (pass c)) as [vs1 [[f rem']|]].
      * destruct (sq_get fifo_pop (mstores s f)); [|discriminate]. intros H; injection H as <- <-. reflexivity.
      * intros H; injection H as <- <-. exact I.
Qed.

Lemma brk_top c s : brk c = true -> reachable c s -> top_cursor c s.
Proof.
  intros B. revert s. apply reachable_ind'; [exact I|].
  intros s a s' o Rs IH A. destruct a as [p| |[f|]|[f|]| | | |t|incl]; cbn in A.
  - destruct (memZ (cls c (flow p)) (classes c) && (0 <=? psize p)%Z); [|discriminate]. injection A as <- <-. exact IH.
  - destruct (mpc s); try discriminate. eapply resume_brk; eauto.
  - destruct (sq_cb fifo_pop (mstores s f)); [|discriminate]. injection A as <- <-. exact IH.
  - destruct (sq_cb fifo_pop (mtok s)); [|discriminate]. injection A as <- <-. exact IH.
  - unfold top_cursor in IH. destruct (mpc s) as [|g rem|rem| |]; try discriminate. destruct (mchild s); try discriminate.
    destruct (f =? g)%Z; [|discriminate]. destruct (sq_take (mstores s f)) as [[[a p] q]|]; [|discriminate].
    injection A as <- <-. exact IH.
  - destruct (mpc s); try discriminate. destruct (sq_take (mtok s)) as [[x q]|]; [|discriminate]. eapply resume_brk; eauto.
  - destruct (mchild s); try discriminate. injection A as <- <-. exact IH.
  - destruct (mchild s); try discriminate. destruct (Qeq_bool dl (mnow s)); [|discriminate]. injection A as <- <-. exact IH.
  - destruct (mchild s); try discriminate. destruct (mpc s); try discriminate. eapply resume_brk; eauto.
  - destruct (urgent c s); [discriminate|]. destruct (Qlt_le_dec (mnow s) t); [|discriminate].
    destruct (mchild s); try (injection A as <- <-; exact IH). destruct (Qle_bool t dl); [|discriminate]. injection A as <- <-; exact IH.
  - injection A as <- <-. exact IH.
Qed.

(* a resume that starts at the top of the pass or at its end serves the class found by a scan of the whole pass *)
Lemma resume_from_top c s cur s' o f :
  (cur = [] \/ cur = pass c) -> resume c s cur = Some (s', o) ->
  (In (OVisit f true) o \/ exists rem, mpc s' = PGet f rem) ->
  exists vs rem', scan (nonempty c s) (pass c) = (vs, Some (f, rem')) /\ commit s f (after c rem') = Some s'.
Proof.
  intros Hc H Hv. unfold resume in H.
  assert (Top : forall vs1 s1, end_pass c s = Some (s1, vs1) ->
                (In (OVisit f true) vs1 \/ exists rem, mpc s1 = PGet f rem) ->
                exists vs rem', scan (nonempty c s) (pass c) = (vs, Some (f, rem')) /\ commit s f (after c rem') = Some s1).
  { intros vs1 s1 E Hv1. unfold end_pass in E. destruct (mtotal s =? 0)%Z.
    - destruct (sq_get fifo_pop (mtok s)); [|discriminate]. injection E as <- <-.
      destruct Hv1 as [[]|(rem & Hr)]. discriminate.
    - destruct (scan (nonempty c s) (pass c)) as [vs2 [[f2 rem2]|]] eqn:Sc.
      + destruct (commit s f2 (after c rem2)) as [s2|] eqn:Cm; [|discriminate]. injection E as <- <-.
        assert (f2 = f).
        { destruct Hv1 as [Hin|(rem & Hr)].
          - destruct (scan_visit_true _ _ _ _ _ Sc Hin) as (r' & Er). congruence.
          - unfold commit in Cm. destruct (sq_get fifo_pop (mstores s f2)); [|discriminate]. injection Cm as <-. cbn in Hr. congruence. }
        subst f2. eauto.
      + injection E as <- <-. destruct Hv1 as [Hin|(rem & Hr)]; [|discriminate].
        destruct (scan_visit_true _ _ _ _ _ Sc Hin) as (r' & Er). discriminate. }
  destruct Hc as [->| ->].
  - cbn in H. destruct (end_pass c s) as [[s1 vs1]|] eqn:E; [|discriminate]. injection H as <- <-. cbn in Hv. eauto.
  - destruct (scan (nonempty c s) (pass c)) as [vs0 [[f0 rem0]|]] eqn:Sc.
    + destruct (commit s f0 (after c rem0)) as [s1|] eqn:Cm; [|discriminate]. injection H as <- <-.
      assert (f0 = f).
      { destruct Hv as [Hin|(rem & Hr)].
        - destruct (scan_visit_true _ _ _ _ _ Sc Hin) as (r' & Er). congruence.
        - unfold commit in Cm. destruct (sq_get fifo_pop (mstores s f0)); [|discriminate]. injection Cm as <-. cbn in Hr. congruence. }
      subst f0. eauto.
    + destruct (end_pass c s) as [[s1 vs1]|] eqn:E; [|discriminate]. injection H as <- <-.
      apply (Top vs1 s1); [reflexivity|]. destruct Hv as [Hin|Hr]; [|right; exact Hr].
      apply in_app_or in Hin as [Hin|Hin]; [|left; exact Hin].
      destruct (scan_visit_true _ _ _ _ _ Sc Hin) as (r' & Er). discriminate.
Qed.

Definition higher (tbl : list (Z * Z)) (f g : Z) : Prop :=
  exists pf pg, In (f, pf) tbl /\ In (g, pg) tbl /\ (pf < pg)%Z.

(* the scan of the whole pass that finds f found every class of higher priority empty *)
Lemma sp_scan_strict r cm fl tbl s vs f rem' g :
  NoDup (map fst tbl) ->
  scan (nonempty (sp_cfg true r cm fl tbl) s) (pass (sp_cfg true r cm fl tbl)) = (vs, Some (f, rem')) ->
  higher tbl f g -> items (mstores s g) = [] /\ g <> f.
Proof.
  intros ND Sc (pf & pg & Hf & Hg & Lt).
  apply scan_some in Sc as (_ & l1 & n & l2 & E & _ & Hl1).
  unfold sp_cfg in E; cbn [pass] in E.
  apply map_split_mid in E as (L1 & x & L2 & EL & E1 & Ex & E2).
  pose proof (sort_desc_sorted tbl) as Srt. rewrite EL in Srt.
  assert (Hx : In x tbl) by (apply sort_desc_in; rewrite EL; apply in_or_app; right; left; reflexivity).
  destruct x as [xf xp]. unfold sp_slot in Ex; cbn in Ex. injection Ex as -> Exn.
  assert (xp = pf) by (eapply nodup_key; eauto). subst xp.
  assert (Pf : (0 < pf)%Z) by (destruct (Z.ltb_spec 0 pf); [assumption|discriminate]).
  split; [|intros ->; assert (pg = pf) by (eapply nodup_key; eauto); lia].
  assert (HgL : In (g, pg) (L1 ++ (f, pf) :: L2)) by (rewrite <- EL; apply sort_desc_in; exact Hg).
  apply in_app_or in HgL as [H1|[Eq|H2]].
  - assert (Hs : In (sp_slot (g, pg)) l1) by (rewrite <- E1; apply in_map; exact H1).
    unfold sp_slot in Hs; cbn in Hs. assert (Pg : (0 <? pg)%Z = true) by (apply Z.ltb_lt; lia). rewrite Pg in Hs.
    destruct (Hl1 _ _ Hs) as [N|T]; [discriminate|].
    unfold nonempty in T; cbn in T. destruct (items (mstores s g)); [reflexivity|discriminate].
  - injection Eq as -> ->. lia.
  - pose proof (sorted_app_later _ _ _ _ Srt H2) as G. unfold ge_prio in G; cbn in G. lia.
Qed.

(* C13, at the commit: whenever run() takes a packet of flow f, no class of higher priority holds a packet *)
Theorem sp_strict_commit r cm fl tbl s a s' o f g :
  0 < r -> NoDup (map fst tbl) -> reachable (sp_cfg true r cm fl tbl) s -> sp_act r cm fl tbl s a = Some (s', o) ->
  In (OVisit f true) o -> higher tbl f g ->
  sq_held (mstores s' g) = [] /\ items (mstores s g) = [] /\ (exists rem, mpc s' = PGet f rem) /\ mnow s' = mnow s.
Proof.
  intros R ND Rs A Hin Hi. set (c := sp_cfg true r cm fl tbl) in *. unfold sp_act in A. fold c in A.
  destruct (reachable_inv c s (sp_wf true r cm fl tbl R) Rs) as (ins & outs & Iv).
  destruct (runs_loop a) eqn:Ra; [|exfalso; eapply (other_site c s a s' o A Ra); exact Hin].
  destruct (resume_site c ins outs s a s' o Iv A Ra) as (s0 & C0 & M0 & Rsm & Est & Enow & _).
  assert (Hc : cursor c s = [] \/ cursor c s = pass c).
  { pose proof (brk_top c s eq_refl Rs) as T. unfold top_cursor in T. unfold cursor. destruct (mpc s); auto. }
  destruct (resume_from_top c s0 _ s' o f Hc Rsm (or_introl Hin)) as (vs & rem' & Sc & Cm).
  destruct (sp_scan_strict r cm fl tbl s0 vs f rem' g ND Sc Hi) as [Eg Ng].
  assert (NE : items (mstores s0 f) <> []).
  { apply scan_some in Sc as (T & _). unfold nonempty in T; cbn in T. destruct (items (mstores s0 f)); [discriminate|discriminate]. }
  destruct (commit_inv c ins outs s0 f _ s' C0 M0 NE Cm) as (_ & Pc & Hit & Hn).
  split; [|split; [rewrite <- Est; exact Eg|split; [eauto|congruence]]].
  unfold commit in Cm. destruct (sq_get fifo_pop (mstores s0 f)) as [q|]; [|discriminate]. injection Cm as <-.
  cbn. rewrite upd_other by exact Ng. unfold sq_held. rewrite (m_getf _ M0 g). exact Eg.
Qed.

(* ---- from the commit to the start of the timer: same instant; what a higher class holds then arrived meanwhile ---- *)
Definition fresh_above (c : mq_cfg) (tbl : list (Z * Z)) (s : mq) : Prop :=
  forall f g, committed c s f -> higher tbl f g -> Forall (fun x => fst x = mnow s) (sq_held (mstores s g)).

Lemma resume_pc_visit c s rem s' o f rem1 : resume c s rem = Some (s', o) -> mpc s' = PGet f rem1 -> mchild s' = mchild s.
Proof. intros H _. eapply resume_child; eauto. Qed.

Lemma sp_fresh_above r cm fl tbl s :
  0 < r -> NoDup (map fst tbl) -> reachable (sp_cfg true r cm fl tbl) s -> fresh_above (sp_cfg true r cm fl tbl) tbl s.
Proof.
  intros R ND. remember (sp_cfg true r cm fl tbl) as c eqn:Ec.
  assert (Bk : brk c = true) by (subst c; reflexivity).
  assert (Rc : wf c) by (subst c; apply sp_wf; exact R).
  assert (Scs : forall s vs f rem' g, scan (nonempty c s) (pass c) = (vs, Some (f, rem')) -> higher tbl f g ->
                 items (mstores s g) = [] /\ g <> f).
  { subst c. intros. eapply sp_scan_strict; eauto. }
  clear Ec. revert s. apply reachable_ind'.
  - intros f g [(rem & E)|(p & E & _)]; discriminate.
  - intros s a s' o Rs IH A.
    destruct (reachable_inv c s Rc Rs) as (ins & outs & Iv). pose proof Iv as [C Sh].
    destruct (runs_loop a) eqn:Ra.
    + (* run() scans: a commit finds the higher classes empty *)
      destruct (resume_site c ins outs s a s' o Iv A Ra) as (s0 & C0 & M0 & Rsm & Est & Enow & _).
      intros f g Cm Hi. destruct Cm as [(rem & P)|(p & Ch & _)].
      * assert (Hc : cursor c s = [] \/ cursor c s = pass c).
        { pose proof (brk_top c s Bk Rs) as T. unfold top_cursor in T. unfold cursor. destruct (mpc s); auto. }
        destruct (resume_from_top c s0 _ s' o f Hc Rsm (or_intror (ex_intro _ rem P))) as (vs & rem' & Sc & Cmt).
        destruct (Scs s0 vs f rem' g Sc Hi) as [Eg Ng].
        unfold commit in Cmt. destruct (sq_get fifo_pop (mstores s0 f)) as [q|]; [|discriminate]. injection Cmt as <-.
        cbn. rewrite upd_other by exact Ng. unfold sq_held. rewrite (m_getf _ M0 g), Eg. constructor.
      * rewrite (resume_child _ _ _ _ _ Rsm), (m_child _ M0) in Ch. discriminate.
    + destruct a as [p| |[f0|]|[f0|]| | | |t|incl]; try discriminate; cbn in A.
      * destruct (memZ (cls c (flow p)) (classes c) && (0 <=? psize p)%Z); [|discriminate]. injection A as <- <-.
        intros f g Cm Hi. specialize (IH f g Cm Hi). cbn. unfold upd.
        destruct (Z.eqb_spec g (cls c (flow p))) as [->|N]; [|exact IH].
        rewrite fifo_held_put. apply Forall_app. split; [exact IH|]. constructor; [reflexivity|constructor].
      * destruct (sq_cb fifo_pop (mstores s f0)) as [q|] eqn:G; [|discriminate]. injection A as <- <-.
        intros f g Cm Hi. assert (Cm0 : committed c s f) by exact Cm. specialize (IH f g Cm0 Hi). cbn. unfold upd.
        destruct (Z.eqb_spec g f0) as [->|N]; [|exact IH]. rewrite (fifo_held_cb _ _ _ G). exact IH.
      * destruct (sq_cb fifo_pop (mtok s)) as [q|]; [|discriminate]. injection A as <- <-.
        intros f g Cm Hi. exact (IH f g Cm Hi).
      * destruct (mpc s) as [|g0 rem|rem| |] eqn:P; try discriminate. destruct (mchild s) eqn:Ch; try discriminate.
        destruct (Z.eqb_spec f0 g0) as [<-|N]; [|discriminate].
        destruct (sq_take (mstores s f0)) as [[[a p] q]|] eqn:T; [|discriminate]. injection A as <- <-.
        pose proof (fifo_held_take _ _ _ _ T) as Hh.
        assert (Fp : cls c (flow p) = f0).
        { apply (held_in_ins c ins outs s f0 p C). unfold held_class. apply in_or_app. right. rewrite Hh. left. reflexivity. }
        intros f g Cm Hi. destruct Cm as [(rem' & E)|(p' & E & Fp')]; [discriminate|]. cbn in E. injection E as <-.
        assert (Cm0 : committed c s f) by (left; exists rem; congruence).
        specialize (IH f g Cm0 Hi). cbn. unfold upd.
        destruct (Z.eqb_spec g f0) as [->|Ng]; [|exact IH]. rewrite Hh in IH. inversion IH; assumption.
      * destruct (mchild s) eqn:Ch; try discriminate. injection A as <- <-.
        intros f g Cm Hi. destruct Cm as [(rem & E)|(p' & E & _)]; [|discriminate]. cbn in E.
        pose proof (i_child _ Sh) as Hc. rewrite E, Ch in Hc. discriminate.
      * destruct (mchild s) eqn:Ch; try discriminate. destruct (Qeq_bool dl (mnow s)); [|discriminate]. injection A as <- <-.
        intros f g Cm Hi. destruct Cm as [(rem & E)|(p' & E & _)]; [|discriminate]. cbn in E.
        pose proof (i_child _ Sh) as Hc. rewrite E, Ch in Hc. discriminate.
      * destruct (urgent c s) eqn:U; [discriminate|].
        destruct (Qlt_le_dec (mnow s) t); [|discriminate].
        assert (E : mpc s' = mpc s /\ mchild s' = mchild s).
        { destruct (mchild s); try (injection A as <- <-; split; reflexivity).
          destruct (Qle_bool t dl); [|discriminate]. injection A as <- <-; split; reflexivity. }
        destruct E as [Epc Ech]. clear A. unfold urgent in U.
        apply orb_false_iff in U as [U Uch]. apply orb_false_iff in U as [U Ust]. apply orb_false_iff in U as [Upc Utok].
        (* nothing is committed in a state in which the clock may move *)
        intros f g Cm Hi. exfalso. unfold committed in Cm. rewrite Epc, Ech in Cm.
        destruct Cm as [(rem & P)|(p & Ch & _)].
        -- destruct (i_pget _ Sh f rem P) as (x & Gx).
           assert (Hf : In f (classes c)).
           { destruct (held_in_ins c ins outs s f (snd x) C) as [Fx Hin].
             - unfold held_class. apply in_or_app. right. unfold sq_held. rewrite Gx. left. reflexivity.
             - rewrite <- Fx. apply (i_ins _ _ _ _ C _ Hin). }
           assert (Ex : existsb (fun f0 => sq_urgent (mstores s f0)) (classes c) = true).
           { apply existsb_exists. exists f. split; [exact Hf|]. unfold sq_urgent. rewrite Gx. apply orb_true_r. }
           congruence.
        -- unfold child_urgent in Uch. rewrite Ch in Uch. discriminate.
      * injection A as <- <-. exact IH.
Qed.

(* C13, at the start of the transmission timer: the commit was made at this very instant, and a packet of a higher
   class that is present now was put at this instant (after the commit) *)
Theorem sp_strict_at_start r cm fl tbl s s' o p g :
  0 < r -> NoDup (map fst tbl) -> reachable (sp_cfg true r cm fl tbl) s -> sp_act r cm fl tbl s SChildInit = Some (s', o) ->
  In (OStart p) o -> higher tbl (cm (flow p)) g -> Forall (fun x => fst x = mnow s) (sq_held (mstores s g)).
Proof.
  intros R ND Rs A Hin Hi. apply (sp_fresh_above r cm fl tbl s R ND Rs (cm (flow p)) g); [|exact Hi].
  right. unfold sp_act in A. cbn in A. destruct (mchild s) as [|p0| |]; try discriminate. injection A as <- <-.
  destruct Hin as [E|[]]. injection E as ->. eauto.
Qed.

(* the run() loop of the pinned commit serves a lower class while a higher one is backlogged *)
Definition sp_w1 : list saction :=
  [SPut (mkp 0 1 0 128 0); SPut (mkp 1 2 1 128 0); SPut (mkp 2 3 0 128 0); SPut (mkp 3 4 1 128 0);
   SInit; SStoreCb None; SStoreCb (Some 0%Z); SStoreCb (Some 1%Z); SStoreCb (Some 0%Z); SStoreCb (Some 1%Z);
   SGetDone (Some 1%Z); SChildInit; SAdvance 1; SChildTimer].

Theorem sp_strict_refuted_unfixed :
  exists r cm fl tbl acts s tr a s' o f g,
    0 < r /\ NoDup (map fst tbl) /\ (forall f p, In (f, p) tbl -> (0 < p)%Z) /\
    sp_run_unfixed r cm fl tbl acts = Some (s, tr) /\ mq_act (sp_cfg false r cm fl tbl) s a = Some (s', o) /\
    In (OVisit f true) o /\ higher tbl f g /\ items (mstores s g) <> [].
Proof.
  exists (1024 # 1), (fun f => f), [0; 1]%Z, [(0, 1); (1, 2)]%Z, sp_w1.
  destruct (sp_run_unfixed (1024 # 1) (fun f => f) [0; 1]%Z [(0, 1); (1, 2)]%Z sp_w1) as [[s tr]|] eqn:E; [|vm_compute in E; discriminate].
  exists s, tr, SChildEnd.
  destruct (mq_act (sp_cfg false (1024 # 1) (fun f => f) [0; 1]%Z [(0, 1); (1, 2)]%Z) s SChildEnd) as [[s' o]|] eqn:A.
  - exists s', o, 0%Z, 1%Z. split; [reflexivity|]. split; [repeat constructor; cbn; intuition discriminate|].
    split; [intros f p [H|[H|[]]]; injection H as <- <-; lia|]. split; [reflexivity|]. split; [reflexivity|].
    vm_compute in E. injection E as <- <-. vm_compute in A. injection A as <- <-.
    split; [left; reflexivity|]. split; [exists 1%Z, 2%Z; cbn; intuition lia|]. cbn. discriminate.
  - exfalso. vm_compute in E. injection E as <- <-. vm_compute in A. discriminate.
Qed.

(* the repaired loop on the same execution: the higher class is drained first *)
Example sp_fixed_on_witness :
  match sp_run (1024 # 1) (fun f => f) [0; 1]%Z [(0, 1); (1, 2)]%Z (sp_w1 ++ [SChildEnd]) with
  | Some (s, tr) => mpc s = PGet 1%Z [] /\ length (items (mstores s 0%Z)) = 2%nat
  | None => False
  end.
Proof. vm_compute. split; reflexivity. Qed.

Theorem sp_commit_same_instant r cm fl tbl s f t :
  0 < r -> reachable (sp_cfg true r cm fl tbl) s -> committed (sp_cfg true r cm fl tbl) s f -> sp_act r cm fl tbl s (SAdvance t) = None.
Proof.
  intros R Rs Cm. unfold sp_act. cbn [mq_act]. rewrite (committed_urgent (sp_cfg true r cm fl tbl) s f (sp_wf true r cm fl tbl R) Rs Cm). reflexivity.
Qed.

Theorem sp_non_preemptive r cm fl tbl acts s tr :
  0 < r -> sp_run r cm fl tbl acts = Some (s, tr) -> tx_wf (sp_cfg true r cm fl tbl) None tr.
Proof.
  intros R H. apply (tx_wf_run (sp_cfg true r cm fl tbl) (sp_wf true r cm fl tbl R) acts (mq0 _) [] [] s tr (inv0 _) H).
Qed.

(* ---- the C13 statements for executions from the initial state ---- *)
Theorem sp_strict_run r cm fl tbl acts s tr a s' o f g :
  0 < r -> NoDup (map fst tbl) ->
  sp_run r cm fl tbl acts = Some (s, tr) -> sp_act r cm fl tbl s a = Some (s', o) ->
  In (OVisit f true) o -> higher tbl f g ->
  sq_held (mstores s' g) = [] /\ items (mstores s g) = [] /\ (exists rem, mpc s' = PGet f rem) /\ mnow s' = mnow s.
Proof. intros R ND H. apply sp_strict_commit; auto. exists acts, tr. exact H. Qed.

Theorem sp_strict_at_start_run r cm fl tbl acts s tr s' o p g :
  0 < r -> NoDup (map fst tbl) ->
  sp_run r cm fl tbl acts = Some (s, tr) -> sp_act r cm fl tbl s SChildInit = Some (s', o) ->
  In (OStart p) o -> higher tbl (cm (flow p)) g -> Forall (fun x => fst x = mnow s) (sq_held (mstores s g)).
Proof. intros R ND H. apply sp_strict_at_start; auto. exists acts, tr. exact H. Qed.

Theorem sp_commit_same_instant_run r cm fl tbl acts s tr f t :
  0 < r -> sp_run r cm fl tbl acts = Some (s, tr) -> committed (sp_cfg true r cm fl tbl) s f -> sp_act r cm fl tbl s (SAdvance t) = None.
Proof. intros R H. apply sp_commit_same_instant; auto. exists acts, tr. exact H. Qed.

(* ---- C12 / C08 for SP: the generic theorems instantiated ---- *)
Lemma sp_work_conserving : forall (r : Q) (cm : Z -> Z) (fl : list Z) (tbl : list (Z * Z)) acts s tr t x,
  0 < r -> (forall k p, In (k, p) tbl -> (0 < p)%Z) ->
  sp_run r cm fl tbl acts = Some (s, tr) -> sp_act r cm fl tbl s (SAdvance t) = Some x ->
  (exists p dl, mchild s = CTx p dl /\ mcur s = Some p /\ mnow s < dl) \/ (forall k, held_class (sp_cfg true r cm fl tbl) s k = []).
Proof. intros r cm fl tbl acts s tr t x R Pos H A. exact (work_conserving0 (sp_cfg true r cm fl tbl) acts s tr t x (sp_cfg_ok true r cm fl tbl R Pos) H A). Qed.

Lemma sp_one_at_a_time_tx_time : forall (r : Q) (cm : Z -> Z) (fl : list Z) (tbl : list (Z * Z)) acts s tr,
  0 < r ->
  sp_run r cm fl tbl acts = Some (s, tr) -> tx_wf (sp_cfg true r cm fl tbl) None tr.
Proof. intros r cm fl tbl acts s tr R H. exact (tx_wf_run0 (sp_cfg true r cm fl tbl) acts s tr (sp_wf true r cm fl tbl R) H). Qed.

Lemma sp_back_to_back : forall (r : Q) (cm : Z -> Z) (fl : list Z) (tbl : list (Z * Z)) acts1 s1 tr1 s2 o acts2 s3 tr2 t x,
  0 < r -> (forall k p, In (k, p) tbl -> (0 < p)%Z) ->
  sp_run r cm fl tbl acts1 = Some (s1, tr1) -> sp_act r cm fl tbl s1 SChildTimer = Some (s2, o) -> (exists k, held_class (sp_cfg true r cm fl tbl) s2 k <> []) ->
  mq_run (sp_cfg true r cm fl tbl) s2 acts2 = Some (s3, tr2) -> (forall t', ~ In (SAdvance t') acts2) -> sp_act r cm fl tbl s3 (SAdvance t) = Some x ->
  exists e p, In e tr2 /\ In (OStart p) (snd e) /\ fst (fst e) = mnow s2.
Proof. intros r cm fl tbl acts1 s1 tr1 s2 o acts2 s3 tr2 t x R Pos H1 A2 Hh H2 NA A3. exact (back_to_back (sp_cfg true r cm fl tbl) acts1 s1 tr1 s2 o acts2 s3 tr2 t x (sp_cfg_ok true r cm fl tbl R Pos) H1 A2 Hh H2 NA A3). Qed.

Lemma sp_flow_fifo : forall (r : Q) (cm : Z -> Z) (fl : list Z) (tbl : list (Z * Z)) acts s tr f,
  0 < r ->
  sp_run r cm fl tbl acts = Some (s, tr) ->
  exists rest, filter (is_flow f) (tr_puts tr) = filter (is_flow f) (tr_fwds tr) ++ rest.
Proof. intros r cm fl tbl acts s tr f R H. exact (run_flow_fifo (sp_cfg true r cm fl tbl) acts s tr f (sp_wf true r cm fl tbl R) H). Qed.

Lemma sp_exactly_once : forall (r : Q) (cm : Z -> Z) (fl : list Z) (tbl : list (Z * Z)) acts s tr p,
  0 < r ->
  sp_run r cm fl tbl acts = Some (s, tr) ->
  count_occ pkt_eq_dec (tr_puts tr) p
  = (count_occ pkt_eq_dec (tr_fwds tr) p + count_occ pkt_eq_dec (held_class (sp_cfg true r cm fl tbl) s (cm (flow p))) p)%nat.
Proof. intros r cm fl tbl acts s tr p R H. exact (run_exactly_once (sp_cfg true r cm fl tbl) acts s tr p (sp_wf true r cm fl tbl R) H). Qed.

Lemma sp_counters : forall (r : Q) (cm : Z -> Z) (fl : list Z) (tbl : list (Z * Z)) acts s tr,
  0 < r ->
  sp_run r cm fl tbl acts = Some (s, tr) ->
  (forall f, mqc s f = Z.of_nat (length (held_flow (sp_cfg true r cm fl tbl) s f)) /\ mqb s f = sumsz (held_flow (sp_cfg true r cm fl tbl) s f))
  /\ mtotal s = zsum (fun k => Z.of_nat (length (held_class (sp_cfg true r cm fl tbl) s k))) (dclasses (sp_cfg true r cm fl tbl))
  /\ mcur s = match mchild s with CTx p _ => Some p | _ => None end
  /\ mrecv s = Z.of_nat (length (tr_puts tr)).
Proof. intros r cm fl tbl acts s tr R H. exact (run_counters (sp_cfg true r cm fl tbl) acts s tr (sp_wf true r cm fl tbl R) H). Qed.

Lemma sp_never_spins : forall (r : Q) (cm : Z -> Z) (fl : list Z) (tbl : list (Z * Z)) acts s tr,
  0 < r -> (forall k p, In (k, p) tbl -> (0 < p)%Z) ->
  sp_run r cm fl tbl acts = Some (s, tr) -> mpc s <> PSpin.
Proof. intros r cm fl tbl acts s tr R Pos H. exact (never_spins0 (sp_cfg true r cm fl tbl) acts s tr (sp_cfg_ok true r cm fl tbl R Pos) H). Qed.

Lemma sp_monitor_samples : forall (r : Q) (cm : Z -> Z) (fl : list Z) (tbl : list (Z * Z)) acts s tr incl,
  0 < r ->
  sp_run r cm fl tbl acts = Some (s, tr) ->
  sp_act r cm fl tbl s (SSample incl) =
    Some (s, [OSample (map (fun f => let l := if incl then held_flow (sp_cfg true r cm fl tbl) s f else waiting_flow (sp_cfg true r cm fl tbl) s f in
                                     (f, Z.of_nat (length l), sumsz l)) (sflows (sp_cfg true r cm fl tbl)))]).
Proof. intros r cm fl tbl acts s tr incl R H. exact (monitor_samples0 (sp_cfg true r cm fl tbl) acts s tr incl (sp_wf true r cm fl tbl R) H). Qed.

Lemma sp_conserves : forall (r : Q) (cm : Z -> Z) (fl : list Z) (tbl : list (Z * Z)) acts s tr,
  0 < r ->
  sp_run r cm fl tbl acts = Some (s, tr) ->
  (forall k, filter (is_class (sp_cfg true r cm fl tbl) k) (tr_puts tr) = filter (is_class (sp_cfg true r cm fl tbl) k) (tr_fwds tr) ++ held_class (sp_cfg true r cm fl tbl) s k)
  /\ (forall f, filter (is_flow f) (tr_puts tr) = filter (is_flow f) (tr_fwds tr) ++ held_flow (sp_cfg true r cm fl tbl) s f)
  /\ (forall p, In p (tr_puts tr) -> In (cm (flow p)) (classes (sp_cfg true r cm fl tbl))).
Proof. intros r cm fl tbl acts s tr R H. exact (run_conserves (sp_cfg true r cm fl tbl) acts s tr (sp_wf true r cm fl tbl R) H). Qed.

Lemma sp_drained : forall (r : Q) (cm : Z -> Z) (fl : list Z) (tbl : list (Z * Z)) acts s tr,
  0 < r -> (forall k p, In (k, p) tbl -> (0 < p)%Z) ->
  sp_run r cm fl tbl acts = Some (s, tr) -> urgent (sp_cfg true r cm fl tbl) s = false -> (forall p dl, mchild s <> CTx p dl) ->
  (forall k, held_class (sp_cfg true r cm fl tbl) s k = []) /\ (forall f, mqc s f = 0%Z /\ mqb s f = 0%Z) /\ mcur s = None /\
  (forall f, filter (is_flow f) (tr_puts tr) = filter (is_flow f) (tr_fwds tr)) /\ mpc s <> PSpin.
Proof. intros r cm fl tbl acts s tr R Pos H U Nd. exact (drained0 (sp_cfg true r cm fl tbl) acts s tr (sp_cfg_ok true r cm fl tbl R Pos) H U Nd). Qed.

(* non-vacuity: a concrete admissible execution (observed on the real SP: four packets put at t = 0 before the wake-up
   token is processed, 128 B at 1024 bit/s = 1 s each; flows 0 and 1 share class 10 (priority 1), flow 2 is class 11 (priority 2)), its departure order, its visits, and the drained final state *)
Definition sp_ex_acts : list saction :=
  [SInit;
   SPut (mkp 0 1 0 128 0);
   SPut (mkp 1 2 1 128 0);
   SPut (mkp 2 3 2 128 0);
   SPut (mkp 3 4 0 128 0);
   SStoreCb None;
   SStoreCb (Some 10%Z);
   SStoreCb (Some 10%Z);
   SStoreCb (Some 11%Z);
   SStoreCb (Some 10%Z);
   SGetDone None;
   SGetDone (Some 11%Z);
   SChildInit;
   SAdvance (1 # 1);
   SChildTimer;
   SChildEnd;
   SGetDone (Some 10%Z);
   SChildInit;
   SAdvance (2 # 1);
   SChildTimer;
   SChildEnd;
   SGetDone (Some 10%Z);
   SChildInit;
   SAdvance (3 # 1);
   SChildTimer;
   SChildEnd;
   SGetDone (Some 10%Z);
   SChildInit;
   SAdvance (4 # 1);
   SChildTimer;
   SChildEnd].

Example sp_example :
  match sp_run (1024 # 1) (cls_of [(0, 10); (1, 10); (2, 11)]%Z) [0; 1; 2]%Z [(10, 1); (11, 2)]%Z sp_ex_acts with
  | Some (s, tr) => map uid (tr_fwds tr) = [2; 0; 1; 3]%nat /\ tr_visits tr = [(11, false); (10, false); (11, true); (11, false); (10, true); (11, false); (10, true); (11, false); (10, true)]%Z /\
                    map (fun e => fst (fst e)) (filter (fun e => negb (nilb (forwards (snd e)))) tr) = [1; 2; 3; 4] /\
                    urgent (sp_cfg true (1024 # 1) (cls_of [(0, 10); (1, 10); (2, 11)]%Z) [0; 1; 2]%Z [(10, 1); (11, 2)]%Z) s = false /\ mpc s = PTok
  | None => False
  end.
Proof. vm_compute. repeat split; reflexivity. Qed.
