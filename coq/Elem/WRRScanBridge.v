(* Bridging lemmas for the GENERATOR body WRR.run (second tie, generator bodies: vlib/translate_gen.py).
   Gen/Extracted_wrr_run.v is regenerated from the tree under test on every run: WRR.run cut at its yields; both for-loops --
   `for flow_id, weight in self.weights.items()` and inside it `for _ in range(weight)` -- are structural fixes over what
   remains of their lists, and the program points inside carry (flow_id, rest of the weight table, rest of the range) in
   their frames:
     gen_WRR_run_from_0   entry: the scan up to `packet = yield store.get()` on the first flow with range(weight) non-empty
                          and a positive queue_count (a flow whose queue_count is 0 ends its visit: `else: break`); after the
                          table the idle test, else around the while: a scan from the top, else the generator spins
     gen_WRR_run_from_1   resumed with a packet: `yield env.process(self.send_packet(packet))`, same position
     gen_WRR_run_from_2   the child has ended: the SAME flow again while its range lasts and its queue_count is positive,
                          otherwise on over the rest of the table
     gen_WRR_run_from_3   resumed with the token: a scan from the top
   Here they get their meaning in the hand-written automaton (Elem/SchedBase.v with the WRR configuration of Elem/WRR.v):
   (flow, what is left of its range, rest of the table) IS the automaton's position (flow, allowance left) :: slots of the
   rest.  SInit / SGetDone / SChildEnd are proved to be EXACTLY the generated functions, by induction over the table.  The
   automaton's ghost outputs OVisit are not part of the code: the scan statements compare states. *)
From Coq Require Import ZArith QArith List Bool Lia.
From ONL Require Import Elem.Packet Elem.StoreQ Elem.SchedBase Elem.WRR Gen.Extracted_wrr_run.
Import ListNotations.

Definition wrr_fields (s : mq) : wrr_run_st := {| wr_queue_count := mqc s |}.

(* the automaton's position while / after flow f is served: r2 = what is left of range(weight), r1 = rest of the table *)
Definition wrr_rem (f : Z) (r1 : list (Z * Z)) (r2 : list Z) : list (Z * nat) := (f, length r2) :: map wrr_slot r1.

(* the first entry of the table whose range is not empty and whose flow has a positive queue_count; with it the rest of the
   table and the rest of its range *)
Fixpoint wrr_find (qc : Z -> Z) (l : list (Z * Z)) : option (Z * list (Z * Z) * list Z) :=
  match l with
  | [] => None
  | (f, w) :: t =>
      match gen_range w with
      | [] => wrr_find qc t
      | _ :: r2 => if Z.ltb 0 (qc f) then Some (f, t, r2) else wrr_find qc t
      end
  end.

Definition wrr_get (o : option (Z * list (Z * Z) * list Z)) (otherwise : wrr_run_next) : wrr_run_next :=
  match o with Some (f, t, r2) => NxYield (RqStoreGet f) (PP1 f t r2) | None => otherwise end.
Definition wrr_top (tot : Z) (qc : Z -> Z) (ws : list (Z * Z)) : wrr_run_next :=
  wrr_get (wrr_find qc ws) (if Z.eqb tot 0 then NxYield RqTokGet PP3 else NxSpin).
(* on over the rest r1 of the table *)
Definition wrr_out (tot : Z) (qc : Z -> Z) (ws r1 : list (Z * Z)) : wrr_run_next :=
  wrr_get (wrr_find qc r1) (if Z.eqb tot 0 then NxYield RqTokGet PP3 else wrr_top tot qc ws).
(* the same flow again while its range lasts and it has packets *)
Definition wrr_from (tot : Z) (qc : Z -> Z) (ws : list (Z * Z)) (f : Z) (r1 : list (Z * Z)) (r2 : list Z) : wrr_run_next :=
  match r2 with
  | [] => wrr_out tot qc ws r1
  | _ :: r2' => if Z.ltb 0 (qc f) then NxYield (RqStoreGet f) (PP1 f r1 r2') else wrr_out tot qc ws r1
  end.

Definition wrr_scan_state (s : mq) (g : wrr_run_st * list wrr_run_fx * wrr_run_next) : option mq :=
  match g with
  | (_, [], NxYield (RqStoreGet k) (PP1 f r1 r2)) => if Z.eqb k f then commit s k (wrr_rem f r1 r2) else None
  | (_, [], NxYield RqTokGet PP3) =>
      match sq_get fifo_pop (mtok s) with Some q => Some (with_pc (with_tok s q) PTok) | None => None end
  | (_, [], NxSpin) => Some (with_pc s PSpin)
  | _ => None
  end.

Definition wrr_child_state (s : mq) (p : pkt) (g : wrr_run_st * list wrr_run_fx * wrr_run_next) : option (mq * list sout) :=
  match g with
  | (_, [], NxYield RqChild (PP2 f r1 r2)) => Some (with_child s (CInit p) (PChild (wrr_rem f r1 r2)), [])
  | _ => None
  end.

Definition wrr_gen0 (s : mq) (ws : list (Z * Z)) := gen_WRR_run_from_0 (wrr_fields s) (mtotal s) ws (fun _ => true).
Definition wrr_gen1 (s : mq) (ws : list (Z * Z)) (f : Z) (r1 : list (Z * Z)) (r2 : list Z) :=
  gen_WRR_run_from_1 (wrr_fields s) f r1 r2 (mtotal s) ws (fun _ => true).
Definition wrr_gen2 (s : mq) (ws : list (Z * Z)) (f : Z) (r1 : list (Z * Z)) (r2 : list Z) :=
  gen_WRR_run_from_2 (wrr_fields s) f r1 r2 (mtotal s) ws (fun _ => true).
Definition wrr_gen3 (s : mq) (ws : list (Z * Z)) := gen_WRR_run_from_3 (wrr_fields s) (mtotal s) ws (fun _ => true).

Lemma negb_leb0 (x : Z) : negb (Z.leb x 0) = Z.ltb 0 x.
Proof. destruct (Z.leb_spec x 0), (Z.ltb_spec 0 x); try reflexivity; lia. Qed.

(* ---- the generated fixes, by induction over the table ---------------------------------------------------------------- *)
Lemma gen_wrr_top_spec : forall (st : wrr_run_st) (tot : Z) (l : list (Z * Z)),
  gen_WRR_run_from_0 st tot l (fun _ => true) =
    ({| wr_queue_count := wr_queue_count st |}, [], wrr_top tot (wr_queue_count st) l).
Proof.
  intros st tot l. unfold gen_WRR_run_from_0, wrr_top.
  induction l as [|[f w] t IH]; cbn [wrr_find wrr_get].
  - destruct (Z.eqb tot 0); reflexivity.
  - destruct (gen_range w) as [|x r2]; [exact IH|].
    rewrite ?(negb_leb0 (wr_queue_count st f)).
    destruct (Z.ltb 0 (wr_queue_count st f)); [reflexivity|exact IH].
Qed.

Lemma gen_wrr_from3_spec : forall (st : wrr_run_st) (tot : Z) (l : list (Z * Z)),
  gen_WRR_run_from_3 st tot l (fun _ => true) =
    ({| wr_queue_count := wr_queue_count st |}, [], wrr_top tot (wr_queue_count st) l).
Proof.
  intros st tot l. unfold gen_WRR_run_from_3, wrr_top.
  induction l as [|[f w] t IH]; cbn [wrr_find wrr_get].
  - destruct (Z.eqb tot 0); reflexivity.
  - destruct (gen_range w) as [|x r2]; [exact IH|].
    rewrite ?(negb_leb0 (wr_queue_count st f)).
    destruct (Z.ltb 0 (wr_queue_count st f)); [reflexivity|exact IH].
Qed.

Lemma gen_wrr_from2_spec : forall (st : wrr_run_st) (tot : Z) (ws : list (Z * Z)) (f : Z) (r1 : list (Z * Z)) (r2 : list Z),
  gen_WRR_run_from_2 st f r1 r2 tot ws (fun _ => true) =
    ({| wr_queue_count := wr_queue_count st |}, [], wrr_from tot (wr_queue_count st) ws f r1 r2).
Proof.
  intros st tot ws f r1 r2. pose proof (gen_wrr_top_spec st tot ws) as T. unfold gen_WRR_run_from_0 in T.
  unfold gen_WRR_run_from_2, wrr_from.
  destruct r2 as [|x r2']; [|rewrite ?(negb_leb0 (wr_queue_count st f)); destruct (Z.ltb 0 (wr_queue_count st f)); [reflexivity|]];
    unfold wrr_out;
    (induction r1 as [|[g w] t IH]; cbn [wrr_find wrr_get];
     [ destruct (Z.eqb tot 0); [reflexivity|]; rewrite T; reflexivity
     | destruct (gen_range w) as [|y r2'']; [exact IH|];
       rewrite ?(negb_leb0 (wr_queue_count st g));
       destruct (Z.ltb 0 (wr_queue_count st g)); [reflexivity|exact IH] ]).
Qed.

(* ---- the automaton's scan, by induction over the table ---------------------------------------------------------------- *)
Lemma gen_range_length (w : Z) : length (gen_range w) = Z.to_nat w.
Proof. unfold gen_range. rewrite map_length, seq_length. reflexivity. Qed.

Lemma wrr_scan_spec (c : mq_cfg) (s : mq) (l : list (Z * Z)) :
  by_count c = true ->
  snd (scan (nonempty c s) (map wrr_slot l)) =
  match wrr_find (mqc s) l with Some (f, t, r2) => Some (f, wrr_rem f t r2) | None => None end.
Proof.
  intros H. induction l as [|[f w] t IH]; [reflexivity|].
  cbn [map wrr_find]. unfold wrr_slot at 1. cbn [fst snd].
  pose proof (gen_range_length w) as L.
  destruct (gen_range w) as [|x r2]; cbn [length] in L; rewrite <- L; cbn [scan].
  - exact IH.
  - unfold nonempty at 1. rewrite H. destruct (Z.ltb 0 (mqc s f)); [reflexivity|].
    destruct (scan (nonempty c s) (map wrr_slot t)) as [vs r]. exact IH.
Qed.

Lemma wrr_end_pass (c : mq_cfg) (s : mq) (ws : list (Z * Z)) :
  by_count c = true -> brk c = false -> pass c = map wrr_slot ws ->
  option_map fst (end_pass c s) =
  wrr_scan_state s ({| wr_queue_count := mqc s |}, [],
                    if Z.eqb (mtotal s) 0 then NxYield RqTokGet PP3 else wrr_top (mtotal s) (mqc s) ws).
Proof.
  intros Hb Hk Hp. unfold end_pass, wrr_top. destruct (Z.eqb (mtotal s) 0) eqn:E0.
  - cbn. destruct (sq_get fifo_pop (mtok s)); reflexivity.
  - rewrite Hp. pose proof (wrr_scan_spec c s ws Hb) as E.
    destruct (scan (nonempty c s) (map wrr_slot ws)) as [vs r]. cbn [snd] in E. subst r.
    destruct (wrr_find (mqc s) ws) as [[[f t] r2]|]; cbn [wrr_get wrr_scan_state].
    + rewrite Z.eqb_refl. unfold after; rewrite Hk. destruct (commit s f (wrr_rem f t r2)); reflexivity.
    + reflexivity.
Qed.

Lemma wrr_resume_out (c : mq_cfg) (s : mq) (ws l : list (Z * Z)) :
  by_count c = true -> brk c = false -> pass c = map wrr_slot ws ->
  option_map fst (resume c s (map wrr_slot l)) =
  wrr_scan_state s ({| wr_queue_count := mqc s |}, [], wrr_out (mtotal s) (mqc s) ws l).
Proof.
  intros Hb Hk Hp. unfold resume, wrr_out.
  pose proof (wrr_scan_spec c s l Hb) as E.
  destruct (scan (nonempty c s) (map wrr_slot l)) as [vs r]. cbn [snd] in E. subst r.
  destruct (wrr_find (mqc s) l) as [[[f t] r2]|]; cbn [wrr_get].
  - cbn [wrr_scan_state]. rewrite Z.eqb_refl. unfold after; rewrite Hk. destruct (commit s f (wrr_rem f t r2)); reflexivity.
  - rewrite <- (wrr_end_pass c s ws Hb Hk Hp). destruct (end_pass c s) as [[s' vs']|]; reflexivity.
Qed.

Lemma wrr_resume_from (c : mq_cfg) (s : mq) (ws : list (Z * Z)) (f : Z) (r1 : list (Z * Z)) (r2 : list Z) :
  by_count c = true -> brk c = false -> pass c = map wrr_slot ws ->
  option_map fst (resume c s (wrr_rem f r1 r2)) =
  wrr_scan_state s ({| wr_queue_count := mqc s |}, [], wrr_from (mtotal s) (mqc s) ws f r1 r2).
Proof.
  intros Hb Hk Hp. pose proof (wrr_resume_out c s ws r1 Hb Hk Hp) as O. unfold resume in O.
  unfold wrr_rem, wrr_from, resume. destruct r2 as [|x r2']; cbn [length scan].
  - exact O.
  - unfold nonempty at 1. rewrite Hb. destruct (Z.ltb 0 (mqc s f)).
    + cbn [wrr_scan_state]. rewrite Z.eqb_refl. unfold after; rewrite Hk. unfold wrr_rem.
      destruct (commit s f ((f, length r2') :: map wrr_slot r1)); reflexivity.
    + destruct (scan (nonempty c s) (map wrr_slot r1)) as [vs [[k rem]|]].
      * rewrite <- O. destruct (commit s k (after c rem)); reflexivity.
      * rewrite <- O. destruct (end_pass c s) as [[s' vs']|]; reflexivity.
Qed.

Lemma wrr_out_top tot qc ws : wrr_out tot qc ws ws = wrr_top tot qc ws.
Proof.
  unfold wrr_out, wrr_top. destruct (wrr_find qc ws) as [[[f t] r2]|]; [reflexivity|]. cbn. destruct (Z.eqb tot 0); reflexivity.
Qed.

(* ---- the micro-steps ---------------------------------------------------------------------------------------------- *)
Lemma bridge_wrr_run_init : forall (r : Q) (ws : list (Z * Z)) (s : mq),
  option_map fst (mq_act (wrr_cfg r ws) s SInit) =
    match mpc s with PNotStarted => wrr_scan_state s (wrr_gen0 s ws) | _ => None end.
Proof.
  intros r ws s. cbn [mq_act]. destruct (mpc s); try reflexivity.
  unfold wrr_gen0. rewrite gen_wrr_top_spec. unfold wrr_fields. cbn [wr_queue_count]. rewrite <- wrr_out_top.
  apply (wrr_resume_out (wrr_cfg r ws) s ws ws); reflexivity.
Qed.

Lemma bridge_wrr_run_token : forall (r : Q) (ws : list (Z * Z)) (s : mq),
  option_map fst (mq_act (wrr_cfg r ws) s (SGetDone None)) =
    match mpc s with
    | PTok => match sq_take (mtok s) with
              | Some (_, q) => wrr_scan_state (with_tok s q) (wrr_gen3 (with_tok s q) ws)
              | None => None
              end
    | _ => None
    end.
Proof.
  intros r ws s. cbn [mq_act]. destruct (mpc s); try reflexivity.
  destruct (sq_take (mtok s)) as [[u q]|]; [|reflexivity].
  unfold wrr_gen3. rewrite gen_wrr_from3_spec. unfold wrr_fields. cbn [wr_queue_count]. rewrite <- wrr_out_top.
  apply (wrr_resume_out (wrr_cfg r ws) (with_tok s q) ws ws); reflexivity.
Qed.

Lemma bridge_wrr_run_get : forall (r : Q) (ws : list (Z * Z)) (s : mq) (f g : Z) (r1 : list (Z * Z)) (r2 : list Z),
  mpc s = PGet g (wrr_rem g r1 r2) ->
  mq_act (wrr_cfg r ws) s (SGetDone (Some f)) =
    match mchild s with
    | CNone =>
        if Z.eqb f g then
          match sq_take (mstores s f) with
          | Some ((_, p), q) => wrr_child_state (with_store s f q) p (wrr_gen1 s ws g r1 r2)
          | None => None
          end
        else None
    | _ => None
    end.
Proof.
  intros r ws s f g r1 r2 Hpc. cbn [mq_act]. rewrite Hpc.
  destruct (mchild s); try reflexivity; destruct (Z.eqb f g); try reflexivity;
    destruct (sq_take (mstores s f)) as [[[a p] q]|]; reflexivity.
Qed.

Lemma bridge_wrr_run_child_end : forall (r : Q) (ws : list (Z * Z)) (s : mq) (g : Z) (r1 : list (Z * Z)) (r2 : list Z),
  mpc s = PChild (wrr_rem g r1 r2) ->
  option_map fst (mq_act (wrr_cfg r ws) s SChildEnd) =
    match mchild s with
    | CEnded => let s0 := with_child s CNone (PChild (wrr_rem g r1 r2)) in wrr_scan_state s0 (wrr_gen2 s0 ws g r1 r2)
    | _ => None
    end.
Proof.
  intros r ws s g r1 r2 Hpc. cbn [mq_act]. rewrite Hpc. destruct (mchild s); try reflexivity.
  cbv zeta. unfold wrr_gen2. rewrite gen_wrr_from2_spec.
  pose proof (wrr_resume_from (wrr_cfg r ws) (with_child s CNone (PChild (wrr_rem g r1 r2))) ws g r1 r2
                              eq_refl eq_refl eq_refl) as R.
  unfold wrr_fields in *. cbn [wr_queue_count] in *. rewrite <- R. reflexivity.
Qed.

Lemma wrr_run_explicit : forall (s : mq) (ws : list (Z * Z)) (f : Z) (r1 : list (Z * Z)) (r2 : list Z),
  wrr_gen0 s ws = (wrr_fields s, [], wrr_top (mtotal s) (mqc s) ws) /\
  wrr_gen1 s ws f r1 r2 = (wrr_fields s, [], NxYield RqChild (PP2 f r1 r2)) /\
  wrr_gen2 s ws f r1 r2 = (wrr_fields s, [], wrr_from (mtotal s) (mqc s) ws f r1 r2) /\
  wrr_gen3 s ws = (wrr_fields s, [], wrr_top (mtotal s) (mqc s) ws).
Proof.
  intros s ws f r1 r2. unfold wrr_gen0, wrr_gen1, wrr_gen2, wrr_gen3.
  rewrite gen_wrr_top_spec, gen_wrr_from2_spec, gen_wrr_from3_spec. repeat split; reflexivity.
Qed.
