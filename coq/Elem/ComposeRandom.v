(* RandomDemux (onl/netdev/demux.py): every packet is handed to ONE output, chosen by random.choices(outs, weights=probs).

   1. [choices_index]: a transcription of what CPython's random.choices does with one draw u = random():
        cum = accumulate(weights); total = cum[-1]; index = bisect_right(cum, u * total, 0, n - 1)
      (bisect on a non-decreasing list = the number of leading entries <= x; the search stops at n - 1: the index is clamped).
      For every weight list and every draw the index is < n; for non-negative weights with a positive total and 0 <= u < 1 the
      chosen output has a POSITIVE weight.  The correspondence computes the index of every packet with this function from the
      scripted draws and the weights in force, and compares it with what the real random.choices did, on every run.
   2. [rdemux_elem c t0 Es]: the demux as a fan-out element whose route comes from an ORACLE c (the choice made for each
      packet; any function of the packet -- for pairwise distinct packets every tape of choices is such a function, [tape_choice]).
      It is `pass >> bank t0 c Es` over Elem/ComposeSwitch.v, so conservation, exactly-one-output, per-output order and
      drained-at-quiescence hold for EVERY oracle. *)
From Coq Require Import ZArith QArith List Bool Permutation Lia Lqa Arith.
From ONL Require Import Elem.Packet Elem.Iface Elem.Compose Elem.ComposePar Elem.ComposeHands Elem.ComposeFan Elem.ComposeSwitch Route.Demux.
Import ListNotations.
Local Open Scope Q_scope.

(* ---- random.choices with one draw ------------------------------------------------------------------------------------ *)
Fixpoint cums (acc : Q) (ws : list Q) : list Q :=
  match ws with [] => [] | w :: r => (acc + w) :: cums (acc + w) r end.
(* bisect_right on a non-decreasing list: how many leading entries are <= x *)
Fixpoint count_le (x : Q) (l : list Q) : nat :=
  match l with [] => O | c :: r => if Qle_bool c x then S (count_le x r) else O end.
Definition choices_index (ws : list Q) (u : Q) : nat :=
  let cum := cums 0 ws in
  count_le (u * last cum 0) (firstn (pred (length ws)) cum).

Lemma count_le_len x l : (count_le x l <= length l)%nat.
Proof. induction l as [|c r IH]; cbn; [lia|]. destruct (Qle_bool c x); lia. Qed.
Lemma cums_len acc ws : length (cums acc ws) = length ws.
Proof. revert acc. induction ws as [|w r IH]; intros acc; cbn; [reflexivity|]. rewrite IH. reflexivity. Qed.

(* never out of range: random.choices cannot raise IndexError, whatever the weights sum to *)
Theorem choices_index_lt ws u : ws <> [] -> (choices_index ws u < length ws)%nat.
Proof.
  intros Hn. unfold choices_index. pose proof (count_le_len (u * last (cums 0 ws) 0) (firstn (pred (length ws)) (cums 0 ws))) as H.
  rewrite firstn_length, cums_len in H. destruct ws; [contradiction|]. cbn [length] in *. lia.
Qed.

Lemma count_le_firstn x : forall l k, count_le x (firstn k l) = Nat.min k (count_le x l).
Proof.
  induction l as [|c r IH]; intros k; [destruct k; reflexivity|]. destruct k as [|k]; [reflexivity|].
  cbn [firstn count_le]. destruct (Qle_bool c x); [rewrite IH; reflexivity|reflexivity].
Qed.

Fixpoint qsum (ws : list Q) : Q := match ws with [] => 0 | w :: r => w + qsum r end.
Lemma last_cums : forall ws acc, last (cums acc ws) acc == acc + qsum ws.
Proof.
  induction ws as [|w r IH]; intros acc; cbn [cums qsum]; [cbn; lra|].
  destruct r as [|w2 r2]; [cbn; lra|]. specialize (IH (acc + w)). cbn [cums] in *.
  change (last ((acc + w) :: (acc + w + w2) :: cums (acc + w + w2) r2) acc) with (last ((acc + w + w2) :: cums (acc + w + w2) r2) acc).
  assert (E : forall (l : list Q) a b c, last (c :: l) a = last (c :: l) b) by (induction l; intros; cbn; [reflexivity|apply IHl]).
  rewrite (E _ acc (acc + w)). rewrite IH. lra.
Qed.

(* the chosen slot of the cumulative list: its own weight is positive *)
Lemma count_le_pos : forall ws acc x, Forall (fun w => 0 <= w) ws -> acc <= x -> x < acc + qsum ws ->
  (count_le x (cums acc ws) < length ws)%nat /\ 0 < nth (count_le x (cums acc ws)) ws 0.
Proof.
  induction ws as [|w r IH]; intros acc x Hw Ha Hx; cbn [qsum] in Hx; [lra|].
  inversion Hw as [|? ? Hw0 Hwr]; subst. cbn [cums count_le length].
  destruct (Qle_bool (acc + w) x) eqn:E.
  - apply Qle_bool_iff in E. destruct (IH (acc + w) x Hwr E ltac:(lra)) as [L P]. split; [lia|exact P].
  - assert (N : ~ acc + w <= x) by (intros C; apply Qle_bool_iff in C; congruence). split; [lia|]. cbn [nth]. lra.
Qed.

(* with non-negative weights, a positive total and a draw in [0, 1) the chosen output has a positive weight (an output of weight 0
   is never chosen) *)
Theorem choices_index_weight ws u : Forall (fun w => 0 <= w) ws -> 0 < qsum ws -> 0 <= u -> u < 1 ->
  0 < nth (choices_index ws u) ws 0.
Proof.
  intros Hw Ht U0 U1. unfold choices_index. rewrite count_le_firstn.
  assert (Hl : last (cums 0 ws) 0 == qsum ws) by (rewrite last_cums; lra).
  assert (Hx : 0 <= u * last (cums 0 ws) 0 /\ u * last (cums 0 ws) 0 < 0 + qsum ws).
  { rewrite Hl. split; [apply Qmult_le_0_compat; lra|]. assert (u * qsum ws < 1 * qsum ws) by (apply Qmult_lt_compat_r; assumption). lra. }
  destruct (count_le_pos ws 0 _ Hw (proj1 Hx) (proj2 Hx)) as [L P].
  rewrite Nat.min_r by lia. exact P.
Qed.

(* ---- the demux as an element with an oracle --------------------------------------------------------------------------- *)
Definition pass_route : Z -> output := fun _ => ODefault.        (* RandomDemux has no discard rule: every packet is handed on *)
Definition rdemux_elem (c : pkt -> nat) (t0 : Q) (Es : list elem) : elem := demux_elem pass_route t0 >> bank t0 c Es.

Theorem bank_conserves t0 : forall Es idx, Forall conserves Es -> conserves (bank t0 idx Es).
Proof.
  induction Es as [|E r IH]; intros idx HL; cbn [bank]; [apply (l_conserves _ (nil_elem_laws t0))|].
  inversion HL; subst. apply par_conserves; auto.
Qed.
Theorem bank_drained t0 : forall Es idx, Forall drained Es -> drained (bank t0 idx Es).
Proof.
  induction Es as [|E r IH]; intros idx HL; cbn [bank]; [apply (l_drained _ (nil_elem_laws t0))|].
  inversion HL; subst. apply par_drained; auto.
Qed.

Lemma filter_pass (l : list pkt) : filter (routed pass_route) l = l.
Proof. induction l as [|p l IH]; [reflexivity|]. cbn [filter]. assert (E : routed pass_route p = true) by reflexivity. rewrite E, IH. reflexivity. Qed.

(* for EVERY oracle: put in = delivered at the outputs ++ discarded by the devices behind them (the demux itself discards
   nothing) ++ held there; and nothing is held at quiescence *)
Theorem rdemux_conserves c t0 Es : Forall conserves Es -> conserves (rdemux_elem c t0 Es).
Proof. intros HL. apply series_conserves; [apply (l_conserves _ (demux_elem_laws pass_route t0))|apply bank_conserves; exact HL]. Qed.
Theorem rdemux_drained c t0 Es : Forall conserves Es -> Forall drained Es -> drained (rdemux_elem c t0 Es).
Proof.
  intros HC HD. apply compose_drained; [apply (l_conserves _ (demux_elem_laws pass_route t0))|apply (l_drained _ (demux_elem_laws pass_route t0))|].
  apply bank_drained; exact HD.
Qed.
Theorem rdemux_timed c t0 Es : Forall timed Es -> timed (rdemux_elem c t0 Es).
Proof. intros HL. apply series_timed; [apply demux_elem_timed|apply bank_timed; exact HL]. Qed.
Theorem rdemux_tagged c t0 Es : Forall tagged Es -> tagged (rdemux_elem c t0 Es).
Proof. intros HL. apply series_tagged; [apply demux_elem_tagged|apply bank_tagged; exact HL]. Qed.

(* EXACTLY ONE OUTPUT, for every oracle: the device behind output i, inside ANY execution, runs as it would alone and was given
   exactly the packets the oracle sent to i, in the order in which they were put in (no packet twice, no packet of another output);
   what it delivers is delivered by the demux element; hence per-flow order holds per output whenever the device keeps it *)
Theorem rdemux_output c t0 Es : forall acts s tr,
  run (rdemux_elem c t0 Es) (init (rdemux_elem c t0 Es)) acts = Some (s, tr) ->
  forall i E, nth_error Es i = Some E ->
  exists sE acts_i tr_i, bank_has t0 Es c (snd s) i E sE /\ run E (init E) acts_i = Some (sE, tr_i) /\
    puts tr_i = filter (fun p => Nat.eqb (c p) i) (puts tr) /\ sublist (fwds tr_i) (fwds tr) /\
    (forall f, flow_fifo E f ->
       sublist (filter (on_flow f) (fwds tr_i)) (filter (on_flow f) (filter (fun p => Nat.eqb (c p) i) (puts tr)))).
Proof.
  intros acts s tr H i E Hn. unfold rdemux_elem in H.
  destruct (series_projection_init _ _ _ _ _ H) as (trD & trB & RD & RB & P1 & P2 & P3 & _).
  destruct (demux_run _ _ _ _ _ _ RD) as [FD _].
  destruct (bank_has_total t0 Es c (snd s) i E Hn) as [sE Hh].
  destruct (bank_projection t0 _ _ _ _ _ _ Hh _ _ RB) as (acts_i & tr_i & R & P & Fw & _).
  assert (Hp : puts trB = puts tr).
  { rewrite P2, FD, P1. apply filter_pass. }
  exists sE, acts_i, tr_i. split; [exact Hh|]. split; [exact R|]. rewrite Hp in P. rewrite P3 in Fw. repeat split; auto.
  intros f FF. rewrite <- P. exact (FF _ _ _ R).
Qed.

(* every tape of choices over pairwise distinct packets is an oracle *)
Fixpoint tape_fun (ps : list pkt) (tape : list nat) (p : pkt) : nat :=
  match ps, tape with
  | q :: ps', i :: tape' => if Nat.eqb (uid q) (uid p) then i else tape_fun ps' tape' p
  | _, _ => O
  end.
Theorem tape_choice : forall ps tape, NoDup (map uid ps) -> length tape = length ps -> map (tape_fun ps tape) ps = tape.
Proof.
  induction ps as [|q ps IH]; intros tape ND Hl; destruct tape as [|i tape]; try discriminate; [reflexivity|].
  cbn [map tape_fun]. rewrite Nat.eqb_refl. f_equal. inversion ND as [|? ? Nq NDr]; subst.
  transitivity (map (tape_fun ps tape) ps); [|apply IH; [exact NDr|cbn in Hl; lia]]. apply map_ext_in. intros p Hp. cbn [tape_fun].
  destruct (Nat.eqb_spec (uid q) (uid p)) as [E|_]; [|reflexivity]. exfalso. apply Nq. rewrite E. apply in_map. exact Hp.
Qed.
