(* Proofs about Elem/Bucket.v: for every configuration with rate > 0 and every admissible execution
   (any action list accepted by tb_run from tb0), the timed outputs of the token bucket are what the
   property's recurrence gives:  packet k reaches the head at h_k = max(arrival_k, departure_(k-1)),
   the bucket then holds lvl_k = min(B, L + rate*(h_k - U)/8), the tokens are debited at the earliest
   instant the bucket holds size_k, the packet leaves 8*size_k/peak later.
   Skeleton: AGENT_GUIDE "Layer E", invariants I1-I4 (StoreQProofs). *)
From Coq Require Import ZArith QArith Qminmax List Bool Lia Lqa Morphisms.
From ONL Require Import Elem.Packet Elem.StoreQ Elem.StoreQProofs Elem.Bucket.
Import ListNotations.

(* ---------------------------------------------------------------------------------------------- *)
(* arithmetic of tokens                                                                            *)

Global Instance fill_proper : Proper (Qeq ==> Qeq ==> Qeq) fill.
Proof. intros r r' Er d d' Ed. unfold fill. rewrite Er, Ed. reflexivity. Qed.

Lemma fill_add r a b : fill r (a + b) == fill r a + fill r b.
Proof. unfold fill. field. Qed.

Lemma fill_sub r a b : fill r (a - b) == fill r a - fill r b.
Proof. unfold fill. field. Qed.

Lemma fill_0 r : fill r 0 == 0.
Proof. unfold fill. field. Qed.

Lemma fill_nonneg r d : 0 < r -> 0 <= d -> 0 <= fill r d.
Proof.
  intros Hr Hd. unfold fill. apply Qle_shift_div_l; [reflexivity|]. rewrite Qmult_0_l.
  apply Qmult_le_0_compat; lra.
Qed.

Lemma fill_pos r d : 0 < r -> 0 < d -> 0 < fill r d.
Proof.
  intros Hr Hd. unfold fill. apply Qlt_shift_div_l; [reflexivity|]. rewrite Qmult_0_l.
  apply Qmult_lt_0_compat; lra.
Qed.

Lemma fill_le r a b : 0 < r -> a <= b -> fill r a <= fill r b.
Proof.
  intros Hr H. assert (X : 0 <= fill r (b - a)) by (apply fill_nonneg; lra).
  rewrite fill_sub in X. lra.
Qed.

Lemma fill_lt r a b : 0 < r -> a < b -> fill r a < fill r b.
Proof.
  intros Hr H. assert (X : 0 < fill r (b - a)) by (apply fill_pos; lra).
  rewrite fill_sub in X. lra.
Qed.

(* waiting (size - lvl)*8/rate brings exactly the missing tokens *)
Lemma fill_tokwait r s l : 0 < r -> fill r (tokwait r s l) == s - l.
Proof. intros Hr. unfold fill, tokwait. field. lra. Qed.

Lemma tokwait_pos r s l : 0 < r -> l < s -> 0 < tokwait r s l.
Proof.
  intros Hr H. unfold tokwait. apply Qlt_shift_div_l; [exact Hr|]. lra.
Qed.

Global Instance tokwait_proper : Proper (Qeq ==> Qeq ==> Qeq ==> Qeq) tokwait.
Proof. intros r r' Er s s' Es l l' El. unfold tokwait. rewrite Er, Es, El. reflexivity. Qed.

Global Instance spacing_proper : Proper (Qeq ==> Qeq ==> Qeq) spacing.
Proof. intros r r' Er s s' Es. unfold spacing. rewrite Er, Es. reflexivity. Qed.

Lemma Qmin_compat a b b' : b == b' -> Qmin a b == Qmin a b'.
Proof.
  intros E. destruct (Q.min_spec a b) as [[H1 E1]|[H1 E1]]; destruct (Q.min_spec a b') as [[H2 E2]|[H2 E2]];
    rewrite E1, E2; lra.
Qed.

Lemma refill_compat B r L L' U U' t t' :
  L == L' -> U == U' -> t == t' -> refill B r L U t == refill B r L' U' t'.
Proof.
  intros EL EU Et. unfold refill. apply Qmin_compat. rewrite EL, EU, Et. reflexivity.
Qed.

Lemma refill_le_B B r L U t : refill B r L U t <= B.
Proof. unfold refill. apply Q.le_min_l. Qed.

Lemma refill_le_fill B r L U t : refill B r L U t <= L + fill r (t - U).
Proof. unfold refill. apply Q.le_min_r. Qed.

(* ---------------------------------------------------------------------------------------------- *)
(* the recurrence of the property                                                                  *)

(* the instant the tokens of a packet of [size] bytes are debited, when it reached the head at [h]
   with [lvl] tokens in the bucket: at once, or after the wait for the missing tokens *)
Definition release (r h lvl size : Q) : Q :=
  if Qlt_le_dec lvl size then h + tokwait r size lvl else h.

(* tokens left right after the debit *)
Definition post (lvl size : Q) : Q := if Qlt_le_dec lvl size then 0 else lvl - size.

Lemma release_compat r h h' lvl lvl' size : h == h' -> lvl == lvl' -> release r h lvl size == release r h' lvl' size.
Proof.
  intros Eh El. unfold release. destruct (Qlt_le_dec lvl size), (Qlt_le_dec lvl' size); try lra.
  rewrite Eh, El. reflexivity.
Qed.

Lemma post_compat lvl lvl' size : lvl == lvl' -> post lvl size == post lvl' size.
Proof. intros El. unfold post. destruct (Qlt_le_dec lvl size), (Qlt_le_dec lvl' size); lra. Qed.

Lemma post_wait lvl size : lvl < size -> post lvl size == 0.
Proof. intros H. unfold post. destruct (Qlt_le_dec lvl size); lra. Qed.
Lemma post_nowait lvl size : size <= lvl -> post lvl size == lvl - size.
Proof. intros H. unfold post. destruct (Qlt_le_dec lvl size); lra. Qed.
Lemma release_wait r h lvl size : lvl < size -> release r h lvl size == h + tokwait r size lvl.
Proof. intros H. unfold release. destruct (Qlt_le_dec lvl size); lra. Qed.
Lemma release_nowait r h lvl size : size <= lvl -> release r h lvl size == h.
Proof. intros H. unfold release. destruct (Qlt_le_dec lvl size); lra. Qed.

Lemma post_nonneg lvl size : 0 <= post lvl size.
Proof. unfold post. destruct (Qlt_le_dec lvl size); lra. Qed.

Lemma release_ge r h lvl size : 0 < r -> h <= release r h lvl size.
Proof.
  intros Hr. unfold release. destruct (Qlt_le_dec lvl size) as [H|H]; [|lra].
  pose proof (tokwait_pos r size lvl Hr H). lra.
Qed.

(* what the bucket holds for the head packet at instant t >= h: the capped level, or - for a packet
   larger than the bucket - the level that keeps growing past the cap ("regardless of the bucket size") *)
Definition tokens_at (B r h lvl size t : Q) : Q :=
  if Qlt_le_dec B size then lvl + fill r (t - h) else Qmin B (lvl + fill r (t - h)).

(* the debit instant is the EARLIEST instant >= h at which the bucket holds the packet's size *)
Lemma release_least B r h lvl size :
  0 < r -> lvl <= B ->
  let d := release r h lvl size in
  h <= d /\ size <= tokens_at B r h lvl size d /\
  (forall t, h <= t -> t < d -> tokens_at B r h lvl size t < size).
Proof.
  intros Hr HlB d. subst d. unfold release, tokens_at.
  destruct (Qlt_le_dec lvl size) as [Hw|Hw].
  - pose proof (tokwait_pos r size lvl Hr Hw) as Hp.
    assert (E : fill r (h + tokwait r size lvl - h) == size - lvl).
    { rewrite <- (fill_tokwait r size lvl Hr). apply fill_proper; [reflexivity|]. ring. }
    split; [lra|]. split.
    + destruct (Qlt_le_dec B size) as [Hb|Hb]; [lra|].
      destruct (Q.min_spec B (lvl + fill r (h + tokwait r size lvl - h))) as [[H1 E1]|[H1 E1]]; rewrite E1; lra.
    + intros t Ht1 Ht2.
      assert (X : fill r (t - h) < size - lvl).
      { rewrite <- E. apply fill_lt; [exact Hr|]. lra. }
      destruct (Qlt_le_dec B size) as [Hb|Hb]; [lra|].
      destruct (Q.min_spec B (lvl + fill r (t - h))) as [[H1 E1]|[H1 E1]]; rewrite E1; lra.
  - split; [lra|]. split.
    + assert (E : fill r (h - h) == 0) by (rewrite <- (fill_0 r); apply fill_proper; [reflexivity|ring]).
      destruct (Qlt_le_dec B size) as [Hb|Hb]; [lra|].
      destruct (Q.min_spec B (lvl + fill r (h - h))) as [[H1 E1]|[H1 E1]]; rewrite E1; lra.
    + intros t Ht1 Ht2. lra.
Qed.

(* one service: packet, arrival instant, instant it reached the head with the server free, bucket level then
   (after the refill), debit instant, departure instant *)
Record svc := { v_pkt : pkt; v_arr : Q; v_head : Q; v_lvl : Q; v_debit : Q; v_dep : Q }.

Definition vsize (o : svc) : Q := sz (v_pkt o).
Definition vpost (o : svc) : Q := post (v_lvl o) (vsize o).

(* the peak-rate spacing between debit and departure *)
Definition gap (c : tbcfg) (size : Q) : Q :=
  match peak_on c with Some k => spacing k size | None => 0 end.

(* [L] tokens at instant [U] (the last debit), server free since [F] (the last departure) *)
Definition step_ok (c : tbcfg) (L U F : Q) (o : svc) : Prop :=
  v_head o == Qmax (v_arr o) F /\ U <= v_head o /\
  v_lvl o == refill (bsize c) (rate c) L U (v_head o) /\
  v_debit o == release (rate c) (v_head o) (v_lvl o) (vsize o) /\
  v_dep o == v_debit o + gap c (vsize o).

Fixpoint chain (c : tbcfg) (L U F : Q) (R : list svc) : Prop :=
  match R with
  | [] => True
  | o :: R' => step_ok c L U F o /\ chain c (vpost o) (v_debit o) (v_dep o) R'
  end.

Definition lastL (L : Q) (R : list svc) : Q := fold_left (fun _ o => vpost o) R L.
Definition lastU (U : Q) (R : list svc) : Q := fold_left (fun _ o => v_debit o) R U.
Definition lastF (F : Q) (R : list svc) : Q := fold_left (fun _ o => v_dep o) R F.

Lemma lastL_snoc L R o : lastL L (R ++ [o]) = vpost o.
Proof. unfold lastL. rewrite fold_left_app. reflexivity. Qed.
Lemma lastU_snoc U R o : lastU U (R ++ [o]) = v_debit o.
Proof. unfold lastU. rewrite fold_left_app. reflexivity. Qed.
Lemma lastF_snoc F R o : lastF F (R ++ [o]) = v_dep o.
Proof. unfold lastF. rewrite fold_left_app. reflexivity. Qed.

Lemma chain_snoc c : forall R L U F o,
  chain c L U F R -> step_ok c (lastL L R) (lastU U R) (lastF F R) o -> chain c L U F (R ++ [o]).
Proof.
  induction R as [|x R IH]; intros L U F o HC HS; cbn [app chain].
  - split; [exact HS|exact I].
  - destruct HC as [Hx HC]. split; [exact Hx|]. apply IH; [exact HC|exact HS].
Qed.

Lemma chain_app_l c : forall R1 R2 L U F, chain c L U F (R1 ++ R2) -> chain c L U F R1.
Proof.
  induction R1 as [|x R1 IH]; intros R2 L U F H; cbn [app chain] in *; [exact I|].
  destruct H as [Hx H]. split; [exact Hx|]. eapply IH; eauto.
Qed.

Lemma chain_app_r c : forall R1 R2 L U F,
  chain c L U F (R1 ++ R2) -> chain c (lastL L R1) (lastU U R1) (lastF F R1) R2.
Proof.
  induction R1 as [|x R1 IH]; intros R2 L U F H; cbn [app chain] in *; [exact H|].
  destruct H as [Hx H]. apply (IH _ _ _ _ H).
Qed.

(* the service lists the traces are compared with *)
Definition sv_arr (R : list svc) : list (Q * pkt) := map (fun o => (v_arr o, v_pkt o)) R.
Definition sv_head (R : list svc) : list (Q * pkt) := map (fun o => (v_head o, v_pkt o)) R.
Definition sv_debit (R : list svc) : list (Q * pkt) := map (fun o => (v_debit o, v_pkt o)) R.
Definition sv_dep (R : list svc) : list (Q * pkt) := map (fun o => (v_dep o, v_pkt o)) R.

(* ---------------------------------------------------------------------------------------------- *)
(* traces                                                                                          *)

(* same packets (Leibniz), same instants (==) *)
Definition tpe : list (Q * pkt) -> list (Q * pkt) -> Prop :=
  Forall2 (fun x y : Q * pkt => fst x == fst y /\ snd x = snd y).

Lemma tpe_snoc l1 l2 t T p : tpe l1 l2 -> t == T -> tpe (l1 ++ [(t, p)]) (l2 ++ [(T, p)]).
Proof.
  intros H E. apply Forall2_app; [exact H|]. constructor; [|constructor]. cbn. split; [exact E|reflexivity].
Qed.

Lemma tpe_pkts l1 l2 : tpe l1 l2 -> map snd l1 = map snd l2.
Proof. induction 1 as [|x y l l' [_ E] _ IH]; cbn; [reflexivity|]. rewrite E, IH. reflexivity. Qed.

Lemma tpe_length l1 l2 : tpe l1 l2 -> length l1 = length l2.
Proof. induction 1; cbn; auto. Qed.

Lemma tpe_nth l1 l2 : tpe l1 l2 -> forall k t p, nth_error l1 k = Some (t, p) ->
  exists T, nth_error l2 k = Some (T, p) /\ t == T.
Proof.
  induction 1 as [|x y l l' [E1 E2] _ IH]; intros k t p Hk.
  - destruct k; discriminate.
  - destruct k as [|k]; cbn in Hk |- *.
    + injection Hk as ->. destruct y as [T q]. cbn in *. subst q. exists T. split; [reflexivity|exact E1].
    + apply IH. exact Hk.
Qed.

Definition ev_puts (e : tev) : list (Q * pkt) :=
  match e with (t, TPut p, _) => [(t, p)] | _ => [] end.
Definition is_head (o : tout) : list pkt := match o with OHead p => [p] | _ => [] end.
Definition is_debit (o : tout) : list pkt := match o with ODebit p => [p] | _ => [] end.
Definition is_fwd (o : tout) : list pkt := match o with OForward p => [p] | _ => [] end.
Definition ev_outs (f : tout -> list pkt) (e : tev) : list (Q * pkt) :=
  let '(t, _, outs) := e in map (fun p => (t, p)) (flat_map f outs).

(* timed arrivals (put() calls), head instants, debit instants, departures of a trace *)
Definition puts (h : list tev) : list (Q * pkt) := flat_map ev_puts h.
Definition heads (h : list tev) : list (Q * pkt) := flat_map (ev_outs is_head) h.
Definition debits (h : list tev) : list (Q * pkt) := flat_map (ev_outs is_debit) h.
Definition fwds (h : list tev) : list (Q * pkt) := flat_map (ev_outs is_fwd) h.

Lemma flat_map_snoc {A B} (f : A -> list B) l x : flat_map f (l ++ [x]) = flat_map f l ++ f x.
Proof. rewrite flat_map_app. cbn. rewrite app_nil_r. reflexivity. Qed.

Lemma puts_snoc h t a outs : puts (h ++ [(t, a, outs)]) = puts h ++ match a with TPut p => [(t, p)] | _ => [] end.
Proof. unfold puts. rewrite flat_map_snoc. reflexivity. Qed.
Lemma heads_snoc h t (a : taction) outs : heads (h ++ [(t, a, outs)]) = heads h ++ map (fun p => (t, p)) (flat_map is_head outs).
Proof. unfold heads. rewrite flat_map_snoc. reflexivity. Qed.
Lemma debits_snoc h t (a : taction) outs : debits (h ++ [(t, a, outs)]) = debits h ++ map (fun p => (t, p)) (flat_map is_debit outs).
Proof. unfold debits. rewrite flat_map_snoc. reflexivity. Qed.
Lemma fwds_snoc h t (a : taction) outs : fwds (h ++ [(t, a, outs)]) = fwds h ++ map (fun p => (t, p)) (flat_map is_fwd outs).
Proof. unfold fwds. rewrite flat_map_snoc. reflexivity. Qed.

Lemma sv_arr_snoc R o : sv_arr (R ++ [o]) = sv_arr R ++ [(v_arr o, v_pkt o)].
Proof. unfold sv_arr. rewrite map_app. reflexivity. Qed.
Lemma sv_head_snoc R o : sv_head (R ++ [o]) = sv_head R ++ [(v_head o, v_pkt o)].
Proof. unfold sv_head. rewrite map_app. reflexivity. Qed.
Lemma sv_debit_snoc R o : sv_debit (R ++ [o]) = sv_debit R ++ [(v_debit o, v_pkt o)].
Proof. unfold sv_debit. rewrite map_app. reflexivity. Qed.
Lemma sv_dep_snoc R o : sv_dep (R ++ [o]) = sv_dep R ++ [(v_dep o, v_pkt o)].
Proof. unfold sv_dep. rewrite map_app. reflexivity. Qed.

Lemma some_pair_inv {A B : Type} (a a' : A) (b b' : B) : Some (a, b) = Some (a', b') -> a = a' /\ b = b'.
Proof. intros H. inversion H. auto. Qed.

Lemma Qmax_now a F n : a <= n -> F <= n -> (a == n \/ F == n) -> n == Qmax a F.
Proof.
  intros Ha HF H. destruct (Q.max_spec a F) as [[Hlt E]|[Hle E]]; rewrite E; destruct H as [H|H]; lra.
Qed.

(* ---------------------------------------------------------------------------------------------- *)
(* shape of the server's moves                                                                     *)

Lemma tb_forward_inv s p s' o :
  tb_forward s p = Some (s', o) ->
  o = [OForward p] /\ tnow s' = tnow s /\ tstarted s' = tstarted s /\ level s' = level s /\ utime s' = utime s /\
  phase s' = PIdle /\ nrecv s' = nrecv s /\ nsent s' = (nsent s + 1)%Z /\ sq_get fifo_pop (tq s) = Some (tq s').
Proof.
  unfold tb_forward. destruct (sq_get fifo_pop (tq s)) as [q|] eqn:E; [|discriminate].
  intros H. injection H as <- <-. cbn. repeat split; reflexivity.
Qed.

Lemma tb_after_debit_inv c s p s' o :
  tb_after_debit c s p = Some (s', o) ->
  (exists k, peak_on c = Some k /\ 0 <= spacing k (sz p) /\ o = [] /\
     s' = {| tnow := tnow s; tq := tq s; tstarted := tstarted s; level := level s; utime := utime s;
             phase := PPeak p (Qred (tnow s + spacing k (sz p))); nrecv := nrecv s; nsent := nsent s |})
  \/ (peak_on c = None /\ tb_forward s p = Some (s', o)).
Proof.
  unfold tb_after_debit. destruct (peak_on c) as [k|].
  - destruct (Qlt_le_dec (spacing k (sz p)) 0) as [Hn|Hn]; [discriminate|].
    intros H. injection H as <- <-. left. exists k. repeat split; auto.
  - intros H. right. auto.
Qed.

Lemma tb_act_now_mono c s a s' outs : tb_act c s a = Some (s', outs) -> tnow s <= tnow s'.
Proof.
  destruct a as [p| | | | |t]; cbn [tb_act]; intros H.
  - injection H as <- _. cbn. apply Qle_refl.
  - destruct (tstarted s); [discriminate|]. destruct (sq_get fifo_pop (tq s)); [|discriminate].
    injection H as <- _. cbn. apply Qle_refl.
  - destruct (sq_cb fifo_pop (tq s)); [|discriminate]. injection H as <- _. cbn. apply Qle_refl.
  - destruct (phase s); try discriminate. destruct (sq_take (tq s)) as [[[a0 p] q]|]; [|discriminate].
    destruct (negb (tstarted s)); [discriminate|].
    destruct (Qlt_le_dec _ _).
    + injection H as <- _. cbn. apply Qle_refl.
    + destruct (tb_after_debit _ _ _) as [[s2 o]|] eqn:E; [|discriminate]. injection H as <- _.
      apply tb_after_debit_inv in E as [(k & _ & _ & _ & ->)|(_ & E)]; [cbn; apply Qle_refl|].
      apply tb_forward_inv in E as (_ & -> & _). cbn. apply Qle_refl.
  - destruct (phase s) as [|p dl|p dl]; [discriminate| |].
    + destruct (Qeq_bool dl (tnow s)); [|discriminate].
      destruct (tb_after_debit _ _ _) as [[s2 o]|] eqn:E; [|discriminate]. injection H as <- _.
      apply tb_after_debit_inv in E as [(k & _ & _ & _ & ->)|(_ & E)]; [cbn; apply Qle_refl|].
      apply tb_forward_inv in E as (_ & -> & _). cbn. apply Qle_refl.
    + destruct (Qeq_bool dl (tnow s)); [|discriminate].
      apply tb_forward_inv in H as (_ & -> & _). cbn. apply Qle_refl.
  - destruct (tb_urgent s); [discriminate|]. destruct (Qlt_le_dec (tnow s) t) as [Hlt|]; [|discriminate].
    destruct (phase s) as [|p dl|p dl]; [|destruct (Qle_bool t dl); [|discriminate]..]; injection H as <- _; cbn; lra.
Qed.

(* ---------------------------------------------------------------------------------------------- *)
(* the invariant                                                                                    *)
Section Invariant.
  Variable c : tbcfg.
  Variable t0 : Q.
  Hypothesis Hr : 0 < rate c.

  Definition LL (R : list svc) : Q := lastL (bsize c) R.
  Definition UU (R : list svc) : Q := lastU t0 R.
  Definition FF (R : list svc) : Q := lastF t0 R.

  (* between packets: (I2) freshness, (I3) a granted packet is taken in the instant it was granted *)
  Definition idle_inv (s : tb) (R : list svc) : Prop :=
    if tstarted s then
      FF R <= tnow s /\ sq_fresh (tnow s) (tq s) /\ get (tq s) <> GNone /\
      (forall x, get (tq s) = GGranted x -> fst x == tnow s \/ FF R == tnow s)
    else get (tq s) = GNone /\ R = [] /\ tnow s == t0.

  Definition phase_inv (s : tb) (h : list tev) (R : list svc) : Prop :=
    match phase s with
    | PIdle =>
        tpe (debits h) (sv_debit R) /\ tpe (fwds h) (sv_dep R) /\
        level s == LL R /\ utime s == UU R /\ idle_inv s R
    | PTok p dl =>
        tstarted s = true /\ get (tq s) = GNone /\ tnow s <= dl /\
        exists R' o, R = R' ++ [o] /\ v_pkt o = p /\ v_debit o == dl /\ v_lvl o < vsize o /\
                     level s == v_lvl o /\ utime s == v_head o /\
                     tpe (debits h) (sv_debit R') /\ tpe (fwds h) (sv_dep R')
    | PPeak p dl =>
        tstarted s = true /\ get (tq s) = GNone /\ tnow s <= dl /\
        level s == LL R /\ utime s == UU R /\ tpe (debits h) (sv_debit R) /\
        exists R' o, R = R' ++ [o] /\ v_pkt o = p /\ v_dep o == dl /\ tpe (fwds h) (sv_dep R')
    end.

  Record Inv (s : tb) (h : list tev) (R : list svc) : Prop := {
    inv_chain : chain c (bsize c) t0 t0 R;                    (* the recurrence, one service per TGet *)
    inv_fifo : puts h = sv_arr R ++ sq_held (tq s);           (* (I4) taken ++ held = put, in order *)
    inv_nostrand : sq_nostrand (tq s);                        (* (I1) *)
    inv_stamped : sq_stamped (tnow s) (tq s);
    inv_heads : tpe (heads h) (sv_head R);                    (* k-th head instant is h_k *)
    inv_ut : utime s <= tnow s;
    inv_t0 : t0 <= tnow s;
    inv_recv : nrecv s = Z.of_nat (length (puts h));
    inv_sent : nsent s = Z.of_nat (length (fwds h));
    inv_phase : phase_inv s h R
  }.

  Lemma Inv_init : Inv (tb0 true c t0) [] [].
  Proof.
    constructor; cbn.
    - exact I.
    - reflexivity.
    - apply sq_nostrand_init.
    - constructor.
    - constructor.
    - lra.
    - lra.
    - reflexivity.
    - reflexivity.
    - unfold phase_inv, idle_inv; cbn. split; [constructor|]. split; [constructor|].
      unfold LL, UU, lastL, lastU; cbn. split; [reflexivity|]. split; [reflexivity|].
      split; [reflexivity|]. split; reflexivity.
  Qed.

  Ltac trace_snoc :=
    rewrite ?puts_snoc, ?heads_snoc, ?debits_snoc, ?fwds_snoc;
    cbn [flat_map map app is_head is_debit is_fwd]; rewrite ?app_nil_r.

  Lemma idle_after_forward s1 s2 p o R :
    tstarted s1 = true -> tb_forward s1 p = Some (s2, o) -> FF R == tnow s1 -> idle_inv s2 R.
  Proof.
    intros Hs Hf HF. apply tb_forward_inv in Hf as (_ & En & Es & _ & _ & _ & _ & _ & Hq).
    unfold idle_inv. rewrite Es, Hs, En. split; [lra|]. split; [eapply sq_fresh_get; eauto|].
    split; [eapply sq_get_not_none; eauto|]. intros x _. right. exact HF.
  Qed.

  Lemma step_put s h R p s' outs :
    Inv s h R -> tb_act c s (TPut p) = Some (s', outs) -> Inv s' (h ++ [(tnow s', TPut p, outs)]) R.
  Proof.
    intros [C Ff N S Hh Ut T0 Rc Sn P] H. cbn [tb_act] in H. injection H as <- <-.
    constructor; cbn [tnow tq utime nrecv nsent]; trace_snoc.
    - exact C.
    - rewrite Ff, fifo_held_put, app_assoc. reflexivity.
    - apply sq_nostrand_put.
    - apply sq_stamped_put. exact S.
    - exact Hh.
    - exact Ut.
    - exact T0.
    - rewrite app_length, Nat2Z.inj_add, <- Rc. reflexivity.
    - exact Sn.
    - unfold phase_inv, idle_inv in *. cbn [phase tstarted tq tnow level utime]. trace_snoc.
      destruct (phase s) as [|q dl|q dl]; [|exact P|exact P].
      destruct P as (P1 & P2 & P3 & P4 & P5). repeat (split; [assumption|]).
      destruct (tstarted s); [|exact P5].
      destruct P5 as (Q1 & Q2 & Q3 & Q4). repeat split; auto. apply sq_fresh_put. exact Q2.
  Qed.

  Lemma step_cb s h R s' outs :
    Inv s h R -> tb_act c s TStoreCb = Some (s', outs) -> Inv s' (h ++ [(tnow s', TStoreCb, outs)]) R.
  Proof.
    intros [C Ff N S Hh Ut T0 Rc Sn P] H. cbn [tb_act] in H.
    destruct (sq_cb fifo_pop (tq s)) as [q|] eqn:E; [|discriminate]. injection H as <- <-.
    constructor; cbn [tnow tq utime nrecv nsent]; trace_snoc.
    - exact C.
    - rewrite (fifo_held_cb _ _ _ E). exact Ff.
    - eapply fifo_nostrand_cb; eauto.
    - eapply sq_stamped_cb; eauto.
    - exact Hh.
    - exact Ut.
    - exact T0.
    - exact Rc.
    - exact Sn.
    - unfold phase_inv, idle_inv in *. cbn [phase tstarted tq tnow level utime]. trace_snoc.
      destruct (phase s) as [|p dl|p dl].
      + destruct P as (P1 & P2 & P3 & P4 & P5). repeat (split; [assumption|]).
        destruct (tstarted s).
        * destruct P5 as (Q1 & Q2 & Q3 & Q4). split; [exact Q1|]. split; [eapply sq_fresh_cb; eauto|]. split.
          -- intros G. apply Q3. apply (sq_cb_get_none _ _ _ _ E). exact G.
          -- intros x Gx. destruct (fifo_cb_inv _ _ _ E) as (_ & [(W & y & Ei & Gy)|(_ & _ & Gs)]).
             ++ left. rewrite (sq_cb_grants_fresh _ _ _ _ x E Q2 W Gx). reflexivity.
             ++ apply Q4. rewrite <- Gs. exact Gx.
        * destruct P5 as (Q1 & Q2 & Q3). repeat split; auto. apply (sq_cb_get_none _ _ _ _ E). exact Q1.
      + destruct P as (P1 & P2 & P3). split; [exact P1|]. split; [|exact P3].
        apply (sq_cb_get_none _ _ _ _ E). exact P2.
      + destruct P as (P1 & P2 & P3). split; [exact P1|]. split; [|exact P3].
        apply (sq_cb_get_none _ _ _ _ E). exact P2.
  Qed.

  Lemma step_init s h R s' outs :
    Inv s h R -> tb_act c s TInit = Some (s', outs) -> Inv s' (h ++ [(tnow s', TInit, outs)]) R.
  Proof.
    intros [C Ff N S Hh Ut T0 Rc Sn P] H. cbn [tb_act] in H.
    destruct (tstarted s) eqn:Es; [discriminate|].
    destruct (sq_get fifo_pop (tq s)) as [q|] eqn:E; [|discriminate]. injection H as <- <-.
    constructor; cbn [tnow tq utime nrecv nsent]; trace_snoc.
    - exact C.
    - rewrite (fifo_held_get _ _ _ E). exact Ff.
    - eapply fifo_nostrand_get; eauto.
    - eapply sq_stamped_get; eauto.
    - exact Hh.
    - exact Ut.
    - exact T0.
    - exact Rc.
    - exact Sn.
    - unfold phase_inv, idle_inv in *. cbn [phase tstarted tq tnow level utime]. trace_snoc.
      rewrite Es in P.
      destruct (phase s) as [|p dl|p dl]; [|destruct P as (P & _); discriminate..].
      destruct P as (P1 & P2 & P3 & P4 & Q1 & -> & Q3). repeat (split; [assumption|]).
      split; [eapply sq_fresh_get; eauto|].
      split; [eapply sq_get_not_none; eauto|]. intros x _. right. unfold FF, lastF; cbn [fold_left]. lra.
  Qed.

  Lemma step_adv s h R t s' outs :
    Inv s h R -> tb_act c s (TAdvance t) = Some (s', outs) -> Inv s' (h ++ [(tnow s', TAdvance t, outs)]) R.
  Proof.
    intros [C Ff N S Hh Ut T0 Rc Sn P] H. cbn [tb_act] in H.
    destruct (tb_urgent s) eqn:U; [discriminate|].
    destruct (Qlt_le_dec (tnow s) t) as [Hlt|]; [|discriminate].
    unfold tb_urgent in U. apply orb_false_iff in U as [U Ud]. apply orb_false_iff in U as [Us Uq].
    apply negb_false_iff in Us.
    assert (Hs' : s' = {| tnow := t; tq := tq s; tstarted := tstarted s; level := level s; utime := utime s;
                         phase := phase s; nrecv := nrecv s; nsent := nsent s |} /\ outs = [] /\
                  match phase s with PIdle => True | PTok _ dl => t <= dl | PPeak _ dl => t <= dl end).
    { destruct (phase s) as [|p dl|p dl].
      - injection H as <- <-. auto.
      - destruct (Qle_bool t dl) eqn:El; [|discriminate]. injection H as <- <-. apply Qle_bool_iff in El. auto.
      - destruct (Qle_bool t dl) eqn:El; [|discriminate]. injection H as <- <-. apply Qle_bool_iff in El. auto. }
    clear H. destruct Hs' as (-> & -> & Hdl).
    constructor; cbn [tnow tq utime nrecv nsent]; trace_snoc.
    - exact C.
    - exact Ff.
    - exact N.
    - eapply sq_stamped_mono; [|exact S]. lra.
    - exact Hh.
    - lra.
    - lra.
    - exact Rc.
    - exact Sn.
    - unfold phase_inv, idle_inv in *. cbn [phase tstarted tq tnow level utime]. trace_snoc.
      destruct (phase s) as [|p dl|p dl].
      + destruct P as (P1 & P2 & P3 & P4 & P5). repeat (split; [assumption|]). rewrite Us in *.
        destruct P5 as (Q1 & Q2 & Q3 & Q4). split; [lra|]. split; [apply sq_fresh_advance; auto|].
        split; [exact Q3|]. intros x Gx. exfalso.
        apply sq_urgent_false in Uq as [_ Ug]. apply (Ug x). exact Gx.
      + destruct P as (P1 & P2 & P3 & P4). split; [exact P1|]. split; [exact P2|]. split; [exact Hdl|exact P4].
      + destruct P as (P1 & P2 & P3 & P4). split; [exact P1|]. split; [exact P2|]. split; [exact Hdl|exact P4].
  Qed.

  Lemma chain_last R' o : chain c (bsize c) t0 t0 (R' ++ [o]) -> step_ok c (LL R') (UU R') (FF R') o.
  Proof. intros H. apply chain_app_r in H. cbn [chain] in H. apply H. Qed.

  Lemma gap_peak k size : peak_on c = Some k -> gap c size = spacing k size.
  Proof. intros E. unfold gap. rewrite E. reflexivity. Qed.
  Lemma gap_nopeak size : peak_on c = None -> gap c size = 0.
  Proof. intros E. unfold gap. rewrite E. reflexivity. Qed.

  Lemma step_timer s h R s' outs :
    Inv s h R -> tb_act c s TTimer = Some (s', outs) -> Inv s' (h ++ [(tnow s', TTimer, outs)]) R.
  Proof.
    intros [C Ff N S Hh Ut T0 Rc Sn P] H. cbn [tb_act] in H. unfold phase_inv in P.
    destruct (phase s) as [|p dl|p dl] eqn:Eph; [discriminate| |].
    - (* the token wait ends *)
      destruct (Qeq_bool dl (tnow s)) eqn:Edl; [|discriminate]. apply Qeq_bool_eq in Edl.
      destruct (tb_after_debit _ _ _) as [[s2 o2]|] eqn:E; [|discriminate]. injection H as <- <-.
      destruct P as (Ps & Pg & Pn & R' & o & -> & Po & Pd & Pw & Pl & Pu & Pdb & Pfw).
      pose proof (chain_last _ _ C) as (K1 & K2 & K3 & K4 & K5).
      apply tb_after_debit_inv in E as [(k & Ek & Hk & -> & ->)|(Ek & E)]; cbn [tnow tq tstarted level utime phase nrecv nsent] in *.
      + constructor; cbn [tnow tq utime nrecv nsent]; trace_snoc.
        * exact C.
        * exact Ff.
        * exact N.
        * exact S.
        * exact Hh.
        * lra.
        * exact T0.
        * exact Rc.
        * exact Sn.
        * unfold phase_inv. cbn [phase tstarted tq tnow level utime]. trace_snoc.
          split; [exact Ps|]. split; [exact Pg|]. split; [rewrite Qred_correct; lra|].
          unfold LL, UU. rewrite lastL_snoc, lastU_snoc. unfold vpost. rewrite (post_wait _ _ Pw).
          split; [reflexivity|]. split; [lra|]. split.
          -- rewrite sv_debit_snoc, Po. apply tpe_snoc; [exact Pdb|lra].
          -- exists R', o. split; [reflexivity|]. split; [exact Po|]. split; [|exact Pfw].
             rewrite Qred_correct, K5, (gap_peak _ _ Ek). unfold vsize. rewrite Po. lra.
      + pose proof (tb_forward_inv _ _ _ _ E) as (-> & En & Es & El & Eu & Ep & Er & Esn & Hq).
        cbn [tnow tq tstarted level utime phase nrecv nsent] in *.
        assert (Hdep : v_dep o == tnow s).
        { rewrite K5, (gap_nopeak _ Ek). lra. }
        constructor; rewrite ?En, ?Eu, ?Er, ?Esn; trace_snoc.
        * exact C.
        * rewrite (fifo_held_get _ _ _ Hq). exact Ff.
        * eapply fifo_nostrand_get; eauto.
        * eapply sq_stamped_get; eauto.
        * exact Hh.
        * lra.
        * exact T0.
        * exact Rc.
        * rewrite app_length, Nat2Z.inj_add, <- Sn. reflexivity.
        * unfold phase_inv. rewrite ?Ep, ?El, ?Eu, ?En. trace_snoc.
          split; [rewrite sv_debit_snoc, Po; apply tpe_snoc; [exact Pdb|lra]|].
          split; [rewrite sv_dep_snoc, Po; apply tpe_snoc; [exact Pfw|lra]|].
          unfold LL, UU. rewrite lastL_snoc, lastU_snoc. unfold vpost. rewrite (post_wait _ _ Pw).
          split; [reflexivity|]. split; [lra|].
          eapply idle_after_forward; [|exact E|]; cbn [tstarted tnow]; [exact Ps|].
          unfold FF. rewrite lastF_snoc. exact Hdep.
    - (* the peak spacing ends *)
      destruct (Qeq_bool dl (tnow s)) eqn:Edl; [|discriminate]. apply Qeq_bool_eq in Edl.
      destruct P as (Ps & Pg & Pn & Pl & Pu & Pdb & R' & o & -> & Po & Pd & Pfw).
      pose proof (tb_forward_inv _ _ _ _ H) as (-> & En & Es & El & Eu & Ep & Er & Esn & Hq).
      cbn [tnow tq tstarted level utime phase nrecv nsent] in *.
      constructor; rewrite ?En, ?Eu, ?Er, ?Esn; trace_snoc.
      + exact C.
      + rewrite (fifo_held_get _ _ _ Hq). exact Ff.
      + eapply fifo_nostrand_get; eauto.
      + eapply sq_stamped_get; eauto.
      + exact Hh.
      + exact Ut.
      + exact T0.
      + exact Rc.
      + rewrite app_length, Nat2Z.inj_add, <- Sn. reflexivity.
      + unfold phase_inv. rewrite ?Ep, ?El, ?Eu, ?En. trace_snoc.
        split; [exact Pdb|].
        split; [rewrite sv_dep_snoc, Po; apply tpe_snoc; [exact Pfw|lra]|].
        split; [exact Pl|]. split; [exact Pu|].
        eapply idle_after_forward; [|exact H|]; cbn [tstarted tnow]; [exact Ps|].
        unfold FF. rewrite lastF_snoc. lra.
  Qed.

  Lemma step_get s h R s' outs :
    Inv s h R -> tb_act c s TGet = Some (s', outs) ->
    exists o, Inv s' (h ++ [(tnow s', TGet, outs)]) (R ++ [o]).
  Proof.
    intros [C Ff N S Hh Ut T0 Rc Sn P] H. unfold tb_act in H. unfold phase_inv in P.
    destruct (phase s) as [|p0 dl0|p0 dl0] eqn:Eph; try discriminate.
    destruct (sq_take (tq s)) as [[[a0 p] q]|] eqn:Et; [|discriminate].
    destruct (negb (tstarted s)) eqn:Es; [discriminate|]. apply negb_false_iff in Es.
    destruct P as (Pdb & Pfw & Pl & Pu & Pi). unfold idle_inv in Pi. rewrite Es in Pi.
    destruct Pi as (PF & Pfr & Pg & Px).
    pose proof (sq_take_inv _ _ _ _ Et) as (Gx & Ei & Ep & Gn).
    pose proof (sq_stamped_take _ _ _ _ _ Et S) as [Ha Sq]. cbn [fst] in Ha.
    assert (Hs : tnow s == Qmax a0 (FF R)).
    { apply Qmax_now; auto. destruct (Px _ Gx) as [X|X]; [left|right]; exact X. }
    assert (Hheld : sq_held (tq s) = (a0, p) :: sq_held q) by (eapply fifo_held_take; eauto).
    assert (Nq : sq_nostrand q) by (eapply fifo_nostrand_take; eauto).
    set (hd := Qmax a0 (FF R)) in *.
    set (lv := refill (bsize c) (rate c) (LL R) (UU R) hd).
    set (db := release (rate c) hd lv (sz p)).
    set (o := {| v_pkt := p; v_arr := a0; v_head := hd; v_lvl := lv; v_debit := db; v_dep := db + gap c (sz p) |}).
    assert (Hok : step_ok c (LL R) (UU R) (FF R) o).
    { unfold step_ok, vsize; cbn [v_pkt v_arr v_head v_lvl v_debit v_dep o].
      split; [reflexivity|]. split; [lra|]. repeat split; reflexivity. }
    assert (HC : chain c (bsize c) t0 t0 (R ++ [o])) by (apply chain_snoc; assumption).
    assert (Hlv : Qred (refill (bsize c) (rate c) (level s) (utime s) (tnow s)) == lv).
    { rewrite Qred_correct. apply refill_compat; assumption. }
    exists o.
    destruct (Qlt_le_dec (Qred (refill (bsize c) (rate c) (level s) (utime s) (tnow s))) (sz p)) as [Hw|Hw].
    - (* wait for the missing tokens *)
      apply some_pair_inv in H as [<- <-].
      assert (Hlw : lv < sz p) by lra.
      constructor; cbn [tnow tq utime nrecv nsent]; trace_snoc.
      + exact HC.
      + rewrite Ff, Hheld, sv_arr_snoc. cbn [v_arr v_pkt o]. rewrite <- app_assoc. reflexivity.
      + exact Nq.
      + exact Sq.
      + rewrite sv_head_snoc. cbn [v_head v_pkt o]. apply tpe_snoc; [exact Hh|exact Hs].
      + lra.
      + exact T0.
      + exact Rc.
      + exact Sn.
      + unfold phase_inv. cbn [phase tstarted tq tnow level utime]. trace_snoc.
        split; [exact Es|]. split; [exact Gn|].
        pose proof (tokwait_pos (rate c) (sz p) _ Hr Hw) as Hp.
        split; [rewrite Qred_correct; lra|].
        exists R, o. split; [reflexivity|]. split; [reflexivity|]. unfold vsize. cbn [v_pkt v_debit v_lvl v_head o].
        split; [|split; [exact Hlw|split; [exact Hlv|split; [exact Hs|split; assumption]]]].
        unfold db. rewrite (release_wait _ _ _ _ Hlw), Qred_correct. rewrite Hlv, Hs. reflexivity.
    - (* enough tokens: debit at once *)
      destruct (tb_after_debit _ _ _) as [[s2 o2]|] eqn:E; [|discriminate]. injection H as <- <-.
      assert (Hlw : sz p <= lv) by lra.
      assert (Hdb : db == tnow s) by (unfold db; rewrite (release_nowait _ _ _ _ Hlw); lra).
      assert (Hpost : Qred (Qred (refill (bsize c) (rate c) (level s) (utime s) (tnow s)) - sz p) == vpost o).
      { unfold vpost, vsize. cbn [v_pkt v_lvl o]. rewrite (post_nowait _ _ Hlw), Qred_correct, Hlv. reflexivity. }
      apply tb_after_debit_inv in E as [(k & Ek & Hk & -> & ->)|(Ek & E)]; cbn [tnow tq tstarted level utime phase nrecv nsent] in *.
      + constructor; cbn [tnow tq utime nrecv nsent]; trace_snoc.
        * exact HC.
        * rewrite Ff, Hheld, sv_arr_snoc. cbn [v_arr v_pkt o]. rewrite <- app_assoc. reflexivity.
        * exact Nq.
        * exact Sq.
        * rewrite sv_head_snoc. cbn [v_head v_pkt o]. apply tpe_snoc; [exact Hh|exact Hs].
        * lra.
        * exact T0.
        * exact Rc.
        * exact Sn.
        * unfold phase_inv. cbn [phase tstarted tq tnow level utime]. trace_snoc.
          split; [exact Es|]. split; [exact Gn|]. split; [rewrite Qred_correct; lra|].
          unfold LL, UU. rewrite lastL_snoc, lastU_snoc. cbn [v_debit o].
          split; [exact Hpost|]. split; [lra|]. split.
          -- rewrite sv_debit_snoc. cbn [v_debit v_pkt o]. apply tpe_snoc; [exact Pdb|lra].
          -- exists R, o. split; [reflexivity|]. split; [reflexivity|]. split; [|exact Pfw].
             cbn [v_dep o]. rewrite Qred_correct, (gap_peak _ _ Ek), Hdb. reflexivity.
      + pose proof (tb_forward_inv _ _ _ _ E) as (-> & En & Est & El & Eu & Eph2 & Er & Esn & Hq).
        cbn [tnow tq tstarted level utime phase nrecv nsent] in *.
        assert (Hdep : v_dep o == tnow s).
        { cbn [v_dep o]. rewrite (gap_nopeak _ Ek). lra. }
        constructor; rewrite ?En, ?Eu, ?Er, ?Esn; trace_snoc.
        * exact HC.
        * rewrite (fifo_held_get _ _ _ Hq). rewrite Ff, Hheld, sv_arr_snoc. cbn [v_arr v_pkt o].
          rewrite <- app_assoc. reflexivity.
        * eapply fifo_nostrand_get; eauto.
        * eapply sq_stamped_get; eauto.
        * rewrite sv_head_snoc. cbn [v_head v_pkt o]. apply tpe_snoc; [exact Hh|exact Hs].
        * lra.
        * exact T0.
        * exact Rc.
        * rewrite app_length, Nat2Z.inj_add, <- Sn. reflexivity.
        * unfold phase_inv. rewrite ?Eph2, ?El, ?Eu, ?En. trace_snoc.
          split; [rewrite sv_debit_snoc; cbn [v_debit v_pkt o]; apply tpe_snoc; [exact Pdb|lra]|].
          split; [rewrite sv_dep_snoc; apply tpe_snoc; [exact Pfw|lra]|].
          unfold LL, UU. rewrite lastL_snoc, lastU_snoc. cbn [v_debit o].
          split; [exact Hpost|]. split; [lra|].
          eapply idle_after_forward; [|exact E|]; cbn [tstarted tnow]; [exact Es|].
          unfold FF. rewrite lastF_snoc. exact Hdep.
  Qed.

  Lemma step_inv s h R a s' outs :
    Inv s h R -> tb_act c s a = Some (s', outs) -> exists R', Inv s' (h ++ [(tnow s', a, outs)]) R'.
  Proof.
    intros HI H. destruct a as [p| | | | |t].
    - exists R. eapply step_put; eauto.
    - exists R. eapply step_init; eauto.
    - exists R. eapply step_cb; eauto.
    - destruct (step_get _ _ _ _ _ HI H) as [o Ho]. exists (R ++ [o]). exact Ho.
    - exists R. eapply step_timer; eauto.
    - exists R. eapply step_adv; eauto.
  Qed.

  Lemma run_inv : forall acts s h R s' tr,
    Inv s h R -> tb_run c s acts = Some (s', tr) -> exists R', Inv s' (h ++ tr) R'.
  Proof.
    induction acts as [|a acts IH]; intros s h R s' tr HI H; cbn [tb_run] in H.
    - injection H as <- <-. rewrite app_nil_r. exists R. exact HI.
    - destruct (tb_act c s a) as [[s1 outs]|] eqn:Ea; [|discriminate].
      destruct (tb_run c s1 acts) as [[s2 tr1]|] eqn:Er; [|discriminate].
      injection H as <- <-.
      destruct (step_inv _ _ _ _ _ _ HI Ea) as [R1 HI1].
      destruct (IH _ _ _ _ _ HI1 Er) as [R2 HI2].
      exists R2. rewrite <- app_assoc in HI2. exact HI2.
  Qed.

  Theorem reachable_inv acts s tr :
    tb_run c (tb0 true c t0) acts = Some (s, tr) -> exists R, Inv s tr R.
  Proof. intros H. apply (run_inv acts (tb0 true c t0) [] [] s tr Inv_init H). Qed.
End Invariant.

(* ---------------------------------------------------------------------------------------------- *)
(* the theorems                                                                                     *)

(* the timed events of the trace are the recurrence's, in order, minus at most the debit and/or the
   departure of the packet in service, whose stored deadline is the recurrence's instant *)
Definition tb_matches (s : tb) (tr : list tev) (R : list svc) : Prop :=
  tpe (heads tr) (sv_head R) /\
  match phase s with
  | PIdle => tpe (debits tr) (sv_debit R) /\ tpe (fwds tr) (sv_dep R)
  | PTok p dl =>
      exists R' o, R = R' ++ [o] /\ v_pkt o = p /\ v_debit o == dl /\ tnow s <= dl /\
                   tpe (debits tr) (sv_debit R') /\ tpe (fwds tr) (sv_dep R')
  | PPeak p dl =>
      exists R' o, R = R' ++ [o] /\ v_pkt o = p /\ v_dep o == dl /\ tnow s <= dl /\
                   tpe (debits tr) (sv_debit R) /\ tpe (fwds tr) (sv_dep R')
  end.

Lemma Inv_matches c t0 s tr R : Inv c t0 s tr R -> tb_matches s tr R.
Proof.
  intros HI. pose proof (inv_phase _ _ _ _ _ HI) as P. unfold phase_inv in P. unfold tb_matches.
  split; [apply (inv_heads _ _ _ _ _ HI)|].
  destruct (phase s) as [|p dl|p dl].
  - destruct P as (P1 & P2 & _). auto.
  - destruct P as (_ & _ & Pn & R' & o & E & Po & Pd & _ & _ & _ & Pdb & Pfw). exists R', o. auto 10.
  - destruct P as (_ & _ & Pn & _ & _ & Pdb & R' & o & E & Po & Pd & Pfw). exists R', o. auto 10.
Qed.

(* THE RECURRENCE: every admissible execution is an instance of the property's recurrence *)
Theorem tb_spec c t0 acts s tr :
  0 < rate c -> tb_run c (tb0 true c t0) acts = Some (s, tr) ->
  exists R, chain c (bsize c) t0 t0 R              (* h_k, lvl_k, debit_k, departure_k follow the recurrence *)
    /\ puts tr = sv_arr R ++ sq_held (tq s)         (* the k-th service concerns the k-th arrival; the rest is held *)
    /\ tb_matches s tr R.
Proof.
  intros Hr H. destruct (reachable_inv c t0 Hr _ _ _ H) as [R HI]. exists R.
  split; [apply (inv_chain _ _ _ _ _ HI)|]. split; [apply (inv_fifo _ _ _ _ _ HI)|].
  eapply Inv_matches; eauto.
Qed.

(* the debits / departures seen so far are those of a prefix of the services *)
Lemma matches_debits s tr R : tb_matches s tr R -> exists R1 R2, R = R1 ++ R2 /\ tpe (debits tr) (sv_debit R1).
Proof.
  intros [_ M]. destruct (phase s) as [|p dl|p dl].
  - exists R, []. rewrite app_nil_r. tauto.
  - destruct M as (R' & o & -> & _ & _ & _ & M & _). exists R', [o]. auto.
  - destruct M as (R' & o & -> & _ & _ & _ & M & _). exists (R' ++ [o]), []. rewrite app_nil_r. auto.
Qed.

Lemma matches_fwds s tr R : tb_matches s tr R -> exists R1 R2, R = R1 ++ R2 /\ tpe (fwds tr) (sv_dep R1).
Proof.
  intros [_ M]. destruct (phase s) as [|p dl|p dl].
  - exists R, []. rewrite app_nil_r. tauto.
  - destruct M as (R' & o & -> & _ & _ & _ & _ & M). exists R', [o]. auto.
  - destruct M as (R' & o & -> & _ & _ & _ & _ & M). exists R', [o]. auto.
Qed.

(* ---- lists ---- *)
Definition pbytes (l : list pkt) : Q := fold_right (fun p acc => sz p + acc) 0 l.
(* bytes carried by timed packets *)
Definition bytes (l : list (Q * pkt)) : Q := pbytes (map snd l).
Definition sbytes (R : list svc) : Q := pbytes (map v_pkt R).
(* elements i..j (inclusive) *)
Definition slice {A : Type} (i j : nat) (l : list A) : list A := firstn (S j - i) (skipn i l).

Lemma slice_map {A B} (f : A -> B) i j l : slice i j (map f l) = map f (slice i j l).
Proof. unfold slice. rewrite skipn_map, firstn_map. reflexivity. Qed.

Lemma slice_app_l {A} i j (l1 l2 : list A) : (j < length l1)%nat -> slice i j (l1 ++ l2) = slice i j l1.
Proof.
  intros Hj. unfold slice. rewrite skipn_app, firstn_app.
  replace (S j - i - length (skipn i l1))%nat with 0%nat by (rewrite skipn_length; lia).
  cbn [firstn]. rewrite app_nil_r. reflexivity.
Qed.

Lemma nth_error_app_l {A} (l1 l2 : list A) k x : nth_error l1 k = Some x -> nth_error (l1 ++ l2) k = Some x.
Proof. intros H. rewrite nth_error_app1; [exact H|]. apply nth_error_Some. congruence. Qed.

Lemma sv_debit_nth R k t p : nth_error (sv_debit R) k = Some (t, p) ->
  exists o, nth_error R k = Some o /\ v_debit o = t /\ v_pkt o = p.
Proof.
  unfold sv_debit. rewrite nth_error_map. destruct (nth_error R k) as [o|]; [|discriminate].
  cbn. intros H. injection H as <- <-. eauto.
Qed.
Lemma sv_dep_nth R k t p : nth_error (sv_dep R) k = Some (t, p) ->
  exists o, nth_error R k = Some o /\ v_dep o = t /\ v_pkt o = p.
Proof.
  unfold sv_dep. rewrite nth_error_map. destruct (nth_error R k) as [o|]; [|discriminate].
  cbn. intros H. injection H as <- <-. eauto.
Qed.
Lemma sv_head_nth R k t p : nth_error (sv_head R) k = Some (t, p) ->
  exists o, nth_error R k = Some o /\ v_head o = t /\ v_pkt o = p.
Proof.
  unfold sv_head. rewrite nth_error_map. destruct (nth_error R k) as [o|]; [|discriminate].
  cbn. intros H. injection H as <- <-. eauto.
Qed.

(* ---- conformance on the recurrence ---- *)
Section Conformance.
  Variable c : tbcfg.
  Hypothesis Hr : 0 < rate c.

  (* what a service takes out plus what it leaves never exceeds what the bucket can have got *)
  Lemma step_budget L U F o :
    step_ok c L U F o -> vsize o + vpost o <= L + fill (rate c) (v_debit o - U).
  Proof.
    intros (K1 & K2 & K3 & K4 & K5). unfold vpost.
    pose proof (refill_le_fill (bsize c) (rate c) L U (v_head o)) as Hf. rewrite <- K3 in Hf.
    destruct (Qlt_le_dec (v_lvl o) (vsize o)) as [Hw|Hw].
    - rewrite (post_wait _ _ Hw). rewrite (release_wait _ _ _ _ Hw) in K4.
      assert (E : fill (rate c) (v_debit o - U) == fill (rate c) (v_head o - U) + (vsize o - v_lvl o)).
      { rewrite <- (fill_tokwait (rate c) (vsize o) (v_lvl o) Hr), <- fill_add. apply fill_proper; [reflexivity|]. rewrite K4. ring. }
      rewrite E. lra.
    - rewrite (post_nowait _ _ Hw). rewrite (release_nowait _ _ _ _ Hw) in K4.
      assert (E : fill (rate c) (v_debit o - U) == fill (rate c) (v_head o - U)).
      { apply fill_proper; [reflexivity|]. rewrite K4. reflexivity. }
      rewrite E. lra.
  Qed.

  Lemma step_debit_ge L U F o : step_ok c L U F o -> U <= v_debit o /\ v_head o <= v_debit o.
  Proof.
    intros (K1 & K2 & K3 & K4 & K5). pose proof (release_ge (rate c) (v_head o) (v_lvl o) (vsize o) Hr). lra.
  Qed.

  Lemma step_lvl_le_B L U F o : step_ok c L U F o -> v_lvl o <= bsize c.
  Proof. intros (K1 & K2 & K3 & K4 & K5). rewrite K3. apply refill_le_B. Qed.

  Lemma sbytes_cons o R : sbytes (o :: R) = vsize o + sbytes R.
  Proof. reflexivity. Qed.

  Lemma chain_budget : forall R L U F j o,
    chain c L U F R -> nth_error R j = Some o ->
    sbytes (firstn (S j) R) + vpost o <= L + fill (rate c) (v_debit o - U).
  Proof.
    induction R as [|o0 R IH]; intros L U F j o HC Hj; [destruct j; discriminate|].
    cbn [chain] in HC. destruct HC as [H0 HC]. pose proof (step_budget _ _ _ _ H0) as K.
    destruct j as [|j]; cbn [nth_error] in Hj.
    - injection Hj as <-. cbn [firstn]. rewrite sbytes_cons. change (sbytes []) with 0. lra.
    - specialize (IH _ _ _ _ _ HC Hj). cbn [firstn]. rewrite sbytes_cons.
      assert (E : fill (rate c) (v_debit o - U) == fill (rate c) (v_debit o0 - U) + fill (rate c) (v_debit o - v_debit o0)).
      { rewrite <- fill_add. apply fill_proper; [reflexivity|]. ring. }
      rewrite E. cbn [firstn] in IH. lra.
  Qed.

  Lemma chain_conformance R L U F i j oi oj :
    chain c L U F R -> (i <= j)%nat -> nth_error R i = Some oi -> nth_error R j = Some oj ->
    sbytes (slice i j R) <= Qmax (bsize c) (vsize oi) + fill (rate c) (v_debit oj - v_debit oi).
  Proof.
    intros HC Hij Hi Hj.
    destruct (nth_error_split _ _ Hi) as (R1 & R2 & -> & Hlen).
    apply chain_app_r in HC. cbn [chain] in HC. destruct HC as [H0 HC].
    unfold slice. rewrite skipn_app. replace (i - length R1)%nat with 0%nat by lia.
    rewrite skipn_all2 by lia. cbn [app skipn].
    assert (Hsp : vsize oi + vpost oi <= Qmax (bsize c) (vsize oi)).
    { unfold vpost. pose proof (step_lvl_le_B _ _ _ _ H0) as HB.
      pose proof (Q.le_max_l (bsize c) (vsize oi)). pose proof (Q.le_max_r (bsize c) (vsize oi)).
      destruct (Qlt_le_dec (v_lvl oi) (vsize oi)) as [Hw|Hw];
        [rewrite (post_wait _ _ Hw)|rewrite (post_nowait _ _ Hw)]; lra. }
    destruct (Nat.eq_dec j i) as [->|Hne].
    - rewrite nth_error_app2 in Hj by lia. replace (i - length R1)%nat with 0%nat in Hj by lia.
      cbn in Hj. injection Hj as <-.
      replace (S i - i)%nat with 1%nat by lia. cbn [firstn]. rewrite sbytes_cons. change (sbytes []) with 0.
      assert (E : fill (rate c) (v_debit oi - v_debit oi) == 0).
      { rewrite <- (fill_0 (rate c)). apply fill_proper; [reflexivity|ring]. }
      rewrite E. pose proof (post_nonneg (v_lvl oi) (vsize oi)). unfold vpost in Hsp. lra.
    - rewrite nth_error_app2 in Hj by lia.
      destruct (j - length R1)%nat as [|m] eqn:Em; [lia|]. cbn [nth_error] in Hj.
      replace (S j - i)%nat with (S (S m)) by lia.
      change (firstn (S (S m)) (oi :: R2)) with (oi :: firstn (S m) R2). rewrite sbytes_cons.
      pose proof (chain_budget _ _ _ _ _ _ HC Hj) as Kb.
      pose proof (post_nonneg (v_lvl oj) (vsize oj)). unfold vpost in *. lra.
  Qed.

  (* departures are at least the peak-rate transmission time of the later packet apart *)
  Lemma chain_spacing R L U F k o1 o2 :
    chain c L U F R -> nth_error R k = Some o1 -> nth_error R (S k) = Some o2 ->
    v_dep o1 + gap c (vsize o2) <= v_dep o2 /\ v_dep o1 <= v_head o2.
  Proof.
    intros HC H1 H2. destruct (nth_error_split _ _ H1) as (R1 & R2 & -> & Hlen).
    rewrite nth_error_app2 in H2 by lia. replace (S k - length R1)%nat with 1%nat in H2 by lia.
    destruct R2 as [|o2' R2]; [discriminate|]. cbn in H2. injection H2 as ->.
    apply chain_app_r in HC. cbn [chain] in HC. destruct HC as (_ & H2 & _).
    pose proof (step_debit_ge _ _ _ _ H2) as [_ Hd]. destruct H2 as (K1 & K2 & K3 & K4 & K5).
    pose proof (Q.le_max_r (v_arr o2) (v_dep o1)). lra.
  Qed.

  (* the head instant of service k is max(arrival, departure of service k-1) *)
  Lemma chain_head R L U F k o : chain c L U F R -> nth_error R k = Some o ->
    v_head o == Qmax (v_arr o) (match k with O => F | S k' => match nth_error R k' with Some o' => v_dep o' | None => F end end).
  Proof.
    intros HC Hk. destruct k as [|k].
    - destruct R as [|o0 R]; [discriminate|]. cbn in Hk. injection Hk as ->. cbn [chain] in HC. apply HC.
    - assert (Hk' : exists o', nth_error R k = Some o').
      { destruct (nth_error R k) as [o'|] eqn:E; [eauto|]. apply nth_error_None in E.
        assert (nth_error R (S k) <> None) by congruence. apply nth_error_Some in H. lia. }
      destruct Hk' as [o' Hk']. rewrite Hk'.
      destruct (nth_error_split _ _ Hk') as (R1 & R2 & -> & Hlen).
      rewrite nth_error_app2 in Hk by lia. replace (S k - length R1)%nat with 1%nat in Hk by lia.
      destruct R2 as [|o2 R2]; [discriminate|]. cbn in Hk. injection Hk as ->.
      apply chain_app_r in HC. cbn [chain] in HC. destruct HC as (_ & H2 & _). apply H2.
  Qed.
End Conformance.

Lemma chain_debit_ge c (Hr : 0 < rate c) : forall R L U F j o,
  chain c L U F R -> nth_error R j = Some o -> U <= v_debit o.
Proof.
  induction R as [|o0 R IH]; intros L U F j o HC Hj; [destruct j; discriminate|].
  cbn [chain] in HC. destruct HC as [H0 HC]. pose proof (step_debit_ge c Hr _ _ _ _ H0) as [H1 _].
  destruct j as [|j]; cbn [nth_error] in Hj.
  - injection Hj as <-. exact H1.
  - specialize (IH _ _ _ _ _ HC Hj). lra.
Qed.

Lemma chain_debit_mono c (Hr : 0 < rate c) R L U F i j oi oj :
  chain c L U F R -> (i <= j)%nat -> nth_error R i = Some oi -> nth_error R j = Some oj -> v_debit oi <= v_debit oj.
Proof.
  intros HC Hij Hi Hj. destruct (Nat.eq_dec i j) as [->|Hne].
  - rewrite Hi in Hj. injection Hj as <-. apply Qle_refl.
  - destruct (nth_error_split _ _ Hi) as (R1 & R2 & -> & Hlen).
    apply chain_app_r in HC. cbn [chain] in HC. destruct HC as [_ HC].
    rewrite nth_error_app2 in Hj by lia. destruct (j - length R1)%nat as [|m] eqn:Em; [lia|].
    cbn [nth_error] in Hj. eapply chain_debit_ge; eauto.
Qed.

Lemma map_snd_sv_debit R : map snd (sv_debit R) = map v_pkt R.
Proof. unfold sv_debit. rewrite map_map. reflexivity. Qed.
Lemma map_snd_sv_dep R : map snd (sv_dep R) = map v_pkt R.
Proof. unfold sv_dep. rewrite map_map. reflexivity. Qed.
Lemma map_snd_sv_arr R : map snd (sv_arr R) = map v_pkt R.
Proof. unfold sv_arr. rewrite map_map. reflexivity. Qed.
Lemma map_snd_sv_head R : map snd (sv_head R) = map v_pkt R.
Proof. unfold sv_head. rewrite map_map. reflexivity. Qed.

(* ---- tb_conformance ---- *)
(* for debit instants t_i <= t_j of departures i <= j:
   size_i + ... + size_j <= max(B, size_i) + rate * (t_j - t_i) / 8 *)
Theorem tb_conformance c t0 acts s tr :
  0 < rate c -> tb_run c (tb0 true c t0) acts = Some (s, tr) ->
  forall i j ti pi tj pj, (i <= j)%nat ->
    nth_error (debits tr) i = Some (ti, pi) -> nth_error (debits tr) j = Some (tj, pj) ->
    ti <= tj /\
    bytes (slice i j (debits tr)) <= Qmax (bsize c) (sz pi) + fill (rate c) (tj - ti).
Proof.
  intros Hr Hrun i j ti pi tj pj Hij Hi Hj.
  destruct (tb_spec _ _ _ _ _ Hr Hrun) as (R & HC & _ & HM).
  destruct (matches_debits _ _ _ HM) as (R1 & R2 & -> & HD). apply chain_app_l in HC.
  destruct (tpe_nth _ _ HD _ _ _ Hi) as (Ti & Hi' & Ei). destruct (tpe_nth _ _ HD _ _ _ Hj) as (Tj & Hj' & Ej).
  destruct (sv_debit_nth _ _ _ _ Hi') as (oi & Hoi & <- & <-). destruct (sv_debit_nth _ _ _ _ Hj') as (oj & Hoj & <- & <-).
  pose proof (chain_debit_mono c Hr _ _ _ _ _ _ _ _ HC Hij Hoi Hoj) as Hm.
  split; [lra|].
  pose proof (chain_conformance c Hr _ _ _ _ _ _ _ _ HC Hij Hoi Hoj) as K.
  assert (Eb : bytes (slice i j (debits tr)) = sbytes (slice i j R1)).
  { unfold bytes, sbytes. rewrite <- !slice_map. rewrite (tpe_pkts _ _ HD), map_snd_sv_debit. reflexivity. }
  rewrite Eb.
  assert (Ef : fill (rate c) (tj - ti) == fill (rate c) (v_debit oj - v_debit oi)).
  { apply fill_proper; [reflexivity|]. rewrite Ei, Ej. reflexivity. }
  rewrite Ef. exact K.
Qed.

(* ---- tb_peak_spacing ---- *)
Theorem tb_peak_spacing c t0 acts s tr :
  0 < rate c -> tb_run c (tb0 true c t0) acts = Some (s, tr) ->
  forall k t1 p1 t2 p2,
    nth_error (fwds tr) k = Some (t1, p1) -> nth_error (fwds tr) (S k) = Some (t2, p2) ->
    (peak_on c = None -> t1 <= t2) /\ forall pk, peak_on c = Some pk -> t1 + spacing pk (sz p2) <= t2.
Proof.
  intros Hr Hrun k t1 p1 t2 p2 H1 H2.
  destruct (tb_spec _ _ _ _ _ Hr Hrun) as (R & HC & _ & HM).
  destruct (matches_fwds _ _ _ HM) as (R1 & R2 & -> & HD). apply chain_app_l in HC.
  destruct (tpe_nth _ _ HD _ _ _ H1) as (T1 & H1' & E1). destruct (tpe_nth _ _ HD _ _ _ H2) as (T2 & H2' & E2).
  destruct (sv_dep_nth _ _ _ _ H1') as (o1 & Ho1 & <- & <-). destruct (sv_dep_nth _ _ _ _ H2') as (o2 & Ho2 & <- & <-).
  pose proof (chain_spacing c Hr _ _ _ _ _ _ _ HC Ho1 Ho2) as [K Kh].
  split; intros; unfold gap, vsize in K.
  - rewrite H in K. lra.
  - rewrite H in K. lra.
Qed.

Lemma tpe_nth_r l1 l2 : tpe l1 l2 -> forall k T p, nth_error l2 k = Some (T, p) ->
  exists t, nth_error l1 k = Some (t, p) /\ t == T.
Proof.
  induction 1 as [|x y l l' [E1 E2] _ IH]; intros k T p Hk.
  - destruct k; discriminate.
  - destruct k as [|k]; cbn in Hk |- *.
    + injection Hk as ->. destruct x as [t q]. cbn in *. subst q. exists t. split; [reflexivity|exact E1].
    + apply IH. exact Hk.
Qed.

Lemma Qmax_compat_r a x y : x == y -> Qmax a x == Qmax a y.
Proof.
  intros E. destruct (Q.max_spec a x) as [[H1 E1]|[H1 E1]]; destruct (Q.max_spec a y) as [[H2 E2]|[H2 E2]];
    rewrite E1, E2; lra.
Qed.

Lemma tokens_at_compat B r h lvl size t t' : t == t' -> tokens_at B r h lvl size t == tokens_at B r h lvl size t'.
Proof.
  intros E. unfold tokens_at. destruct (Qlt_le_dec B size).
  - rewrite E. reflexivity.
  - apply Qmin_compat. rewrite E. reflexivity.
Qed.

Lemma matches_fwds' s tr R : tb_matches s tr R ->
  exists R1 R2, R = R1 ++ R2 /\ (length R2 <= 1)%nat /\ tpe (fwds tr) (sv_dep R1).
Proof.
  intros [_ M]. destruct (phase s) as [|p dl|p dl].
  - exists R, []. rewrite app_nil_r. cbn. split; [reflexivity|]. split; [lia|tauto].
  - destruct M as (R' & o & -> & _ & _ & _ & _ & M). exists R', [o]. cbn. auto.
  - destruct M as (R' & o & -> & _ & _ & _ & _ & M). exists R', [o]. cbn. auto.
Qed.

Lemma chain_nth_step c : forall R L U F k o, chain c L U F R -> nth_error R k = Some o ->
  exists L' U' F', step_ok c L' U' F' o /\ (k = 0%nat -> L' = L /\ U' = U /\ F' = F).
Proof.
  intros R L U F k o HC Hk. destruct (nth_error_split _ _ Hk) as (R1 & R2 & -> & Hlen).
  apply chain_app_r in HC. cbn [chain] in HC. destruct HC as [H0 _].
  exists (lastL L R1), (lastU U R1), (lastF F R1). split; [exact H0|].
  intros ->. destruct R1; [auto|discriminate].
Qed.

(* ---- tb_release_instant ---- *)
(* the tokens of the k-th packet are debited at the earliest instant t >= h (the instant it reached the
   head with the server free) at which the bucket - lvl tokens at h, filled at rate, capped at B; growing
   past the cap only for a packet larger than B - holds the packet's size; a pending wait is never
   overslept *)
Theorem tb_release_instant c t0 acts s tr :
  0 < rate c -> tb_run c (tb0 true c t0) acts = Some (s, tr) ->
  (forall k t p, nth_error (debits tr) k = Some (t, p) ->
     exists h lvl,
       (exists h', nth_error (heads tr) k = Some (h', p) /\ h' == h) /\
       lvl <= bsize c /\ (k = 0%nat -> lvl == refill (bsize c) (rate c) (bsize c) t0 h) /\
       h <= t /\ t == release (rate c) h lvl (sz p) /\
       sz p <= tokens_at (bsize c) (rate c) h lvl (sz p) t /\
       (forall t', h <= t' -> t' < t -> tokens_at (bsize c) (rate c) h lvl (sz p) t' < sz p)) /\
  (forall p dl, phase s = PTok p dl \/ phase s = PPeak p dl -> tnow s <= dl).
Proof.
  intros Hr Hrun. destruct (tb_spec _ _ _ _ _ Hr Hrun) as (R & HC & _ & HM). split.
  - intros k t p Hk.
    destruct (matches_debits _ _ _ HM) as (R1 & R2 & -> & HD).
    destruct (tpe_nth _ _ HD _ _ _ Hk) as (T & Hk' & Et).
    destruct (sv_debit_nth _ _ _ _ Hk') as (o & Ho & <- & <-).
    pose proof (nth_error_app_l _ R2 _ _ Ho) as Ho'.
    destruct (chain_nth_step _ _ _ _ _ _ _ HC Ho') as (L' & U' & F' & Hok & H0).
    pose proof (step_lvl_le_B _ _ _ _ _ Hok) as HB.
    destruct Hok as (K1 & K2 & K3 & K4 & K5).
    exists (v_head o), (v_lvl o). split.
    + destruct HM as [HH _].
      apply (tpe_nth_r _ _ HH k (v_head o) (v_pkt o)).
      unfold sv_head. rewrite nth_error_map, Ho'. reflexivity.
    + pose proof (release_least (bsize c) (rate c) (v_head o) (v_lvl o) (vsize o) Hr HB) as (G1 & G2 & G3).
      unfold vsize in *. split; [exact HB|]. split.
      { intros E0. destruct (H0 E0) as (-> & -> & ->). exact K3. }
      split; [lra|]. split; [lra|]. split.
      * rewrite (tokens_at_compat _ _ _ _ _ t (release (rate c) (v_head o) (v_lvl o) (sz (v_pkt o)))); [exact G2|lra].
      * intros t' Ht1 Ht2. apply G3; lra.
  - intros p dl Hp. destruct HM as [_ HM]. destruct Hp as [Hp|Hp]; rewrite Hp in HM;
      destruct HM as (R' & o & _ & _ & _ & Hn & _); exact Hn.
Qed.

(* ---- tb_head_instant ---- *)
(* packet k reaches the head, with the server free, at max(its arrival, departure of packet k-1) *)
Theorem tb_head_instant c t0 acts s tr :
  0 < rate c -> tb_run c (tb0 true c t0) acts = Some (s, tr) ->
  forall k h p, nth_error (heads tr) k = Some (h, p) ->
    exists a, nth_error (puts tr) k = Some (a, p) /\ a <= h /\
      match k with
      | O => h == Qmax a t0
      | S k' => exists d p', nth_error (fwds tr) k' = Some (d, p') /\ h == Qmax a d
      end.
Proof.
  intros Hr Hrun k h p Hk. destruct (tb_spec _ _ _ _ _ Hr Hrun) as (R & HC & Hp & HM).
  pose proof HM as [HH _]. destruct (tpe_nth _ _ HH _ _ _ Hk) as (T & Hk' & Et).
  destruct (sv_head_nth _ _ _ _ Hk') as (o & Ho & <- & <-).
  exists (v_arr o). split; [|split].
  - rewrite Hp. apply nth_error_app_l. unfold sv_arr. rewrite nth_error_map, Ho. reflexivity.
  - pose proof (chain_head c _ _ _ _ _ _ HC Ho) as E. pose proof (Q.le_max_l (v_arr o)) as X.
    rewrite Et, E. apply X.
  - pose proof (chain_head c _ _ _ _ _ _ HC Ho) as E. destruct k as [|k'].
    + rewrite Et. exact E.
    + destruct (matches_fwds' _ _ _ HM) as (R1 & R2 & -> & HL & HF).
      assert (Hlt : (S k' < length (R1 ++ R2))%nat) by (apply nth_error_Some; congruence).
      rewrite app_length in Hlt.
      assert (Hk1 : (k' < length R1)%nat) by lia.
      destruct (nth_error R1 k') as [o'|] eqn:Eo'; [|apply nth_error_None in Eo'; lia].
      rewrite (nth_error_app_l _ R2 _ _ Eo') in E.
      destruct (tpe_nth_r _ _ HF k' (v_dep o') (v_pkt o')) as (d & Hd & Ed).
      { unfold sv_dep. rewrite nth_error_map, Eo'. reflexivity. }
      exists d, (v_pkt o'). split; [exact Hd|]. rewrite Et, E. apply Qmax_compat_r. lra.
Qed.

(* ---- initially full ---- *)
Theorem tb_initially_full c t0 acts s tr :
  0 < rate c -> tb_run c (tb0 true c t0) acts = Some (s, tr) ->
  forall t p, nth_error (debits tr) 0 = Some (t, p) -> sz p <= bsize c ->
    exists a, nth_error (puts tr) 0 = Some (a, p) /\ t == Qmax a t0.
Proof.
  intros Hr Hrun t p Hk Hsz. destruct (tb_spec _ _ _ _ _ Hr Hrun) as (R & HC & Hp & HM).
  destruct (matches_debits _ _ _ HM) as (R1 & R2 & -> & HD).
  destruct (tpe_nth _ _ HD _ _ _ Hk) as (T & Hk' & Et).
  destruct (sv_debit_nth _ _ _ _ Hk') as (o & Ho & <- & <-).
  destruct R1 as [|o0 R1]; [discriminate|]. cbn in Ho. injection Ho as ->.
  cbn [app chain] in HC. destruct HC as ((K1 & K2 & K3 & K4 & K5) & _).
  exists (v_arr o). split; [rewrite Hp; reflexivity|].
  assert (El : v_lvl o == bsize c).
  { rewrite K3. unfold refill. pose proof (fill_nonneg (rate c) (v_head o - t0) Hr) as X.
    destruct (Q.min_spec (bsize c) (bsize c + fill (rate c) (v_head o - t0))) as [[H1 E1]|[H1 E1]]; rewrite E1; lra. }
  unfold vsize in *. rewrite (release_nowait _ _ _ _) in K4 by lra. lra.
Qed.

(* the constructor of the code as found (update_time = 0.0): with a negative initial time the first
   packet, although covered by the full bucket, is held back *)
Theorem tb_initially_full_refuted_before_fix :
  exists c t0 acts s tr t p a,
    0 < rate c /\ tb_run c (tb0 false c t0) acts = Some (s, tr) /\
    nth_error (debits tr) 0 = Some (t, p) /\ sz p <= bsize c /\
    nth_error (puts tr) 0 = Some (a, p) /\ ~ t == Qmax a t0.
Proof.
  set (p := mkp 3 4 0 128 2).
  exists {| rate := 512; bsize := 2048; peak := None |}, (-64),
         [TInit; TAdvance (-62); TPut p; TStoreCb; TGet; TAdvance (-30); TTimer].
  eexists. eexists. exists (-30), p, (-62).
  split; [reflexivity|]. split; [vm_compute; reflexivity|].
  split; [vm_compute; reflexivity|]. split; [vm_compute; discriminate|].
  split; [vm_compute; reflexivity|]. intros H. vm_compute in H. discriminate.
Qed.

(* ---- conservation, FIFO, losslessness ---- *)
Definition in_service (s : tb) : list pkt :=
  match phase s with PIdle => [] | PTok p _ => [p] | PPeak p _ => [p] end.

(* what the element holds: the packet in service and the store (incl. a granted get) *)
Definition tb_held (s : tb) : list pkt := in_service s ++ map snd (sq_held (tq s)).

Theorem tb_conserves c t0 acts s tr :
  0 < rate c -> tb_run c (tb0 true c t0) acts = Some (s, tr) ->
  map snd (puts tr) = map snd (fwds tr) ++ tb_held s.
Proof.
  intros Hr Hrun. destruct (reachable_inv c t0 Hr _ _ _ Hrun) as [R HI].
  rewrite (inv_fifo _ _ _ _ _ HI), map_app, map_snd_sv_arr.
  pose proof (inv_phase _ _ _ _ _ HI) as P. unfold phase_inv in P. unfold tb_held, in_service.
  destruct (phase s) as [|p dl|p dl].
  - destruct P as (_ & P & _). rewrite (tpe_pkts _ _ P), map_snd_sv_dep. reflexivity.
  - destruct P as (_ & _ & _ & R' & o & -> & Po & _ & _ & _ & _ & _ & P).
    rewrite (tpe_pkts _ _ P), map_snd_sv_dep, map_app, <- app_assoc, <- Po. reflexivity.
  - destruct P as (_ & _ & _ & _ & _ & _ & R' & o & -> & Po & _ & P).
    rewrite (tpe_pkts _ _ P), map_snd_sv_dep, map_app, <- app_assoc, <- Po. reflexivity.
Qed.

Theorem tb_fifo c t0 acts s tr :
  0 < rate c -> tb_run c (tb0 true c t0) acts = Some (s, tr) ->
  exists rest, map snd (puts tr) = map snd (fwds tr) ++ rest.
Proof. intros Hr Hrun. exists (tb_held s). eapply tb_conserves; eauto. Qed.

Theorem tb_counters c t0 acts s tr :
  0 < rate c -> tb_run c (tb0 true c t0) acts = Some (s, tr) ->
  nrecv s = Z.of_nat (length (puts tr)) /\ nsent s = Z.of_nat (length (fwds tr)).
Proof.
  intros Hr Hrun. destruct (reachable_inv c t0 Hr _ _ _ Hrun) as [R HI].
  split; [apply (inv_recv _ _ _ _ _ HI)|apply (inv_sent _ _ _ _ _ HI)].
Qed.

(* nothing of the element is due now and no timeout is pending *)
Definition tb_quiescent (s : tb) : Prop := tb_urgent s = false /\ phase s = PIdle.

Lemma quiescent_held_empty c t0 s tr R : Inv c t0 s tr R -> tb_quiescent s -> tb_held s = [].
Proof.
  intros HI [U Hp]. unfold tb_urgent in U. apply orb_false_iff in U as [U _]. apply orb_false_iff in U as [Us Uq].
  apply negb_false_iff in Us. pose proof (inv_phase _ _ _ _ _ HI) as P. unfold phase_inv, idle_inv in P.
  rewrite Hp, Us in P. destruct P as (_ & _ & _ & _ & _ & _ & Pg & _).
  unfold tb_held, in_service. rewrite Hp. cbn [app].
  assert (G : get (tq s) = GWaiting).
  { pose proof (proj1 (sq_urgent_false _ _) Uq) as [_ Ug]. destruct (get (tq s)) as [| |x]; [contradiction|reflexivity|].
    exfalso. apply (Ug x). reflexivity. }
  rewrite (sq_waiting_quiet_held _ _ Uq (inv_nostrand _ _ _ _ _ HI) G). reflexivity.
Qed.

(* when the bucket has nothing left to do, every packet put in has been forwarded, in order *)
Theorem tb_lossless c t0 acts s tr :
  0 < rate c -> tb_run c (tb0 true c t0) acts = Some (s, tr) -> tb_quiescent s ->
  map snd (fwds tr) = map snd (puts tr).
Proof.
  intros Hr Hrun HQ. destruct (reachable_inv c t0 Hr _ _ _ Hrun) as [R HI].
  rewrite (tb_conserves _ _ _ _ _ Hr Hrun), (quiescent_held_empty _ _ _ _ _ HI HQ), app_nil_r. reflexivity.
Qed.

(* ---------------------------------------------------------------------------------------------- *)
(* non-vacuity: rate 1024 bit/s (128 B/s), bucket 256 B, peak 4096 bit/s (512 B/s); a burst of a 256-byte and
   a 128-byte packet at 0.  p0 finds the bucket full: debit at 0, departure 256/512 = 1/2 later.  p1 reaches
   the head at 1/2 with 64 tokens, waits 64/128 = 1/2 for the missing 64: debit at 1, departure at 1 + 1/4. *)
Definition ex_c : tbcfg := {| rate := 1024; bsize := 256; peak := Some 4096 |}.
Definition ex_p0 : pkt := mkp 0 1 0 256 0.
Definition ex_p1 : pkt := mkp 1 2 1 128 0.
Definition ex_acts : list taction :=
  [TInit; TPut ex_p0; TPut ex_p1; TStoreCb; TStoreCb; TGet; TAdvance (1 # 2); TTimer; TGet; TAdvance 1; TTimer;
   TAdvance (5 # 4); TTimer].

Example tb_example :
  exists s tr, tb_run ex_c (tb0 true ex_c 0) ex_acts = Some (s, tr) /\
    puts tr = [(0, ex_p0); (0, ex_p1)] /\ heads tr = [(0, ex_p0); (1 # 2, ex_p1)] /\
    debits tr = [(0, ex_p0); (1, ex_p1)] /\ fwds tr = [(1 # 2, ex_p0); (5 # 4, ex_p1)] /\
    tb_quiescent s /\ 0 < rate ex_c.
Proof.
  eexists. eexists. split; [vm_compute; reflexivity|].
  repeat split; vm_compute; reflexivity.
Qed.

(* ---------------------------------------------------------------------------------------------- *)
(* C08 share: per-flow order, and "drained"                                                        *)

Definition of_flow (f : Z) (l : list pkt) : list pkt := filter (fun p => Z.eqb (flow p) f) l.

Theorem tb_flow_fifo c t0 acts s tr :
  0 < rate c -> tb_run c (tb0 true c t0) acts = Some (s, tr) ->
  forall f, exists rest, of_flow f (map snd (puts tr)) = of_flow f (map snd (fwds tr)) ++ rest.
Proof.
  intros Hr Hrun f. rewrite (tb_conserves _ _ _ _ _ Hr Hrun). unfold of_flow. rewrite filter_app. eauto.
Qed.

Lemma spacing_nonneg k size : 0 < k -> 0 <= size -> 0 <= spacing k size.
Proof.
  intros Hk Hs. unfold spacing. apply Qle_shift_div_l; [exact Hk|]. rewrite Qmult_0_l.
  apply Qmult_le_0_compat; lra.
Qed.

(* when no internal step of the bucket is enabled (and no timeout is pending), nothing of it is due now *)
Lemma tb_no_internal_step_quiet c t0 s tr R :
  Inv c t0 s tr R ->
  (forall k, peak_on c = Some k -> 0 < k) -> Forall (fun x => 0 <= sz (snd x)) (puts tr) ->
  phase s = PIdle ->
  (forall a, (forall p, a <> TPut p) -> (forall t, a <> TAdvance t) -> tb_act c s a = None) ->
  tb_urgent s = false.
Proof.
  intros HI Hk Hsz Hph Hno. pose proof (inv_phase _ _ _ _ _ HI) as P. unfold phase_inv, idle_inv in P.
  rewrite Hph in P. destruct P as (_ & _ & _ & _ & P).
  assert (Hs : tstarted s = true).
  { destruct (tstarted s) eqn:Es; [reflexivity|]. exfalso. destruct P as (Pg & _ & _).
    assert (H : tb_act c s TInit = None) by (apply Hno; intros; discriminate).
    cbn [tb_act] in H. rewrite Es in H.
    destruct (sq_get_enabled _ fifo_pop _ Pg) as [q Hq]. rewrite Hq in H. discriminate. }
  rewrite Hs in P. destruct P as (_ & _ & Pg & _).
  assert (Hp : pend (tq s) = 0%nat).
  { destruct (pend (tq s)) as [|n] eqn:Ep; [reflexivity|]. exfalso.
    assert (H : tb_act c s TStoreCb = None) by (apply Hno; intros; discriminate).
    cbn [tb_act] in H. destruct (proj1 (sq_cb_enabled _ fifo_pop (tq s))) as [q Hq]; [lia|].
    rewrite Hq in H. discriminate. }
  assert (Hg : forall x, get (tq s) <> GGranted x).
  { intros [a0 p] Gx.
    assert (H : tb_act c s TGet = None) by (apply Hno; intros; discriminate).
    unfold tb_act in H. rewrite Hph in H. destruct (sq_take_enabled _ _ _ Gx) as [q Hq]. rewrite Hq in H.
    rewrite Hs in H. cbn [negb] in H.
    pose proof (sq_take_inv _ _ _ _ Hq) as (_ & _ & _ & Gn).
    destruct (sq_get_enabled _ fifo_pop _ Gn) as [q' Hq'].
    assert (Hp0 : 0 <= sz p).
    { assert (Hin : In (a0, p) (puts tr)).
      { rewrite (inv_fifo _ _ _ _ _ HI). apply in_or_app. right. rewrite (sq_held_granted _ _ _ Gx). left. reflexivity. }
      apply (proj1 (Forall_forall _ _) Hsz _ Hin). }
    destruct (Qlt_le_dec _ _); [discriminate|].
    unfold tb_after_debit, tb_forward in H. cbn [tq] in H.
    destruct (peak_on c) as [k|] eqn:Ek.
    - destruct (Qlt_le_dec (spacing k (sz p)) 0) as [Hn|Hn]; [|discriminate].
      pose proof (spacing_nonneg k (sz p) (Hk _ eq_refl) Hp0). lra.
    - rewrite Hq' in H. discriminate. }
  unfold tb_urgent, tb_due. rewrite Hs, Hph. cbn [negb orb]. rewrite orb_false_r.
  apply sq_urgent_false. split; assumption.
Qed.

(* the bucket's share of "the simulation ran out of events": nothing enabled but puts and the passing of
   time, no timeout pending  =>  nothing is held, everything put in has been forwarded *)
Theorem tb_drained c t0 acts s tr :
  0 < rate c -> tb_run c (tb0 true c t0) acts = Some (s, tr) ->
  (forall k, peak_on c = Some k -> 0 < k) -> Forall (fun x => 0 <= sz (snd x)) (puts tr) ->
  phase s = PIdle ->
  (forall a, (forall p, a <> TPut p) -> (forall t, a <> TAdvance t) -> tb_act c s a = None) ->
  tb_held s = [] /\ map snd (fwds tr) = map snd (puts tr).
Proof.
  intros Hr Hrun Hk Hsz Hph Hno. destruct (reachable_inv c t0 Hr _ _ _ Hrun) as [R HI].
  assert (HQ : tb_quiescent s) by (split; [eapply tb_no_internal_step_quiet; eauto|exact Hph]).
  split; [eapply quiescent_held_empty; eauto|eapply tb_lossless; eauto].
Qed.

(* while a packet is in service its timeout is pending and, when due, the server's step is enabled *)
Theorem tb_timer_enabled c t0 acts s tr :
  0 < rate c -> tb_run c (tb0 true c t0) acts = Some (s, tr) ->
  (forall k, peak_on c = Some k -> 0 < k) -> Forall (fun x => 0 <= sz (snd x)) (puts tr) ->
  forall p dl, phase s = PTok p dl \/ phase s = PPeak p dl ->
    tnow s <= dl /\ (dl == tnow s -> exists s' o, tb_act c s TTimer = Some (s', o)).
Proof.
  intros Hr Hrun Hk Hsz p dl Hph. destruct (reachable_inv c t0 Hr _ _ _ Hrun) as [R HI].
  pose proof (inv_phase _ _ _ _ _ HI) as P. unfold phase_inv in P.
  destruct Hph as [Hph|Hph]; rewrite Hph in P.
  - destruct P as (Ps & Pg & Pn & R' & o & -> & Po & _). split; [exact Pn|]. intros Ed.
    unfold tb_act. rewrite Hph. apply Qeq_bool_iff in Ed. rewrite Ed.
    destruct (sq_get_enabled _ fifo_pop _ Pg) as [q' Hq'].
    assert (Hp0 : 0 <= sz p).
    { assert (Hin : In (v_arr o, p) (puts tr)).
      { rewrite (inv_fifo _ _ _ _ _ HI). apply in_or_app. left. unfold sv_arr. rewrite map_app. apply in_or_app. right.
        left. rewrite Po. reflexivity. }
      apply (proj1 (Forall_forall _ _) Hsz _ Hin). }
    unfold tb_after_debit, tb_forward. cbn [tq tnow]. destruct (peak_on c) as [k|] eqn:Ek.
    + destruct (Qlt_le_dec (spacing k (sz p)) 0) as [Hn|Hn]; [|eauto].
      pose proof (spacing_nonneg k (sz p) (Hk _ eq_refl) Hp0). lra.
    + rewrite Hq'. eauto.
  - destruct P as (Ps & Pg & Pn & _). split; [exact Pn|]. intros Ed.
    unfold tb_act. rewrite Hph. apply Qeq_bool_iff in Ed. rewrite Ed.
    destruct (sq_get_enabled _ fifo_pop _ Pg) as [q' Hq']. unfold tb_forward. cbn [tq]. rewrite Hq'. eauto.
Qed.

(* ---- departure = debit + 8*size/peak ---- *)
Theorem tb_departure_instant c t0 acts s tr :
  0 < rate c -> tb_run c (tb0 true c t0) acts = Some (s, tr) ->
  forall k t p, nth_error (fwds tr) k = Some (t, p) ->
    exists d, nth_error (debits tr) k = Some (d, p) /\
      (peak_on c = None -> t == d) /\ (forall pk, peak_on c = Some pk -> t == d + spacing pk (sz p)).
Proof.
  intros Hr Hrun k t p Hk. destruct (tb_spec _ _ _ _ _ Hr Hrun) as (R & HC & _ & HM).
  destruct (matches_fwds _ _ _ HM) as (R1 & R2 & E1 & HF).
  destruct (matches_debits _ _ _ HM) as (D1 & D2 & E2 & HD).
  destruct (tpe_nth _ _ HF _ _ _ Hk) as (T & Hk' & Et).
  destruct (sv_dep_nth _ _ _ _ Hk') as (o & Ho & <- & <-).
  assert (HoR : nth_error R k = Some o) by (rewrite E1; apply nth_error_app_l; exact Ho).
  assert (HoD : nth_error D1 k = Some o).
  { assert (Hlen : (length R1 <= length D1)%nat).
    { assert (LD : forall l X, tpe l (sv_debit X) -> length l = length X).
      { intros l X H. rewrite (tpe_length _ _ H). unfold sv_debit. apply map_length. }
      assert (LF : forall l X, tpe l (sv_dep X) -> length l = length X).
      { intros l X H. rewrite (tpe_length _ _ H). unfold sv_dep. apply map_length. }
      pose proof (LF _ _ HF) as L1. pose proof (LD _ _ HD) as L2.
      destruct HM as [_ HM]. destruct (phase s) as [|q dl|q dl].
      - destruct HM as [M1 M2]. pose proof (LD _ _ M1) as L3. pose proof (LF _ _ M2) as L4. lia.
      - destruct HM as (R' & o' & _ & _ & _ & _ & M1 & M2).
        pose proof (LD _ _ M1) as L3. pose proof (LF _ _ M2) as L4. lia.
      - destruct HM as (R' & o' & ER & _ & _ & _ & M1 & M2).
        pose proof (LD _ _ M1) as L3. pose proof (LF _ _ M2) as L4. rewrite ER, app_length in L3. cbn in L3. lia. }
    assert (Hk1 : (k < length R1)%nat) by (apply nth_error_Some; congruence).
    rewrite E2 in HoR. rewrite nth_error_app1 in HoR by lia. exact HoR. }
  destruct (tpe_nth_r _ _ HD k (v_debit o) (v_pkt o)) as (d & Hd & Ed).
  { unfold sv_debit. rewrite nth_error_map, HoD. reflexivity. }
  exists d. split; [exact Hd|].
  destruct (chain_nth_step _ _ _ _ _ _ _ HC HoR) as (L' & U' & F' & (K1 & K2 & K3 & K4 & K5) & _).
  unfold gap, vsize in K5. split.
  - intros E. rewrite E in K5. lra.
  - intros pk E. rewrite E in K5. lra.
Qed.
