(* Bridging lemma (DESIGN 2.6, second tie) for the scheduler Monitor: the statements Monitor.run executes for ONE flow
   at each sampling instant, as translated from the tree under test on every run (Gen/Extracted_schedmon.v), append the
   per-flow sample of the hand-written model ([sample_of] of Elem/SchedBase.v, the SSample action). *)
From Coq Require Import ZArith QArith List Bool Lia.
From ONL Require Import Elem.Packet Elem.StoreQ Elem.SchedBase Gen.Extracted_schedmon.
Import ListNotations.

(* ---- Monitor: the statements for one flow f ---------------------------------------------------------------- *)
Definition schedmon_gen_sample (incl : bool) (s : mq) (f : Z) : list schedmon_fx :=
  gen_Monitor_sample_flow f (mqc s f) (mqb s f) incl
    (match mcur s with Some _ => true | None => false end)
    (match mcur s with Some p => flow p | None => 0%Z end)
    (match mcur s with Some p => psize p | None => 0%Z end).

Definition schedmon_fx_output (fx : list schedmon_fx) : option (Z * Z * Z) :=
  match fx with
  | [FxSize f n; FxByteSize f' b] => if Z.eqb f f' then Some (f, n, b) else None
  | _ => None
  end.

Lemma bridge_schedmon_sample incl s f :
  schedmon_fx_output (schedmon_gen_sample incl s f) = Some (sample_of s incl f).
Proof.
  unfold schedmon_gen_sample, gen_Monitor_sample_flow, sample_of, schedmon_fx_output.
  destruct incl, (mcur s) as [p|]; cbn -[Z.eqb]; rewrite ?Z.eqb_refl; try reflexivity.
  rewrite ?(Z.eqb_sym f). destruct (Z.eqb (flow p) f); cbn -[Z.eqb]; rewrite ?Z.eqb_refl; reflexivity.
Qed.
