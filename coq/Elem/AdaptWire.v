(* The Wire (Elem/Wire.v) as an interface element (Elem/Iface.v).  The adapter's labels are the wire's own actions; its
   executions are exactly the executions of wire_run (both directions below), so the theorems of WireProofs.v transfer:
   the C08 laws in interface form.  ODeliver p is the forward, OLost p the drop by the documented loss rule. *)
From Coq Require Import ZArith QArith List Bool Permutation Lia.
From ONL Require Import Elem.Packet Elem.StoreQ Elem.Wire Elem.WireProofs Elem.Iface.
Import ListNotations.

Definition wout_e (o : wout) : eout := match o with ODeliver p => EForward p | OLost p => EDrop p end.
Definition wire_internal (a : waction) : bool := match a with WPut _ | WAdvance _ => false | _ => true end.
Definition wlift (r : option (wire * list wout)) : option (wire * list eout) :=
  match r with Some (w', o) => Some (w', map wout_e o) | None => None end.

Definition wire_elem (loss : option Q) (t0 : Q) : elem := {|
  st := wire;
  lab := waction;
  init := wire0 t0;
  now := wnow;
  put := fun p w => wlift (wire_act loss w (WPut p));
  step := fun a w => if wire_internal a then wlift (wire_act loss w a) else None;
  advance := fun t w => match wire_act loss w (WAdvance t) with Some (w', _) => Some w' | None => None end;
  urgent := wurgent;
  deadline := fun w => match hold w with Some (_, dl) => Some dl | None => None end;
  held := wheld;
  accepts := fun _ => true;
  width := 1
|}.

(* interface actions <-> model actions *)
Definition w_to (a : iact waction) : waction := match a with IPut p => WPut p | IStep l => l | IAdv t => WAdvance t end.
Definition w_of (a : waction) : iact waction := match a with WPut p => IPut p | WAdvance t => IAdv t | _ => IStep a end.
Definition w_ev (e : Wire.tev) : Q * iact waction * list eout := (fst (fst e), w_of (snd (fst e)), map wout_e (snd e)).

Lemma wire_adv_outs loss w t w' o : wire_act loss w (WAdvance t) = Some (w', o) -> o = [].
Proof.
  cbn [wire_act]. destruct (wurgent w); [discriminate|]. destruct (Qlt_le_dec (wnow w) t); [|discriminate].
  destruct (hold w) as [[p dl]|]; [destruct (Qle_bool t dl); [|discriminate]|]; intros H; injection H as _ <-; reflexivity.
Qed.

Lemma wire_elem_act_of loss t0 w a : act (wire_elem loss t0) w (w_of a) = wlift (wire_act loss w a).
Proof.
  destruct a; try reflexivity. cbn [w_of act wire_elem advance wlift].
  destruct (wire_act loss w (WAdvance t)) as [[w' o]|] eqn:E; [|reflexivity].
  rewrite (wire_adv_outs _ _ _ _ _ E). reflexivity.
Qed.

Lemma wire_elem_act_to loss t0 w a w' o :
  act (wire_elem loss t0) w a = Some (w', o) -> w_of (w_to a) = a /\ wlift (wire_act loss w (w_to a)) = Some (w', o).
Proof.
  destruct a as [p|l|t]; cbn [act wire_elem put step advance w_to].
  - intros H. split; [reflexivity|exact H].
  - destruct (wire_internal l) eqn:El; [|discriminate]. intros H. split; [|exact H]. destruct l; try reflexivity; discriminate.
  - destruct (wire_act loss w (WAdvance t)) as [[w1 o1]|] eqn:E; [|discriminate].
    intros H. injection H as <- <-. split; [reflexivity|]. cbn [wlift]. rewrite (wire_adv_outs _ _ _ _ _ E). reflexivity.
Qed.

(* every execution of the model is an execution of the adapter ... *)
Theorem wire_run_elem loss t0 : forall acts w w' tr,
  wire_run loss w acts = Some (w', tr) -> run (wire_elem loss t0) w (map w_of acts) = Some (w', map w_ev tr).
Proof.
  induction acts as [|a acts IH]; intros w w' tr H; cbn [wire_run] in H.
  - injection H as <- <-. reflexivity.
  - destruct (wire_act loss w a) as [[w1 o]|] eqn:Ea; [|discriminate].
    destruct (wire_run loss w1 acts) as [[w2 tr1]|] eqn:Er; [|discriminate]. injection H as <- <-.
    cbn [map run]. rewrite wire_elem_act_of, Ea. cbn [wlift]. rewrite (IH _ _ _ Er). reflexivity.
Qed.

(* ... and conversely: the adapter has no other executions *)
Theorem wire_elem_run loss t0 : forall acts w w' tr,
  run (wire_elem loss t0) w acts = Some (w', tr) ->
  exists tr0, wire_run loss w (map w_to acts) = Some (w', tr0) /\ tr = map w_ev tr0 /\ map w_of (map w_to acts) = acts.
Proof.
  induction acts as [|a acts IH]; intros w w' tr H; cbn [run] in H.
  - injection H as <- <-. exists []. auto.
  - destruct (act (wire_elem loss t0) w a) as [[w1 o]|] eqn:Ea; [|discriminate].
    destruct (run (wire_elem loss t0) w1 acts) as [[w2 tr1]|] eqn:Er; [|discriminate]. injection H as <- <-.
    destruct (wire_elem_act_to _ _ _ _ _ _ Ea) as [Hn Hl]. destruct (IH _ _ _ Er) as (tr0 & R0 & -> & Hm).
    unfold wlift in Hl. destruct (wire_act loss w (w_to a)) as [[w1' o']|] eqn:E0; [|discriminate]. injection Hl as -> <-.
    exists ((wnow w1, w_to a, o') :: tr0). cbn [map wire_run]. rewrite E0, R0. repeat split.
    + unfold w_ev at 2. cbn [fst snd]. rewrite Hn. reflexivity.
    + rewrite Hn, Hm. reflexivity.
Qed.

(* what the interface trace functions are on a model trace *)
Lemma wire_puts tr : puts (map w_ev tr) = map snd (arrivals tr).
Proof.
  induction tr as [|[[t a] o] tr IH]; [reflexivity|]. cbn [map]. unfold w_ev at 1. cbn [fst snd]. rewrite puts_cons, IH.
  unfold arrivals. cbn [flat_map]. rewrite map_app. destruct a; reflexivity.
Qed.
Lemma wire_o_fwds o : o_fwds (map wout_e o) = flat_map (fun x => match x with ODeliver p => [p] | OLost _ => [] end) o.
Proof. induction o as [|x o IH]; [reflexivity|]. cbn [map]. rewrite o_fwds_cons, IH. destruct x; reflexivity. Qed.
Lemma wire_o_drops o : o_drops (map wout_e o) = flat_map (fun x => match x with OLost p => [p] | ODeliver _ => [] end) o.
Proof. induction o as [|x o IH]; [reflexivity|]. cbn [map]. rewrite o_drops_cons, IH. destruct x; reflexivity. Qed.
Lemma map_snd_flat_map {X} (t : Q) (g : X -> list pkt) (h : X -> list (Q * pkt)) (o : list X) :
  (forall x, map snd (h x) = g x) -> map snd (flat_map h o) = flat_map g o.
Proof. intros E. induction o as [|x o IH]; [reflexivity|]. cbn. rewrite map_app, E, IH. reflexivity. Qed.
Lemma wire_fwds tr : fwds (map w_ev tr) = map snd (tdeliv tr).
Proof.
  induction tr as [|[[t a] o] tr IH]; [reflexivity|]. cbn [map]. unfold w_ev at 1. cbn [fst snd]. rewrite fwds_cons, IH.
  unfold tdeliv. cbn [flat_map]. rewrite map_app. f_equal. rewrite wire_o_fwds. symmetry.
  apply (map_snd_flat_map t). intros []; reflexivity.
Qed.
Lemma wire_drops tr : drops (map w_ev tr) = map snd (tlost tr).
Proof.
  induction tr as [|[[t a] o] tr IH]; [reflexivity|]. cbn [map]. unfold w_ev at 1. cbn [fst snd]. rewrite drops_cons, IH.
  unfold tlost. cbn [flat_map]. rewrite map_app. f_equal. rewrite wire_o_drops. symmetry.
  apply (map_snd_flat_map t). intros []; reflexivity.
Qed.

Lemma subseq_sublist {X} (a b : list X) : WireProofs.subseq a b -> sublist a b.
Proof. induction 1; constructor; auto. Qed.

(* nothing due now and no timeout pending: no internal step of the wire is enabled *)
Lemma wire_quiet loss w : wurgent w = false -> hold w = None ->
  forall a, (forall p, a <> WPut p) -> (forall t, a <> WAdvance t) -> wire_act loss w a = None.
Proof.
  unfold wurgent. intros U Hh a Np Nt. apply orb_false_elim in U as [U _]. apply orb_false_elim in U as [Us Uq].
  apply negb_false_iff in Us. unfold sq_urgent in Uq. apply orb_false_elim in Uq as [Up Ug].
  apply negb_false_iff, Nat.eqb_eq in Up.
  destruct a as [p| | |u d| |t]; cbn [wire_act].
  - exfalso. eapply Np. reflexivity.
  - rewrite Us. reflexivity.
  - unfold sq_cb. rewrite Up. reflexivity.
  - rewrite Hh. unfold sq_take. destruct (get (wq w)); try reflexivity; discriminate.
  - rewrite Hh. reflexivity.
  - exfalso. eapply Nt. reflexivity.
Qed.

(* ---- the laws ---------------------------------------------------------------------------------------------- *)
Theorem wire_elem_conserves loss t0 : conserves (wire_elem loss t0).
Proof.
  intros acts s tr H. destruct (wire_elem_run _ _ _ _ _ _ H) as (tr0 & R0 & -> & _).
  rewrite wire_puts, wire_fwds, wire_drops. exact (wire_conserves _ _ _ _ _ R0).
Qed.

Theorem wire_elem_flow_fifo loss t0 f : flow_fifo (wire_elem loss t0) f.
Proof.
  intros acts s tr H. destruct (wire_elem_run _ _ _ _ _ _ H) as (tr0 & R0 & -> & _).
  rewrite wire_puts, wire_fwds. apply subseq_sublist. exact (wire_flow_fifo _ _ _ _ _ R0 f).
Qed.

Theorem wire_elem_drained loss t0 : drained (wire_elem loss t0).
Proof.
  intros acts s tr H _ U Dl. destruct (wire_elem_run _ _ _ _ _ _ H) as (tr0 & R0 & _ & _).
  cbn [urgent deadline wire_elem] in U, Dl.
  assert (Hh : hold s = None) by (destruct (hold s) as [[p dl]|]; [discriminate|reflexivity]).
  apply (wire_drained loss t0 s); [eexists; eexists; exact R0|exact Hh|]. apply wire_quiet; assumption.
Qed.

Theorem wire_elem_laws loss t0 : laws (wire_elem loss t0).
Proof. split; [apply wire_elem_conserves|intros f; apply wire_elem_flow_fifo|apply wire_elem_drained]. Qed.

Lemma wire_act_now loss w a w' o : wire_act loss w a = Some (w', o) -> (forall t, a <> WAdvance t) -> wnow w' = wnow w.
Proof.
  intros H Nt. destruct a as [p| | |u d| |t]; cbn [wire_act] in H.
  - injection H as <- _. reflexivity.
  - destruct (started w); [discriminate|]. unfold server_get in H. cbn [wq] in H.
    destruct (sq_get fifo_pop (wq w)); [|discriminate]. injection H as <- _. reflexivity.
  - destruct (sq_cb fifo_pop (wq w)); [|discriminate]. injection H as <- _. reflexivity.
  - destruct (hold w); [discriminate|]. destruct (sq_take (wq w)) as [[[a0 p] q]|]; [|discriminate].
    destruct (negb (started w)); [discriminate|].
    destruct (lost_dec loss u) as [[|]|]; [| |discriminate]; destruct d as [dd|]; try discriminate.
    + unfold server_get in H. cbn [wq with_q] in H. destruct (sq_get fifo_pop q); [|discriminate]. injection H as <- _. reflexivity.
    + destruct (Qlt_le_dec (wnow w - a0) dd).
      * injection H as <- _. reflexivity.
      * unfold server_get in H. cbn [wq with_q] in H. destruct (sq_get fifo_pop q); [|discriminate]. injection H as <- _. reflexivity.
  - destruct (hold w) as [[p dl]|]; [|discriminate]. destruct (Qeq_bool dl (wnow w)); [|discriminate].
    unfold server_get in H. cbn [wq] in H. destruct (sq_get fifo_pop (wq w)); [|discriminate]. injection H as <- _. reflexivity.
  - exfalso. eapply Nt. reflexivity.
Qed.

Theorem wire_elem_timed loss t0 : timed (wire_elem loss t0).
Proof.
  repeat split.
  - intros p s s' o H. cbn [put wire_elem] in H. unfold wlift in H.
    destruct (wire_act loss s (WPut p)) as [[w' o']|] eqn:E; [|discriminate]. injection H as <- _.
    apply (wire_act_now _ _ _ _ _ E). discriminate.
  - intros l s s' o H. cbn [step wire_elem] in H. destruct (wire_internal l) eqn:El; [|discriminate]. unfold wlift in H.
    destruct (wire_act loss s l) as [[w' o']|] eqn:E; [|discriminate]. injection H as <- _.
    apply (wire_act_now _ _ _ _ _ E). intros t ->. discriminate.
  - cbn [advance wire_elem wire_act] in H. destruct (wurgent s); [discriminate|]. destruct (Qlt_le_dec (wnow s) t); [|discriminate].
    destruct (hold s) as [[p dl]|]; [destruct (Qle_bool t dl); [|discriminate]|]; injection H as <-; reflexivity.
  - cbn [advance wire_elem wire_act] in H. destruct (wurgent s); [discriminate|]. destruct (Qlt_le_dec (wnow s) t); [|discriminate]. assumption.
  - cbn [advance wire_elem wire_act] in H. cbn [urgent wire_elem]. destruct (wurgent s); [discriminate|reflexivity].
  - cbn [advance wire_elem wire_act] in H. cbn [deadline wire_elem]. destruct (wurgent s); [discriminate|].
    destruct (Qlt_le_dec (wnow s) t); [|discriminate]. intros d Hd.
    destruct (hold s) as [[p dl]|]; [|discriminate]. injection Hd as <-.
    destruct (Qle_bool t dl) eqn:El; [|discriminate]. apply Qle_bool_iff. exact El.
Qed.
