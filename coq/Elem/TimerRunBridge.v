(* Bridging lemmas for the GENERATOR body Timer.run (second tie, generator bodies: vlib/translate_gen.py).
   Gen/Extracted_timer_run.v is regenerated from the tree under test on every run: Timer.run cut at its program points,
   the `yield self.env.timeout(self.expire_time - env.now)` (point 1) and the CALL-OUT to the user's callback (point 2:
   the callback may call restart() / stop() on this very timer, so run() goes on with whatever fields it left):
     gen_Timer_run_from_0        entry: the loop test, then the yield or the end of the generator
     gen_Timer_run_from_1        resumed after the timeout: stopped -> loop test; otherwise -> call the callback
     gen_Timer_run_from_1_intr   Interrupt thrown into the generator while it waits: the except clause, then the end
     gen_Timer_run_from_2        the callback has returned: auto_restart re-arms (Timer._arm inlined), then the loop test
   Here the requests get their meaning in the hand-written automaton (Elem/Timer.v: the phase of timer process i) and
   the micro-steps TProcInit / TProcTimeout / TProcInterrupt are proved to be EXACTLY the generated functions, for all
   states, all processes i and all lists of calls the callback makes. *)
From Coq Require Import ZArith QArith List Bool Lqa.
From ONL Require Import Elem.Timer Gen.Extracted_timer_run.
Import ListNotations.

(* the fields of the code, read off the abstract state, and written back *)
Definition timer_run_fields (st : timer) : timer_run_st :=
  {| tr_start_time := tstart st; tr_timeout := tmo st; tr_expire_time := expire st; tr_stopped := stopped st |}.

Definition timer_run_with (st : timer) (f : timer_run_st) : timer :=
  {| tnow := tnow st; tmo := tr_timeout f; expire := tr_expire_time f; tstart := tr_start_time f; stopped := tr_stopped f;
     autor := autor st; cargs := cargs st; procs := procs st; cur := cur st; err := err st |}.

(* what the process does next, as the phase of the automaton: suspended in a Timeout, or ended.  The automaton keeps the
   deadline in the form now + (expire_time - now): the delay the code requests must equal (==) expire_time - now for the
   expire_time the code leaves behind *)
Definition timer_run_phase (st : timer) (f : timer_run_st) (n : timer_run_next) : option phase :=
  match n with
  | NxYield (RqTimeout d) PP1 =>
      if Qeq_bool d (tr_expire_time f - tnow st) then Some (PWait (tnow st + (tr_expire_time f - tnow st))) else None
  | NxExit => Some PDone
  | _ => None
  end.

(* process i has run to its next request: the fields as the code left them, the process in the phase of that request;
   tweak = what the kernel step itself did to the process record (an Interruption is consumed) *)
Definition timer_run_finish (st : timer) (i : nat) (tweak : tproc -> tproc)
           (g : timer_run_st * list timer_run_fx * timer_run_next) : option timer :=
  match g with
  | (f, fx, n) =>
      match fx, timer_run_phase st f n with
      | [], Some q => let st' := timer_run_with st f in
                      Some (set_procs st' (upd i (fun p => set_ph q (tweak p)) (procs st')))
      | _, _ => None
      end
  end.

Definition silent (o : option timer) : option (timer * list tout) :=
  match o with Some s => Some (s, []) | None => None end.

(* the generated functions on the abstract state; nx = math.nextafter(now, inf), which Timer._arm substitutes for
   now + timeout when a positive timeout vanishes in float rounding: dead in exact arithmetic, so the bridge holds for
   EVERY nx *)
Definition timer_gen0 (st : timer) (nx : Q) := gen_Timer_run_from_0 (timer_run_fields st) (tnow st) (autor st) nx.
Definition timer_gen1 (st : timer) (nx : Q) := gen_Timer_run_from_1 (timer_run_fields st) (tnow st) (autor st) nx.
Definition timer_gen1i (st : timer) (nx : Q) := gen_Timer_run_from_1_intr (timer_run_fields st) (tnow st) (autor st) nx.
Definition timer_gen2 (st : timer) (nx : Q) := gen_Timer_run_from_2 (timer_run_fields st) (tnow st) (autor st) nx.

(* the Timeout of process i is processed.  If run() calls the callback (NxCall CoCallback at point 2): it runs with
   *self.args (a non-iterable args raises before the callback runs: only before the repair), makes the calls cs on its
   own timer in order -- an exception of such a call escapes run() and ends the process --, and run() goes on from
   point 2 on the fields the calls left.  If run() does not call it, it cannot have made calls. *)
Definition timer_run_timeout (st : timer) (i : nat) (cs : list call) (nx : Q) : option (timer * list tout) :=
  match timer_gen1 st nx with
  | (f1, [], NxCall CoCallback PP2) =>
      let st0 := timer_run_with st f1 in
      match cargs st0 with
      | None => Some (set_err (set_procs st0 (upd i (set_ph PDone) (procs st0))) ENotIterable, [])
      | Some a =>
          let st1 := fold_left (apply_call fixed i) cs st0 in
          match err st1 with
          | Some _ => Some (set_procs st1 (upd i (set_ph PDone) (procs st1)), [OFire a])
          | None => match timer_run_finish st1 i (fun p => p) (timer_gen2 st1 nx) with
                    | Some st2 => Some (st2, [OFire a])
                    | None => None
                    end
          end
      end
  | (f1, [], n1) =>
      match cs with
      | [] => silent (timer_run_finish st i (fun p => p) (f1, [], n1))
      | _ => None
      end
  | _ => None
  end.

(* ---- tactics ----------------------------------------------------------------------------------------------- *)
Ltac cbnq := cbn -[Qplus Qminus Qmult Qdiv Qopp Qinv Qle_bool Qeq_bool Qlt_le_dec].
Ltac qb :=
  repeat match goal with
         | H : Qle_bool _ _ = true |- _ => apply Qle_bool_iff in H
         | H : Qle_bool ?a ?b = false |- _ =>
             assert (~ a <= b) by (let K := fresh in intro K; apply Qle_bool_iff in K; congruence); clear H
         end.

(* the requested delay is == the canonical one *)
Ltac delay_ok :=
  repeat match goal with
         | |- context [Qeq_bool ?a ?b] =>
             replace (Qeq_bool a b) with true by (symmetry; apply Qeq_bool_iff; ring)
         end.

(* the guard of _arm's substitution is dead in exact arithmetic *)
Lemma run_arm_guard_dead (now tau : Q) :
  negb (Qle_bool tau (0 # 1)) && negb (negb (Qle_bool (now + tau) now)) = false.
Proof.
  destruct (Qle_bool tau (0 # 1)) eqn:E1; [reflexivity|].
  destruct (Qle_bool (now + tau) now) eqn:E2; [|reflexivity].
  exfalso. qb. lra.
Qed.

(* the loop test and the yield: `while env.now < self.expire_time: yield self.env.timeout(self.expire_time - env.now)` *)
Lemma loop_test (nw ex : Q) (A : Type) (x y : A) :
  (if negb (Qle_bool ex nw) then x else y) = (if Qlt_le_dec nw ex then x else y).
Proof.
  destruct (Qlt_le_dec nw ex); destruct (Qle_bool ex nw) eqn:E; qb; try reflexivity; exfalso; lra.
Qed.

(* ---- TProcInit i = from_0 ---------------------------------------------------------------------------------------- *)
Lemma bridge_timer_run_init : forall (st : timer) (i : nat) (nx : Q),
  timer_act fixed st (TProcInit i) =
    match err st with
    | Some _ => None
    | None =>
        match nth_error (procs st) i with
        | Some p => match ph p with
                    | PInit => silent (timer_run_finish st i (fun p => p) (timer_gen0 st nx))
                    | _ => None
                    end
        | None => None
        end
    end.
Proof.
  intros st i nx. destruct st as [nw tm ex ts sp au ca ps cu er].
  unfold timer_act; cbn [err procs]. destruct er; [reflexivity|].
  destruct (nth_error ps i) as [p|]; [|reflexivity]. destruct (ph p); try reflexivity.
  unfold timer_gen0, gen_Timer_run_from_0, timer_run_fields, loop_phase. cbnq.
  rewrite loop_test. destruct (Qlt_le_dec nw ex); cbnq; delay_ok; reflexivity.
Qed.

(* ---- TProcInterrupt i = from_1_intr -------------------------------------------------------------------------- *)
Lemma bridge_timer_run_interrupt : forall (st : timer) (i : nat) (nx : Q),
  timer_act fixed st (TProcInterrupt i) =
    match err st with
    | Some _ => None
    | None =>
        match nth_error (procs st) i with
        | Some p =>
            if Nat.eqb (intr p) 0 then None else
            match ph p with
            | PInit => None
            | PWait _ => silent (timer_run_finish st i sub_intr (timer_gen1i st nx))
            | _ => Some (set_procs st (upd i sub_intr (procs st)), [])
            end
        | None => None
        end
    end.
Proof.
  intros st i nx. destruct st as [nw tm ex ts sp au ca ps cu er].
  unfold timer_act; cbn [err procs]. destruct er; [reflexivity|].
  destruct (nth_error ps i) as [p|]; [|reflexivity]. destruct (Nat.eqb (intr p) 0); [reflexivity|].
  destruct (ph p); reflexivity.
Qed.

(* ---- TProcTimeout i cs = from_1 [; the callback's calls; from_2] ------------------------------------------------ *)
Lemma finish_loop (st : timer) (i : nat) (nx : Q) :
  timer_run_finish st i (fun p => p) (timer_gen2 st nx) =
    Some (let st2 := rebase st in set_procs st2 (upd i (set_ph (loop_phase st2)) (procs st2))).
Proof.
  destruct st as [nw tm ex ts sp au ca ps cu er].
  unfold timer_gen2, gen_Timer_run_from_2, timer_run_fields, rebase, loop_phase. cbnq.
  rewrite run_arm_guard_dead. destruct au; cbnq; rewrite loop_test.
  - destruct (Qlt_le_dec nw (nw + tm)); cbnq; delay_ok; reflexivity.
  - destruct (Qlt_le_dec nw ex); cbnq; delay_ok; reflexivity.
Qed.

Lemma bridge_timer_run_timeout : forall (st : timer) (i : nat) (cs : list call) (nx : Q),
  timer_act fixed st (TProcTimeout i cs) =
    match err st with
    | Some _ => None
    | None =>
        match nth_error (procs st) i with
        | Some p => match ph p with
                    | PWait d => if Qeq_bool d (tnow st) && negb (any_urgent st) then timer_run_timeout st i cs nx else None
                    | _ => None
                    end
        | None => None
        end
    end.
Proof.
  intros st i cs nx. destruct st as [nw tm ex ts sp au ca ps cu er].
  unfold timer_act; cbn [err procs tnow]. destruct er; [reflexivity|].
  destruct (nth_error ps i) as [p|]; [|reflexivity]. destruct (ph p) as [|d| |]; try reflexivity.
  match goal with |- context [Qeq_bool d nw && ?u] => destruct (Qeq_bool d nw && u); [|reflexivity] end.
  unfold timer_run_timeout, timer_gen1, gen_Timer_run_from_1, timer_run_fields.
  cbn [stopped tr_stopped tr_expire_time tr_start_time tr_timeout tstart tmo expire tnow autor].
  destruct sp; cbn [negb].
  - (* stopped: the loop test, no callback *)
    rewrite loop_test. unfold loop_phase; cbnq.
    destruct cs; destruct (Qlt_le_dec nw ex); cbnq; delay_ok; reflexivity.
  - (* the callback is called; run() goes on from point 2 on the fields its calls left *)
    unfold timer_run_with; cbnq. destruct ca as [a|]; [|reflexivity].
    match goal with |- context [fold_left ?f cs ?s0] => set (st1 := fold_left f cs s0) end.
    destruct (err st1); [reflexivity|].
    rewrite finish_loop. reflexivity.
Qed.

(* ---- the generated functions, explicitly ---------------------------------------------------------------------------
   run() writes a field only when auto_restart re-arms; the delay requested equals expire_time - now and is requested iff
   now < expire_time; a stopped timer does not call the callback *)
Definition next_is_wait (s : timer) (n : timer_run_next) : Prop :=
  if Qlt_le_dec (tnow s) (expire s)
  then exists d, n = NxYield (RqTimeout d) PP1 /\ d == expire s - tnow s
  else n = NxExit.

Lemma timer_run_explicit : forall (st : timer) (nx : Q),
  (fst (timer_gen0 st nx) = (timer_run_fields st, []) /\ next_is_wait st (snd (timer_gen0 st nx))) /\
  (fst (timer_gen1 st nx) = (timer_run_fields st, []) /\
   if stopped st then next_is_wait st (snd (timer_gen1 st nx)) else snd (timer_gen1 st nx) = NxCall CoCallback PP2) /\
  timer_gen1i st nx = (timer_run_fields st, [], NxExit) /\
  (fst (timer_gen2 st nx) = (timer_run_fields (rebase st), []) /\ next_is_wait (rebase st) (snd (timer_gen2 st nx))).
Proof.
  intros st nx. destruct st as [nw tm ex ts sp au ca ps cu er].
  unfold timer_gen0, timer_gen1, timer_gen1i, timer_gen2, gen_Timer_run_from_0, gen_Timer_run_from_1,
    gen_Timer_run_from_1_intr, gen_Timer_run_from_2, timer_run_fields, rebase, next_is_wait. cbnq.
  rewrite run_arm_guard_dead. repeat split.
  - rewrite loop_test. destruct (Qlt_le_dec nw ex); reflexivity.
  - rewrite loop_test. destruct (Qlt_le_dec nw ex); cbnq; [eexists; split; [reflexivity|ring]|reflexivity].
  - destruct sp; cbnq; [|reflexivity]. rewrite loop_test. destruct (Qlt_le_dec nw ex); reflexivity.
  - destruct sp; cbnq; [|reflexivity]. rewrite loop_test.
    destruct (Qlt_le_dec nw ex); cbnq; [eexists; split; [reflexivity|ring]|reflexivity].
  - destruct au; cbnq; rewrite loop_test.
    + destruct (Qlt_le_dec nw (nw + tm)); reflexivity.
    + destruct (Qlt_le_dec nw ex); reflexivity.
  - destruct au; cbnq; rewrite loop_test.
    + destruct (Qlt_le_dec nw (nw + tm)); cbnq; [eexists; split; [reflexivity|ring]|reflexivity].
    + destruct (Qlt_le_dec nw ex); cbnq; [eexists; split; [reflexivity|ring]|reflexivity].
Qed.
