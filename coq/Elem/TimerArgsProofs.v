(* Proofs about Elem/TimerArgs.v: what the callback receives for every shape of `args`. *)
From Coq Require Import ZArith QArith List Bool.
From ONL Require Import Elem.Timer Elem.TimerArgs.
Import ListNotations.

Theorem args_normalised (v : pyval) :
  (v = VNone -> py_norm_args v = []) /\
  (is_list_or_tuple v = true -> py_norm_args v = elements v /\ py_stored_args v = v) /\
  (v <> VNone -> is_list_or_tuple v = false -> py_norm_args v = [v]).
Proof.
  split; [intros ->; reflexivity|]. split.
  - intros H. destruct v; try discriminate; split; reflexivity.
  - intros Hn Hl. destruct v; try discriminate; try reflexivity. congruence.
Qed.

(* scalars of the kinds that look like sequences or are falsy: one positional argument, the object itself *)
Theorem scalar_args_one_argument :
  (forall s, py_norm_args (VStr s) = [VStr s]) /\ (forall s, py_norm_args (VBytes s) = [VBytes s]) /\
  (forall s, py_norm_args (VByteArray s) = [VByteArray s]) /\
  (forall z, py_norm_args (VInt z) = [VInt z]) /\ (forall b, py_norm_args (VBool b) = [VBool b]) /\
  (forall q, py_norm_args (VFloat q) = [VFloat q]) /\ (forall q, py_norm_args (VFrac q) = [VFrac q]) /\
  (forall kv, py_norm_args (VDict kv) = [VDict kv]) /\ (forall l, py_norm_args (VSet l) = [VSet l]) /\
  (forall l, py_norm_args (VFrozenSet l) = [VFrozenSet l]) /\ (forall l, py_norm_args (VDeque l) = [VDeque l]) /\
  (forall a b c, py_norm_args (VRange a b c) = [VRange a b c]) /\ py_norm_args VGen = [VGen] /\
  (forall n, py_norm_args (VOther n) = [VOther n]).
Proof. repeat split; intros; reflexivity. Qed.

(* lists, tuples and their subclasses are the argument list; nesting is not flattened *)
Theorem list_args_are_the_arguments (l : list pyval) :
  py_norm_args (VList l) = l /\ py_norm_args (VTuple l) = l /\ py_norm_args (VNamedTuple l) = l /\
  py_norm_args (VListSub l) = l.
Proof. repeat split; reflexivity. Qed.

(* the automaton's argument tokens are this normalisation, on the shapes it distinguishes *)
Theorem automaton_args_link (a : targs) (l : list Z) :
  norm_args fixed a = Some l -> py_norm_args (emb a) = map VInt l.
Proof.
  destruct a as [|z|l0]; cbn; intros H; injection H as <-; reflexivity.
Qed.

Example ex_args_string : py_norm_args (VStr [115; 101; 103]%Z) = [VStr [115; 101; 103]%Z]
                         /\ py_norm_args (VStr []) = [VStr []]
                         /\ py_norm_args (VTuple [VStr [97]%Z; VList [VInt 1]]) = [VStr [97]%Z; VList [VInt 1]].
Proof. repeat split; reflexivity. Qed.
