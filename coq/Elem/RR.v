(* Model of onl/scheduler/rr.py (RR) over Elem/SchedBase.v: one pass visits the flow list in declaration order, a
   class whose queue_count is positive sends exactly one packet per visit. *)
From Coq Require Import ZArith QArith List Bool.
From ONL Require Import Elem.Packet Elem.StoreQ Elem.SchedBase.
Import ListNotations.

Definition rr_cfg (r : Q) (fl : list Z) : mq_cfg :=
  {| rate := r; pass := map (fun f => (f, 1%nat)) fl; by_count := true; brk := false;
     cls := fun f => f; sflows := nodup Z.eq_dec fl |}.

Definition rr_act (r : Q) (fl : list Z) := mq_act (rr_cfg r fl).
Definition rr_run (r : Q) (fl : list Z) (acts : list saction) := mq_run (rr_cfg r fl) (mq0 (rr_cfg r fl)) acts.
