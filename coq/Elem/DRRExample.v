(* A concrete admissible execution of the DRR model, taken from a run of the real scheduler (the action list the
   harness logged): two classes with weights 1 and 2 (quanta 1500 and 3000), flows 1 and 7 share class 1, a 2000-byte
   head that must be parked for one round, a class that empties and refills.  Used by the non-vacuity Examples. *)
From Coq Require Import ZArith QArith List Bool.
From ONL Require Import Elem.Packet Elem.StoreQ Elem.DRR Elem.DRRInv Elem.DRRProofs Elem.DRRVisit Elem.DRRFair Elem.DRRLive.
Import ListNotations.

Definition dex_cfg : dcfg := {| drate := ((8192)%Z # 1); dweights := [((0)%Z, (1)%Z); ((1)%Z, (2)%Z)]; df2c := dtbl [((0)%Z, (0)%Z); ((1)%Z, (1)%Z); ((7)%Z, (1)%Z)] |}.
Definition dex_acts : list daction :=
  [DInit;
   DPut (mkp 0%nat (1)%Z (0)%Z (2000)%Z ((0)%Z # 1));
   DPut (mkp 1%nat (2)%Z (1)%Z (1000)%Z ((0)%Z # 1));
   DPut (mkp 2%nat (3)%Z (7)%Z (1000)%Z ((0)%Z # 1));
   DPut (mkp 3%nat (4)%Z (0)%Z (500)%Z ((0)%Z # 1));
   DStoreCb None;
   DStoreCb (Some (0)%Z);
   DStoreCb (Some (1)%Z);
   DStoreCb (Some (1)%Z);
   DStoreCb (Some (0)%Z);
   DGetDone None;
   DGetDone (Some (0)%Z);
   DGetDone (Some (1)%Z);
   DChildInit;
   DAdvance ((125)%Z # 128);
   DChildTimer;
   DChildEnd;
   DGetDone (Some (1)%Z);
   DChildInit;
   DAdvance ((125)%Z # 64);
   DChildTimer;
   DChildEnd;
   DChildInit;
   DAdvance ((125)%Z # 32);
   DChildTimer;
   DChildEnd;
   DGetDone (Some (0)%Z);
   DChildInit;
   DAdvance ((4)%Z # 1);
   DPut (mkp 4%nat (5)%Z (1)%Z (256)%Z ((4)%Z # 1));
   DStoreCb (Some (1)%Z);
   DAdvance ((1125)%Z # 256);
   DChildTimer;
   DChildEnd;
   DGetDone (Some (1)%Z);
   DChildInit;
   DAdvance ((1189)%Z # 256);
   DChildTimer;
   DChildEnd].
(* forwarded uids: [1, 2, 0, 3, 4] *)

Lemma dex_wf : dwf dex_cfg.
Proof.
  unfold dwf, dex_cfg; cbn. split; [reflexivity|]. split; [discriminate|]. split.
  - repeat constructor; cbn; intuition discriminate.
  - intros x [<-|[<-|[]]]; reflexivity.
Qed.

Definition dex_final : option (drr * list dtev) := drr_run dex_cfg (drr0 0) dex_acts.

(* the execution is admissible; packets leave in the order 1,2,0,3,4 (uid 0 is parked in the first round); at the end
   nothing is held, nothing is urgent, no credit is left *)
Example dex_runs :
  exists d tr, dex_final = Some (d, tr)
    /\ map uid (dfwds tr) = [1; 2; 0; 3; 4]%nat
    /\ map uid (dputs tr) = [0; 1; 2; 3; 4]%nat
    /\ durgent dex_cfg d = false /\ dchd d = DCNone
    /\ dheld dex_cfg d 0 = [] /\ dheld dex_cfg d 1 = []
    /\ Qeq_bool (ddef d 0) 0 = true /\ Qeq_bool (ddef d 1) 0 = true /\ dlmax d = 2000%Z.
Proof.
  destruct dex_final as [[d tr]|] eqn:E; [|vm_compute in E; discriminate].
  exists d, tr. split; [reflexivity|].
  assert (H : Some (d, tr) = dex_final) by (symmetry; exact E). clear E.
  vm_compute in H. injection H as -> ->. vm_compute. repeat split; reflexivity.
Qed.

(* a state in the middle: after the first round the 2000-byte head of class 0 is parked with credit 1500 *)
Example dex_parked :
  exists d tr, drr_run dex_cfg (drr0 0) (firstn 13 dex_acts) = Some (d, tr)
    /\ option_map uid (dhol d 0) = Some 0%nat /\ Qeq_bool (ddef d 0) 1500 = true /\ Qeq_bool (ddef d 1) 3000 = true
    /\ dvisiting d = Some 1%Z /\ map uid (dheld dex_cfg d 1) = [1; 2]%nat.
Proof.
  destruct (drr_run dex_cfg (drr0 0) (firstn 13 dex_acts)) as [[d tr]|] eqn:E; [|vm_compute in E; discriminate].
  exists d, tr. split; [reflexivity|]. vm_compute in E. injection E as <- <-. vm_compute. repeat split; reflexivity.
Qed.

(* the hypothesis of the fairness theorem is satisfiable: after the first 13 actions both classes hold packets, and
   they keep holding packets throughout the next 4 actions (one transmission of class 1 from start to debit) *)
Example dex_both_backlogged :
  exists d1 tr1, drr_run dex_cfg (drr0 0) (firstn 13 dex_acts) = Some (d1, tr1)
    /\ dalways dex_cfg (fun x => dheld dex_cfg x 0 <> [] /\ dheld dex_cfg x 1 <> []) d1 (firstn 4 (skipn 13 dex_acts))
    /\ exists d2 tr2, drr_run dex_cfg d1 (firstn 4 (skipn 13 dex_acts)) = Some (d2, tr2)
         /\ dsent dex_cfg 1 tr2 = 1000%Z /\ dsent dex_cfg 0 tr2 = 0%Z.
Proof.
  destruct (drr_run dex_cfg (drr0 0) (firstn 13 dex_acts)) as [[d1 tr1]|] eqn:E; [|vm_compute in E; discriminate].
  exists d1, tr1. split; [reflexivity|]. vm_compute in E. injection E as <- <-. split.
  - vm_compute. repeat split; discriminate.
  - eexists. eexists. split; [vm_compute; reflexivity|]. vm_compute. split; reflexivity.
Qed.

(* the visit automaton accepts the events of the action that parks the 2000-byte head and moves on to class 1 *)
Example dex_park_events :
  exists d tr d' ev, drr_run dex_cfg (drr0 0) (firstn 11 dex_acts) = Some (d, tr)
    /\ drr_act dex_cfg d (DGetDone (Some 0%Z)) = Some (d', ev)
    /\ match ev with [DOPark 0%Z p; DOQuantum 1%Z] => uid p = 0%nat | _ => False end.
Proof.
  destruct (drr_run dex_cfg (drr0 0) (firstn 11 dex_acts)) as [[d tr]|] eqn:E; [|vm_compute in E; discriminate].
  destruct (drr_act dex_cfg d (DGetDone (Some 0%Z))) as [[d' ev]|] eqn:A.
  - exists d, tr, d', ev. split; [reflexivity|]. split; [exact A|].
    vm_compute in E. injection E as <- <-. vm_compute in A. injection A as <- <-. reflexivity.
  - exfalso. vm_compute in E. injection E as <- <-. vm_compute in A. discriminate.
Qed.
