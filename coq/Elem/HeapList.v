(* The PriorityStore as the WFQ / VirtualClock models see it: a plain list in arrival order from which
   "pop" extracts the least element w.r.t. the only comparison heapq makes (a < b).  With the arrival
   counter in the key all keys held at one time are pairwise distinct ([distinct_keys]), so the least
   element is unique and CPython's heapq (transcribed in Elem/Heap.v) returns exactly it:
   HeapProofs.heap_sim_push / heap_sim_pop.  Executable; no proofs here. *)
From Coq Require Import List Bool.
Import ListNotations.

Section HeapList.
  Variable A : Type.
  Variable ltb : A -> A -> bool.

  (* the earliest least element of x :: l *)
  Fixpoint lmin (x : A) (l : list A) : A :=
    match l with [] => x | y :: t => lmin (if ltb y x then y else x) t end.

  (* drop the first element that is not strictly greater than m (m itself when m = lmin) *)
  Fixpoint lremove (m : A) (l : list A) : list A :=
    match l with [] => [] | y :: t => if ltb m y then y :: lremove m t else t end.

  Definition lpop (l : list A) : option (A * list A) :=
    match l with [] => None | x :: t => Some (lmin x t, lremove (lmin x t) l) end.

  Definition lpush (x : A) (l : list A) : list A := l ++ [x].

  (* any two elements at different positions are strictly comparable *)
  Definition distinct_keys (l : list A) : Prop :=
    forall l1 a l2 b l3, l = l1 ++ a :: l2 ++ b :: l3 -> ltb a b = true \/ ltb b a = true.
End HeapList.

Arguments lmin {A} ltb x l.
Arguments lremove {A} ltb m l.
Arguments lpop {A} ltb l.
Arguments lpush {A} x l.
Arguments distinct_keys {A} ltb l.
