(* Bridging lemmas for the GENERATOR body Port.run (second tie, generator bodies: vlib/translate_gen.py).
   Gen/Extracted_port_run.v is regenerated from the tree under test on every run: Port.run cut at its yields into
     gen_Port_run_from_0   entry                                   -> first `yield self.store.get()`
     gen_Port_run_from_1   resumed with a packet after the get     -> `yield env.timeout(size*8/rate)` | forward, loop to get
     gen_Port_run_from_2   resumed after the transmission timeout  -> byte_size -= size, forward, loop to the get
   each returning the code's fields (byte_size, busy, busy_packet_size), the effects in program order (out.put, with
   what the downstream can see of the port during the call) and the next request with its program point.
   Here the requests / effects get their meaning in the hand-written automaton (Elem/Port.v) and the three micro-steps
   PInit / PGet / PTimer -- the steps that model "the process starts / resumes after its get / after its timeout" --
   are proved to be EXACTLY the generated functions, for all states and configurations (repaired code). *)
From Coq Require Import ZArith QArith Qminmax List Bool Lia Lqa Qreduction.
From ONL Require Import Elem.Packet Elem.StoreQ Elem.Port Gen.Extracted_port_run.
Import ListNotations.

(* the fields of the code, read off the abstract state: busy / busy_packet_size are functions of the packet in service *)
Definition port_run_fields (s : port) : port_run_st :=
  {| pr_byte_size := pbytes s; pr_busy := busy_flag s; pr_busy_packet_size := busy_size s |}.

(* an effect of run(): self.out.put(packet) forwards THE packet the process holds (none at entry: no meaning) *)
Definition port_run_out (po : option pkt) (e : port_run_fx) : option pout :=
  match e, po with
  | FxOutPut _ _ _, Some p => Some (OForward p)
  | FxOutPut _ _ _, None => None
  end.

Fixpoint port_run_outs (po : option pkt) (fx : list port_run_fx) : option (list pout) :=
  match fx with
  | [] => Some []
  | e :: t => match port_run_out po e, port_run_outs po t with
              | Some o, Some r => Some (o :: r)
              | _, _ => None
              end
  end.

(* the next request, at its program point:
     `packet = yield self.store.get()` (point 1)   no packet in service; the get is issued to the store
     `yield env.timeout(d)` (point 2)               the held packet is in service until now + d
   anything else (exit, raise, a request at the wrong point) has no counterpart in the automaton *)
Definition port_run_next_state (s : port) (po : option pkt) (f : port_run_st) (n : port_run_next) : option port :=
  let s1 := with_bytes (with_svc s None) (pr_byte_size f) in
  match n, po with
  | NxYield RqStoreGet PP1, _ => server_get s1
  | NxYield (RqTimeout d) PP2, Some p => Some (with_svc s1 (Some (p, Qred (pnow s + d))))
  | _, _ => None
  end.

Definition port_run_step (s : port) (po : option pkt) (g : port_run_st * list port_run_fx * port_run_next)
  : option (port * list pout) :=
  match g with
  | (f, fx, n) =>
      match port_run_next_state s po f n, port_run_outs po fx with
      | Some s', Some outs => Some (s', outs)
      | _, _ => None
      end
  end.

(* the generated functions run on the abstract state; observations: self.rate = c_rate, packet.size = psize p,
   self.out is set (an assumption of C09: a Port without downstream is not modelled) *)
Definition port_gen_init (c : pcfg) (s : port) (size : Z) (out_set : bool) :=
  gen_Port_run_from_0 (port_run_fields s) (c_rate c) size out_set.
Definition port_gen_get (c : pcfg) (s : port) (p : pkt) :=
  gen_Port_run_from_1 (port_run_fields s) (c_rate c) (psize p) true.
Definition port_gen_timer (c : pcfg) (s : port) (p : pkt) :=
  gen_Port_run_from_2 (port_run_fields s) (c_rate c) (psize p) true.

(* ---- tactics -------------------------------------------------------------------------------------------- *)
Ltac qb :=
  repeat match goal with
         | H : Qle_bool _ _ = true |- _ => apply Qle_bool_iff in H
         | H : Qle_bool ?a ?b = false |- _ =>
             assert (~ a <= b) by (let K := fresh in intro K; apply Qle_bool_iff in K; congruence); clear H
         end.

(* computing without opening the arithmetic *)
Ltac cbnq := cbn -[Qred Qplus Qminus Qdiv Qmult Qinv Qopp inject_Z Z.mul Z.sub Z.add Z.opp Qle_bool Qeq_bool Qlt_le_dec].

(* a == b over expressions built from inject_Z, + - * / and a divisor known to be positive *)
Ltac solve_q :=
  rewrite ?inject_Z_mult, ?inject_Z_plus, ?inject_Z_opp;
  first [ reflexivity | ring | field; lra | lra ].

(* the generated delay expression may be a rewritten but equal form of [tx c p]: deadlines are stored reduced *)
Ltac delay_eq c p :=
  first [ reflexivity
        | match goal with
          | |- context [Qred (?a + ?d)] =>
              progress (replace (Qred (a + d)) with (Qred (a + tx c p))
                          by (apply Qred_complete; unfold tx; apply Qplus_comp; [reflexivity | solve_q]));
              reflexivity
          end ].

(* ---- PInit = from_0 ---------------------------------------------------------------------------------------- *)
Lemma bridge_port_run_init : forall (c : pcfg) (s : port) (size : Z) (out_set : bool),
  psvc s = None ->
  port_act c s PInit =
    (if pstarted s then None else port_run_step (with_started s) None (port_gen_init c s size out_set)).
Proof.
  intros c s size out_set Hs. unfold port_gen_init, gen_Port_run_from_0, port_run_step, port_run_next_state, port_run_fields.
  cbnq. destruct s as [nw q st sv by_ rc dr av]; cbn in *; subst sv.
  destruct st; [reflexivity|].
  unfold server_get, with_started, with_bytes, with_svc; cbnq.
  destruct (sq_get fifo_pop q); reflexivity.
Qed.

(* ---- PGet = from_1 ----------------------------------------------------------------------------------------- *)
Lemma bridge_port_run_get : forall (c : pcfg) (s : port),
  c_fix_rate0 c = true ->
  port_act c s PGet =
    match psvc s, sq_take (pq s) with
    | None, Some ((_, p), q) =>
        if negb (pstarted s) then None
        else port_run_step (with_q s q) (Some p) (port_gen_get c (with_q s q) p)
    | _, _ => None
    end.
Proof.
  intros c s Hfix. unfold port_gen_get, gen_Port_run_from_1, port_run_fields.
  destruct s as [nw q st sv by_ rc dr av]; cbn [port_act psvc pq pstarted].
  destruct sv as [[p0 dl]|]; [reflexivity|].
  destruct (sq_take q) as [[[a p] q']|]; [|reflexivity].
  destruct st; cbn [negb]; [|reflexivity].
  unfold leave_now; rewrite Hfix.
  destruct (Qlt_le_dec 0 (c_rate c)) as [Hr|Hr];
    destruct (Qle_bool (c_rate c) (0 # 1)) eqn:E; qb; try (exfalso; lra); cbnq.
  - unfold with_svc, with_bytes, with_q; cbnq. delay_eq c p.
  - unfold server_get, with_svc, with_bytes, with_q; cbnq.
    destruct (sq_get fifo_pop q'); reflexivity.
Qed.

(* ---- PTimer = from_2 --------------------------------------------------------------------------------------- *)
Lemma bridge_port_run_timer : forall (c : pcfg) (s : port),
  port_act c s PTimer =
    match psvc s with
    | Some (p, dl) => if Qeq_bool dl (pnow s) then port_run_step s (Some p) (port_gen_timer c s p) else None
    | None => None
    end.
Proof.
  intros c s. unfold port_gen_timer, gen_Port_run_from_2, port_run_fields.
  destruct s as [nw q st sv by_ rc dr av]; cbn [port_act psvc pnow].
  destruct sv as [[p dl]|]; [|reflexivity].
  destruct (Qeq_bool dl nw); [|reflexivity].
  cbnq. unfold server_get, with_svc, with_bytes; cbnq.
  destruct (sq_get fifo_pop q); reflexivity.
Qed.

(* ---- the code's busy / busy_packet_size / byte_size after a step are those of the automaton's new state -------- *)
Lemma port_run_step_fields_get : forall (c : pcfg) (s : port) (p : pkt) (s' : port) (outs : list pout),
  psvc s = None ->
  port_run_step s (Some p) (port_gen_get c s p) = Some (s', outs) ->
  port_run_fields s' = fst (fst (port_gen_get c s p)).
Proof.
  intros c s p s' outs Hs. unfold port_gen_get, gen_Port_run_from_1, port_run_fields.
  destruct s as [nw q st sv by_ rc dr av]; cbn in Hs; subst sv.
  destruct (Qle_bool (c_rate c) (0 # 1)); cbnq.
  - unfold server_get, with_svc, with_bytes; cbnq. destruct (sq_get fifo_pop q); intros H; inversion H; subst; reflexivity.
  - intros H; inversion H; subst; reflexivity.
Qed.

Lemma port_run_step_fields_timer : forall (c : pcfg) (s : port) (p : pkt) (s' : port) (outs : list pout),
  port_run_step s (Some p) (port_gen_timer c s p) = Some (s', outs) ->
  port_run_fields s' = fst (fst (port_gen_timer c s p)).
Proof.
  intros c s p s' outs. unfold port_gen_timer, gen_Port_run_from_2, port_run_fields.
  destruct s as [nw q st sv by_ rc dr av]; cbnq.
  unfold server_get, with_svc, with_bytes; cbnq. destruct (sq_get fifo_pop q); intros H; inversion H; subst; reflexivity.
Qed.

(* ---- the effects and the next request, explicitly ---------------------------------------------------------------
   out.put(packet) is called while busy = 1, busy_packet_size = the packet's size and byte_size ALREADY decremented;
   the transmission delay is size * 8 / rate, requested iff rate > 0 *)
Lemma port_run_get_explicit : forall (c : pcfg) (s : port) (p : pkt),
  snd (fst (port_gen_get c s p)) =
    (if Qlt_le_dec 0 (c_rate c) then [] else [FxOutPut 1 (psize p) (pbytes s - psize p)]) /\
  match snd (port_gen_get c s p) with
  | NxYield (RqTimeout d) PP2 => 0 < c_rate c /\ d == tx c p
  | NxYield RqStoreGet PP1 => c_rate c <= 0
  | _ => False
  end.
Proof.
  intros c s p. unfold port_gen_get, gen_Port_run_from_1, port_run_fields; cbnq.
  destruct (Qlt_le_dec 0 (c_rate c)) as [Hr|Hr];
    destruct (Qle_bool (c_rate c) (0 # 1)) eqn:E; qb; try (exfalso; lra); cbnq; split; try reflexivity; try assumption.
  split; [assumption|]. unfold tx. solve_q.
Qed.

Lemma port_run_timer_explicit : forall (c : pcfg) (s : port) (p : pkt) (dl : Q),
  psvc s = Some (p, dl) ->
  snd (fst (port_gen_timer c s p)) = [FxOutPut 1 (psize p) (pbytes s - psize p)] /\
  snd (port_gen_timer c s p) = NxYield RqStoreGet PP1.
Proof.
  intros c s p dl Hs. unfold port_gen_timer, gen_Port_run_from_2, port_run_fields, busy_flag, busy_size; cbnq.
  rewrite Hs. split; reflexivity.
Qed.
