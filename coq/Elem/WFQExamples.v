(* Concrete admissible executions of the WFQ and VirtualClock models (Elem/WFQ.v, Elem/VC.v over Elem/WFQServer.v),
   used by the non-vacuity witnesses Props/C12_Examples_WFQ.v and Props/C14_Examples.v.  One action list serves both
   schedulers (same packets, rate 1024 bit/s: 256 B = 2 s, 128 B = 1 s); flows 1 and 5 share class 1.

     instant 0: p0 (flow 0, 256 B), p1 (flow 1, 256 B), p2 (flow 5 -> class 1, 256 B), p3 (flow 0, 128 B) -- a static backlog
     instant 3: p5 (flow 0, 128 B) arrives during a transmission
     instant 9: p4 (flow 1, 128 B) arrives after the scheduler has emptied (instant 8)

   WFQ, weights {0: 1, 1: 2}: stamps p0 = 2, p1 = 1, p2 = 2 (EQUAL to p0's: the arrival counter decides), p3 = 3,
     p5 = max(3, V(3)) + 1 = 4; after the reset at 8: p4 = 0 + 1/2.  Service order p1 p0 p2 p3 p5 | p4.
   VC, vticks {0: 2, 1: 1}: auxVC stamps p0 = 2, p1 = 1, p2 = 2 (equal to p0's), p3 = 4, p5 = max(3, 4) + 2 = 6,
     p4 = max(9, 2) + 1 = 10.  Same service order.
   Transmissions: p1 0..2, p0 2..4, p2 4..6, p3 6..7, p5 7..8, p4 9..10. *)
From Coq Require Import ZArith QArith Qminmax Qabs List Bool Lia.
From ONL Require Import Elem.Packet Elem.StoreQ Elem.HeapList Elem.WFQServer Elem.WFQServerProofs Elem.WFQServerTrace
  Elem.WFQ Elem.WFQProofs Elem.VC Elem.VCProofs Elem.WFQInst.
Import ListNotations.

Lemma split_nth {A : Type} (l : list A) (k : nat) (x : A) :
  nth_error l k = Some x -> l = firstn k l ++ x :: skipn (S k) l.
Proof.
  revert k. induction l as [|y t IH]; intros [|k] H; cbn in *; try discriminate.
  - injection H as ->. reflexivity.
  - f_equal. exact (IH k H).
Qed.

(* [injection] on an equation between results whose sides are unevaluated runs would evaluate them lazily: take the
   components by congruence instead *)
Lemma ok_state_eq {S : Type} {O : Type} (a b : S) (o o' : O) : Ok (a, o) = Ok (b, o') -> a = b.
Proof. intros H. injection H as H1 _. exact H1. Qed.

Lemma some_eq {A : Type} (a b : A) : Some a = Some b -> a = b.
Proof. intros H. injection H as H1. exact H1. Qed.

Definition is_some {A : Type} (o : option A) : bool := match o with Some _ => true | None => false end.

Definition fx_p0 : pkt := mkp 0 1 0 256 0.
Definition fx_p1 : pkt := mkp 1 2 1 256 0.
Definition fx_p2 : pkt := mkp 2 3 5 256 0.
Definition fx_p3 : pkt := mkp 3 4 0 128 0.
Definition fx_p4 : pkt := mkp 4 5 1 128 9.
Definition fx_p5 : pkt := mkp 5 6 0 128 3.

Definition fx_acts : list faction :=
  [FInit; FPut fx_p0; FPut fx_p1; FPut fx_p2; FPut fx_p3; FStoreCb; FStoreCb; FStoreCb; FStoreCb;        (*  0 ..  8 *)
   FGetDone; FChildInit; FAdvance 2; FChildTimer; FChildEnd; FGetDone; FChildInit;                       (*  9 .. 15 *)
   FAdvance 3; FPut fx_p5; FStoreCb; FAdvance 4; FChildTimer; FChildEnd; FGetDone; FChildInit;            (* 16 .. 23 *)
   FAdvance 6; FChildTimer; FChildEnd; FGetDone; FChildInit; FAdvance 7; FChildTimer; FChildEnd;          (* 24 .. 31 *)
   FGetDone; FChildInit; FAdvance 8; FChildTimer; FChildEnd;                                              (* 32 .. 36 *)
   FAdvance 9; FPut fx_p4; FStoreCb; FGetDone; FChildInit; FAdvance 10; FChildTimer; FChildEnd].          (* 37 .. 44 *)

(* ---------------------------------------------------------------- WFQ *)
Definition wfx_cfg : wcfg :=
  {| wrate := 1024; wweights := [(0, 1); (1, 2)]%Z; wf2c := f2c_of [(5, 1)]%Z; wfix_first := true |}.
Definition wfx_state (n : nat) : wfq wfx_cfg :=
  match wfq_run wfx_cfg (wfq0 wfx_cfg) (firstn n fx_acts) with Some (s, _) => s | None => wfq0 wfx_cfg end.
Definition wfx_trace (n : nat) : list (tev (wfq_stamper wfx_cfg)) :=
  match wfq_run wfx_cfg (wfq0 wfx_cfg) (firstn n fx_acts) with Some (_, tr) => tr | None => [] end.

(* the run is accepted (a boolean, cheap to compute) -> it returns the state and trace named above *)
Lemma wfx_run_ok n :
  is_some (wfq_run wfx_cfg (wfq0 wfx_cfg) (firstn n fx_acts)) = true ->
  wfq_run wfx_cfg (wfq0 wfx_cfg) (firstn n fx_acts) = Some (wfx_state n, wfx_trace n).
Proof.
  unfold wfx_state, wfx_trace. destruct (wfq_run wfx_cfg (wfq0 wfx_cfg) (firstn n fx_acts)) as [[s tr]|]; [reflexivity|discriminate].
Qed.

Lemma wfx_cfg_ok : wcfg_ok wfx_cfg.
Proof.
  split; [reflexivity|]. intros c w H. cbn in H.
  destruct (Z.eqb c 0); [injection H as <-; lia|]. destruct (Z.eqb c 1); [injection H as <-; lia|discriminate].
Qed.

Lemma fx_wconf p : In p [fx_p0; fx_p1; fx_p2; fx_p3; fx_p4; fx_p5] -> wconf wfx_cfg p.
Proof.
  intros H. repeat (destruct H as [<-|H]; [split; [vm_compute; intros H0; discriminate H0|vm_compute; intros H0; discriminate H0]|]).
  destruct H.
Qed.

Lemma fx_puts n p : In (FPut p) (firstn n fx_acts) -> In p [fx_p0; fx_p1; fx_p2; fx_p3; fx_p4; fx_p5].
Proof.
  intros H.
  assert (H' : In (FPut p) fx_acts).
  { revert H. generalize fx_acts. clear. intros l. revert n. induction l as [|a l IH]; intros [|n] H; cbn in *; try tauto.
    destruct H as [H|H]; [left; exact H|right; exact (IH n H)]. }
  clear H. cbn in H'.
  repeat (destruct H' as [H'|H']; [first [discriminate H' | (injection H' as <-; cbn; tauto)]|]).
  destruct H'.
Qed.

Lemma wfx_adm n : wadm wfx_cfg (firstn n fx_acts).
Proof. intros p Hp. apply fx_wconf. exact (fx_puts n p Hp). Qed.

Lemma wfx_reach n : wreach wfx_cfg (wfx_state n).
Proof.
  unfold wfx_state.
  destruct (wfq_run wfx_cfg (wfq0 wfx_cfg) (firstn n fx_acts)) as [[s tr]|] eqn:E.
  - eapply run_reach; [apply reach0|exact (wfx_adm n)|exact E].
  - apply reach0.
Qed.

(* ---------------------------------------------------------------- VirtualClock *)
Definition vcx_cfg : vcfg := {| vrate := 1024; vticks := [(0%Z, 2%Q); (1%Z, 1%Q)]; vf2c := f2c_of [(5, 1)]%Z |}.
Definition vcx_state (n : nat) : vc vcx_cfg :=
  match vc_run vcx_cfg (vc0 vcx_cfg) (firstn n fx_acts) with Some (s, _) => s | None => vc0 vcx_cfg end.
Definition vcx_trace (n : nat) : list (tev (vc_stamper vcx_cfg)) :=
  match vc_run vcx_cfg (vc0 vcx_cfg) (firstn n fx_acts) with Some (_, tr) => tr | None => [] end.

Lemma vcx_run_ok n :
  is_some (vc_run vcx_cfg (vc0 vcx_cfg) (firstn n fx_acts)) = true ->
  vc_run vcx_cfg (vc0 vcx_cfg) (firstn n fx_acts) = Some (vcx_state n, vcx_trace n).
Proof.
  unfold vcx_state, vcx_trace. destruct (vc_run vcx_cfg (vc0 vcx_cfg) (firstn n fx_acts)) as [[s tr]|]; [reflexivity|discriminate].
Qed.

Lemma vcx_cfg_ok : vcfg_ok vcx_cfg.
Proof.
  split; [reflexivity|]. intros c v H. cbn in H.
  repeat (match type of H with (if ?b then _ else _) = _ => destruct b; [injection H as <-; reflexivity|] end). discriminate.
Qed.

Lemma fx_vconf p : In p [fx_p0; fx_p1; fx_p2; fx_p3; fx_p4; fx_p5] -> vconf vcx_cfg p.
Proof.
  intros H. repeat (destruct H as [<-|H]; [split; [vm_compute; intros H0; discriminate H0|vm_compute; intros H0; discriminate H0]|]).
  destruct H.
Qed.

Lemma vcx_adm n : vadm vcx_cfg (firstn n fx_acts).
Proof. intros p Hp. apply fx_vconf. exact (fx_puts n p Hp). Qed.

Lemma vcx_reach n : vreach vcx_cfg (vcx_state n).
Proof.
  unfold vcx_state.
  destruct (vc_run vcx_cfg (vc0 vcx_cfg) (firstn n fx_acts)) as [[s tr]|] eqn:E.
  - eapply run_reach; [apply reach0|exact (vcx_adm n)|exact E].
  - apply reach0.
Qed.
