(* Running the heapq transcription (Elem/Heap.v) on a script of pushes and pops, for the correspondence with
   CPython's heapq on PriorityItem-like values (compared by their priority only; the tag tells equal
   priorities apart, so WHICH of two equal items leaves first is checked too).  Executable; no proofs. *)
From Coq Require Import ZArith List Bool.
From ONL Require Import Elem.Heap.
Import ListNotations.

Definition hitem := (Z * Z)%type.                       (* (priority, tag) *)
Definition hitem_ltb (a b : hitem) : bool := Z.ltb (fst a) (fst b).

(* Some x = heappush(heap, x); None = heappop(heap).  Result: the popped items in order (None for a pop of an
   empty heap, which raises IndexError in Python) and the final array; None = the transcription ran out of fuel *)
Fixpoint heap_script (h : list hitem) (ops : list (option hitem)) : option (list (option hitem) * list hitem) :=
  match ops with
  | [] => Some ([], h)
  | Some x :: t =>
      match heappush hitem_ltb h x with
      | Some h' => heap_script h' t
      | None => None
      end
  | None :: t =>
      match h with
      | [] => match heap_script h t with Some (o, hf) => Some (None :: o, hf) | None => None end
      | _ =>
          match heappop hitem_ltb h with
          | Some (x, h') => match heap_script h' t with Some (o, hf) => Some (Some x :: o, hf) | None => None end
          | None => None
          end
      end
  end.

Definition hitem_eqb (a b : hitem) : bool := Z.eqb (fst a) (fst b) && Z.eqb (snd a) (snd b).
Fixpoint hl_eqb (a b : list hitem) : bool :=
  match a, b with [], [] => true | x :: s, y :: t => hitem_eqb x y && hl_eqb s t | _, _ => false end.
Fixpoint ho_eqb (a b : list (option hitem)) : bool :=
  match a, b with
  | [], [] => true
  | Some x :: s, Some y :: t => hitem_eqb x y && ho_eqb s t
  | None :: s, None :: t => ho_eqb s t
  | _, _ => false
  end.

Definition heap_agree (ops : list (option hitem)) (popped : list (option hitem)) (final : list hitem) : bool :=
  match heap_script [] ops with
  | Some (o, hf) => ho_eqb o popped && hl_eqb hf final
  | None => false
  end.
