(* The theorems of WFQServerProofs / WFQServerTrace / WFQProofs / VCProofs instantiated for WFQ and
   VirtualClock, stated on the executable [wfq_run] / [vc_run], with non-vacuity examples replayed from real
   runs of the implementation, and the refutation of the pinned WFQ.put (first-packet stamp).
   "Admissible execution over configured classes" = an action list accepted by [*_run] (every action
   enabled, nothing raises) whose puts are configured packets ([wadm] / [vadm]). *)
From Coq Require Import ZArith QArith Qminmax Qabs List Bool Lia Lqa Permutation.
From ONL Require Import Elem.Packet Elem.StoreQ Elem.StoreQProofs Elem.HeapList Elem.WFQServer Elem.WFQServerProofs
  Elem.WFQServerTrace Elem.WFQ Elem.WFQProofs Elem.VC Elem.VCProofs.
Import ListNotations.

(* Remark (independence of instances): a scheduler instance is one [srv] record; [act] reads and writes nothing
   else, so two instances in one simulation cannot influence each other in the model by construction.  Of the
   code this is checked by the two-instance cases of props/part_wfq.py (each instance replayed against its own
   copy of the model, plus the independence monitor). *)
Definition wcfg_ok (cfg : wcfg) : Prop :=
  0 < wrate cfg /\ forall c w, zlookup c (wweights cfg) = Some w -> (0 < w)%Z.
Definition vcfg_ok (cfg : vcfg) : Prop :=
  0 < vrate cfg /\ forall c v, zlookup c (vticks cfg) = Some v -> 0 < v.
Definition wadm (cfg : wcfg) (acts : list faction) : Prop := puts_conf (wconf cfg) acts.
Definition vadm (cfg : vcfg) (acts : list faction) : Prop := puts_conf (vconf cfg) acts.

Notation WS cfg := (wfq_stamper cfg).
Notation VS cfg := (vc_stamper cfg).

Section W.
  Variable cfg : wcfg.
  Hypothesis Hok : wcfg_ok cfg.
  Let rp : 0 < wrate cfg := proj1 Hok.
  Let wp := proj2 Hok.
  Let D := wfq_disc cfg rp wp.
  Notation R := (wreach cfg).

  Lemma wfq_run_reach acts s' tr : wadm cfg acts -> wfq_run cfg (wfq0 cfg) acts = Some (s', tr) -> R s'.
  Proof. intros C H. eapply run_reach; [apply reach0|exact C|exact H]. Qed.

  (* C08 *)
  Theorem wfq_conserves acts s' tr :
    wfq_run cfg (wfq0 cfg) acts = Some (s', tr) -> Permutation (puts (WS cfg) tr) (fwds (WS cfg) tr ++ held (WS cfg) s').
  Proof. apply srv_conserves. Qed.

  Theorem wfq_flow_fifo acts s' tr f :
    wadm cfg acts -> wfq_run cfg (wfq0 cfg) acts = Some (s', tr) ->
    only f (fwds (WS cfg) tr) ++ only f (held (WS cfg) s') = only f (puts (WS cfg) tr).
  Proof. apply (srv_flow_fifo _ _ rp _ _ _ D). Qed.

  Theorem wfq_drained acts s' tr :
    wadm cfg acts -> wfq_run cfg (wfq0 cfg) acts = Some (s', tr) ->
    urgent s' = false -> (forall e dl, chl s' <> CTx e dl) ->
    held (WS cfg) s' = [] /\ (forall f, qcount s' f = 0%Z /\ qbytes s' f = 0%Z).
  Proof. apply (srv_drained_trace _ _ rp _ _ _ D). Qed.

  Theorem wfq_never_raises s a : R s -> (forall p, a = FPut p -> wconf cfg p) -> wfq_act cfg s a <> Raises.
  Proof. apply (srv_never_raises _ _ rp _ _ _ D). Qed.

  (* C12 *)
  Theorem wfq_work_conserving s :
    R s -> urgent s = false -> (exists e dl, chl s = CTx e dl /\ now s < dl) \/ held (WS cfg) s = [].
  Proof. apply (srv_work_conserving _ _ rp _ _ _ D). Qed.

  Theorem wfq_no_idle_backlog acts s' tr :
    wadm cfg acts -> wfq_run cfg (wfq0 cfg) acts = Some (s', tr) ->
    forall tr1 a o s1 tr2, tr = tr1 ++ (a, o, s1) :: tr2 ->
    held (WS cfg) s1 <> [] -> (forall e dl, chl s1 <> CTx e dl) -> starts_at (WS cfg) (now s1) tr2.
  Proof. apply (srv_no_idle_backlog _ _ rp _ _ _ D). Qed.

  Theorem wfq_back_to_back acts s' tr :
    wadm cfg acts -> wfq_run cfg (wfq0 cfg) acts = Some (s', tr) ->
    forall tr1 o s1 tr2, tr = tr1 ++ (FChildTimer, o, s1) :: tr2 -> held (WS cfg) s1 <> [] -> starts_at (WS cfg) (now s1) tr2.
  Proof. apply (srv_back_to_back _ _ rp _ _ _ D). Qed.

  Theorem wfq_one_at_a_time s a s' o :
    R s -> wfq_act cfg s a = Ok (s', o) ->
    (a = FChildInit -> current_packet s = None /\
       exists e, chl s = CInit e /\ chl s' = CTx e (Qred (now s + tx_time (wrate cfg) (epkt e))) /\ current_packet s' = Some (epkt e)) /\
    (forall e dl, chl s = CTx e dl ->
       (a = FChildTimer /\ o = [OForward (epkt e)] /\ dl == now s /\ chl s' = CEnded e /\ current_packet s' = None) \/
       (a <> FChildTimer /\ chl s' = CTx e dl /\ o = [] /\ now s' <= dl)) /\
    (o <> [] -> a = FChildTimer).
  Proof.
    intros HR A. split; [|split].
    - intros ->. apply (srv_start_when_free _ _ _ _ _ A).
    - intros e dl Ec. apply (srv_never_aborts _ _ rp _ _ _ D s a s' o e dl HR Ec A).
    - apply (srv_only_end_forwards _ _ _ _ _ _ A).
  Qed.

  Theorem wfq_tx_time acts s' tr :
    wadm cfg acts -> wfq_run cfg (wfq0 cfg) acts = Some (s', tr) -> tx_ok (WS cfg) (wrate cfg) None tr.
  Proof. apply (srv_tx_time _ _ rp _ _ _ D). Qed.

  Theorem wfq_exactly_once acts s' tr :
    wadm cfg acts -> wfq_run cfg (wfq0 cfg) acts = Some (s', tr) -> NoDup (map uid (puts (WS cfg) tr)) ->
    NoDup (map uid (fwds (WS cfg) tr)) /\ (forall p, In p (fwds (WS cfg) tr) -> In p (puts (WS cfg) tr)) /\
    (urgent s' = false -> (forall e dl, chl s' <> CTx e dl) -> Permutation (puts (WS cfg) tr) (fwds (WS cfg) tr)).
  Proof. apply (srv_exactly_once _ _ rp _ _ _ D). Qed.

  Theorem wfq_counters s :
    R s -> (forall f, qcount s f = cnt f (held (WS cfg) s) /\ qbytes s f = byt f (held (WS cfg) s)) /\ nrecv s = Z.of_nat (seq s).
  Proof. apply srv_counters. Qed.

  (* C14 *)
  Theorem wfq_stamp_order_service acts s' tr :
    wadm cfg acts -> wfq_run cfg (wfq0 cfg) acts = Some (s', tr) -> sel_ok (WS cfg) (wcls cfg) (wfq0 cfg) None tr.
  Proof. intros C H. apply (srv_stamp_order_gen _ _ rp _ _ _ D acts _ _ _ (reach0 _ _ _ _) C H). Qed.

  Theorem wfq_store_distinct_keys s : R s -> distinct_keys entry_ltb (items (store s)).
  Proof. apply (srv_store_distinct_keys _ _ rp _ _ _ D). Qed.

  Theorem wfq_stamp : wfix_first cfg = true -> forall s p,
    R s -> wconf cfg p ->
    exists s' w F,
      wfq_act cfg s (FPut p) = Ok (s', []) /\
      zlookup (wcls cfg p) (wweights cfg) = Some w /\
      F == Qmax (fin (stm s) (wcls cfg p)) (vtime (stm s')) + (inject_Z (psize p) * 8) / (wrate cfg * inject_Z w) /\
      fin (stm s') (wcls cfg p) == F /\
      (forall c, c <> wcls cfg p -> insys (WS cfg) s <> [] -> fin (stm s') c == fin (stm s) c) /\
      exists F', F' == F /\
        items (store s') = items (store s) ++ [(now s, {| istamp := F'; iseq := Datatypes.S (seq s); ipkt := p |})].
  Proof. intros Fx s p. apply (wfq_stamp_thm cfg rp wp s p Fx). Qed.

  Theorem wfq_vtime s a s' o :
    R s -> (forall p, a = FPut p -> wconf cfg p) -> wfq_act cfg s a = Ok (s', o) ->
    match a with
    | FPut _ =>
        last_time (stm s') = now s /\
        (insys (WS cfg) s = [] -> vtime (stm s') == 0) /\
        (insys (WS cfg) s <> [] -> exists W, weight_sum (wweights cfg) (active (stm s)) = Some W /\ (0 < W)%Z /\
                              vtime (stm s') == vtime (stm s) + (now s - last_time (stm s)) / inject_Z W)
    | FChildEnd =>
        last_time (stm s') = now s /\
        exists W, weight_sum (wweights cfg) (active (stm s)) = Some W /\ (0 < W)%Z /\
          (insys (WS cfg) s' <> [] -> vtime (stm s') == vtime (stm s) + (now s - last_time (stm s)) / inject_Z W /\
                               forall c, fin (stm s') c == fin (stm s) c) /\
          (insys (WS cfg) s' = [] -> vtime (stm s') == 0 /\ forall c, fin (stm s') c == 0)
    | _ => stm s' = stm s
    end.
  Proof. apply (wfq_vtime_thm cfg rp wp). Qed.

  Theorem wfq_active s c : R s -> (In c (active (stm s)) <-> exists p, In p (insys (WS cfg) s) /\ wcls cfg p = c).
  Proof. apply (wfq_active_thm cfg rp wp). Qed.

  Theorem wfq_last_time_le s : R s -> last_time (stm s) <= now s.
  Proof. apply (wfq_last_le cfg rp wp). Qed.

  Theorem wfq_reset s : R s -> insys (WS cfg) s = [] -> vtime (stm s) == 0 /\ forall c, fin (stm s) c == 0.
  Proof. apply (wfq_reset_thm cfg rp wp). Qed.
End W.

Section V.
  Variable cfg : vcfg.
  Hypothesis Hok : vcfg_ok cfg.
  Let rp : 0 < vrate cfg := proj1 Hok.
  Let vp := proj2 Hok.
  Let D := vc_disc cfg vp.
  Notation R := (vreach cfg).

  Theorem vc_conserves acts s' tr :
    vc_run cfg (vc0 cfg) acts = Some (s', tr) -> Permutation (puts (VS cfg) tr) (fwds (VS cfg) tr ++ held (VS cfg) s').
  Proof. apply srv_conserves. Qed.

  Theorem vc_flow_fifo acts s' tr f :
    vadm cfg acts -> vc_run cfg (vc0 cfg) acts = Some (s', tr) ->
    only f (fwds (VS cfg) tr) ++ only f (held (VS cfg) s') = only f (puts (VS cfg) tr).
  Proof. apply (srv_flow_fifo _ _ rp _ _ _ D). Qed.

  Theorem vc_drained acts s' tr :
    vadm cfg acts -> vc_run cfg (vc0 cfg) acts = Some (s', tr) ->
    urgent s' = false -> (forall e dl, chl s' <> CTx e dl) ->
    held (VS cfg) s' = [] /\ (forall f, qcount s' f = 0%Z /\ qbytes s' f = 0%Z).
  Proof. apply (srv_drained_trace _ _ rp _ _ _ D). Qed.

  Theorem vc_never_raises s a : R s -> (forall p, a = FPut p -> vconf cfg p) -> vc_act cfg s a <> Raises.
  Proof. apply (srv_never_raises _ _ rp _ _ _ D). Qed.

  Theorem vc_work_conserving s :
    R s -> urgent s = false -> (exists e dl, chl s = CTx e dl /\ now s < dl) \/ held (VS cfg) s = [].
  Proof. apply (srv_work_conserving _ _ rp _ _ _ D). Qed.

  Theorem vc_no_idle_backlog acts s' tr :
    vadm cfg acts -> vc_run cfg (vc0 cfg) acts = Some (s', tr) ->
    forall tr1 a o s1 tr2, tr = tr1 ++ (a, o, s1) :: tr2 ->
    held (VS cfg) s1 <> [] -> (forall e dl, chl s1 <> CTx e dl) -> starts_at (VS cfg) (now s1) tr2.
  Proof. apply (srv_no_idle_backlog _ _ rp _ _ _ D). Qed.

  Theorem vc_back_to_back acts s' tr :
    vadm cfg acts -> vc_run cfg (vc0 cfg) acts = Some (s', tr) ->
    forall tr1 o s1 tr2, tr = tr1 ++ (FChildTimer, o, s1) :: tr2 -> held (VS cfg) s1 <> [] -> starts_at (VS cfg) (now s1) tr2.
  Proof. apply (srv_back_to_back _ _ rp _ _ _ D). Qed.

  Theorem vc_one_at_a_time s a s' o :
    R s -> vc_act cfg s a = Ok (s', o) ->
    (a = FChildInit -> current_packet s = None /\
       exists e, chl s = CInit e /\ chl s' = CTx e (Qred (now s + tx_time (vrate cfg) (epkt e))) /\ current_packet s' = Some (epkt e)) /\
    (forall e dl, chl s = CTx e dl ->
       (a = FChildTimer /\ o = [OForward (epkt e)] /\ dl == now s /\ chl s' = CEnded e /\ current_packet s' = None) \/
       (a <> FChildTimer /\ chl s' = CTx e dl /\ o = [] /\ now s' <= dl)) /\
    (o <> [] -> a = FChildTimer).
  Proof.
    intros HR A. split; [|split].
    - intros ->. apply (srv_start_when_free _ _ _ _ _ A).
    - intros e dl Ec. apply (srv_never_aborts _ _ rp _ _ _ D s a s' o e dl HR Ec A).
    - apply (srv_only_end_forwards _ _ _ _ _ _ A).
  Qed.

  Theorem vc_tx_time acts s' tr :
    vadm cfg acts -> vc_run cfg (vc0 cfg) acts = Some (s', tr) -> tx_ok (VS cfg) (vrate cfg) None tr.
  Proof. apply (srv_tx_time _ _ rp _ _ _ D). Qed.

  Theorem vc_exactly_once acts s' tr :
    vadm cfg acts -> vc_run cfg (vc0 cfg) acts = Some (s', tr) -> NoDup (map uid (puts (VS cfg) tr)) ->
    NoDup (map uid (fwds (VS cfg) tr)) /\ (forall p, In p (fwds (VS cfg) tr) -> In p (puts (VS cfg) tr)) /\
    (urgent s' = false -> (forall e dl, chl s' <> CTx e dl) -> Permutation (puts (VS cfg) tr) (fwds (VS cfg) tr)).
  Proof. apply (srv_exactly_once _ _ rp _ _ _ D). Qed.

  Theorem vc_counters s :
    R s -> (forall f, qcount s f = cnt f (held (VS cfg) s) /\ qbytes s f = byt f (held (VS cfg) s)) /\ nrecv s = Z.of_nat (seq s).
  Proof. apply srv_counters. Qed.

  Theorem vc_store_distinct_keys s : R s -> distinct_keys entry_ltb (items (store s)).
  Proof. apply (srv_store_distinct_keys _ _ rp _ _ _ D). Qed.

  Theorem vc_stamp_order_service acts s' tr :
    vadm cfg acts -> vc_run cfg (vc0 cfg) acts = Some (s', tr) -> sel_ok (VS cfg) (vcls cfg) (vc0 cfg) None tr.
  Proof. intros C H. apply (srv_stamp_order_gen _ _ rp _ _ _ D acts _ _ _ (reach0 _ _ _ _) C H). Qed.
End V.

(* ---- non-vacuity: executions observed on the real code (corpus/C14), accepted by the models ------------ *)
Definition ex_wcfg : wcfg :=
  {| wrate := 1024 # 1; wweights := [(0, 1); (1, 1)]%Z; wf2c := f2c_of []; wfix_first := true |}.
Definition ex_p0 := mkp 0 1 0 1536 0.
Definition ex_p1 := mkp 1 2 1 96 0.
Definition ex_p2 := mkp 2 3 0 96 0.
Definition ex_wacts : list faction :=
  [FInit; FPut ex_p0; FPut ex_p1; FPut ex_p2; FStoreCb; FStoreCb; FStoreCb; FGetDone; FChildInit; FAdvance (3 # 4);
   FChildTimer; FChildEnd; FGetDone; FChildInit; FAdvance (51 # 4); FChildTimer; FChildEnd; FGetDone; FChildInit;
   FAdvance (27 # 2); FChildTimer; FChildEnd].

Lemma ex_wcfg_ok : wcfg_ok ex_wcfg.
Proof.
  split; [reflexivity|]. intros c w H. cbn in H.
  destruct (Z.eqb c 0); [injection H as <-; lia|]. destruct (Z.eqb c 1); [injection H as <-; lia|discriminate].
Qed.

Lemma ex_wadm : wadm ex_wcfg ex_wacts.
Proof.
  intros p Hp. cbn in Hp.
  repeat (destruct Hp as [Hp|Hp];
          [first [discriminate Hp | (injection Hp as <-; split; [vm_compute; intros H0; discriminate H0|vm_compute; intros H0; discriminate H0])]|]).
  destruct Hp.
Qed.

(* class 1's small packet (stamp 3/4) is served before class 0's big first packet (stamp 12); the second
   packet of class 0 (stamp 12 + 3/4) last; the run ends drained *)
Example wfq_example :
  exists s' tr, wfq_run ex_wcfg (wfq0 ex_wcfg) ex_wacts = Some (s', tr) /\
                fwds (WS ex_wcfg) tr = [ex_p1; ex_p0; ex_p2] /\ urgent s' = false /\ chl s' = CNone /\
                Qeq_bool (fin (stm s') 0%Z) 0 = true /\ Qeq_bool (vtime (stm s')) 0 = true.
Proof. vm_compute. eexists _, _. repeat split. Qed.

Definition ex_vcfg : vcfg := {| vrate := 1024 # 1; vticks := [(0%Z, 1%Q); (1%Z, 1%Q); (2%Z, 1%Q); (3%Z, 1%Q)]; vf2c := f2c_of [] |}.
Definition ex_q (i : nat) := mkp i (Z.of_nat i + 1) (Z.of_nat i) 384 0.
Definition ex_vacts : list faction :=
  [FInit; FPut (ex_q 0); FPut (ex_q 1); FPut (ex_q 2); FPut (ex_q 3); FStoreCb; FStoreCb; FStoreCb; FStoreCb;
   FGetDone; FChildInit; FAdvance 3; FChildTimer; FChildEnd; FGetDone; FChildInit; FAdvance 6; FChildTimer; FChildEnd;
   FGetDone; FChildInit; FAdvance 9; FChildTimer; FChildEnd; FGetDone; FChildInit; FAdvance 12; FChildTimer; FChildEnd].

Lemma ex_vcfg_ok : vcfg_ok ex_vcfg.
Proof.
  split; [reflexivity|]. intros c v H. cbn in H.
  repeat (match type of H with (if ?b then _ else _) = _ => destruct b; [injection H as <-; reflexivity|] end). discriminate.
Qed.

Lemma ex_vadm : vadm ex_vcfg ex_vacts.
Proof.
  intros p Hp. cbn in Hp.
  repeat (destruct Hp as [Hp|Hp];
          [first [discriminate Hp | (injection Hp as <-; split; [vm_compute; intros H0; discriminate H0|vm_compute; intros H0; discriminate H0])]|]).
  destruct Hp.
Qed.

(* four equal stamps at one instant leave in arrival order (the pinned heap order was 0,2,1,3) *)
Example vc_example :
  exists s' tr, vc_run ex_vcfg (vc0 ex_vcfg) ex_vacts = Some (s', tr) /\
                fwds (VS ex_vcfg) tr = [ex_q 0; ex_q 1; ex_q 2; ex_q 3] /\ urgent s' = false /\ chl s' = CNone.
Proof. vm_compute. eexists _, _. repeat split. Qed.

(* ---- the pinned WFQ.put (before fix d1c8660) refutes wfq_stamp -------------------------------------------- *)
Definition ex_wcfg_unfixed : wcfg :=
  {| wrate := 1024 # 1; wweights := [(0, 1); (1, 1)]%Z; wf2c := f2c_of []; wfix_first := false |}.

Lemma wfq_stamp_refuted_unfixed :
  exists cfg p s' w,
    wcfg_ok cfg /\ wconf cfg p /\ wfix_first cfg = false /\
    wfq_act cfg (wfq0 cfg) (FPut p) = Ok (s', []) /\ zlookup (wcls cfg p) (wweights cfg) = Some w /\
    ~ fin (stm s') (wcls cfg p) ==
      Qmax (fin (stm (wfq0 cfg)) (wcls cfg p)) (vtime (stm s')) + (inject_Z (psize p) * 8) / (wrate cfg * inject_Z w).
Proof.
  exists ex_wcfg_unfixed, ex_p0. eexists _, 1%Z. split; [exact ex_wcfg_ok|].
  split; [split; [cbn; discriminate|cbn; lia]|]. split; [reflexivity|]. split; [reflexivity|]. split; [reflexivity|].
  vm_compute. discriminate.
Qed.
