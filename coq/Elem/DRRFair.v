(* Long-run fairness of DRR (C15): over any sub-execution throughout which classes i and j both hold a packet,
   |S_i/Q_i - S_j/Q_j| < 4 + 3*Lmax*(1/Q_i + 1/Q_j), S = bytes forwarded in the sub-execution.
   Proof: accounting over the events of the visit automaton (DRRVisit.v):
     credit:   credit_c(end) - credit_c(start) = Q_c * V_c - D_c      (V_c quantum additions, D_c bytes debited; no reset)
     rounds:   V_c = psi_c(end) - psi_c(start) + R                   (R rounds begun; psi_c = 1 iff c was already visited in the current round)
     pending:  S_c - D_c = pend_c(end) - pend_c(start)               (the packet forwarded but not yet debited)
   and the credit bounds. *)
From Coq Require Import ZArith QArith Qminmax Qabs List Bool Lia Lqa.
From ONL Require Import Elem.Packet Elem.StoreQ Elem.StoreQProofs Elem.DRR Elem.DRRInv Elem.DRRProofs Elem.DRRVisit.
Import ListNotations.
Opaque Qred.

(* ---- what run() emits between two yields, and where it stops -------------------------------------------------------------- *)
Definition dinternal (x : dout) : bool := match x with DOForward _ | DODebit _ _ _ => false | _ => true end.
Definition dchd_ns (d : drr) : Prop := dchd d = DCNone \/ exists p, dchd d = DCStart p.
Definition dres_ok (r : dres) : Prop :=
  match r with DYield d e | DFall d e => forallb dinternal e = true /\ dchd_ns d | DErr => True end.

Lemma dtry_head_ok c rest d p : dchd d = DCNone -> dres_ok (dtry_head c rest d p).
Proof.
  intros Ch. unfold dtry_head. destruct (Qle_bool _ _); cbn; (split; [reflexivity|]).
  - right. eexists. reflexivity.
  - left. exact Ch.
Qed.

Lemma dinner_ok c rest d : dchd d = DCNone -> dres_ok (dinner c rest d).
Proof.
  intros Ch. unfold dinner. destruct (_ && _); [|cbn; split; [reflexivity|left; exact Ch]].
  destruct (dhol d c); [apply dtry_head_ok; exact Ch|].
  destruct (sq_get fifo_pop (dst d c)); cbn; [split; [reflexivity|left; exact Ch]|exact I].
Qed.

Lemma dchd_ns_none d : dchd_ns d -> forall d', dchd d' = dchd d -> dchd_ns d'.
Proof. intros [H|(p & H)] d' E; [left|right; exists p]; congruence. Qed.

Lemma dscan_ok cfg cs : forall d, dchd d = DCNone ->
  match dscan cfg cs d with
  | DYield d' e => forallb dinternal e = true /\ dchd_ns d'
  | DFall d' e => forallb dinternal e = true /\ dchd d' = DCNone
  | DErr => True
  end.
Proof.
  induction cs as [|c rest IH]; intros d Ch; cbn [dscan]; [split; [reflexivity|exact Ch]|].
  assert (Hv : forallb dinternal (snd (dvisit_start cfg c d)) = true /\ dchd (fst (dvisit_start cfg c d)) = DCNone).
  { unfold dvisit_start. destruct (0 <? dccnt d c)%Z; cbn; split; auto. }
  destruct (dvisit_start cfg c d) as [d1 e1]. cbn [fst snd] in Hv. destruct Hv as [Hv1 Hv2].
  assert (Hfall : forall d2 e2, dinner c rest d1 = DFall d2 e2 -> dchd d2 = DCNone).
  { intros d2 e2. unfold dinner. destruct (_ && _); [|intros E; injection E as <- _; exact Hv2].
    destruct (dhol d1 c); [unfold dtry_head; destruct (Qle_bool _ _); [discriminate|intros E; injection E as <- _; exact Hv2]|].
    destruct (sq_get fifo_pop (dst d1 c)); discriminate. }
  pose proof (dinner_ok c rest d1 Hv2) as H1.
  destruct (dinner c rest d1) as [d2 e2|d2 e2|] eqn:Ei; cbn [dres_ok] in H1; [| |exact I].
  - destruct H1 as [H1 H1']. split; [rewrite forallb_app, Hv1, H1; reflexivity|exact H1'].
  - destruct H1 as [H1 _]. specialize (IH d2 (Hfall d2 e2 eq_refl)).
    destruct (dscan cfg rest d2) as [d3 e3|d3 e3|]; try exact I; destruct IH as [IH1 IH2];
      (split; [rewrite !forallb_app, Hv1, H1, IH1; reflexivity|exact IH2]).
Qed.

Lemma dpasses_ok cfg fuel : forall d d' e, dchd d = DCNone -> dpasses fuel cfg d = Some (d', e) ->
  forallb dinternal e = true /\ dchd_ns d'.
Proof.
  induction fuel as [|n IH]; intros d d' e Ch H; cbn [dpasses] in H.
  - destruct (0 <? dtotal d)%Z; [discriminate|]. destruct (sq_get fifo_pop (dtok d)); [|discriminate].
    injection H as <- <-. split; [reflexivity|left; exact Ch].
  - destruct (0 <? dtotal d)%Z.
    + pose proof (dscan_ok cfg (dclasses cfg) d Ch) as H1. destruct (dscan cfg (dclasses cfg) d) as [d1 e1|d1 e1|]; [| |discriminate].
      * injection H as <- <-. destruct H1 as [H1 H2]. split; [cbn; exact H1|exact H2].
      * destruct H1 as [H1 H2]. destruct (dpasses n cfg d1) as [[d2 e2]|] eqn:P; [|discriminate]. injection H as <- <-.
        destruct (IH _ _ _ H2 P) as [H3 H4]. split; [cbn; rewrite forallb_app, H1, H3; reflexivity|exact H4].
    + destruct (sq_get fifo_pop (dtok d)); [|discriminate]. injection H as <- <-. split; [reflexivity|left; exact Ch].
Qed.

Lemma dcontinue_ok cfg rest r d' e :
  match r with DYield d e0 => forallb dinternal e0 = true /\ dchd_ns d
             | DFall d e0 => forallb dinternal e0 = true /\ dchd d = DCNone | DErr => True end ->
  dcontinue cfg rest r = Some (d', e) -> forallb dinternal e = true /\ dchd_ns d'.
Proof.
  intros Hr H. destruct r as [d e0|d e0|]; cbn [dcontinue] in H; [injection H as <- <-; exact Hr| |discriminate].
  destruct Hr as [Hr1 Hr2].
  pose proof (dscan_ok cfg rest d Hr2) as H1. destruct (dscan cfg rest d) as [d1 e1|d1 e1|]; [| |discriminate].
  - injection H as <- <-. destruct H1 as [H1 H2]. split; [rewrite forallb_app, Hr1, H1; reflexivity|exact H2].
  - destruct H1 as [H1 H2]. destruct (dpasses (dfuel d1) cfg d1) as [[d2 e2]|] eqn:P; [|discriminate]. injection H as <- <-.
    destruct (dpasses_ok _ _ _ _ _ H2 P) as [H3 H4]. split; [rewrite !forallb_app, Hr1, H1, H3; reflexivity|exact H4].
Qed.

Lemma dtry_head_fall_chd c rest d p d2 e2 : dchd d = DCNone -> dtry_head c rest d p = DFall d2 e2 -> dchd d2 = DCNone.
Proof. unfold dtry_head. intros Ch. destruct (Qle_bool _ _); [discriminate|]. intros E. injection E as <- _. exact Ch. Qed.

Lemma dinner_fall_chd c rest d d2 e2 : dchd d = DCNone -> dinner c rest d = DFall d2 e2 -> dchd d2 = DCNone.
Proof.
  unfold dinner. intros Ch. destruct (_ && _); [|intros E; injection E as <- _; exact Ch].
  destruct (dhol d c); [apply dtry_head_fall_chd; exact Ch|]. destruct (sq_get fifo_pop (dst d c)); discriminate.
Qed.

(* ---- counting events ---------------------------------------------------------------------------------------------------------- *)
Definition dnq (c : Z) (x : dout) : Z := match x with DOQuantum k => if Z.eqb k c then 1%Z else 0%Z | _ => 0%Z end.
Definition dnpass (x : dout) : Z := match x with DOPass => 1%Z | _ => 0%Z end.
Definition ddeb (c : Z) (x : dout) : Z := match x with DODebit k p _ => if Z.eqb k c then psize p else 0%Z | _ => 0%Z end.
Definition dfwdb (cfg : dcfg) (c : Z) (x : dout) : Z :=
  match x with DOForward p => if Z.eqb (dcls cfg p) c then psize p else 0%Z | _ => 0%Z end.
Fixpoint dsumev (g : dout -> Z) (ev : list dout) : Z := match ev with [] => 0%Z | x :: t => (g x + dsumev g t)%Z end.

Lemma dsumev_app g a b : dsumev g (a ++ b) = (dsumev g a + dsumev g b)%Z.
Proof. induction a as [|x t IH]; cbn [dsumev app]; [reflexivity|]. rewrite IH. lia. Qed.

Lemma dsumev_internal g ev : (forall x, dinternal x = true -> g x = 0%Z) -> forallb dinternal ev = true -> dsumev g ev = 0%Z.
Proof.
  intros Hg. induction ev as [|x t IH]; cbn [forallb dsumev]; [reflexivity|]. intros H.
  apply andb_true_iff in H as [H1 H2]. rewrite (Hg x H1), (IH H2). reflexivity.
Qed.

Definition dpsi (c : Z) (todo : list Z) : Z := if dmemZ c todo then 0%Z else 1%Z.

Lemma dpsi_cons_neq c k rest : k <> c -> dpsi c (k :: rest) = dpsi c rest.
Proof. intros Hne. unfold dpsi. cbn [dmemZ existsb]. destruct (Z.eqb_spec c k); [congruence|reflexivity]. Qed.

Lemma dpsi_head c rest : NoDup (c :: rest) -> dpsi c (c :: rest) = 0%Z /\ dpsi c rest = 1%Z.
Proof.
  intros Hnd. inversion Hnd as [|? ? Hnot _]; subst. unfold dpsi. cbn [dmemZ existsb]. rewrite Z.eqb_refl. split; [reflexivity|].
  fold (dmemZ c rest). destruct (dmemZ c rest) eqn:E; [|reflexivity]. exfalso. apply Hnot. apply dmemZ_In. exact E.
Qed.

(* one step of the automaton, for a configured class that holds a packet *)
Ltac qz := change (inject_Z 0) with 0 in *; change (inject_Z 1) with 1 in *.

Lemma dspec_count cfg H c s x s' :
  dspec cfg H s x s' -> H c <> [] -> In c (dclasses cfg) -> NoDup (dclasses cfg) -> NoDup (ss_todo s) ->
  ss_cr s' c - ss_cr s c == dquantum cfg c * inject_Z (dnq c x) - inject_Z (ddeb c x)
  /\ dnq c x = (dpsi c (ss_todo s') - dpsi c (ss_todo s) + dnpass x)%Z
  /\ NoDup (ss_todo s').
Proof.
  intros Hs Hc Hin Hnd Ht.
  destruct Hs as [s p|cr cr' Hex Hcr|cr cr' k rest Hk Hcr|cr cr' k rest Hk Hcr|cr cr' k rest p Hhd Hp Ha Hcr
                  |cr cr' k rest p Hhd Hp Ha Hcr|cr cr' k rest Hend Hcr|cr cr' k rest p reset Hr Hcr];
    cbn [ss_cr ss_todo dnq ddeb dnpass] in *; change (inject_Z 0) with 0.
  - split; [(qz; lra)|split; [lia|exact Ht]].
  - split; [rewrite (Hcr c); (qz; lra)|split; [|exact Hnd]].
    unfold dpsi. apply dmemZ_In in Hin. rewrite Hin. cbn. lia.
  - specialize (Hcr c). destruct (Z.eqb_spec k c) as [->|Hne].
    + rewrite Z.eqb_refl in Hcr. destruct (dpsi_head c rest Ht) as [P1 P2]. rewrite P1, P2.
      split; [rewrite Hcr; (qz; lra)|split; [lia|inversion Ht; assumption]].
    + destruct (Z.eqb_spec c k); [congruence|]. rewrite (dpsi_cons_neq c k rest Hne).
      split; [rewrite Hcr; (qz; lra)|split; [lia|inversion Ht; assumption]].
  - assert (Hne : k <> c) by (intros ->; contradiction). rewrite (dpsi_cons_neq c k rest Hne).
    split; [rewrite (Hcr c); (qz; lra)|split; [lia|inversion Ht; assumption]].
  - split; [rewrite (Hcr c); (qz; lra)|split; [lia|exact Ht]].
  - split; [rewrite (Hcr c); (qz; lra)|split; [lia|exact Ht]].
  - split; [rewrite (Hcr c); (qz; lra)|split; [lia|exact Ht]].
  - specialize (Hcr c). split; [|split; [lia|exact Ht]].
    destruct (Z.eqb_spec k c) as [->|Hne].
    + rewrite Z.eqb_refl in Hcr. destruct reset.
      * exfalso. apply Hc. apply Hr. reflexivity.
      * rewrite Hcr. (qz; lra).
    + destruct (Z.eqb_spec c k); [congruence|]. rewrite Hcr. (qz; lra).
Qed.

Lemma dspecs_count cfg H c s ev s' :
  dspecs cfg H s ev s' -> H c <> [] -> In c (dclasses cfg) -> NoDup (dclasses cfg) -> NoDup (ss_todo s) ->
  ss_cr s' c - ss_cr s c == dquantum cfg c * inject_Z (dsumev (dnq c) ev) - inject_Z (dsumev (ddeb c) ev)
  /\ dsumev (dnq c) ev = (dpsi c (ss_todo s') - dpsi c (ss_todo s) + dsumev dnpass ev)%Z
  /\ NoDup (ss_todo s').
Proof.
  intros Hs Hc Hin Hnd. induction Hs as [s|s x s1 e s2 Hx Hs IH]; intros Ht; cbn [dsumev].
  - change (inject_Z 0) with 0. split; [lra|split; [lia|exact Ht]].
  - destruct (dspec_count cfg H c s x s1 Hx Hc Hin Hnd Ht) as (A1 & A2 & A3).
    destruct (IH A3) as (B1 & B2 & B3). split; [|split; [lia|exact B3]].
    rewrite !inject_Z_plus. lra.
Qed.

(* ---- one action --------------------------------------------------------------------------------------------------------------- *)
(* bytes of class c forwarded but not yet debited *)
Definition dpend (cfg : dcfg) (d : drr) (c : Z) : Z :=
  match dchd d with DCDone p => if Z.eqb (dcls cfg p) c then psize p else 0%Z | _ => 0%Z end.

Lemma dpend_ns cfg d c : dchd_ns d -> dpend cfg d c = 0%Z.
Proof. unfold dpend. intros [E|(p & E)]; rewrite E; reflexivity. Qed.

Lemma dnodup_app_r {A} (a b : list A) : NoDup (a ++ b) -> NoDup b.
Proof. induction a as [|x t IH]; cbn [app]; [auto|]. intros H. inversion H; auto. Qed.

Lemma dtodo_nodup cfg d : dwf cfg -> dinv cfg d -> NoDup (dtodo d).
Proof.
  intros (_ & _ & Hnd & _) I. pose proof (i_ctl _ _ I) as C. unfold dctl_ok in C. unfold dtodo.
  assert (Hs : forall c rest, dsuffix cfg (c :: rest) -> NoDup rest).
  { intros c rest (pre & E). rewrite E in Hnd. apply dnodup_app_r in Hnd. inversion Hnd; assumption. }
  destruct (dctrl d) as [| |c rest|c rest]; try constructor.
  - destruct C as (_ & _ & _ & _ & _ & Hsuf & _). apply (Hs c rest Hsuf).
  - destruct C as (_ & _ & _ & _ & Hsuf & _). apply (Hs c rest Hsuf).
Qed.

Lemma dnq_internal_fwd cfg c : forall x, dinternal x = true -> dfwdb cfg c x = 0%Z /\ ddeb c x = 0%Z.
Proof. intros x. destruct x; cbn; try discriminate; auto. Qed.

Lemma dstep_pending cfg d a d' ev c :
  dwf cfg -> dinv cfg d -> drr_act cfg d a = Some (d', ev) ->
  (dsumev (dfwdb cfg c) ev - dsumev (ddeb c) ev = dpend cfg d' c - dpend cfg d c)%Z.
Proof.
  intros Hwf I A. pose proof (i_ctl _ _ I) as C. unfold dctl_ok in C.
  assert (Hint : forall e, forallb dinternal e = true -> dsumev (dfwdb cfg c) e = 0%Z /\ dsumev (ddeb c) e = 0%Z).
  { intros e He. split; apply dsumev_internal; auto; intros x Hx; apply (dnq_internal_fwd cfg c x Hx). }
  unfold drr_act in A. destruct a as [p| |[k|]|[k|]| | | |t].
  - cbv zeta in A. destruct (_ && _); [|discriminate]. injection A as <- <-. unfold dpend. cbn. lia.
  - destruct (dctrl d) eqn:K; try discriminate. destruct C as (C1 & _).
    destruct (dpasses_ok _ _ _ _ _ C1 A) as [H1 H2]. destruct (Hint _ H1) as [-> ->].
    rewrite (dpend_ns cfg d' c H2). unfold dpend. rewrite C1. lia.
  - destruct (dmemZ k (dclasses cfg)); [|discriminate]. destruct (sq_cb fifo_pop (dst d k)); [|discriminate].
    injection A as <- <-. unfold dpend. cbn. lia.
  - destruct (sq_cb fifo_pop (dtok d)); [|discriminate]. injection A as <- <-. unfold dpend. cbn. lia.
  - destruct (dctrl d) as [| |c0 rest|] eqn:K; try discriminate. destruct (Z.eqb k c0); [|discriminate].
    destruct (sq_take (dst d k)) as [[[t0 p] q]|]; [|discriminate]. destruct C as (C1 & _).
    assert (Hr : match dtry_head k rest (dset_st d k q) p with
                 | DYield d0 e0 => forallb dinternal e0 = true /\ dchd_ns d0
                 | DFall d0 e0 => forallb dinternal e0 = true /\ dchd d0 = DCNone | DErr => True end).
    { pose proof (dtry_head_ok k rest (dset_st d k q) p C1) as Hk.
      destruct (dtry_head k rest (dset_st d k q) p) as [d0 e0|d0 e0|] eqn:Et; cbn [dres_ok] in Hk; auto.
      split; [apply Hk|]. apply (dtry_head_fall_chd k rest (dset_st d k q) p d0 e0 C1 Et). }
    destruct (dcontinue_ok _ _ _ _ _ Hr A) as [H1 H2]. destruct (Hint _ H1) as [-> ->].
    rewrite (dpend_ns cfg d' c H2). unfold dpend. rewrite C1. lia.
  - destruct (dctrl d) eqn:K; try discriminate. destruct (sq_take (dtok d)) as [[x q]|]; [|discriminate]. destruct C as (C1 & _).
    assert (C1' : dchd (dset_tok d q) = DCNone) by exact C1.
    destruct (dpasses_ok _ _ _ _ _ C1' A) as [H1 H2]. destruct (Hint _ H1) as [-> ->].
    rewrite (dpend_ns cfg d' c H2). unfold dpend. rewrite C1. lia.
  - destruct (dchd d) as [|p| |] eqn:Ch; try discriminate. injection A as <- <-. unfold dpend. cbn. rewrite Ch. lia.
  - destruct (dchd d) as [| |p dl|] eqn:Ch; try discriminate. destruct (Qeq_bool dl (dnow d)); [|discriminate].
    cbv zeta in A. injection A as <- <-. unfold dpend. cbn. rewrite Ch. lia.
  - destruct (dchd d) as [| | |p] eqn:Ch; try discriminate. destruct (dctrl d) as [| | |c0 rest] eqn:K; try discriminate.
    destruct C as ((p0 & Hp0 & Hc & _) & _).
    assert (p0 = p) by (destruct Hp0 as [E|[(dl0 & E & _)|E]]; congruence). subst p0.
    destruct (dcontinue cfg rest (dinner c0 rest (ddebit d c0 rest p))) as [[d2 e2]|] eqn:Dc; [|discriminate]. injection A as <- <-.
    assert (Ch1 : dchd (ddebit d c0 rest p) = DCNone) by reflexivity.
    assert (Hr : match dinner c0 rest (ddebit d c0 rest p) with
                 | DYield d0 e0 => forallb dinternal e0 = true /\ dchd_ns d0
                 | DFall d0 e0 => forallb dinternal e0 = true /\ dchd d0 = DCNone | DErr => True end).
    { pose proof (dinner_ok c0 rest (ddebit d c0 rest p) Ch1) as Hk.
      destruct (dinner c0 rest (ddebit d c0 rest p)) as [d0 e0|d0 e0|] eqn:Et; cbn [dres_ok] in Hk; auto.
      split; [apply Hk|]. apply (dinner_fall_chd _ _ _ _ _ Ch1 Et). }
    destruct (dcontinue_ok _ _ _ _ _ Hr Dc) as [H1 H2]. destruct (Hint _ H1) as [E1 E2].
    cbn [dsumev dfwdb ddeb]. rewrite E1, E2, (dpend_ns cfg d2 c H2). unfold dpend. rewrite Ch, Hc. lia.
  - destruct (durgent cfg d); [discriminate|]. destruct (Qlt_le_dec (dnow d) t); [|discriminate]. cbv zeta in A.
    assert (E0 : ev = [] /\ dchd d' = dchd d).
    { destruct (dchd d) as [|p|p dl|p]; try (injection A as <- <-; split; reflexivity).
      destruct (Qle_bool t dl); [|discriminate]. injection A as <- <-. split; reflexivity. }
    destruct E0 as (-> & E). unfold dpend. rewrite E. cbn. lia.
Qed.

Lemma dstep_account cfg d a d' ev c :
  dwf cfg -> dinv cfg d -> drr_act cfg d a = Some (d', ev) -> In c (dclasses cfg) -> dheld cfg d' c <> [] ->
  ddef d' c - ddef d c == dquantum cfg c * inject_Z (dsumev (dnq c) ev) - inject_Z (dsumev (ddeb c) ev)
  /\ dsumev (dnq c) ev = (dpsi c (dtodo d') - dpsi c (dtodo d) + dsumev dnpass ev)%Z
  /\ (dsumev (dfwdb cfg c) ev - dsumev (ddeb c) ev = dpend cfg d' c - dpend cfg d c)%Z.
Proof.
  intros Hwf I A Hc Hh. pose proof (dstep_visit cfg d a d' ev Hwf I A) as V.
  assert (Hnd : NoDup (dclasses cfg)) by (destruct Hwf as (_ & _ & Hnd & _); exact Hnd).
  destruct (dspecs_count cfg (dheld cfg d') c (dabs d) ev (dabs d') V Hh Hc Hnd (dtodo_nodup cfg d Hwf I)) as (A1 & A2 & _).
  cbn [dabs ss_cr ss_todo] in A1, A2. split; [exact A1|split; [exact A2|]].
  apply (dstep_pending cfg d a d' ev c Hwf I A).
Qed.

(* ---- a sub-execution -------------------------------------------------------------------------------------------------------------- *)
Fixpoint dalways (cfg : dcfg) (P : drr -> Prop) (d : drr) (acts : list daction) : Prop :=
  P d /\ match acts with
         | [] => True
         | a :: r => match drr_act cfg d a with Some (d', _) => dalways cfg P d' r | None => True end
         end.

Lemma dalways_mono cfg (P Q : drr -> Prop) : (forall d, P d -> Q d) -> forall acts d, dalways cfg P d acts -> dalways cfg Q d acts.
Proof.
  intros HPQ. induction acts as [|a r IH]; intros d [H1 H2]; cbn [dalways]; (split; [apply HPQ; exact H1|]); [exact I|].
  destruct (drr_act cfg d a) as [[d' o]|]; [apply IH; exact H2|exact I].
Qed.

Lemma dalways_head cfg P d acts : dalways cfg P d acts -> P d.
Proof. destruct acts; intros [H _]; exact H. Qed.

Definition devents (tr : list dtev) : list dout := flat_map (fun e => snd e) tr.

Lemma drun_account cfg c : forall acts d d' tr,
  dwf cfg -> dinv cfg d -> In c (dclasses cfg) -> drr_run cfg d acts = Some (d', tr) ->
  dalways cfg (fun x => dheld cfg x c <> []) d acts ->
  ddef d' c - ddef d c == dquantum cfg c * inject_Z (dsumev (dnq c) (devents tr)) - inject_Z (dsumev (ddeb c) (devents tr))
  /\ dsumev (dnq c) (devents tr) = (dpsi c (dtodo d') - dpsi c (dtodo d) + dsumev dnpass (devents tr))%Z
  /\ (dsumev (dfwdb cfg c) (devents tr) - dsumev (ddeb c) (devents tr) = dpend cfg d' c - dpend cfg d c)%Z.
Proof.
  induction acts as [|a r IH]; intros d d' tr Hwf I Hc H Hal; cbn [drr_run] in H.
  - injection H as <- <-. cbn [devents flat_map dsumev]. qz. split; [lra|split; lia].
  - destruct (drr_act cfg d a) as [[d1 o]|] eqn:A; [|discriminate].
    destruct (drr_run cfg d1 r) as [[d2 tr2]|] eqn:R; [|discriminate]. injection H as <- <-.
    destruct Hal as [_ Hal]. cbn [dalways] in Hal. rewrite A in Hal.
    destruct (dstep_account cfg d a d1 o c Hwf I A Hc (dalways_head _ _ _ _ Hal)) as (A1 & A2 & A3).
    destruct (IH d1 d2 tr2 Hwf (dinv_step _ _ _ _ _ Hwf I A) Hc R Hal) as (B1 & B2 & B3).
    cbn [devents flat_map snd]. fold (devents tr2). rewrite !dsumev_app. split; [|split; lia].
    rewrite !inject_Z_plus. lra.
Qed.

(* ---- the bound ------------------------------------------------------------------------------------------------------------------ *)
Lemma dfair_arith (Qi Qj L Si Sj Vi Vj xi xj : Q) :
  0 < Qi -> 0 < Qj -> 0 <= L ->
  Si == Qi * Vi + xi -> Sj == Qj * Vj + xj ->
  - (Qi + 2 * L) < xi -> xi < Qi + 2 * L -> - (Qj + 2 * L) < xj -> xj < Qj + 2 * L ->
  -2 <= Vi - Vj -> Vi - Vj <= 2 ->
  Qabs (Si / Qi - Sj / Qj) < 4 + 3 * L * (1 / Qi + 1 / Qj).
Proof.
  intros Hi Hj HL HSi HSj Hx1 Hx2 Hy1 Hy2 Hv1 Hv2. unfold Qdiv.
  set (ri := / Qi). set (rj := / Qj).
  assert (Hri : Qi * ri == 1) by (apply Qmult_inv_r; lra).
  assert (Hrj : Qj * rj == 1) by (apply Qmult_inv_r; lra).
  assert (Pri : 0 < ri) by (apply Qinv_lt_0_compat; exact Hi).
  assert (Prj : 0 < rj) by (apply Qinv_lt_0_compat; exact Hj).
  assert (Ei : Si * ri == Vi + xi * ri).
  { rewrite HSi. setoid_replace ((Qi * Vi + xi) * ri) with (Vi * (Qi * ri) + xi * ri) by ring. rewrite Hri. ring. }
  assert (Ej : Sj * rj == Vj + xj * rj).
  { rewrite HSj. setoid_replace ((Qj * Vj + xj) * rj) with (Vj * (Qj * rj) + xj * rj) by ring. rewrite Hrj. ring. }
  assert (Bi1 : xi * ri < 1 + 2 * (L * ri)) by nra.
  assert (Bi2 : - (1 + 2 * (L * ri)) < xi * ri) by nra.
  assert (Bj1 : xj * rj < 1 + 2 * (L * rj)) by nra.
  assert (Bj2 : - (1 + 2 * (L * rj)) < xj * rj) by nra.
  assert (Li : 0 <= L * ri) by nra.
  assert (Lj : 0 <= L * rj) by nra.
  apply Qabs_Qlt_condition. rewrite Ei, Ej. split; lra.
Qed.

Lemma dinject_Z_minus a b : inject_Z (a - b) == inject_Z a - inject_Z b.
Proof. unfold Z.sub. rewrite inject_Z_plus, inject_Z_opp. reflexivity. Qed.

Lemma dpsi_01 c l : (0 <= dpsi c l <= 1)%Z.
Proof. unfold dpsi. destruct (dmemZ c l); lia. Qed.

Lemma dpend_bounds cfg d c : dinv cfg d -> (0 <= dpend cfg d c <= dlmax d)%Z.
Proof.
  intros I. pose proof (b_lmax _ _ (i_base _ _ I)) as L0. unfold dpend. destruct (dchd d) as [| | |p] eqn:Ch; try lia.
  destruct (dctl_child cfg d (i_ctl _ _ I) ltac:(congruence)) as (c0 & rest & p0 & K & Hp0 & Hc & A2 & A3 & _).
  assert (p0 = p) by (destruct Hp0 as [E|[(dl0 & E & _)|E]]; congruence). subst p0.
  destruct (Z.eqb (dcls cfg p) c); lia.
Qed.

(* bytes of class c forwarded in a trace *)
Definition dsent (cfg : dcfg) (c : Z) (tr : list dtev) : Z := dsumev (dfwdb cfg c) (devents tr).

Lemma dsent_ev cfg c l : dsumev (dfwdb cfg c) l = dbytes (dof_cls cfg c (dforwards l)).
Proof.
  induction l as [|x l IH]; [reflexivity|]. cbn [dsumev]. rewrite IH.
  change (dforwards (x :: l)) with ((match x with DOForward p => [p] | _ => [] end) ++ dforwards l).
  rewrite dof_cls_app, dbytes_app. destruct x; cbn [dfwdb]; try (cbn; lia).
  unfold dof_cls. cbn [filter]. destruct (Z.eqb (dcls cfg p) c); cbn [dbytes]; lia.
Qed.

Lemma dsent_bytes cfg c tr : dsent cfg c tr = dbytes (dof_cls cfg c (dfwds tr)).
Proof.
  unfold dsent, devents, dfwds. induction tr as [|e t IH]; [reflexivity|]. cbn [flat_map].
  rewrite dsumev_app, dof_cls_app, dbytes_app, IH, dsent_ev. reflexivity.
Qed.

Theorem drr_fairness_l cfg t0 acts1 d1 tr1 acts2 d2 tr2 i j :
  dwf cfg -> drr_run cfg (drr0 t0) acts1 = Some (d1, tr1) -> drr_run cfg d1 acts2 = Some (d2, tr2) ->
  In i (dclasses cfg) -> In j (dclasses cfg) ->
  dalways cfg (fun x => dheld cfg x i <> [] /\ dheld cfg x j <> []) d1 acts2 ->
  Qabs (inject_Z (dsent cfg i tr2) / dquantum cfg i - inject_Z (dsent cfg j tr2) / dquantum cfg j)
    < 4 + 3 * inject_Z (dlmax d2) * (1 / dquantum cfg i + 1 / dquantum cfg j).
Proof.
  intros Hwf H1 H2 Hi Hj Hal.
  pose proof (dreach_inv _ _ _ _ _ Hwf H1) as I1. pose proof (dinv_run cfg acts2 d1 d2 tr2 Hwf I1 H2) as I2.
  destruct (drun_frame cfg acts2 d1 d2 tr2 Hwf I1 H2) as (_ & Hl & _).
  assert (HL12 : (dlmax d1 <= dlmax d2)%Z) by lia.
  pose proof (b_lmax _ _ (i_base _ _ I1)) as L1.
  destruct (drun_account cfg i acts2 d1 d2 tr2 Hwf I1 Hi H2 (dalways_mono cfg _ _ (fun d H => proj1 H) _ _ Hal)) as (A1 & A2 & A3).
  destruct (drun_account cfg j acts2 d1 d2 tr2 Hwf I1 Hj H2 (dalways_mono cfg _ _ (fun d H => proj2 H) _ _ Hal)) as (B1 & B2 & B3).
  destruct (b_def _ _ (i_base _ _ I1) i) as [ci1 ci1']. specialize (ci1' Hi).
  destruct (b_def _ _ (i_base _ _ I2) i) as [ci2 ci2']. specialize (ci2' Hi).
  destruct (b_def _ _ (i_base _ _ I1) j) as [cj1 cj1']. specialize (cj1' Hj).
  destruct (b_def _ _ (i_base _ _ I2) j) as [cj2 cj2']. specialize (cj2' Hj).
  pose proof (dpend_bounds cfg d1 i I1) as pi1. pose proof (dpend_bounds cfg d2 i I2) as pi2.
  pose proof (dpend_bounds cfg d1 j I1) as pj1. pose proof (dpend_bounds cfg d2 j I2) as pj2.
  pose proof (dquantum_pos cfg i Hwf Hi) as Qi. pose proof (dquantum_pos cfg j Hwf Hj) as Qj.
  pose proof (dpsi_01 i (dtodo d1)). pose proof (dpsi_01 i (dtodo d2)).
  pose proof (dpsi_01 j (dtodo d1)). pose proof (dpsi_01 j (dtodo d2)).
  set (L := inject_Z (dlmax d2)) in *.
  assert (HL : 0 <= L) by (unfold L; change 0 with (inject_Z 0); rewrite <- Zle_Qle; lia).
  assert (HL1 : inject_Z (dlmax d1) <= L) by (unfold L; rewrite <- Zle_Qle; exact HL12).
  (* pending bytes as rationals *)
  assert (Pi : inject_Z (dsent cfg i tr2) - inject_Z (dsumev (ddeb i) (devents tr2)) == inject_Z (dpend cfg d2 i) - inject_Z (dpend cfg d1 i)).
  { rewrite <- !dinject_Z_minus. unfold dsent. rewrite A3. reflexivity. }
  assert (Pj : inject_Z (dsent cfg j tr2) - inject_Z (dsumev (ddeb j) (devents tr2)) == inject_Z (dpend cfg d2 j) - inject_Z (dpend cfg d1 j)).
  { rewrite <- !dinject_Z_minus. unfold dsent. rewrite B3. reflexivity. }
  assert (bi1 : 0 <= inject_Z (dpend cfg d1 i) <= L).
  { split; [change 0 with (inject_Z 0); rewrite <- Zle_Qle; lia|]. eapply Qle_trans; [|exact HL1]. rewrite <- Zle_Qle. lia. }
  assert (bi2 : 0 <= inject_Z (dpend cfg d2 i) <= L).
  { split; [change 0 with (inject_Z 0); rewrite <- Zle_Qle; lia|]. unfold L. rewrite <- Zle_Qle. lia. }
  assert (bj1 : 0 <= inject_Z (dpend cfg d1 j) <= L).
  { split; [change 0 with (inject_Z 0); rewrite <- Zle_Qle; lia|]. eapply Qle_trans; [|exact HL1]. rewrite <- Zle_Qle. lia. }
  assert (bj2 : 0 <= inject_Z (dpend cfg d2 j) <= L).
  { split; [change 0 with (inject_Z 0); rewrite <- Zle_Qle; lia|]. unfold L. rewrite <- Zle_Qle. lia. }
  apply (dfair_arith (dquantum cfg i) (dquantum cfg j) L _ _
           (inject_Z (dsumev (dnq i) (devents tr2))) (inject_Z (dsumev (dnq j) (devents tr2)))
           (ddef d1 i - ddef d2 i + (inject_Z (dpend cfg d2 i) - inject_Z (dpend cfg d1 i)))
           (ddef d1 j - ddef d2 j + (inject_Z (dpend cfg d2 j) - inject_Z (dpend cfg d1 j)))); try assumption; try lra.
  - rewrite <- dinject_Z_minus. change (-2) with (inject_Z (-2)). rewrite <- Zle_Qle. lia.
  - rewrite <- dinject_Z_minus. change 2 with (inject_Z 2). rewrite <- Zle_Qle. lia.
Qed.
