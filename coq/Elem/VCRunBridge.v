(* Bridging lemmas for the GENERATOR body VC.run (VirtualClock; second tie, generator bodies: vlib/translate_gen.py).
   Gen/Extracted_vc_run.v is regenerated from the tree under test on every run:
     gen_VC_run_from_0   entry                                  -> `item = yield self.store.get()`
     gen_VC_run_from_1   resumed with the PriorityItem          -> packet = item.item, `yield env.process(self.send_packet(packet))`
     gen_VC_run_from_2   the child process has ended            -> around the loop: the next `yield self.store.get()`
   They are the run() loop of the hand-written automaton (Elem/WFQServer.v instantiated by Elem/VC.v): FInit / FGetDone /
   FChildEnd, for all states. *)
From Coq Require Import ZArith QArith List Bool.
From ONL Require Import Elem.Packet Elem.StoreQ Elem.HeapList Elem.WFQServer Elem.VC Gen.Extracted_vc_run.
Import ListNotations.

(* the next request of run(): the get on the priority store at point 1 / the wait for the child at point 2 *)
Definition vc_asks_get (g : list vc_run_fx * vc_run_next) : bool :=
  match g with ([], NxYield RqStoreGet PP1) => true | _ => false end.
Definition vc_asks_child (g : list vc_run_fx * vc_run_next) : bool :=
  match g with ([FxUnwrap], NxYield RqChild PP2) => true | _ => false end.

Lemma bridge_vc_run_init : forall (cfg : vcfg) (s : vc cfg),
  vc_act cfg s FInit =
    if started s then Disabled
    else if vc_asks_get gen_VC_run_from_0 then
      match sq_get pq_pop (store s) with
      | Some q => Ok ({| now := now s; started := true; store := q; stm := stm s; seq := seq s; qcount := qcount s;
                         qbytes := qbytes s; nrecv := nrecv s; chl := chl s |}, [])
      | None => Disabled
      end
    else Disabled.
Proof. intros cfg s. reflexivity. Qed.

(* run() resumes with the item e: the child process works on the packet inside it *)
Lemma bridge_vc_run_get : forall (cfg : vcfg) (s : vc cfg),
  vc_act cfg s FGetDone =
    match chl s, sq_take (store s) with
    | CNone, Some (e, q) =>
        if started s then
          (if vc_asks_child gen_VC_run_from_1 then Ok (with_child _ (with_store _ s q) (CInit e), []) else Disabled)
        else Disabled
    | _, _ => Disabled
    end.
Proof.
  intros cfg s. unfold vc_act, act.
  destruct (chl s); try reflexivity; destruct (sq_take (store s)) as [[e q]|]; try reflexivity;
    destruct (started s); reflexivity.
Qed.

(* the child has ended: VirtualClock keeps no books after a transmission; the next get is issued *)
Lemma bridge_vc_run_child_end : forall (cfg : vcfg) (s : vc cfg),
  vc_act cfg s FChildEnd =
    match chl s with
    | CEnded e =>
        if vc_asks_get gen_VC_run_from_2 then
          match sq_get pq_pop (store s) with
          | Some q => Ok ({| now := now s; started := started s; store := q; stm := stm s; seq := seq s;
                             qcount := qcount s; qbytes := qbytes s; nrecv := nrecv s; chl := CNone |}, [])
          | None => Disabled
          end
        else Disabled
    | _ => Disabled
    end.
Proof. intros cfg s. unfold vc_act, act. destruct (chl s); reflexivity. Qed.

Lemma vc_run_explicit :
  gen_VC_run_from_0 = ([], NxYield RqStoreGet PP1) /\ gen_VC_run_from_1 = ([FxUnwrap], NxYield RqChild PP2) /\
  gen_VC_run_from_2 = ([], NxYield RqStoreGet PP1).
Proof. repeat split; reflexivity. Qed.
