(* Model of onl/netdev/red_port.py : REDPort.put as a drop policy on top of the server of Elem/Port.v.
   Executable; proofs are in RedProofs.v.

   put(packet):  the exponentially weighted average of the queue measure (byte_size in byte mode,
   len(store.items) in packet mode, read BEFORE the packet is enqueued) is updated on every arrival, also
   for packets that are then refused:      avg := avg * (1 - 2^-w) + cur * 2^-w
   then   avg >= qlimit           refuse (no draw)
          avg >= max_threshold    u = random.uniform(0,1); refuse iff u <= max_probability
          avg >= min_threshold    u = random.uniform(0,1); refuse iff u <= (avg-min)/(max-min)*max_probability
          otherwise               accept (no draw)                                                        *)
From Coq Require Import ZArith QArith Qminmax List Bool.
From ONL Require Import Elem.Packet Elem.StoreQ Elem.Port.
Import ListNotations.

Record redcfg := {
  r_min : Q;        (* min_threshold *)
  r_max : Q;        (* max_threshold *)
  r_maxp : Q;       (* max_probability *)
  r_qlimit : Q;     (* qlimit (compared with the average) *)
  r_w : Z;          (* weight_factor *)
  r_lb : bool       (* limit_bytes *)
}.

(* alpha = 2 ** (-self.weight_factor) *)
Definition red_alpha (rc : redcfg) : Q := Qpower 2 (- r_w rc).

(* current_queue_size *)
Definition red_cur (rc : redcfg) (s : port) : Q :=
  inject_Z (if r_lb rc then pbytes s else Z.of_nat (length (items (pq s)))).

Definition red_avg_next (rc : redcfg) (s : port) : Q :=
  Qred (pavg s * (1 - red_alpha rc) + red_cur rc s * red_alpha rc).

(* the RED curve as the code evaluates it (the cascade tests max_threshold first) *)
Definition red_prob (rc : redcfg) (a : Q) : Q :=
  if Qle_bool (r_max rc) a then r_maxp rc
  else (a - r_min rc) / (r_max rc - r_min rc) * r_maxp rc.

Definition red_policy (rc : redcfg) : policy :=
  fun s p u =>
    let a := red_avg_next rc s in
    if Qle_bool (r_qlimit rc) a then
      match u with None => Some (true, a) | Some _ => None end
    else if Qle_bool (r_max rc) a || Qle_bool (r_min rc) a then
      match u with Some x => Some (Qle_bool x (red_prob rc a), a) | None => None end      (* rand <= prob *)
    else
      match u with None => Some (false, a) | Some _ => None end.

(* REDPort.put as found never stamps perhop_time; repaired it stamps like Port.put *)
Definition red_cfg (f : fixes) (rate : Q) (rc : redcfg) (eid : ekey) : pcfg :=
  {| c_rate := rate; c_policy := red_policy rc;
     c_stamp := if fx_stamp f then stamp_key true eid else None;
     c_fix_rate0 := fx_rate0 f; c_fix_mon := fx_mon f |}.
