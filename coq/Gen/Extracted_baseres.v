(* GENERATED on every run by vlib/translate.py from the current sources of $VERIF_REPO. Do not edit. *)
From Coq Require Import ZArith QArith Qminmax Qabs Bool.
From Coq Require Import List.
Import ListNotations.
(* onl/sim/resources/base.py: Put / Get .__init__, .cancel, Put.__exit__; resource.py: Request.__exit__, Release.__init__, PriorityRequest.__init__, SortedQueue.append *)

Record req_st := { q_priority : Z; q_preempt : bool; q_time : Z }.
Inductive base_fx :=
| FxEventInit
| FxSetResource
| FxSetProc
| FxEnqueuePut
| FxEnqueueGet
| FxCallbackTriggerGet
| FxCallbackTriggerPut
| FxTriggerPut
| FxTriggerGet
| FxDequeuePut
| FxDequeueGet
| FxCancel
| FxPutExit
| FxRelease
| FxSetRequest
| FxGetInit
| FxPutInit
| FxSetKey (p : Z) (t : Z) (not_preempt : bool)
| FxRaiseQueueFull
| FxListAppend
| FxSortByKey.

(* Put.__init__  (def __init__(self, resource: ResourceType):) *)
Definition gen_Put_init (s : req_st)
  : req_st * list base_fx :=
  ({| q_priority := (q_priority s); q_preempt := (q_preempt s); q_time := (q_time s) |}, [FxEventInit; FxSetResource; FxSetProc; FxEnqueuePut; FxCallbackTriggerGet; FxTriggerPut]).

(* Get.__init__  (def __init__(self, resource: ResourceType):) *)
Definition gen_Get_init (s : req_st)
  : req_st * list base_fx :=
  ({| q_priority := (q_priority s); q_preempt := (q_preempt s); q_time := (q_time s) |}, [FxEventInit; FxSetResource; FxSetProc; FxEnqueueGet; FxCallbackTriggerPut; FxTriggerGet]).

(* Put.cancel  (def cancel(self) -> None:) *)
Definition gen_Put_cancel (s : req_st) (triggered : bool)
  : req_st * list base_fx :=
  (if (negb triggered)
   then ({| q_priority := (q_priority s); q_preempt := (q_preempt s); q_time := (q_time s) |}, [FxDequeuePut; FxTriggerPut])
   else ({| q_priority := (q_priority s); q_preempt := (q_preempt s); q_time := (q_time s) |}, [])).

(* Get.cancel  (def cancel(self) -> None:) *)
Definition gen_Get_cancel (s : req_st) (triggered : bool)
  : req_st * list base_fx :=
  (if (negb triggered)
   then ({| q_priority := (q_priority s); q_preempt := (q_preempt s); q_time := (q_time s) |}, [FxDequeueGet; FxTriggerGet])
   else ({| q_priority := (q_priority s); q_preempt := (q_preempt s); q_time := (q_time s) |}, [])).

(* Put.__exit__  (def __exit__(self, exc_type: Optional[Type[BaseException]], exc_value: Optional[BaseException], traceback: Optional[TracebackType]) -> Optional[bool]:) *)
Definition gen_Put_exit (s : req_st)
  : req_st * list base_fx :=
  ({| q_priority := (q_priority s); q_preempt := (q_preempt s); q_time := (q_time s) |}, [FxCancel]).

(* Request.__exit__  (def __exit__(self, exc_type: Optional[Type[BaseException]], exc_value: Optional[BaseException], traceback: Optional[TracebackType]) -> Optional[bool]:) *)
Definition gen_Request_exit (s : req_st) (not_generator_exit : bool)
  : req_st * list base_fx :=
  let fx1 :=
    (if not_generator_exit
     then [FxPutExit; FxRelease]
     else [FxPutExit]) in
  ({| q_priority := (q_priority s); q_preempt := (q_preempt s); q_time := (q_time s) |}, fx1).

(* Release.__init__  (def __init__(self, resource: 'Resource', request: Request):) *)
Definition gen_Release_init (s : req_st)
  : req_st * list base_fx :=
  ({| q_priority := (q_priority s); q_preempt := (q_preempt s); q_time := (q_time s) |}, [FxSetRequest; FxGetInit]).

(* PriorityRequest.__init__  (def __init__(self, resource: 'Resource', priority: int=0, preempt: bool=True):) *)
Definition gen_PriorityRequest_init (s : req_st) (priority_arg : Z) (preempt_arg : bool) (now : Z)
  : req_st * list base_fx :=
  ({| q_priority := priority_arg; q_preempt := preempt_arg; q_time := now |}, [(FxSetKey priority_arg now (negb preempt_arg)); FxPutInit]).

(* SortedQueue.append  (def append(self, item: Any) -> None:) *)
Definition gen_SortedQueue_append (s : req_st) (maxlen : option Z) (n : Z)
  : req_st * list base_fx :=
  (match maxlen with
   | None => ({| q_priority := (q_priority s); q_preempt := (q_preempt s); q_time := (q_time s) |}, [FxListAppend; FxSortByKey])
   | Some maxlen' => (if (Z.leb maxlen' n)
                      then ({| q_priority := (q_priority s); q_preempt := (q_preempt s); q_time := (q_time s) |}, [FxRaiseQueueFull])
                      else ({| q_priority := (q_priority s); q_preempt := (q_preempt s); q_time := (q_time s) |}, [FxListAppend; FxSortByKey]))
   end).
