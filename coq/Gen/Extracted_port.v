(* GENERATED on every run by vlib/translate.py from the current sources of $VERIF_REPO. Do not edit. *)
From Coq Require Import ZArith QArith Qminmax Qabs Bool.
From Coq Require Import List.
Import ListNotations.
(* onl/netdev/port.py: Port.put *)

Record port_st := { g_packets_received : Z; g_byte_size : Z; g_packets_dropped : Z }.
Inductive port_fx :=
| FxStamp (k : option Z) (t : Q)
| FxStorePut.

(* Port.put  (def put(self, packet: Packet):) *)
Definition gen_Port_put (s : port_st) (element_id : option Z) (qlimit : option Z) (limit_bytes : bool) (debug : bool) (now : Q) (size : Z) (n_items : Z)
  : port_st * list port_fx :=
  let packets_received1 := ((g_packets_received s) + (1)%Z)%Z in
  let byte_count1 := ((g_byte_size s) + size)%Z in
  let fx1 :=
    (match element_id with
     | None => []
     | Some element_id' => [(FxStamp (Some element_id') now)]
     end) in
  (match qlimit with
   | None => ({| g_packets_received := packets_received1; g_byte_size := byte_count1; g_packets_dropped := (g_packets_dropped s) |}, (fx1 ++ [FxStorePut]))
   | Some qlimit' => (if ((limit_bytes && (Z.ltb qlimit' byte_count1)) || ((negb limit_bytes) && (Z.leb (qlimit' - (1)%Z)%Z n_items)))
                      then let packets_dropped1 := ((g_packets_dropped s) + (1)%Z)%Z in
                           ({| g_packets_received := packets_received1; g_byte_size := (g_byte_size s); g_packets_dropped := packets_dropped1 |}, fx1)
                      else ({| g_packets_received := packets_received1; g_byte_size := byte_count1; g_packets_dropped := (g_packets_dropped s) |}, (fx1 ++ [FxStorePut])))
   end).
