(* GENERATED on every run by vlib/translate.py from the current sources of $VERIF_REPO. Do not edit. *)
From Coq Require Import ZArith QArith Qminmax Qabs Bool.
From Coq Require Import List.
Import ListNotations.
(* onl/netdev/port.py: Port.run *)
(* by vlib/translate_gen.py: the generator body cut at its program points (0 = entry, then every yield /
   listed call-out in source order); one definition per reachable point: state fields, effects in program order,
   and what the process does next *)

Record port_run_st := { pr_byte_size : Z; pr_busy : Z; pr_busy_packet_size : Z }.
Inductive port_run_fx :=
| FxOutPut (busy : Z) (busy_packet_size : Z) (byte_size : Z).
Inductive port_run_req :=
| RqStoreGet
| RqTimeout (d : Q).
Inductive port_run_exn :=
| ExAssert.
(* program points (with the numeric locals that live across them) *)
Inductive port_run_pp :=
| PP1
| PP2.
Inductive port_run_next :=
| NxYield (r : port_run_req) (k : port_run_pp)
| NxExit
| NxRaise (e : port_run_exn).

(* Port.run, program point 0: entry (the kernel processes the Initialize event) *)
Definition gen_Port_run_from_0 (s : port_run_st) (rate : Q) (size : Z) (out_set : bool)
  : port_run_st * list port_run_fx * port_run_next :=
  ({| pr_byte_size := (pr_byte_size s); pr_busy := (pr_busy s); pr_busy_packet_size := (pr_busy_packet_size s) |}, [], (NxYield RqStoreGet PP1)).

(* Port.run, program point 1: resumed after line 46: `packet = yield self.store.get()`; objects bound: packet *)
Definition gen_Port_run_from_1 (s : port_run_st) (rate : Q) (size : Z) (out_set : bool)
  : port_run_st * list port_run_fx * port_run_next :=
  (if (negb (Qle_bool rate (0 # 1)))
   then ({| pr_byte_size := (pr_byte_size s); pr_busy := (1)%Z; pr_busy_packet_size := size |}, [], (NxYield (RqTimeout ((inject_Z (size * (8)%Z)%Z) / rate)%Q) PP2))
   else let byte_size1 := ((pr_byte_size s) - size)%Z in
        let fx1 :=
          (if out_set
           then [(FxOutPut (1)%Z size byte_size1)]
           else []) in
        ({| pr_byte_size := byte_size1; pr_busy := (0)%Z; pr_busy_packet_size := (0)%Z |}, fx1, (NxYield RqStoreGet PP1))).

(* Port.run, program point 2: resumed after line 52: `yield env.timeout(packet.size * 8 / self.rate)`; objects bound: packet *)
Definition gen_Port_run_from_2 (s : port_run_st) (rate : Q) (size : Z) (out_set : bool)
  : port_run_st * list port_run_fx * port_run_next :=
  let byte_size1 := ((pr_byte_size s) - size)%Z in
  let fx1 :=
    (if out_set
     then [(FxOutPut (pr_busy s) (pr_busy_packet_size s) byte_size1)]
     else []) in
  ({| pr_byte_size := byte_size1; pr_busy := (0)%Z; pr_busy_packet_size := (0)%Z |}, fx1, (NxYield RqStoreGet PP1)).
