(* GENERATED on every run by vlib/translate.py from the current sources of $VERIF_REPO. Do not edit. *)
From Coq Require Import ZArith QArith Qminmax Qabs Bool.
From Coq Require Import List.
Import ListNotations.
(* onl/scheduler/virtual_clock.py: VC.put *)

(* d[k] = v on a dict modelled as a total function *)
Definition gen_upd {V : Type} (f : Z -> V) (k : Z) (v : V) : Z -> V := fun x => if Z.eqb x k then v else f x.
Record vc_st := { v_arrivals : Z; v_vc : Z -> Q; v_aux_vc : Z -> Q }.
Inductive vc_fx :=
| FxAddToQueue
| FxActiveAdd (c : Z)
| FxStorePut (stamp : Q) (t : Q) (n : Z).

(* VC.put  (def put(self, packet: Packet):) *)
Definition gen_VC_put (s : vc_st) (class_id : Z) (now : Q) (size : Z) (vtick : Q)
  : vc_st * list vc_fx :=
  let vc2 :=
    (if (Qeq_bool ((v_vc s) class_id) (0 # 1))
     then (gen_upd (v_vc s) class_id now)
     else (v_vc s)) in
  let aux_vc1 := (gen_upd (v_aux_vc s) class_id (Qmax now ((v_aux_vc s) class_id))) in
  let vc3 := (gen_upd vc2 class_id ((vc2 class_id) + ((vtick * (inject_Z size))%Q * (8 # 1))%Q)%Q) in
  let aux_vc2 := (gen_upd aux_vc1 class_id ((aux_vc1 class_id) + vtick)%Q) in
  let arrivals1 := ((v_arrivals s) + (1)%Z)%Z in
  ({| v_arrivals := arrivals1; v_vc := vc3; v_aux_vc := aux_vc2 |}, [FxAddToQueue; (FxStorePut (aux_vc2 class_id) now arrivals1)]).
