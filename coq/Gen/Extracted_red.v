(* GENERATED on every run by vlib/translate.py from the current sources of $VERIF_REPO. Do not edit. *)
From Coq Require Import ZArith QArith Qminmax Qabs Bool.
From Coq Require Import List.
Import ListNotations.
(* onl/netdev/red_port.py: REDPort.put *)

Record red_st := { r_packets_received : Z; r_byte_size : Z; r_packets_dropped : Z; r_average_queue_size : Q }.
Inductive red_fx :=
| FxStamp (k : option Z) (t : Q)
| FxDraw
| FxStorePut.

(* REDPort.put  (def put(self, packet):) *)
Definition gen_REDPort_put (s : red_st) (element_id : option Z) (limit_bytes : bool) (debug : bool) (now : Q) (size : Z) (n_items : Z) (weight_factor : Z) (qlimit : Q) (max_threshold : Q) (min_threshold : Q) (max_probability : Q) (u : Q)
  : red_st * list red_fx :=
  let packets_received1 := ((r_packets_received s) + (1)%Z)%Z in
  let fx1 :=
    (match element_id with
     | None => []
     | Some element_id' => [(FxStamp (Some element_id') now)]
     end) in
  let current_queue_size1 :=
    (if limit_bytes
     then (r_byte_size s)
     else n_items) in
  let alpha1 := (Qpower (2 # 1) (- weight_factor)%Z) in
  let average_queue_size1 := (((r_average_queue_size s) * ((1 # 1) - alpha1)%Q)%Q + ((inject_Z current_queue_size1) * alpha1)%Q)%Q in
  (if (Qle_bool qlimit average_queue_size1)
   then let packets_dropped1 := ((r_packets_dropped s) + (1)%Z)%Z in
        ({| r_packets_received := packets_received1; r_byte_size := (r_byte_size s); r_packets_dropped := packets_dropped1; r_average_queue_size := average_queue_size1 |}, fx1)
   else (if (Qle_bool max_threshold average_queue_size1)
         then (if (Qle_bool u max_probability)
               then let packets_dropped1 := ((r_packets_dropped s) + (1)%Z)%Z in
                    ({| r_packets_received := packets_received1; r_byte_size := (r_byte_size s); r_packets_dropped := packets_dropped1; r_average_queue_size := average_queue_size1 |}, (fx1 ++ [FxDraw]))
               else let byte_size1 := ((r_byte_size s) + size)%Z in
                    ({| r_packets_received := packets_received1; r_byte_size := byte_size1; r_packets_dropped := (r_packets_dropped s); r_average_queue_size := average_queue_size1 |}, (fx1 ++ [FxDraw; FxStorePut])))
         else (if (Qle_bool min_threshold average_queue_size1)
               then let prob1 := (((average_queue_size1 - min_threshold)%Q / (max_threshold - min_threshold)%Q)%Q * max_probability)%Q in
                    (if (Qle_bool u prob1)
                     then let packets_dropped1 := ((r_packets_dropped s) + (1)%Z)%Z in
                          ({| r_packets_received := packets_received1; r_byte_size := (r_byte_size s); r_packets_dropped := packets_dropped1; r_average_queue_size := average_queue_size1 |}, (fx1 ++ [FxDraw]))
                     else let byte_size1 := ((r_byte_size s) + size)%Z in
                          ({| r_packets_received := packets_received1; r_byte_size := byte_size1; r_packets_dropped := (r_packets_dropped s); r_average_queue_size := average_queue_size1 |}, (fx1 ++ [FxDraw; FxStorePut])))
               else let byte_size1 := ((r_byte_size s) + size)%Z in
                    ({| r_packets_received := packets_received1; r_byte_size := byte_size1; r_packets_dropped := (r_packets_dropped s); r_average_queue_size := average_queue_size1 |}, (fx1 ++ [FxStorePut]))))).
