(* GENERATED on every run by vlib/translate.py from the current sources of $VERIF_REPO. Do not edit. *)
From Coq Require Import ZArith QArith Qminmax Qabs Bool.
From Coq Require Import List.
Import ListNotations.
(* onl/scheduler/virtual_clock.py: VC.run *)
(* by vlib/translate_gen.py: the generator body cut at its program points (0 = entry, then every yield /
   listed call-out in source order); one definition per reachable point: state fields, effects in program order,
   and what the process does next *)

Inductive vc_run_fx :=
| FxUnwrap.
Inductive vc_run_req :=
| RqStoreGet
| RqChild.
Inductive vc_run_exn :=
| ExAssert.
(* program points (with the numeric locals that live across them) *)
Inductive vc_run_pp :=
| PP1
| PP2.
Inductive vc_run_next :=
| NxYield (r : vc_run_req) (k : vc_run_pp)
| NxExit
| NxRaise (e : vc_run_exn).

(* VC.run, program point 0: entry (the kernel processes the Initialize event) *)
Definition gen_VC_run_from_0
  : list vc_run_fx * vc_run_next :=
  ([], (NxYield RqStoreGet PP1)).

(* VC.run, program point 1: resumed after line 38: `item: PriorityItem = yield self.store.get()`; objects bound: item *)
Definition gen_VC_run_from_1
  : list vc_run_fx * vc_run_next :=
  ([FxUnwrap], (NxYield RqChild PP2)).

(* VC.run, program point 2: resumed after line 40: `yield env.process(self.send_packet(packet))` *)
Definition gen_VC_run_from_2
  : list vc_run_fx * vc_run_next :=
  ([], (NxYield RqStoreGet PP1)).
