(* GENERATED on every run by vlib/translate.py from the current sources of $VERIF_REPO. Do not edit. *)
From Coq Require Import ZArith QArith Qminmax Qabs Bool.
From Coq Require Import List.
Import ListNotations.
(* onl/scheduler/wrr.py: WRR.run *)
(* by vlib/translate_gen.py: the generator body cut at its program points (0 = entry, then every yield /
   listed call-out in source order); one definition per reachable point: state fields, effects in program order,
   and what the process does next *)

(* range(n) *)
Definition gen_range (n : Z) : list Z := map Z.of_nat (seq 0 (Z.to_nat n)).
(* d[k] = v on a dict modelled as a total function *)
Definition gen_upd {V : Type} (f : Z -> V) (k : Z) (v : V) : Z -> V := fun x => if Z.eqb x k then v else f x.
Record wrr_run_st := { wr_queue_count : Z -> Z }.
Inductive wrr_run_fx := .
Inductive wrr_run_req :=
| RqStoreGet (k : Z)
| RqChild
| RqTokGet.
Inductive wrr_run_exn :=
| ExAssert.
(* program points (with the numeric locals that live across them) *)
Inductive wrr_run_pp :=
| PP1 (flow_id : Z) (for1_rest : list (Z * Z)) (for2_rest : list Z)
| PP2 (flow_id : Z) (for1_rest : list (Z * Z)) (for2_rest : list Z)
| PP3.
Inductive wrr_run_next :=
| NxYield (r : wrr_run_req) (k : wrr_run_pp)
| NxExit
| NxRaise (e : wrr_run_exn)
| NxSpin.

(* WRR.run, program point 0: entry (the kernel processes the Initialize event) *)
Definition gen_WRR_run_from_0 (s : wrr_run_st) (total_packets : Z) (weights : list (Z * Z)) (store_present : Z -> bool)
  : wrr_run_st * list wrr_run_fx * wrr_run_next :=
  ((fix scan1_1 (l1_1 : list (Z * Z)) : wrr_run_st * list wrr_run_fx * wrr_run_next :=
      match l1_1 with
      | [] => (if (Z.eqb total_packets (0)%Z)
               then ({| wr_queue_count := (wr_queue_count s) |}, [], (NxYield RqTokGet PP3))
               else ({| wr_queue_count := (wr_queue_count s) |}, [], NxSpin))
      | x1_1 :: l1_1' => let '(flow_id1, weight1) := x1_1 in 
                  ((fix scan2_1 (l2_1 : list Z) : wrr_run_st * list wrr_run_fx * wrr_run_next :=
                      match l2_1 with
                      | [] => (scan1_1 l1_1')
                      | x2_1 :: l2_1' => let v1 := x2_1 in 
                                  (if (Z.ltb (0)%Z ((wr_queue_count s) flow_id1))
                                   then (if (store_present flow_id1)
                                         then ({| wr_queue_count := (wr_queue_count s) |}, [], (NxYield (RqStoreGet flow_id1) (PP1 flow_id1 l1_1' l2_1')))
                                         else ({| wr_queue_count := (wr_queue_count s) |}, [], (NxRaise ExAssert)))
                                   else (scan1_1 l1_1'))
                      end) (gen_range weight1))
      end) weights).

(* WRR.run, program point 1: resumed after line 29: `packet: Packet = yield store.get()`; objects bound: packet *)
Definition gen_WRR_run_from_1 (s : wrr_run_st) (fr_flow_id : Z) (fr_for1_rest : list (Z * Z)) (fr_for2_rest : list Z) (total_packets : Z) (weights : list (Z * Z)) (store_present : Z -> bool)
  : wrr_run_st * list wrr_run_fx * wrr_run_next :=
  ({| wr_queue_count := (wr_queue_count s) |}, [], (NxYield RqChild (PP2 fr_flow_id fr_for1_rest fr_for2_rest))).

(* WRR.run, program point 2: resumed after line 30: `yield env.process(self.send_packet(packet))` *)
Definition gen_WRR_run_from_2 (s : wrr_run_st) (fr_flow_id : Z) (fr_for1_rest : list (Z * Z)) (fr_for2_rest : list Z) (total_packets : Z) (weights : list (Z * Z)) (store_present : Z -> bool)
  : wrr_run_st * list wrr_run_fx * wrr_run_next :=
  ((fix scan2_1 (l2_1 : list Z) : wrr_run_st * list wrr_run_fx * wrr_run_next :=
      match l2_1 with
      | [] => ((fix scan1_1 (l1_1 : list (Z * Z)) : wrr_run_st * list wrr_run_fx * wrr_run_next :=
                  match l1_1 with
                  | [] => (if (Z.eqb total_packets (0)%Z)
                           then ({| wr_queue_count := (wr_queue_count s) |}, [], (NxYield RqTokGet PP3))
                           else ((fix scan1_2 (l1_2 : list (Z * Z)) : wrr_run_st * list wrr_run_fx * wrr_run_next :=
                                    match l1_2 with
                                    | [] => (if (Z.eqb total_packets (0)%Z)
                                             then ({| wr_queue_count := (wr_queue_count s) |}, [], (NxYield RqTokGet PP3))
                                             else ({| wr_queue_count := (wr_queue_count s) |}, [], NxSpin))
                                    | x1_2 :: l1_2' => let '(flow_id1, weight1) := x1_2 in 
                                                ((fix scan2_2 (l2_2 : list Z) : wrr_run_st * list wrr_run_fx * wrr_run_next :=
                                                    match l2_2 with
                                                    | [] => (scan1_2 l1_2')
                                                    | x2_2 :: l2_2' => let v1 := x2_2 in 
                                                                (if (Z.ltb (0)%Z ((wr_queue_count s) flow_id1))
                                                                 then (if (store_present flow_id1)
                                                                       then ({| wr_queue_count := (wr_queue_count s) |}, [], (NxYield (RqStoreGet flow_id1) (PP1 flow_id1 l1_2' l2_2')))
                                                                       else ({| wr_queue_count := (wr_queue_count s) |}, [], (NxRaise ExAssert)))
                                                                 else (scan1_2 l1_2'))
                                                    end) (gen_range weight1))
                                    end) weights))
                  | x1_1 :: l1_1' => let '(flow_id1, weight1) := x1_1 in 
                              ((fix scan2_2 (l2_2 : list Z) : wrr_run_st * list wrr_run_fx * wrr_run_next :=
                                  match l2_2 with
                                  | [] => (scan1_1 l1_1')
                                  | x2_2 :: l2_2' => let v1 := x2_2 in 
                                              (if (Z.ltb (0)%Z ((wr_queue_count s) flow_id1))
                                               then (if (store_present flow_id1)
                                                     then ({| wr_queue_count := (wr_queue_count s) |}, [], (NxYield (RqStoreGet flow_id1) (PP1 flow_id1 l1_1' l2_2')))
                                                     else ({| wr_queue_count := (wr_queue_count s) |}, [], (NxRaise ExAssert)))
                                               else (scan1_1 l1_1'))
                                  end) (gen_range weight1))
                  end) fr_for1_rest)
      | x2_1 :: l2_1' => let v1 := x2_1 in 
                  (if (Z.ltb (0)%Z ((wr_queue_count s) fr_flow_id))
                   then (if (store_present fr_flow_id)
                         then ({| wr_queue_count := (wr_queue_count s) |}, [], (NxYield (RqStoreGet fr_flow_id) (PP1 fr_flow_id fr_for1_rest l2_1')))
                         else ({| wr_queue_count := (wr_queue_count s) |}, [], (NxRaise ExAssert)))
                   else ((fix scan1_1 (l1_1 : list (Z * Z)) : wrr_run_st * list wrr_run_fx * wrr_run_next :=
                            match l1_1 with
                            | [] => (if (Z.eqb total_packets (0)%Z)
                                     then ({| wr_queue_count := (wr_queue_count s) |}, [], (NxYield RqTokGet PP3))
                                     else ((fix scan1_2 (l1_2 : list (Z * Z)) : wrr_run_st * list wrr_run_fx * wrr_run_next :=
                                              match l1_2 with
                                              | [] => (if (Z.eqb total_packets (0)%Z)
                                                       then ({| wr_queue_count := (wr_queue_count s) |}, [], (NxYield RqTokGet PP3))
                                                       else ({| wr_queue_count := (wr_queue_count s) |}, [], NxSpin))
                                              | x1_2 :: l1_2' => let '(flow_id1, weight1) := x1_2 in 
                                                          ((fix scan2_2 (l2_2 : list Z) : wrr_run_st * list wrr_run_fx * wrr_run_next :=
                                                              match l2_2 with
                                                              | [] => (scan1_2 l1_2')
                                                              | x2_2 :: l2_2' => let v2 := x2_2 in 
                                                                          (if (Z.ltb (0)%Z ((wr_queue_count s) flow_id1))
                                                                           then (if (store_present flow_id1)
                                                                                 then ({| wr_queue_count := (wr_queue_count s) |}, [], (NxYield (RqStoreGet flow_id1) (PP1 flow_id1 l1_2' l2_2')))
                                                                                 else ({| wr_queue_count := (wr_queue_count s) |}, [], (NxRaise ExAssert)))
                                                                           else (scan1_2 l1_2'))
                                                              end) (gen_range weight1))
                                              end) weights))
                            | x1_1 :: l1_1' => let '(flow_id1, weight1) := x1_1 in 
                                        ((fix scan2_2 (l2_2 : list Z) : wrr_run_st * list wrr_run_fx * wrr_run_next :=
                                            match l2_2 with
                                            | [] => (scan1_1 l1_1')
                                            | x2_2 :: l2_2' => let v2 := x2_2 in 
                                                        (if (Z.ltb (0)%Z ((wr_queue_count s) flow_id1))
                                                         then (if (store_present flow_id1)
                                                               then ({| wr_queue_count := (wr_queue_count s) |}, [], (NxYield (RqStoreGet flow_id1) (PP1 flow_id1 l1_1' l2_2')))
                                                               else ({| wr_queue_count := (wr_queue_count s) |}, [], (NxRaise ExAssert)))
                                                         else (scan1_1 l1_1'))
                                            end) (gen_range weight1))
                            end) fr_for1_rest))
      end) fr_for2_rest).

(* WRR.run, program point 3: resumed after line 34: `yield self.packets_available.get()` *)
Definition gen_WRR_run_from_3 (s : wrr_run_st) (total_packets : Z) (weights : list (Z * Z)) (store_present : Z -> bool)
  : wrr_run_st * list wrr_run_fx * wrr_run_next :=
  ((fix scan1_1 (l1_1 : list (Z * Z)) : wrr_run_st * list wrr_run_fx * wrr_run_next :=
      match l1_1 with
      | [] => (if (Z.eqb total_packets (0)%Z)
               then ({| wr_queue_count := (wr_queue_count s) |}, [], (NxYield RqTokGet PP3))
               else ({| wr_queue_count := (wr_queue_count s) |}, [], NxSpin))
      | x1_1 :: l1_1' => let '(flow_id1, weight1) := x1_1 in 
                  ((fix scan2_1 (l2_1 : list Z) : wrr_run_st * list wrr_run_fx * wrr_run_next :=
                      match l2_1 with
                      | [] => (scan1_1 l1_1')
                      | x2_1 :: l2_1' => let v1 := x2_1 in 
                                  (if (Z.ltb (0)%Z ((wr_queue_count s) flow_id1))
                                   then (if (store_present flow_id1)
                                         then ({| wr_queue_count := (wr_queue_count s) |}, [], (NxYield (RqStoreGet flow_id1) (PP1 flow_id1 l1_1' l2_1')))
                                         else ({| wr_queue_count := (wr_queue_count s) |}, [], (NxRaise ExAssert)))
                                   else (scan1_1 l1_1'))
                      end) (gen_range weight1))
      end) weights).
