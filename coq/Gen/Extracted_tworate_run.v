(* GENERATED on every run by vlib/translate.py from the current sources of $VERIF_REPO. Do not edit. *)
From Coq Require Import ZArith QArith Qminmax Qabs Bool.
From Coq Require Import List.
Import ListNotations.
(* onl/netdev/two_level_token_bucket.py: TwoRateTokenBucket.run *)
(* by vlib/translate_gen.py: the generator body cut at its program points (0 = entry, then every yield /
   listed call-out in source order); one definition per reachable point: state fields, effects in program order,
   and what the process does next *)

Record tr_run_st := { tw_current_bucket_commit : Q; tw_current_bucket_peak : Q; tw_update_time : Q; tw_packets_sent : Z }.
Inductive tr_run_fx :=
| FxOutPut (packets_sent : Z)
| FxRed
| FxYellow
| FxGreen.
Inductive tr_run_req :=
| RqStoreGet
| RqTimeout (d : Q).
Inductive tr_run_exn :=
| ExAssert.
(* program points (with the numeric locals that live across them) *)
Inductive tr_run_pp :=
| PP1
| PP2
| PP3.
Inductive tr_run_next :=
| NxYield (r : tr_run_req) (k : tr_run_pp)
| NxExit
| NxRaise (e : tr_run_exn).

(* TwoRateTokenBucket.run, program point 0: entry (the kernel processes the Initialize event) *)
Definition gen_TwoRate_run_from_0 (s : tr_run_st) (cbs : Q) (cir : Q) (pir : option Q) (pbs : option Q) (peak_level_set : bool) (now : Q) (size : Z) (out_set : bool) (debug : bool)
  : tr_run_st * list tr_run_fx * tr_run_next :=
  ({| tw_current_bucket_commit := (tw_current_bucket_commit s); tw_current_bucket_peak := (tw_current_bucket_peak s); tw_update_time := (tw_update_time s); tw_packets_sent := (tw_packets_sent s) |}, [], (NxYield RqStoreGet PP1)).

(* TwoRateTokenBucket.run, program point 1: resumed after line 65: `packet: Packet = yield self.store.get()`; objects bound: packet *)
Definition gen_TwoRate_run_from_1 (s : tr_run_st) (cbs : Q) (cir : Q) (pir : option Q) (pbs : option Q) (peak_level_set : bool) (now : Q) (size : Z) (out_set : bool) (debug : bool)
  : tr_run_st * list tr_run_fx * tr_run_next :=
  let current_bucket_commit1 := (Qmin cbs ((tw_current_bucket_commit s) + ((cir * (now - (tw_update_time s))%Q)%Q / (8 # 1))%Q)%Q) in
  (match pir with
   | None => (if (negb (Qle_bool (inject_Z size) current_bucket_commit1))
              then ({| tw_current_bucket_commit := current_bucket_commit1; tw_current_bucket_peak := (tw_current_bucket_peak s); tw_update_time := now; tw_packets_sent := (tw_packets_sent s) |}, [], (NxYield (RqTimeout ((((inject_Z size) - current_bucket_commit1)%Q * (8 # 1))%Q / cir)%Q) PP3))
              else let current_bucket_commit2 := (current_bucket_commit1 - (inject_Z size))%Q in
                   (if out_set
                    then let packets_sent1 := ((tw_packets_sent s) + (1)%Z)%Z in
                         ({| tw_current_bucket_commit := current_bucket_commit2; tw_current_bucket_peak := (tw_current_bucket_peak s); tw_update_time := now; tw_packets_sent := packets_sent1 |}, [FxGreen; (FxOutPut (tw_packets_sent s))], (NxYield RqStoreGet PP1))
                    else ({| tw_current_bucket_commit := current_bucket_commit2; tw_current_bucket_peak := (tw_current_bucket_peak s); tw_update_time := now; tw_packets_sent := (tw_packets_sent s) |}, [FxGreen], (NxRaise ExAssert))))
   | Some pir' => (if (negb (Qeq_bool pir' 0))
                   then (match pbs with
                         | None => ({| tw_current_bucket_commit := current_bucket_commit1; tw_current_bucket_peak := (tw_current_bucket_peak s); tw_update_time := (tw_update_time s); tw_packets_sent := (tw_packets_sent s) |}, [], (NxRaise ExAssert))
                         | Some pbs' => let current_bucket_peak1 := (Qmin pbs' ((tw_current_bucket_peak s) + ((pir' * (now - (tw_update_time s))%Q)%Q / (8 # 1))%Q)%Q) in
                                        (if (negb (Qeq_bool pir' 0))
                                         then (if peak_level_set
                                               then (if (negb (Qle_bool (inject_Z size) current_bucket_peak1))
                                                     then ({| tw_current_bucket_commit := current_bucket_commit1; tw_current_bucket_peak := current_bucket_peak1; tw_update_time := now; tw_packets_sent := (tw_packets_sent s) |}, [], (NxYield (RqTimeout ((((inject_Z size) - current_bucket_peak1)%Q * (8 # 1))%Q / pir')%Q) PP2))
                                                     else let '(current_bucket_commit3, current_bucket_peak4, fx1) :=
                                                            (if (negb (Qle_bool (inject_Z size) current_bucket_commit1))
                                                             then let current_bucket_peak2 := (current_bucket_peak1 - (inject_Z size))%Q in
                                                                  (current_bucket_commit1, current_bucket_peak2, [FxYellow])
                                                             else let current_bucket_commit2 := (current_bucket_commit1 - (inject_Z size))%Q in
                                                                  let current_bucket_peak3 := (current_bucket_peak1 - (inject_Z size))%Q in
                                                                  (current_bucket_commit2, current_bucket_peak3, [FxGreen])) in
                                                          (if out_set
                                                           then let packets_sent1 := ((tw_packets_sent s) + (1)%Z)%Z in
                                                                ({| tw_current_bucket_commit := current_bucket_commit3; tw_current_bucket_peak := current_bucket_peak4; tw_update_time := now; tw_packets_sent := packets_sent1 |}, (fx1 ++ [(FxOutPut (tw_packets_sent s))]), (NxYield RqStoreGet PP1))
                                                           else ({| tw_current_bucket_commit := current_bucket_commit3; tw_current_bucket_peak := current_bucket_peak4; tw_update_time := now; tw_packets_sent := (tw_packets_sent s) |}, fx1, (NxRaise ExAssert))))
                                               else ({| tw_current_bucket_commit := current_bucket_commit1; tw_current_bucket_peak := current_bucket_peak1; tw_update_time := now; tw_packets_sent := (tw_packets_sent s) |}, [], (NxRaise ExAssert)))
                                         else (if (negb (Qle_bool (inject_Z size) current_bucket_commit1))
                                               then ({| tw_current_bucket_commit := current_bucket_commit1; tw_current_bucket_peak := current_bucket_peak1; tw_update_time := now; tw_packets_sent := (tw_packets_sent s) |}, [], (NxYield (RqTimeout ((((inject_Z size) - current_bucket_commit1)%Q * (8 # 1))%Q / cir)%Q) PP3))
                                               else let current_bucket_commit2 := (current_bucket_commit1 - (inject_Z size))%Q in
                                                    (if out_set
                                                     then let packets_sent1 := ((tw_packets_sent s) + (1)%Z)%Z in
                                                          ({| tw_current_bucket_commit := current_bucket_commit2; tw_current_bucket_peak := current_bucket_peak1; tw_update_time := now; tw_packets_sent := packets_sent1 |}, [FxGreen; (FxOutPut (tw_packets_sent s))], (NxYield RqStoreGet PP1))
                                                     else ({| tw_current_bucket_commit := current_bucket_commit2; tw_current_bucket_peak := current_bucket_peak1; tw_update_time := now; tw_packets_sent := (tw_packets_sent s) |}, [FxGreen], (NxRaise ExAssert)))))
                         end)
                   else (if (negb (Qeq_bool pir' 0))
                         then (if peak_level_set
                               then (if (negb (Qle_bool (inject_Z size) (tw_current_bucket_peak s)))
                                     then ({| tw_current_bucket_commit := current_bucket_commit1; tw_current_bucket_peak := (tw_current_bucket_peak s); tw_update_time := now; tw_packets_sent := (tw_packets_sent s) |}, [], (NxYield (RqTimeout ((((inject_Z size) - (tw_current_bucket_peak s))%Q * (8 # 1))%Q / pir')%Q) PP2))
                                     else let '(current_bucket_commit3, current_bucket_peak3, fx1) :=
                                            (if (negb (Qle_bool (inject_Z size) current_bucket_commit1))
                                             then let current_bucket_peak1 := ((tw_current_bucket_peak s) - (inject_Z size))%Q in
                                                  (current_bucket_commit1, current_bucket_peak1, [FxYellow])
                                             else let current_bucket_commit2 := (current_bucket_commit1 - (inject_Z size))%Q in
                                                  let current_bucket_peak2 := ((tw_current_bucket_peak s) - (inject_Z size))%Q in
                                                  (current_bucket_commit2, current_bucket_peak2, [FxGreen])) in
                                          (if out_set
                                           then let packets_sent1 := ((tw_packets_sent s) + (1)%Z)%Z in
                                                ({| tw_current_bucket_commit := current_bucket_commit3; tw_current_bucket_peak := current_bucket_peak3; tw_update_time := now; tw_packets_sent := packets_sent1 |}, (fx1 ++ [(FxOutPut (tw_packets_sent s))]), (NxYield RqStoreGet PP1))
                                           else ({| tw_current_bucket_commit := current_bucket_commit3; tw_current_bucket_peak := current_bucket_peak3; tw_update_time := now; tw_packets_sent := (tw_packets_sent s) |}, fx1, (NxRaise ExAssert))))
                               else ({| tw_current_bucket_commit := current_bucket_commit1; tw_current_bucket_peak := (tw_current_bucket_peak s); tw_update_time := now; tw_packets_sent := (tw_packets_sent s) |}, [], (NxRaise ExAssert)))
                         else (if (negb (Qle_bool (inject_Z size) current_bucket_commit1))
                               then ({| tw_current_bucket_commit := current_bucket_commit1; tw_current_bucket_peak := (tw_current_bucket_peak s); tw_update_time := now; tw_packets_sent := (tw_packets_sent s) |}, [], (NxYield (RqTimeout ((((inject_Z size) - current_bucket_commit1)%Q * (8 # 1))%Q / cir)%Q) PP3))
                               else let current_bucket_commit2 := (current_bucket_commit1 - (inject_Z size))%Q in
                                    (if out_set
                                     then let packets_sent1 := ((tw_packets_sent s) + (1)%Z)%Z in
                                          ({| tw_current_bucket_commit := current_bucket_commit2; tw_current_bucket_peak := (tw_current_bucket_peak s); tw_update_time := now; tw_packets_sent := packets_sent1 |}, [FxGreen; (FxOutPut (tw_packets_sent s))], (NxYield RqStoreGet PP1))
                                     else ({| tw_current_bucket_commit := current_bucket_commit2; tw_current_bucket_peak := (tw_current_bucket_peak s); tw_update_time := now; tw_packets_sent := (tw_packets_sent s) |}, [FxGreen], (NxRaise ExAssert))))))
   end).

(* TwoRateTokenBucket.run, program point 2: resumed after line 85: `yield env.timeout(`; objects bound: packet *)
Definition gen_TwoRate_run_from_2 (s : tr_run_st) (cbs : Q) (cir : Q) (pir : option Q) (pbs : option Q) (peak_level_set : bool) (now : Q) (size : Z) (out_set : bool) (debug : bool)
  : tr_run_st * list tr_run_fx * tr_run_next :=
  let current_bucket_commit1 := (Qmin cbs ((tw_current_bucket_commit s) + ((cir * (now - (tw_update_time s))%Q)%Q / (8 # 1))%Q)%Q) in
  (if out_set
   then let packets_sent1 := ((tw_packets_sent s) + (1)%Z)%Z in
        ({| tw_current_bucket_commit := current_bucket_commit1; tw_current_bucket_peak := (0 # 1); tw_update_time := now; tw_packets_sent := packets_sent1 |}, [FxRed; (FxOutPut (tw_packets_sent s))], (NxYield RqStoreGet PP1))
   else ({| tw_current_bucket_commit := current_bucket_commit1; tw_current_bucket_peak := (0 # 1); tw_update_time := now; tw_packets_sent := (tw_packets_sent s) |}, [FxRed], (NxRaise ExAssert))).

(* TwoRateTokenBucket.run, program point 3: resumed after line 108: `yield env.timeout(`; objects bound: packet *)
Definition gen_TwoRate_run_from_3 (s : tr_run_st) (cbs : Q) (cir : Q) (pir : option Q) (pbs : option Q) (peak_level_set : bool) (now : Q) (size : Z) (out_set : bool) (debug : bool)
  : tr_run_st * list tr_run_fx * tr_run_next :=
  (if out_set
   then let packets_sent1 := ((tw_packets_sent s) + (1)%Z)%Z in
        ({| tw_current_bucket_commit := (0 # 1); tw_current_bucket_peak := (tw_current_bucket_peak s); tw_update_time := now; tw_packets_sent := packets_sent1 |}, [FxYellow; (FxOutPut (tw_packets_sent s))], (NxYield RqStoreGet PP1))
   else ({| tw_current_bucket_commit := (0 # 1); tw_current_bucket_peak := (tw_current_bucket_peak s); tw_update_time := now; tw_packets_sent := (tw_packets_sent s) |}, [FxYellow], (NxRaise ExAssert))).
