(* GENERATED on every run by vlib/translate.py from the current sources of $VERIF_REPO. Do not edit. *)
From Coq Require Import ZArith QArith Qminmax Qabs Bool.
From Coq Require Import List.
Import ListNotations.
(* onl/scheduler/drr.py: DRR.run *)
(* by vlib/translate_gen.py: the generator body cut at its program points (0 = entry, then every yield /
   listed call-out in source order); one definition per reachable point: state fields, effects in program order,
   and what the process does next *)

(* d[k] = v on a dict modelled as a total function *)
Definition gen_upd {V : Type} (f : Z -> V) (k : Z) (v : V) : Z -> V := fun x => if Z.eqb x k then v else f x.
Record drr_run_st := { dr_quantum : Z -> Q; dr_deficit : Z -> Q; dr_class_count : Z -> Z; dr_head_of_line : Z -> bool }.
Inductive drr_run_fx :=
| FxTakeParked (c : Z)
| FxUnpark (c : Z)
| FxPark (c : Z)
| FxSetCurrent.
Inductive drr_run_req :=
| RqStoreGet (k : Z)
| RqChild
| RqTokGet.
Inductive drr_run_exn :=
| ExAssert.
(* program points (with the numeric locals that live across them) *)
Inductive drr_run_pp :=
| PP1
| PP2 (class_id : Z) (for1_rest : list Z)
| PP3 (class_id : Z) (for1_rest : list Z)
| PP4.
Inductive drr_run_next :=
| NxYield (r : drr_run_req) (k : drr_run_pp)
| NxExit
| NxRaise (e : drr_run_exn)
| NxAgain (k : drr_run_pp).

(* DRR.run, the for loop number 1 as a separate definition: the (rest of the) table, the state and the effects so far -> as for a program point *)
Definition gen_DRR_run_loop1 (total_packets : Z) (size : Z) (classes : list Z) (parked_size : Z -> Z)
  :=
  fix scan1 (l : list Z) (s : drr_run_st) (fx0 : list drr_run_fx) {struct l} : drr_run_st * list drr_run_fx * drr_run_next :=
    match l with
    | [] => ({| dr_quantum := (dr_quantum s); dr_deficit := (dr_deficit s); dr_class_count := (dr_class_count s); dr_head_of_line := (dr_head_of_line s) |}, fx0, (NxAgain PP1))
    | x :: l' => let class_id1 := x in 
                let deficit2 :=
                  (if (Z.ltb (0)%Z ((dr_class_count s) class_id1))
                   then (gen_upd (dr_deficit s) class_id1 (((dr_deficit s) class_id1) + ((dr_quantum s) class_id1))%Q)
                   else (dr_deficit s)) in
                (if ((negb (Qle_bool (deficit2 class_id1) (0 # 1))) && (Z.ltb (0)%Z ((dr_class_count s) class_id1)))
                 then (if ((dr_head_of_line s) class_id1)
                       then let fx1 :=
                              (if (Qle_bool (inject_Z (parked_size class_id1)) (deficit2 class_id1))
                               then (fx0 ++ [(FxTakeParked class_id1); (FxUnpark class_id1); FxSetCurrent])
                               else (fx0 ++ [(FxTakeParked class_id1); (FxUnpark class_id1)])) in
                            (if (Qle_bool (inject_Z (parked_size class_id1)) (deficit2 class_id1))
                             then ({| dr_quantum := (dr_quantum s); dr_deficit := deficit2; dr_class_count := (dr_class_count s); dr_head_of_line := (gen_upd (dr_head_of_line s) class_id1 false) |}, fx1, (NxYield RqChild (PP3 class_id1 l')))
                             else (if (negb ((gen_upd (dr_head_of_line s) class_id1 false) class_id1))
                                   then (scan1 l' {| dr_quantum := (dr_quantum s); dr_deficit := deficit2; dr_class_count := (dr_class_count s); dr_head_of_line := (gen_upd (gen_upd (dr_head_of_line s) class_id1 false) class_id1 true) |} (fx1 ++ [(FxPark class_id1)]))
                                   else ({| dr_quantum := (dr_quantum s); dr_deficit := deficit2; dr_class_count := (dr_class_count s); dr_head_of_line := (gen_upd (dr_head_of_line s) class_id1 false) |}, fx1, (NxRaise ExAssert))))
                       else ({| dr_quantum := (dr_quantum s); dr_deficit := deficit2; dr_class_count := (dr_class_count s); dr_head_of_line := (dr_head_of_line s) |}, fx0, (NxYield (RqStoreGet class_id1) (PP2 class_id1 l'))))
                 else (scan1 l' {| dr_quantum := (dr_quantum s); dr_deficit := deficit2; dr_class_count := (dr_class_count s); dr_head_of_line := (dr_head_of_line s) |} fx0))
    end.

(* DRR.run, program point 0: entry (the kernel processes the Initialize event) *)
Definition gen_DRR_run_from_0 (s : drr_run_st) (total_packets : Z) (size : Z) (classes : list Z) (parked_size : Z -> Z)
  : drr_run_st * list drr_run_fx * drr_run_next :=
  ({| dr_quantum := (dr_quantum s); dr_deficit := (dr_deficit s); dr_class_count := (dr_class_count s); dr_head_of_line := (dr_head_of_line s) |}, [], (NxAgain PP1)).

(* DRR.run, program point 1: at the head of the loop of line 54: `while self.total_packets > 0:` (reached with NxAgain: one pass, or what follows the loop) *)
Definition gen_DRR_run_from_1 (s : drr_run_st) (total_packets : Z) (size : Z) (classes : list Z) (parked_size : Z -> Z)
  : drr_run_st * list drr_run_fx * drr_run_next :=
  (if (Z.ltb (0)%Z total_packets)
   then (gen_DRR_run_loop1 total_packets size classes parked_size classes {| dr_quantum := (dr_quantum s); dr_deficit := (dr_deficit s); dr_class_count := (dr_class_count s); dr_head_of_line := (dr_head_of_line s) |} [])
   else (if (Z.eqb total_packets (0)%Z)
         then ({| dr_quantum := (dr_quantum s); dr_deficit := (dr_deficit s); dr_class_count := (dr_class_count s); dr_head_of_line := (dr_head_of_line s) |}, [], (NxYield RqTokGet PP4))
         else ({| dr_quantum := (dr_quantum s); dr_deficit := (dr_deficit s); dr_class_count := (dr_class_count s); dr_head_of_line := (dr_head_of_line s) |}, [], (NxAgain PP1)))).

(* DRR.run, program point 2: resumed after line 67: `packet = yield store.get()`; objects bound: packet *)
Definition gen_DRR_run_from_2 (s : drr_run_st) (fr_class_id : Z) (fr_for1_rest : list Z) (total_packets : Z) (size : Z) (classes : list Z) (parked_size : Z -> Z)
  : drr_run_st * list drr_run_fx * drr_run_next :=
  let fx1 :=
    (if (Qle_bool (inject_Z size) ((dr_deficit s) fr_class_id))
     then [FxSetCurrent]
     else []) in
  (if (Qle_bool (inject_Z size) ((dr_deficit s) fr_class_id))
   then ({| dr_quantum := (dr_quantum s); dr_deficit := (dr_deficit s); dr_class_count := (dr_class_count s); dr_head_of_line := (dr_head_of_line s) |}, fx1, (NxYield RqChild (PP3 fr_class_id fr_for1_rest)))
   else (if (negb ((dr_head_of_line s) fr_class_id))
         then (gen_DRR_run_loop1 total_packets size classes parked_size fr_for1_rest {| dr_quantum := (dr_quantum s); dr_deficit := (dr_deficit s); dr_class_count := (dr_class_count s); dr_head_of_line := (gen_upd (dr_head_of_line s) fr_class_id true) |} (fx1 ++ [(FxPark fr_class_id)]))
         else ({| dr_quantum := (dr_quantum s); dr_deficit := (dr_deficit s); dr_class_count := (dr_class_count s); dr_head_of_line := (dr_head_of_line s) |}, fx1, (NxRaise ExAssert)))).

(* DRR.run, program point 3: resumed after line 75: `yield env.process(self.send_packet(packet))`; objects bound: packet *)
Definition gen_DRR_run_from_3 (s : drr_run_st) (fr_class_id : Z) (fr_for1_rest : list Z) (total_packets : Z) (size : Z) (classes : list Z) (parked_size : Z -> Z)
  : drr_run_st * list drr_run_fx * drr_run_next :=
  let class_count1 := (gen_upd (dr_class_count s) fr_class_id (((dr_class_count s) fr_class_id) - (1)%Z)%Z) in
  let deficit1 := (gen_upd (dr_deficit s) fr_class_id (((dr_deficit s) fr_class_id) - (inject_Z size))%Q) in
  let deficit3 :=
    (if (Z.eqb (class_count1 fr_class_id) (0)%Z)
     then (gen_upd deficit1 fr_class_id (0 # 1))
     else deficit1) in
  (if ((negb (Qle_bool (deficit3 fr_class_id) (0 # 1))) && (Z.ltb (0)%Z (class_count1 fr_class_id)))
   then (if ((dr_head_of_line s) fr_class_id)
         then let fx1 :=
                (if (Qle_bool (inject_Z (parked_size fr_class_id)) (deficit3 fr_class_id))
                 then [(FxTakeParked fr_class_id); (FxUnpark fr_class_id); FxSetCurrent]
                 else [(FxTakeParked fr_class_id); (FxUnpark fr_class_id)]) in
              (if (Qle_bool (inject_Z (parked_size fr_class_id)) (deficit3 fr_class_id))
               then ({| dr_quantum := (dr_quantum s); dr_deficit := deficit3; dr_class_count := class_count1; dr_head_of_line := (gen_upd (dr_head_of_line s) fr_class_id false) |}, fx1, (NxYield RqChild (PP3 fr_class_id fr_for1_rest)))
               else (if (negb ((gen_upd (dr_head_of_line s) fr_class_id false) fr_class_id))
                     then (gen_DRR_run_loop1 total_packets size classes parked_size fr_for1_rest {| dr_quantum := (dr_quantum s); dr_deficit := deficit3; dr_class_count := class_count1; dr_head_of_line := (gen_upd (gen_upd (dr_head_of_line s) fr_class_id false) fr_class_id true) |} (fx1 ++ [(FxPark fr_class_id)]))
                     else ({| dr_quantum := (dr_quantum s); dr_deficit := deficit3; dr_class_count := class_count1; dr_head_of_line := (gen_upd (dr_head_of_line s) fr_class_id false) |}, fx1, (NxRaise ExAssert))))
         else ({| dr_quantum := (dr_quantum s); dr_deficit := deficit3; dr_class_count := class_count1; dr_head_of_line := (dr_head_of_line s) |}, [], (NxYield (RqStoreGet fr_class_id) (PP2 fr_class_id fr_for1_rest))))
   else (gen_DRR_run_loop1 total_packets size classes parked_size fr_for1_rest {| dr_quantum := (dr_quantum s); dr_deficit := deficit3; dr_class_count := class_count1; dr_head_of_line := (dr_head_of_line s) |} [])).

(* DRR.run, program point 4: resumed after line 86: `yield self.packets_available.get()` *)
Definition gen_DRR_run_from_4 (s : drr_run_st) (total_packets : Z) (size : Z) (classes : list Z) (parked_size : Z -> Z)
  : drr_run_st * list drr_run_fx * drr_run_next :=
  ({| dr_quantum := (dr_quantum s); dr_deficit := (dr_deficit s); dr_class_count := (dr_class_count s); dr_head_of_line := (dr_head_of_line s) |}, [], (NxAgain PP1)).
