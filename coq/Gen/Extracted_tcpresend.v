(* GENERATED on every run by vlib/translate.py from the current sources of $VERIF_REPO. Do not edit. *)
From Coq Require Import ZArith QArith Qminmax Qabs Bool.
From Coq Require Import List.
Import ListNotations.
(* onl/packet/tcp_generator.py: TCPPacketGenerator.resend_packet; ONE iteration of the loop of put() over the acknowledged timer ids (state record = the position k) *)

Record ack_st := { a_k : Z }.
Inductive resend_fx :=
| FxRestamp (t : Q)
| FxAssertOut
| FxTx
| FxTimerStop
| FxDelTimer
| FxDelSent
| FxLoopAgain.

(* TCPPacketGenerator.resend_packet  (def resend_packet(self, seqno: int):) *)
Definition gen_resend_packet (s : ack_st) (not_in_flight : bool) (now : Q)
  : ack_st * list resend_fx :=
  (if not_in_flight
   then ({| a_k := (a_k s) |}, [])
   else ({| a_k := (a_k s) |}, [(FxRestamp now); FxAssertOut; FxTx])).

(* TCPPacketGenerator.put  (def put(self, ack: Packet):) *)
Definition gen_stop_acked_iter (s : ack_st) (n_acked : Z)
  : ack_st * list resend_fx :=
  (if (Z.ltb (a_k s) n_acked)
   then let k1 := ((a_k s) + (1)%Z)%Z in
        ({| a_k := k1 |}, [FxTimerStop; FxDelTimer; FxDelSent; FxLoopAgain])
   else ({| a_k := (a_k s) |}, [])).
