(* GENERATED on every run by vlib/translate.py from the current sources of $VERIF_REPO. Do not edit. *)
From Coq Require Import ZArith QArith Qminmax Qabs Bool.
From Coq Require Import List.
Import ListNotations.
(* onl/netdev/demux.py: FlowDemux.put, FIBDemux.put *)

Record demux_st := { d_packets_recevied : Z }.
Inductive demux_fx :=
| FxOut (i : Z)
| FxDefault
| FxRaiseValueError
| FxEnd
| FxLookup
| FxPutOut.

(* FlowDemux.put  (def put(self, packet: Packet):) *)
Definition gen_FlowDemux_put (s : demux_st) (flow_id : Z) (n_outs : Z) (has_default : bool)
  : demux_st * list demux_fx :=
  let packets_recevied1 := ((d_packets_recevied s) + (1)%Z)%Z in
  (if ((Z.leb (0)%Z flow_id) && (Z.ltb flow_id n_outs))
   then ({| d_packets_recevied := packets_recevied1 |}, [(FxOut flow_id)])
   else (if has_default
         then ({| d_packets_recevied := packets_recevied1 |}, [FxDefault])
         else ({| d_packets_recevied := packets_recevied1 |}, []))).

(* FIBDemux.put  (def put(self, packet):) *)
Definition gen_FIBDemux_put (s : demux_st) (has_fib : bool) (in_ends : bool) (flow_id : Z) (out_given : bool)
  : demux_st * list demux_fx :=
  (if (negb has_fib)
   then ({| d_packets_recevied := (d_packets_recevied s) |}, [FxRaiseValueError])
   else let packets_recevied1 := ((d_packets_recevied s) + (1)%Z)%Z in
        (if in_ends
         then ({| d_packets_recevied := packets_recevied1 |}, [FxEnd])
         else (if out_given
               then ({| d_packets_recevied := packets_recevied1 |}, [FxLookup; FxPutOut])
               else ({| d_packets_recevied := packets_recevied1 |}, [FxLookup])))).
