(* GENERATED on every run by vlib/translate.py from the current sources of $VERIF_REPO. Do not edit. *)
From Coq Require Import ZArith QArith Qminmax Qabs Bool.
From Coq Require Import List.
Import ListNotations.
(* onl/netdev/wire.py: Wire.put *)

Record wire_st := { w_packets_rec : Z }.
Inductive wire_fx :=
| FxStampCurrent (t : Q)
| FxStorePut (t : Q).

(* Wire.put  (def put(self, packet: Packet):) *)
Definition gen_Wire_put (s : wire_st) (debug : bool) (now : Q)
  : wire_st * list wire_fx :=
  let packets_rec1 := ((w_packets_rec s) + (1)%Z)%Z in
  ({| w_packets_rec := packets_rec1 |}, [(FxStampCurrent now); (FxStorePut now)]).
