(* GENERATED on every run by vlib/translate.py from the current sources of $VERIF_REPO. Do not edit. *)
From Coq Require Import ZArith QArith Qminmax Qabs Bool.
From Coq Require Import List.
Import ListNotations.
(* onl/sim/core.py: Environment.schedule, peek, step; onl/sim/events.py: Event.succeed, fail, defused, Timeout / Initialize / Interruption .__init__, Interruption._interrupt, Process.interrupt *)

Inductive kernel_fx :=
| FxHeapPush (t : Q) (prio : Z)
| FxPeek
| FxRaiseEmptySchedule
| FxPop
| FxDetachCallbacks
| FxStopNone
| FxRunCallbacks
| FxRaiseStop
| FxCopyFailure
| FxSetCause
| FxRaiseFailure
| FxRaiseAlreadyTriggered
| FxRaiseNotException
| FxSetOk (b : bool)
| FxSetValueArg
| FxSetValueNone
| FxSetValueInterrupt
| FxSetDefused
| FxSchedule (prio : Z) (delay : Q)
| FxReturnSelf
| FxRaiseNegativeDelay
| FxEventInit
| FxSetDelay (d : Q)
| FxSetEnv
| FxSetCallbacksResume
| FxSetCallbacksInterrupt
| FxRaiseTerminated
| FxRaiseSelfInterrupt
| FxSetProcess
| FxRemoveResumeFromTarget
| FxResumeProcess
| FxNewInterruption
| FxRaiseStopValue
| FxRaiseEventValue
| FxCopyOk
| FxCopyValue
| FxRaiseNotGenerator
| FxSetCallbacksEmpty
| FxSetGenerator
| FxNewInitialize
| FxRaiseValuePending
| FxReturnValue.

(* Environment.schedule  (def schedule(self, event: Event, priority: EventPriority=NORMAL, delay: SimTime=0) -> None:) *)
Definition gen_Environment_schedule (now : Q) (delay : Q) (priority : Z)
  : list kernel_fx :=
  [(FxHeapPush (now + delay)%Q priority)].

(* Environment.peek  (def peek(self) -> SimTime:) *)
Definition gen_Environment_peek
  : list kernel_fx :=
  [FxPeek].

(* Environment.step  (def step(self) -> None:) *)
Definition gen_Environment_step (stop_raised : bool) (ok : bool) (defused : bool) (queue_empty : bool)
  : list kernel_fx :=
  (if queue_empty
   then [FxRaiseEmptySchedule]
   else (if stop_raised
         then [FxPop; FxDetachCallbacks; FxStopNone; FxRunCallbacks; FxRaiseStop]
         else (if ((negb ok) && (negb defused))
               then [FxPop; FxDetachCallbacks; FxStopNone; FxRunCallbacks; FxCopyFailure; FxSetCause; FxRaiseFailure]
               else [FxPop; FxDetachCallbacks; FxStopNone; FxRunCallbacks]))).

(* Event.succeed  (def succeed(self, value: Optional[Any]=None) -> 'Event':) *)
Definition gen_Event_succeed (triggered : bool)
  : list kernel_fx :=
  (if triggered
   then [FxRaiseAlreadyTriggered]
   else [(FxSetOk true); FxSetValueArg; FxSchedule (1)%Z (0 # 1); FxReturnSelf]).

(* Event.fail  (def fail(self, exception: Exception) -> 'Event':) *)
Definition gen_Event_fail (triggered : bool) (is_exception : bool)
  : list kernel_fx :=
  (if triggered
   then [FxRaiseAlreadyTriggered]
   else (if (negb is_exception)
         then [FxRaiseNotException]
         else [(FxSetOk false); FxSetValueArg; FxSchedule (1)%Z (0 # 1); FxReturnSelf])).

(* Event.defused  (@property) *)
Definition gen_Event_defused_get (has_defused : bool)
  : list kernel_fx * bool :=
  ([], has_defused).

(* Event.defused  (@defused.setter) *)
Definition gen_Event_defused_set
  : list kernel_fx :=
  [FxSetDefused].

(* Timeout.__init__  (def __init__(self, env: 'Environment', delay: 'SimTime', value: Optional[Any]=None):) *)
Definition gen_Timeout_init (delay : Q)
  : list kernel_fx :=
  (if (negb (Qle_bool (0 # 1) delay))
   then [FxRaiseNegativeDelay]
   else [FxEventInit; FxSetValueArg; (FxSetDelay delay); (FxSetOk true); (FxSchedule (1)%Z delay)]).

(* Initialize.__init__  (def __init__(self, env: 'Environment', process: 'Process'):) *)
Definition gen_Initialize_init
  : list kernel_fx :=
  [FxSetEnv; FxSetCallbacksResume; FxSetValueNone; (FxSetOk true); FxSchedule (0)%Z (0 # 1)].

(* Interruption.__init__  (def __init__(self, process: 'Process', cause: Optional[Any]):) *)
Definition gen_Interruption_init (process_triggered : bool) (process_is_active : bool)
  : list kernel_fx :=
  (if process_triggered
   then [FxSetEnv; FxSetCallbacksInterrupt; FxSetValueInterrupt; (FxSetOk false); FxSetDefused; FxRaiseTerminated]
   else (if process_is_active
         then [FxSetEnv; FxSetCallbacksInterrupt; FxSetValueInterrupt; (FxSetOk false); FxSetDefused; FxRaiseSelfInterrupt]
         else [FxSetEnv; FxSetCallbacksInterrupt; FxSetValueInterrupt; (FxSetOk false); FxSetDefused; FxSetProcess; FxSchedule (0)%Z (0 # 1)])).

(* Interruption._interrupt  (def _interrupt(self, event: Event) -> None:) *)
Definition gen_Interruption_interrupt (process_triggered : bool)
  : list kernel_fx :=
  (if process_triggered
   then []
   else [FxRemoveResumeFromTarget; FxResumeProcess]).

(* Process.interrupt  (def interrupt(self, cause: Optional[Any]=None) -> None:) *)
Definition gen_Process_interrupt
  : list kernel_fx :=
  [FxNewInterruption].

(* StopSimulation.callback  (@classmethod) *)
Definition gen_StopSimulation_callback (ok : bool)
  : list kernel_fx :=
  (if ok
   then [FxRaiseStopValue]
   else [FxRaiseEventValue]).

(* Event.trigger  (def trigger(self, event: 'Event') -> None:) *)
Definition gen_Event_trigger
  : list kernel_fx :=
  [FxCopyOk; FxCopyValue; FxSchedule (1)%Z (0 # 1)].

(* Process.__init__  (def __init__(self, env: 'Environment', generator: ProcessGenerator):) *)
Definition gen_Process_init (is_generator : bool)
  : list kernel_fx :=
  (if (negb is_generator)
   then [FxRaiseNotGenerator]
   else [FxSetEnv; FxSetCallbacksEmpty; FxSetGenerator; FxNewInitialize]).

(* Process.is_alive  (@property) *)
Definition gen_Process_is_alive (pending : bool)
  : list kernel_fx * bool :=
  ([], pending).

(* Event.triggered  (@property) *)
Definition gen_Event_triggered (triggered : bool)
  : list kernel_fx * bool :=
  ([], triggered).

(* Event.processed  (@property) *)
Definition gen_Event_processed (processed : bool)
  : list kernel_fx * bool :=
  ([], processed).

(* Event.ok  (@property) *)
Definition gen_Event_ok (ok : bool)
  : list kernel_fx * bool :=
  ([], ok).

(* Event.value  (@property) *)
Definition gen_Event_value (pending : bool)
  : list kernel_fx :=
  (if pending
   then [FxRaiseValuePending]
   else [FxReturnValue]).
