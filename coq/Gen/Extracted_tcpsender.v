(* GENERATED on every run by vlib/translate.py from the current sources of $VERIF_REPO. Do not edit. *)
From Coq Require Import ZArith QArith Qminmax Qabs Bool.
From Coq Require Import List.
Import ListNotations.
(* onl/packet/tcp_generator.py: TCPPacketGenerator.put, timeout_callback *)

Record sender_st := { t_dupack : Z; t_last_ack : Z; t_rtt_estimate : Q; t_est_deviation : Q; t_rto : Q }.
Inductive sender_fx :=
| FxAssertAck
| FxCcDupackOver
| FxCcFastRetransmit
| FxCcMoreDupacks
| FxCcAck (sample : Q) (now : Q)
| FxCcTimerExpired
| FxResend (id : Z)
| FxStopAcked
| FxTokenPut
| FxTimerRestart (id : Z) (r : Q).

(* TCPPacketGenerator.put  (def put(self, ack: Packet):) *)
Definition gen_TCPPacketGenerator_put (s : sender_st) (ackno : Z) (ack_time : Q) (now : Q) (cwnd_inflated : Q)
  : sender_st * list sender_fx :=
  let '(dupack2, fx2) :=
    (if (Z.eqb ackno (t_last_ack s))
     then let dupack1 := ((t_dupack s) + (1)%Z)%Z in
          (dupack1, [FxAssertAck])
     else (if (Z.ltb (0)%Z (t_dupack s))
           then let fx1 :=
                  (if (Z.leb (3)%Z (t_dupack s))
                   then [FxAssertAck; FxCcDupackOver]
                   else [FxAssertAck]) in
                ((0)%Z, fx1)
           else ((t_dupack s), [FxAssertAck]))) in
  (if (Z.eqb dupack2 (3)%Z)
   then ({| t_dupack := dupack2; t_last_ack := (t_last_ack s); t_rtt_estimate := (t_rtt_estimate s); t_est_deviation := (t_est_deviation s); t_rto := (t_rto s) |}, (fx2 ++ [FxCcFastRetransmit; (FxResend ackno)]))
   else (if (Z.ltb (3)%Z dupack2)
         then let fx3 :=
                (if (Qle_bool (inject_Z ackno) ((inject_Z (t_last_ack s)) + cwnd_inflated)%Q)
                 then (fx2 ++ [FxCcMoreDupacks; (FxResend ackno)])
                 else (fx2 ++ [FxCcMoreDupacks])) in
              ({| t_dupack := dupack2; t_last_ack := (t_last_ack s); t_rtt_estimate := (t_rtt_estimate s); t_est_deviation := (t_est_deviation s); t_rto := (t_rto s) |}, fx3)
         else (if (Z.eqb dupack2 (0)%Z)
               then let sample_rtt1 := (now - ack_time)%Q in
                    let sample_err1 := (sample_rtt1 - (t_rtt_estimate s))%Q in
                    let rtt_estimate1 := ((t_rtt_estimate s) + ((1 # 8) * sample_err1)%Q)%Q in
                    let est_deviation1 := ((t_est_deviation s) + ((1 # 4) * ((Qabs sample_err1) - (t_est_deviation s))%Q)%Q)%Q in
                    let rto1 := (rtt_estimate1 + ((4 # 1) * est_deviation1)%Q)%Q in
                    ({| t_dupack := dupack2; t_last_ack := ackno; t_rtt_estimate := rtt_estimate1; t_est_deviation := est_deviation1; t_rto := rto1 |}, (fx2 ++ [(FxCcAck sample_rtt1 now); FxStopAcked; FxTokenPut]))
               else ({| t_dupack := dupack2; t_last_ack := (t_last_ack s); t_rtt_estimate := (t_rtt_estimate s); t_est_deviation := (t_est_deviation s); t_rto := (t_rto s) |}, fx2)))).

(* TCPPacketGenerator.timeout_callback  (def timeout_callback(self, packet_id):) *)
Definition gen_TCPPacketGenerator_timeout_callback (s : sender_st) (packet_id : Z)
  : sender_st * list sender_fx :=
  let rto1 := ((t_rto s) * (2 # 1))%Q in
  ({| t_dupack := (t_dupack s); t_last_ack := (t_last_ack s); t_rtt_estimate := (t_rtt_estimate s); t_est_deviation := (t_est_deviation s); t_rto := rto1 |}, [FxCcTimerExpired; (FxResend packet_id); (FxTimerRestart packet_id rto1)]).
