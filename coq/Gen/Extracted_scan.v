(* GENERATED on every run by vlib/translate.py from the current sources of $VERIF_REPO. Do not edit. *)
From Coq Require Import ZArith QArith Qminmax Qabs Bool.
From Coq Require Import List.
Import ListNotations.
(* onl/sim/resources/base.py: BaseResource._trigger_put / _trigger_get -- the initialisation and ONE iteration of the scan loop (state record = the loop index) *)

Record scan_st := { l_idx : Z }.
Inductive scan_fx :=
| FxDo
| FxPopAtIdx
| FxRaiseInvariant
| FxLoopAgain.

(* BaseResource._trigger_put  (def _trigger_put(self, get_event: Optional[GetType]) -> None:) *)
Definition gen_trigger_put_init (s : scan_st)
  : scan_st * list scan_fx :=
  ({| l_idx := (0)%Z |}, []).

(* BaseResource._trigger_put  (def _trigger_put(self, get_event: Optional[GetType]) -> None:) *)
Definition gen_trigger_put_iter (s : scan_st) (n_queue : Z) (triggered : bool) (proceed : bool) (pop_mismatch : bool)
  : scan_st * list scan_fx :=
  (if (Z.ltb (l_idx s) n_queue)
   then (if (negb triggered)
         then let idx1 := ((l_idx s) + (1)%Z)%Z in
              (if (negb proceed)
               then ({| l_idx := idx1 |}, [FxDo])
               else ({| l_idx := idx1 |}, [FxDo; FxLoopAgain]))
         else (if pop_mismatch
               then ({| l_idx := (l_idx s) |}, [FxDo; FxPopAtIdx; FxRaiseInvariant])
               else (if (negb proceed)
                     then ({| l_idx := (l_idx s) |}, [FxDo; FxPopAtIdx])
                     else ({| l_idx := (l_idx s) |}, [FxDo; FxPopAtIdx; FxLoopAgain]))))
   else ({| l_idx := (l_idx s) |}, [])).

(* BaseResource._trigger_get  (def _trigger_get(self, put_event: Optional[PutType]) -> None:) *)
Definition gen_trigger_get_init (s : scan_st)
  : scan_st * list scan_fx :=
  ({| l_idx := (0)%Z |}, []).

(* BaseResource._trigger_get  (def _trigger_get(self, put_event: Optional[PutType]) -> None:) *)
Definition gen_trigger_get_iter (s : scan_st) (n_queue : Z) (triggered : bool) (proceed : bool) (pop_mismatch : bool)
  : scan_st * list scan_fx :=
  (if (Z.ltb (l_idx s) n_queue)
   then (if (negb triggered)
         then let idx1 := ((l_idx s) + (1)%Z)%Z in
              (if (negb proceed)
               then ({| l_idx := idx1 |}, [FxDo])
               else ({| l_idx := idx1 |}, [FxDo; FxLoopAgain]))
         else (if pop_mismatch
               then ({| l_idx := (l_idx s) |}, [FxDo; FxPopAtIdx; FxRaiseInvariant])
               else (if (negb proceed)
                     then ({| l_idx := (l_idx s) |}, [FxDo; FxPopAtIdx])
                     else ({| l_idx := (l_idx s) |}, [FxDo; FxPopAtIdx; FxLoopAgain]))))
   else ({| l_idx := (l_idx s) |}, [])).
