(* GENERATED on every run by vlib/translate.py from the current sources of $VERIF_REPO. Do not edit. *)
From Coq Require Import ZArith QArith Qminmax Qabs Bool.
From Coq Require Import List.
Import ListNotations.
(* onl/scheduler/monitor.py: Monitor.run, the statements for ONE flow_id of the loop after each `yield` *)

Inductive schedmon_fx :=
| FxSize (f : Z) (n : Z)
| FxByteSize (f : Z) (b : Z).

(* Monitor.run  (def run(self, env: Environment) -> ProcessGenerator:) *)
Definition gen_Monitor_sample_flow (flow_id : Z) (count : Z) (bytes : Z) (service_included : bool) (in_service : bool) (service_flow : Z) (service_size : Z)
  : list schedmon_fx :=
  let '(total2, total_bytes2) :=
    (if (negb service_included)
     then (if (in_service && (Z.eqb service_flow flow_id))
           then let total1 := (count - (1)%Z)%Z in
                let total_bytes1 := (bytes - service_size)%Z in
                (total1, total_bytes1)
           else (count, bytes))
     else (count, bytes)) in
  [(FxSize flow_id total2); (FxByteSize flow_id total_bytes2)].
