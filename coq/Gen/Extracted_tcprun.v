(* GENERATED on every run by vlib/translate.py from the current sources of $VERIF_REPO. Do not edit. *)
From Coq Require Import ZArith QArith Qminmax Qabs Bool.
From Coq Require Import List.
Import ListNotations.
(* onl/packet/tcp_generator.py: TCPPacketGenerator.run *)
(* by vlib/translate_gen.py: the generator body cut at its program points (0 = entry, then every yield /
   listed call-out in source order); one definition per reachable point: state fields, effects in program order,
   and what the process does next *)

Record tcprun_st := { tg_next_seq : Z; tg_send_buffer : Z; tg_last_arrival : Q }.
Inductive tcprun_fx :=
| FxArrivalDist
| FxSizeDist
| FxNewPacket (t : Q) (size : Z) (id : Z)
| FxRecordSent
| FxOutPut
| FxNewTimer (rto : Q).
Inductive tcprun_req :=
| RqTimeout (d : Q)
| RqWindowGet.
Inductive tcprun_exn :=
| ExAssert.
(* program points (with the numeric locals that live across them) *)
Inductive tcprun_pp :=
| PP1
| PP2
| PP3
| PP4
| PP5.
Inductive tcprun_next :=
| NxYield (r : tcprun_req) (k : tcprun_pp)
| NxExit
| NxRaise (e : tcprun_exn)
| NxAgain (k : tcprun_pp).

(* TCPPacketGenerator.run, program point 0: entry (the kernel processes the Initialize event) *)
Definition gen_TCPGen_run_from_0 (s : tcprun_st) (start_time : option Q) (before_finish : bool) (flow_size : option Z) (has_arrival_dist : bool) (has_size_dist : bool) (mss : Z) (last_ack : Z) (cwnd : Q) (rto : Q) (now : Q) (out_set : bool) (psize : Z) (pid : Z) (arr : Q) (sz : Z)
  : tcprun_st * list tcprun_fx * tcprun_next :=
  (match start_time with
   | None => ({| tg_next_seq := (tg_next_seq s); tg_send_buffer := (tg_send_buffer s); tg_last_arrival := (tg_last_arrival s) |}, [], (NxAgain PP2))
   | Some start_time' => (if (negb (Qeq_bool start_time' 0))
                          then ({| tg_next_seq := (tg_next_seq s); tg_send_buffer := (tg_send_buffer s); tg_last_arrival := (tg_last_arrival s) |}, [], (NxYield (RqTimeout start_time') PP1))
                          else ({| tg_next_seq := (tg_next_seq s); tg_send_buffer := (tg_send_buffer s); tg_last_arrival := (tg_last_arrival s) |}, [], (NxAgain PP2)))
   end).

(* TCPPacketGenerator.run, program point 1: resumed after line 227: `yield env.timeout(self.flow.start_time)` *)
Definition gen_TCPGen_run_from_1 (s : tcprun_st) (start_time : option Q) (before_finish : bool) (flow_size : option Z) (has_arrival_dist : bool) (has_size_dist : bool) (mss : Z) (last_ack : Z) (cwnd : Q) (rto : Q) (now : Q) (out_set : bool) (psize : Z) (pid : Z) (arr : Q) (sz : Z)
  : tcprun_st * list tcprun_fx * tcprun_next :=
  ({| tg_next_seq := (tg_next_seq s); tg_send_buffer := (tg_send_buffer s); tg_last_arrival := (tg_last_arrival s) |}, [], (NxAgain PP2)).

(* TCPPacketGenerator.run, program point 2: at the head of the loop of line 229: `while env.now < self.flow.finish_time:` (reached with NxAgain: one pass, or what follows the loop) *)
Definition gen_TCPGen_run_from_2 (s : tcprun_st) (start_time : option Q) (before_finish : bool) (flow_size : option Z) (has_arrival_dist : bool) (has_size_dist : bool) (mss : Z) (last_ack : Z) (cwnd : Q) (rto : Q) (now : Q) (out_set : bool) (psize : Z) (pid : Z) (arr : Q) (sz : Z)
  : tcprun_st * list tcprun_fx * tcprun_next :=
  (if before_finish
   then (match flow_size with
         | None => ({| tg_next_seq := (tg_next_seq s); tg_send_buffer := (tg_send_buffer s); tg_last_arrival := (tg_last_arrival s) |}, [], (NxAgain PP3))
         | Some flow_size' => (if ((negb (Z.eqb flow_size' 0)) && (Z.leb flow_size' (tg_next_seq s)))
                               then ({| tg_next_seq := (tg_next_seq s); tg_send_buffer := (tg_send_buffer s); tg_last_arrival := (tg_last_arrival s) |}, [], NxExit)
                               else ({| tg_next_seq := (tg_next_seq s); tg_send_buffer := (tg_send_buffer s); tg_last_arrival := (tg_last_arrival s) |}, [], (NxAgain PP3)))
         end)
   else ({| tg_next_seq := (tg_next_seq s); tg_send_buffer := (tg_send_buffer s); tg_last_arrival := (tg_last_arrival s) |}, [], NxExit)).

(* TCPPacketGenerator.run, program point 3: at the head of the loop of line 234: `while self.next_seq >= self.send_buffer:` (reached with NxAgain: one pass, or what follows the loop) *)
Definition gen_TCPGen_run_from_3 (s : tcprun_st) (start_time : option Q) (before_finish : bool) (flow_size : option Z) (has_arrival_dist : bool) (has_size_dist : bool) (mss : Z) (last_ack : Z) (cwnd : Q) (rto : Q) (now : Q) (out_set : bool) (psize : Z) (pid : Z) (arr : Q) (sz : Z)
  : tcprun_st * list tcprun_fx * tcprun_next :=
  (if (Z.leb (tg_send_buffer s) (tg_next_seq s))
   then (if has_arrival_dist
         then let wait_time1 := (arr - (now - (tg_last_arrival s))%Q)%Q in
              (if (negb (Qle_bool wait_time1 (0 # 1)))
               then ({| tg_next_seq := (tg_next_seq s); tg_send_buffer := (tg_send_buffer s); tg_last_arrival := (tg_last_arrival s) |}, [FxArrivalDist], (NxYield (RqTimeout wait_time1) PP4))
               else let '(packet_size2, fx1) :=
                      (if has_size_dist
                       then (sz, [FxArrivalDist; FxSizeDist])
                       else (match flow_size with
                             | None => (mss, [FxArrivalDist])
                             | Some flow_size' => (if (negb (Z.eqb flow_size' 0))
                                                   then let packet_size1 := (Z.min mss (flow_size' - (tg_next_seq s))%Z) in
                                                        (packet_size1, [FxArrivalDist])
                                                   else (mss, [FxArrivalDist]))
                             end)) in
                    let send_buffer1 := ((tg_send_buffer s) + packet_size2)%Z in
                    ({| tg_next_seq := (tg_next_seq s); tg_send_buffer := send_buffer1; tg_last_arrival := now |}, fx1, (NxAgain PP3)))
         else let '(packet_size2, fx1) :=
                (if has_size_dist
                 then (sz, [FxSizeDist])
                 else (match flow_size with
                       | None => (mss, [])
                       | Some flow_size' => (if (negb (Z.eqb flow_size' 0))
                                             then let packet_size1 := (Z.min mss (flow_size' - (tg_next_seq s))%Z) in
                                                  (packet_size1, [])
                                             else (mss, []))
                       end)) in
              let send_buffer1 := ((tg_send_buffer s) + packet_size2)%Z in
              ({| tg_next_seq := (tg_next_seq s); tg_send_buffer := send_buffer1; tg_last_arrival := (tg_last_arrival s) |}, fx1, (NxAgain PP3)))
   else (if (Qle_bool (inject_Z ((tg_next_seq s) + mss)%Z) (Qmin (inject_Z (tg_send_buffer s)) ((inject_Z last_ack) + cwnd)%Q))
         then (if out_set
               then let next_seq1 := ((tg_next_seq s) + psize)%Z in
                    ({| tg_next_seq := next_seq1; tg_send_buffer := (tg_send_buffer s); tg_last_arrival := (tg_last_arrival s) |}, [(FxNewPacket now mss (tg_next_seq s)); FxRecordSent; FxOutPut; (FxNewTimer rto)], (NxAgain PP2))
               else ({| tg_next_seq := (tg_next_seq s); tg_send_buffer := (tg_send_buffer s); tg_last_arrival := (tg_last_arrival s) |}, [(FxNewPacket now mss (tg_next_seq s)); FxRecordSent], (NxRaise ExAssert)))
         else ({| tg_next_seq := (tg_next_seq s); tg_send_buffer := (tg_send_buffer s); tg_last_arrival := (tg_last_arrival s) |}, [], (NxYield RqWindowGet PP5)))).

(* TCPPacketGenerator.run, program point 4: resumed after line 242: `yield env.timeout(wait_time)` *)
Definition gen_TCPGen_run_from_4 (s : tcprun_st) (start_time : option Q) (before_finish : bool) (flow_size : option Z) (has_arrival_dist : bool) (has_size_dist : bool) (mss : Z) (last_ack : Z) (cwnd : Q) (rto : Q) (now : Q) (out_set : bool) (psize : Z) (pid : Z) (arr : Q) (sz : Z)
  : tcprun_st * list tcprun_fx * tcprun_next :=
  let '(packet_size2, fx1) :=
    (if has_size_dist
     then (sz, [FxSizeDist])
     else (match flow_size with
           | None => (mss, [])
           | Some flow_size' => (if (negb (Z.eqb flow_size' 0))
                                 then let packet_size1 := (Z.min mss (flow_size' - (tg_next_seq s))%Z) in
                                      (packet_size1, [])
                                 else (mss, []))
           end)) in
  let send_buffer1 := ((tg_send_buffer s) + packet_size2)%Z in
  ({| tg_next_seq := (tg_next_seq s); tg_send_buffer := send_buffer1; tg_last_arrival := now |}, fx1, (NxAgain PP3)).

(* TCPPacketGenerator.run, program point 5: resumed after line 296: `yield self.cwnd_avaialbe.get()` *)
Definition gen_TCPGen_run_from_5 (s : tcprun_st) (start_time : option Q) (before_finish : bool) (flow_size : option Z) (has_arrival_dist : bool) (has_size_dist : bool) (mss : Z) (last_ack : Z) (cwnd : Q) (rto : Q) (now : Q) (out_set : bool) (psize : Z) (pid : Z) (arr : Q) (sz : Z)
  : tcprun_st * list tcprun_fx * tcprun_next :=
  ({| tg_next_seq := (tg_next_seq s); tg_send_buffer := (tg_send_buffer s); tg_last_arrival := (tg_last_arrival s) |}, [], (NxAgain PP2)).
