(* GENERATED on every run by vlib/translate.py from the current sources of $VERIF_REPO. Do not edit. *)
From Coq Require Import ZArith QArith Qminmax Qabs Bool.
From Coq Require Import List.
Import ListNotations.
(* onl/sim/resources/container.py: Container._do_put, _do_get *)

Record cont_st := { c_level : Q }.
Inductive cont_fx :=
| FxSucceed.

(* Container._do_put  (def _do_put(self, event: ContainerPut) -> bool:) *)
Definition gen_Container_do_put (s : cont_st) (capacity : Q) (amount : Q)
  : cont_st * list cont_fx * bool :=
  (if (Qle_bool amount (capacity - (c_level s))%Q)
   then let level1 := ((c_level s) + amount)%Q in
        ({| c_level := level1 |}, [FxSucceed], true)
   else ({| c_level := (c_level s) |}, [], false)).

(* Container._do_get  (def _do_get(self, event: ContainerGet) -> bool:) *)
Definition gen_Container_do_get (s : cont_st) (capacity : Q) (amount : Q)
  : cont_st * list cont_fx * bool :=
  (if (Qle_bool amount (c_level s))
   then let level1 := ((c_level s) - amount)%Q in
        ({| c_level := level1 |}, [FxSucceed], true)
   else ({| c_level := (c_level s) |}, [], false)).
