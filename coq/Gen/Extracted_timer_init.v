(* GENERATED on every run by vlib/translate.py from the current sources of $VERIF_REPO. Do not edit. *)
From Coq Require Import ZArith QArith Qminmax Qabs Bool.
From Coq Require Import List.
Import ListNotations.
(* onl/utils/timer.py: Timer.__init__ *)

Record timer_init_st := { ti_start_time : Q; ti_timeout : Q; ti_expire_time : Q; ti_stopped : bool }.
Inductive timer_init_fx :=
| IxRaiseValueError
| IxArgsEmpty
| IxArgsWrap
| IxStoreArgs
| IxStoreKwargs
| IxNewProc.

(* Timer.__init__  (def __init__(self, env: Environment, timeout: SimTime, timeout_callback: Callable, auto_restart: bool=False, args=None, kwargs=None):) *)
Definition gen_Timer_init (s : timer_init_st) (now : Q) (tau : Q) (next_instant : Q) (args_is_none : bool) (args_is_list_or_tuple : bool)
  : timer_init_st * list timer_init_fx :=
  (if (Qle_bool tau (0 # 1))
   then ({| ti_start_time := (ti_start_time s); ti_timeout := (ti_timeout s); ti_expire_time := (ti_expire_time s); ti_stopped := (ti_stopped s) |}, [IxRaiseValueError])
   else let expire_time1 := (now + tau)%Q in
        (if ((negb (Qle_bool tau (0 # 1))) && (negb (negb (Qle_bool expire_time1 now))))
         then let fx1 :=
                (if args_is_none
                 then [IxArgsEmpty]
                 else (if (negb args_is_list_or_tuple)
                       then [IxArgsWrap]
                       else [])) in
              ({| ti_start_time := now; ti_timeout := tau; ti_expire_time := next_instant; ti_stopped := false |}, (fx1 ++ [IxStoreArgs; IxStoreKwargs; IxNewProc]))
         else let fx1 :=
                (if args_is_none
                 then [IxArgsEmpty]
                 else (if (negb args_is_list_or_tuple)
                       then [IxArgsWrap]
                       else [])) in
              ({| ti_start_time := now; ti_timeout := tau; ti_expire_time := expire_time1; ti_stopped := false |}, (fx1 ++ [IxStoreArgs; IxStoreKwargs; IxNewProc])))).
