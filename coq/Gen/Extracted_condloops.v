(* GENERATED on every run by vlib/translate.py from the current sources of $VERIF_REPO. Do not edit. *)
From Coq Require Import ZArith QArith Qminmax Qabs Bool.
From Coq Require Import List.
Import ListNotations.
(* onl/sim/events.py: Condition.__init__ (before its subscription loop; ONE iteration of it and what follows), _populate_value, _remove_check_callbacks (ONE iteration each); state record = the position k in self._events *)

Record cloop_st := { o_k : Z }.
Inductive cloop_fx :=
| FxEventInit
| FxSetEvaluate
| FxSetEvents
| FxCountZero
| FxSucceedEmpty
| FxCheckSameEnv
| FxCheckOperand
| FxSubscribe
| FxAssertCallbacks
| FxAppendBuild
| FxPopulateNested
| FxAppendLeaf
| FxRemoveCheck
| FxRemoveNested
| FxLoopAgain.

(* Condition.__init__  (def __init__(self, env: 'Environment', evaluate: Callable[[Tuple[Event, ...], int], bool], events: Iterable[Event]):) *)
Definition gen_Condition_init_before (s : cloop_st) (n_events : Z) (operand_processed : bool) (operand_is_condition : bool) (check_registered : bool)
  : cloop_st * list cloop_fx :=
  (if (negb (negb (Z.eqb n_events 0)))
   then ({| o_k := (o_k s) |}, [FxEventInit; FxSetEvaluate; FxSetEvents; FxCountZero; FxSucceedEmpty])
   else ({| o_k := (o_k s) |}, [FxEventInit; FxSetEvaluate; FxSetEvents; FxCountZero; FxCheckSameEnv])).

(* Condition.__init__  (def __init__(self, env: 'Environment', evaluate: Callable[[Tuple[Event, ...], int], bool], events: Iterable[Event]):) *)
Definition gen_Condition_init_loop (s : cloop_st) (n_events : Z) (operand_processed : bool) (operand_is_condition : bool) (check_registered : bool)
  : cloop_st * list cloop_fx :=
  (if (Z.ltb (o_k s) n_events)
   then let fx1 :=
          (if operand_processed
           then [FxCheckOperand]
           else [FxSubscribe]) in
        let k1 := ((o_k s) + (1)%Z)%Z in
        ({| o_k := k1 |}, (fx1 ++ [FxLoopAgain]))
   else ({| o_k := (o_k s) |}, [FxAssertCallbacks; FxAppendBuild])).

(* Condition._populate_value  (def _populate_value(self, value: ConditionValue) -> None:) *)
Definition gen_Condition_populate_iter (s : cloop_st) (n_events : Z) (operand_processed : bool) (operand_is_condition : bool) (check_registered : bool)
  : cloop_st * list cloop_fx :=
  (if (Z.ltb (o_k s) n_events)
   then let fx1 :=
          (if operand_is_condition
           then [FxPopulateNested]
           else (if operand_processed
                 then [FxAppendLeaf]
                 else [])) in
        let k1 := ((o_k s) + (1)%Z)%Z in
        ({| o_k := k1 |}, (fx1 ++ [FxLoopAgain]))
   else ({| o_k := (o_k s) |}, [])).

(* Condition._remove_check_callbacks  (def _remove_check_callbacks(self) -> None:) *)
Definition gen_Condition_remove_iter (s : cloop_st) (n_events : Z) (operand_processed : bool) (operand_is_condition : bool) (check_registered : bool)
  : cloop_st * list cloop_fx :=
  (if (Z.ltb (o_k s) n_events)
   then let fx1 :=
          (if check_registered
           then [FxRemoveCheck]
           else []) in
        let fx2 :=
          (if operand_is_condition
           then (fx1 ++ [FxRemoveNested])
           else fx1) in
        let k1 := ((o_k s) + (1)%Z)%Z in
        ({| o_k := k1 |}, (fx2 ++ [FxLoopAgain]))
   else ({| o_k := (o_k s) |}, [])).
