(* GENERATED on every run by vlib/translate.py from the current sources of $VERIF_REPO. Do not edit. *)
From Coq Require Import ZArith QArith Qminmax Qabs Bool.
From Coq Require Import List.
Import ListNotations.
(* onl/sim/resources/store.py: Store / PriorityStore ._do_put, _do_get *)

Inductive store_fx :=
| FxAppend
| FxHeapPush
| FxSucceed
| FxSucceedPop0
| FxSucceedHeapPop.

(* Store._do_put  (def _do_put(self, event: StorePut) -> bool:) *)
Definition gen_Store_do_put (n_items : Z) (capacity : Q)
  : list store_fx * bool :=
  (if (Qle_bool (inject_Z (n_items + (1)%Z)%Z) capacity)
   then ([FxAppend; FxSucceed], true)
   else ([], false)).

(* Store._do_get  (def _do_get(self, event: StoreGet) -> bool:) *)
Definition gen_Store_do_get (n_items : Z) (capacity : Q)
  : list store_fx * bool :=
  (if (negb (Z.eqb n_items 0))
   then ([FxSucceedPop0], true)
   else ([], false)).

(* PriorityStore._do_put  (def _do_put(self, event: StorePut) -> bool:) *)
Definition gen_PriorityStore_do_put (n_items : Z) (capacity : Q)
  : list store_fx * bool :=
  (if (Qle_bool (inject_Z (n_items + (1)%Z)%Z) capacity)
   then ([FxHeapPush; FxSucceed], true)
   else ([], false)).

(* PriorityStore._do_get  (def _do_get(self, event: StoreGet) -> bool:) *)
Definition gen_PriorityStore_do_get (n_items : Z) (capacity : Q)
  : list store_fx * bool :=
  (if (negb (Z.eqb n_items 0))
   then ([FxSucceedHeapPop], true)
   else ([], false)).
