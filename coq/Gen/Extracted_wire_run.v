(* GENERATED on every run by vlib/translate.py from the current sources of $VERIF_REPO. Do not edit. *)
From Coq Require Import ZArith QArith Qminmax Qabs Bool.
From Coq Require Import List.
Import ListNotations.
(* onl/netdev/wire.py: Wire.run *)
(* by vlib/translate_gen.py: the generator body cut at its program points (0 = entry, then every yield /
   listed call-out in source order); one definition per reachable point: state fields, effects in program order,
   and what the process does next *)

Inductive wire_run_fx :=
| FxUniform
| FxDelayDist
| FxOutPut.
Inductive wire_run_req :=
| RqStoreGet
| RqTimeout (d : Q).
Inductive wire_run_exn :=
| ExAssert.
(* program points (with the numeric locals that live across them) *)
Inductive wire_run_pp :=
| PP1
| PP2.
Inductive wire_run_next :=
| NxYield (r : wire_run_req) (k : wire_run_pp)
| NxExit
| NxRaise (e : wire_run_exn).

(* Wire.run, program point 0: entry (the kernel processes the Initialize event) *)
Definition gen_Wire_run_from_0 (loss_rate : option Q) (now : Q) (entered : Q) (debug : bool) (out_set : bool) (u : Q) (dd : Q)
  : list wire_run_fx * wire_run_next :=
  ([], (NxYield RqStoreGet PP1)).

(* Wire.run, program point 1: resumed after line 38: `entry = yield self.store.get()`; objects bound: entry *)
Definition gen_Wire_run_from_1 (loss_rate : option Q) (now : Q) (entered : Q) (debug : bool) (out_set : bool) (u : Q) (dd : Q)
  : list wire_run_fx * wire_run_next :=
  (match loss_rate with
   | None => let queued_time1 := (now - entered)%Q in
             (if (negb (Qle_bool dd queued_time1))
              then ([FxDelayDist], (NxYield (RqTimeout (dd - queued_time1)%Q) PP2))
              else (if out_set
                    then ([FxDelayDist; FxOutPut], (NxYield RqStoreGet PP1))
                    else ([FxDelayDist], (NxRaise ExAssert))))
   | Some loss_rate' => (if (negb (negb (Qeq_bool loss_rate' 0)))
                         then let queued_time1 := (now - entered)%Q in
                              (if (negb (Qle_bool dd queued_time1))
                               then ([FxDelayDist], (NxYield (RqTimeout (dd - queued_time1)%Q) PP2))
                               else (if out_set
                                     then ([FxDelayDist; FxOutPut], (NxYield RqStoreGet PP1))
                                     else ([FxDelayDist], (NxRaise ExAssert))))
                         else (if (Qle_bool loss_rate' u)
                               then let queued_time1 := (now - entered)%Q in
                                    (if (negb (Qle_bool dd queued_time1))
                                     then ([FxUniform; FxDelayDist], (NxYield (RqTimeout (dd - queued_time1)%Q) PP2))
                                     else (if out_set
                                           then ([FxUniform; FxDelayDist; FxOutPut], (NxYield RqStoreGet PP1))
                                           else ([FxUniform; FxDelayDist], (NxRaise ExAssert))))
                               else ([FxUniform], (NxYield RqStoreGet PP1))))
   end).

(* Wire.run, program point 2: resumed after line 49: `yield env.timeout(delay - queued_time)`; objects bound: entry *)
Definition gen_Wire_run_from_2 (loss_rate : option Q) (now : Q) (entered : Q) (debug : bool) (out_set : bool) (u : Q) (dd : Q)
  : list wire_run_fx * wire_run_next :=
  (if out_set
   then ([FxOutPut], (NxYield RqStoreGet PP1))
   else ([], (NxRaise ExAssert))).
