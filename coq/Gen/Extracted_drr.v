(* GENERATED on every run by vlib/translate.py from the current sources of $VERIF_REPO. Do not edit. *)
From Coq Require Import ZArith QArith Qminmax Qabs Bool.
From Coq Require Import List.
Import ListNotations.
(* onl/scheduler/drr.py: DRR.put, with onl/scheduler/base.py: Scheduler.add_packet_to_queue in place *)

(* d[k] = v on a dict modelled as a total function *)
Definition gen_upd {V : Type} (f : Z -> V) (k : Z) (v : V) : Z -> V := fun x => if Z.eqb x k then v else f x.
Record drr_st := { d_packets_received : Z; d_class_count : Z -> Z; d_queue_count : Z -> Z; d_queue_byte_size : Z -> Z }.
Inductive drr_fx :=
| FxToken
| FxStorePut (c : Z).

(* DRR.put  (def put(self, packet: Packet):) *)
Definition gen_DRR_put (s : drr_st) (class_id : Z) (flow_id : Z) (size : Z) (total_packets : Z)
  : drr_st * list drr_fx :=
  let class_count1 := (gen_upd (d_class_count s) class_id (((d_class_count s) class_id) + (1)%Z)%Z) in
  let fx1 :=
    (if (Z.eqb total_packets (0)%Z)
     then [FxToken]
     else []) in
  let packets_received1 := ((d_packets_received s) + (1)%Z)%Z in
  let queue_count1 := (gen_upd (d_queue_count s) flow_id (((d_queue_count s) flow_id) + (1)%Z)%Z) in
  let queue_byte_size1 := (gen_upd (d_queue_byte_size s) flow_id (((d_queue_byte_size s) flow_id) + size)%Z) in
  ({| d_packets_received := packets_received1; d_class_count := class_count1; d_queue_count := queue_count1; d_queue_byte_size := queue_byte_size1 |}, (fx1 ++ [(FxStorePut class_id)])).
