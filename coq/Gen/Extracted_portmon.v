(* GENERATED on every run by vlib/translate.py from the current sources of $VERIF_REPO. Do not edit. *)
From Coq Require Import ZArith QArith Qminmax Qabs Bool.
From Coq Require Import List.
Import ListNotations.
(* onl/netdev/port_monitor.py: PortMonitor.run, the statements after each `yield timeout(dist())` *)

Inductive mon_fx :=
| FxSize (n : Z)
| FxSizeByte (b : Z).

(* PortMonitor.run  (def run(self):) *)
Definition gen_PortMonitor_sample (incl : bool) (byte_size : Z) (n_items : Z) (busy : Z) (busy_packet_size : Z)
  : list mon_fx :=
  let '(total_byte2, total2) :=
    (if incl
     then let total1 := (n_items + busy)%Z in
          (byte_size, total1)
     else let total_byte1 := (byte_size - busy_packet_size)%Z in
          (total_byte1, n_items)) in
  [(FxSize total2); (FxSizeByte total_byte2)].
