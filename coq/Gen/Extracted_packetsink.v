(* GENERATED on every run by vlib/translate.py from the current sources of $VERIF_REPO. Do not edit. *)
From Coq Require Import ZArith QArith Qminmax Qabs Bool.
From Coq Require Import List.
Import ListNotations.
(* onl/packet/sink.py: PacketSink.put (the `if self.debug:` block is dropped) *)

(* d[k] = v on a dict modelled as a total function *)
Definition gen_upd {V : Type} (f : Z -> V) (k : Z) (v : V) : Z -> V := fun x => if Z.eqb x k then v else f x.
Record psink_st := { p_first_arrival : Z -> Q; p_last_arrival : Z -> Q; p_packets_received : Z -> Z; p_bytes_received : Z -> Z }.
Inductive psink_fx :=
| FxWait (k : Z) (w : Q)
| FxSize (k : Z) (n : Z)
| FxTime (k : Z) (t : Q)
| FxPerhop (k : Z)
| FxArrival (k : Z) (t : Q)
| FxArrivalSetLast (k : Z) (v : Q).

(* PacketSink.put  (def put(self, packet):) *)
Definition gen_PacketSink_put (s : psink_st) (now : Q) (rec_flow_ids : bool) (rec_waits : bool) (rec_arrivals : bool) (absolute_arrivals : bool) (flow_id : Z) (src : Z) (size : Z) (ptime : Q) (n_arrivals : Z)
  : psink_st * list psink_fx :=
  let rec_index1 :=
    (if rec_flow_ids
     then flow_id
     else src) in
  let fx1 :=
    (if rec_waits
     then [(FxWait rec_index1 (now - ptime)%Q); (FxSize rec_index1 size); (FxTime rec_index1 ptime); (FxPerhop rec_index1)]
     else []) in
  let '(first_arrival3, last_arrival2, fx3) :=
    (if rec_arrivals
     then let first_arrival2 :=
            (if (Z.eqb n_arrivals (1)%Z)
             then (gen_upd (p_first_arrival s) rec_index1 now)
             else (p_first_arrival s)) in
          let fx2 :=
            (if (negb absolute_arrivals)
             then (fx1 ++ [(FxArrival rec_index1 now); (FxArrivalSetLast rec_index1 (now - ((p_last_arrival s) rec_index1))%Q)])
             else (fx1 ++ [(FxArrival rec_index1 now)])) in
          let last_arrival1 := (gen_upd (p_last_arrival s) rec_index1 now) in
          (first_arrival2, last_arrival1, fx2)
     else ((p_first_arrival s), (p_last_arrival s), fx1)) in
  let packets_received1 := (gen_upd (p_packets_received s) rec_index1 (((p_packets_received s) rec_index1) + (1)%Z)%Z) in
  let bytes_received1 := (gen_upd (p_bytes_received s) rec_index1 (((p_bytes_received s) rec_index1) + size)%Z) in
  ({| p_first_arrival := first_arrival3; p_last_arrival := last_arrival2; p_packets_received := packets_received1; p_bytes_received := bytes_received1 |}, fx3).
