(* GENERATED on every run by vlib/translate.py from the current sources of $VERIF_REPO. Do not edit. *)
From Coq Require Import ZArith QArith Qminmax Qabs Bool.
From Coq Require Import List.
Import ListNotations.
(* onl/scheduler/wfq.py: WFQ.put (with reset_vtime / update_vtime in place), update_vtime, reset_vtime *)

(* d[k] = v on a dict modelled as a total function *)
Definition gen_upd {V : Type} (f : Z -> V) (k : Z) (v : V) : Z -> V := fun x => if Z.eqb x k then v else f x.
Record wfq_st := { w_vtime : Q; w_last_time : Q; w_arrivals : Z; w_finish_times : Z -> Q; w_class_count : Z -> Z }.
Inductive wfq_fx :=
| FxAddToQueue
| FxActiveAdd (c : Z)
| FxStorePut (stamp : Q) (t : Q) (n : Z).

(* WFQ.put  (def put(self, packet: Packet):) *)
Definition gen_WFQ_put (s : wfq_st) (class_id : Z) (now : Q) (n_active : Z) (size : Z) (rate : Q) (weight : Z) (reset_finish : (Z -> Q) -> (Z -> Q)) (active_weight : Q)
  : wfq_st * list wfq_fx :=
  let '(vtime2, finish_times2) :=
    (if (Z.eqb n_active (0)%Z)
     then let finish_times1 := (reset_finish (w_finish_times s)) in
          ((0 # 1), finish_times1)
     else let weight_sum1 := ((0 # 1) + active_weight)%Q in
          let vtime1 := ((w_vtime s) + ((now - (w_last_time s))%Q / weight_sum1)%Q)%Q in
          (vtime1, (w_finish_times s))) in
  let finish_times3 := (gen_upd finish_times2 class_id ((Qmax (finish_times2 class_id) vtime2) + (((inject_Z size) * (8 # 1))%Q / (rate * (inject_Z weight))%Q)%Q)%Q) in
  let class_count1 := (gen_upd (w_class_count s) class_id (((w_class_count s) class_id) + (1)%Z)%Z) in
  let arrivals1 := ((w_arrivals s) + (1)%Z)%Z in
  ({| w_vtime := vtime2; w_last_time := now; w_arrivals := arrivals1; w_finish_times := finish_times3; w_class_count := class_count1 |}, [FxAddToQueue; (FxActiveAdd class_id); (FxStorePut (finish_times3 class_id) now arrivals1)]).

(* WFQ.update_vtime  (def update_vtime(self):) *)
Definition gen_WFQ_update_vtime (s : wfq_st) (now : Q) (active_weight : Q)
  : wfq_st * list wfq_fx :=
  let weight_sum1 := ((0 # 1) + active_weight)%Q in
  let vtime1 := ((w_vtime s) + ((now - (w_last_time s))%Q / weight_sum1)%Q)%Q in
  ({| w_vtime := vtime1; w_last_time := (w_last_time s); w_arrivals := (w_arrivals s); w_finish_times := (w_finish_times s); w_class_count := (w_class_count s) |}, []).

(* WFQ.reset_vtime  (def reset_vtime(self):) *)
Definition gen_WFQ_reset_vtime (s : wfq_st) (reset_finish : (Z -> Q) -> (Z -> Q))
  : wfq_st * list wfq_fx :=
  let finish_times1 := (reset_finish (w_finish_times s)) in
  ({| w_vtime := (0 # 1); w_last_time := (w_last_time s); w_arrivals := (w_arrivals s); w_finish_times := finish_times1; w_class_count := (w_class_count s) |}, []).
