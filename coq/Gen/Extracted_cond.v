(* GENERATED on every run by vlib/translate.py from the current sources of $VERIF_REPO. Do not edit. *)
From Coq Require Import ZArith QArith Qminmax Qabs Bool.
From Coq Require Import List.
Import ListNotations.
(* onl/sim/events.py: Condition.all_events, any_events, _check, _build_value *)

Record cond_st := { c_count : Z }.
Inductive cond_fx :=
| FxDefuseOperand
| FxFailWithOperandValue
| FxSucceed
| FxRemoveChecks
| FxNewValue
| FxPopulate.

(* Condition.all_events  (@staticmethod) *)
Definition gen_Condition_all_events (s : cond_st) (n_events : Z) (count : Z)
  : cond_st * list cond_fx * bool :=
  ({| c_count := (c_count s) |}, [], (Z.eqb n_events count)).

(* Condition.any_events  (@staticmethod) *)
Definition gen_Condition_any_events (s : cond_st) (n_events : Z) (count : Z)
  : cond_st * list cond_fx * bool :=
  ({| c_count := (c_count s) |}, [], ((Z.ltb (0)%Z count) || (Z.eqb n_events (0)%Z))).

(* Condition._check  (def _check(self, event: Event) -> None:) *)
Definition gen_Condition_check (s : cond_st) (triggered : bool) (operand_ok : bool) (met : bool)
  : cond_st * list cond_fx :=
  (if triggered
   then ({| c_count := (c_count s) |}, [])
   else let count1 := ((c_count s) + (1)%Z)%Z in
        (if (negb operand_ok)
         then ({| c_count := count1 |}, [FxDefuseOperand; FxFailWithOperandValue])
         else (if met
               then ({| c_count := count1 |}, [FxSucceed])
               else ({| c_count := count1 |}, [])))).

(* Condition._build_value  (def _build_value(self, event: Event) -> None:) *)
Definition gen_Condition_build_value (s : cond_st) (ok : bool)
  : cond_st * list cond_fx :=
  (if ok
   then ({| c_count := (c_count s) |}, [FxRemoveChecks; FxNewValue; FxPopulate])
   else ({| c_count := (c_count s) |}, [FxRemoveChecks])).
