(* GENERATED on every run by vlib/translate.py from the current sources of $VERIF_REPO. Do not edit. *)
From Coq Require Import ZArith QArith Qminmax Qabs Bool.
From Coq Require Import List.
Import ListNotations.
(* onl/scheduler/sp.py: SP.__init__ *)

Inductive spinit_fx :=
| FxBaseInit
| FxSortPriorities (key_index : Z) (reverse : bool)
| FxStartRun.

(* SP.__init__  (def __init__(self, env: Environment, rate: float, priorities: Dict[FlowId, Priority], flow2class: Callable=lambda fid: fid, debug: bool=False):) *)
Definition gen_SP_init
  : list spinit_fx :=
  [FxBaseInit; (FxSortPriorities (1)%Z true); FxStartRun].
