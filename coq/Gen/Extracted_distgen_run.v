(* GENERATED on every run by vlib/translate.py from the current sources of $VERIF_REPO. Do not edit. *)
From Coq Require Import ZArith QArith Qminmax Qabs Bool.
From Coq Require Import List.
Import ListNotations.
(* onl/packet/dist_generator.py: DistPacketGenerator.run *)
(* by vlib/translate_gen.py: the generator body cut at its program points (0 = entry, then every yield /
   listed call-out in source order); one definition per reachable point: state fields, effects in program order,
   and what the process does next *)

Record dg_run_st := { dg_packets_send : Z }.
Inductive dg_run_fx :=
| FxArrivalDist
| FxSizeDist
| FxNewPacket (t : Q) (size : Z) (id : Z)
| FxRecTime
| FxRecSize
| FxOutPut.
Inductive dg_run_req :=
| RqTimeout (d : Q).
Inductive dg_run_exn :=
| ExAssert
| ExOutNone.
(* program points (with the numeric locals that live across them) *)
Inductive dg_run_pp :=
| PP1
| PP2.
Inductive dg_run_next :=
| NxYield (r : dg_run_req) (k : dg_run_pp)
| NxExit
| NxRaise (e : dg_run_exn).

(* DistPacketGenerator.run, program point 0: entry (the kernel processes the Initialize event) *)
Definition gen_DistGen_run_from_0 (s : dg_run_st) (initial_delay : Q) (before_finish : bool) (now : Q) (rec_flow : bool) (debug : bool) (out_set : bool) (a : Q) (sz : Z)
  : dg_run_st * list dg_run_fx * dg_run_next :=
  ({| dg_packets_send := (dg_packets_send s) |}, [], (NxYield (RqTimeout initial_delay) PP1)).

(* DistPacketGenerator.run, program point 1: resumed after line 38: `yield env.timeout(self.initial_delay)` *)
Definition gen_DistGen_run_from_1 (s : dg_run_st) (initial_delay : Q) (before_finish : bool) (now : Q) (rec_flow : bool) (debug : bool) (out_set : bool) (a : Q) (sz : Z)
  : dg_run_st * list dg_run_fx * dg_run_next :=
  (if before_finish
   then ({| dg_packets_send := (dg_packets_send s) |}, [FxArrivalDist], (NxYield (RqTimeout a) PP2))
   else ({| dg_packets_send := (dg_packets_send s) |}, [], NxExit)).

(* DistPacketGenerator.run, program point 2: resumed after line 40: `yield env.timeout(self.arrival_dist())` *)
Definition gen_DistGen_run_from_2 (s : dg_run_st) (initial_delay : Q) (before_finish : bool) (now : Q) (rec_flow : bool) (debug : bool) (out_set : bool) (a : Q) (sz : Z)
  : dg_run_st * list dg_run_fx * dg_run_next :=
  let packets_send1 := ((dg_packets_send s) + (1)%Z)%Z in
  let fx1 :=
    (if rec_flow
     then [FxSizeDist; (FxNewPacket now sz packets_send1); FxRecTime; FxRecSize]
     else [FxSizeDist; (FxNewPacket now sz packets_send1)]) in
  (if (negb out_set)
   then ({| dg_packets_send := packets_send1 |}, fx1, (NxRaise ExOutNone))
   else (if before_finish
         then ({| dg_packets_send := packets_send1 |}, (fx1 ++ [FxOutPut; FxArrivalDist]), (NxYield (RqTimeout a) PP2))
         else ({| dg_packets_send := packets_send1 |}, (fx1 ++ [FxOutPut]), NxExit))).
