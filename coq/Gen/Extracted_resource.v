(* GENERATED on every run by vlib/translate.py from the current sources of $VERIF_REPO. Do not edit. *)
From Coq Require Import ZArith QArith Qminmax Qabs Bool.
From Coq Require Import List.
Import ListNotations.
(* onl/sim/resources/resource.py: Resource._do_put, _do_get; PreemptiveResource._do_put *)

Inductive res_fx :=
| FxUsersAppend
| FxUsageSince (t : Z)
| FxSucceed
| FxUsersRemoveIfPresent
| FxPickWorst
| FxEvict
| FxInterrupt
| FxSuperDoPut.

(* Resource._do_put  (def _do_put(self, event: Request) -> bool:) *)
Definition gen_Resource_do_put (n_users : Z) (capacity : Z) (now : Z)
  : list res_fx * bool :=
  (if (Z.ltb n_users capacity)
   then ([FxUsersAppend; (FxUsageSince now); FxSucceed], true)
   else ([], false)).

(* Resource._do_get  (def _do_get(self, event: Release) -> bool:) *)
Definition gen_Resource_do_get (n_users : Z) (capacity : Z) (now : Z)
  : list res_fx * bool :=
  ([FxUsersRemoveIfPresent; FxSucceed], true).

(* PreemptiveResource._do_put  (def _do_put(self, event: PriorityRequest) -> bool:) *)
Definition gen_PreemptiveResource_do_put (n_users : Z) (capacity : Z) (preempt : bool) (victim_worse : bool) (victim_alive : bool)
  : list res_fx :=
  let fx1 :=
    (if ((Z.leb capacity n_users) && preempt)
     then (if victim_worse
           then (if victim_alive
                 then [FxPickWorst; FxEvict; FxInterrupt]
                 else [FxPickWorst; FxEvict])
           else [FxPickWorst])
     else []) in
  (fx1 ++ [FxSuperDoPut]).
