(* GENERATED on every run by vlib/translate.py from the current sources of $VERIF_REPO. Do not edit. *)
From Coq Require Import ZArith QArith Qminmax Qabs Bool.
From Coq Require Import List.
Import ListNotations.
(* onl/sim/resources/store.py: FilterStore._do_get -- ONE iteration of `for i, item in enumerate(self.items)` (state record = i, which enumerate starts at 0) and the return after the loop *)

Record fget_st := { f_i : Z }.
Inductive fget_fx :=
| FxDelAt (i : Z)
| FxSucceedItem
| FxReturnTrue
| FxLoopAgain.

(* FilterStore._do_get  (def _do_get(self, event: FilterStoreGet) -> bool:) *)
Definition gen_FilterStore_do_get_iter (s : fget_st) (n_items : Z) (matches : bool)
  : fget_st * list fget_fx :=
  (if (Z.ltb (f_i s) n_items)
   then (if matches
         then ({| f_i := (f_i s) |}, [(FxDelAt (f_i s)); FxSucceedItem; FxReturnTrue])
         else let i1 := ((f_i s) + (1)%Z)%Z in
              ({| f_i := i1 |}, [FxLoopAgain]))
   else ({| f_i := (f_i s) |}, [FxReturnTrue])).
