(* GENERATED on every run by vlib/translate.py from the current sources of $VERIF_REPO. Do not edit. *)
From Coq Require Import ZArith QArith Qminmax Qabs Bool.
From Coq Require Import List.
Import ListNotations.
(* onl/sim/events.py: Process._resume, ONE iteration of its `while True` *)

Inductive resume_fx :=
| FxSetActive
| FxSend
| FxDefuseEvent
| FxCopyFailure
| FxSetCause
| FxThrow
| FxEventNone
| FxSetOk (b : bool)
| FxSetValueReturn
| FxStripTraceback
| FxSetValueExc
| FxScheduleSelf
| FxAppendResume
| FxRaiseInvalidYield
| FxLoopAgain
| FxSetTarget
| FxClearActive.

(* Process._resume  (def _resume(self, event: Event) -> None:) *)
Definition gen_Process_resume (event_ok : bool) (returned : bool) (raised : bool) (target_pending : bool) (target_invalid : bool)
  : list resume_fx :=
  (if event_ok
   then (if returned
         then [FxSetActive; FxSend; FxEventNone; (FxSetOk true); FxSetValueReturn; FxScheduleSelf; FxSetTarget; FxClearActive]
         else (if raised
         then [FxSetActive; FxSend; FxEventNone; (FxSetOk false); FxStripTraceback; FxSetValueExc; FxScheduleSelf; FxSetTarget; FxClearActive]
         else (if target_pending
               then [FxSetActive; FxSend; FxAppendResume; FxSetTarget; FxClearActive]
               else (if target_invalid
               then [FxSetActive; FxSend; FxRaiseInvalidYield]
               else [FxSetActive; FxSend; FxLoopAgain]))))
   else (if returned
         then [FxSetActive; FxDefuseEvent; FxCopyFailure; FxSetCause; FxThrow; FxEventNone; (FxSetOk true); FxSetValueReturn; FxScheduleSelf; FxSetTarget; FxClearActive]
         else (if raised
         then [FxSetActive; FxDefuseEvent; FxCopyFailure; FxSetCause; FxThrow; FxEventNone; (FxSetOk false); FxStripTraceback; FxSetValueExc; FxScheduleSelf; FxSetTarget; FxClearActive]
         else (if target_pending
               then [FxSetActive; FxDefuseEvent; FxCopyFailure; FxSetCause; FxThrow; FxAppendResume; FxSetTarget; FxClearActive]
               else (if target_invalid
               then [FxSetActive; FxDefuseEvent; FxCopyFailure; FxSetCause; FxThrow; FxRaiseInvalidYield]
               else [FxSetActive; FxDefuseEvent; FxCopyFailure; FxSetCause; FxThrow; FxLoopAgain]))))).
