(* GENERATED on every run by vlib/translate.py from the current sources of $VERIF_REPO. Do not edit. *)
From Coq Require Import ZArith QArith Qminmax Qabs Bool.
From Coq Require Import List.
Import ListNotations.
(* onl/sim/rt.py: RealtimeEnvironment.step, sync *)

Inductive rt_fx :=
| FxRaiseEmptySchedule
| FxMonotonic
| FxRaiseTooSlow (delta : Q)
| FxSleepLoop (real_time : Q)
| FxKernelStep
| FxSetRealStart (t : Q).

(* RealtimeEnvironment.step  (def step(self) -> None:) *)
Definition gen_Rt_step (empty : bool) (evt_time : Q) (real_start : Q) (env_start : Q) (factor : Q) (strict : bool) (r1 : Q) (r2 : Q)
  : list rt_fx :=
  (if empty
   then [FxRaiseEmptySchedule]
   else let real_time1 := (real_start + ((evt_time - env_start)%Q * factor)%Q)%Q in
        (if strict
         then (if (negb (Qle_bool (r1 - real_time1)%Q factor))
               then let delta1 := (r2 - real_time1)%Q in
                    [FxMonotonic; FxMonotonic; (FxRaiseTooSlow delta1)]
               else [FxMonotonic; (FxSleepLoop real_time1); FxKernelStep])
         else [(FxSleepLoop real_time1); FxKernelStep])).

(* RealtimeEnvironment.sync  (def sync(self) -> None:) *)
Definition gen_Rt_sync (r1 : Q) (r2 : Q)
  : list rt_fx :=
  [FxMonotonic; (FxSetRealStart r1)].
