(* GENERATED on every run by vlib/translate.py from the current sources of $VERIF_REPO. Do not edit. *)
From Coq Require Import ZArith QArith Qminmax Qabs Bool.
From Coq Require Import List.
Import ListNotations.
(* onl/netdev/token_bucket.py: TokenBucket.put; two_level_token_bucket.py: TwoRateTokenBucket.put *)

Record bput_st := { b_packets_received : Z }.
Inductive bput_fx :=
| FxStorePut.

(* TokenBucket.put  (def put(self, packet: Packet):) *)
Definition gen_TokenBucket_put (s : bput_st)
  : bput_st * list bput_fx :=
  let packets_received1 := ((b_packets_received s) + (1)%Z)%Z in
  ({| b_packets_received := packets_received1 |}, [FxStorePut]).

(* TwoRateTokenBucket.put  (def put(self, packet: Packet):) *)
Definition gen_TwoRateTokenBucket_put (s : bput_st)
  : bput_st * list bput_fx :=
  let packets_received1 := ((b_packets_received s) + (1)%Z)%Z in
  ({| b_packets_received := packets_received1 |}, [FxStorePut]).
