(* GENERATED on every run by vlib/translate.py from the current sources of $VERIF_REPO. Do not edit. *)
From Coq Require Import ZArith QArith Qminmax Qabs Bool.
From Coq Require Import List.
Import ListNotations.
(* onl/packet/tcp_sink.py: TCPSink.put *)

Record sink_st := { k_next_seq_expected : Z }.
Inductive sink_fx :=
| FxSuperPut
| FxArrived
| FxMakeAck
| FxSetAck (a : Z)
| FxAssertOut
| FxSendAck.

(* TCPSink.put  (def put(self, packet: Packet):) *)
Definition gen_TCPSink_put (s : sink_st) (first_start : Z) (first_end : Z)
  : sink_st * list sink_fx :=
  let next_seq_expected1 :=
    (if (Z.eqb first_start (0)%Z)
     then first_end
     else (0)%Z) in
  ({| k_next_seq_expected := next_seq_expected1 |}, [FxSuperPut; FxArrived; FxMakeAck; (FxSetAck next_seq_expected1); FxAssertOut; FxSendAck]).
