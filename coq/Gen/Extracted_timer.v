(* GENERATED on every run by vlib/translate.py from the current sources of $VERIF_REPO. Do not edit. *)
From Coq Require Import ZArith QArith Qminmax Qabs Bool.
From Coq Require Import List.
Import ListNotations.
(* onl/utils/timer.py: Timer.stop, Timer.restart *)

Record timer_st := { t_start_time : Q; t_timeout : Q; t_expire_time : Q; t_stopped : bool }.
Inductive timer_fx :=
| FxInterrupt
| FxNewProc.

(* Timer.stop  (def stop(self):) *)
Definition gen_Timer_stop (s : timer_st) (now : Q) (tau : Q) (next_instant : Q) (own_callback : bool) (proc_alive : bool)
  : timer_st * list timer_fx :=
  ({| t_start_time := (t_start_time s); t_timeout := (t_timeout s); t_expire_time := now; t_stopped := true |}, []).

(* Timer.restart  (def restart(self, timeout: SimTime):) *)
Definition gen_Timer_restart (s : timer_st) (now : Q) (tau : Q) (next_instant : Q) (own_callback : bool) (proc_alive : bool)
  : timer_st * list timer_fx :=
  let expire_time1 := (now + tau)%Q in
  (if ((negb (Qle_bool tau (0 # 1))) && (negb (negb (Qle_bool expire_time1 now))))
   then (if own_callback
         then ({| t_start_time := now; t_timeout := tau; t_expire_time := next_instant; t_stopped := (t_stopped s) |}, [])
         else (if proc_alive
               then ({| t_start_time := now; t_timeout := tau; t_expire_time := next_instant; t_stopped := (t_stopped s) |}, [FxInterrupt; FxNewProc])
               else ({| t_start_time := now; t_timeout := tau; t_expire_time := next_instant; t_stopped := (t_stopped s) |}, [])))
   else (if own_callback
         then ({| t_start_time := now; t_timeout := tau; t_expire_time := expire_time1; t_stopped := (t_stopped s) |}, [])
         else (if proc_alive
               then ({| t_start_time := now; t_timeout := tau; t_expire_time := expire_time1; t_stopped := (t_stopped s) |}, [FxInterrupt; FxNewProc])
               else ({| t_start_time := now; t_timeout := tau; t_expire_time := expire_time1; t_stopped := (t_stopped s) |}, [])))).
