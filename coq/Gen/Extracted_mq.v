(* GENERATED on every run by vlib/translate.py from the current sources of $VERIF_REPO. Do not edit. *)
From Coq Require Import ZArith QArith Qminmax Qabs Bool.
From Coq Require Import List.
Import ListNotations.
(* onl/scheduler/base.py: Scheduler.add_packet_to_queue, MultiQueueScheduler.put; onl/scheduler/sp.py: SP.put (add_packet_to_queue in place) *)

(* d[k] = v on a dict modelled as a total function *)
Definition gen_upd {V : Type} (f : Z -> V) (k : Z) (v : V) : Z -> V := fun x => if Z.eqb x k then v else f x.
Record mq_st := { m_packets_received : Z; m_queue_count : Z -> Z; m_queue_byte_size : Z -> Z }.
Inductive mq_fx :=
| FxToken
| FxStorePut (k : Z).

(* Scheduler.add_packet_to_queue  (def add_packet_to_queue(self, packet: Packet):) *)
Definition gen_Scheduler_add_packet_to_queue (s : mq_st) (flow_id : Z) (size : Z)
  : mq_st * list mq_fx :=
  let packets_received1 := ((m_packets_received s) + (1)%Z)%Z in
  let queue_count1 := (gen_upd (m_queue_count s) flow_id (((m_queue_count s) flow_id) + (1)%Z)%Z) in
  let queue_byte_size1 := (gen_upd (m_queue_byte_size s) flow_id (((m_queue_byte_size s) flow_id) + size)%Z) in
  ({| m_packets_received := packets_received1; m_queue_count := queue_count1; m_queue_byte_size := queue_byte_size1 |}, []).

(* MultiQueueScheduler.put  (def put(self, packet: Packet):) *)
Definition gen_MultiQueueScheduler_put (s : mq_st) (flow_id : Z) (size : Z) (class_id : Z) (total_packets : Z)
  : mq_st * list mq_fx :=
  let fx1 :=
    (if (Z.eqb total_packets (0)%Z)
     then [FxToken]
     else []) in
  let packets_received1 := ((m_packets_received s) + (1)%Z)%Z in
  let queue_count1 := (gen_upd (m_queue_count s) flow_id (((m_queue_count s) flow_id) + (1)%Z)%Z) in
  let queue_byte_size1 := (gen_upd (m_queue_byte_size s) flow_id (((m_queue_byte_size s) flow_id) + size)%Z) in
  ({| m_packets_received := packets_received1; m_queue_count := queue_count1; m_queue_byte_size := queue_byte_size1 |}, (fx1 ++ [(FxStorePut flow_id)])).

(* SP.put  (def put(self, packet: Packet):) *)
Definition gen_SP_put (s : mq_st) (flow_id : Z) (size : Z) (class_id : Z) (total_packets : Z)
  : mq_st * list mq_fx :=
  let fx1 :=
    (if (Z.eqb total_packets (0)%Z)
     then [FxToken]
     else []) in
  let packets_received1 := ((m_packets_received s) + (1)%Z)%Z in
  let queue_count1 := (gen_upd (m_queue_count s) flow_id (((m_queue_count s) flow_id) + (1)%Z)%Z) in
  let queue_byte_size1 := (gen_upd (m_queue_byte_size s) flow_id (((m_queue_byte_size s) flow_id) + size)%Z) in
  ({| m_packets_received := packets_received1; m_queue_count := queue_count1; m_queue_byte_size := queue_byte_size1 |}, (fx1 ++ [(FxStorePut class_id)])).
