(* GENERATED on every run by vlib/translate.py from the current sources of $VERIF_REPO. Do not edit. *)
From Coq Require Import ZArith QArith Qminmax Qabs Bool.
From Coq Require Import List.
Import ListNotations.
(* onl/netdev/token_bucket.py: TokenBucket.run *)
(* by vlib/translate_gen.py: the generator body cut at its program points (0 = entry, then every yield /
   listed call-out in source order); one definition per reachable point: state fields, effects in program order,
   and what the process does next *)

Record tb_run_st := { tb_current_bucket : Q; tb_update_time : Q; tb_packets_sent : Z }.
Inductive tb_run_fx :=
| FxOutPut (packets_sent : Z).
Inductive tb_run_req :=
| RqStoreGet
| RqTimeout (d : Q).
Inductive tb_run_exn :=
| ExAssert
| ExOutNone.
(* program points (with the numeric locals that live across them) *)
Inductive tb_run_pp :=
| PP1
| PP2
| PP3.
Inductive tb_run_next :=
| NxYield (r : tb_run_req) (k : tb_run_pp)
| NxExit
| NxRaise (e : tb_run_exn).

(* TokenBucket.run, program point 0: entry (the kernel processes the Initialize event) *)
Definition gen_TokenBucket_run_from_0 (s : tb_run_st) (bucket_size : Q) (rate : Q) (peak : option Q) (now : Q) (size : Z) (out_set : bool) (debug : bool)
  : tb_run_st * list tb_run_fx * tb_run_next :=
  ({| tb_current_bucket := (tb_current_bucket s); tb_update_time := (tb_update_time s); tb_packets_sent := (tb_packets_sent s) |}, [], (NxYield RqStoreGet PP1)).

(* TokenBucket.run, program point 1: resumed after line 37: `packet: Packet = yield self.store.get()`; objects bound: packet *)
Definition gen_TokenBucket_run_from_1 (s : tb_run_st) (bucket_size : Q) (rate : Q) (peak : option Q) (now : Q) (size : Z) (out_set : bool) (debug : bool)
  : tb_run_st * list tb_run_fx * tb_run_next :=
  let current_bucket1 := (Qmin bucket_size ((tb_current_bucket s) + ((rate * (now - (tb_update_time s))%Q)%Q / (8 # 1))%Q)%Q) in
  (if (negb (Qle_bool (inject_Z size) current_bucket1))
   then ({| tb_current_bucket := current_bucket1; tb_update_time := now; tb_packets_sent := (tb_packets_sent s) |}, [], (NxYield (RqTimeout ((((inject_Z size) - current_bucket1)%Q * (8 # 1))%Q / rate)%Q) PP2))
   else let current_bucket2 := (current_bucket1 - (inject_Z size))%Q in
        (if (negb out_set)
         then ({| tb_current_bucket := current_bucket2; tb_update_time := now; tb_packets_sent := (tb_packets_sent s) |}, [], (NxRaise ExOutNone))
         else (match peak with
               | None => let packets_sent1 := ((tb_packets_sent s) + (1)%Z)%Z in
                         ({| tb_current_bucket := current_bucket2; tb_update_time := now; tb_packets_sent := packets_sent1 |}, [(FxOutPut (tb_packets_sent s))], (NxYield RqStoreGet PP1))
               | Some peak' => (if (negb (Qeq_bool peak' 0))
                                then ({| tb_current_bucket := current_bucket2; tb_update_time := now; tb_packets_sent := (tb_packets_sent s) |}, [], (NxYield (RqTimeout (((inject_Z size) * (8 # 1))%Q / peak')%Q) PP3))
                                else let packets_sent1 := ((tb_packets_sent s) + (1)%Z)%Z in
                                     ({| tb_current_bucket := current_bucket2; tb_update_time := now; tb_packets_sent := packets_sent1 |}, [(FxOutPut (tb_packets_sent s))], (NxYield RqStoreGet PP1)))
               end))).

(* TokenBucket.run, program point 2: resumed after line 50: `yield env.timeout((packet.size - self.current_bucket) * 8.0 / self.rate)`; objects bound: packet *)
Definition gen_TokenBucket_run_from_2 (s : tb_run_st) (bucket_size : Q) (rate : Q) (peak : option Q) (now : Q) (size : Z) (out_set : bool) (debug : bool)
  : tb_run_st * list tb_run_fx * tb_run_next :=
  (if (negb out_set)
   then ({| tb_current_bucket := (0 # 1); tb_update_time := now; tb_packets_sent := (tb_packets_sent s) |}, [], (NxRaise ExOutNone))
   else (match peak with
         | None => let packets_sent1 := ((tb_packets_sent s) + (1)%Z)%Z in
                   ({| tb_current_bucket := (0 # 1); tb_update_time := now; tb_packets_sent := packets_sent1 |}, [(FxOutPut (tb_packets_sent s))], (NxYield RqStoreGet PP1))
         | Some peak' => (if (negb (Qeq_bool peak' 0))
                          then ({| tb_current_bucket := (0 # 1); tb_update_time := now; tb_packets_sent := (tb_packets_sent s) |}, [], (NxYield (RqTimeout (((inject_Z size) * (8 # 1))%Q / peak')%Q) PP3))
                          else let packets_sent1 := ((tb_packets_sent s) + (1)%Z)%Z in
                               ({| tb_current_bucket := (0 # 1); tb_update_time := now; tb_packets_sent := packets_sent1 |}, [(FxOutPut (tb_packets_sent s))], (NxYield RqStoreGet PP1)))
         end)).

(* TokenBucket.run, program point 3: resumed after line 60: `yield env.timeout(packet.size * 8.0 / self.peak)`; objects bound: packet *)
Definition gen_TokenBucket_run_from_3 (s : tb_run_st) (bucket_size : Q) (rate : Q) (peak : option Q) (now : Q) (size : Z) (out_set : bool) (debug : bool)
  : tb_run_st * list tb_run_fx * tb_run_next :=
  let packets_sent1 := ((tb_packets_sent s) + (1)%Z)%Z in
  ({| tb_current_bucket := (tb_current_bucket s); tb_update_time := (tb_update_time s); tb_packets_sent := packets_sent1 |}, [(FxOutPut (tb_packets_sent s))], (NxYield RqStoreGet PP1)).
