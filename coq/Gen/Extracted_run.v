(* GENERATED on every run by vlib/translate.py from the current sources of $VERIF_REPO. Do not edit. *)
From Coq Require Import ZArith QArith Qminmax Qabs Bool.
From Coq Require Import List.
Import ListNotations.
(* onl/sim/core.py: Environment.run -- the part before the loop and ONE iteration of `while True: self.step()` with the StopSimulation / EmptySchedule handlers *)

Inductive run_fx :=
| FxRaiseUntilPast
| FxNewSentinel
| FxSentinelOk
| FxSentinelValueNone
| FxScheduleUrgent (delay : Q)
| FxReturnUntilValue
| FxAppendStop
| FxStep
| FxReturnStopValue
| FxAssertUntriggered
| FxRaiseNotTriggered
| FxReturnNone
| FxLoopAgain.

(* Environment.run  (def run(self, until: Optional[Union[SimTime, Event]]=None) -> Optional[Any]:) *)
Definition gen_Environment_run (until_given : bool) (until_is_event : bool) (until_is_int : bool) (until_int : Q) (until_float : Q) (now : Q) (until_processed : bool) (stopped : bool) (empty : bool)
  : list run_fx :=
  (if until_given
   then (if (negb until_is_event)
         then let at1 :=
                (if until_is_int
                 then until_int
                 else until_float) in
              (if (Qle_bool at1 now)
               then [FxRaiseUntilPast]
               else (if stopped
                     then [FxNewSentinel; FxSentinelOk; FxSentinelValueNone; (FxScheduleUrgent (at1 - now)%Q); FxAppendStop; FxStep; FxReturnStopValue]
                     else (if empty
                     then (if until_given
                           then [FxNewSentinel; FxSentinelOk; FxSentinelValueNone; (FxScheduleUrgent (at1 - now)%Q); FxAppendStop; FxStep; FxAssertUntriggered; FxRaiseNotTriggered]
                           else [FxNewSentinel; FxSentinelOk; FxSentinelValueNone; (FxScheduleUrgent (at1 - now)%Q); FxAppendStop; FxStep; FxReturnNone])
                     else [FxNewSentinel; FxSentinelOk; FxSentinelValueNone; (FxScheduleUrgent (at1 - now)%Q); FxAppendStop; FxStep; FxLoopAgain])))
         else (if until_processed
               then [FxReturnUntilValue]
               else (if stopped
                     then [FxAppendStop; FxStep; FxReturnStopValue]
                     else (if empty
                     then (if until_given
                           then [FxAppendStop; FxStep; FxAssertUntriggered; FxRaiseNotTriggered]
                           else [FxAppendStop; FxStep; FxReturnNone])
                     else [FxAppendStop; FxStep; FxLoopAgain]))))
   else (if stopped
         then [FxStep; FxReturnStopValue]
         else (if empty
         then (if until_given
               then [FxStep; FxAssertUntriggered; FxRaiseNotTriggered]
               else [FxStep; FxReturnNone])
         else [FxStep; FxLoopAgain]))).
