(* GENERATED on every run by vlib/translate.py from the current sources of $VERIF_REPO. Do not edit. *)
From Coq Require Import ZArith QArith Qminmax Qabs Bool.
From Coq Require Import List.
Import ListNotations.
(* onl/scheduler/sp.py: SP.run *)
(* by vlib/translate_gen.py: the generator body cut at its program points (0 = entry, then every yield /
   listed call-out in source order); one definition per reachable point: state fields, effects in program order,
   and what the process does next *)

Inductive sp_run_fx :=
| FxStampPrio (prio : Z).
Inductive sp_run_req :=
| RqStoreGet (k : Z)
| RqChild
| RqTokGet.
Inductive sp_run_exn :=
| ExAssert.
(* program points (with the numeric locals that live across them) *)
Inductive sp_run_pp :=
| PP1 (prio : Z)
| PP2
| PP3.
Inductive sp_run_next :=
| NxYield (r : sp_run_req) (k : sp_run_pp)
| NxExit
| NxRaise (e : sp_run_exn)
| NxSpin.

(* SP.run, program point 0: entry (the kernel processes the Initialize event) *)
Definition gen_SP_run_from_0 (total_packets : Z) (priorities : list (Z * Z)) (store_size : Z -> Z)
  : list sp_run_fx * sp_run_next :=
  ((fix scan1_1 (l1_1 : list (Z * Z)) : list sp_run_fx * sp_run_next :=
      match l1_1 with
      | [] => (if (Z.eqb total_packets (0)%Z)
               then ([], (NxYield RqTokGet PP3))
               else ([], NxSpin))
      | x1_1 :: l1_1' => let '(flow_id1, prio1) := x1_1 in 
                  (if (Z.ltb (0)%Z prio1)
                   then (if (Z.eqb (store_size flow_id1) (0)%Z)
                         then (scan1_1 l1_1')
                         else ([], (NxYield (RqStoreGet flow_id1) (PP1 prio1))))
                   else (scan1_1 l1_1'))
      end) priorities).

(* SP.run, program point 1: resumed after line 42: `packet: Packet = yield store.get()`; objects bound: packet *)
Definition gen_SP_run_from_1 (fr_prio : Z) (total_packets : Z) (priorities : list (Z * Z)) (store_size : Z -> Z)
  : list sp_run_fx * sp_run_next :=
  ([(FxStampPrio fr_prio)], (NxYield RqChild PP2)).

(* SP.run, program point 2: resumed after line 44: `yield env.process(self.send_packet(packet))` *)
Definition gen_SP_run_from_2 (total_packets : Z) (priorities : list (Z * Z)) (store_size : Z -> Z)
  : list sp_run_fx * sp_run_next :=
  (if (Z.eqb total_packets (0)%Z)
   then ([], (NxYield RqTokGet PP3))
   else ((fix scan1_1 (l1_1 : list (Z * Z)) : list sp_run_fx * sp_run_next :=
            match l1_1 with
            | [] => (if (Z.eqb total_packets (0)%Z)
                     then ([], (NxYield RqTokGet PP3))
                     else ([], NxSpin))
            | x1_1 :: l1_1' => let '(flow_id1, prio1) := x1_1 in 
                        (if (Z.ltb (0)%Z prio1)
                         then (if (Z.eqb (store_size flow_id1) (0)%Z)
                               then (scan1_1 l1_1')
                               else ([], (NxYield (RqStoreGet flow_id1) (PP1 prio1))))
                         else (scan1_1 l1_1'))
            end) priorities)).

(* SP.run, program point 3: resumed after line 50: `yield self.packets_available.get()` *)
Definition gen_SP_run_from_3 (total_packets : Z) (priorities : list (Z * Z)) (store_size : Z -> Z)
  : list sp_run_fx * sp_run_next :=
  ((fix scan1_1 (l1_1 : list (Z * Z)) : list sp_run_fx * sp_run_next :=
      match l1_1 with
      | [] => (if (Z.eqb total_packets (0)%Z)
               then ([], (NxYield RqTokGet PP3))
               else ([], NxSpin))
      | x1_1 :: l1_1' => let '(flow_id1, prio1) := x1_1 in 
                  (if (Z.ltb (0)%Z prio1)
                   then (if (Z.eqb (store_size flow_id1) (0)%Z)
                         then (scan1_1 l1_1')
                         else ([], (NxYield (RqStoreGet flow_id1) (PP1 prio1))))
                   else (scan1_1 l1_1'))
      end) priorities).
