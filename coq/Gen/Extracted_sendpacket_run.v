(* GENERATED on every run by vlib/translate.py from the current sources of $VERIF_REPO. Do not edit. *)
From Coq Require Import ZArith QArith Qminmax Qabs Bool.
From Coq Require Import List.
Import ListNotations.
(* onl/scheduler/base.py: Scheduler.send_packet *)
(* by vlib/translate_gen.py: the generator body cut at its program points (0 = entry, then every yield /
   listed call-out in source order); one definition per reachable point: state fields, effects in program order,
   and what the process does next *)

(* d[k] = v on a dict modelled as a total function *)
Definition gen_upd {V : Type} (f : Z -> V) (k : Z) (v : V) : Z -> V := fun x => if Z.eqb x k then v else f x.
Record sendp_st := { sd_queue_count : Z -> Z; sd_queue_byte_size : Z -> Z }.
Inductive sendp_fx :=
| FxSetCurrent
| FxClearCurrent
| FxOutPut (count_of_flow : Z) (bytes_of_flow : Z).
Inductive sendp_req :=
| RqTimeout (d : Q).
Inductive sendp_exn :=
| ExAssert.
(* program points (with the numeric locals that live across them) *)
Inductive sendp_pp :=
| PP1.
Inductive sendp_next :=
| NxYield (r : sendp_req) (k : sendp_pp)
| NxExit
| NxRaise (e : sendp_exn).

(* Scheduler.send_packet, program point 0: entry (the kernel processes the Initialize event) *)
Definition gen_Scheduler_send_packet_from_0 (s : sendp_st) (size : Z) (flow : Z) (rate : Q) (out_set : bool)
  : sendp_st * list sendp_fx * sendp_next :=
  ({| sd_queue_count := (sd_queue_count s); sd_queue_byte_size := (sd_queue_byte_size s) |}, [FxSetCurrent], (NxYield (RqTimeout (((inject_Z size) * (8 # 1))%Q / rate)%Q) PP1)).

(* Scheduler.send_packet, program point 1: resumed after line 69: `yield self.env.timeout(packet.size * 8.0 / self.rate)`; objects bound: packet *)
Definition gen_Scheduler_send_packet_from_1 (s : sendp_st) (size : Z) (flow : Z) (rate : Q) (out_set : bool)
  : sendp_st * list sendp_fx * sendp_next :=
  let queue_count1 := (gen_upd (sd_queue_count s) flow (((sd_queue_count s) flow) - (1)%Z)%Z) in
  let queue_byte_size1 := (gen_upd (sd_queue_byte_size s) flow (((sd_queue_byte_size s) flow) - size)%Z) in
  let fx1 :=
    (if out_set
     then [(FxOutPut (queue_count1 flow) (queue_byte_size1 flow))]
     else []) in
  ({| sd_queue_count := queue_count1; sd_queue_byte_size := queue_byte_size1 |}, (fx1 ++ [FxClearCurrent]), NxExit).
