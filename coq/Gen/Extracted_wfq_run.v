(* GENERATED on every run by vlib/translate.py from the current sources of $VERIF_REPO. Do not edit. *)
From Coq Require Import ZArith QArith Qminmax Qabs Bool.
From Coq Require Import List.
Import ListNotations.
(* onl/scheduler/wfq.py: WFQ.run (update_vtime / reset_vtime in place) *)
(* by vlib/translate_gen.py: the generator body cut at its program points (0 = entry, then every yield /
   listed call-out in source order); one definition per reachable point: state fields, effects in program order,
   and what the process does next *)

(* d[k] = v on a dict modelled as a total function *)
Definition gen_upd {V : Type} (f : Z -> V) (k : Z) (v : V) : Z -> V := fun x => if Z.eqb x k then v else f x.
Record wfq_run_st := { wr_vtime : Q; wr_last_time : Q; wr_arrivals : Z; wr_finish_times : Z -> Q; wr_class_count : Z -> Z }.
Inductive wfq_run_fx :=
| FxUnwrap
| FxActiveRemove (c : Z).
Inductive wfq_run_req :=
| RqStoreGet
| RqChild.
Inductive wfq_run_exn :=
| ExAssert.
(* program points (with the numeric locals that live across them) *)
Inductive wfq_run_pp :=
| PP1
| PP2.
Inductive wfq_run_next :=
| NxYield (r : wfq_run_req) (k : wfq_run_pp)
| NxExit
| NxRaise (e : wfq_run_exn).

(* WFQ.run, program point 0: entry (the kernel processes the Initialize event) *)
Definition gen_WFQ_run_from_0 (s : wfq_run_st) (class_id : Z) (now : Q) (n_active : Z) (reset_finish : (Z -> Q) -> (Z -> Q)) (active_weight : Q)
  : wfq_run_st * list wfq_run_fx * wfq_run_next :=
  ({| wr_vtime := (wr_vtime s); wr_last_time := (wr_last_time s); wr_arrivals := (wr_arrivals s); wr_finish_times := (wr_finish_times s); wr_class_count := (wr_class_count s) |}, [], (NxYield RqStoreGet PP1)).

(* WFQ.run, program point 1: resumed after line 64: `item: PriorityItem = yield self.store.get()`; objects bound: item *)
Definition gen_WFQ_run_from_1 (s : wfq_run_st) (class_id : Z) (now : Q) (n_active : Z) (reset_finish : (Z -> Q) -> (Z -> Q)) (active_weight : Q)
  : wfq_run_st * list wfq_run_fx * wfq_run_next :=
  ({| wr_vtime := (wr_vtime s); wr_last_time := (wr_last_time s); wr_arrivals := (wr_arrivals s); wr_finish_times := (wr_finish_times s); wr_class_count := (wr_class_count s) |}, [FxUnwrap], (NxYield RqChild PP2)).

(* WFQ.run, program point 2: resumed after line 66: `yield env.process(self.send_packet(packet))`; objects bound: packet *)
Definition gen_WFQ_run_from_2 (s : wfq_run_st) (class_id : Z) (now : Q) (n_active : Z) (reset_finish : (Z -> Q) -> (Z -> Q)) (active_weight : Q)
  : wfq_run_st * list wfq_run_fx * wfq_run_next :=
  let weight_sum1 := ((0 # 1) + active_weight)%Q in
  let vtime1 := ((wr_vtime s) + ((now - (wr_last_time s))%Q / weight_sum1)%Q)%Q in
  let class_count1 := (gen_upd (wr_class_count s) class_id (((wr_class_count s) class_id) - (1)%Z)%Z) in
  (if (Z.eqb (class_count1 class_id) (0)%Z)
   then let '(vtime2, finish_times2) :=
          (if (Z.eqb (n_active + (-1))%Z (0)%Z)
           then let finish_times1 := (reset_finish (wr_finish_times s)) in
                ((0 # 1), finish_times1)
           else (vtime1, (wr_finish_times s))) in
        ({| wr_vtime := vtime2; wr_last_time := now; wr_arrivals := (wr_arrivals s); wr_finish_times := finish_times2; wr_class_count := class_count1 |}, [(FxActiveRemove class_id)], (NxYield RqStoreGet PP1))
   else let '(vtime2, finish_times2) :=
          (if (Z.eqb n_active (0)%Z)
           then let finish_times1 := (reset_finish (wr_finish_times s)) in
                ((0 # 1), finish_times1)
           else (vtime1, (wr_finish_times s))) in
        ({| wr_vtime := vtime2; wr_last_time := now; wr_arrivals := (wr_arrivals s); wr_finish_times := finish_times2; wr_class_count := class_count1 |}, [], (NxYield RqStoreGet PP1))).
