(* GENERATED on every run by vlib/translate.py from the current sources of $VERIF_REPO. Do not edit. *)
From Coq Require Import ZArith QArith Qminmax Qabs Bool.
From Coq Require Import List.
Import ListNotations.
(* onl/utils/timer.py: Timer.run *)
(* by vlib/translate_gen.py: the generator body cut at its program points (0 = entry, then every yield /
   listed call-out in source order); one definition per reachable point: state fields, effects in program order,
   and what the process does next *)

Record timer_run_st := { tr_start_time : Q; tr_timeout : Q; tr_expire_time : Q; tr_stopped : bool }.
Inductive timer_run_fx := .
Inductive timer_run_req :=
| RqTimeout (d : Q).
Inductive timer_run_call :=
| CoCallback.
Inductive timer_run_exn :=
| ExAssert.
(* program points (with the numeric locals that live across them) *)
Inductive timer_run_pp :=
| PP1
| PP2.
Inductive timer_run_next :=
| NxYield (r : timer_run_req) (k : timer_run_pp)
| NxCall (c : timer_run_call) (k : timer_run_pp)
| NxExit
| NxRaise (e : timer_run_exn).

(* Timer.run, program point 0: entry (the kernel processes the Initialize event) *)
Definition gen_Timer_run_from_0 (s : timer_run_st) (now : Q) (auto_restart : bool) (next_instant : Q)
  : timer_run_st * list timer_run_fx * timer_run_next :=
  (if (negb (Qle_bool (tr_expire_time s) now))
   then ({| tr_start_time := (tr_start_time s); tr_timeout := (tr_timeout s); tr_expire_time := (tr_expire_time s); tr_stopped := (tr_stopped s) |}, [], (NxYield (RqTimeout ((tr_expire_time s) - now)%Q) PP1))
   else ({| tr_start_time := (tr_start_time s); tr_timeout := (tr_timeout s); tr_expire_time := (tr_expire_time s); tr_stopped := (tr_stopped s) |}, [], NxExit)).

(* Timer.run, program point 1: resumed after line 44: `yield self.env.timeout(self.expire_time - env.now)` *)
Definition gen_Timer_run_from_1 (s : timer_run_st) (now : Q) (auto_restart : bool) (next_instant : Q)
  : timer_run_st * list timer_run_fx * timer_run_next :=
  (if (negb (tr_stopped s))
   then ({| tr_start_time := (tr_start_time s); tr_timeout := (tr_timeout s); tr_expire_time := (tr_expire_time s); tr_stopped := (tr_stopped s) |}, [], (NxCall CoCallback PP2))
   else (if (negb (Qle_bool (tr_expire_time s) now))
         then ({| tr_start_time := (tr_start_time s); tr_timeout := (tr_timeout s); tr_expire_time := (tr_expire_time s); tr_stopped := (tr_stopped s) |}, [], (NxYield (RqTimeout ((tr_expire_time s) - now)%Q) PP1))
         else ({| tr_start_time := (tr_start_time s); tr_timeout := (tr_timeout s); tr_expire_time := (tr_expire_time s); tr_stopped := (tr_stopped s) |}, [], NxExit))).

(* Timer.run, program point 1: resumed after line 44: `yield self.env.timeout(self.expire_time - env.now)`; Interrupt thrown into the generator at this point *)
Definition gen_Timer_run_from_1_intr (s : timer_run_st) (now : Q) (auto_restart : bool) (next_instant : Q)
  : timer_run_st * list timer_run_fx * timer_run_next :=
  ({| tr_start_time := (tr_start_time s); tr_timeout := (tr_timeout s); tr_expire_time := (tr_expire_time s); tr_stopped := (tr_stopped s) |}, [], NxExit).

(* Timer.run, program point 2: resumed after line 46: `self.timeout_callback( *self.args, **self.kwargs)` *)
Definition gen_Timer_run_from_2 (s : timer_run_st) (now : Q) (auto_restart : bool) (next_instant : Q)
  : timer_run_st * list timer_run_fx * timer_run_next :=
  let expire_time2 :=
    (if auto_restart
     then let expire_time1 := (now + (tr_timeout s))%Q in
          (if ((negb (Qle_bool (tr_timeout s) (0 # 1))) && (negb (negb (Qle_bool expire_time1 now))))
           then next_instant
           else expire_time1)
     else (tr_expire_time s)) in
  (if (negb (Qle_bool expire_time2 now))
   then ({| tr_start_time := (tr_start_time s); tr_timeout := (tr_timeout s); tr_expire_time := expire_time2; tr_stopped := (tr_stopped s) |}, [], (NxYield (RqTimeout (expire_time2 - now)%Q) PP1))
   else ({| tr_start_time := (tr_start_time s); tr_timeout := (tr_timeout s); tr_expire_time := expire_time2; tr_stopped := (tr_stopped s) |}, [], NxExit)).
