(* GENERATED on every run by vlib/translate.py from the current sources of $VERIF_REPO. Do not edit. *)
From Coq Require Import ZArith QArith Qminmax Qabs Bool.
From Coq Require Import List.
Import ListNotations.
(* onl/scheduler/rr.py: RR.run *)
(* by vlib/translate_gen.py: the generator body cut at its program points (0 = entry, then every yield /
   listed call-out in source order); one definition per reachable point: state fields, effects in program order,
   and what the process does next *)

(* d[k] = v on a dict modelled as a total function *)
Definition gen_upd {V : Type} (f : Z -> V) (k : Z) (v : V) : Z -> V := fun x => if Z.eqb x k then v else f x.
Record rr_run_st := { rr_queue_count : Z -> Z }.
Inductive rr_run_fx := .
Inductive rr_run_req :=
| RqStoreGet (k : Z)
| RqChild
| RqTokGet.
Inductive rr_run_exn :=
| ExAssert.
(* program points (with the numeric locals that live across them) *)
Inductive rr_run_pp :=
| PP1 (for1_rest : list Z)
| PP2 (for1_rest : list Z)
| PP3.
Inductive rr_run_next :=
| NxYield (r : rr_run_req) (k : rr_run_pp)
| NxExit
| NxRaise (e : rr_run_exn)
| NxSpin.

(* RR.run, program point 0: entry (the kernel processes the Initialize event) *)
Definition gen_RR_run_from_0 (s : rr_run_st) (total_packets : Z) (flows : list Z) (store_present : Z -> bool)
  : rr_run_st * list rr_run_fx * rr_run_next :=
  ((fix scan1_1 (l1_1 : list Z) : rr_run_st * list rr_run_fx * rr_run_next :=
      match l1_1 with
      | [] => (if (Z.eqb total_packets (0)%Z)
               then ({| rr_queue_count := (rr_queue_count s) |}, [], (NxYield RqTokGet PP3))
               else ({| rr_queue_count := (rr_queue_count s) |}, [], NxSpin))
      | x1_1 :: l1_1' => let flow_id1 := x1_1 in 
                  (if (Z.ltb (0)%Z ((rr_queue_count s) flow_id1))
                   then (if (store_present flow_id1)
                         then ({| rr_queue_count := (rr_queue_count s) |}, [], (NxYield (RqStoreGet flow_id1) (PP1 l1_1')))
                         else ({| rr_queue_count := (rr_queue_count s) |}, [], (NxRaise ExAssert)))
                   else (scan1_1 l1_1'))
      end) flows).

(* RR.run, program point 1: resumed after line 28: `packet: Packet = yield store.get()`; objects bound: packet *)
Definition gen_RR_run_from_1 (s : rr_run_st) (fr_for1_rest : list Z) (total_packets : Z) (flows : list Z) (store_present : Z -> bool)
  : rr_run_st * list rr_run_fx * rr_run_next :=
  ({| rr_queue_count := (rr_queue_count s) |}, [], (NxYield RqChild (PP2 fr_for1_rest))).

(* RR.run, program point 2: resumed after line 29: `yield env.process(self.send_packet(packet))` *)
Definition gen_RR_run_from_2 (s : rr_run_st) (fr_for1_rest : list Z) (total_packets : Z) (flows : list Z) (store_present : Z -> bool)
  : rr_run_st * list rr_run_fx * rr_run_next :=
  ((fix scan1_1 (l1_1 : list Z) : rr_run_st * list rr_run_fx * rr_run_next :=
      match l1_1 with
      | [] => (if (Z.eqb total_packets (0)%Z)
               then ({| rr_queue_count := (rr_queue_count s) |}, [], (NxYield RqTokGet PP3))
               else ((fix scan1_2 (l1_2 : list Z) : rr_run_st * list rr_run_fx * rr_run_next :=
                        match l1_2 with
                        | [] => (if (Z.eqb total_packets (0)%Z)
                                 then ({| rr_queue_count := (rr_queue_count s) |}, [], (NxYield RqTokGet PP3))
                                 else ({| rr_queue_count := (rr_queue_count s) |}, [], NxSpin))
                        | x1_2 :: l1_2' => let flow_id1 := x1_2 in 
                                    (if (Z.ltb (0)%Z ((rr_queue_count s) flow_id1))
                                     then (if (store_present flow_id1)
                                           then ({| rr_queue_count := (rr_queue_count s) |}, [], (NxYield (RqStoreGet flow_id1) (PP1 l1_2')))
                                           else ({| rr_queue_count := (rr_queue_count s) |}, [], (NxRaise ExAssert)))
                                     else (scan1_2 l1_2'))
                        end) flows))
      | x1_1 :: l1_1' => let flow_id1 := x1_1 in 
                  (if (Z.ltb (0)%Z ((rr_queue_count s) flow_id1))
                   then (if (store_present flow_id1)
                         then ({| rr_queue_count := (rr_queue_count s) |}, [], (NxYield (RqStoreGet flow_id1) (PP1 l1_1')))
                         else ({| rr_queue_count := (rr_queue_count s) |}, [], (NxRaise ExAssert)))
                   else (scan1_1 l1_1'))
      end) fr_for1_rest).

(* RR.run, program point 3: resumed after line 31: `yield self.packets_available.get()` *)
Definition gen_RR_run_from_3 (s : rr_run_st) (total_packets : Z) (flows : list Z) (store_present : Z -> bool)
  : rr_run_st * list rr_run_fx * rr_run_next :=
  ((fix scan1_1 (l1_1 : list Z) : rr_run_st * list rr_run_fx * rr_run_next :=
      match l1_1 with
      | [] => (if (Z.eqb total_packets (0)%Z)
               then ({| rr_queue_count := (rr_queue_count s) |}, [], (NxYield RqTokGet PP3))
               else ({| rr_queue_count := (rr_queue_count s) |}, [], NxSpin))
      | x1_1 :: l1_1' => let flow_id1 := x1_1 in 
                  (if (Z.ltb (0)%Z ((rr_queue_count s) flow_id1))
                   then (if (store_present flow_id1)
                         then ({| rr_queue_count := (rr_queue_count s) |}, [], (NxYield (RqStoreGet flow_id1) (PP1 l1_1')))
                         else ({| rr_queue_count := (rr_queue_count s) |}, [], (NxRaise ExAssert)))
                   else (scan1_1 l1_1'))
      end) flows).
