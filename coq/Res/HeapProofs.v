(* Proofs about the heapq transcription Res/Heap.v: heappush/heappop keep the heap invariant and the
   multiset, heappop returns a minimum, and the error result (out of fuel / bad index) never occurs. *)
From Coq Require Import ZArith List Bool Arith Lia Permutation.
From ONL Require Import Res.Heap.
Import ListNotations.

Section HeapProofs.
  Variable A : Type.
  Variable key : A -> Z.

  (* the invariant heapq maintains: heap[(i-1)>>1] <= heap[i], i.e. not heap[i] < heap[parent] *)
  Definition heap_ok (l : list A) : Prop :=
    forall i x p, 0 < i -> nth_error l i = Some x -> nth_error l (par i) = Some p -> (key p <= key x)%Z.

  (* ---- indices ---- *)
  Lemma par_cases i : 0 < i -> i = 2 * par i + 1 \/ i = 2 * par i + 2.
  Proof.
    intros H. unfold par. destruct i as [|k]; [lia|]. replace (S k - 1) with k by lia.
    destruct (Nat.Even_or_Odd k) as [[m ->]|[m ->]].
    - rewrite Nat.div2_double. lia.
    - replace (2 * m + 1) with (S (2 * m)) by lia. rewrite Nat.div2_succ_double. lia.
  Qed.
  Lemma par_lt i : 0 < i -> par i < i.
  Proof. intros H. destruct (par_cases i H); lia. Qed.
  Lemma par_child p c : c = 2 * p + 1 \/ c = 2 * p + 2 -> par c = p.
  Proof. intros H. assert (H0 : 0 < c) by lia. destruct (par_cases c H0); lia. Qed.

  (* ---- upd ---- *)
  Section WithDefault.
    Variable d : A.
  Lemma upd_length (l : list A) : forall i x, length (upd l i x) = length l.
  Proof. induction l as [|a t IH]; intros [|i] x; cbn; auto. Qed.

  Lemma nth_upd_eq (l : list A) : forall i x, i < length l -> nth i (upd l i x) d = x.
  Proof. induction l as [|a t IH]; intros [|i] x H; cbn in *; try lia; auto. apply IH. lia. Qed.

  Lemma nth_upd_neq (l : list A) : forall i j x, i <> j -> nth j (upd l i x) d = nth j l d.
  Proof. induction l as [|a t IH]; intros [|i] [|j] x H; cbn; auto; try lia. Qed.

  Lemma nth_error_upd_neq (l : list A) : forall i j x, i <> j -> nth_error (upd l i x) j = nth_error l j.
  Proof. induction l as [|a t IH]; intros [|i] [|j] x H; cbn; auto; try lia. Qed.

  Lemma upd_upd_same (l : list A) : forall i x y, upd (upd l i x) i y = upd l i y.
  Proof. induction l as [|a t IH]; intros [|i] x y; cbn; auto. f_equal. auto. Qed.

  Lemma upd_same (l : list A) : forall i x, nth_error l i = Some x -> upd l i x = l.
  Proof.
    induction l as [|a t IH]; intros [|i] x H; cbn in *; try discriminate.
    - injection H as ->. auto.
    - f_equal. auto.
  Qed.

  Lemma nth_error_nth_d (l : list A) i : i < length l -> nth_error l i = Some (nth i l d).
  Proof. intros H. apply nth_error_nth'. exact H. Qed.

  Lemma perm_upd (l : list A) : forall i y, i < length l -> Permutation (nth i l d :: upd l i y) (y :: l).
  Proof.
    induction l as [|a t IH]; intros [|i] y H; cbn in *; try lia.
    - apply perm_swap.
    - etransitivity; [apply perm_swap|]. etransitivity; [|apply perm_swap]. constructor. apply IH. lia.
  Qed.

  Lemma perm_swap_upd (l : list A) i j :
    i <> j -> i < length l -> j < length l ->
    Permutation l (upd (upd l i (nth j l d)) j (nth i l d)).
  Proof.
    intros Hne Hi Hj.
    set (a := nth i l d). set (b := nth j l d).
    assert (H1 : Permutation (b :: upd (upd l i b) j a) (a :: upd l i b)).
    { replace b with (nth j (upd l i b) d) at 1 by (rewrite nth_upd_neq; auto).
      apply perm_upd. rewrite upd_length. exact Hj. }
    assert (H2 : Permutation (a :: upd l i b) (b :: l)) by (apply perm_upd; exact Hi).
    apply Permutation_sym. eapply Permutation_cons_inv. etransitivity; eauto.
  Qed.

  (* ---- the invariant with a default element, convenient for index reasoning ---- *)
    Definition K (l : list A) (i : nat) : Z := key (nth i l d).

    Definition heap_okd (l : list A) : Prop :=
      forall i, 0 < i < length l -> (K l (par i) <= K l i)%Z.

    Lemma heap_ok_okd l : heap_ok l <-> heap_okd l.
    Proof.
      split.
      - intros H i Hi. unfold K. apply (H i); [lia| |]; apply nth_error_nth_d.
        + lia.
        + pose proof (par_lt i). lia.
      - intros H i x p Hi Hx Hp. assert (Hl : i < length l) by (apply nth_error_Some; congruence).
        specialize (H i (conj Hi Hl)). unfold K in H.
        rewrite (nth_error_nth_d l i Hl) in Hx. injection Hx as <-.
        assert (Hl2 : par i < length l) by (pose proof (par_lt i); lia).
        rewrite (nth_error_nth_d l (par i) Hl2) in Hp. injection Hp as <-. exact H.
    Qed.

    Lemma heap_min l : heap_okd l -> forall i, i < length l -> (K l 0 <= K l i)%Z.
    Proof.
      intros H i. induction i as [i IH] using lt_wf_ind. intros Hi.
      destruct i as [|k]; [lia|].
      assert (Hp : par (S k) < S k) by (apply par_lt; lia).
      specialize (IH (par (S k)) Hp ltac:(lia)). specialize (H (S k) ltac:(lia)). lia.
    Qed.

    Lemma heap_okd_prefix l1 l2 : heap_okd (l1 ++ l2) -> heap_okd l1.
    Proof.
      intros H i Hi. specialize (H i). rewrite app_length in H. specialize (H ltac:(lia)).
      unfold K in *. pose proof (par_lt i). rewrite !app_nth1 in H by lia. exact H.
    Qed.

    (* siftdown: all edges fine except the one into pos; grandparent <= children of pos *)
    Definition Qa (v : list A) (pos : nat) : Prop :=
      forall i, 0 < i < length v -> i <> pos -> (K v (par i) <= K v i)%Z.
    Definition Qb (v : list A) (pos : nat) : Prop :=
      0 < pos -> forall c, 0 < c < length v -> par c = pos -> (K v (par pos) <= K v c)%Z.

    Lemma siftdown_hole fuel (h : list A) x pos y :
      siftdown key fuel (upd h pos y) 0 x pos = siftdown key fuel h 0 x pos.
    Proof.
      destruct fuel as [|f]; cbn [siftdown]; [auto|].
      destruct (Nat.ltb 0 pos) eqn:E; [|rewrite upd_upd_same; reflexivity].
      apply Nat.ltb_lt in E. pose proof (par_lt pos E) as Hlt.
      rewrite nth_error_upd_neq by lia.
      destruct (nth_error h (par pos)) as [parent|]; [|auto].
      rewrite !upd_upd_same. reflexivity.
    Qed.

    Lemma nth_swap (v : list A) pos pp a b i :
      pos <> pp -> pos < length v -> pp < length v ->
      nth i (upd (upd v pos b) pp a) d =
      if Nat.eqb i pp then a else if Nat.eqb i pos then b else nth i v d.
    Proof.
      intros Hne H1 H2. destruct (Nat.eqb i pp) eqn:E1.
      - apply Nat.eqb_eq in E1. subst i. apply nth_upd_eq. rewrite upd_length. exact H2.
      - apply Nat.eqb_neq in E1. rewrite nth_upd_neq by auto.
        destruct (Nat.eqb i pos) eqn:E2.
        + apply Nat.eqb_eq in E2. subst i. apply nth_upd_eq. exact H1.
        + apply Nat.eqb_neq in E2. apply nth_upd_neq. auto.
    Qed.

    Lemma siftdown_spec : forall fuel v x pos,
      pos < fuel -> pos < length v -> nth pos v d = x -> Qa v pos -> Qb v pos ->
      exists h', siftdown key fuel v 0 x pos = Some h' /\ heap_okd h' /\ Permutation v h'.
    Proof.
      induction fuel as [|f IH]; intros v x pos Hf Hl Hx HQa HQb; [lia|].
      assert (Hsame : upd v pos x = v).
      { apply upd_same. rewrite (nth_error_nth_d v pos Hl). f_equal. exact Hx. }
      cbn [siftdown]. destruct (Nat.ltb 0 pos) eqn:E.
      - apply Nat.ltb_lt in E. pose proof (par_lt pos E) as Hpp.
        set (pp := par pos) in *.
        rewrite (nth_error_nth_d v pp) by lia.
        set (parent := nth pp v d).
        destruct (hlt key x parent) eqn:Hc.
        + (* move the parent down, continue at the parent's position *)
          unfold hlt in Hc. apply Z.ltb_lt in Hc.
          rewrite <- (siftdown_hole f (upd v pos parent) x pp x).
          set (v1 := upd (upd v pos parent) pp x).
          assert (Hn : forall i, nth i v1 d = if Nat.eqb i pp then x else if Nat.eqb i pos then parent else nth i v d)
            by (intros i; apply nth_swap; lia).
          assert (Hlen : length v1 = length v) by (unfold v1; rewrite !upd_length; auto).
          destruct (IH v1 x pp) as (h' & Hs & Hok & Hperm).
          * lia.
          * lia.
          * rewrite Hn, Nat.eqb_refl. reflexivity.
          * intros i Hi Hne. unfold K. rewrite !Hn. rewrite Hlen in Hi.
            assert (Hpi : par i < i) by (apply par_lt; lia).
            destruct (Nat.eqb i pp) eqn:E1; [apply Nat.eqb_eq in E1; lia|].
            destruct (Nat.eqb i pos) eqn:E2.
            -- apply Nat.eqb_eq in E2. subst i. fold pp. rewrite Nat.eqb_refl. lia.
            -- apply Nat.eqb_neq in E2.
               destruct (Nat.eqb (par i) pp) eqn:E3.
               ++ apply Nat.eqb_eq in E3. specialize (HQa i Hi E2). unfold K in HQa. rewrite E3 in HQa.
                  fold parent in HQa. lia.
               ++ destruct (Nat.eqb (par i) pos) eqn:E4.
                  ** apply Nat.eqb_eq in E4. specialize (HQb E i Hi E4). unfold K in HQb. fold pp in HQb.
                     fold parent in HQb. exact HQb.
                  ** apply (HQa i Hi E2).
          * intros Hpp0 c Hcc Hpc. unfold K. rewrite !Hn. rewrite Hlen in Hcc.
            assert (Hppp : par pp < pp) by (apply par_lt; lia).
            replace (Nat.eqb (par pp) pp) with false by (symmetry; apply Nat.eqb_neq; lia).
            replace (Nat.eqb (par pp) pos) with false by (symmetry; apply Nat.eqb_neq; lia).
            assert (H1 : (K v (par pp) <= K v pp)%Z) by (apply HQa; lia).
            unfold K in H1. fold parent in H1.
            destruct (Nat.eqb c pp) eqn:E1; [apply Nat.eqb_eq in E1; pose proof (par_lt c); lia|].
            destruct (Nat.eqb c pos) eqn:E2; [exact H1|].
            apply Nat.eqb_neq in E2. specialize (HQa c Hcc E2). unfold K in HQa. rewrite Hpc in HQa.
            fold parent in HQa. lia.
          * exists h'. split; [exact Hs|]. split; [exact Hok|].
            etransitivity; [|exact Hperm]. unfold v1, parent. rewrite <- Hx.
            apply perm_swap_upd; lia.
        + (* newitem is not smaller than the parent: it stays here *)
          unfold hlt in Hc. apply Z.ltb_ge in Hc. rewrite Hsame.
          exists v. split; [reflexivity|]. split; [|apply Permutation_refl].
          intros i Hi. destruct (Nat.eq_dec i pos) as [->|Hne]; [|apply HQa; auto].
          unfold K. fold pp. fold parent. rewrite Hx. exact Hc.
      - apply Nat.ltb_ge in E. assert (pos = 0) by lia. subst pos. rewrite Hsame.
        exists v. split; [reflexivity|]. split; [|apply Permutation_refl].
        intros i Hi. apply HQa; lia.
    Qed.

    (* the first loop of _siftup: a hole travels from pos to a leaf; every edge that does not touch the
       hole is fine, and the parent of the hole is <= the children of the hole *)
    Definition Ra (h : list A) (pos : nat) : Prop :=
      forall i, 0 < i < length h -> i <> pos -> par i <> pos -> (K h (par i) <= K h i)%Z.
    Definition Rb (h : list A) (pos : nat) : Prop :=
      0 < pos -> forall c, 0 < c < length h -> par c = pos -> (K h (par pos) <= K h c)%Z.

    Lemma siftup_loop_spec : forall fuel h pos,
      length h - pos <= fuel -> pos < length h -> Ra h pos -> Rb h pos ->
      exists h' leaf, siftup_loop key fuel h pos = Some (h', leaf) /\
        length h' = length h /\ leaf < length h /\ length h <= 2 * leaf + 1 /\
        Ra h' leaf /\ Rb h' leaf /\ forall y, Permutation (upd h pos y) (upd h' leaf y).
    Proof.
      induction fuel as [|f IH]; intros h pos Hf Hl HRa HRb; [lia|].
      cbn [siftup_loop]. set (n := length h) in *.
      destruct (Nat.ltb (2 * pos + 1) n) eqn:E.
      - apply Nat.ltb_lt in E.
        rewrite (nth_error_nth_d h (2 * pos + 1)) by exact E.
        set (cl := nth (2 * pos + 1) h d).
        (* the chosen child *)
        assert (Hpick : exists cp,
          (if Nat.ltb (2 * pos + 1 + 1) n
           then match nth_error h (2 * pos + 1 + 1) with
                | None => None
                | Some cr => Some (if negb (hlt key cl cr) then 2 * pos + 1 + 1 else 2 * pos + 1)
                end
           else Some (2 * pos + 1)) = Some cp /\
          (cp = 2 * pos + 1 \/ cp = 2 * pos + 2) /\ cp < n /\
          forall c, 0 < c < n -> par c = pos -> (K h cp <= K h c)%Z).
        { destruct (Nat.ltb (2 * pos + 1 + 1) n) eqn:E2.
          - apply Nat.ltb_lt in E2. rewrite (nth_error_nth_d h (2 * pos + 1 + 1)) by exact E2.
            set (cr := nth (2 * pos + 1 + 1) h d).
            destruct (hlt key cl cr) eqn:Hc; cbn [negb]; unfold hlt in Hc.
            + apply Z.ltb_lt in Hc. exists (2 * pos + 1). split; [reflexivity|]. split; [lia|]. split; [lia|].
              intros c Hc0 Hpc. destruct (par_cases c ltac:(lia)) as [Hcc|Hcc]; rewrite Hpc in Hcc; subst c; unfold K.
              * lia.
              * fold cl. replace (2 * pos + 2) with (2 * pos + 1 + 1) by lia. fold cr. lia.
            + apply Z.ltb_ge in Hc. exists (2 * pos + 1 + 1). split; [reflexivity|]. split; [lia|]. split; [lia|].
              intros c Hc0 Hpc. destruct (par_cases c ltac:(lia)) as [Hcc|Hcc]; rewrite Hpc in Hcc; subst c; unfold K.
              * fold cl. fold cr. lia.
              * replace (2 * pos + 2) with (2 * pos + 1 + 1) by lia. lia.
          - apply Nat.ltb_ge in E2. exists (2 * pos + 1). split; [reflexivity|]. split; [lia|]. split; [lia|].
            intros c Hc0 Hpc. destruct (par_cases c ltac:(lia)) as [Hcc|Hcc]; rewrite Hpc in Hcc; subst c; [lia|lia]. }
        destruct Hpick as (cp & -> & Hcp & Hcpn & Hmin).
        rewrite (nth_error_nth_d h cp) by exact Hcpn.
        set (c := nth cp h d).
        assert (Hpcp : par cp = pos) by (apply par_child; lia).
        set (h1 := upd h pos c).
        assert (Hlen1 : length h1 = n) by (unfold h1; apply upd_length).
        assert (Hn1 : forall j, nth j h1 d = if Nat.eqb j pos then c else nth j h d).
        { intros j. unfold h1. destruct (Nat.eqb j pos) eqn:Ej.
          - apply Nat.eqb_eq in Ej. subst j. apply nth_upd_eq. exact Hl.
          - apply Nat.eqb_neq in Ej. apply nth_upd_neq. auto. }
        destruct (IH h1 cp) as (h' & leaf & Hs & Hlen' & Hleaf & Hnc & HRa' & HRb' & Hperm).
        + rewrite Hlen1. lia.
        + rewrite Hlen1. exact Hcpn.
        + intros i Hi Hne Hpne. rewrite Hlen1 in Hi. unfold K. rewrite !Hn1.
          assert (Hpi : par i < i) by (apply par_lt; lia).
          destruct (Nat.eqb i pos) eqn:E1.
          * apply Nat.eqb_eq in E1. subst i.
            replace (Nat.eqb (par pos) pos) with false by (symmetry; apply Nat.eqb_neq; lia).
            apply (HRb ltac:(lia) cp); [lia|exact Hpcp].
          * apply Nat.eqb_neq in E1. destruct (Nat.eqb (par i) pos) eqn:E2.
            -- apply Nat.eqb_eq in E2. apply (Hmin i Hi E2).
            -- apply Nat.eqb_neq in E2. apply (HRa i Hi E1 E2).
        + intros _ c2 Hc2 Hpc2. rewrite Hlen1 in Hc2. unfold K. rewrite !Hn1. rewrite Hpcp, Nat.eqb_refl.
          assert (Hc2p : par c2 < c2) by (apply par_lt; lia).
          replace (Nat.eqb c2 pos) with false by (symmetry; apply Nat.eqb_neq; lia).
          assert (H2 : (K h (par c2) <= K h c2)%Z) by (apply HRa; lia).
          rewrite Hpc2 in H2. exact H2.
        + exists h', leaf. split; [exact Hs|]. rewrite Hlen1 in *. repeat split; auto; try lia.
          intros y. etransitivity; [|apply Hperm].
          set (w := upd h pos y).
          assert (Hw : Permutation w (upd (upd w pos (nth cp w d)) cp (nth pos w d))).
          { apply perm_swap_upd; unfold w; rewrite ?upd_length; lia. }
          unfold w in Hw at 2 3 4. rewrite nth_upd_neq in Hw by lia. rewrite nth_upd_eq in Hw by exact Hl.
          rewrite upd_upd_same in Hw. exact Hw.
      - apply Nat.ltb_ge in E. exists h, pos. split; [reflexivity|]. repeat split; auto; try lia.
    Qed.

    (* _siftup(heap, 0) on an array whose slot 0 was overwritten *)
    Lemma siftup_spec (h : list A) x :
      0 < length h -> nth 0 h d = x -> Ra h 0 ->
      exists h', siftup key h 0 = Some h' /\ heap_okd h' /\ Permutation h h'.
    Proof.
      intros Hl Hx HRa. unfold siftup.
      rewrite (nth_error_nth_d h 0 Hl), Hx.
      destruct (siftup_loop_spec (length h) h 0) as (h1 & leaf & -> & Hlen & Hleaf & Hnc & HRa1 & HRb1 & Hperm); auto; try lia.
      { intros H; lia. }
      set (v := upd h1 leaf x).
      assert (Hlv : length v = length h) by (unfold v; rewrite upd_length; auto).
      assert (Hnv : forall j, j <> leaf -> nth j v d = nth j h1 d) by (intros j Hj; unfold v; apply nth_upd_neq; auto).
      destruct (siftdown_spec (S leaf) v x leaf) as (h' & Hs & Hok & Hp).
      - lia.
      - lia.
      - unfold v. apply nth_upd_eq. lia.
      - intros i Hi Hne. rewrite Hlv in Hi. unfold K.
        assert (Hpi : par i <> leaf).
        { intros Hc. destruct (par_cases i ltac:(lia)) as [H1|H1]; rewrite Hc in H1; lia. }
        rewrite !Hnv by auto. apply HRa1; auto. lia.
      - intros _ c Hc Hpc. rewrite Hlv in Hc. destruct (par_cases c ltac:(lia)) as [H1|H1]; rewrite Hpc in H1; lia.
      - exists h'. split; [exact Hs|]. split; [exact Hok|].
        etransitivity; [|exact Hp]. unfold v.
        replace h with (upd h 0 x) at 1; [apply Hperm|].
        apply upd_same. rewrite (nth_error_nth_d h 0 Hl). f_equal. exact Hx.
    Qed.
  End WithDefault.

  (* ---- the public statements (no default element) ---- *)
  Lemma heap_ok_nil : heap_ok [].
  Proof. intros i x p _ H. destruct i; discriminate. Qed.

  Theorem heappush_spec h x :
    heap_ok h -> exists h', heappush key h x = Some h' /\ heap_ok h' /\ Permutation (x :: h) h'.
  Proof.
    intros Hok. apply (heap_ok_okd x) in Hok. unfold heappush.
    set (v := h ++ [x]).
    assert (Hlen : length v = S (length h)) by (unfold v; rewrite app_length; cbn; lia).
    rewrite Hlen. replace (S (length h) - 1) with (length h) by lia.
    destruct (siftdown_spec x (S (length h)) v x (length h)) as (h' & Hs & Hok' & Hp).
    - lia.
    - lia.
    - unfold v. rewrite app_nth2 by lia. rewrite Nat.sub_diag. reflexivity.
    - intros i Hi Hne. rewrite Hlen in Hi. unfold K, v. pose proof (par_lt i ltac:(lia)).
      rewrite !app_nth1 by lia. apply Hok. lia.
    - intros Hpos c Hc Hpc. rewrite Hlen in Hc. destruct (par_cases c ltac:(lia)) as [H1|H1]; rewrite Hpc in H1; lia.
    - exists h'. split; [exact Hs|]. split; [apply (heap_ok_okd x); exact Hok'|].
      etransitivity; [|exact Hp]. unfold v. apply Permutation_cons_append.
  Qed.

  Theorem heappop_spec h :
    h <> [] -> heap_ok h ->
    exists x h', heappop key h = Some (x, h') /\ heap_ok h' /\ Permutation h (x :: h') /\
                 forall y, In y h -> (key x <= key y)%Z.
  Proof.
    intros Hne Hok. destruct (exists_last Hne) as (h0 & lastelt & ->).
    apply (heap_ok_okd lastelt) in Hok. unfold heappop.
    rewrite app_length. cbn [length]. replace (length h0 + 1 - 1) with (length h0) by lia.
    rewrite nth_error_app2 by lia. rewrite Nat.sub_diag. cbn [nth_error].
    rewrite firstn_app, firstn_all, Nat.sub_diag. cbn [firstn]. rewrite app_nil_r.
    destruct h0 as [|r t].
    - exists lastelt, []. split; [reflexivity|]. split; [apply heap_ok_nil|]. split; [apply Permutation_refl|].
      intros y [<-|[]]. lia.
    - cbn [upd].
      pose proof (heap_okd_prefix lastelt _ _ Hok) as Hok0.
      destruct (siftup_spec lastelt (lastelt :: t) lastelt) as (h' & Hs & Hok' & Hp).
      + cbn; lia.
      + reflexivity.
      + intros i Hi Hne0 Hpne. cbn [length] in Hi. unfold K.
        destruct i as [|i]; [lia|]. destruct (par (S i)) as [|pi] eqn:Epi; [lia|].
        cbn [nth]. specialize (Hok0 (S i)). cbn [length] in Hok0. specialize (Hok0 ltac:(lia)).
        unfold K in Hok0. rewrite Epi in Hok0. cbn [nth] in Hok0. exact Hok0.
      + rewrite Hs. exists r, h'. split; [reflexivity|]. split; [apply (heap_ok_okd lastelt); exact Hok'|]. split.
        * cbn [app]. constructor. etransitivity; [|exact Hp]. apply Permutation_sym, Permutation_cons_append.
        * intros y Hy. destruct (In_nth _ _ lastelt Hy) as (i & Hi & <-).
          pose proof (heap_min lastelt _ Hok i Hi) as Hm. unfold K in Hm. cbn [app nth] in Hm. exact Hm.
  Qed.

  (* the error result never occurs, whatever the list looks like *)
  Lemma siftdown_total : forall fuel (h : list A) x pos,
    pos < fuel -> pos < length h -> siftdown key fuel h 0 x pos <> None.
  Proof.
    induction fuel as [|f IH]; intros h x pos Hf Hl; [lia|]. cbn [siftdown].
    destruct (Nat.ltb 0 pos) eqn:E; [|discriminate].
    apply Nat.ltb_lt in E. pose proof (par_lt pos E) as Hp.
    destruct (nth_error h (par pos)) as [parent|] eqn:En.
    - destruct (hlt key x parent); [|discriminate]. apply IH; [lia|]. rewrite upd_length. lia.
    - apply nth_error_None in En. lia.
  Qed.

  Lemma siftup_loop_total : forall fuel (h : list A) pos,
    length h - pos <= fuel -> pos < length h ->
    exists h' leaf, siftup_loop key fuel h pos = Some (h', leaf) /\ length h' = length h /\ leaf < length h.
  Proof.
    induction fuel as [|f IH]; intros h pos Hf Hl; [lia|]. cbn [siftup_loop].
    destruct (Nat.ltb (2 * pos + 1) (length h)) eqn:E; [|exists h, pos; auto].
    apply Nat.ltb_lt in E.
    destruct (nth_error h (2 * pos + 1)) as [cl|] eqn:E1; [|apply nth_error_None in E1; lia].
    assert (Hpick : exists cp,
      (if Nat.ltb (2 * pos + 1 + 1) (length h)
       then match nth_error h (2 * pos + 1 + 1) with
            | None => None
            | Some cr => Some (if negb (hlt key cl cr) then 2 * pos + 1 + 1 else 2 * pos + 1)
            end
       else Some (2 * pos + 1)) = Some cp /\ pos < cp < length h).
    { destruct (Nat.ltb (2 * pos + 1 + 1) (length h)) eqn:E2.
      - apply Nat.ltb_lt in E2.
        destruct (nth_error h (2 * pos + 1 + 1)) as [cr|] eqn:E3; [|apply nth_error_None in E3; lia].
        destruct (negb (hlt key cl cr)); eexists; split; try reflexivity; lia.
      - eexists; split; [reflexivity|lia]. }
    destruct Hpick as (cp & -> & Hcp).
    destruct (nth_error h cp) as [c|] eqn:E4; [|apply nth_error_None in E4; lia].
    destruct (IH (upd h pos c) cp) as (h' & leaf & Hs & Hl1 & Hl2).
    - rewrite upd_length. lia.
    - rewrite upd_length. lia.
    - rewrite upd_length in *. exists h', leaf. auto.
  Qed.

  Theorem heappush_total h x : heappush key h x <> None.
  Proof. unfold heappush. apply siftdown_total; rewrite app_length; cbn; lia. Qed.

  Theorem heappop_total h : h <> [] -> heappop key h <> None.
  Proof.
    intros Hne. destruct (exists_last Hne) as (h0 & lastelt & ->). unfold heappop.
    rewrite app_length. cbn [length]. replace (length h0 + 1 - 1) with (length h0) by lia.
    rewrite nth_error_app2 by lia. rewrite Nat.sub_diag. cbn [nth_error].
    rewrite firstn_app, firstn_all, Nat.sub_diag. cbn [firstn]. rewrite app_nil_r.
    destruct h0 as [|r t]; [discriminate|]. cbn [upd]. unfold siftup. cbn [nth_error].
    destruct (siftup_loop_total (length (lastelt :: t)) (lastelt :: t) 0) as (h' & leaf & -> & Hl1 & Hl2); [lia|cbn; lia|].
    destruct (siftdown key (S leaf) (upd h' leaf lastelt) 0 lastelt leaf) eqn:Es; [discriminate|].
    exfalso. revert Es. apply siftdown_total; [lia|]. rewrite upd_length. lia.
  Qed.
  Theorem heap_total h x : heappush key h x <> None /\ (h <> [] -> heappop key h <> None).
  Proof. split; [apply heappush_total|apply heappop_total]. Qed.
End HeapProofs.

(* the six equal-priority items of the design note leave in the order CPython produces *)
Example heap_ties :
  let push := fun h x => match heappush (fun p : Z * Z => fst p) h x with Some h' => h' | None => h end in
  let h := fold_left push [(1, 0); (1, 1); (1, 2); (1, 3); (1, 4); (1, 5)]%Z [] in
  (fix pops (n : nat) (h : list (Z * Z)) : list Z :=
     match n with O => [] | S k => match heappop (fun p => fst p) h with Some (x, h') => snd x :: pops k h' | None => [] end end) 6 h
  = [0; 2; 5; 4; 1; 3]%Z.
Proof. vm_compute. reflexivity. Qed.
